import MiniVecProof.Model.World
/-
  Line-protocol driver (see /verif/PROTOCOL.md): reads a case file on stdin, runs `MV.step`,
  prints the canonical trace. Malformed lines print `= bad-op`; nothing is defaulted.
-/
open MV

def splitOnChar (c : Char) (s : List Char) : List (List Char) :=
  -- linear: pieces and the current piece are accumulated in reverse
  let rec go (done : List (List Char)) (cur : List Char) (rest : List Char) : List (List Char) :=
    match rest with
    | [] => (cur.reverse :: done).reverse
    | x :: xs => if x == c then go (cur.reverse :: done) [] xs else go done (x :: cur) xs
  go [] [] s

def words (s : String) : List String :=
  ((splitOnChar ' ' s.toList).filter (· ≠ [])).map String.ofList

def natOf (cs : List Char) : Option Nat :=
  if cs.isEmpty then none
  else cs.foldl (fun acc c => match acc with
    | none => none
    | some n => if c.isDigit then some (n * 10 + (c.toNat - '0'.toNat)) else none) (some 0)

def natOfS (s : String) : Option Nat :=
  match natOf s.toList with
  | some n => if n < W then some n else none
  | none => none

def intOf (cs : List Char) : Option Int :=
  match cs with
  | '-' :: rest => (natOf rest).map (fun n => -(n : Int))
  | _ => (natOf cs).map (fun n => (n : Int))

def intOfS (s : String) : Option Int := intOf s.toList

def bound1 (cs : List Char) : Option Bound :=
  match cs with
  | ['U'] => some .unbounded
  | 'I' :: r => (natOf r).bind (fun n => if n < W then some (.included n) else none)
  | 'E' :: r => (natOf r).bind (fun n => if n < W then some (.excluded n) else none)
  | _ => none

/-- `I1>I7`: a `RangeBounds` whose answer changes between calls. The code asks each bound once, so the model goes by the
    FIRST answer (every part must be well formed, at most 4 parts: what the harness accepts). -/
def boundOf (s : String) : Option Bound :=
  let parts := s.splitOn ">"
  if parts.length > 4 then none
  else match parts.mapM (fun p => bound1 p.toList) with
    | some (b :: _) => some b
    | _ => none

def stripPrefix (p : String) (s : List Char) : Option (List Char) :=
  let pl := p.toList
  if s.take pl.length == pl then some (s.drop pl.length) else none

def tfOf (cs : List Char) : Option (List Bool) :=
  cs.foldr (fun c acc => match acc with
    | none => none
    | some l => if c == 'T' then some (true :: l) else if c == 'F' then some (false :: l) else none) (some [])

def predOf (s : String) : Option PredTok :=
  let cs := s.toList
  match stripPrefix "seq" cs with
  | some r => (tfOf r).map .seq
  | none =>
    match stripPrefix "mod" cs with
    | some r =>
      (match splitOnChar '=' r with
       | [a, b] => (match natOf a, natOf b with
          | some m, some k => if m > 0 then some (.mod m k) else none
          | _, _ => none)
       | _ => none)
    | none => none

def intListOf (cs : List Char) : Option (List Int) :=
  if cs.isEmpty then some [] else
  (splitOnChar ',' cs).foldr (fun t acc => match acc, intOf t with
    | some l, some v => some (v :: l)
    | _, _ => none) (some [])

def keyOf (s : String) : Option KeyTok :=
  let cs := s.toList
  match stripPrefix "kmod" cs with
  | some r => (natOf r).bind (fun m => if m > 0 then some (.kmod m) else none)
  | none =>
    match stripPrefix "kseq" cs with
    | some r => (intListOf r).map .kseq
    | none => none

/-- `it[5,6,N,7]` with an optional `h<lo>-<hi>` suffix (the hint is not used by MiniVec) -/
def iterOf (s : String) : Option Vec.IterScript :=
  match stripPrefix "it[" s.toList with
  | none => none
  | some r =>
    let body := r.takeWhile (· ≠ ']')
    let rest := (r.dropWhile (· ≠ ']'))
    if rest.isEmpty then none else
    if body.isEmpty then some [] else
    (splitOnChar ',' body).foldr (fun t acc => match acc with
      | none => none
      | some l => if t == ['N'] then some (none :: l) else (intOf t).map (fun v => some v :: l)) (some [])

def genOf (s : String) : Option (List Int) :=
  match stripPrefix "g[" s.toList with
  | none => none
  | some r =>
    let body := r.takeWhile (· ≠ ']')
    if (r.dropWhile (· ≠ ']')) == [']'] then intListOf body else none

def hintOf (s : String) : Option (Option Nat) :=
  if s == "N" then some none else (natOfS s).map some

def seqOf (s : String) : Option (List SeqItem) :=
  match stripPrefix "sq[" s.toList with
  | none => none
  | some r =>
    let body := r.takeWhile (· ≠ ']')
    if (r.dropWhile (· ≠ ']')) != [']'] then none else
    if body.isEmpty then some [] else
    (splitOnChar ',' body).foldr (fun t acc => match acc with
      | none => none
      | some l => if t == ['E'] then some (SeqItem.err :: l) else if t == ['N'] then some (SeqItem.none :: l) else (intOf t).map (fun v => SeqItem.val v :: l)) (some [])

def allInts (ws : List String) : Option (List Int) :=
  ws.foldr (fun t acc => match acc, intOfS t with
    | some l, some v => some (v :: l)
    | _, _ => none) (some [])

def parseOp (ws : List String) : Option Op :=
  match ws with
  | ["new", r] => some (.new r)
  | ["default", r] => some (.default r)
  | ["macro_empty", r] => some (.macro_empty r)
  | ["with_capacity", r, n] => (natOfS n).map (.with_capacity r)
  | ["with_alignment", r, n, a] => do some (.with_alignment r (← natOfS n) (← natOfS a))
  | "from_slice" :: r :: vs => (allInts vs).map (.from_slice r)
  | "from_mut_slice" :: r :: vs => (allInts vs).map (.from_slice r)
  | ["collect", r, it] => (iterOf it).map (.collect r)
  | "macro_list" :: r :: vs => if vs.isEmpty then none else (allInts vs).map (.macro_list r)
  | ["macro_repeat", r, v, n] => do some (.macro_repeat r (← intOfS v) (← natOfS n))
  | ["push", r, v] => (intOfS v).map (.push r)
  | ["pop", r] => some (.pop r)
  | ["insert", r, i, v] => do some (.insert r (← natOfS i) (← intOfS v))
  | ["remove", r, i] => (natOfS i).map (.remove r)
  | ["swap_remove", r, i] => (natOfS i).map (.swap_remove r)
  | ["truncate", r, n] => (natOfS n).map (.truncate r)
  | ["clear", r] => some (.clear r)
  | ["resize", r, n, v] => do some (.resize r (← natOfS n) (← intOfS v))
  | ["resize_with", r, n, g] => do some (.resize_with r (← natOfS n) (← genOf g))
  | ["extend", r, it] => (iterOf it).map (.extend r)
  | "extend_from_slice" :: r :: vs => (allInts vs).map (.extend_from_slice r)
  | ["extend_from_within", r, a, b] => do some (.extend_from_within r (← boundOf a) (← boundOf b))
  | ["append", r, r2] => some (.append r r2)
  | ["split_off", r, n, rn] => (natOfS n).map (fun k => .split_off r k rn)
  | ["drain_vec", r, rn] => some (.drain_vec r rn)
  | ["dedup", r] => some (.dedup r)
  | ["dedup_by", r, p] => (predOf p).map (.dedup_by r)
  | ["dedup_by_key", r, k] => (keyOf k).map (.dedup_by_key r)
  | ["retain", r, p] => (predOf p).map (.retain r)
  | ["remove_item", r, v] => (intOfS v).map (.remove_item r)
  | ["reserve", r, n] => (natOfS n).map (.reserve r)
  | ["reserve_exact", r, n] => (natOfS n).map (.reserve_exact r)
  | ["shrink_to", r, n] => (natOfS n).map (.shrink_to r)
  | ["shrink_to_fit", r] => some (.shrink_to_fit r)
  | ["clone", r, rn] => some (.clone r rn)
  | ["compare", r, r2] => some (.compare r r2)
  | ["spare", r] => some (.spare r)
  | ["split_spare", r] => some (.split_spare r)
  | ["raw_parts", r] => some (.raw_parts r)
  | ["raw_part", r] => some (.raw_part r)
  | ["leak", r] => some (.leak r)
  | ["drop", r] => some (.drop r)
  | ["forget", r] => some (.forget r)
  | ["drain", r, a, b, it] => do some (.drain r (← boundOf a) (← boundOf b) it)
  | ["splice", r, a, b, f, it] => do some (.splice r (← boundOf a) (← boundOf b) (← iterOf f) it)
  | ["drain_filter", r, p, it] => (predOf p).map (fun q => .drain_filter r q it)
  | ["into_iter", r, it] => some (.into_iter r it)
  | ["next", it] => some (.next it)
  | ["next_back", it] => some (.next_back it)
  | ["nth", it, k] => k.toNat?.map (.nth it)
  | ["nth_back", it, k] => k.toNat?.map (.nth_back it)
  | ["count", it] => some (.count it)
  | ["last", it] => some (.last it)
  | ["views", r] => some (.views r)
  | ["iter_views", it] => some (.iter_views it)
  | ["clone_from_iter", it, src] => some (.clone_from_iter it src)
  | ["fill_spare", r, k, v] => (do let k ← natOfS k; let v ← intOfS v; pure (.fill_spare r false k v))
  | ["fill_split_spare", r, k, v] => (do let k ← natOfS k; let v ← intOfS v; pure (.fill_spare r true k v))
  | ["size_hint", it] => some (.size_hint it)
  | ["len", it] => some (.len it)
  | ["as_slice", it] => some (.as_slice it)
  | ["clone_iter", it, itn] => some (.clone_iter it itn)
  | ["serialize", r] => some (.serialize r)
  | ["clone_from", r, r2] => some (.clone_from r r2)
  | ["from_str", n] => (natOfS n).map .from_str
  | ["serialize_u8", n] => (natOfS n).map .from_str   -- same vector, same allocator traffic; serializing adds no event
  | ["extend_ref", n, it] => do some (.extend_ref (← natOfS n) (← iterOf it))
  | ["deserialize", r, h, sq] => do some (.deserialize r (← hintOf h) (← seqOf sq))
  | ["deserialize_in_place", r, h, sq] => do some (.deserialize_in_place r (← hintOf h) (← seqOf sq))
  | _ => none

def showElem (e : Elem) : String := s!"{e.id}:{e.val}"
def showElems (es : List Elem) : String := "[" ++ " ".intercalate (es.map showElem) ++ "]"
def showOrd : Ordering → String
  | .lt => "lt" | .eq => "eq" | .gt => "gt"

def showOut : Out → String
  | .ok => "ok"
  | .none => "none"
  | .some e => "some " ++ showElem e
  | .nums ns => " ".intercalate (ns.map toString)
  | .hint lo hi => s!"{lo} " ++ (match hi with | some h => toString h | none => "N")
  | .elems es => showElems es
  | .errName s => "err " ++ s
  | .err => "err"
  | .fromStr n => s!"{n} same"
  | .cmp eq pc c heq =>
    (if eq then "eq" else "ne") ++ " " ++ (match pc with | some o => showOrd o | none => "none") ++ " "
      ++ showOrd c ++ " " ++ (if heq then "heq" else "hne")
  | .stopped p => (match p with
    | .allocError => "abort"
    | .doublePanic => "abort-other"
    | .fuel => "hang"
    | .ub | .debugAssert => "ub"
    | _ => "panic")
  | .badOp => "bad-op"

def showSlot : Slot → String
  | some e => showElem e
  | none => "?"

def showEv : Ev → Option String
  | .alloc s a => some s!"A {s} {a}"
  | .realloc os oa ns => some s!"R {os} {oa} {ns}"
  | .dealloc s a => some s!"F {s} {a}"
  | .allocFail => some "Z"
  | .clone s n => some s!"C {s} {n}"
  | .drop i => some s!"D {i}"
  | .ub w => some s!"! ub {w}"

def insertSorted (x : Nat) : List Nat → List Nat
  | [] => [x]
  | y :: ys => if x ≤ y then x :: y :: ys else y :: insertSorted x ys

/-- print the events of one operation; unless a panic was injected in it, the ids of the `D`
    lines are redistributed in ascending order over the positions the `D` lines occupy -/
def printEvents (evs : List Ev) (sortDrops : Bool) : IO Unit := do
  let sorted := (evs.filterMap (fun e => match e with | .drop i => some i | _ => none)).foldr insertSorted []
  let mut rest := sorted
  for e in evs do
    match e with
    | .drop i =>
      if sortDrops then
        match rest with
        | j :: tl => IO.println s!"D {j}"; rest := tl
        | [] => IO.println s!"D {i}"
      else IO.println s!"D {i}"
    | _ =>
      match showEv e with | some s => IO.println s | none => pure ()

def printState (w : World) : IO Unit := do
  for (r, o) in w.regs do
    match o with
    | .vec v =>
      let len := if v.isDefault then 0 else v.len
      let cap := if v.isDefault then 0 else v.cap
      IO.println s!"S {r} {len} {cap} [{" ".intercalate (v.view.map showSlot)}]"
    | _ => pure ()

structure Case where
  X : Ctx
  w : World := {}
  dead : Bool := false      -- after an abort / illegal access nothing more is executed

def classOf : String → Option Cfg
  | "b1" => some ⟨1, 1, true⟩
  | "w4" => some ⟨4, 4, true⟩
  | "p4" => some ⟨4, 4, false⟩
  | "p1" => some ⟨1, 1, false⟩
  | "s16" => some ⟨16, 8, true⟩
  | "a32" => some ⟨32, 32, true⟩
  | "a16" => some ⟨16, 16, true⟩
  | "big" => some ⟨2048, 8, true⟩
  | _ => none

def anyInRange (f : Nat → Bool) (lo hi : Nat) : Bool :=
  (List.range (hi - lo)).any (fun k => f (lo + k))

/-- upper bound of the element ids an operation may create (same formula as the harness, which
    refuses operations that could overflow the id space of the element class: PROTOCOL.md) -/
def idBound (w : World) : Op → Nat
  | .from_slice _ vs | .extend_from_slice _ vs => 2 * vs.length
  | .collect _ it | .extend _ it | .splice _ _ _ it _ => (it.filter Option.isSome).length
  | .macro_list _ vs => vs.length
  | .macro_repeat _ _ n => 2 * n
  | .push .. | .insert .. | .remove_item .. => 1
  | .fill_spare _ _ k _ => k
  | .resize r n _ => 1 + (n - (match w.get r with | some (.vec v) => (if v.isDefault then 0 else v.len) | _ => 0))
  | .resize_with r n _ => n - (match w.get r with | some (.vec v) => (if v.isDefault then 0 else v.len) | _ => 0)
  | .clone_from _ r =>
    (match w.get r with | some (.vec v) => (if v.isDefault then 0 else v.len) | _ => 0)
  | .extend_from_within r _ _ | .clone r _ => (match w.get r with | some (.vec v) => (if v.isDefault then 0 else v.len) | _ => 0)
  | .clone_iter it _ | .clone_from_iter _ it => (match w.get it with | some (.intoIter v _) => (if v.isDefault then 0 else v.len) | _ => 0)
  | .deserialize _ _ sc | .deserialize_in_place _ _ sc => (sc.filter (fun i => match i with | .val _ => true | _ => false)).length
  | _ => 0

def roomFor (cs : Case) (op : Op) : Bool :=
  let n := idBound cs.w op
  let limit := if cs.X.c.elemSize == 1 then 255 else 65536
  n ≥ 16777216 || cs.w.sys.nextId + n ≤ limit

def runOp (cs : Case) (line : String) : IO Case := do
  if cs.dead then return cs
  IO.println s!"> {line}"
  match parseOp (words line) with
  | none => IO.println "= bad-op"; printState cs.w; return cs
  | some op =>
    if !roomFor cs op then
      IO.println "= bad-op"; printState cs.w; return cs
    let n0 := cs.w.sys.tr.length
    let cb0 := cs.w.sys.cbIdx
    let (w', out) := stepAll cs.X cs.w op
    let evs := w'.sys.tr.drop n0
    let injected := anyInRange cs.X.o.panicAt cb0 w'.sys.cbIdx
    printEvents evs (!injected)
    IO.println s!"= {showOut out}"
    let dead := match out with
      | .stopped .allocError | .stopped .doublePanic | .stopped .fuel | .stopped .ub
      | .stopped .debugAssert => true
      | _ => false
    if !dead then printState w'
    return { cs with w := w', dead := dead }

def endCase (cs : Case) : IO Unit := do
  let mut c := cs
  let its := cs.w.regs.filter (fun p => match p.2 with
    | .drain .. | .splice .. | .drainFilter .. | .intoIter .. => true | _ => false)
  for (r, _) in its.reverse do
    c ← runOp c s!"drop {r}"
  for (r, _) in c.w.regs do
    match c.w.get r with
    | some (.vec _) => c ← runOp c s!"drop {r}"
    | _ => pure ()
  IO.println "#end"

partial def loop (h : IO.FS.Stream) (cur : Option Case) (mode : Mode) : IO Unit := do
  let line ← h.getLine
  if line.isEmpty then
    return ()
  let l := String.ofList (line.toList.filter (fun c => c ≠ '\n' && c ≠ '\r'))
  let ws := words l
  match ws with
  | [] => loop h cur mode
  | "!case" :: name :: _ =>
    IO.println s!"#case {name}"
    loop h (some { X := { c := ⟨4, 4, true⟩, m := mode } }) mode
  | ["!cfg", cl] =>
    match cur, classOf cl with
    | some cs, some c => loop h (some { cs with X := { cs.X with c := c } }) mode
    | _, _ => IO.println "= bad-op"; loop h cur mode
  | ["!mode", m] =>
    let md := if m == "release" then Mode.release else Mode.debug
    match cur with
    | some cs => loop h (some { cs with X := { cs.X with m := md } }) md
    | none => loop h cur md
  | ["!panic_at", k] =>
    match cur, natOfS k with
    | some cs, some n =>
      loop h (some { cs with X := { cs.X with o := { cs.X.o with panicAt := fun i => i + 1 == n } } }) mode
    | _, _ => loop h cur mode
  | ["!allocfail_at", k] =>
    match cur, natOfS k with
    | some cs, some n =>
      loop h (some { cs with X := { cs.X with o := { cs.X.o with failAt := fun i => i + 1 == n } } }) mode
    | _, _ => loop h cur mode
  | ["!eq_script", sc] =>
    match cur, tfOf sc.toList with
    | some cs, some a =>
      loop h (some { cs with X := { cs.X with o := { cs.X.o with eqScript := fun i => a[i]? } } }) mode
    | _, _ => loop h cur mode
  | "!vecdiff" :: _ => loop h cur mode
  | ["!end"] =>
    match cur with
    | some cs => endCase cs; loop h none mode
    | none => loop h none mode
  | _ =>
    match cur with
    | some cs => let cs' ← runOp cs l; loop h (some cs') mode
    | none => loop h cur mode

def main : IO Unit := do
  let stdin ← IO.getStdin
  loop stdin none Mode.debug

import MiniVecProof.Props.C16
/- stdin: one program per line `kind | stmt ; stmt ; …` (statements: `take <api>`, `usevec <api>`, `usex`,
   `endvec`, `send <holder>`, `share <holder>`); stdout: `accept` / `reject` / `bad` per line -/
open MV.Props.C16 MV.Gen.Facts

def splitOn (c : Char) (s : List Char) : List (List Char) :=
  let rec go (done : List (List Char)) (cur : List Char) (rest : List Char) : List (List Char) :=
    match rest with
    | [] => done ++ [cur]
    | x :: xs => if x == c then go (done ++ [cur]) [] xs else go done (cur ++ [x]) xs
  go [] [] s

def wordsOf (s : List Char) : List String := ((splitOn ' ' s).filter (· ≠ [])).map String.ofList

def holderOf : String → Option Holder
  | "vec" => some .vec | "intoIter" => some .intoIter | "drain" => some .drain | _ => none

def stmtOf (ws : List String) : Option Stmt :=
  match ws with
  | ["take", a] => (apiOfName a).map .take
  | ["usevec", a] => (apiOfName a).map .useVec
  | ["usex"] => some .useX
  | ["endvec"] => some .endVec
  | ["send", h] => (holderOf h).map .send
  | ["share", h] => (holderOf h).map .share
  | _ => none

def kindOf : String → Option ElemKind
  | "plain" => some .plain | "rc" => some .rc | "cell" => some .cell | _ => none

def verdict (line : String) : String :=
  match splitOn '|' line.toList with
  | [k, body] =>
    (match kindOf (String.ofList (k.filter (· ≠ ' '))) with
     | none => "bad"
     | some kind =>
       let stmts := (splitOn ';' body).map (fun st => stmtOf (wordsOf st))
       if stmts.any Option.isNone then "bad"
       else if check kind {} (stmts.filterMap id) then "accept" else "reject")
  | _ => "bad"

partial def loop (h : IO.FS.Stream) : IO Unit := do
  let line ← h.getLine
  if line.isEmpty then return ()
  let l := String.ofList (line.toList.filter (fun c => c ≠ '\n' && c ≠ '\r'))
  if l.length > 0 then IO.println (verdict l)
  loop h

def main : IO Unit := do loop (← IO.getStdin)

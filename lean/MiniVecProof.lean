import MiniVecProof.Model.World
import MiniVecProof.Props.C09
import MiniVecProof.Props.C11

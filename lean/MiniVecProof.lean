-- This module serves as the root of the `MiniVecProof` library.
-- Import modules here that should be built as part of the library.
import MiniVecProof.Basic

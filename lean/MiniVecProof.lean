import MiniVecProof.Model.Basic
import MiniVecProof.Model.GM

def hello := "world"

import MiniVecProof.Proofs.MemWrite
import MiniVecProof.Proofs.MemCtor
import MiniVecProof.Props.C01Append
/-
  C01 — `split_off(at)` for `at <= len` (outside that limit it panics before anything is touched:
  `C11_split_off`): `self` keeps `[0, at)`, the returned vector holds `[at, len)` in order; or the
  call stops in a sanctioned way.
-/
namespace MV.Props
open MV MV.Gen MV.GM VM

/-- `with_capacity(n)` on the never-allocated handle, with the resulting capacity -/
theorem with_capacity_room (X : Ctx) (hz : 0 < X.c.elemSize) (s : St) (hv : s.v = {}) (n : Nat) :
    (∃ s', VM.lift X (with_capacity X.env n) s = (.ok (), s') ∧ Abs X s'.v [] ∧ (0 < n → s'.v.isDefault = false ∧ s'.v.cap = n) ∧
        (n = 0 → s' = s)) ∨
    (∃ p s', VM.lift X (with_capacity X.env n) s = (.error p, s') ∧ Panic.benign p = true ∧ s'.v = s.v) := by
  have hr := with_capacity_mem X hz s hv n
  cases hres : VM.lift X (with_capacity X.env n) s with
  | mk r s' =>
    rw [hres] at hr
    cases r with
    | error p =>
      cases hr with
      | stopped _ _ hv' hp _ => exact .inr ⟨p, s', rfl, hp, hv'⟩
    | ok u =>
      have hg : (with_capacity X.env n (hsOf s.v s.sys.allocIdx)).1 = .ok () := by
        apply lift_fst X _ s (); rw [hres]
      have hpair : with_capacity X.env n (hsOf s.v s.sys.allocIdx) = (.ok (), (with_capacity X.env n (hsOf s.v s.sys.allocIdx)).2) := by
        rw [← hg]
      obtain ⟨hc, _⟩ := C07_with_capacity X.env n _ _ rfl hpair
      obtain ⟨hcap, _, hdf⟩ := lift_v_hdr X (with_capacity X.env n) s
      rw [hres] at hcap hdf
      simp only at hcap hdf
      cases hr with
      | same =>
        refine .inl ⟨s, rfl, by rw [hv]; exact Abs.sentinel_abs X hz, ?_, fun _ => rfl⟩
        intro hn
        -- unchanged state means capacity 0 = n: impossible for n > 0
        have hdt : (with_capacity X.env n (hsOf s.v s.sys.allocIdx)).2.isDefault = true := by rw [← hdf, hv]
        simp [GS.C, hdt] at hc
        omega
      | grown _ habs hd' _ _ _ =>
        refine .inl ⟨s', rfl, habs, fun _ => ⟨hd', ?_⟩, ?_⟩
        · rw [hd'] at hdf
          simp [GS.C, ← hdf] at hc
          rw [hcap]; exact hc
        · intro hn
          subst hn
          rw [hd'] at hdf
          -- a zero-capacity request never allocates: the outcome would have been `same`
          exfalso
          have hwc : with_capacity X.env 0 (hsOf s.v s.sys.allocIdx) = reserve_exact X.env 0 (hsOf s.v s.sys.allocIdx).reset := by
            rw [with_capacity_spec]; have : X.env.c.elemSize > 0 := hz; simp [this]
          have hre := C07_reserve_exact X.env 0 (hsOf s.v s.sys.allocIdx).reset _ rfl (by rw [← hwc]; exact hpair)
          simp [GS.reset, GS.L, GS.C] at hre
          have : (with_capacity X.env 0 (hsOf s.v s.sys.allocIdx)).2.isDefault = true := by
            rw [hre.2]
          rw [← hdf] at this; simp at this

theorem lift_resetBuf (X : Ctx) (s : St) :
    VM.lift X GM.resetBuf s = (.ok (), { s with v := {} }) := by
  rw [lift_run]
  simp [GM.resetBuf, hsOf, replay, replay1, withHdr]

/-- (C01) `split_off(at)`, `at <= len` -/
theorem C01_split_off_partial (X : Ctx) (s : St) (es : List Elem) (at_ : Nat) (h : Abs X s.v es) (hat : at_ ≤ es.length) :
    (∃ o s', Vec.split_off X at_ s = (.ok o, s') ∧ Abs X s'.v (es.take at_) ∧ Abs X o (es.drop at_)) ∨
    (∃ p s', Vec.split_off X at_ s = (.error p, s') ∧ Panic.benign p = true ∧ ∃ es', Abs X s'.v es') := by
  have hz := h.elem_pos
  have hL : (hsOf s.v s.sys.allocIdx).L = es.length := h.len_eq
  have h1 : VM.lift X (split_off_pre X.env at_) s = (.ok (.cont ⟨at_, es.length⟩), s) :=
    lift_read X _ s _ (by
      unfold split_off_pre
      simp only [len_run, GM.bind_run, hL, GM.ite_run, decide_eq_true_eq, gt_iff_lt, GM.pure_run]
      rw [if_neg (by omega)])
  have h2 : VM.lift X (capacity X.env) s = (.ok (hsOf s.v s.sys.allocIdx).C, s) := lift_read X _ s _ (by rw [capacity_run])
  unfold Vec.split_off
  simp only [VM.bind_run, h1, h2]
  by_cases hz0 : es.length = 0
  · -- nothing to split: a fresh empty vector (with the same capacity) is returned
    have hnil : es = [] := List.eq_nil_of_length_eq_zero hz0
    subst hnil
    simp only [List.length_nil, if_true]
    by_cases hc : (hsOf s.v s.sys.allocIdx).C > 0
    · simp only [hc, if_true, VM.bind_run]
      rcases with_capacity_room X hz { s with v := {} } rfl (hsOf s.v s.sys.allocIdx).C with
        ⟨s1, hr, habs1, _, _⟩ | ⟨p, s1, hr, hb, _⟩
      · rw [onVec_ok {} _ s _ _ hr]
        exact .inl ⟨s1.v, { s1 with v := s.v }, rfl, by simpa using h, by simpa using habs1⟩
      · have : VM.onVec ({} : VSt) (VM.lift X (with_capacity X.env (hsOf s.v s.sys.allocIdx).C)) s = (.error p, { s1 with v := s.v }) := by
          unfold VM.onVec; rw [hr]
        rw [this]
        exact .inr ⟨p, _, rfl, hb, [], by simpa using h⟩
    · simp only [hc, if_false, VM.bind_run]
      rw [onVec_ok {} _ s _ _ (lift_new_empty X hz s)]
      exact .inl ⟨{}, { ({ s with v := {} } : St) with v := s.v }, rfl, by simpa using h, by simpa using Abs.sentinel_abs X hz⟩
  · simp only [hz0, if_false]
    have hd : s.v.isDefault = false := by
      cases hd : s.v.isDefault
      · rfl
      · have := (h.sentinel hd).2; subst this; simp at hz0
    obtain ⟨b, hb, hl, hsl, hlc, hel, hinit⟩ := h.alloc hd
    have hC : (hsOf s.v s.sys.allocIdx).C = s.v.cap := by simp [GS.C, hsOf, hd]
    have hcpos : 0 < s.v.cap := by omega
    by_cases ha0 : at_ = 0
    · -- the whole vector is handed out; `self` gets a fresh block of the same capacity
      subst ha0
      simp only [if_true, VM.bind_run, VM.getV_run, lift_resetBuf]
      have hre := reserve_exact_mem X { s with v := {} } [] (hsOf s.v s.sys.allocIdx).C (Abs.sentinel_abs X hz)
      generalize Vec.reserve_exact X (hsOf s.v s.sys.allocIdx).C { s with v := {} } = out at hre
      cases hre with
      | same => exact .inl ⟨s.v, { s with v := {} }, rfl, by simpa using Abs.sentinel_abs X hz, by simpa using h⟩
      | stopped p s' hv' hp _ => exact .inr ⟨p, s', rfl, hp, [], by rw [hv']; exact Abs.sentinel_abs X hz⟩
      | grown s' habs _ _ _ _ => exact .inl ⟨s.v, s', rfl, by simpa using habs, by simpa using h⟩
    · simp only [ha0, if_false, VM.bind_run]
      rw [hC]
      rcases with_capacity_room X hz { s with v := {} } rfl s.v.cap with ⟨s1, hr, habs1, hroom, _⟩ | ⟨p, s1, hr, hbn, _⟩
      · obtain ⟨hd1, hcap1⟩ := hroom hcpos
        rw [onVec_ok {} _ s _ _ hr]
        simp only
        -- self's length is cut to `at`
        have h3 := lift_set_len X at_ { s1 with v := s.v } hd
        rw [h3]
        simp only
        -- the new vector's length is published (its slots are written next)
        have h4 := lift_set_len X (es.length - at_) { ({ ({ s1 with v := s.v } : St) with v := { s.v with len := at_ } } : St) with v := s1.v } hd1
        rw [onVec_ok s1.v _ _ _ _ h4]
        simp only
        -- the tail is read out of `self`'s block (behind its new length)
        let sA : St := { s1 with v := { s.v with len := at_ } }
        have hfull : Abs X { sA.v with len := es.length } es := by
          have hv : ({ ({ s.v with len := at_ } : VSt) with len := es.length } : VSt) = s.v := by
            cases hv : s.v; simp [hv] at *; exact hel
          show Abs X ({ ({ s.v with len := at_ } : VSt) with len := es.length } : VSt) es
          rw [hv]; exact h
        have h5 : VM.lift X (as_ptr X.env) sA = (.ok (.at (dataOff s.v.align)), sA) :=
          lift_read X _ sA _ (as_ptr_run X.env _ hd b.lay s.v.cap hl)
        have hal : b.lay.align = s.v.align := (make_layout_honest _ _ _ _ hl).2.1
        have hdl : (es.drop at_).length = es.length - at_ := by simp
        have h6 := rdRange_blk sA b hb (es.drop at_) at_ (by
          intro j hj
          rw [hdl] at hj
          rw [hinit (at_ + j) (by omega)]
          simp [List.getElem?_drop])
        rw [hdl, hal] at h6
        have hsA : ({ ({ ({ ({ s1 with v := s.v } : St) with v := ({ s.v with len := at_ } : VSt) } : St) with v := ({ s1.v with len := es.length - at_ } : VSt) } : St) with v := ({ s.v with len := at_ } : VSt) } : St) = sA := rfl
        rw [hsA, h5]
        simp only
        rw [h6]
        simp only
        -- written into the new block from slot 0
        obtain ⟨b1, hb1, hl1, hsl1, _, _, _⟩ := habs1.alloc hd1
        have hal1 : b1.lay.align = s1.v.align := (make_layout_honest _ _ _ _ hl1).2.1
        have hcapb1 : s1.v.cap ≤ b1.slots.length := by rw [hsl1]; exact physSlots_ge X.env _ _ _ hl1 hz
        let sO : St := { sA with v := { s1.v with len := es.length - at_ } }
        have h7 : VM.lift X (as_mut_ptr X.env) sO = (.ok (.at (dataOff s1.v.align)), sO) :=
          lift_read X _ sO _ (as_mut_ptr_run X.env _ hd1 b1.lay s1.v.cap hl1)
        obtain ⟨b', hrun, hlay, hbid, hl', hget⟩ := forN_wr_go 0 (es.drop at_) (es.length - at_) 0 sO b1 hb1 (by omega) (by simp)
        rw [hal1] at hrun
        have hinO : (do
            let q ← VM.lift X (as_mut_ptr X.env)
            VM.forN (es.length - at_) (fun i => VM.wr q i ((es.drop at_).getD i default)) : VM Unit) sO =
            (.ok (), { sO with v := { sO.v with blk := some b' } }) := by
          simp only [VM.bind_run, h7, VM.forN]
          simpa using hrun
        rw [onVec_ok _ _ sA _ _ hinO]
        refine .inl ⟨_, _, rfl, ?_, ?_⟩
        · exact h.shorten at_ hat hd
        · refine ⟨hz, fun hx => by simp [sO, hd1] at hx, fun _ => ⟨b', rfl, by rw [hlay]; exact hl1, by rw [hl', hlay]; exact hsl1,
            by simp [sO]; omega, by simp [sO], ?_⟩⟩
          intro i hi
          simp only [sO] at hi
          rw [hget i, if_pos (by omega)]
          simp
      · have : VM.onVec ({} : VSt) (VM.lift X (with_capacity X.env s.v.cap)) s = (.error p, { s1 with v := s.v }) := by
          unfold VM.onVec; rw [hr]
        rw [this]
        exact .inr ⟨p, _, rfl, hbn, es, by simpa using h⟩

end MV.Props

#print axioms MV.Props.C01_split_off_partial

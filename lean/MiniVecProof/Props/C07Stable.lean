import MiniVecProof.Proofs.MemLoop
import MiniVecProof.Proofs.MemDrainFilter
import MiniVecProof.Proofs.MemMove
import MiniVecProof.Props.C01Append
/-
  C07 — storage stability of the element-adding operations whose result fits.

  `SamePlace v v'`: the handle denotes the same block (same identity, same layout), with the same capacity and
  alignment. `NoRequest s s'`: no allocator request was made (the request counter and the block-identity counter
  did not move).
-/
namespace MV.Props
open MV MV.Gen MV.GM VM

/-- same block, same layout, same capacity and alignment -/
def SamePlace (v v' : VSt) : Prop :=
  v'.cap = v.cap ∧ v'.align = v.align ∧ v'.isDefault = v.isDefault ∧
  v'.blk.map (fun b => (b.bid, b.lay)) = v.blk.map (fun b => (b.bid, b.lay))

/-- no allocator traffic between two states -/
def NoRequest (s s' : St) : Prop :=
  s'.sys.allocIdx = s.sys.allocIdx ∧ s'.sys.nextBid = s.sys.nextBid ∧
  ∀ ev ∈ s'.sys.tr.drop s.sys.tr.length, (match ev with | .alloc .. | .realloc .. | .dealloc .. | .allocFail => False | _ => True)

theorem SamePlace.refl (v : VSt) : SamePlace v v := ⟨rfl, rfl, rfl, rfl⟩
theorem SamePlace.trans {a b c : VSt} (h1 : SamePlace a b) (h2 : SamePlace b c) : SamePlace a c :=
  ⟨h2.1.trans h1.1, h2.2.1.trans h1.2.1, h2.2.2.1.trans h1.2.2.1, h2.2.2.2.trans h1.2.2.2⟩

/-- `push` on a vector with spare room: the element is written in place — same block, same capacity, no
    allocator request, the system state untouched -/
theorem push_fits (X : Ctx) (s : St) (es : List Elem) (e : Elem) (h : Abs X s.v es)
    (hd : s.v.isDefault = false) (hroom : es.length < s.v.cap) :
    ∃ v', Vec.push X e s = (.ok (), { s with v := v' }) ∧ Abs X v' (es ++ [e]) ∧ SamePlace s.v v' := by
  obtain ⟨b, hb, hl, hs, hlc, hel, hinit⟩ := h.alloc hd
  have hroom' : s.v.len < s.v.cap := by omega
  have hL : (hsOf s.v s.sys.allocIdx).L = s.v.len := by simp [GS.L, hsOf, hd]
  have hC : (hsOf s.v s.sys.allocIdx).C = s.v.cap := by simp [GS.C, hsOf, hd]
  have hrun := push_pre_run X.env (hsOf s.v s.sys.allocIdx) (by rw [hL, hC]; omega)
  have hpg : pushGrow X.env (hsOf s.v s.sys.allocIdx) = (.ok (), hsOf s.v s.sys.allocIdx) := by
    unfold pushGrow
    rw [if_neg (by rw [hL, hC]; omega)]
  rw [hpg] at hrun
  have hdat := data_run X.env (hsOf s.v s.sys.allocIdx) hd b.lay s.v.cap hl
  simp only [hdat] at hrun
  have h1 : VM.lift X (push_pre X.env) s = (.ok (.cont ⟨_, _, _, _⟩), s) := lift_read X _ s _ hrun
  -- the write and the length bump, with the resulting handle explicit
  have hcapb : s.v.cap ≤ b.slots.length := by rw [hs]; exact physSlots_ge X.env _ _ _ hl h.elem_pos
  have hi : s.v.len < b.slots.length := by omega
  have hw := wr_abs X s es h hd b hb s.v.len hi e
  have hW := h.cap_lt_W hd
  obtain ⟨v', ht, habs, hcap, hal, hd'⟩ := push_tail X s es e h hd hroom'
  -- recompute the same witness explicitly to read off the block
  have ht' : (do VM.wr (.at (dataOff s.v.align)) s.v.len e; Vec.hdrLenAdd X 1 : VM Unit) s =
      (.ok (), { s with v := { s.v with blk := some { b with slots := b.slots.set s.v.len (some e) }, len := s.v.len + 1 } }) := by
    simp only [VM.bind_run, hw]
    exact hdrLenAdd_run X _ 1 hd (by show s.v.len + 1 < W; omega)
  have hv' : v' = { s.v with blk := some { b with slots := b.slots.set s.v.len (some e) }, len := s.v.len + 1 } := by
    have := ht.symm.trans ht'
    simpa using this
  refine ⟨v', ?_, habs, ⟨hcap, hal, by rw [hd', hd], ?_⟩⟩
  · unfold Vec.push
    simp only [VM.bind_run]
    rw [ownArgs_ok X [e] _ s s _ h1]
    simp only
    have hal' : (hsOf s.v s.sys.allocIdx).align = s.v.align := rfl
    simp only [hL, hal']
    exact ht
  · rw [hv', hb]; rfl

/-- the allocator events of a trace -/
def allocEvs (tr : List Ev) : List Ev :=
  tr.filter (fun ev => match ev with | .alloc .. | .realloc .. | .dealloc .. | .allocFail => true | _ => false)

/-- no allocator traffic between two states: no request was counted, no block identity handed out, and the trace
    gained no allocator event (clone / drop events and the callback and identity counters may have moved) -/
def Calm (s s' : St) : Prop :=
  allocEvs s'.sys.tr = allocEvs s.sys.tr ∧ s'.sys.allocIdx = s.sys.allocIdx ∧ s'.sys.nextBid = s.sys.nextBid

theorem Calm.refl (s : St) : Calm s s := ⟨rfl, rfl, rfl⟩
theorem Calm.trans {a b c : St} (h1 : Calm a b) (h2 : Calm b c) : Calm a c :=
  ⟨h2.1.trans h1.1, h2.2.1.trans h1.2.1, h2.2.2.trans h1.2.2⟩

/-- the push loop of `extend` / `collect` when everything the iterator yields before its first `None` fits: every
    element is written in place -/
theorem forIter_push_fits (X : Ctx) (hq : ∀ k, X.o.panicAt k = false) :
    ∀ (it : Vec.IterScript) (fuel : Nat) (s : St) (acc : List Elem), it.length < fuel → Abs X s.v acc →
    s.v.isDefault = false → acc.length + (takeSome it).length ≤ s.v.cap →
    ∃ s' new, Vec.forIter X (Vec.push X) fuel it s = (.ok (afterNone it), s') ∧ Abs X s'.v (acc ++ new) ∧
        new.map (·.val) = takeSome it ∧ SamePlace s.v s'.v ∧ Calm s s' := by
  intro it
  induction it with
  | nil =>
    intro fuel s acc hf h hd hfit
    cases fuel with
    | zero => omega
    | succ fuel =>
      refine ⟨{ s with sys := { s.sys with cbIdx := s.sys.cbIdx + 1 } }, [], ?_, by simpa using h, rfl, SamePlace.refl _, rfl, rfl, rfl⟩
      unfold Vec.forIter
      simp only [VM.bind_run, VM.callback, hq, Bool.false_eq_true, if_false, VM.pure_run, afterNone]
  | cons o rest ih =>
    intro fuel s acc hf h hd hfit
    cases fuel with
    | zero => omega
    | succ fuel =>
      cases o with
      | none =>
        refine ⟨{ s with sys := { s.sys with cbIdx := s.sys.cbIdx + 1 } }, [], ?_, by simpa using h, rfl, SamePlace.refl _, rfl, rfl, rfl⟩
        unfold Vec.forIter
        simp only [VM.bind_run, VM.callback, hq, Bool.false_eq_true, if_false, VM.pure_run, afterNone]
      | some v =>
        have hfit' : acc.length + (1 + (takeSome rest).length) ≤ s.v.cap := by
          simpa [takeSome, Nat.add_comm] using hfit
        obtain ⟨v', hpush, habs, hsp⟩ := push_fits X
          { sys := { s.sys with cbIdx := s.sys.cbIdx + 1, nextId := s.sys.nextId + 1 }, v := s.v } acc ⟨s.sys.nextId, v⟩ h hd (by simp only; omega)
        unfold Vec.forIter
        simp only [VM.bind_run, VM.callback, hq, Bool.false_eq_true, if_false, mkElem_run]
        rw [hpush]
        simp only
        obtain ⟨s'', new, hrun, habs', hv, hsp', hc⟩ := ih fuel
          { sys := { s.sys with cbIdx := s.sys.cbIdx + 1, nextId := s.sys.nextId + 1 }, v := v' }
          (acc ++ [⟨s.sys.nextId, v⟩]) (by simp at hf; omega) habs
          (by show v'.isDefault = false; exact (hsp.2.2.1 : v'.isDefault = s.v.isDefault).trans hd)
          (by show (acc ++ [(⟨s.sys.nextId, v⟩ : Elem)]).length + (takeSome rest).length ≤ v'.cap
              have hcap : v'.cap = s.v.cap := hsp.1
              rw [List.length_append, List.length_singleton, hcap]; omega)
        refine ⟨s'', ⟨s.sys.nextId, v⟩ :: new, ?_, by simpa using habs', by simp [takeSome, hv], hsp.trans hsp', ?_⟩
        · rw [hrun]; rfl
        · exact ⟨hc.1, hc.2.1, hc.2.2⟩

/-- **C07 (stability clause) for `extend`**: whatever the source iterator's `size_hint` says (the model of `extend`
    never asks: the code is tied to it by the correspondence), if what it yields before its first `None` fits in the
    spare capacity, `extend` appends exactly that — same block, same capacity, not one allocator request -/
theorem C07_extend_fits (X : Ctx) (hq : ∀ k, X.o.panicAt k = false) (it : Vec.IterScript) (s : St) (es : List Elem)
    (h : Abs X s.v es) (hd : s.v.isDefault = false) (hfit : es.length + (takeSome it).length ≤ s.v.cap) :
    ∃ s' new, Vec.extend X it s = (.ok (), s') ∧ Abs X s'.v (es ++ new) ∧ new.map (·.val) = takeSome it ∧
      SamePlace s.v s'.v ∧ Calm s s' := by
  obtain ⟨s', new, hrun, habs, hv, hsp, hc⟩ := forIter_push_fits X hq it (it.length + 1) s es (by omega) h hd hfit
  refine ⟨s', new, ?_, habs, hv, hsp, hc⟩
  unfold Vec.extend
  simp only [VM.bind_run, hrun]
  rfl

/-- `reserve(n)` when `len + n` already fits: nothing happens -/
theorem reserve_fits (X : Ctx) (s : St) (es : List Elem) (n : Nat) (h : Abs X s.v es) (hd : s.v.isDefault = false)
    (hfit : es.length + n ≤ s.v.cap) : Vec.reserve X n s = (.ok (), s) := by
  have hL : (hsOf s.v s.sys.allocIdx).L = es.length := h.len_eq
  have hC : (hsOf s.v s.sys.allocIdx).C = s.v.cap := by simp [GS.C, hsOf, hd]
  have hW := h.cap_lt_W hd
  unfold Vec.reserve
  apply lift_read
  rw [reserve_spec, hL, hC]
  have : checkedAdd es.length n = some (es.length + n) := by unfold checkedAdd; rw [if_pos (by omega)]
  rw [this]
  simp only
  rw [if_pos hfit]

/-- one round of a filling loop when there is room: an element is appended in place -/
def RoundFits (X : Ctx) (n : Nat) (P : Nat → Elem → Prop) (f : Nat → VM Unit) : Prop :=
  ∀ (i : Nat) (s : St) (acc : List Elem), i < n → Abs X s.v acc → s.v.isDefault = false → acc.length < s.v.cap →
    ∃ e s', f i s = (.ok (), s') ∧ Abs X s'.v (acc ++ [e]) ∧ SamePlace s.v s'.v ∧ Calm s s' ∧ P i e

theorem forN_go_fits (X : Ctx) (n : Nat) (P : Nat → Elem → Prop) (f : Nat → VM Unit) (hf : RoundFits X n P f)
    (k : Nat) : ∀ (i : Nat) (s : St) (acc : List Elem), i + k ≤ n → Abs X s.v acc → s.v.isDefault = false →
    acc.length + k ≤ s.v.cap →
    ∃ l s', VM.forN.go f k i s = (.ok (), s') ∧ Abs X s'.v (acc ++ l) ∧ l.length = k ∧ SamePlace s.v s'.v ∧ Calm s s' ∧
        ∀ j (hj : j < l.length), P (i + j) l[j] := by
  induction k with
  | zero =>
    intro i s acc _ h _ _
    exact ⟨[], s, by simp [VM.forN.go], by simpa using h, rfl, SamePlace.refl _, Calm.refl _, fun j hj => by simp at hj⟩
  | succ k ih =>
    intro i s acc hik h hd hfit
    obtain ⟨e, s1, hrun, habs, hsp, hc, hp⟩ := hf i s acc (by omega) h hd (by omega)
    have hcap : s1.v.cap = s.v.cap := hsp.1
    obtain ⟨l, s2, hrun2, habs2, hl, hsp2, hc2, hP⟩ := ih (i + 1) s1 (acc ++ [e]) (by omega) habs
      ((hsp.2.2.1 : s1.v.isDefault = s.v.isDefault).trans hd)
      (by rw [List.length_append, List.length_singleton, hcap]; omega)
    refine ⟨e :: l, s2, ?_, by simpa using habs2, by simp [hl], hsp.trans hsp2, hc.trans hc2, ?_⟩
    · unfold VM.forN.go; simp only [VM.bind_run, hrun, hrun2]
    · intro j hj
      cases j with
      | zero => simpa using hp
      | succ j =>
        have := hP j (by simpa using hj)
        simpa [Nat.add_assoc, Nat.add_comm 1 j] using this

theorem forN_fits (X : Ctx) (n : Nat) (P : Nat → Elem → Prop) (f : Nat → VM Unit) (hf : RoundFits X n P f)
    (s : St) (acc : List Elem) (h : Abs X s.v acc) (hd : s.v.isDefault = false) (hfit : acc.length + n ≤ s.v.cap) :
    ∃ l s', VM.forN n f s = (.ok (), s') ∧ Abs X s'.v (acc ++ l) ∧ l.length = n ∧ SamePlace s.v s'.v ∧ Calm s s' ∧
        ∀ j (hj : j < l.length), P j l[j] := by
  have := forN_go_fits X n P f hf n 0 s acc (by omega) h hd hfit
  simpa [VM.forN] using this

/-- `Clone::clone` of an element when no user code panics: a fresh identity, the same value, no allocator traffic -/
theorem cloneElem_calm (X : Ctx) (hq : ∀ k, X.o.panicAt k = false) (e : Elem) (s : St) :
    ∃ s', VM.cloneElem X e s = (.ok ⟨s.sys.nextId, e.val⟩, s') ∧ s'.v = s.v ∧ Calm s s' := by
  unfold VM.cloneElem
  simp only [VM.bind_run, VM.callback, hq, Bool.false_eq_true, if_false, VM.freshId, VM.emit, VM.pure_run]
  refine ⟨_, rfl, rfl, ?_, rfl, rfl⟩
  simp [allocEvs, List.filter_append]

/-- "clone one value, push it" when there is room -/
theorem clone_push_fits (X : Ctx) (hq : ∀ k, X.o.panicAt k = false) (src : Elem) (s : St) (acc : List Elem)
    (h : Abs X s.v acc) (hd : s.v.isDefault = false) (hroom : acc.length < s.v.cap) :
    ∃ e s', (do let e ← VM.cloneElem X src; Vec.push X e : VM Unit) s = (.ok (), s') ∧ Abs X s'.v (acc ++ [e]) ∧
      SamePlace s.v s'.v ∧ Calm s s' ∧ e.val = src.val := by
  obtain ⟨s2, hc, hv, hcalm⟩ := cloneElem_calm X hq src s
  obtain ⟨v', hp, habs, hsp⟩ := push_fits X s2 acc ⟨s.sys.nextId, src.val⟩ (by rw [hv]; exact h) (by rw [hv]; exact hd)
    (by rw [hv]; exact hroom)
  refine ⟨⟨s.sys.nextId, src.val⟩, { s2 with v := v' }, ?_, habs, ?_, ?_, rfl⟩
  · simp only [VM.bind_run, hc, hp]
  · rw [hv] at hsp; exact hsp
  · exact ⟨hcalm.1, hcalm.2.1, hcalm.2.2⟩

/-- **C07 (stability clause) for `extend_from_slice`** -/
theorem C07_extend_from_slice_fits (X : Ctx) (hq : ∀ k, X.o.panicAt k = false) (elems : List Elem) (s : St)
    (es : List Elem) (h : Abs X s.v es) (hd : s.v.isDefault = false) (hfit : es.length + elems.length ≤ s.v.cap) :
    ∃ new s', Vec.extend_from_slice X elems s = (.ok (), s') ∧ Abs X s'.v (es ++ new) ∧
      new.map (·.val) = elems.map (·.val) ∧ SamePlace s.v s'.v ∧ Calm s s' := by
  have hround : RoundFits X elems.length (fun i e => (elems[i]?).map (·.val) = some e.val) (fun i => do
      let e ← VM.cloneElem X (elems.getD i default)
      Vec.push X e) := by
    intro i s1 acc hi habs hd1 hroom
    obtain ⟨e, s', hr, ha, hsp, hc, hval⟩ := clone_push_fits X hq (elems.getD i default) s1 acc habs hd1 hroom
    refine ⟨e, s', hr, ha, hsp, hc, ?_⟩
    simp [hval, List.getD_eq_getElem?_getD, List.getElem?_eq_getElem hi]
  unfold Vec.extend_from_slice
  simp only [VM.bind_run, reserve_fits X s es elems.length h hd hfit]
  obtain ⟨l, s', hrun, habs, hl, hsp, hc, hP⟩ := forN_fits X elems.length _ _ hround s es h hd hfit
  refine ⟨l, s', hrun, habs, ?_, hsp, hc⟩
  apply List.ext_getElem?
  intro j
  simp only [List.getElem?_map]
  by_cases hj : j < l.length
  · have := hP j hj
    rw [List.getElem?_eq_getElem hj]
    simp only [Option.map_some]
    rw [← this]
  · rw [List.getElem?_eq_none (by omega), List.getElem?_eq_none (by omega)]

/-- **C07 (stability clause) for `resize_with`** (growing within the capacity, ANY generator) -/
theorem C07_resize_with_fits (X : Ctx) (hq : ∀ k, X.o.panicAt k = false) (newLen : Nat) (g : Nat → Int) (s : St)
    (es : List Elem) (h : Abs X s.v es) (hd : s.v.isDefault = false) (hgt : es.length < newLen) (hfit : newLen ≤ s.v.cap) :
    ∃ new s', Vec.resize_with X newLen g s = (.ok (), s') ∧ Abs X s'.v (es ++ new) ∧
      new.map (·.val) = (List.range (newLen - es.length)).map g ∧ SamePlace s.v s'.v ∧ Calm s s' := by
  have hL : (hsOf s.v s.sys.allocIdx).L = es.length := h.len_eq
  have h1 : VM.lift X (resize_with_pre X.env newLen) s = (.ok (.cont ⟨newLen, es.length⟩), s) :=
    lift_read X _ s _ (by unfold resize_with_pre; simp only [len_run, GM.bind_run, hL, GM.pure_run])
  have hround : RoundFits X (newLen - es.length) (fun i e => e.val = g i) (fun k => do
      VM.callback X
      let e ← VM.mkElem (g k)
      Vec.push X e) := by
    intro i s1 acc hi habs hd1 hroom
    obtain ⟨v', hp, ha, hsp⟩ := push_fits X
      { sys := { s1.sys with cbIdx := s1.sys.cbIdx + 1, nextId := s1.sys.nextId + 1 }, v := s1.v } acc ⟨s1.sys.nextId, g i⟩
      habs hd1 hroom
    refine ⟨⟨s1.sys.nextId, g i⟩,
      { sys := { s1.sys with cbIdx := s1.sys.cbIdx + 1, nextId := s1.sys.nextId + 1 }, v := v' }, ?_, ha, hsp, ⟨rfl, rfl, rfl⟩, rfl⟩
    simp only [VM.bind_run, VM.callback, hq, Bool.false_eq_true, if_false, mkElem_run]
    exact hp
  unfold Vec.resize_with
  simp only [VM.bind_run, h1]
  rw [if_neg (by omega), if_pos (by omega)]
  simp only [VM.bind_run, reserve_fits X s es (newLen - es.length) h hd (by omega)]
  obtain ⟨l, s', hrun, habs, hl, hsp, hc, hP⟩ := forN_fits X (newLen - es.length) _ _ hround s es h hd (by omega)
  refine ⟨l, s', hrun, habs, ?_, hsp, hc⟩
  apply List.ext_getElem?
  intro j
  simp only [List.getElem?_map, List.getElem?_range]
  by_cases hj : j < l.length
  · rw [List.getElem?_eq_getElem hj]
    simp [hP j hj, show j < newLen - es.length by omega]
  · rw [List.getElem?_eq_none (by omega)]
    simp [show ¬ j < newLen - es.length by omega]

/-- destroying values makes no allocator traffic -/
theorem afterDrops_calm (X : Ctx) (s : St) (es : List Elem) : Calm s (afterDrops X s es) ∧ (afterDrops X s es).v = s.v := by
  unfold afterDrops dropEvents Calm allocEvs
  cases X.c.needsDrop <;> simp [List.filter_append, List.filter_map]
  all_goals (try exact ⟨rfl, rfl⟩)

/-- **C07 (stability clause) for `resize`** (growing within the capacity): clones of `value` are written in
    place; `value` itself is destroyed at the end -/
theorem C07_resize_fits (X : Ctx) (hq : ∀ k, X.o.panicAt k = false) (newLen : Nat) (value : Elem) (s : St)
    (es : List Elem) (h : Abs X s.v es) (hd : s.v.isDefault = false) (hgt : es.length < newLen) (hfit : newLen ≤ s.v.cap) :
    ∃ new s', Vec.resize X newLen value s = (.ok (), s') ∧ Abs X s'.v (es ++ new) ∧
      new.map (·.val) = List.replicate (newLen - es.length) value.val ∧ SamePlace s.v s'.v ∧ Calm s s' := by
  have hL : (hsOf s.v s.sys.allocIdx).L = es.length := h.len_eq
  have h1 : VM.lift X (resize_pre X.env newLen) s = (.ok (.cont ⟨newLen, es.length⟩), s) :=
    lift_read X _ s _ (by unfold resize_pre; simp only [len_run, GM.bind_run, hL, GM.pure_run])
  have hround : RoundFits X (newLen - es.length) (fun _ e => e.val = value.val) (fun _ => do
      let e ← VM.cloneElem X value
      Vec.push X e) := by
    intro i s1 acc hi habs hd1 hroom
    exact clone_push_fits X hq value s1 acc habs hd1 hroom
  obtain ⟨l, s', hrun, habs, hl, hsp, hc, hP⟩ := forN_fits X (newLen - es.length) _ _ hround s es h hd (by omega)
  have hbody : Vec.resizeBody X newLen value s = (.ok (), s') := by
    unfold Vec.resizeBody
    simp only [VM.bind_run, h1]
    rw [if_neg (by omega), if_pos (by omega)]
    simp only [VM.bind_run, reserve_fits X s es (newLen - es.length) h hd (by omega)]
    exact hrun
  obtain ⟨hcd, hvd⟩ := afterDrops_calm X s' [value]
  refine ⟨l, afterDrops X s' [value], ?_, by rw [hvd]; exact habs, ?_, by rw [hvd]; exact hsp, hc.trans hcd⟩
  · unfold Vec.resize VM.guarded
    rw [hbody]
    simp only [dropElem_quiet' X hq value s']
  · apply List.ext_getElem?
    intro j
    simp only [List.getElem?_map, List.getElem?_replicate]
    by_cases hj : j < l.length
    · rw [List.getElem?_eq_getElem hj]
      simp [hP j hj, show j < newLen - es.length by omega]
    · rw [List.getElem?_eq_none (by omega)]
      simp [show ¬ j < newLen - es.length by omega]

/-- **C07 (stability clause) for `insert`**: with spare room the tail moves up inside the block -/
theorem C07_insert_fits (X : Ctx) (s : St) (es : List Elem) (idx : Nat) (e : Elem) (h : Abs X s.v es)
    (hd : s.v.isDefault = false) (hroom : es.length < s.v.cap) (hidx : idx ≤ es.length) :
    ∃ s', Vec.insert X idx e s = (.ok (), s') ∧ Abs X s'.v (es.take idx ++ [e] ++ es.drop idx) ∧
      SamePlace s.v s'.v ∧ Calm s s' := by
  obtain ⟨b, hb, hl, hs, hlc, hel, hinit⟩ := h.alloc hd
  have hL : (hsOf s.v s.sys.allocIdx).L = es.length := h.len_eq
  have hC : (hsOf s.v s.sys.allocIdx).C = s.v.cap := by simp [GS.C, hsOf, hd]
  have hrun : insert_pre X.env idx (hsOf s.v s.sys.allocIdx) = (.ok (.cont ⟨idx, es.length⟩), hsOf s.v s.sys.allocIdx) := by
    rw [MV.Props.C11_insert, hL, hC, if_neg (by omega), if_neg (by omega)]
  have h1 : VM.lift X (insert_pre X.env idx) s = (.ok (.cont ⟨idx, es.length⟩), s) := lift_read X _ s _ hrun
  obtain ⟨v', ht, habs, hcap, hd', hal, hkey⟩ := insert_tail X s es idx e h hd (by omega) hidx
  refine ⟨{ s with v := v' }, ?_, habs, ⟨hcap, hal, by rw [hd', hd], hkey⟩, Calm.refl _⟩
  unfold Vec.insert
  simp only [VM.bind_run]
  rw [ownArgs_ok X [e] _ s s _ h1]
  simp only
  exact ht

/-- **C07 (stability clause) for `append`**: when the other vector's elements fit behind `self`'s, they are moved
    in place; the destination keeps its block and capacity whatever the source's capacity is, and the source keeps
    its own block (emptied) -/
theorem C07_append_fits (X : Ctx) (s : St) (es os : List Elem) (other : VSt) (h : Abs X s.v es) (ho : Abs X other os)
    (hd : s.v.isDefault = false) (hne : os ≠ []) (hfit : es.length + os.length ≤ s.v.cap) :
    ∃ other' s', Vec.append X other s = (.ok other', s') ∧ Abs X s'.v (es ++ os) ∧ Abs X other' [] ∧
      other'.cap = other.cap ∧ other'.blk = other.blk ∧ SamePlace s.v s'.v ∧ Calm s s' := by
  have hso : ∀ x : St, x = { s with v := other } → x.v = other ∧ x.sys = s.sys := fun x hx => by subst hx; exact ⟨rfl, rfl⟩
  generalize hsoeq : ({ s with v := other } : St) = so
  obtain ⟨hsov, hsos⟩ := hso so hsoeq.symm
  have ho' : Abs X so.v os := by rw [hsov]; exact ho
  have hLo : (hsOf so.v so.sys.allocIdx).L = os.length := ho'.len_eq
  have he : VM.lift X (is_empty X.env) so = (.ok (os.length == 0), so) :=
    lift_read X _ so _ (by rw [is_empty_run, hLo])
  have hz : os.length ≠ 0 := fun hz => hne (List.eq_nil_of_length_eq_zero hz)
  unfold Vec.append
  have he' : VM.lift X (is_empty X.env) { s with v := other } = (.ok (os.length == 0), { s with v := other }) := by rw [hsoeq]; exact he
  simp only [VM.bind_run, onVec_read other _ s _ he']
  have hne' : (os.length == 0) = false := by simp [hz]
  simp only [hne', Bool.false_eq_true, if_false]
  have hdo : other.isDefault = false := by
    cases hd' : other.isDefault
    · rfl
    · have := (ho.sentinel hd').2; subst this; simp at hz
  have hdo' : so.v.isDefault = false := by rw [hsov]; exact hdo
  obtain ⟨bo, hbo, hlo, _⟩ := ho'.alloc hdo'
  have h1 : VM.lift X (len X.env) so = (.ok os.length, so) := lift_read X _ so _ (by rw [len_run, hLo])
  have h2 : VM.lift X (as_ptr X.env) so = (.ok (.at (dataOff so.v.align)), so) :=
    lift_read X _ so _ (as_ptr_run X.env _ hdo' bo.lay so.v.cap hlo)
  have h3 := rdRange_abs X so os ho' hdo' os.length 0 (by omega)
  have h3' : (os.drop 0).take os.length = os := by simp
  rw [h3'] at h3
  have hin : (do
      let n ← VM.lift X (len X.env)
      let p ← VM.lift X (as_ptr X.env)
      let es ← VM.rdRange p 0 n
      pure (n, es) : VM (Nat × List Elem)) { s with v := other } = (.ok (os.length, os), { s with v := other }) := by
    rw [hsoeq]
    simp only [VM.bind_run, h1, h2, h3, VM.pure_run]
  simp only [VM.bind_run, onVec_read other _ s _ hin]
  rw [reserve_fits X s es os.length h hd hfit]
  simp only
  obtain ⟨b1, hb1, hl1, hsl1, hlc1, hel1, _⟩ := h.alloc hd
  have hcapb : s.v.cap ≤ b1.slots.length := by rw [hsl1]; exact physSlots_ge X.env _ _ _ hl1 h.elem_pos
  have hal1 : b1.lay.align = s.v.align := (make_layout_honest _ _ _ _ hl1).2.1
  have h4 : VM.lift X (as_mut_ptr X.env) s = (.ok (.at (dataOff s.v.align)), s) :=
    lift_read X _ s _ (as_mut_ptr_run X.env _ hd b1.lay s.v.cap hl1)
  have hL1 : (hsOf s.v s.sys.allocIdx).L = es.length := h.len_eq
  have h5 : VM.lift X (len X.env) s = (.ok es.length, s) := lift_read X _ s _ (by rw [len_run, hL1])
  have h6 := inb_blk s b1 hb1 (es.length + os.length) (by omega)
  rw [hal1] at h6
  obtain ⟨v2, hw, habs2, hlen2, hcap2, hd2, hal2, hbid2, hlay2⟩ := write_tail_abs X s es os h hd hfit
  simp only [h4, h5, h6, hw]
  have h7 := lift_setHdrLen X 0 { ({ s with v := v2 } : St) with v := other } hdo
  rw [onVec_ok other _ { s with v := v2 } _ _ h7]
  simp only
  have hW : v2.len + os.length < W := by
    have := h.cap_lt_W hd
    rw [hlen2, ← hel1]; omega
  have h8 := hdrLenAdd_run X { s with v := v2 } os.length hd2 hW
  have hs2 : ({ ({ ({ s with v := v2 } : St) with v := ({ other with len := 0 } : VSt) } : St) with v := v2 } : St) = { s with v := v2 } := rfl
  rw [hs2, h8]
  refine ⟨{ other with len := 0 }, _, rfl, ?_, ?_, rfl, rfl, ⟨hcap2, hal2, by rw [hd2, hd], ?_⟩, Calm.refl _⟩
  · have : v2.len + os.length = es.length + os.length := by rw [hlen2, ← hel1]
    simp only [this]; exact habs2
  · simpa using ho.shorten 0 (by omega) hdo
  · show v2.blk.map (fun b => (b.bid, b.lay)) = s.v.blk.map (fun b => (b.bid, b.lay))
    cases hv : v2.blk <;> cases hs : s.v.blk <;> simp [hv, hs] at hbid2 hlay2 ⊢
    exact ⟨hbid2, hlay2⟩

/-- **C07 (stability clause), removing operations**: `pop`, `remove`, `swap_remove`, `truncate`, `clear` leave the
    block, its layout and the capacity as they are and make no allocator request -/
theorem C07_pop_stable (X : Ctx) (s : St) (es : List Elem) (e : Elem) (h : Abs X s.v (es ++ [e])) :
    ∃ s', Vec.pop X s = (.ok (some e), s') ∧ Abs X s'.v es ∧ s'.v.blk = s.v.blk ∧ s'.v.cap = s.v.cap ∧ Calm s s' := by
  obtain ⟨v', hr, habs, hb, hc⟩ := (pop_spec X s _ h).2 es e rfl
  exact ⟨_, hr, habs, hb, hc, Calm.refl _⟩

theorem C07_remove_stable (X : Ctx) (s : St) (es : List Elem) (i : Nat) (h : Abs X s.v es) (hi : i < es.length) :
    ∃ s', Vec.remove X i s = (.ok es[i], s') ∧ Abs X s'.v (es.eraseIdx i) ∧ SamePlace s.v s'.v ∧ Calm s s' := by
  obtain ⟨v', hr, habs, hbid, hcap, hal, hdd, hlay⟩ := remove_spec X s es i h hi
  refine ⟨_, hr, habs, ⟨hcap, hal, hdd, ?_⟩, Calm.refl _⟩
  show v'.blk.map (fun b => (b.bid, b.lay)) = s.v.blk.map (fun b => (b.bid, b.lay))
  cases hv : v'.blk <;> cases hs : s.v.blk <;> simp [hv, hs] at hbid hlay ⊢
  exact ⟨hbid, hlay⟩

theorem C07_swap_remove_stable (X : Ctx) (s : St) (es : List Elem) (i : Nat) (h : Abs X s.v es) (hi : i < es.length) :
    ∃ s', Vec.swap_remove X i s = (.ok es[i], s') ∧ SamePlace s.v s'.v ∧ Calm s s' := by
  obtain ⟨v', hr, _, hcap, hal, hdd, hkey⟩ := swap_remove_spec X s es i h hi
  exact ⟨_, hr, ⟨hcap, hal, hdd, hkey⟩, Calm.refl _⟩

theorem C07_truncate_stable (X : Ctx) (hq : ∀ k, X.o.panicAt k = false) (s : St) (es : List Elem) (n : Nat)
    (h : Abs X s.v es) :
    ∃ s', Vec.truncate X n s = (.ok (), s') ∧ Abs X s'.v (es.take n) ∧ s'.v.blk = s.v.blk ∧ s'.v.cap = s.v.cap ∧
      Calm s s' := by
  obtain ⟨v', hr, habs, hb, hc, _⟩ := truncate_spec X hq s es n h
  obtain ⟨hcalm, _⟩ := afterDrops_calm X s (es.drop n)
  exact ⟨_, hr, habs, hb, hc, hcalm⟩

theorem C07_clear_stable (X : Ctx) (hq : ∀ k, X.o.panicAt k = false) (s : St) (es : List Elem) (h : Abs X s.v es) :
    ∃ s', Vec.clear X s = (.ok (), s') ∧ Abs X s'.v [] ∧ s'.v.blk = s.v.blk ∧ s'.v.cap = s.v.cap ∧ Calm s s' := by
  obtain ⟨v', hr, habs, hb, hc, _⟩ := clear_spec X hq s es h
  obtain ⟨hcalm, _⟩ := afterDrops_calm X s es
  exact ⟨_, hr, habs, hb, hc, hcalm⟩

/-- **C07 (stability clause) for `push`** -/
theorem C07_push_fits (X : Ctx) (s : St) (es : List Elem) (e : Elem) (h : Abs X s.v es)
    (hd : s.v.isDefault = false) (hroom : es.length < s.v.cap) :
    ∃ s', Vec.push X e s = (.ok (), s') ∧ Abs X s'.v (es ++ [e]) ∧ SamePlace s.v s'.v ∧ Calm s s' := by
  obtain ⟨v', hr, habs, hsp⟩ := push_fits X s es e h hd hroom
  exact ⟨_, hr, habs, hsp, rfl, rfl, rfl⟩


/-- **C07: the spare-capacity views have exactly `capacity() - len()` slots** (and `split_at_spare_mut`'s first half
    exactly `len()`); reading them off touches nothing -/
theorem C07_spare_exact (X : Ctx) (s : St) (es : List Elem) (h : Abs X s.v es) :
    Vec.spare X s = (.ok ((hsOf s.v s.sys.allocIdx).C - es.length), s) ∧
    Vec.split_spare X s = (.ok (es.length, (hsOf s.v s.sys.allocIdx).C - es.length), s) := by
  have hL : (hsOf s.v s.sys.allocIdx).L = es.length := h.len_eq
  by_cases hC : (hsOf s.v s.sys.allocIdx).C = 0
  · have hnil : es = [] := by
      cases hd : s.v.isDefault with
      | true => exact (h.sentinel hd).2
      | false =>
        obtain ⟨b, _, _, _, hlc, hel, _⟩ := h.alloc hd
        have : s.v.cap = 0 := by simpa [GS.C, hsOf, hd] using hC
        exact List.eq_nil_of_length_eq_zero (by omega)
    subst hnil
    have h1 : VM.lift X (spare_capacity_mut_pre X.env) s = (.ok (.ret 0), s) :=
      lift_read X _ s _ (by unfold spare_capacity_mut_pre; simp [capacity_run, GM.bind_run, hC])
    have h2 : VM.lift X (split_at_spare_mut_pre X.env) s = (.ok (.ret 0), s) :=
      lift_read X _ s _ (by unfold split_at_spare_mut_pre; simp [capacity_run, GM.bind_run, hC])
    constructor
    · unfold Vec.spare; simp only [VM.bind_run, h1, VM.pure_run, hC]; rfl
    · unfold Vec.split_spare; simp only [VM.bind_run, h2, VM.pure_run, hC]; rfl
  · have hd : s.v.isDefault = false := by
      cases hd : s.v.isDefault
      · rfl
      · simp [GS.C, hsOf, hd] at hC
    obtain ⟨b, hb, hl, hs, hlc, hel, hinit⟩ := h.alloc hd
    have hp := as_mut_ptr_run X.env (hsOf s.v s.sys.allocIdx) hd b.lay s.v.cap hl
    have h1 : VM.lift X (spare_capacity_mut_pre X.env) s =
        (.ok (.cont ⟨(hsOf s.v s.sys.allocIdx).C, es.length⟩), s) :=
      lift_read X _ s _ (by
        unfold spare_capacity_mut_pre
        simp only [capacity_run, len_run, GM.bind_run, hL, GM.pure_run, GM.ite_run, beq_iff_eq, hC, if_false])
    have h2 : VM.lift X (split_at_spare_mut_pre X.env) s =
        (.ok (.cont ⟨(hsOf s.v s.sys.allocIdx).C, .at (dataOff s.v.align), es.length⟩), s) :=
      lift_read X _ s _ (by
        unfold split_at_spare_mut_pre
        simp only [capacity_run, len_run, GM.bind_run, hL, hp, GM.pure_run, GM.ite_run, beq_iff_eq, hC, if_false]
        rfl)
    constructor
    · unfold Vec.spare; simp only [VM.bind_run, h1, VM.pure_run]
    · unfold Vec.split_spare; simp only [VM.bind_run, h2, VM.pure_run]

/-- what both spare-capacity entry points compute before they build their slices: nothing for a vector without
    capacity, otherwise (len, capacity - len) -/
theorem spare_room_run (X : Ctx) (viaSplit : Bool) (s : St) (es : List Elem) (h : Abs X s.v es) :
    Vec.spareRoom X viaSplit s =
      (.ok (if (hsOf s.v s.sys.allocIdx).C = 0 then (0, 0) else (es.length, (hsOf s.v s.sys.allocIdx).C - es.length)), s) := by
  unfold Vec.spareRoom
  have hL : (hsOf s.v s.sys.allocIdx).L = es.length := h.len_eq
  by_cases hC : (hsOf s.v s.sys.allocIdx).C = 0
  · rw [if_pos hC]
    cases viaSplit with
    | true =>
      have h1 : VM.lift X (split_at_spare_mut_pre X.env) s = (.ok (.ret 0), s) :=
        lift_read X _ s _ (by unfold split_at_spare_mut_pre; simp [capacity_run, GM.bind_run, hC])
      simp only [if_true, VM.bind_run, h1, VM.pure_run]
    | false =>
      have h1 : VM.lift X (spare_capacity_mut_pre X.env) s = (.ok (.ret 0), s) :=
        lift_read X _ s _ (by unfold spare_capacity_mut_pre; simp [capacity_run, GM.bind_run, hC])
      simp only [Bool.false_eq_true, if_false, VM.bind_run, h1, VM.pure_run]
  · rw [if_neg hC]
    have hd : s.v.isDefault = false := by
      cases hd : s.v.isDefault
      · rfl
      · simp [GS.C, hsOf, hd] at hC
    obtain ⟨b, hb, hl, hs, hlc, hel, hinit⟩ := h.alloc hd
    cases viaSplit with
    | true =>
      have hp := as_mut_ptr_run X.env (hsOf s.v s.sys.allocIdx) hd b.lay s.v.cap hl
      have h1 : VM.lift X (split_at_spare_mut_pre X.env) s =
          (.ok (.cont ⟨(hsOf s.v s.sys.allocIdx).C, .at (dataOff s.v.align), es.length⟩), s) :=
        lift_read X _ s _ (by
          unfold split_at_spare_mut_pre
          simp only [capacity_run, len_run, GM.bind_run, hL, hp, GM.pure_run, GM.ite_run, beq_iff_eq, hC, if_false]
          rfl)
      simp only [if_true, VM.bind_run, h1, VM.pure_run]
    | false =>
      have h1 : VM.lift X (spare_capacity_mut_pre X.env) s =
          (.ok (.cont ⟨(hsOf s.v s.sys.allocIdx).C, es.length⟩), s) :=
        lift_read X _ s _ (by
          unfold spare_capacity_mut_pre
          simp only [capacity_run, len_run, GM.bind_run, hL, GM.pure_run, GM.ite_run, beq_iff_eq, hC, if_false])
      simp only [Bool.false_eq_true, if_false, VM.bind_run, h1, VM.pure_run]

/-- writing new elements into the spare slots and publishing them -/
theorem fillTail_spec (X : Ctx) (s : St) (es xs : List Elem) (h : Abs X s.v es) (hd : s.v.isDefault = false)
    (hfit : es.length + xs.length ≤ s.v.cap) :
    ∃ v', Vec.fillTail X es.length xs s = (.ok xs.length, { s with v := v' }) ∧ Abs X v' (es ++ xs) ∧ SamePlace s.v v' := by
  obtain ⟨b, hb, hl, hs, hlc, hel, hinit⟩ := h.alloc hd
  have h4 : VM.lift X (as_mut_ptr X.env) s = (.ok (.at (dataOff s.v.align)), s) :=
    lift_read X _ s _ (as_mut_ptr_run X.env _ hd b.lay s.v.cap hl)
  obtain ⟨v2, hw, habs2, hlen2, hcap2, hd2, hal2, hbid2, hlay2⟩ := write_tail_abs X s es xs h hd hfit
  have h5 := lift_set_len X (es.length + xs.length) { s with v := v2 } hd2
  refine ⟨{ v2 with len := es.length + xs.length }, ?_, habs2, ⟨hcap2, hal2, by show v2.isDefault = _; rw [hd2, hd], ?_⟩⟩
  · unfold Vec.fillTail
    simp only [VM.bind_run, h4, hw, h5, VM.pure_run]
  · show v2.blk.map (fun b => (b.bid, b.lay)) = s.v.blk.map (fun b => (b.bid, b.lay))
    cases hv : v2.blk <;> cases hsb : s.v.blk <;> simp [hv, hsb] at hbid2 hlay2 ⊢
    exact ⟨hbid2, hlay2⟩

/-- **C07: `spare_capacity_mut()` / `split_at_spare_mut()` describe exactly the unused tail.** Writing `min(k, spare)`
    new elements through the slice the API hands out and then `set_len` appends exactly those elements: the slice
    starts right behind the last element and is `capacity() - len()` long (a longer one would be an out-of-block
    write, a misplaced one would overwrite or skip a slot); same block, same capacity, no allocator traffic. -/
theorem C07_fill_spare (X : Ctx) (viaSplit : Bool) (k : Nat) (val : Int) (s : St) (es : List Elem) (h : Abs X s.v es) :
    ∃ s' new, Vec.fill_spare X viaSplit k val s = (.ok (min k ((hsOf s.v s.sys.allocIdx).C - es.length)), s') ∧
      Abs X s'.v (es ++ new) ∧
      new.map (·.val) = (List.range (min k ((hsOf s.v s.sys.allocIdx).C - es.length))).map (fun (i : Nat) => val + (i : Int)) ∧
      (s.v.isDefault = false → SamePlace s.v s'.v) ∧ Calm s s' := by
  have hroom := spare_room_run X viaSplit s es h
  unfold Vec.fill_spare
  simp only [VM.bind_run, hroom]
  by_cases hC : (hsOf s.v s.sys.allocIdx).C = 0
  · simp only [hC, if_true, Nat.zero_sub, Nat.min_zero, VM.pure_run]
    exact ⟨s, [], rfl, by simpa using h, by simp, fun _ => SamePlace.refl _, Calm.refl _⟩
  · simp only [hC, if_false]
    have hd : s.v.isDefault = false := by
      cases hd : s.v.isDefault
      · rfl
      · simp [GS.C, hsOf, hd] at hC
    have hCc : (hsOf s.v s.sys.allocIdx).C = s.v.cap := by simp [GS.C, hsOf, hd]
    by_cases hn : min k ((hsOf s.v s.sys.allocIdx).C - es.length) = 0
    · simp only [hn, if_true, VM.pure_run]
      exact ⟨s, [], rfl, by simpa using h, by simp, fun _ => SamePlace.refl _, Calm.refl _⟩
    · simp only [hn, if_false]
      obtain ⟨xs, hmk, hvals⟩ := mapM_mkElem_exact
        ((List.range (min k ((hsOf s.v s.sys.allocIdx).C - es.length))).map (fun (i : Nat) => val + (i : Int))) s
      have hxl : xs.length = min k ((hsOf s.v s.sys.allocIdx).C - es.length) := by
        have := congrArg List.length hvals; simpa using this
      simp only [VM.bind_run, hmk]
      have hfit : es.length + xs.length ≤ s.v.cap := by rw [hxl, hCc]; omega
      obtain ⟨v', hft, habs', hsp⟩ := fillTail_spec X
        { s with sys := { s.sys with nextId := s.sys.nextId +
          ((List.range (min k ((hsOf s.v s.sys.allocIdx).C - es.length))).map (fun (i : Nat) => val + (i : Int))).length } }
        es xs h hd hfit
      rw [hft, hxl]
      exact ⟨_, xs, rfl, habs', hvals, fun _ => hsp, ⟨rfl, rfl, rfl⟩⟩

/-- non-vacuity: a concrete vector (u32-like elements, capacity 4, one element) meets the hypotheses of the
    `*_fits` theorems -/
def exX : Ctx := { c := ⟨4, 4, true⟩, m := .debug }
def exV : VSt := { isDefault := false, len := 1, cap := 4, align := 8, blk := some ⟨0, ⟨40, 8⟩, [some ⟨1, 7⟩, none, none, none]⟩ }
example : Abs exX exV [⟨1, 7⟩] ∧ exV.isDefault = false ∧ [(⟨1, 7⟩ : Elem)].length + 3 ≤ exV.cap := by
  refine ⟨⟨by decide, fun h => by simp [exV] at h, fun _ => ⟨_, rfl, by decide, by decide, by decide, rfl, ?_⟩⟩, rfl, by decide⟩
  intro i hi
  have : i = 0 := by simp [exV] at hi; omega
  subst this; rfl

end MV.Props

#print axioms MV.Props.C07_push_fits
#print axioms MV.Props.C07_extend_fits
#print axioms MV.Props.C07_extend_from_slice_fits
#print axioms MV.Props.C07_resize_with_fits
#print axioms MV.Props.C07_resize_fits
#print axioms MV.Props.C07_insert_fits
#print axioms MV.Props.C07_append_fits
#print axioms MV.Props.C07_fill_spare
#print axioms MV.Props.C07_spare_exact
#print axioms MV.Props.C07_pop_stable
#print axioms MV.Props.C07_remove_stable
#print axioms MV.Props.C07_swap_remove_stable
#print axioms MV.Props.C07_truncate_stable
#print axioms MV.Props.C07_clear_stable

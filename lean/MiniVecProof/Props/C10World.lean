import MiniVecProof.Props.C03World
import MiniVecProof.Props.C17DedupExact
/-
  C10 / C01 / C03 / C12 — VALUES on the register machine (PARTIAL: the 64 operation kinds `astepAll` answers for —
  constructors incl. `deserialize`, single-vector operations, clone / clone_from / split_off / append, serialize,
  `deserialize_in_place`, leak, all four iterators (`Drain`, `Splice`, `DrainFilter`, `IntoIter`) with every iterator
  step, the provided `nth` / `nth_back` / `count` / `last` (defined from `next` and `drop` the way `core` defines them:
  they return what the list iterator returns and never run out of fuel), `as_slice`, cloning an `IntoIter`; `dedup_by` / `dedup_by_key` (Props/C17DedupExact: exactly `Vec::dedup_by`'s survivors); `dedup` / `remove_item` / `compare` (`==`, `partial_cmp`, `cmp`, equal hashes) with the element type's own `PartialEq`
  (hypothesis `heq`: the equality script is empty — a misbehaving `PartialEq` is C17's subject); `from_str` / `extend_ref` (a temporary vector built, measured and dropped inside the operation: the reported length is the string's / the number of pushes), `spare_capacity_mut` / `split_at_spare_mut` / the `into_raw_parts`-`from_raw_parts` and `from_raw_part` round trips (they change no value; the length they report is the value list's, the capacity is left open: `AOut.storage` / `AOut.lenCap`); not covered, of the 66 operation kinds of the register machine: with_alignment (whether it is accepted depends on the element type's alignment, which the value world does not carry: stated separately as `C10_world_with_alignment_values`), fill_spare (how much it writes depends on the capacity)): a refinement of the
  world of `Model/World.lean` (what the line-protocol driver runs against the real code) to an abstract world in which
  a register holds a plain list of values, or an iterator described by the values it still has to yield.

  Any number of vectors, `Drain`s and `IntoIter`s alive at the same time, stepped from either end, dropped or forgotten
  between operations on other registers, in whatever order: every returned value is the one the list specification
  returns; a `Drain` yields exactly the elements of its range, each once, from the end asked for, and when it is dropped
  its source holds the prefix followed by the tail (when it is forgotten: the prefix only — leak amplification, never
  an element twice); a `DrainFilter` yields exactly the elements its predicate accepts, in order, calling the predicate
  once per element examined, keeps the others, and when it is dropped half way filters the rest (forgotten: the source
  is empty); a `Splice` drains like a `Drain` and its drop inserts what the replacement iterator yields before its first
  `None`; an `IntoIter` yields the vector's elements; `size_hint` / `len` are exact. A step that the
  allocator refuses stops in a sanctioned way and leaves the abstract world as it was.
-/
namespace MV.Props
open MV MV.Gen MV.GM VM

/-- what a register holds, as values -/
inductive AObj
  | vec (vs : List Int)
  | lent | gone
  | drain (src : String) (pre win tail : List Int)      -- still to yield: `win`; after drop the source holds `pre ++ tail`
  | intoIter (win : List Int)
  /-- a `DrainFilter`: the predicate, how often it has been called, what it has decided to keep, what it has not seen yet -/
  | drainFilter (src : String) (p : PredTok) (calls : Nat) (kept rest : List Int)
  /-- a `Splice`: like a `Drain`, plus the replacement its drop will insert -/
  | splice (src : String) (pre win tail : List Int) (fill : Vec.IterScript)

abbrev AW := String → Option AObj

def AW.set (a : AW) (r : String) (o : AObj) : AW := fun r' => if r' = r then some o else a r'

inductive AOut
  | ok | none | some (v : Int) | hint (lo hi : Nat) | len (n : Nat) | vals (vs : List Int) | err | badOp
  /-- an answer about the storage (spare room, whether a block exists): the value specification leaves it open -/
  | storage
  /-- the length, and a capacity the value specification leaves open; `none` only for a vector that holds nothing -/
  | lenCap (n : Nat)
  | cmp (eq : Bool) (ord : Ordering)
  deriving DecidableEq

def optA : Option Int → AOut
  | .none => .none
  | .some v => .some v

/-- an operation on a vector register, as a function on its values; `none`: arguments outside the documented limits -/
def onVecA (a : AW) (r : String) (g : List Int → Option (List Int × AOut)) : Option (AW × AOut) :=
  match a r with
  | some (.vec vs) => (g vs).map (fun q => (a.set r (.vec q.1), q.2))
  | _ => some (a, .badOp)

/-- the list specification of the operations covered here; `none`: not covered (other operations, or arguments outside
    the documented limits, which is C11's subject) -/
def mkA (a : AW) (r : String) (vs : List Int) : AW × AOut :=
  match a r with
  | none => (a.set r (.vec vs), .ok)
  | some _ => (a, .badOp)

/-- `retain` on values: the predicate sees the call number and the element's value -/
def keptVals (p : PredTok) : Nat → List Int → List Int
  | _, [] => []
  | k, v :: vs => if p.pred1 k ⟨0, v⟩ then v :: keptVals p (k + 1) vs else keptVals p (k + 1) vs

/-- one `next()` of a `DrainFilter` on values: what it skips (keeps in the vector), what it yields with what is left, and
    the number of predicate calls afterwards -/
def dfNextV (p : PredTok) : Nat → List Int → List Int × Option (Int × List Int) × Nat
  | k, [] => ([], none, k)
  | k, v :: rest =>
    if p.pred1 k ⟨0, v⟩ then ([], some (v, rest), k + 1)
    else (v :: (dfNextV p (k + 1) rest).1, (dfNextV p (k + 1) rest).2.1, (dfNextV p (k + 1) rest).2.2)

/-- what dropping a `DrainFilter` leaves of the part it has not seen -/
def rejVals (p : PredTok) : Nat → List Int → List Int
  | _, [] => []
  | k, v :: vs => if p.pred1 k ⟨0, v⟩ then rejVals p (k + 1) vs else v :: rejVals p (k + 1) vs

def restOfV : Option (Int × List Int) → List Int
  | some (_, r) => r
  | none => []

/-- the scripted comparison of `dedup_by` and of `dedup_by_key` (two key calls per comparison), on values -/
def _root_.MV.PredTok.pred2V (p : PredTok) : Nat → Int → Int → Bool := fun k a b => p.pred2 k ⟨0, a⟩ ⟨0, b⟩
def _root_.MV.KeyTok.sameV (kt : KeyTok) : Nat → Int → Int → Bool := fun k a b => kt.key (2 * k) ⟨0, a⟩ == kt.key (2 * k + 1) ⟨0, b⟩

/-- `Vec::dedup_by` on values: an element is dropped iff the comparison says it equals the last KEPT one -/
def dedupFromV (g : Nat → Int → Int → Bool) : Nat → Int → List Int → List Int
  | _, _, [] => []
  | k, last, v :: rest => if g k v last then dedupFromV g (k + 1) last rest else v :: dedupFromV g (k + 1) v rest

def dedupAllV (g : Nat → Int → Int → Bool) : List Int → List Int
  | [] => []
  | x :: xs => x :: dedupFromV g 0 x xs

/-- remove the first value equal to `x` -/
def removeFirstV (x : Int) : List Int → Option Int × List Int
  | [] => (none, [])
  | v :: vs => if v == x then (some v, vs) else ((removeFirstV x vs).1, v :: (removeFirstV x vs).2)

def astep (a : AW) : Op → Option (AW × AOut)
  | .new r | .default r | .macro_empty r | .with_capacity r _ => some (mkA a r [])
  | .from_slice r vals | .macro_list r vals => some (mkA a r vals)
  | .macro_repeat r val n => some (mkA a r (List.replicate n val))
  | .collect r it => some (mkA a r (takeSome it))
  | .extend r it => onVecA a r (fun vs => some (vs ++ takeSome it, .ok))
  | .extend_from_slice r vals => onVecA a r (fun vs => some (vs ++ vals, .ok))
  | .resize r n val => onVecA a r (fun vs => some (vs.take n ++ List.replicate (n - vs.length) val, .ok))
  | .resize_with r n g =>
    onVecA a r (fun vs => some (vs.take n ++ (List.range (n - vs.length)).map (fun k => g.getD k 0), .ok))
  | .extend_from_within r b1 b2 => onVecA a r (fun vs =>
      match resolve b1 b2 vs.length with
      | some (st, en) => some (vs ++ (vs.take en).drop st, .ok)
      | none => none)
  | .retain r p => onVecA a r (fun vs => some (keptVals p 0 vs, .ok))
  | .dedup r => onVecA a r (fun vs => some (dedupAllV (fun _ x y => x == y) vs, .ok))
  | .remove_item r val => onVecA a r (fun vs => some ((removeFirstV val vs).2, optA (removeFirstV val vs).1))
  | .dedup_by r p => onVecA a r (fun vs => some (dedupAllV p.pred2V vs, .ok))
  | .dedup_by_key r k => onVecA a r (fun vs => some (dedupAllV k.sameV vs, .ok))
  | .serialize r => onVecA a r (fun vs => some (vs, .vals vs))
  | .views r => onVecA a r (fun vs => some (vs, .ok))
  | .leak r =>
    (match a r with
      | some (.vec vs) => some (a.set r .gone, .vals vs)
      | _ => some (a, .badOp))
  | .as_slice it =>
    (match a it with
      | some (.intoIter win) => some (a, .vals win)
      | _ => some (a, .badOp))
  | .compare r r2 =>
    (match a r, a r2 with
      | some (.vec xs), some (.vec ys) => some (a, .cmp (xs == ys) (cmpVals xs ys))
      | _, _ => some (a, .badOp))
  | .clone_iter it itnew =>
    (match a itnew with
      | some _ => some (a, .badOp)
      | none =>
        (match a it with
          | some (.intoIter win) => some ((a.set it (.intoIter win)).set itnew (.intoIter win), .ok)
          | _ => some (a, .badOp)))
  | .clone_from r rsrc =>
    if r == rsrc then some (a, .badOp) else
    (match a r, a rsrc with
      | some (.vec _), some (.vec os) => some (a.set r (.vec os), .ok)
      | _, _ => some (a, .badOp))
  | .deserialize rnew _ sc =>
    (match a rnew with
      | some _ => some (a, .badOp)
      | none => if (seqScan sc).2 then some (a, .err) else some (a.set rnew (.vec (seqScan sc).1), .ok))
  | .deserialize_in_place r _ sc =>
    onVecA a r (fun _ => if (seqScan sc).2 then none else some ((seqScan sc).1, .ok))
  | .clone r rnew =>
    (match a rnew with
      | some _ => some (a, .badOp)
      | none =>
        (match a r with
          | some (.vec vs) => some ((a.set r (.vec vs)).set rnew (.vec vs), .ok)
          | _ => some (a, .badOp)))
  | .drain_vec r rnew =>
    (match a rnew with
      | some _ => some (a, .badOp)
      | none =>
        (match a r with
          | some (.vec vs) => some ((a.set r (.vec [])).set rnew (.vec vs), .ok)
          | _ => some (a, .badOp)))
  | .iter_views it =>
    (match a it with
      | some (.intoIter _) => some (a, .ok)
      | _ => some (a, .badOp))
  | .split_off r at_ rnew =>
    (match a rnew with
      | some _ => some (a, .badOp)
      | none =>
        (match a r with
          | some (.vec vs) =>
            if at_ ≤ vs.length then some ((a.set r (.vec (vs.take at_))).set rnew (.vec (vs.drop at_)), .ok) else none
          | _ => some (a, .badOp)))
  | .append r r2 =>
    if r == r2 then some (a, .badOp) else
    (match a r, a r2 with
      | some (.vec vs), some (.vec os) => some ((a.set r (.vec (vs ++ os))).set r2 (.vec []), .ok)
      | _, _ => some (a, .badOp))
  | .push r val => onVecA a r (fun vs => some (vs ++ [val], .ok))
  | .pop r => onVecA a r (fun vs => some (vs.dropLast, optA vs.getLast?))
  | .insert r i val => onVecA a r (fun vs => if i ≤ vs.length then some (vs.take i ++ [val] ++ vs.drop i, .ok) else none)
  | .remove r i => onVecA a r (fun vs => if i < vs.length then some (vs.eraseIdx i, optA vs[i]?) else none)
  | .swap_remove r i => onVecA a r (fun vs => if i < vs.length then
      some ((match vs.getLast? with | some l => (vs.set i l).take (vs.length - 1) | none => vs), optA vs[i]?) else none)
  | .truncate r n => onVecA a r (fun vs => some (vs.take n, .ok))
  | .clear r => onVecA a r (fun _ => some ([], .ok))
  | .reserve r _ | .reserve_exact r _ | .shrink_to r _ | .shrink_to_fit r => onVecA a r (fun vs => some (vs, .ok))
  | .drain r b1 b2 it =>
    (match a it with
      | some _ => some (a, .badOp)
      | none =>
        (match a r with
          | some (.vec vs) =>
            (match resolve b1 b2 vs.length with
              | some (st, en) =>
                some ((a.set r .lent).set it (.drain r (vs.take st) ((vs.take en).drop st) (vs.drop en)), .ok)
              | none => none)
          | _ => some (a, .badOp)))
  | .splice r b1 b2 fill it =>
    (match a it with
      | some _ => some (a, .badOp)
      | none =>
        (match a r with
          | some (.vec vs) =>
            (match resolve b1 b2 vs.length with
              | some (st, en) =>
                some ((a.set r .lent).set it (.splice r (vs.take st) ((vs.take en).drop st) (vs.drop en) fill), .ok)
              | none => none)
          | _ => some (a, .badOp)))
  | .drain_filter r p it =>
    (match a it with
      | some _ => some (a, .badOp)
      | none =>
        (match a r with
          | some (.vec vs) => some ((a.set r .lent).set it (.drainFilter r p 0 [] vs), .ok)
          | _ => some (a, .badOp)))
  | .into_iter r it =>
    (match a it with
      | some _ => some (a, .badOp)
      | none =>
        (match a r with
          | some (.vec vs) => some ((a.set r .gone).set it (.intoIter vs), .ok)
          | _ => some (a, .badOp)))
  | .next it =>
    (match a it with
      | some (.drain src pre win tail) => some (a.set it (.drain src pre win.tail tail), optA win.head?)
      | some (.intoIter win) => some (a.set it (.intoIter win.tail), optA win.head?)
      | some (.splice src pre win tail fill) => some (a.set it (.splice src pre win.tail tail fill), optA win.head?)
      | some (.drainFilter src p calls kept rest) =>
        some (a.set it (.drainFilter src p (dfNextV p calls rest).2.2 (kept ++ (dfNextV p calls rest).1)
          (restOfV (dfNextV p calls rest).2.1)), optA ((dfNextV p calls rest).2.1.map (·.1)))
      | some _ => none
      | none => some (a, .badOp))
  | .next_back it =>
    (match a it with
      | some (.drain src pre win tail) => some (a.set it (.drain src pre win.dropLast tail), optA win.getLast?)
      | some (.intoIter win) => some (a.set it (.intoIter win.dropLast), optA win.getLast?)
      | some (.splice src pre win tail fill) => some (a.set it (.splice src pre win.dropLast tail fill), optA win.getLast?)
      | some _ => none
      | none => some (a, .badOp))
  | .size_hint it =>
    (match a it with
      | some (.drain _ _ win _) => some (a, .hint win.length win.length)
      | some (.intoIter win) => some (a, .hint win.length win.length)
      | some (.splice _ _ win _ _) => some (a, .hint win.length win.length)
      | some (.drainFilter _ _ _ _ rest) => some (a, .hint 0 rest.length)
      | some _ => none
      | none => some (a, .badOp))
  | .len it =>
    (match a it with
      | some (.drain _ _ win _) => some (a, .len win.length)
      | some (.intoIter win) => some (a, .len win.length)
      | some (.splice _ _ win _ _) => some (a, .len win.length)
      | some _ => none
      | none => some (a, .badOp))
  | .drop r =>
    (match a r with
      | some (.vec _) => some (a.set r .gone, .ok)
      | some (.drain src pre _ tail) => some ((a.set r .gone).set src (.vec (pre ++ tail)), .ok)
      | some (.drainFilter src p calls kept rest) => some ((a.set r .gone).set src (.vec (kept ++ rejVals p calls rest)), .ok)
      | some (.splice src pre _ tail fill) => some ((a.set r .gone).set src (.vec (pre ++ takeSome fill ++ tail)), .ok)
      | some (.intoIter _) => some (a.set r .gone, .ok)
      | some _ => some (a, .badOp)
      | none => some (a, .badOp))
  | .forget r =>
    (match a r with
      | some (.vec _) => some (a.set r .gone, .ok)
      | some (.drain src pre _ _) => some ((a.set r .gone).set src (.vec pre), .ok)
      | some (.drainFilter src _ _ _ _) => some ((a.set r .gone).set src (.vec []), .ok)
      | some (.splice src pre _ _ _) => some ((a.set r .gone).set src (.vec pre), .ok)
      | some (.intoIter _) => some (a.set r .gone, .ok)
      | some _ => some (a, .badOp)
      | none => some (a, .badOp))
  | .spare r => onVecA a r (fun vs => some (vs, .storage))
  | .split_spare r => onVecA a r (fun vs => some (vs, .lenCap vs.length))
  | .raw_parts r => onVecA a r (fun vs => some (vs, .lenCap vs.length))
  | .raw_part r => onVecA a r (fun vs => some (vs, .storage))
  | .from_str n => some (if n > 1048576 then (a, .badOp) else (a, .len n))
  | .extend_ref pre it =>
    some (if pre > 4096 || it.length > 4096 then (a, .badOp)
          else (a, .len (pre + ((it.takeWhile Option.isSome).filterMap id).length)))
  | _ => none

/-- a register of the model describes the abstract one -/
def RegVal (X : Ctx) : Obj → AObj → Prop
  | .vec v, .vec vs => ∃ es, Abs X v es ∧ es.map (·.val) = vs
  | .lent, .lent => True
  | .gone, .gone => True
  | .drain src v d, .drain src' pre win tail => src = src' ∧
      ((∃ es st en, DrainInv X v es st en d ∧ (es.take st).map (·.val) = pre ∧ (window d es).map (·.val) = win ∧
          (es.drop en).map (·.val) = tail) ∨
       (v.isDefault = true ∧ Abs X v [] ∧ d.pos ≥ d.stop ∧ d.tail = 0 ∧ pre = [] ∧ win = [] ∧ tail = []))
  | .intoIter v it, .intoIter win =>
      (∃ es, IntoInv X v es it ∧ (iwindow it v.len es).map (·.val) = win) ∨
      (v.isDefault = true ∧ Abs X v [] ∧ win = [])
  | .splice src v sp, .splice src' pre win tail fill => src = src' ∧ sp.fill = fill ∧
      ((∃ es st en, DrainInv X v es st en sp.d ∧ (es.take st).map (·.val) = pre ∧ (window sp.d es).map (·.val) = win ∧
          (es.drop en).map (·.val) = tail) ∨
       (v.isDefault = true ∧ Abs X v [] ∧ sp.d.pos ≥ sp.d.stop ∧ pre = [] ∧ win = [] ∧ tail = []))
  | .drainFilter src v f, .drainFilter src' p calls kept rest => src = src' ∧ f.pred = p.pred1 ∧ f.calls = calls ∧
      ((∃ keptE junk restE, DFInv X v f keptE junk restE ∧ keptE.map (·.val) = kept ∧ restE.map (·.val) = rest) ∨
       (v.isDefault = true ∧ Abs X v [] ∧ f.oldLen = 0 ∧ f.pos = 0 ∧ f.newLen = 0 ∧ f.panicked = false ∧
          kept = [] ∧ rest = []))
  | _, _ => False

def Rel (X : Ctx) (w : World) (a : AW) : Prop :=
  (∀ r, w.get r = none ↔ a r = none) ∧ ∀ r o ao, w.get r = some o → a r = some ao → RegVal X o ao

def OutVal : Out → AOut → Prop
  | .ok, .ok => True
  | .none, .none => True
  | .some e, .some v => e.val = v
  | .hint lo hi, .hint l h => lo = l ∧ hi = some h
  | .nums ns, .len n => ns = [n]
  | .elems es, .vals vs => es.map (·.val) = vs
  | .cmp eq pc c heq, .cmp e o => eq = e ∧ pc = some o ∧ c = o ∧ heq = e
  | .err, .err => True
  | .badOp, .badOp => True
  | .fromStr l, .len n => l = n
  | .ok, .storage => True
  | .nums ns, .lenCap n => ∃ c, ns = [n, c]
  | .none, .lenCap n => n = 0
  | .nums _, .storage => True
  | .none, .storage => True
  | _, _ => False

/-- the step answered as the specification does and the worlds are related again; or the allocator (or the capacity
    computation) refused, in a sanctioned way, and the world is still described by SOME abstract world (a loop that was
    interrupted keeps what it had appended so far) -/
def StepVal (X : Ctx) (res : World × Out) (a a' : AW) (ao : AOut) : Prop :=
  (OutVal res.2 ao ∧ Rel X res.1 a') ∨ (∃ p, res.2 = .stopped p ∧ Panic.benign p = true ∧ ∃ a'', Rel X res.1 a'')

theorem Rel.sys {X : Ctx} {w : World} {a : AW} (h : Rel X w a) (sys : Sys) : Rel X { w with sys := sys } a := h

theorem Rel.set {X : Ctx} {w : World} {a : AW} (h : Rel X w a) (r : String) (o : Obj) (ao : AObj) (ho : RegVal X o ao) :
    Rel X (w.set r o) (a.set r ao) := by
  refine ⟨fun r' => ?_, fun r' o' ao' hg ha => ?_⟩
  · rw [world_get_set]
    unfold AW.set
    by_cases hr : r' = r
    · simp [hr]
    · simp only [hr, if_false]; exact h.1 r'
  · rw [world_get_set] at hg
    unfold AW.set at ha
    by_cases hr : r' = r
    · simp only [hr, if_true, Option.some.injEq] at hg ha; subst hg; subst ha; exact ho
    · simp only [hr, if_false] at hg ha; exact h.2 r' o' ao' hg ha

theorem fresh_iff_get (w : World) (r : String) : w.fresh r = true ↔ w.get r = none := by
  unfold World.fresh World.get
  constructor
  · intro h
    have : w.regs.any (·.1 == r) = false := by simpa using h
    rw [find_none_of_not_any _ _ this]; rfl
  · intro h
    cases hf : w.regs.find? (·.1 == r) with
    | some q => rw [hf] at h; simp at h
    | none =>
      rw [List.find?_eq_none] at hf
      simp only [Bool.not_eq_true', List.any_eq_false]
      intro q hq
      simpa using hf q hq

theorem Rel.fresh {X : Ctx} {w : World} {a : AW} (h : Rel X w a) (r : String) : w.fresh r = true ↔ a r = none := by
  rw [fresh_iff_get]; exact h.1 r

theorem Rel.vec_of {X : Ctx} {w : World} {a : AW} (h : Rel X w a) (r : String) (vs : List Int)
    (ha : a r = some (.vec vs)) : ∃ v es, w.get r = some (.vec v) ∧ Abs X v es ∧ es.map (·.val) = vs := by
  cases hg : w.get r with
  | none => have := (h.1 r).mp hg; rw [ha] at this; cases this
  | some o =>
    have hv := h.2 r o _ hg ha
    cases o <;> simp only [RegVal] at hv
    case vec v => obtain ⟨es, h1, h2⟩ := hv; exact ⟨v, es, rfl, h1, h2⟩

theorem Rel.not_vec {X : Ctx} {w : World} {a : AW} (h : Rel X w a) (r : String)
    (ha : ∀ vs, a r ≠ some (.vec vs)) : ∀ v, w.get r ≠ some (.vec v) := by
  intro v hg
  cases har : a r with
  | none => have := (h.1 r).mpr har; rw [hg] at this; cases this
  | some ao =>
    have hv := h.2 r _ ao hg har
    cases ao <;> simp only [RegVal] at hv
    case vec vs => exact ha vs har


theorem Rel.obj_of {X : Ctx} {w : World} {a : AW} (h : Rel X w a) (r : String) (ao : AObj) (ha : a r = some ao) :
    ∃ o, w.get r = some o ∧ RegVal X o ao := by
  cases hg : w.get r with
  | none => have := (h.1 r).mp hg; rw [ha] at this; cases this
  | some o => exact ⟨o, rfl, h.2 r o ao hg ha⟩

theorem Rel.drain_of {X : Ctx} {w : World} {a : AW} (h : Rel X w a) (r src : String) (pre win tail : List Int)
    (ha : a r = some (.drain src pre win tail)) :
    ∃ v d, w.get r = some (.drain src v d) ∧ RegVal X (.drain src v d) (.drain src pre win tail) := by
  obtain ⟨o, hg, hv⟩ := h.obj_of r _ ha
  cases o <;> simp only [RegVal] at hv
  case drain src' v d => obtain ⟨rfl, hv⟩ := hv; exact ⟨v, d, hg, rfl, hv⟩

theorem Rel.into_of {X : Ctx} {w : World} {a : AW} (h : Rel X w a) (r : String) (win : List Int)
    (ha : a r = some (.intoIter win)) :
    ∃ v it, w.get r = some (.intoIter v it) ∧ RegVal X (.intoIter v it) (.intoIter win) := by
  obtain ⟨o, hg, hv⟩ := h.obj_of r _ ha
  cases o <;> simp only [RegVal] at hv
  case intoIter v it => exact ⟨v, it, hg, hv⟩

theorem Rel.df_of {X : Ctx} {w : World} {a : AW} (h : Rel X w a) (r src : String) (p : PredTok) (calls : Nat)
    (kept rest : List Int) (ha : a r = some (.drainFilter src p calls kept rest)) :
    ∃ v f, w.get r = some (.drainFilter src v f) ∧ RegVal X (.drainFilter src v f) (.drainFilter src p calls kept rest) := by
  obtain ⟨o, hg, hv⟩ := h.obj_of r _ ha
  cases o <;> simp only [RegVal] at hv
  case drainFilter src' v f => obtain ⟨rfl, hv⟩ := hv; exact ⟨v, f, hg, rfl, hv⟩

theorem Rel.splice_of {X : Ctx} {w : World} {a : AW} (h : Rel X w a) (r src : String) (pre win tail : List Int)
    (fill : Vec.IterScript) (ha : a r = some (.splice src pre win tail fill)) :
    ∃ v sp, w.get r = some (.splice src v sp) ∧ RegVal X (.splice src v sp) (.splice src pre win tail fill) := by
  obtain ⟨o, hg, hv⟩ := h.obj_of r _ ha
  cases o <;> simp only [RegVal] at hv
  case splice src' v sp => obtain ⟨rfl, hv⟩ := hv; exact ⟨v, sp, hg, rfl, hv⟩

theorem Rel.lent_of {X : Ctx} {w : World} {a : AW} (h : Rel X w a) (r : String) (ha : a r = some .lent) :
    w.get r = some .lent := by
  obtain ⟨o, hg, hv⟩ := h.obj_of r _ ha
  cases o <;> simp only [RegVal] at hv
  exact hg

theorem Rel.gone_of {X : Ctx} {w : World} {a : AW} (h : Rel X w a) (r : String) (ha : a r = some .gone) :
    w.get r = some .gone := by
  obtain ⟨o, hg, hv⟩ := h.obj_of r _ ha
  cases o <;> simp only [RegVal] at hv
  exact hg

/-- an operation on a vector register whose computation refines the list specification -/
theorem onVecReg_val (X : Ctx) (w : World) (a : AW) (r : String) (x : VM Out) (hrel : Rel X w a) (vs vs' : List Int)
    (ao : AOut) (ha : a r = some (.vec vs))
    (hx : ∀ s es, Abs X s.v es → es.map (·.val) = vs →
      (∃ o s' es', x s = (.ok o, s') ∧ Abs X s'.v es' ∧ es'.map (·.val) = vs' ∧ OutVal o ao) ∨
      (∃ p s' es', x s = (.error p, s') ∧ Panic.benign p = true ∧ Abs X s'.v es')) :
    StepVal X (w.onVecReg r x) a (a.set r (.vec vs')) ao := by
  obtain ⟨v, es, hg, habs, hvals⟩ := hrel.vec_of r vs ha
  unfold World.onVecReg
  simp only [hg, runOn]
  rcases hx { sys := w.sys, v := v } es habs hvals with ⟨o, s', es', hr, ha', hv', ho⟩ | ⟨p, s', es', hr, hb, ha'⟩
  · rw [hr]
    exact .inl ⟨ho, (hrel.sys s'.sys).set r _ _ ⟨es', ha', hv'⟩⟩
  · rw [hr]
    exact .inr ⟨p, rfl, hb, _, (hrel.sys s'.sys).set r _ (.vec (es'.map (·.val))) ⟨es', ha', rfl⟩⟩

theorem onVecReg_bad (X : Ctx) (w : World) (a : AW) (r : String) (x : VM Out) (hrel : Rel X w a)
    (ha : ∀ vs, a r ≠ some (.vec vs)) : StepVal X (w.onVecReg r x) a a .badOp := by
  have hn := hrel.not_vec r ha
  unfold World.onVecReg
  cases hg : w.get r with
  | none => exact .inl ⟨trivial, hrel⟩
  | some o =>
    cases o with
    | vec v => exact absurd hg (hn v)
    | _ => exact .inl ⟨trivial, hrel⟩

/-- a constructor -/
theorem mkReg_val (X : Ctx) (w : World) (a : AW) (r : String) (x : VM VSt) (hrel : Rel X w a) (vs' : List Int)
    (hx : ∀ s, s.v = {} → (∃ o s' new, x s = (.ok o, s') ∧ Abs X o new ∧ new.map (·.val) = vs') ∨
      (∃ p s', x s = (.error p, s') ∧ Panic.benign p = true)) :
    StepVal X (w.mkReg r x) a (mkA a r vs').1 (mkA a r vs').2 := by
  unfold World.mkReg mkA
  cases har : a r with
  | some ao =>
    have : w.fresh r = false := by
      cases hf : w.fresh r with
      | false => rfl
      | true => have := (hrel.fresh r).mp hf; rw [har] at this; cases this
    simp only [this, Bool.not_false, if_true]
    exact .inl ⟨trivial, hrel⟩
  | none =>
    have hf : w.fresh r = true := (hrel.fresh r).mpr har
    simp only [hf, Bool.not_true, Bool.false_eq_true, if_false, runOn]
    rcases hx { sys := w.sys, v := {} } rfl with ⟨o, s', new, hr, ho, hv⟩ | ⟨p, s', hr, hb⟩
    · rw [hr]; exact .inl ⟨trivial, (hrel.sys s'.sys).set r _ _ ⟨new, ho, hv⟩⟩
    · rw [hr]; exact .inr ⟨p, rfl, hb, a, hrel.sys s'.sys⟩

theorem map_eraseIdx' {α β} (f : α → β) : ∀ (l : List α) (i : Nat), (l.eraseIdx i).map f = (l.map f).eraseIdx i
  | [], _ => rfl
  | _ :: _, 0 => rfl
  | a :: l, i + 1 => by simp [List.eraseIdx, map_eraseIdx' f l i]

theorem pred1_val (p : PredTok) (k : Nat) (e : Elem) : p.pred1 k e = p.pred1 k ⟨0, e.val⟩ := by
  cases p <;> rfl

theorem keptFrom_vals (p : PredTok) : ∀ (k : Nat) (es : List Elem),
    (keptFrom p.pred1 k es).map (·.val) = keptVals p k (es.map (·.val))
  | _, [] => rfl
  | k, e :: es => by
    simp only [keptFrom, List.map_cons, keptVals, ← pred1_val p k e]
    split
    · simp [keptFrom_vals p (k + 1) es]
    · exact keptFrom_vals p (k + 1) es

theorem dfNext_vals (p : PredTok) : ∀ (k : Nat) (es : List Elem),
    (dfNext p.pred1 k es).1.map (·.val) = (dfNextV p k (es.map (·.val))).1 ∧
    (dfNext p.pred1 k es).2.1.map (fun q => (q.1.val, q.2.map (·.val))) = (dfNextV p k (es.map (·.val))).2.1 ∧
    (dfNext p.pred1 k es).2.2 = (dfNextV p k (es.map (·.val))).2.2
  | _, [] => ⟨rfl, rfl, rfl⟩
  | k, e :: es => by
    simp only [dfNext, List.map_cons, dfNextV, ← pred1_val p k e]
    split
    · exact ⟨rfl, rfl, rfl⟩
    · obtain ⟨h1, h2, h3⟩ := dfNext_vals p (k + 1) es
      exact ⟨by simp [h1], h2, h3⟩

theorem rejFrom_vals (p : PredTok) : ∀ (k : Nat) (es : List Elem),
    (rejFrom p.pred1 k es).map (·.val) = rejVals p k (es.map (·.val))
  | _, [] => rfl
  | k, e :: es => by
    simp only [rejFrom, List.map_cons, rejVals, ← pred1_val p k e]
    split
    · exact rejFrom_vals p (k + 1) es
    · simp [rejFrom_vals p (k + 1) es]

theorem dedupFrom_vals (gE : Nat → Elem → Elem → Bool) (gV : Nat → Int → Int → Bool)
    (h : ∀ k a b, gE k a b = gV k a.val b.val) : ∀ (k : Nat) (last : Elem) (es : List Elem),
    (dedupFrom gE k last es).map (·.val) = dedupFromV gV k last.val (es.map (·.val))
  | _, _, [] => rfl
  | k, last, e :: es => by
    simp only [dedupFrom, List.map_cons, dedupFromV, h]
    split
    · exact dedupFrom_vals gE gV h (k + 1) last es
    · simp [dedupFrom_vals gE gV h (k + 1) e es]

theorem dedupAll_vals (gE : Nat → Elem → Elem → Bool) (gV : Nat → Int → Int → Bool)
    (h : ∀ k a b, gE k a b = gV k a.val b.val) (es : List Elem) :
    (dedupAll gE es).map (·.val) = dedupAllV gV (es.map (·.val)) := by
  cases es with
  | nil => rfl
  | cons x xs => simp [dedupAll, dedupAllV, dedupFrom_vals gE gV h 0 x xs]

theorem removeFirst_vals (x : Int) : ∀ es : List Elem,
    (removeFirst (fun e => e.val == x) es).1.map (·.val) = (removeFirstV x (es.map (·.val))).1 ∧
    (removeFirst (fun e => e.val == x) es).2.map (·.val) = (removeFirstV x (es.map (·.val))).2
  | [] => ⟨rfl, rfl⟩
  | e :: es => by
    obtain ⟨h1, h2⟩ := removeFirst_vals x es
    simp only [removeFirst, List.map_cons, removeFirstV]
    split
    · exact ⟨rfl, rfl⟩
    · exact ⟨h1, by simp [h2]⟩

theorem pred2_val (p : PredTok) (k : Nat) (a b : Elem) : p.pred2 k a b = p.pred2V k a.val b.val := by
  cases p <;> rfl

theorem key_val (kt : KeyTok) (k : Nat) (a b : Elem) :
    (kt.key (2 * k) a == kt.key (2 * k + 1) b) = kt.sameV k a.val b.val := by
  cases kt <;> rfl

theorem optOut_val (o : Option Elem) : OutVal (optOut o) (optA (o.map (·.val))) := by
  cases o <;> simp [optOut, optA, OutVal]

/-- a computation that returns exactly `a` and leaves the focused vector alone -/
def VRet {α} (x : VM α) (a : α) : Prop := ∀ s, ∃ s', x s = (.ok a, s') ∧ s'.v = s.v

theorem VRet.pure' {α} (a : α) : VRet (pure a : VM α) a := fun s => ⟨s, rfl, rfl⟩

theorem VRet.bind' {α β} {x : VM α} {f : α → VM β} {a : α} {b : β} (hx : VRet x a) (hf : VRet (f a) b) : VRet (x >>= f) b := by
  intro s
  obtain ⟨s1, h1, hv1⟩ := hx s
  obtain ⟨s2, h2, hv2⟩ := hf s1
  exact ⟨s2, by simp only [VM.bind_run, h1, h2], hv2.trans hv1⟩

theorem VRet.ofPure {x : VM Unit} (h : VPure x) : VRet x () := by
  intro s
  obtain ⟨a, s', hr, hv⟩ := h s
  exact ⟨s', hr, hv⟩

theorem eqSlices_ret (X : Ctx) (hq : ∀ k, X.o.panicAt k = false) (heq : ∀ k, X.o.eqScript k = none) :
    ∀ (as bs : List Elem), VRet (Vec.eqSlices X as bs) (as.map (·.val) == bs.map (·.val)) := by
  intro as
  induction as with
  | nil => intro bs; cases bs <;> (unfold Vec.eqSlices; exact VRet.pure' _)
  | cons x xs ih =>
    intro bs
    cases bs with
    | nil => unfold Vec.eqSlices; exact VRet.pure' _
    | cons y ys =>
      unfold Vec.eqSlices
      have he : VRet (Vec.eqElem X x y) (x.val == y.val) := by
        intro s
        obtain ⟨s', h1, h2, _⟩ := eqElem_lawful X hq heq x y s
        exact ⟨s', h1, h2⟩
      cases hxy : (x.val == y.val) with
      | true =>
        rw [hxy] at he
        have : ((x :: xs).map (·.val) == (y :: ys).map (·.val)) = (xs.map (·.val) == ys.map (·.val)) := by
          simp only [List.map_cons, List.cons_beq_cons, hxy, Bool.true_and]
        rw [this]
        exact VRet.bind' he (by simpa using ih ys)
      | false =>
        rw [hxy] at he
        have : ((x :: xs).map (·.val) == (y :: ys).map (·.val)) = false := by
          simp only [List.map_cons, List.cons_beq_cons, hxy, Bool.false_and]
        rw [this]
        exact VRet.bind' he (by simpa using VRet.pure' false)

theorem cmpSlices_ret (X : Ctx) (hq : ∀ k, X.o.panicAt k = false) :
    ∀ (as bs : List Elem), VRet (Vec.cmpSlices X as bs) (cmpVals (as.map (·.val)) (bs.map (·.val))) := by
  intro as
  induction as with
  | nil => intro bs; cases bs <;> (unfold Vec.cmpSlices; exact VRet.pure' _)
  | cons x xs ih =>
    intro bs
    cases bs with
    | nil => unfold Vec.cmpSlices; exact VRet.pure' _
    | cons y ys =>
      unfold Vec.cmpSlices
      refine VRet.bind' (VRet.ofPure (vpure_callback X hq)) ?_
      simp only [List.map_cons, cmpVals]
      split
      · exact VRet.pure' _
      · split
        · exact VRet.pure' _
        · exact ih ys

theorem compareSlices_ret (X : Ctx) (hq : ∀ k, X.o.panicAt k = false) (heq : ∀ k, X.o.eqScript k = none) (a b : List Elem) :
    VRet (Vec.compareSlices X a b)
      (a.map (·.val) == b.map (·.val), cmpVals (a.map (·.val)) (b.map (·.val)), cmpVals (a.map (·.val)) (b.map (·.val)),
       a.map (·.val) == b.map (·.val)) := by
  have hrest : ∀ eq : Bool, VRet (do
      let pc ← Vec.cmpSlices X a b
      let c ← Vec.cmpSlices X a b
      VM.forN a.length (fun _ => VM.callback X)
      VM.forN b.length (fun _ => VM.callback X)
      pure (eq, pc, c, a.map (·.val) == b.map (·.val)) : VM (Bool × Ordering × Ordering × Bool))
      (eq, cmpVals (a.map (·.val)) (b.map (·.val)), cmpVals (a.map (·.val)) (b.map (·.val)), a.map (·.val) == b.map (·.val)) := fun eq =>
    VRet.bind' (cmpSlices_ret X hq a b) (VRet.bind' (cmpSlices_ret X hq a b)
      (VRet.bind' (VRet.ofPure (vpure_forN _ (fun _ => vpure_callback X hq) _))
        (VRet.bind' (VRet.ofPure (vpure_forN _ (fun _ => vpure_callback X hq) _)) (VRet.pure' _))))
  unfold Vec.compareSlices
  dsimp only
  split
  · exact VRet.bind' (eqSlices_ret X hq heq a b) (hrest _)
  · rename_i hne
    have : (a.map (·.val) == b.map (·.val)) = false := by
      cases h : (a.map (·.val) == b.map (·.val)) with
      | false => rfl
      | true =>
        have := congrArg List.length (by simpa using h : a.map (·.val) = b.map (·.val))
        simp at this; exact absurd this hne
    intro s
    obtain ⟨s', hr, hv⟩ := hrest false s
    refine ⟨s', ?_, hv⟩
    simp only [VM.bind_run, VM.pure_run, this] at hr ⊢
    exact hr

section steps
variable (X : Ctx) (hq : ∀ k, X.o.panicAt k = false) (hz : 0 < X.c.elemSize)
include hq hz

/-- every covered vector operation, through `POp.refines` -/
theorem pop_hx (op : POp) (x : VM Out) (f : Option Elem → Out) (vs : List Int) (ao : AOut) (vs' : List Int)
    (hxrun : ∀ s, x s = (match op.run X s with | (.ok o, s') => (.ok (f o), s') | (.error p, s') => (.error p, s')))
    (hr : ∀ es, es.map (·.val) = vs → op.inRange es)
    (hspec : ∀ es, es.map (·.val) = vs → ((op.spec es).1.map (·.val) = vs' ∧ OutVal (f (op.spec es).2) ao)) :
    ∀ s es, Abs X s.v es → es.map (·.val) = vs →
      (∃ o s' es', x s = (.ok o, s') ∧ Abs X s'.v es' ∧ es'.map (·.val) = vs' ∧ OutVal o ao) ∨
      (∃ p s' es', x s = (.error p, s') ∧ Panic.benign p = true ∧ Abs X s'.v es') := by
  intro s es habs hv
  rcases POp.refines X hq op s es habs (hr es hv) with ⟨s', hrun, ha⟩ | ⟨p, s', hrun, hb, hsv⟩
  · refine .inl ⟨_, s', _, ?_, ha, (hspec es hv).1, (hspec es hv).2⟩
    rw [hxrun, hrun]
  · refine .inr ⟨p, s', es, ?_, hb, by rw [hsv]; exact habs⟩
    rw [hxrun, hrun]

/-- the shape every covered vector operation is brought into -/
def HX (x : VM Out) (vs vs' : List Int) (ao : AOut) : Prop :=
  ∀ s es, Abs X s.v es → es.map (·.val) = vs →
    (∃ o s' es', x s = (.ok o, s') ∧ Abs X s'.v es' ∧ es'.map (·.val) = vs' ∧ OutVal o ao) ∨
    (∃ p s' es', x s = (.error p, s') ∧ Panic.benign p = true ∧ Abs X s'.v es')

omit hq hz in
/-- a computation that ends in `pure .ok` -/
theorem HX.unit (y : VM Unit) (vs vs' : List Int)
    (h : ∀ s es, Abs X s.v es → es.map (·.val) = vs →
      (∃ s' es', y s = (.ok (), s') ∧ Abs X s'.v es' ∧ es'.map (·.val) = vs') ∨
      (∃ p s' es', y s = (.error p, s') ∧ Panic.benign p = true ∧ Abs X s'.v es')) :
    HX X (do y; pure .ok) vs vs' .ok := by
  intro s es habs hv
  rcases h s es habs hv with ⟨s', es', hr, ha, hv'⟩ | ⟨p, s', es', hr, hb, ha⟩
  · exact .inl ⟨.ok, s', es', by simp only [VM.bind_run, hr]; rfl, ha, hv', trivial⟩
  · exact .inr ⟨p, s', es', by simp only [VM.bind_run, hr], hb, ha⟩

omit hq hz in
theorem HX.mk (val : Int) (f : Elem → VM Out) (vs vs' : List Int) (ao : AOut)
    (h : ∀ e, e.val = val → HX X (f e) vs vs' ao) : HX X (do let e ← VM.mkElem val; f e) vs vs' ao := by
  intro s es habs hv
  have := h ⟨s.sys.nextId, val⟩ rfl { s with sys := { s.sys with nextId := s.sys.nextId + 1 } } es habs hv
  simpa only [VM.bind_run, mkElem_run] using this

omit hq hz in
theorem onVecA_val (w : World) (a a' : AW) (r : String) (x : VM Out) (hrel : Rel X w a)
    (g : List Int → Option (List Int × AOut)) (ao : AOut) (hs : onVecA a r g = some (a', ao))
    (hx : ∀ vs vs' ao, g vs = some (vs', ao) → HX X x vs vs' ao) :
    StepVal X (w.onVecReg r x) a a' ao := by
  unfold onVecA at hs
  cases har : a r with
  | none =>
    rw [har] at hs; simp only [Option.some.injEq, Prod.mk.injEq] at hs; obtain ⟨rfl, rfl⟩ := hs
    exact onVecReg_bad X w a r x hrel (by intro vs; rw [har]; simp)
  | some o =>
    rw [har] at hs
    cases o with
    | vec vs =>
      simp only at hs
      cases hg : g vs with
      | none => rw [hg] at hs; simp at hs
      | some q =>
        rw [hg] at hs
        simp only [Option.map_some, Option.some.injEq, Prod.mk.injEq] at hs
        obtain ⟨rfl, rfl⟩ := hs
        exact onVecReg_val X w a r x hrel vs q.1 q.2 har (hx vs q.1 q.2 hg)
    | _ =>
      simp only [Option.some.injEq, Prod.mk.injEq] at hs; obtain ⟨rfl, rfl⟩ := hs
      exact onVecReg_bad X w a r x hrel (by intro vs; rw [har]; simp)

omit hq hz in
/-- one step of a `Drain` held in a register, with the values -/
theorem drain_val_step (src : String) (v : VSt) (d : DrainSt) (sys : Sys) (back : Bool) (pre win tail : List Int)
    (h : RegVal X (.drain src v d) (.drain src pre win tail)) :
    ∃ o d', (if back then Drain.next_back d else Drain.next d) { sys := sys, v := v } = (.ok (o, d'), { sys := sys, v := v }) ∧
      o.map (·.val) = (if back then win.getLast? else win.head?) ∧
      RegVal X (.drain src v d') (.drain src pre (if back then win.dropLast else win.tail) tail) := by
  obtain ⟨_, h⟩ := h
  rcases h with ⟨es, st, en, hinv, hpre, hwin, htail⟩ | ⟨hd, habs, hge, ht, rfl, rfl, rfl⟩
  · have hsl : d.stop ≤ es.length := by have := hinv.hi; have := hinv.en_le; omega
    by_cases hlt : d.pos < d.stop
    · cases back with
      | false =>
        obtain ⟨hh, htl⟩ := window_front d es hlt hsl
        refine ⟨_, _, by simpa using drain_next_some (s := { sys := sys, v := v }) hinv hlt, ?_, rfl, .inl ⟨es, st, en, ?_, hpre, ?_, htail⟩⟩
        · simp only [Bool.false_eq_true, if_false, ← hwin, List.head?_map, hh, Option.map_some]
        · exact { hinv with lo := by have := hinv.lo; simp; omega, mid := by simp; omega }
        · simp only [Bool.false_eq_true, if_false, ← hwin, ← htl, List.map_tail]
      | true =>
        obtain ⟨hh, htl⟩ := window_back d es hlt hsl
        refine ⟨_, _, by simpa using drain_next_back_some (s := { sys := sys, v := v }) hinv hlt, ?_, rfl, .inl ⟨es, st, en, ?_, hpre, ?_, htail⟩⟩
        · simp only [if_true, ← hwin, List.getLast?_map, hh, Option.map_some]
        · exact { hinv with hi := by have := hinv.hi; simp; omega, mid := by simp; omega }
        · simp only [if_true, ← hwin, ← htl, List.map_dropLast]
    · have hwe : window d es = [] := window_empty d es (by omega)
      have hw0 : win = [] := by rw [← hwin, hwe]; rfl
      subst hw0
      obtain ⟨h1, h2⟩ := drain_next_none d { sys := sys, v := v } (by omega)
      cases back with
      | false => exact ⟨none, d, by simpa using h1, by simp, rfl, .inl ⟨es, st, en, hinv, hpre, by simpa using hwin, htail⟩⟩
      | true => exact ⟨none, d, by simpa using h2, by simp, rfl, .inl ⟨es, st, en, hinv, hpre, by simpa using hwin, htail⟩⟩
  · obtain ⟨h1, h2⟩ := drain_next_none d { sys := sys, v := v } hge
    cases back with
    | false => exact ⟨none, d, by simpa using h1, by simp, rfl, .inr ⟨hd, habs, hge, ht, rfl, by simp, rfl⟩⟩
    | true => exact ⟨none, d, by simpa using h2, by simp, rfl, .inr ⟨hd, habs, hge, ht, rfl, by simp, rfl⟩⟩

omit hq hz in
/-- one step of an `IntoIter` held in a register, with the values -/
theorem into_val_step (v : VSt) (it : IntoIterSt) (sys : Sys) (back : Bool) (win : List Int)
    (h : RegVal X (.intoIter v it) (.intoIter win)) :
    ∃ o it' v', (if back then IntoIter.next_back X it else IntoIter.next X it) { sys := sys, v := v } =
        (.ok (o, it'), { sys := sys, v := v' }) ∧
      o.map (·.val) = (if back then win.getLast? else win.head?) ∧
      RegVal X (.intoIter v' it') (.intoIter (if back then win.dropLast else win.tail)) := by
  rcases h with ⟨es, hinv, hwin⟩ | ⟨hd, habs, rfl⟩
  · by_cases hlt : 0 < v.len
    · have hbnd := hinv.bound
      have hinv' : IntoInv X ({ v with len := v.len - 1 } : VSt) es it := hinv.shrink _ it rfl (by omega)
      cases back with
      | false =>
        obtain ⟨hh, htl⟩ := iwindow_front it v.len es hlt hbnd
        refine ⟨_, _, _, by simpa using into_next_some (s := { sys := sys, v := v }) hinv hlt, ?_, .inl ⟨es, ?_, ?_⟩⟩
        · simp only [Bool.false_eq_true, if_false, ← hwin, List.head?_map, hh, Option.map_some]
        · exact { hd := hinv'.hd, full := hinv'.full, ptr := hinv'.ptr, bound := by have := hinv.bound; simp; omega }
        · simp only [Bool.false_eq_true, if_false, ← hwin, ← htl, List.map_tail]
      | true =>
        obtain ⟨hh, htl⟩ := iwindow_back it v.len es hlt hbnd
        refine ⟨_, _, _, by simpa using into_next_back_some (s := { sys := sys, v := v }) hinv hlt, ?_, .inl ⟨es, hinv', ?_⟩⟩
        · simp only [if_true, ← hwin, List.getLast?_map, hh, Option.map_some]
        · simp only [if_true, ← hwin, ← htl, List.map_dropLast]
    · have hl0 : v.len = 0 := by omega
      have hw0 : win = [] := by rw [← hwin, hl0]; simp [iwindow]
      subst hw0
      obtain ⟨h1, h2⟩ := into_next_none (s := { sys := sys, v := v }) hinv hl0
      cases back with
      | false => exact ⟨none, it, v, by simpa using h1, by simp, .inl ⟨es, hinv, by simpa using hwin⟩⟩
      | true => exact ⟨none, it, v, by simpa using h2, by simp, .inl ⟨es, hinv, by simpa using hwin⟩⟩
  · have e1 : VM.lift X GM.isDefault { sys := sys, v := v } = (.ok true, { sys := sys, v := v }) := by
      rw [lift_isDefault]; exact congrArg (fun b => (Except.ok b, _)) hd
    cases back with
    | false =>
      refine ⟨none, it, v, ?_, by simp, .inr ⟨hd, habs, by simp⟩⟩
      unfold IntoIter.next; simp only [Bool.false_eq_true, if_false, VM.bind_run, e1, if_true, VM.pure_run]
    | true =>
      refine ⟨none, it, v, ?_, by simp, .inr ⟨hd, habs, by simp⟩⟩
      unfold IntoIter.next_back; simp only [if_true, VM.bind_run, e1, VM.pure_run]


omit hq hz in
theorem hxrun_unit (y : VM Unit) (o₀ : Out) (s : St) :
    (do y; pure o₀ : VM Out) s =
      (match (do y; pure (none : Option Elem) : VM (Option Elem)) s with
       | (.ok o, s') => (.ok ((fun _ => o₀) o), s') | (.error p, s') => (.error p, s')) := by
  simp only [VM.bind_run]
  generalize y s = out
  rcases out with ⟨r, s'⟩
  cases r <;> rfl

omit hq hz in
theorem hxrun_some (y : VM Elem) (s : St) :
    (do let e ← y; pure (Out.some e) : VM Out) s =
      (match (do let x ← y; pure (some x) : VM (Option Elem)) s with
       | (.ok o, s') => (.ok (optOut o), s') | (.error p, s') => (.error p, s')) := by
  simp only [VM.bind_run]
  generalize y s = out
  rcases out with ⟨r, s'⟩
  cases r <;> rfl

omit hq hz in
theorem hxrun_opt (y : VM (Option Elem)) (s : St) :
    (do let o ← y; pure (optOut o) : VM Out) s =
      (match y s with | (.ok o, s') => (.ok (optOut o), s') | (.error p, s') => (.error p, s')) := by
  simp only [VM.bind_run]
  generalize y s = out
  rcases out with ⟨r, s'⟩
  cases r <;> rfl

omit hq hz in
/-- one step of the draining half of a `Splice` held in a register, with the values -/
theorem splice_val_step (src : String) (v : VSt) (sp : SpliceSt) (sys : Sys) (back : Bool) (pre win tail : List Int)
    (fill : Vec.IterScript) (h : RegVal X (.splice src v sp) (.splice src pre win tail fill)) :
    ∃ o d', (if back then Drain.next_back sp.d else Drain.next sp.d) { sys := sys, v := v } = (.ok (o, d'), { sys := sys, v := v }) ∧
      o.map (·.val) = (if back then win.getLast? else win.head?) ∧
      RegVal X (.splice src v { sp with d := d' }) (.splice src pre (if back then win.dropLast else win.tail) tail fill) := by
  obtain ⟨_, hfill, h⟩ := h
  rcases h with ⟨es, st, en, hinv, hpre, hwin, htail⟩ | ⟨hd, habs, hge, rfl, rfl, rfl⟩
  · obtain ⟨o, d', hr, ho, hreg⟩ := drain_val_step X src v sp.d sys back pre win tail
      ⟨rfl, .inl ⟨es, st, en, hinv, hpre, hwin, htail⟩⟩
    refine ⟨o, d', hr, ho, rfl, hfill, ?_⟩
    obtain ⟨_, hreg⟩ := hreg
    rcases hreg with h1 | ⟨hd', _⟩
    · exact .inl h1
    · rw [hinv.hd] at hd'; cases hd'
  · obtain ⟨h1, h2⟩ := drain_next_none sp.d { sys := sys, v := v } hge
    cases back with
    | false => exact ⟨none, sp.d, by simpa using h1, by simp, rfl, hfill, .inr ⟨hd, habs, hge, rfl, by simp, rfl⟩⟩
    | true => exact ⟨none, sp.d, by simpa using h2, by simp, rfl, hfill, .inr ⟨hd, habs, hge, rfl, by simp, rfl⟩⟩

omit hq hz in
theorem splice_val_count (src : String) (v : VSt) (sp : SpliceSt) (pre win tail : List Int) (fill : Vec.IterScript)
    (h : RegVal X (.splice src v sp) (.splice src pre win tail fill)) : Drain.size_hint sp.d = win.length := by
  obtain ⟨_, _, h⟩ := h
  rcases h with ⟨es, st, en, hinv, _, hwin, _⟩ | ⟨_, _, hge, _, rfl, _⟩
  · rw [← hwin, List.length_map, window_length sp.d es hinv.mid (by have := hinv.hi; have := hinv.en_le; omega)]; rfl
  · simp [Drain.size_hint]; omega

omit hq hz in
theorem drain_val_count (src : String) (v : VSt) (d : DrainSt) (pre win tail : List Int)
    (h : RegVal X (.drain src v d) (.drain src pre win tail)) : Drain.size_hint d = win.length := by
  obtain ⟨_, h⟩ := h
  rcases h with ⟨es, st, en, hinv, _, hwin, _⟩ | ⟨_, _, hge, _, _, rfl, _⟩
  · rw [← hwin, List.length_map, window_length d es hinv.mid (by have := hinv.hi; have := hinv.en_le; omega)]; rfl
  · simp [Drain.size_hint]; omega

omit hq hz in
theorem into_val_count (v : VSt) (it : IntoIterSt) (win : List Int)
    (h : RegVal X (.intoIter v it) (.intoIter win)) : (if v.isDefault then 0 else v.len) = win.length := by
  rcases h with ⟨es, hinv, hwin⟩ | ⟨hd, _, rfl⟩
  · rw [← hwin, List.length_map, iwindow_length it v.len es hinv.bound]; simp [hinv.hd]
  · simp [hd]

/-- `next()` on any iterator register never stops (no callback panics, nothing is allocated): it answers as the
    specification does -/
theorem next_val_ok (w : World) (a a' : AW) (it : String) (ao : AOut) (hrel : Rel X w a)
    (hs : astep a (.next it) = some (a', ao)) :
    OutVal (step X w (.next it)).2 ao ∧ Rel X (step X w (.next it)).1 a' := by
  unfold step; dsimp only; simp only [astep] at hs
  cases hai : a it with
  | none =>
    rw [hai] at hs; simp only [Option.some.injEq, Prod.mk.injEq] at hs; obtain ⟨rfl, rfl⟩ := hs
    simp only [(hrel.1 it).mpr hai]; exact ⟨trivial, hrel⟩
  | some o =>
    rw [hai] at hs
    cases o with
    | drain src pre win tail =>
      simp only [Option.some.injEq, Prod.mk.injEq] at hs; obtain ⟨rfl, rfl⟩ := hs
      obtain ⟨v, d, hg, hv⟩ := hrel.drain_of it src pre win tail hai
      obtain ⟨o, d', hr, ho, hreg⟩ := drain_val_step X src v d w.sys false pre win tail hv
      simp only [Bool.false_eq_true, if_false] at hr ho hreg
      simp only [hg, runOn, hr]
      exact ⟨by rw [← ho]; exact optOut_val o, (hrel.sys _).set it _ _ hreg⟩
    | intoIter win =>
      simp only [Option.some.injEq, Prod.mk.injEq] at hs; obtain ⟨rfl, rfl⟩ := hs
      obtain ⟨v, i, hg, hv⟩ := hrel.into_of it win hai
      obtain ⟨o, i', v', hr, ho, hreg⟩ := into_val_step X v i w.sys false win hv
      simp only [Bool.false_eq_true, if_false] at hr ho hreg
      simp only [hg, runOn, hr]
      exact ⟨by rw [← ho]; exact optOut_val o, (hrel.sys _).set it _ _ hreg⟩
    | splice src pre win tail fill =>
      simp only [Option.some.injEq, Prod.mk.injEq] at hs; obtain ⟨rfl, rfl⟩ := hs
      obtain ⟨v, sp, hg, hv⟩ := hrel.splice_of it src pre win tail fill hai
      obtain ⟨o, d', hr, ho, hreg⟩ := splice_val_step X src v sp w.sys false pre win tail fill hv
      simp only [Bool.false_eq_true, if_false] at hr ho hreg
      simp only [hg, runOn, hr]
      exact ⟨by rw [← ho]; exact optOut_val o, (hrel.sys _).set it _ _ hreg⟩
    | drainFilter src p calls kept rest =>
      simp only [Option.some.injEq, Prod.mk.injEq] at hs; obtain ⟨rfl, rfl⟩ := hs
      obtain ⟨v, f, hg, hv⟩ := hrel.df_of it src p calls kept rest hai
      obtain ⟨_, hpred, hcalls, hv⟩ := hv
      simp only [hg, runOn]
      rcases hv with ⟨keptE, junk, restE, hinv, hk, hr'⟩ | ⟨hd, habs, ho, hp, hn, hpk, rfl, rfl⟩
      · obtain ⟨s', junk', f', hrun, hinv', hpr', hcl', _⟩ := df_next_spec X hq restE keptE junk f { sys := w.sys, v := v }
          (f.oldLen - f.pos + 1) hinv (by have := hinv.ps; have := hinv.ol; omega)
        rw [hpred, hcalls] at hrun hinv' hcl'
        obtain ⟨d1, d2, d3⟩ := dfNext_vals p calls restE
        rw [hr'] at d1 d2 d3
        cases hq2 : (dfNext p.pred1 calls restE).2.1 with
        | none =>
          rw [hq2] at hrun hinv' d2
          simp only [Option.map_none] at d2
          rw [hrun, ← d2]
          simp only [stepOf, Option.map_none, optA]
          exact ⟨trivial, (hrel.sys _).set it _ _ ⟨rfl, by rw [hpr', hpred], by rw [hcl', d3],
            .inl ⟨_, _, _, hinv', by rw [List.map_append, hk, d1], rfl⟩⟩⟩
        | some q =>
          rw [hq2] at hrun hinv' d2
          simp only [Option.map_some] at d2
          rw [hrun, ← d2]
          simp only [stepOf, Option.map_some, optA]
          exact ⟨rfl, (hrel.sys _).set it _ _ ⟨rfl, by rw [hpr', hpred], by rw [hcl', d3],
            .inl ⟨_, _, _, hinv', by rw [List.map_append, hk, d1], rfl⟩⟩⟩
      · rw [show f.oldLen - f.pos + 1 = 0 + 1 by omega, df_default_next X f _ ho hp 0]
        simp only [dfNextV, Option.map_none, optA, List.append_nil, restOfV]
        exact ⟨trivial, (hrel.sys _).set it _ _ ⟨rfl, hpred, hcalls, .inr ⟨hd, habs, ho, hp, hn, hpk, rfl, rfl⟩⟩⟩
    | _ => simp at hs

/-- `size_hint()` never stops -/
theorem size_hint_val_ok (w : World) (a a' : AW) (it : String) (ao : AOut) (hrel : Rel X w a)
    (hs : astep a (.size_hint it) = some (a', ao)) :
    OutVal (step X w (.size_hint it)).2 ao ∧ Rel X (step X w (.size_hint it)).1 a' := by
  unfold step; dsimp only; simp only [astep] at hs
  cases hai : a it with
  | none =>
    rw [hai] at hs; simp only [Option.some.injEq, Prod.mk.injEq] at hs; obtain ⟨rfl, rfl⟩ := hs
    simp only [(hrel.1 it).mpr hai]; exact ⟨trivial, hrel⟩
  | some o =>
    rw [hai] at hs
    cases o with
    | drain src pre win tail =>
      simp only [Option.some.injEq, Prod.mk.injEq] at hs; obtain ⟨rfl, rfl⟩ := hs
      obtain ⟨v, d, hg, hv⟩ := hrel.drain_of it src pre win tail hai
      simp only [hg]
      exact ⟨⟨drain_val_count X src v d pre win tail hv, by rw [drain_val_count X src v d pre win tail hv]⟩, hrel⟩
    | intoIter win =>
      simp only [Option.some.injEq, Prod.mk.injEq] at hs; obtain ⟨rfl, rfl⟩ := hs
      obtain ⟨v, i, hg, hv⟩ := hrel.into_of it win hai
      simp only [hg]
      exact ⟨⟨into_val_count X v i win hv, by rw [into_val_count X v i win hv]⟩, hrel⟩
    | splice src pre win tail fill =>
      simp only [Option.some.injEq, Prod.mk.injEq] at hs; obtain ⟨rfl, rfl⟩ := hs
      obtain ⟨v, sp, hg, hv⟩ := hrel.splice_of it src pre win tail fill hai
      simp only [hg]
      exact ⟨⟨splice_val_count X src v sp pre win tail fill hv, by rw [splice_val_count X src v sp pre win tail fill hv]⟩, hrel⟩
    | drainFilter src p calls kept rest =>
      simp only [Option.some.injEq, Prod.mk.injEq] at hs; obtain ⟨rfl, rfl⟩ := hs
      obtain ⟨v, f, hg, hv⟩ := hrel.df_of it src p calls kept rest hai
      simp only [hg]
      refine ⟨⟨rfl, ?_⟩, hrel⟩
      obtain ⟨_, _, _, hv⟩ := hv
      rcases hv with ⟨keptE, junk, restE, hinv, _, hr'⟩ | ⟨_, _, ho, hp, _, _, _, rfl⟩
      · rw [← hr', List.length_map]; have := hinv.ps; have := hinv.ol; congr 1; omega
      · simp [ho, hp]
    | _ => simp at hs

variable (heq : ∀ k, X.o.eqScript k = none)
include heq

omit hq hz heq in
/-- `MiniVec::<u8>::from(&str)` of `n` bytes: the temporary vector reports exactly `n` elements (or the allocator refused) -/
theorem fromStrProg_val (Xb : Ctx) (hqb : ∀ k, Xb.o.panicAt k = false) (hzb : 0 < Xb.c.elemSize) (n : Nat) (s : St) (hv : s.v = {}) :
    (∃ s', fromStrProg Xb n s = (.ok n, s')) ∨ (∃ p s', fromStrProg Xb n s = (.error p, s') ∧ Panic.benign p = true) := by
  unfold fromStrProg
  simp only [VM.bind_run]
  rcases with_capacity_room Xb hzb s hv n with ⟨s1, hr, habs1, hroom, hzero⟩ | ⟨p, s1, hr, hb, _⟩
  · rw [hr]
    simp only
    have hfill : ∃ s2 es, (if n > 0 then fromStrFill Xb n else pure ()) s1 = (.ok (), s2) ∧ Abs Xb s2.v es ∧ es.length = n := by
      by_cases hn : n > 0
      · obtain ⟨hd1, hcap1⟩ := hroom hn
        rw [if_pos hn]
        obtain ⟨b, hb, hl, _⟩ := habs1.alloc hd1
        have h4 : VM.lift Xb (as_mut_ptr Xb.env) s1 = (.ok (.at (dataOff s1.v.align)), s1) :=
          lift_read Xb _ s1 _ (as_mut_ptr_run Xb.env _ hd1 b.lay s1.v.cap hl)
        obtain ⟨v2, hw, habs2, _, _, hd2, _⟩ := write_tail_abs Xb s1 [] (List.replicate n (⟨0, 97⟩ : Elem)) habs1 hd1
          (by simp [hcap1])
        simp only [List.length_nil, List.length_replicate] at hw habs2
        have h5 := lift_set_len Xb n { s1 with v := v2 } hd2
        refine ⟨{ s1 with v := { v2 with len := n } }, List.replicate n (⟨0, 97⟩ : Elem), ?_, by simpa using habs2, by simp⟩
        unfold fromStrFill
        simp only [VM.bind_run, h4, hw, h5]
      · rw [if_neg hn]; exact ⟨s1, [], rfl, habs1, by simp; omega⟩
    obtain ⟨s2, es, hf, habs2, hlen⟩ := hfill
    rw [hf]
    simp only
    have hL : (hsOf s2.v s2.sys.allocIdx).L = es.length := habs2.len_eq
    have h6 : VM.lift Xb (len Xb.env) s2 = (.ok n, s2) := lift_read Xb _ s2 _ (by rw [len_run, hL, hlen])
    obtain ⟨s3, hd3⟩ := dropVec_ok Xb hqb s2 es habs2
    rw [h6]
    simp only [hd3, VM.pure_run]
    exact .inl ⟨_, rfl⟩
  · rw [hr]; exact .inr ⟨p, s1, rfl, hb⟩

omit hq hz heq in
/-- `Extend<&T>`: `pre` pushes and one push per item: the temporary reports `pre + vals.length` elements -/
theorem extendRefProg_val (Xb : Ctx) (hqb : ∀ k, Xb.o.panicAt k = false) (hzb : 0 < Xb.c.elemSize) (pre : Nat) (vals : List Int)
    (s : St) (hv : s.v = {}) :
    (∃ s', extendRefProg Xb pre vals s = (.ok (pre + vals.length), s')) ∨
    (∃ p s', extendRefProg Xb pre vals s = (.error p, s') ∧ Panic.benign p = true) := by
  unfold extendRefProg
  simp only [VM.bind_run]
  have hround : ∀ (n : Nat) (g : Nat → Elem), RoundSpec Xb n (fun _ _ => True) (fun i => Vec.push Xb (g i)) := by
    intro n g i s1 acc _ habs
    have hp := push_spec Xb s1 acc (g i) habs
    show (∃ e s', Vec.push Xb (g i) s1 = (.ok (), s') ∧ Abs Xb s'.v (acc ++ [e]) ∧ True) ∨
      (∃ p s', Vec.push Xb (g i) s1 = (.error p, s') ∧ Panic.benign p = true ∧ s'.v = s1.v)
    generalize Vec.push Xb (g i) s1 = out at hp
    cases hp with
    | pushed s' ha _ => exact .inl ⟨_, s', rfl, ha, trivial⟩
    | stopped p s' hv' hb => exact .inr ⟨p, s', rfl, hb, hv'⟩
  rcases with_capacity_room Xb hzb s hv pre with ⟨s1, hr, habs1, _, _⟩ | ⟨p, s1, hr, hb, _⟩
  · rw [hr]
    simp only
    rcases forN_spec Xb pre _ _ (hround pre (fun i => ⟨0, i⟩)) s1 [] habs1 with ⟨l1, s2, hr2, habs2, hl1, _⟩ | ⟨p, s2, acc, hr2, hb, _⟩
    · rw [hr2]
      simp only
      rcases forN_spec Xb vals.length _ _ (hround vals.length (fun i => ⟨0, vals.getD i 0⟩)) s2 _ habs2 with
        ⟨l2, s3, hr3, habs3, hl2, _⟩ | ⟨p, s3, acc, hr3, hb, _⟩
      · rw [hr3]
        simp only
        have hL : (hsOf s3.v s3.sys.allocIdx).L = ([] ++ l1 ++ l2).length := habs3.len_eq
        have h6 : VM.lift Xb (len Xb.env) s3 = (.ok (pre + vals.length), s3) :=
          lift_read Xb _ s3 _ (by rw [len_run, hL]; simp [hl1, hl2])
        obtain ⟨s4, hd4⟩ := dropVec_ok Xb hqb s3 _ habs3
        rw [h6]
        simp only [hd4, VM.pure_run]
        exact .inl ⟨_, rfl⟩
      · rw [hr3]; exact .inr ⟨p, s3, rfl, hb⟩
    · rw [hr2]; exact .inr ⟨p, s2, rfl, hb⟩
  · rw [hr]; exact .inr ⟨p, s1, rfl, hb⟩

/-- **one step, with the values**: whatever the abstract specification answers for the operation, the model answers
    too, and the worlds are related again -/
theorem C10_world_step_values (w : World) (a a' : AW) (op : Op) (ao : AOut) (hrel : Rel X w a)
    (hs : astep a op = some (a', ao)) : StepVal X (step X w op) a a' ao := by
  have hempty : ∀ r, StepVal X (w.mkReg r (do VM.lift X (Gen.new X.env); VM.getV)) a (mkA a r []).1 (mkA a r []).2 := by
    intro r
    refine mkReg_val X w a r _ hrel [] ?_
    intro s hv
    have h1 := lift_new_empty X hz s
    have hs' : ({ s with v := {} } : St) = s := by cases s; simp at hv; simp [hv]
    rw [hs'] at h1
    exact .inl ⟨s.v, s, [], by simp only [VM.bind_run, h1, VM.getV_run], by rw [hv]; exact Abs.sentinel_abs X hz, rfl⟩
  cases op
  case new r =>
    unfold step; simp only [astep, Option.some.injEq] at hs
    have h1 := congrArg Prod.fst hs; have h2 := congrArg Prod.snd hs; simp only at h1 h2; subst h1; subst h2; exact hempty r
  case default r =>
    unfold step; simp only [astep, Option.some.injEq] at hs
    have h1 := congrArg Prod.fst hs; have h2 := congrArg Prod.snd hs; simp only at h1 h2; subst h1; subst h2; exact hempty r
  case macro_empty r =>
    unfold step; simp only [astep, Option.some.injEq] at hs
    have h1 := congrArg Prod.fst hs; have h2 := congrArg Prod.snd hs; simp only at h1 h2; subst h1; subst h2; exact hempty r
  case with_capacity r n =>
    unfold step; simp only [astep, Option.some.injEq] at hs
    have h1 := congrArg Prod.fst hs; have h2 := congrArg Prod.snd hs; simp only at h1 h2; subst h1; subst h2
    refine mkReg_val X w a r _ hrel [] ?_
    intro s hv
    have := with_capacity_mem X hz s hv n
    simp only [VM.bind_run]
    generalize VM.lift X (Gen.with_capacity X.env n) s = out at this
    cases this with
    | same => exact .inl ⟨s.v, s, [], by simp [VM.getV_run], by rw [hv]; exact Abs.sentinel_abs X hz, rfl⟩
    | stopped p s' _ hp _ => exact .inr ⟨p, s', rfl, hp⟩
    | grown s' ha _ _ _ _ => exact .inl ⟨s'.v, s', [], by simp [VM.getV_run], ha, rfl⟩
  case from_slice r vals =>
    unfold step; simp only [astep, Option.some.injEq] at hs
    have h1 := congrArg Prod.fst hs; have h2 := congrArg Prod.snd hs; simp only at h1 h2; subst h1; subst h2
    refine mkReg_val X w a r _ hrel vals ?_
    intro s hv
    obtain ⟨es, s1, hr, hv1, hvals⟩ := mapM_mkElem_run vals s
    simp only [VM.bind_run, hr]
    rcases C01_from_slice_partial X hq hz es s1 with ⟨o, s', new, hrun, _, ha, hnv⟩ | ⟨p, s', hrun, hb, _⟩
    · exact .inl ⟨o, s', new, hrun, ha, by rw [hnv, hvals]⟩
    · exact .inr ⟨p, s', hrun, hb⟩
  case macro_list r vals =>
    unfold step; simp only [astep, Option.some.injEq] at hs
    have h1 := congrArg Prod.fst hs; have h2 := congrArg Prod.snd hs; simp only at h1 h2; subst h1; subst h2
    refine mkReg_val X w a r _ hrel vals ?_
    intro s hv
    rcases C01_macro_list_partial X hz vals s hq with ⟨o, s', new, hrun, _, ha, hnv⟩ | ⟨p, s', hrun, hb, _⟩
    · exact .inl ⟨o, s', new, hrun, ha, hnv⟩
    · exact .inr ⟨p, s', hrun, hb⟩
  case macro_repeat r val n =>
    unfold step; simp only [astep, Option.some.injEq] at hs
    have h1 := congrArg Prod.fst hs; have h2 := congrArg Prod.snd hs; simp only at h1 h2; subst h1; subst h2
    refine mkReg_val X w a r _ hrel _ ?_
    intro s hv
    rcases C01_macro_repeat_partial X hq hz val n s with ⟨o, s', new, hrun, _, ha, hnv⟩ | ⟨p, s', hrun, hb, _⟩
    · exact .inl ⟨o, s', new, hrun, ha, hnv⟩
    · exact .inr ⟨p, s', hrun, hb⟩
  case collect r it =>
    unfold step; simp only [astep, Option.some.injEq] at hs
    have h1 := congrArg Prod.fst hs; have h2 := congrArg Prod.snd hs; simp only at h1 h2; subst h1; subst h2
    refine mkReg_val X w a r _ hrel _ ?_
    intro s hv
    rcases C17_collect_partial X hq it s hz with ⟨o, s', new, hrun, _, ha, hnv⟩ | ⟨p, s', hrun, hb, _⟩
    · exact .inl ⟨o, s', new, by simp only [VM.bind_run, hrun]; rfl, ha, hnv⟩
    · exact .inr ⟨p, s', by simp only [VM.bind_run, hrun], hb⟩
  case extend r it =>
    unfold step; simp only [astep] at hs
    refine onVecA_val X w a a' r _ hrel _ ao hs ?_
    intro vs vs' ao' hg
    simp only [Option.some.injEq, Prod.mk.injEq] at hg; obtain ⟨rfl, rfl⟩ := hg
    refine HX.unit X _ _ _ (fun s es habs hv => ?_)
    rcases C17_extend_partial X hq it s es habs with ⟨s', new, hrun, ha, hnv⟩ | ⟨p, s', acc, hrun, hb, ha⟩
    · exact .inl ⟨s', _, hrun, ha, by rw [List.map_append, hv, hnv]⟩
    · exact .inr ⟨p, s', acc, hrun, hb, ha⟩
  case extend_from_slice r vals =>
    unfold step; simp only [astep] at hs
    refine onVecA_val X w a a' r _ hrel _ ao hs ?_
    intro vs vs' ao' hg
    simp only [Option.some.injEq, Prod.mk.injEq] at hg; obtain ⟨rfl, rfl⟩ := hg
    intro s es habs hv
    obtain ⟨new, s1, hr, hv1, hvals⟩ := mapM_mkElem_run vals s
    simp only [VM.bind_run, hr]
    rcases C01_extend_from_slice_partial X hq new s1 es (by rw [hv1]; exact habs) with
      ⟨added, s', hrun, ha, hnv⟩ | ⟨p, s', acc, hrun, hb, ha⟩
    · rw [hrun]; exact .inl ⟨.ok, s', _, rfl, ha, by rw [List.map_append, hv, hnv, hvals], trivial⟩
    · rw [hrun]; exact .inr ⟨p, s', acc, rfl, hb, ha⟩
  case resize r n val =>
    unfold step; simp only [astep] at hs
    refine onVecA_val X w a a' r _ hrel _ ao hs ?_
    intro vs vs' ao' hg
    simp only [Option.some.injEq, Prod.mk.injEq] at hg; obtain ⟨rfl, rfl⟩ := hg
    refine HX.mk X val _ _ _ _ (fun e he => ?_)
    refine HX.unit X _ _ _ (fun s es habs hv => ?_)
    rcases C01_resize_partial X hq n e s es habs with ⟨cur, s', hrun, ha, hnv⟩ | ⟨p, s', acc, hrun, hb, ha⟩
    · exact .inl ⟨s', cur, hrun, ha, by rw [hnv, List.map_take, hv, he, ← hv, List.length_map]⟩
    · exact .inr ⟨p, s', acc, hrun, hb, ha⟩
  case resize_with r n g =>
    unfold step; simp only [astep] at hs
    refine onVecA_val X w a a' r _ hrel _ ao hs ?_
    intro vs vs' ao' hg
    simp only [Option.some.injEq, Prod.mk.injEq] at hg; obtain ⟨rfl, rfl⟩ := hg
    refine HX.unit X _ _ _ (fun s es habs hv => ?_)
    rcases C17_resize_with_partial X hq n (fun k => g.getD k 0) s es habs with ⟨cur, s', hrun, ha, hnv⟩ | ⟨p, s', acc, hrun, hb, ha⟩
    · exact .inl ⟨s', cur, hrun, ha, by rw [hnv, List.map_take, hv, ← hv, List.length_map]⟩
    · exact .inr ⟨p, s', acc, hrun, hb, ha⟩
  case extend_from_within r b1 b2 =>
    unfold step; simp only [astep] at hs
    refine onVecA_val X w a a' r _ hrel _ ao hs ?_
    intro vs vs' ao' hg
    cases hres : resolve b1 b2 vs.length with
    | none => rw [hres] at hg; simp at hg
    | some se =>
      obtain ⟨st, en⟩ := se
      rw [hres] at hg
      simp only [Option.some.injEq, Prod.mk.injEq] at hg; obtain ⟨rfl, rfl⟩ := hg
      refine HX.unit X _ _ _ (fun s es habs hv => ?_)
      have hlen : vs.length = es.length := by rw [← hv]; simp
      rw [hlen] at hres
      rcases C01_extend_from_within_partial X hq s es b1 b2 st en habs hres with ⟨s', new, hrun, ha, hnv⟩ | ⟨p, s', hrun, hb, ha⟩
      · exact .inl ⟨s', _, hrun, ha, by rw [List.map_append, hnv, List.map_drop, List.map_take, hv]⟩
      · exact .inr ⟨p, s', es, hrun, hb, ha⟩
  case retain r p =>
    unfold step; simp only [astep] at hs
    refine onVecA_val X w a a' r _ hrel _ ao hs ?_
    intro vs vs' ao' hg
    simp only [Option.some.injEq, Prod.mk.injEq] at hg; obtain ⟨rfl, rfl⟩ := hg
    refine HX.unit X _ _ _ (fun s es habs hv => ?_)
    obtain ⟨s', rej, hrun, ha, _⟩ := retain_spec X hq p.pred1 s es habs
    exact .inl ⟨s', _, hrun, ha, by rw [← hv]; exact keptFrom_vals p 0 es⟩
  case push r val =>
    unfold step; simp only [astep] at hs
    refine onVecA_val X w a a' r _ hrel _ ao hs ?_
    intro vs vs' ao' hg
    simp only [Option.some.injEq, Prod.mk.injEq] at hg; obtain ⟨rfl, rfl⟩ := hg
    refine HX.mk X val _ _ _ _ (fun e he => ?_)
    exact pop_hx X hq hz (.push e) _ (fun _ => .ok) vs .ok _ (hxrun_unit (Vec.push X e) .ok) (fun _ _ => trivial)
      (fun es hv => ⟨by simp [POp.spec, hv, he], trivial⟩)
  case pop r =>
    unfold step; simp only [astep] at hs
    refine onVecA_val X w a a' r _ hrel _ ao hs ?_
    intro vs vs' ao' hg
    simp only [Option.some.injEq, Prod.mk.injEq] at hg; obtain ⟨rfl, rfl⟩ := hg
    exact pop_hx X hq hz .pop _ optOut vs _ _ (hxrun_opt (Vec.pop X)) (fun _ _ => trivial)
      (fun es hv => ⟨by subst hv; simp [POp.spec, List.map_dropLast], by
        subst hv; simp only [POp.spec, List.getLast?_map]; exact optOut_val _⟩)
  case insert r i val =>
    unfold step; simp only [astep] at hs
    refine onVecA_val X w a a' r _ hrel _ ao hs ?_
    intro vs vs' ao' hg
    by_cases hi : i ≤ vs.length
    · simp only [hi, if_true, Option.some.injEq, Prod.mk.injEq] at hg; obtain ⟨rfl, rfl⟩ := hg
      refine HX.mk X val _ _ _ _ (fun e he => ?_)
      exact pop_hx X hq hz (.insert i e) _ (fun _ => .ok) vs .ok _ (hxrun_unit (Vec.insert X i e) .ok)
        (fun es hv => by subst hv; simpa [POp.inRange] using hi)
        (fun es hv => ⟨by subst hv; simp [POp.spec, he, List.map_take, List.map_drop], trivial⟩)
    · simp [hi] at hg
  case remove r i =>
    unfold step; simp only [astep] at hs
    refine onVecA_val X w a a' r _ hrel _ ao hs ?_
    intro vs vs' ao' hg
    by_cases hi : i < vs.length
    · simp only [hi, if_true, Option.some.injEq, Prod.mk.injEq] at hg; obtain ⟨rfl, rfl⟩ := hg
      exact pop_hx X hq hz (.remove i) _ optOut vs _ _ (hxrun_some (Vec.remove X i))
        (fun es hv => by subst hv; simpa [POp.inRange] using hi)
        (fun es hv => ⟨by subst hv; simp [POp.spec, map_eraseIdx'], by
          subst hv; simp only [POp.spec, List.getElem?_map]; exact optOut_val _⟩)
    · simp [hi] at hg
  case swap_remove r i =>
    unfold step; simp only [astep] at hs
    refine onVecA_val X w a a' r _ hrel _ ao hs ?_
    intro vs vs' ao' hg
    by_cases hi : i < vs.length
    · simp only [hi, if_true, Option.some.injEq, Prod.mk.injEq] at hg; obtain ⟨rfl, rfl⟩ := hg
      exact pop_hx X hq hz (.swap_remove i) _ optOut vs _ _ (hxrun_some (Vec.swap_remove X i))
        (fun es hv => by subst hv; simpa [POp.inRange] using hi)
        (fun es hv => ⟨by
          subst hv
          simp only [POp.spec, List.getLast?_map]
          cases es.getLast? with
          | none => rfl
          | some l => simp [List.map_take, List.map_set], by
          subst hv; simp only [POp.spec, List.getElem?_map]; exact optOut_val _⟩)
    · simp [hi] at hg
  case truncate r n =>
    unfold step; simp only [astep] at hs
    refine onVecA_val X w a a' r _ hrel _ ao hs ?_
    intro vs vs' ao' hg
    simp only [Option.some.injEq, Prod.mk.injEq] at hg; obtain ⟨rfl, rfl⟩ := hg
    exact pop_hx X hq hz (.truncate n) _ (fun _ => .ok) vs .ok _ (hxrun_unit (Vec.truncate X n) .ok) (fun _ _ => trivial)
      (fun es hv => ⟨by subst hv; simp [POp.spec, List.map_take], trivial⟩)
  case clear r =>
    unfold step; simp only [astep] at hs
    refine onVecA_val X w a a' r _ hrel _ ao hs ?_
    intro vs vs' ao' hg
    simp only [Option.some.injEq, Prod.mk.injEq] at hg; obtain ⟨rfl, rfl⟩ := hg
    exact pop_hx X hq hz .clear _ (fun _ => .ok) vs .ok _ (hxrun_unit (Vec.clear X) .ok) (fun _ _ => trivial)
      (fun es hv => ⟨by simp [POp.spec], trivial⟩)
  case reserve r n =>
    unfold step; simp only [astep] at hs
    refine onVecA_val X w a a' r _ hrel _ ao hs ?_
    intro vs vs' ao' hg
    simp only [Option.some.injEq, Prod.mk.injEq] at hg; obtain ⟨rfl, rfl⟩ := hg
    exact pop_hx X hq hz (.reserve n) _ (fun _ => .ok) vs .ok _ (hxrun_unit (Vec.reserve X n) .ok) (fun _ _ => trivial)
      (fun es hv => ⟨by simp [POp.spec, hv], trivial⟩)
  case reserve_exact r n =>
    unfold step; simp only [astep] at hs
    refine onVecA_val X w a a' r _ hrel _ ao hs ?_
    intro vs vs' ao' hg
    simp only [Option.some.injEq, Prod.mk.injEq] at hg; obtain ⟨rfl, rfl⟩ := hg
    exact pop_hx X hq hz (.reserve_exact n) _ (fun _ => .ok) vs .ok _ (hxrun_unit (Vec.reserve_exact X n) .ok) (fun _ _ => trivial)
      (fun es hv => ⟨by simp [POp.spec, hv], trivial⟩)
  case shrink_to r n =>
    unfold step; simp only [astep] at hs
    refine onVecA_val X w a a' r _ hrel _ ao hs ?_
    intro vs vs' ao' hg
    simp only [Option.some.injEq, Prod.mk.injEq] at hg; obtain ⟨rfl, rfl⟩ := hg
    exact pop_hx X hq hz (.shrink_to n) _ (fun _ => .ok) vs .ok _ (hxrun_unit (Vec.shrink_to X n) .ok) (fun _ _ => trivial)
      (fun es hv => ⟨by simp [POp.spec, hv], trivial⟩)
  case shrink_to_fit r =>
    unfold step; simp only [astep] at hs
    refine onVecA_val X w a a' r _ hrel _ ao hs ?_
    intro vs vs' ao' hg
    simp only [Option.some.injEq, Prod.mk.injEq] at hg; obtain ⟨rfl, rfl⟩ := hg
    exact pop_hx X hq hz .shrink_to_fit _ (fun _ => .ok) vs .ok _ (hxrun_unit (Vec.shrink_to_fit X) .ok) (fun _ _ => trivial)
      (fun es hv => ⟨by simp [POp.spec, hv], trivial⟩)
  case next it =>
    exact .inl (next_val_ok X hq hz w a a' it ao hrel hs)
  case next_back it =>
    unfold step; dsimp only; simp only [astep] at hs
    cases hai : a it with
    | none =>
      rw [hai] at hs; simp only [Option.some.injEq, Prod.mk.injEq] at hs; obtain ⟨rfl, rfl⟩ := hs
      simp only [(hrel.1 it).mpr hai]; exact .inl ⟨trivial, hrel⟩
    | some o =>
      rw [hai] at hs
      cases o with
      | drain src pre win tail =>
        simp only [Option.some.injEq, Prod.mk.injEq] at hs; obtain ⟨rfl, rfl⟩ := hs
        obtain ⟨v, d, hg, hv⟩ := hrel.drain_of it src pre win tail hai
        obtain ⟨o, d', hr, ho, hreg⟩ := drain_val_step X src v d w.sys true pre win tail hv
        simp only [if_true] at hr ho hreg
        simp only [hg, runOn, hr]
        exact .inl ⟨by rw [← ho]; exact optOut_val o, (hrel.sys _).set it _ _ hreg⟩
      | intoIter win =>
        simp only [Option.some.injEq, Prod.mk.injEq] at hs; obtain ⟨rfl, rfl⟩ := hs
        obtain ⟨v, i, hg, hv⟩ := hrel.into_of it win hai
        obtain ⟨o, i', v', hr, ho, hreg⟩ := into_val_step X v i w.sys true win hv
        simp only [if_true] at hr ho hreg
        simp only [hg, runOn, hr]
        exact .inl ⟨by rw [← ho]; exact optOut_val o, (hrel.sys _).set it _ _ hreg⟩
      | splice src pre win tail fill =>
        simp only [Option.some.injEq, Prod.mk.injEq] at hs; obtain ⟨rfl, rfl⟩ := hs
        obtain ⟨v, sp, hg, hv⟩ := hrel.splice_of it src pre win tail fill hai
        obtain ⟨o, d', hr, ho, hreg⟩ := splice_val_step X src v sp w.sys true pre win tail fill hv
        simp only [if_true] at hr ho hreg
        simp only [hg, runOn, hr]
        exact .inl ⟨by rw [← ho]; exact optOut_val o, (hrel.sys _).set it _ _ hreg⟩
      | _ => simp at hs
  case size_hint it =>
    exact .inl (size_hint_val_ok X hq hz w a a' it ao hrel hs)
  case len it =>
    unfold step; dsimp only; simp only [astep] at hs
    cases hai : a it with
    | none =>
      rw [hai] at hs; simp only [Option.some.injEq, Prod.mk.injEq] at hs; obtain ⟨rfl, rfl⟩ := hs
      simp only [(hrel.1 it).mpr hai]; exact .inl ⟨trivial, hrel⟩
    | some o =>
      rw [hai] at hs
      cases o with
      | drain src pre win tail =>
        simp only [Option.some.injEq, Prod.mk.injEq] at hs; obtain ⟨rfl, rfl⟩ := hs
        obtain ⟨v, d, hg, hv⟩ := hrel.drain_of it src pre win tail hai
        simp only [hg]
        exact .inl ⟨by show [Drain.size_hint d] = [win.length]; rw [drain_val_count X src v d pre win tail hv], hrel⟩
      | intoIter win =>
        simp only [Option.some.injEq, Prod.mk.injEq] at hs; obtain ⟨rfl, rfl⟩ := hs
        obtain ⟨v, i, hg, hv⟩ := hrel.into_of it win hai
        simp only [hg]
        exact .inl ⟨by show [if v.isDefault then 0 else v.len] = [win.length]; rw [into_val_count X v i win hv], hrel⟩
      | splice src pre win tail fill =>
        simp only [Option.some.injEq, Prod.mk.injEq] at hs; obtain ⟨rfl, rfl⟩ := hs
        obtain ⟨v, sp, hg, hv⟩ := hrel.splice_of it src pre win tail fill hai
        simp only [hg]
        exact .inl ⟨by show [Drain.size_hint sp.d] = [win.length]; rw [splice_val_count X src v sp pre win tail fill hv], hrel⟩
      | _ => simp at hs
  case forget r =>
    unfold step; dsimp only; simp only [astep] at hs
    cases har : a r with
    | none =>
      rw [har] at hs; simp only [Option.some.injEq, Prod.mk.injEq] at hs; obtain ⟨rfl, rfl⟩ := hs
      simp only [(hrel.1 r).mpr har]; exact .inl ⟨trivial, hrel⟩
    | some o =>
      rw [har] at hs
      cases o with
      | vec vs =>
        simp only [Option.some.injEq, Prod.mk.injEq] at hs; obtain ⟨rfl, rfl⟩ := hs
        obtain ⟨v, es, hg, _, _⟩ := hrel.vec_of r vs har
        simp only [hg]
        exact .inl ⟨trivial, hrel.set r .gone .gone trivial⟩
      | drain src pre win tail =>
        simp only [Option.some.injEq, Prod.mk.injEq] at hs; obtain ⟨rfl, rfl⟩ := hs
        obtain ⟨v, d, hg, hv⟩ := hrel.drain_of r src pre win tail har
        simp only [hg]
        refine .inl ⟨trivial, (hrel.set r .gone .gone trivial).set src _ _ ?_⟩
        obtain ⟨_, hv⟩ := hv
        rcases hv with ⟨es, st, en, hinv, hpre, _, _⟩ | ⟨_, habs, _, _, rfl, _, _⟩
        · exact ⟨_, hinv.prefix_abs, hpre⟩
        · exact ⟨[], habs, rfl⟩
      | intoIter win =>
        simp only [Option.some.injEq, Prod.mk.injEq] at hs; obtain ⟨rfl, rfl⟩ := hs
        obtain ⟨v, i, hg, hv⟩ := hrel.into_of r win har
        simp only [hg]
        exact .inl ⟨trivial, hrel.set r .gone .gone trivial⟩
      | splice src pre win tail fill =>
        simp only [Option.some.injEq, Prod.mk.injEq] at hs; obtain ⟨rfl, rfl⟩ := hs
        obtain ⟨v, sp, hg, hv⟩ := hrel.splice_of r src pre win tail fill har
        simp only [hg]
        refine .inl ⟨trivial, (hrel.set r .gone .gone trivial).set src _ _ ?_⟩
        obtain ⟨_, _, hv⟩ := hv
        rcases hv with ⟨es, st, en, hinv, hpre, _, _⟩ | ⟨_, habs, _, rfl, _, _⟩
        · exact ⟨_, hinv.prefix_abs, hpre⟩
        · exact ⟨[], habs, rfl⟩
      | drainFilter src p calls kept rest =>
        simp only [Option.some.injEq, Prod.mk.injEq] at hs; obtain ⟨rfl, rfl⟩ := hs
        obtain ⟨v, f, hg, hv⟩ := hrel.df_of r src p calls kept rest har
        simp only [hg]
        refine .inl ⟨trivial, (hrel.set r .gone .gone trivial).set src _ _ ?_⟩
        obtain ⟨_, _, _, hv⟩ := hv
        rcases hv with ⟨keptE, junk, restE, hinv, _, _⟩ | ⟨_, habs, _⟩
        · have h0 := hinv.full.shorten 0 (by omega) (by simpa using hinv.hd)
          have hv0 : ({ ({ v with len := f.oldLen } : VSt) with len := 0 } : VSt) = v := by
            have hl := hinv.len0
            cases hvv : v; simp [hvv] at *; omega
          rw [hv0] at h0
          exact ⟨_, h0, rfl⟩
        · exact ⟨[], habs, rfl⟩
      | lent =>
        simp only [Option.some.injEq, Prod.mk.injEq] at hs; obtain ⟨rfl, rfl⟩ := hs
        simp only [hrel.lent_of r har]; exact .inl ⟨trivial, hrel⟩
      | gone =>
        simp only [Option.some.injEq, Prod.mk.injEq] at hs; obtain ⟨rfl, rfl⟩ := hs
        simp only [hrel.gone_of r har]; exact .inl ⟨trivial, hrel⟩
  case drop r =>
    unfold step; dsimp only; simp only [astep] at hs
    cases har : a r with
    | none =>
      rw [har] at hs; simp only [Option.some.injEq, Prod.mk.injEq] at hs; obtain ⟨rfl, rfl⟩ := hs
      simp only [(hrel.1 r).mpr har]; exact .inl ⟨trivial, hrel⟩
    | some o =>
      rw [har] at hs
      cases o with
      | vec vs =>
        simp only [Option.some.injEq, Prod.mk.injEq] at hs; obtain ⟨rfl, rfl⟩ := hs
        obtain ⟨v, es, hg, habs, _⟩ := hrel.vec_of r vs har
        obtain ⟨s', hd⟩ := dropVec_ok X hq { sys := w.sys, v := v } es habs
        simp only [hg, runOn, hd]
        exact .inl ⟨trivial, (hrel.sys s'.sys).set r .gone .gone trivial⟩
      | drain src pre win tail =>
        simp only [Option.some.injEq, Prod.mk.injEq] at hs; obtain ⟨rfl, rfl⟩ := hs
        obtain ⟨v, d, hg, hv⟩ := hrel.drain_of r src pre win tail har
        simp only [hg, runOn]
        obtain ⟨_, hv⟩ := hv
        rcases hv with ⟨es, st, en, hinv, hpre, _, htail⟩ | ⟨_, habs, hge, ht, rfl, _, rfl⟩
        · obtain ⟨v', hd, ha, _⟩ := drain_drop_spec X hq d { sys := w.sys, v := v } es st en hinv
          rw [hd]
          exact .inl ⟨trivial, ((hrel.sys _).set r .gone .gone trivial).set src _ _ ⟨_, ha, by rw [List.map_append, hpre, htail]⟩⟩
        · rw [drain_drop_exhausted_notail X d { sys := w.sys, v := v } hge ht]
          exact .inl ⟨trivial, ((hrel.sys _).set r .gone .gone trivial).set src _ _ ⟨[], habs, rfl⟩⟩
      | intoIter win =>
        simp only [Option.some.injEq, Prod.mk.injEq] at hs; obtain ⟨rfl, rfl⟩ := hs
        obtain ⟨v, i, hg, hv⟩ := hrel.into_of r win har
        simp only [hg, runOn]
        rcases hv with ⟨es, hinv, _⟩ | ⟨hd, habs, _⟩
        · obtain ⟨b, _, _, hd⟩ := into_drop_spec X hq i { sys := w.sys, v := v } es hinv
          rw [hd]
          exact .inl ⟨trivial, (hrel.sys _).set r .gone .gone trivial⟩
        · rw [into_default_drop X { sys := w.sys, v := v } i habs hd hq]
          exact .inl ⟨trivial, (hrel.sys _).set r .gone .gone trivial⟩
      | splice src pre win tail fill =>
        simp only [Option.some.injEq, Prod.mk.injEq] at hs; obtain ⟨rfl, rfl⟩ := hs
        obtain ⟨v, sp, hg, hv⟩ := hrel.splice_of r src pre win tail fill har
        simp only [hg, runOn]
        obtain ⟨_, hfill, hv⟩ := hv
        have hres : (∃ s2 cur, Splice.drop X sp { sys := w.sys, v := v } = (.ok (), s2) ∧ Abs X s2.v cur ∧
              cur.map (·.val) = pre ++ takeSome fill ++ tail) ∨
            (∃ p s2 cur, Splice.drop X sp { sys := w.sys, v := v } = (.error p, s2) ∧ Panic.benign p = true ∧ Abs X s2.v cur) := by
          rcases hv with ⟨es, st, en, hinv, hpre, _, htail⟩ | ⟨hd, habs, hge, rfl, _, rfl⟩
          · rcases splice_drop_inv' X hq sp { sys := w.sys, v := v } es st en hinv with ⟨s2, new, hr, ha, hnv⟩ | hstop
            · exact .inl ⟨s2, _, hr, ha, by rw [List.map_append, List.map_append, hpre, htail, hnv, hfill]⟩
            · exact .inr hstop
          · rcases splice_drop_default' X hq sp { sys := w.sys, v := v } habs hd hge with ⟨s2, new, hr, ha, hnv⟩ | hstop
            · exact .inl ⟨s2, new, hr, ha, by rw [hnv, hfill]; simp⟩
            · exact .inr hstop
        rcases hres with ⟨s2, cur, hr, ha, hcv⟩ | ⟨p, s2, cur, hr, hb, ha⟩
        · rw [hr]
          exact .inl ⟨trivial, ((hrel.sys _).set r .gone .gone trivial).set src (Obj.vec s2.v) _ ⟨cur, ha, hcv⟩⟩
        · rw [hr]
          exact .inr ⟨p, rfl, hb, _, ((hrel.sys _).set r .gone .gone trivial).set src (Obj.vec s2.v) (.vec (cur.map (·.val))) ⟨cur, ha, rfl⟩⟩
      | drainFilter src p calls kept rest =>
        simp only [Option.some.injEq, Prod.mk.injEq] at hs; obtain ⟨rfl, rfl⟩ := hs
        obtain ⟨v, f, hg, hv⟩ := hrel.df_of r src p calls kept rest har
        simp only [hg, runOn]
        obtain ⟨_, hpred, hcalls, hv⟩ := hv
        rcases hv with ⟨keptE, junk, restE, hinv, hk, hr'⟩ | ⟨_, habs, ho, hp, hn, hpk, rfl, rfl⟩
        · obtain ⟨s2, hd, ha, _⟩ := df_dropLoop_spec X hq _ restE keptE junk f { sys := w.sys, v := v } (f.oldLen - f.pos + 1) rfl hinv
            (by have := hinv.ps; have := hinv.ol; omega)
          have hdrop : DrainFilter.drop X f { sys := w.sys, v := v } = (.ok (), s2) := by
            unfold DrainFilter.drop; rw [hinv.np]; simpa using hd
          rw [hdrop]
          refine .inl ⟨trivial, ((hrel.sys _).set r .gone .gone trivial).set src _ _ ⟨_, ha, ?_⟩⟩
          rw [List.map_append, hk, hpred, hcalls, rejFrom_vals, hr']
        · rw [df_default_drop X f { sys := w.sys, v := v } ho hp hn hpk]
          exact .inl ⟨trivial, ((hrel.sys _).set r .gone .gone trivial).set src _ _ ⟨[], habs, rfl⟩⟩
      | lent =>
        simp only [Option.some.injEq, Prod.mk.injEq] at hs; obtain ⟨rfl, rfl⟩ := hs
        simp only [hrel.lent_of r har]; exact .inl ⟨trivial, hrel⟩
      | gone =>
        simp only [Option.some.injEq, Prod.mk.injEq] at hs; obtain ⟨rfl, rfl⟩ := hs
        simp only [hrel.gone_of r har]; exact .inl ⟨trivial, hrel⟩
  case drain r b1 b2 it =>
    unfold step; dsimp only; simp only [astep] at hs
    cases hai : a it with
    | some o =>
      rw [hai] at hs; simp only [Option.some.injEq, Prod.mk.injEq] at hs; obtain ⟨rfl, rfl⟩ := hs
      have hf : w.fresh it = false := by
        cases hf : w.fresh it with
        | false => rfl
        | true => have := (hrel.fresh it).mp hf; rw [hai] at this; cases this
      simp only [hf, Bool.not_false, if_true]; exact .inl ⟨trivial, hrel⟩
    | none =>
      rw [hai] at hs; simp only at hs
      have hf : w.fresh it = true := (hrel.fresh it).mpr hai
      simp only [hf, Bool.not_true, Bool.false_eq_true, if_false]
      cases har : a r with
      | none =>
        rw [har] at hs; simp only [Option.some.injEq, Prod.mk.injEq] at hs; obtain ⟨rfl, rfl⟩ := hs
        simp only [(hrel.1 r).mpr har]; exact .inl ⟨trivial, hrel⟩
      | some o =>
        rw [har] at hs
        cases o with
        | vec vs =>
          simp only at hs
          obtain ⟨v, es, hg, habs, hvals⟩ := hrel.vec_of r vs har
          have hlen : vs.length = es.length := by rw [← hvals]; simp
          simp only [hg, runOn]
          cases hres : resolve b1 b2 vs.length with
          | none => rw [hres] at hs; simp at hs
          | some se =>
            obtain ⟨st, en⟩ := se
            rw [hres] at hs
            simp only [Option.some.injEq, Prod.mk.injEq] at hs; obtain ⟨rfl, rfl⟩ := hs
            rw [hlen] at hres
            cases hd : v.isDefault with
            | false =>
              obtain ⟨d, hc, hinv, hp, hst⟩ := drain_create_inv' X { sys := w.sys, v := v } es b1 b2 st en habs hd hres
              rw [hc]
              refine .inl ⟨trivial, ((hrel.sys _).set r .lent .lent trivial).set it _ _ ⟨rfl, .inl ⟨es, st, en, hinv, ?_, ?_, ?_⟩⟩⟩
              · rw [← hvals, List.map_take]
              · unfold window; rw [hp, hst, ← hvals, List.map_drop, List.map_take]
              · rw [← hvals, List.map_drop]
            | true =>
              have hnil := (habs.sentinel hd).2
              subst hnil
              have hv0 : vs = [] := by rw [← hvals]; rfl
              subst hv0
              rw [drain_create_default X { sys := w.sys, v := v } b1 b2 st en habs hd hres]
              exact .inl ⟨trivial, ((hrel.sys _).set r .lent .lent trivial).set it _ _
                ⟨rfl, .inr ⟨hd, habs, by simp, rfl, by simp, by simp, by simp⟩⟩⟩
        | drain src pre win tail =>
          simp only [Option.some.injEq, Prod.mk.injEq] at hs; obtain ⟨rfl, rfl⟩ := hs
          obtain ⟨v, d, hg, _⟩ := hrel.drain_of r src pre win tail har
          simp only [hg]; exact .inl ⟨trivial, hrel⟩
        | intoIter win =>
          simp only [Option.some.injEq, Prod.mk.injEq] at hs; obtain ⟨rfl, rfl⟩ := hs
          obtain ⟨v, i, hg, _⟩ := hrel.into_of r win har
          simp only [hg]; exact .inl ⟨trivial, hrel⟩
        | splice src pre win tail fill =>
          simp only [Option.some.injEq, Prod.mk.injEq] at hs; obtain ⟨rfl, rfl⟩ := hs
          obtain ⟨v, sp, hg, _⟩ := hrel.splice_of r src pre win tail fill har
          simp only [hg]; exact .inl ⟨trivial, hrel⟩
        | drainFilter src p calls kept rest =>
          simp only [Option.some.injEq, Prod.mk.injEq] at hs; obtain ⟨rfl, rfl⟩ := hs
          obtain ⟨v, f, hg, _⟩ := hrel.df_of r src p calls kept rest har
          simp only [hg]; exact .inl ⟨trivial, hrel⟩
        | lent =>
          simp only [Option.some.injEq, Prod.mk.injEq] at hs; obtain ⟨rfl, rfl⟩ := hs
          simp only [hrel.lent_of r har]; exact .inl ⟨trivial, hrel⟩
        | gone =>
          simp only [Option.some.injEq, Prod.mk.injEq] at hs; obtain ⟨rfl, rfl⟩ := hs
          simp only [hrel.gone_of r har]; exact .inl ⟨trivial, hrel⟩
  case into_iter r it =>
    unfold step; dsimp only; simp only [astep] at hs
    cases hai : a it with
    | some o =>
      rw [hai] at hs; simp only [Option.some.injEq, Prod.mk.injEq] at hs; obtain ⟨rfl, rfl⟩ := hs
      have hf : w.fresh it = false := by
        cases hf : w.fresh it with
        | false => rfl
        | true => have := (hrel.fresh it).mp hf; rw [hai] at this; cases this
      simp only [hf, Bool.not_false, if_true]; exact .inl ⟨trivial, hrel⟩
    | none =>
      rw [hai] at hs; simp only at hs
      have hf : w.fresh it = true := (hrel.fresh it).mpr hai
      simp only [hf, Bool.not_true, Bool.false_eq_true, if_false]
      cases har : a r with
      | none =>
        rw [har] at hs; simp only [Option.some.injEq, Prod.mk.injEq] at hs; obtain ⟨rfl, rfl⟩ := hs
        simp only [(hrel.1 r).mpr har]; exact .inl ⟨trivial, hrel⟩
      | some o =>
        rw [har] at hs
        cases o with
        | vec vs =>
          simp only [Option.some.injEq, Prod.mk.injEq] at hs; obtain ⟨rfl, rfl⟩ := hs
          obtain ⟨v, es, hg, habs, hvals⟩ := hrel.vec_of r vs har
          simp only [hg, runOn]
          cases hd : v.isDefault with
          | false =>
            obtain ⟨i, hc, hp0, hinv, hl⟩ := into_create_alloc X { sys := w.sys, v := v } es habs hd
            rw [hc]
            refine .inl ⟨trivial, ((hrel.sys _).set r .gone .gone trivial).set it _ _ (.inl ⟨es, hinv, ?_⟩)⟩
            have hl' : v.len = es.length := hl
            unfold iwindow
            rw [hp0, hl', List.drop_zero, List.take_length, hvals]
          | true =>
            have hnil := (habs.sentinel hd).2
            subst hnil
            have hv0 : vs = [] := by rw [← hvals]; rfl
            subst hv0
            have e1 : VM.lift X GM.isDefault { sys := w.sys, v := v } = (.ok true, { sys := w.sys, v := v }) := by
              rw [lift_isDefault]; exact congrArg (fun b => (Except.ok b, _)) hd
            have hc : IntoIter.create X { sys := w.sys, v := v } = (.ok { ptr := .null, pos := 0 }, { sys := w.sys, v := v }) := by
              unfold IntoIter.create; simp only [VM.bind_run, e1, if_true, VM.pure_run]
            rw [hc]
            exact .inl ⟨trivial, ((hrel.sys _).set r .gone .gone trivial).set it _ _ (.inr ⟨hd, habs, rfl⟩)⟩
        | drain src pre win tail =>
          simp only [Option.some.injEq, Prod.mk.injEq] at hs; obtain ⟨rfl, rfl⟩ := hs
          obtain ⟨v, d, hg, _⟩ := hrel.drain_of r src pre win tail har
          simp only [hg]; exact .inl ⟨trivial, hrel⟩
        | intoIter win =>
          simp only [Option.some.injEq, Prod.mk.injEq] at hs; obtain ⟨rfl, rfl⟩ := hs
          obtain ⟨v, i, hg, _⟩ := hrel.into_of r win har
          simp only [hg]; exact .inl ⟨trivial, hrel⟩
        | splice src pre win tail fill =>
          simp only [Option.some.injEq, Prod.mk.injEq] at hs; obtain ⟨rfl, rfl⟩ := hs
          obtain ⟨v, sp, hg, _⟩ := hrel.splice_of r src pre win tail fill har
          simp only [hg]; exact .inl ⟨trivial, hrel⟩
        | drainFilter src p calls kept rest =>
          simp only [Option.some.injEq, Prod.mk.injEq] at hs; obtain ⟨rfl, rfl⟩ := hs
          obtain ⟨v, f, hg, _⟩ := hrel.df_of r src p calls kept rest har
          simp only [hg]; exact .inl ⟨trivial, hrel⟩
        | lent =>
          simp only [Option.some.injEq, Prod.mk.injEq] at hs; obtain ⟨rfl, rfl⟩ := hs
          simp only [hrel.lent_of r har]; exact .inl ⟨trivial, hrel⟩
        | gone =>
          simp only [Option.some.injEq, Prod.mk.injEq] at hs; obtain ⟨rfl, rfl⟩ := hs
          simp only [hrel.gone_of r har]; exact .inl ⟨trivial, hrel⟩
  case splice r b1 b2 fill it =>
    unfold step; dsimp only; simp only [astep] at hs
    cases hai : a it with
    | some o =>
      rw [hai] at hs; simp only [Option.some.injEq, Prod.mk.injEq] at hs; obtain ⟨rfl, rfl⟩ := hs
      have hf : w.fresh it = false := by
        cases hf : w.fresh it with
        | false => rfl
        | true => have := (hrel.fresh it).mp hf; rw [hai] at this; cases this
      simp only [hf, Bool.not_false, if_true]; exact .inl ⟨trivial, hrel⟩
    | none =>
      rw [hai] at hs; simp only at hs
      have hf : w.fresh it = true := (hrel.fresh it).mpr hai
      simp only [hf, Bool.not_true, Bool.false_eq_true, if_false]
      by_cases hvec : ∃ vs, a r = some (.vec vs)
      · obtain ⟨vs, har⟩ := hvec
        rw [har] at hs
        simp only at hs
        obtain ⟨v, es, hg, habs, hvals⟩ := hrel.vec_of r vs har
        have hlen : vs.length = es.length := by rw [← hvals]; simp
        simp only [hg, runOn]
        cases hres : resolve b1 b2 vs.length with
        | none => rw [hres] at hs; simp at hs
        | some se =>
          obtain ⟨st, en⟩ := se
          rw [hres] at hs
          simp only [Option.some.injEq, Prod.mk.injEq] at hs; obtain ⟨rfl, rfl⟩ := hs
          rw [hlen] at hres
          cases hd : v.isDefault with
          | false =>
            obtain ⟨d, hc, hinv, _, _⟩ := drain_create_inv' X { sys := w.sys, v := v } es b1 b2 st en habs hd hres
            rw [splice_create_alloc X { sys := w.sys, v := v } es b1 b2 st en fill habs hd hres]
            obtain ⟨_, _, hse, hel'⟩ := (C11_resolve_iff b1 b2 es.length st en).mp hres
            refine .inl ⟨trivial, ((hrel.sys _).set r .lent .lent trivial).set it _ _ ⟨rfl, rfl, .inl ⟨es, st, en, ?_, ?_, ?_, ?_⟩⟩⟩
            · exact { hd := hd, len := rfl, full := hinv.full, ptr := rfl, lo := Nat.le_refl _, mid := hse,
                      hi := Nat.le_refl _, tp := rfl, tl := rfl, en_le := hel' }
            · rw [← hvals, List.map_take]
            · unfold window; simp only; rw [← hvals, List.map_drop, List.map_take]
            · rw [← hvals, List.map_drop]
          | true =>
            have hnil := (habs.sentinel hd).2
            subst hnil
            have hv0 : vs = [] := by rw [← hvals]; rfl
            subst hv0
            have hL : (hsOf v w.sys.allocIdx).L = 0 := by have := habs.len_eq (k := w.sys.allocIdx); simpa using this
            have hptr := as_mut_ptr_run_default X.env (hsOf v w.sys.allocIdx) (by simp [hsOf, hd])
            have hres0 : resolve b1 b2 0 = some (st, en) := hres
            have hrun : splice_pre X.env b1 b2 (hsOf v w.sys.allocIdx) =
                (.ok (.cont ⟨0, st, en, .null⟩), hsOf v w.sys.allocIdx) := by
              rw [C11_splice]
              unfold spliceSpec
              simp only [len_run, GM.bind_run, hL, hres0, hptr, DPtr.isNull, Bool.not_true, GM.ite_run, GM.pure_run]
              rfl
            have h1 := lift_read X (splice_pre X.env b1 b2) { sys := w.sys, v := v } _ hrun
            have hc' : Splice.create X b1 b2 fill { sys := w.sys, v := v } =
                (.ok { d := { ptr := .null, pos := 0, stop := 0, tailPos := 0, tail := 0 }, fill := fill }, { sys := w.sys, v := v }) := by
              unfold Splice.create
              simp only [VM.bind_run, h1, DPtr.isNull, VM.pure_run]
              rfl
            rw [hc']
            exact .inl ⟨trivial, ((hrel.sys _).set r .lent .lent trivial).set it _ _
              ⟨rfl, rfl, .inr ⟨hd, habs, by simp, by simp, by simp, by simp⟩⟩⟩
      · have hn := hrel.not_vec r (fun vs h => hvec ⟨vs, h⟩)
        have hbad : a = a' ∧ AOut.badOp = ao := by
          cases har : a r with
          | none => rw [har] at hs; simpa using hs
          | some o =>
            rw [har] at hs
            cases o with
            | vec vs => exact absurd ⟨vs, har⟩ hvec
            | _ => simpa using hs
        obtain ⟨rfl, rfl⟩ := hbad
        split
        · rename_i v heq; exact absurd heq (hn v)
        · exact .inl ⟨trivial, hrel⟩
  case drain_filter r p it =>
    unfold step; dsimp only; simp only [astep] at hs
    cases hai : a it with
    | some o =>
      rw [hai] at hs; simp only [Option.some.injEq, Prod.mk.injEq] at hs; obtain ⟨rfl, rfl⟩ := hs
      have hf : w.fresh it = false := by
        cases hf : w.fresh it with
        | false => rfl
        | true => have := (hrel.fresh it).mp hf; rw [hai] at this; cases this
      simp only [hf, Bool.not_false, if_true]; exact .inl ⟨trivial, hrel⟩
    | none =>
      rw [hai] at hs; simp only at hs
      have hf : w.fresh it = true := (hrel.fresh it).mpr hai
      simp only [hf, Bool.not_true, Bool.false_eq_true, if_false]
      by_cases hvec : ∃ vs, a r = some (.vec vs)
      · obtain ⟨vs, har⟩ := hvec
        rw [har] at hs
        simp only [Option.some.injEq, Prod.mk.injEq] at hs; obtain ⟨rfl, rfl⟩ := hs
        obtain ⟨v, es, hg, habs, hvals⟩ := hrel.vec_of r vs har
        simp only [hg, runOn]
        cases hd : v.isDefault with
        | false =>
          obtain ⟨v0, hc, hinv, _⟩ := df_create_alloc X p.pred1 { sys := w.sys, v := v } es habs hd
          rw [hc]
          exact .inl ⟨trivial, ((hrel.sys _).set r .lent .lent trivial).set it _ _
            ⟨rfl, rfl, rfl, .inl ⟨_, _, _, hinv, rfl, hvals⟩⟩⟩
        | true =>
          have hnil := (habs.sentinel hd).2
          subst hnil
          have hv0 : vs = [] := by rw [← hvals]; rfl
          subst hv0
          have hL : (hsOf v w.sys.allocIdx).L = 0 := by have := habs.len_eq (k := w.sys.allocIdx); simpa using this
          have h1 : VM.lift X (len X.env) { sys := w.sys, v := v } = (.ok 0, { sys := w.sys, v := v }) :=
            lift_read X _ _ _ (by rw [len_run, hL])
          have hc' : DrainFilter.create X p.pred1 { sys := w.sys, v := v } =
              (.ok { oldLen := 0, newLen := 0, pos := 0, panicked := false, pred := p.pred1, calls := 0 }, { sys := w.sys, v := v }) := by
            unfold DrainFilter.create
            simp only [VM.bind_run, h1, Nat.lt_irrefl, if_false, VM.pure_run, gt_iff_lt]
          rw [hc']
          exact .inl ⟨trivial, ((hrel.sys _).set r .lent .lent trivial).set it _ _
            ⟨rfl, rfl, rfl, .inr ⟨hd, habs, rfl, rfl, rfl, rfl, rfl, rfl⟩⟩⟩
      · have hn := hrel.not_vec r (fun vs h => hvec ⟨vs, h⟩)
        have hbad : a = a' ∧ AOut.badOp = ao := by
          cases har : a r with
          | none => rw [har] at hs; simpa using hs
          | some o =>
            rw [har] at hs
            cases o with
            | vec vs => exact absurd ⟨vs, har⟩ hvec
            | _ => simpa using hs
        obtain ⟨rfl, rfl⟩ := hbad
        split
        · rename_i v heq; exact absurd heq (hn v)
        · exact .inl ⟨trivial, hrel⟩
  case serialize r =>
    unfold step; simp only [astep] at hs
    refine onVecA_val X w a a' r _ hrel _ ao hs ?_
    intro vs vs' ao' hg
    simp only [Option.some.injEq, Prod.mk.injEq] at hg; obtain ⟨rfl, rfl⟩ := hg
    intro s es habs hv
    exact .inl ⟨.elems es, s, es, by simp only [VM.bind_run, contents_run X s es habs]; rfl, habs, hv, hv⟩
  case views r =>
    unfold step; simp only [astep] at hs
    refine onVecA_val X w a a' r _ hrel _ ao hs ?_
    intro vs vs' ao' hg
    simp only [Option.some.injEq, Prod.mk.injEq] at hg; obtain ⟨rfl, rfl⟩ := hg
    intro s es habs hv
    exact .inl ⟨_, s, es, rfl, habs, hv, trivial⟩
  case leak r =>
    unfold step; dsimp only; simp only [astep] at hs
    by_cases hvec : ∃ vs, a r = some (.vec vs)
    · obtain ⟨vs, har⟩ := hvec
      rw [har] at hs
      simp only [Option.some.injEq, Prod.mk.injEq] at hs; obtain ⟨rfl, rfl⟩ := hs
      obtain ⟨v, es, hg, habs, hvals⟩ := hrel.vec_of r vs har
      simp only [hg, runOn, contents_run X { sys := w.sys, v := v } es habs]
      exact .inl ⟨hvals, (hrel.sys _).set r .gone .gone trivial⟩
    · have hn := hrel.not_vec r (fun vs h => hvec ⟨vs, h⟩)
      have hbad : a = a' ∧ AOut.badOp = ao := by
        cases har : a r with
        | none => rw [har] at hs; simpa using hs
        | some o =>
          rw [har] at hs
          cases o with
          | vec vs => exact absurd ⟨vs, har⟩ hvec
          | _ => simpa using hs
      obtain ⟨rfl, rfl⟩ := hbad
      split
      · rename_i v heq; exact absurd heq (hn v)
      · exact .inl ⟨trivial, hrel⟩
  case as_slice it =>
    unfold step; dsimp only; simp only [astep] at hs
    by_cases hit : ∃ win, a it = some (.intoIter win)
    · obtain ⟨win, hai⟩ := hit
      rw [hai] at hs
      simp only [Option.some.injEq, Prod.mk.injEq] at hs; obtain ⟨rfl, rfl⟩ := hs
      obtain ⟨v, i, hg, hv⟩ := hrel.into_of it win hai
      simp only [hg, runOn]
      rcases hv with ⟨es, hinv, hwin⟩ | ⟨hd, habs, rfl⟩
      · rw [into_as_slice (s := { sys := w.sys, v := v }) hinv]
        exact .inl ⟨hwin, hrel.sys _⟩
      · have e1 : VM.lift X GM.isDefault { sys := w.sys, v := v } = (.ok true, { sys := w.sys, v := v }) := by
          rw [lift_isDefault]; exact congrArg (fun b => (Except.ok b, _)) hd
        have : IntoIter.as_slice X i { sys := w.sys, v := v } = (.ok [], { sys := w.sys, v := v }) := by
          unfold IntoIter.as_slice; simp only [VM.bind_run, e1, if_true, VM.pure_run]
        rw [this]
        exact .inl ⟨rfl, hrel.sys _⟩
    · have hbad : a = a' ∧ AOut.badOp = ao := by
        cases hai : a it with
        | none => rw [hai] at hs; simpa using hs
        | some o =>
          rw [hai] at hs
          cases o with
          | intoIter win => exact absurd ⟨win, hai⟩ hit
          | _ => simpa using hs
      obtain ⟨rfl, rfl⟩ := hbad
      split
      · rename_i v i heq
        exfalso
        cases hai : a it with
        | none => have := (hrel.1 it).mpr hai; rw [heq] at this; cases this
        | some ao1 =>
          have hv := hrel.2 it _ _ heq hai
          cases ao1 <;> simp only [RegVal] at hv
          exact hit ⟨_, hai⟩
      · exact .inl ⟨trivial, hrel⟩
  case dedup r =>
    unfold step; simp only [astep] at hs
    refine onVecA_val X w a a' r _ hrel _ ao hs ?_
    intro vs vs' ao' hg
    simp only [Option.some.injEq, Prod.mk.injEq] at hg; obtain ⟨rfl, rfl⟩ := hg
    refine HX.unit X _ _ _ (fun s es habs hv => ?_)
    obtain ⟨s', hrun, ha⟩ := C17_dedup_lawful X hq heq s es habs
    exact .inl ⟨s', _, hrun, ha, by rw [← hv]; exact dedupAll_vals _ _ (fun _ _ _ => rfl) es⟩
  case remove_item r val =>
    unfold step; simp only [astep] at hs
    refine onVecA_val X w a a' r _ hrel _ ao hs ?_
    intro vs vs' ao' hg
    simp only [Option.some.injEq, Prod.mk.injEq] at hg; obtain ⟨rfl, rfl⟩ := hg
    refine HX.mk X val _ _ _ _ (fun e he => ?_)
    intro s es habs hv
    obtain ⟨s', hrun, ha⟩ := C17_remove_item_lawful X hq heq e s es habs
    obtain ⟨h1, h2⟩ := removeFirst_vals val es
    rw [he] at hrun ha
    refine .inl ⟨_, s', _, by simp only [VM.bind_run, hrun]; rfl, ha, by rw [h2, hv], ?_⟩
    rw [← hv, ← h1]
    exact optOut_val _
  case dedup_by r p =>
    unfold step; simp only [astep] at hs
    refine onVecA_val X w a a' r _ hrel _ ao hs ?_
    intro vs vs' ao' hg
    simp only [Option.some.injEq, Prod.mk.injEq] at hg; obtain ⟨rfl, rfl⟩ := hg
    refine HX.unit X _ _ _ (fun s es habs hv => ?_)
    obtain ⟨s', hrun, ha⟩ := (C17_dedup_by_exact X hq s es habs).1 p.pred2
    exact .inl ⟨s', _, hrun, ha, by rw [← hv]; exact dedupAll_vals _ _ (pred2_val p) es⟩
  case dedup_by_key r k =>
    unfold step; simp only [astep] at hs
    refine onVecA_val X w a a' r _ hrel _ ao hs ?_
    intro vs vs' ao' hg
    simp only [Option.some.injEq, Prod.mk.injEq] at hg; obtain ⟨rfl, rfl⟩ := hg
    refine HX.unit X _ _ _ (fun s es habs hv => ?_)
    obtain ⟨s', hrun, ha⟩ := (C17_dedup_by_exact X hq s es habs).2 k.key
    exact .inl ⟨s', _, hrun, ha, by rw [← hv]; exact dedupAll_vals _ _ (key_val k) es⟩
  case compare r r2 =>
    unfold step; dsimp only; simp only [astep] at hs
    by_cases hvec : ∃ xs ys, a r = some (.vec xs) ∧ a r2 = some (.vec ys)
    · obtain ⟨xs, ys, har, har2⟩ := hvec
      rw [har, har2] at hs
      simp only [Option.some.injEq, Prod.mk.injEq] at hs; obtain ⟨rfl, rfl⟩ := hs
      obtain ⟨v, es, hg, habs, hvals⟩ := hrel.vec_of r xs har
      obtain ⟨v2, es2, hg2, habs2, hvals2⟩ := hrel.vec_of r2 ys har2
      have hca := contents_run X { sys := w.sys, v := v } es habs
      have hcb := contents_run X { sys := w.sys, v := v2 } es2 habs2
      have hcb' : VM.onVec v2 (Vec.contents X) { sys := w.sys, v := v } = (.ok (es2, v2), { sys := w.sys, v := v }) :=
        onVec_read v2 _ { sys := w.sys, v := v } _ hcb
      obtain ⟨s', hr, _⟩ := compareSlices_ret X hq heq es es2 { sys := w.sys, v := v }
      simp only [hg, hg2, runOn, VM.bind_run, hca, hcb', hr]
      rw [hvals, hvals2]
      exact .inl ⟨⟨rfl, rfl, rfl, rfl⟩, hrel.sys _⟩
    · have hbad : a = a' ∧ AOut.badOp = ao := by
        revert hs
        split
        · rename_i xs ys h1 h2; exact absurd ⟨xs, ys, h1, h2⟩ hvec
        · intro hs; simpa using hs
      obtain ⟨rfl, rfl⟩ := hbad
      split
      · rename_i v o h1 h2
        exfalso
        obtain ⟨ao1, hao1⟩ : ∃ x, a r = some x := by
          cases h : a r with
          | none => have := (hrel.1 r).mpr h; rw [h1] at this; cases this
          | some x => exact ⟨x, rfl⟩
        obtain ⟨ao2, hao2⟩ : ∃ x, a r2 = some x := by
          cases h : a r2 with
          | none => have := (hrel.1 r2).mpr h; rw [h2] at this; cases this
          | some x => exact ⟨x, rfl⟩
        have hv1 := hrel.2 r _ _ h1 hao1
        have hv2 := hrel.2 r2 _ _ h2 hao2
        cases ao1 <;> simp only [RegVal] at hv1
        cases ao2 <;> simp only [RegVal] at hv2
        exact hvec ⟨_, _, hao1, hao2⟩
      · exact .inl ⟨trivial, hrel⟩
  case drain_vec r rnew =>
    unfold step; dsimp only; simp only [astep] at hs
    cases hai : a rnew with
    | some o =>
      rw [hai] at hs; simp only [Option.some.injEq, Prod.mk.injEq] at hs; obtain ⟨rfl, rfl⟩ := hs
      have hf : w.fresh rnew = false := by
        cases hf : w.fresh rnew with
        | false => rfl
        | true => have := (hrel.fresh rnew).mp hf; rw [hai] at this; cases this
      simp only [hf, Bool.not_false, if_true]; exact .inl ⟨trivial, hrel⟩
    | none =>
      rw [hai] at hs; simp only at hs
      have hf : w.fresh rnew = true := (hrel.fresh rnew).mpr hai
      simp only [hf, Bool.not_true, Bool.false_eq_true, if_false]
      by_cases hvec : ∃ vs, a r = some (.vec vs)
      · obtain ⟨vs, har⟩ := hvec
        rw [har] at hs
        simp only [Option.some.injEq, Prod.mk.injEq] at hs; obtain ⟨rfl, rfl⟩ := hs
        obtain ⟨v, es, hg, habs, hvals⟩ := hrel.vec_of r vs har
        simp only [hg, runOn, C01_drain_vec X hz { sys := w.sys, v := v }]
        exact .inl ⟨trivial, ((hrel.sys _).set r (Obj.vec {}) (.vec []) ⟨[], Abs.sentinel_abs X hz, rfl⟩).set rnew (Obj.vec v) (.vec vs) ⟨es, habs, hvals⟩⟩
      · have hn := hrel.not_vec r (fun vs h => hvec ⟨vs, h⟩)
        have hbad : a = a' ∧ AOut.badOp = ao := by
          cases har : a r with
          | none => rw [har] at hs; simpa using hs
          | some o =>
            rw [har] at hs
            cases o with
            | vec vs => exact absurd ⟨vs, har⟩ hvec
            | _ => simpa using hs
        obtain ⟨rfl, rfl⟩ := hbad
        split
        · rename_i v heq; exact absurd heq (hn v)
        · exact .inl ⟨trivial, hrel⟩
  case iter_views it =>
    unfold step; dsimp only; simp only [astep] at hs
    by_cases hit : ∃ win, a it = some (.intoIter win)
    · obtain ⟨win, hai⟩ := hit
      rw [hai] at hs
      simp only [Option.some.injEq, Prod.mk.injEq] at hs; obtain ⟨rfl, rfl⟩ := hs
      obtain ⟨v, i, hg, _⟩ := hrel.into_of it win hai
      simp only [hg]
      exact .inl ⟨trivial, hrel⟩
    · have hbad : a = a' ∧ AOut.badOp = ao := by
        cases hai : a it with
        | none => rw [hai] at hs; simpa using hs
        | some o =>
          rw [hai] at hs
          cases o with
          | intoIter win => exact absurd ⟨win, hai⟩ hit
          | _ => simpa using hs
      obtain ⟨rfl, rfl⟩ := hbad
      split
      · rename_i v i heq
        exfalso
        cases hai : a it with
        | none => have := (hrel.1 it).mpr hai; rw [heq] at this; cases this
        | some ao1 =>
          have hv := hrel.2 it _ _ heq hai
          cases ao1 <;> simp only [RegVal] at hv
          exact hit ⟨_, hai⟩
      · exact .inl ⟨trivial, hrel⟩
  case clone_iter it itnew =>
    unfold step; dsimp only; simp only [astep] at hs
    cases hai : a itnew with
    | some o =>
      rw [hai] at hs; simp only [Option.some.injEq, Prod.mk.injEq] at hs; obtain ⟨rfl, rfl⟩ := hs
      have hf : w.fresh itnew = false := by
        cases hf : w.fresh itnew with
        | false => rfl
        | true => have := (hrel.fresh itnew).mp hf; rw [hai] at this; cases this
      simp only [hf, Bool.not_false, if_true]; exact .inl ⟨trivial, hrel⟩
    | none =>
      rw [hai] at hs; simp only at hs
      have hf : w.fresh itnew = true := (hrel.fresh itnew).mpr hai
      simp only [hf, Bool.not_true, Bool.false_eq_true, if_false]
      by_cases hit : ∃ win, a it = some (.intoIter win)
      · obtain ⟨win, hait⟩ := hit
        rw [hait] at hs
        simp only [Option.some.injEq, Prod.mk.injEq] at hs; obtain ⟨rfl, rfl⟩ := hs
        obtain ⟨v, i, hg, hv⟩ := hrel.into_of it win hait
        simp only [hg, runOn]
        rcases hv with ⟨es, hinv, hwin⟩ | ⟨hd, habs, rfl⟩
        · rcases C12_into_iter_clone_partial X hq { sys := w.sys, v := v } es i hinv with
            ⟨o, i', s', new, hr, hv, ho, hnv, hp0, hnd⟩ | ⟨p, s', hr, hb, hv⟩
          · rw [hr]
            have hold : RegVal X (.intoIter s'.v i) (.intoIter win) := .inl ⟨es, by rw [hv]; exact hinv, by rw [hv]; exact hwin⟩
            have hnew : RegVal X (.intoIter o i') (.intoIter win) := by
              cases hod : o.isDefault with
              | false =>
                obtain ⟨hinv', hol⟩ := hnd hod
                refine .inl ⟨new, hinv', ?_⟩
                unfold iwindow
                rw [hp0, hol, List.drop_zero, List.take_length, hnv]
                exact hwin
              | true =>
                have hnil := (ho.sentinel hod).2
                subst hnil
                refine .inr ⟨hod, ho, ?_⟩
                rw [← hwin]
                simpa using hnv.symm
            exact .inl ⟨trivial, ((hrel.sys _).set it (Obj.intoIter s'.v i) (.intoIter win) hold).set itnew (Obj.intoIter o i') (.intoIter win) hnew⟩
          · rw [hr]
            exact .inr ⟨p, rfl, hb, _, (hrel.sys _).set it (Obj.intoIter s'.v i) (.intoIter win)
              (.inl ⟨es, by rw [hv]; exact hinv, by rw [hv]; exact hwin⟩)⟩
        · have e1 : VM.lift X GM.isDefault { sys := w.sys, v := v } = (.ok true, { sys := w.sys, v := v }) := by
            rw [lift_isDefault]; exact congrArg (fun b => (Except.ok b, _)) hd
          have has : IntoIter.as_slice X i { sys := w.sys, v := v } = (.ok [], { sys := w.sys, v := v }) := by
            unfold IntoIter.as_slice; simp only [VM.bind_run, e1, if_true, VM.pure_run]
          rcases C01_from_slice_partial X hq hz [] { sys := w.sys, v := v } with ⟨o, s1, new, hrun, hv, ho, hvals⟩ | ⟨p, s1, hrun, hb, hv⟩
          · have hnew0 : new = [] := by simpa using hvals
            subst hnew0
            have hcl : ∃ i', IntoIter.clone X i { sys := w.sys, v := v } = (.ok (o, i'), s1) ∧
                RegVal X (.intoIter o i') (.intoIter []) := by
              cases hod : o.isDefault with
              | true =>
                have e2 : VM.lift X GM.isDefault { s1 with v := o } = (.ok true, { s1 with v := o }) := by
                  rw [lift_isDefault]; exact congrArg (fun b => (Except.ok b, _)) hod
                have hc : IntoIter.create X { s1 with v := o } = (.ok { ptr := .null, pos := 0 }, { s1 with v := o }) := by
                  unfold IntoIter.create; simp only [VM.bind_run, e2, if_true, VM.pure_run]
                refine ⟨{ ptr := .null, pos := 0 }, ?_, .inr ⟨hod, ho, rfl⟩⟩
                unfold IntoIter.clone
                simp only [VM.bind_run, has, hrun, onVec_ok o _ s1 _ _ hc, VM.pure_run]
              | false =>
                obtain ⟨i', hc, _, hinv', _⟩ := into_create_alloc X { s1 with v := o } [] ho hod
                refine ⟨i', ?_, .inl ⟨[], hinv', by simp [iwindow]⟩⟩
                unfold IntoIter.clone
                simp only [VM.bind_run, has, hrun, onVec_ok o _ s1 _ _ hc, VM.pure_run]
            obtain ⟨i', hr, hok⟩ := hcl
            rw [hr]
            have hold : RegVal X (.intoIter s1.v i) (.intoIter []) := .inr ⟨by rw [hv]; exact hd, by rw [hv]; exact habs, rfl⟩
            exact .inl ⟨trivial, ((hrel.sys _).set it (Obj.intoIter s1.v i) (.intoIter []) hold).set itnew (Obj.intoIter o i') (.intoIter []) hok⟩
          · have hr : IntoIter.clone X i { sys := w.sys, v := v } = (.error p, s1) := by
              unfold IntoIter.clone
              simp only [VM.bind_run, has, hrun]
            rw [hr]
            exact .inr ⟨p, rfl, hb, _, (hrel.sys _).set it (Obj.intoIter s1.v i) (.intoIter [])
              (.inr ⟨by rw [hv]; exact hd, by rw [hv]; exact habs, rfl⟩)⟩
      · have hbad : a = a' ∧ AOut.badOp = ao := by
          cases hait : a it with
          | none => rw [hait] at hs; simpa using hs
          | some o =>
            rw [hait] at hs
            cases o with
            | intoIter win => exact absurd ⟨win, hait⟩ hit
            | _ => simpa using hs
        obtain ⟨rfl, rfl⟩ := hbad
        split
        · rename_i v i heq
          exfalso
          cases hait : a it with
          | none => have := (hrel.1 it).mpr hait; rw [heq] at this; cases this
          | some ao1 =>
            have hv := hrel.2 it _ _ heq hait
            cases ao1 <;> simp only [RegVal] at hv
            exact hit ⟨_, hait⟩
        · exact .inl ⟨trivial, hrel⟩
  case clone_from r rsrc =>
    unfold step; dsimp only; simp only [astep] at hs
    by_cases hrr : (r == rsrc) = true
    · simp only [hrr, if_true, Option.some.injEq, Prod.mk.injEq] at hs ⊢; obtain ⟨rfl, rfl⟩ := hs
      exact .inl ⟨trivial, hrel⟩
    · simp only [hrr, Bool.false_eq_true, if_false] at hs ⊢
      by_cases hvec : ∃ vs os, a r = some (.vec vs) ∧ a rsrc = some (.vec os)
      · obtain ⟨vs, os, har, har2⟩ := hvec
        rw [har, har2] at hs
        simp only [Option.some.injEq, Prod.mk.injEq] at hs; obtain ⟨rfl, rfl⟩ := hs
        obtain ⟨v, es, hg, habs, hvals⟩ := hrel.vec_of r vs har
        obtain ⟨v2, es2, hg2, habs2, hvals2⟩ := hrel.vec_of rsrc os har2
        simp only [hg, hg2]
        rcases C12_clone_from_partial X hq { sys := w.sys, v := v } es es2 v2 habs habs2 with
          ⟨s', new, hrun, ha, hnv⟩ | ⟨p, s', hrun, hb, hsv⟩
        · simp only [hrun]
          exact .inl ⟨trivial, (hrel.sys s'.sys).set r (Obj.vec s'.v) (.vec os) ⟨new, ha, by rw [hnv, hvals2]⟩⟩
        · simp only [hrun]
          exact .inr ⟨p, rfl, hb, _, (hrel.sys s'.sys).set r (Obj.vec s'.v) (.vec vs) ⟨es, by rw [hsv]; exact habs, hvals⟩⟩
      · have hbad : a = a' ∧ AOut.badOp = ao := by
          revert hs
          split
          · rename_i vs os h1 h2; exact absurd ⟨vs, os, h1, h2⟩ hvec
          · intro hs; simpa using hs
        obtain ⟨rfl, rfl⟩ := hbad
        split
        · rename_i v o h1 h2
          exfalso
          obtain ⟨ao1, hao1⟩ : ∃ x, a r = some x := by
            cases h : a r with
            | none => have := (hrel.1 r).mpr h; rw [h1] at this; cases this
            | some x => exact ⟨x, rfl⟩
          obtain ⟨ao2, hao2⟩ : ∃ x, a rsrc = some x := by
            cases h : a rsrc with
            | none => have := (hrel.1 rsrc).mpr h; rw [h2] at this; cases this
            | some x => exact ⟨x, rfl⟩
          have hv1 := hrel.2 r _ _ h1 hao1
          have hv2 := hrel.2 rsrc _ _ h2 hao2
          cases ao1 <;> simp only [RegVal] at hv1
          cases ao2 <;> simp only [RegVal] at hv2
          exact hvec ⟨_, _, hao1, hao2⟩
        · exact .inl ⟨trivial, hrel⟩
  case deserialize rnew hint sc =>
    unfold step; dsimp only; simp only [astep] at hs
    cases hai : a rnew with
    | some o =>
      rw [hai] at hs; simp only [Option.some.injEq, Prod.mk.injEq] at hs; obtain ⟨rfl, rfl⟩ := hs
      have hf : w.fresh rnew = false := by
        cases hf : w.fresh rnew with
        | false => rfl
        | true => have := (hrel.fresh rnew).mp hf; rw [hai] at this; cases this
      simp only [hf, Bool.not_false, if_true]; exact .inl ⟨trivial, hrel⟩
    | none =>
      rw [hai] at hs; simp only at hs
      have hf : w.fresh rnew = true := (hrel.fresh rnew).mpr hai
      simp only [hf, Bool.not_true, Bool.false_eq_true, if_false, runOn]
      rcases C19_deserialize_partial X hq hz hint sc { sys := w.sys, v := {} } with
        ⟨he, o, s', new, hr, _, ho, hnv⟩ | ⟨he, s', hr, _⟩ | ⟨p, s', hr, hb, _⟩
      · rw [he] at hs
        simp only [Bool.false_eq_true, if_false, Option.some.injEq, Prod.mk.injEq] at hs; obtain ⟨rfl, rfl⟩ := hs
        rw [hr]; exact .inl ⟨trivial, (hrel.sys s'.sys).set rnew (Obj.vec o) _ ⟨new, ho, hnv⟩⟩
      · rw [he] at hs
        simp only [if_true, Option.some.injEq, Prod.mk.injEq] at hs; obtain ⟨rfl, rfl⟩ := hs
        rw [hr]; exact .inl ⟨trivial, hrel.sys s'.sys⟩
      · rw [hr]; exact .inr ⟨p, rfl, hb, a, hrel.sys s'.sys⟩
  case deserialize_in_place r hint sc =>
    unfold step; simp only [astep] at hs
    refine onVecA_val X w a a' r _ hrel _ ao hs ?_
    intro vs vs' ao' hg
    cases he : (seqScan sc).2 with
    | true => rw [he] at hg; simp at hg
    | false =>
      rw [he] at hg
      simp only [Bool.false_eq_true, if_false, Option.some.injEq, Prod.mk.injEq] at hg; obtain ⟨rfl, rfl⟩ := hg
      intro s es habs hv
      rcases C19_deserialize_in_place_partial X hq hint sc s es habs with
        ⟨_, s', new, hr, ha, hnv⟩ | ⟨he', _⟩ | ⟨p, s', cur, hr, hb, ha⟩
      · exact .inl ⟨.ok, s', new, by simp only [VM.bind_run, hr]; rfl, ha, hnv, trivial⟩
      · rw [he] at he'; cases he'
      · exact .inr ⟨p, s', cur, by simp only [VM.bind_run, hr], hb, ha⟩
  case clone r rnew =>
    unfold step; dsimp only; simp only [astep] at hs
    cases hai : a rnew with
    | some o =>
      rw [hai] at hs; simp only [Option.some.injEq, Prod.mk.injEq] at hs; obtain ⟨rfl, rfl⟩ := hs
      have hf : w.fresh rnew = false := by
        cases hf : w.fresh rnew with
        | false => rfl
        | true => have := (hrel.fresh rnew).mp hf; rw [hai] at this; cases this
      simp only [hf, Bool.not_false, if_true]; exact .inl ⟨trivial, hrel⟩
    | none =>
      rw [hai] at hs; simp only at hs
      have hf : w.fresh rnew = true := (hrel.fresh rnew).mpr hai
      simp only [hf, Bool.not_true, Bool.false_eq_true, if_false]
      by_cases hvec : ∃ vs, a r = some (.vec vs)
      · obtain ⟨vs, har⟩ := hvec
        rw [har] at hs
        simp only [Option.some.injEq, Prod.mk.injEq] at hs; obtain ⟨rfl, rfl⟩ := hs
        obtain ⟨v, es, hg, habs, hvals⟩ := hrel.vec_of r vs har
        simp only [hg, runOn]
        rcases C12_clone_partial X hq { sys := w.sys, v := v } es habs with ⟨o, s', es', hrun, hsv, ho, hev⟩ | ⟨p, s', hrun, hb, hsv⟩
        · rw [hrun]
          exact .inl ⟨trivial, ((hrel.sys s'.sys).set r (Obj.vec s'.v) (.vec vs) ⟨es, by rw [hsv]; exact habs, hvals⟩).set rnew (Obj.vec o) (.vec vs) ⟨es', ho, by rw [hev, hvals]⟩⟩
        · rw [hrun]
          exact .inr ⟨p, rfl, hb, _, (hrel.sys s'.sys).set r (Obj.vec s'.v) (.vec vs) ⟨es, by rw [hsv]; exact habs, hvals⟩⟩
      · have hn := hrel.not_vec r (fun vs h => hvec ⟨vs, h⟩)
        have hbad : a = a' ∧ AOut.badOp = ao := by
          cases har : a r with
          | none => rw [har] at hs; simpa using hs
          | some o =>
            rw [har] at hs
            cases o with
            | vec vs => exact absurd ⟨vs, har⟩ hvec
            | _ => simpa using hs
        obtain ⟨rfl, rfl⟩ := hbad
        split
        · rename_i v heq; exact absurd heq (hn v)
        · exact .inl ⟨trivial, hrel⟩
  case split_off r at_ rnew =>
    unfold step; dsimp only; simp only [astep] at hs
    cases hai : a rnew with
    | some o =>
      rw [hai] at hs; simp only [Option.some.injEq, Prod.mk.injEq] at hs; obtain ⟨rfl, rfl⟩ := hs
      have hf : w.fresh rnew = false := by
        cases hf : w.fresh rnew with
        | false => rfl
        | true => have := (hrel.fresh rnew).mp hf; rw [hai] at this; cases this
      simp only [hf, Bool.not_false, if_true]; exact .inl ⟨trivial, hrel⟩
    | none =>
      rw [hai] at hs; simp only at hs
      have hf : w.fresh rnew = true := (hrel.fresh rnew).mpr hai
      simp only [hf, Bool.not_true, Bool.false_eq_true, if_false]
      by_cases hvec : ∃ vs, a r = some (.vec vs)
      · obtain ⟨vs, har⟩ := hvec
        rw [har] at hs
        by_cases hat : at_ ≤ vs.length
        · simp only [hat, if_true, Option.some.injEq, Prod.mk.injEq] at hs; obtain ⟨rfl, rfl⟩ := hs
          obtain ⟨v, es, hg, habs, hvals⟩ := hrel.vec_of r vs har
          have hlen : vs.length = es.length := by rw [← hvals]; simp
          simp only [hg, runOn]
          rcases C01_split_off_partial X { sys := w.sys, v := v } es at_ habs (by omega) with
            ⟨o, s', hrun, ha1, ha2⟩ | ⟨p, s', hrun, hb, es', ha⟩
          · rw [hrun]
            exact .inl ⟨trivial, ((hrel.sys s'.sys).set r (Obj.vec s'.v) (.vec (vs.take at_)) ⟨_, ha1, by rw [List.map_take, hvals]⟩).set
              rnew (Obj.vec o) (.vec (vs.drop at_)) ⟨_, ha2, by rw [List.map_drop, hvals]⟩⟩
          · rw [hrun]
            exact .inr ⟨p, rfl, hb, _, (hrel.sys s'.sys).set r (Obj.vec s'.v) (.vec (es'.map (·.val))) ⟨es', ha, rfl⟩⟩
        · simp [hat] at hs
      · have hn := hrel.not_vec r (fun vs h => hvec ⟨vs, h⟩)
        have hbad : a = a' ∧ AOut.badOp = ao := by
          cases har : a r with
          | none => rw [har] at hs; simpa using hs
          | some o =>
            rw [har] at hs
            cases o with
            | vec vs => exact absurd ⟨vs, har⟩ hvec
            | _ => simpa using hs
        obtain ⟨rfl, rfl⟩ := hbad
        split
        · rename_i v heq; exact absurd heq (hn v)
        · exact .inl ⟨trivial, hrel⟩
  case append r r2 =>
    unfold step; dsimp only; simp only [astep] at hs
    by_cases hrr : (r == r2) = true
    · simp only [hrr, if_true, Option.some.injEq, Prod.mk.injEq] at hs ⊢; obtain ⟨rfl, rfl⟩ := hs
      exact .inl ⟨trivial, hrel⟩
    · simp only [hrr, Bool.false_eq_true, if_false] at hs ⊢
      by_cases hvec : ∃ vs os, a r = some (.vec vs) ∧ a r2 = some (.vec os)
      · obtain ⟨vs, os, har, har2⟩ := hvec
        rw [har, har2] at hs
        simp only [Option.some.injEq, Prod.mk.injEq] at hs; obtain ⟨rfl, rfl⟩ := hs
        obtain ⟨v, es, hg, habs, hvals⟩ := hrel.vec_of r vs har
        obtain ⟨v2, es2, hg2, habs2, hvals2⟩ := hrel.vec_of r2 os har2
        simp only [hg, hg2, VM.bind_run]
        rcases C01_append_partial X { sys := w.sys, v := v } es es2 v2 habs habs2 with
          ⟨o', s', hrun, ha1, ha2, _⟩ | ⟨p, s', hrun, hb, hsv⟩
        · rw [hrun]
          exact .inl ⟨trivial, ((hrel.sys s'.sys).set r (Obj.vec s'.v) (.vec (vs ++ os)) ⟨_, ha1, by rw [List.map_append, hvals, hvals2]⟩).set r2 (Obj.vec o') (.vec []) ⟨[], ha2, rfl⟩⟩
        · rw [hrun]
          exact .inr ⟨p, rfl, hb, _, (hrel.sys s'.sys).set r (Obj.vec s'.v) (.vec vs) ⟨es, by rw [hsv]; exact habs, hvals⟩⟩
      · have hbad : a = a' ∧ AOut.badOp = ao := by
          revert hs
          split
          · rename_i vs os h1 h2; exact absurd ⟨vs, os, h1, h2⟩ hvec
          · intro hs; simpa using hs
        obtain ⟨rfl, rfl⟩ := hbad
        split
        · rename_i v o h1 h2
          exfalso
          obtain ⟨ao1, hao1⟩ : ∃ x, a r = some x := by
            cases h : a r with
            | none => have := (hrel.1 r).mpr h; rw [h1] at this; cases this
            | some x => exact ⟨x, rfl⟩
          obtain ⟨ao2, hao2⟩ : ∃ x, a r2 = some x := by
            cases h : a r2 with
            | none => have := (hrel.1 r2).mpr h; rw [h2] at this; cases this
            | some x => exact ⟨x, rfl⟩
          have hv1 := hrel.2 r _ _ h1 hao1
          have hv2 := hrel.2 r2 _ _ h2 hao2
          cases ao1 <;> simp only [RegVal] at hv1
          cases ao2 <;> simp only [RegVal] at hv2
          exact hvec ⟨_, _, hao1, hao2⟩
        · exact .inl ⟨trivial, hrel⟩
  case spare r =>
    simp only [astep] at hs
    unfold step
    refine onVecA_val X w a a' r _ hrel _ ao hs ?_
    intro vs vs' ao' hg
    simp only [Option.some.injEq, Prod.mk.injEq] at hg
    obtain ⟨rfl, rfl⟩ := hg
    intro s es habs hv
    exact .inl ⟨Out.nums [(hsOf s.v s.sys.allocIdx).C - es.length], s, es, by simp only [VM.bind_run, (C07_spare_exact X s es habs).1]; rfl, habs, hv, trivial⟩
  case split_spare r =>
    simp only [astep] at hs
    unfold step
    refine onVecA_val X w a a' r _ hrel _ ao hs ?_
    intro vs vs' ao' hg
    simp only [Option.some.injEq, Prod.mk.injEq] at hg
    obtain ⟨rfl, rfl⟩ := hg
    intro s es habs hv
    refine .inl ⟨Out.nums [es.length, (hsOf s.v s.sys.allocIdx).C - es.length], s, es, ?_, habs, hv, ?_⟩
    · simp only [VM.bind_run, (C07_spare_exact X s es habs).2]; rfl
    · exact ⟨_, by rw [← hv, List.length_map]⟩
  case raw_part r =>
    simp only [astep] at hs
    unfold step
    refine onVecA_val X w a a' r _ hrel _ ao hs ?_
    intro vs vs' ao' hg
    simp only [Option.some.injEq, Prod.mk.injEq] at hg
    obtain ⟨rfl, rfl⟩ := hg
    intro s es habs hv
    obtain ⟨o, ho⟩ := (raw_roundtrip_run X s es habs 0 0).1
    cases o with
    | none => exact .inl ⟨Out.none, s, es, by simp only [VM.bind_run, ho]; rfl, habs, hv, trivial⟩
    | some lc => exact .inl ⟨Out.ok, s, es, by simp only [VM.bind_run, ho]; rfl, habs, hv, trivial⟩
  case raw_parts r =>
    simp only [astep] at hs
    unfold step
    refine onVecA_val X w a a' r _ hrel _ ao hs ?_
    intro vs vs' ao' hg
    simp only [Option.some.injEq, Prod.mk.injEq] at hg
    obtain ⟨rfl, rfl⟩ := hg
    intro s es habs hv
    have hL : (hsOf s.v s.sys.allocIdx).L = es.length := habs.len_eq
    have h2 : VM.lift X (len X.env) s = (.ok es.length, s) := lift_read X _ s _ (by rw [len_run, hL])
    have h3 : VM.lift X (capacity X.env) s = (.ok (hsOf s.v s.sys.allocIdx).C, s) := lift_read X _ s _ (by rw [capacity_run])
    cases hd : s.v.isDefault with
    | false =>
      have h4 := (C14_roundtrip X s es habs hd es.length (hsOf s.v s.sys.allocIdx).C).2
      refine .inl ⟨Out.nums [es.length, s.v.cap], s, es, ?_, habs, hv, ⟨_, by rw [← hv, List.length_map]⟩⟩
      simp only [VM.bind_run, h2, h3, h4]; rfl
    | true =>
      have hp : VM.lift X (as_mut_ptr X.env) s = (.ok .null, s) :=
        lift_read X _ s _ (as_mut_ptr_run_default X.env _ (by simp [hsOf, hd]))
      have h4 : Vec.raw_roundtrip X (Vec.backParts X es.length (hsOf s.v s.sys.allocIdx).C) s = (.ok none, s) := by
        unfold Vec.raw_roundtrip; simp only [VM.bind_run, hp, VM.pure_run]
      have hnil : es = [] := (habs.sentinel hd).2
      refine .inl ⟨Out.none, s, es, ?_, habs, hv, ?_⟩
      · simp only [VM.bind_run, h2, h3, h4]; rfl
      · show vs.length = 0
        rw [← hv, hnil]; rfl
  case from_str n =>
    simp only [step]
    simp only [astep, Option.some.injEq] at hs
    by_cases hn : n > 1048576
    · rw [if_pos hn] at hs
      have h1 := congrArg Prod.fst hs; have h2 := congrArg Prod.snd hs; simp only at h1 h2; subst h1; subst h2
      rw [if_pos hn]
      exact .inl ⟨trivial, hrel⟩
    · rw [if_neg hn] at hs
      have h1 := congrArg Prod.fst hs; have h2 := congrArg Prod.snd hs; simp only at h1 h2; subst h1; subst h2
      rw [if_neg hn]
      simp only [runOn]
      rcases fromStrProg_val { X with c := ⟨1, 1, false⟩ } hq (by show 0 < 1; omega) n { sys := w.sys, v := {} } rfl with
        ⟨s', hr⟩ | ⟨p, s', hr, hb⟩
      · rw [hr]; exact .inl ⟨rfl, hrel.sys _⟩
      · rw [hr]; exact .inr ⟨p, rfl, hb, a, hrel.sys _⟩
  case extend_ref pre it =>
    simp only [step]
    simp only [astep, Option.some.injEq] at hs
    by_cases hn : (pre > 4096 || it.length > 4096) = true
    · rw [if_pos hn] at hs
      have h1 := congrArg Prod.fst hs; have h2 := congrArg Prod.snd hs; simp only at h1 h2; subst h1; subst h2
      rw [if_pos hn]
      exact .inl ⟨trivial, hrel⟩
    · rw [if_neg hn] at hs
      have h1 := congrArg Prod.fst hs; have h2 := congrArg Prod.snd hs; simp only at h1 h2; subst h1; subst h2
      rw [if_neg hn]
      simp only [runOn]
      rcases extendRefProg_val { X with c := ⟨4, 4, false⟩ } hq (by show 0 < 4; omega) pre _ { sys := w.sys, v := {} } rfl with
        ⟨s', hr⟩ | ⟨p, s', hr, hb⟩
      · rw [hr]; exact .inl ⟨rfl, hrel.sys _⟩
      · rw [hr]; exact .inr ⟨p, rfl, hb, a, hrel.sys _⟩
  all_goals (simp [astep] at hs)

end steps

/-- the provided `nth` / `nth_back` on values, defined from `next` / `next_back` the way `core` defines them -/
def anthLoop (nx : Op) : Nat → AW → Option (AW × AOut)
  | 0, a => astep a nx
  | k + 1, a =>
    match astep a nx with
    | some (a', .some _) => anthLoop nx k a'
    | r => r

/-- what an iterator register still has to yield, in order -/
def AObj.remaining : AObj → Option (List Int)
  | .drain _ _ win _ => some win
  | .splice _ _ win _ _ => some win
  | .intoIter win => some win
  | .drainFilter _ p calls _ rest => some (keptVals p calls rest)
  | _ => none

/-- an upper bound of the number of steps it can still take (what `size_hint` reports) -/
def AObj.meas : AObj → Nat
  | .drain _ _ win _ => win.length
  | .splice _ _ win _ _ => win.length
  | .intoIter win => win.length
  | .drainFilter _ _ _ _ rest => rest.length
  | _ => 0

/-- the provided `count` / `last` (a `fold` over `next`, then the iterator is dropped), on values -/
def aconsume (a : AW) (it : String) (f : List Int → AOut) : Option (AW × AOut) :=
  match a it with
  | some ao =>
    (match ao.remaining with
      | some ys =>
        (match astep a (.drop it) with
          | some (a', .ok) => some (a', f ys)
          | _ => none)
      | none => some (a, .badOp))
  | none => some (a, .badOp)

theorem AW.set_set (a : AW) (r : String) (x y : AObj) : (a.set r x).set r y = a.set r y := by
  funext r'; unfold AW.set; by_cases h : r' = r <;> simp [h]

theorem AW.set_get (a : AW) (r : String) (x : AObj) : (a.set r x) r = some x := by
  unfold AW.set; simp

/-- one `next()` of a `DrainFilter` on values, against the two filters -/
theorem dfNextV_spec (p : PredTok) : ∀ (k : Nat) (rest : List Int),
    rejVals p k rest = (dfNextV p k rest).1 ++ rejVals p (dfNextV p k rest).2.2 (restOfV (dfNextV p k rest).2.1) ∧
    keptVals p k rest = (match (dfNextV p k rest).2.1 with
      | some (v, r) => v :: keptVals p (dfNextV p k rest).2.2 r
      | none => []) ∧
    (∀ v r, (dfNextV p k rest).2.1 = some (v, r) → r.length < rest.length)
  | _, [] => ⟨rfl, rfl, fun _ _ h => by simp [dfNextV] at h⟩
  | k, v :: rest => by
    obtain ⟨h1, h2, h3⟩ := dfNextV_spec p (k + 1) rest
    simp only [dfNextV, rejVals, keptVals]
    split
    · exact ⟨by simp [restOfV], rfl, fun v' r h => by simp at h; obtain ⟨_, rfl⟩ := h; simp⟩
    · refine ⟨by simp only [List.cons_append]; rw [← h1], h2, fun v' r h => ?_⟩
      have := h3 v' r h
      simp; omega

/-- after one `next()` the iterator has the tail of what it had to yield, its measure has gone down if it yielded, and
    dropping it leaves the same world as dropping it before the step would have -/
theorem anext_spec (a a1 a' : AW) (it : String) (ao1 : AOut) (o : AObj) (ys : List Int) (hai : a it = some o)
    (hrem : o.remaining = some ys) (hn : astep a (.next it) = some (a1, ao1))
    (hd : astep a (.drop it) = some (a', .ok)) :
    ao1 = optA ys.head? ∧ ∃ o1, a1 it = some o1 ∧ o1.remaining = some ys.tail ∧ astep a1 (.drop it) = some (a', .ok) ∧
      (ys ≠ [] → o1.meas < o.meas) := by
  simp only [astep, hai] at hn hd
  cases o with
  | vec vs => simp [AObj.remaining] at hrem
  | lent => simp [AObj.remaining] at hrem
  | gone => simp [AObj.remaining] at hrem
  | drain src pre win tail =>
    simp only [AObj.remaining, Option.some.injEq] at hrem; subst hrem
    simp only [Option.some.injEq, Prod.mk.injEq] at hn hd; obtain ⟨rfl, rfl⟩ := hn
    refine ⟨rfl, _, AW.set_get _ _ _, rfl, ?_, fun h => ?_⟩
    · simp only [astep, AW.set_get, AW.set_set]; rw [← hd.1]
    · cases win with
      | nil => exact absurd rfl h
      | cons x xs => simp [AObj.meas]
  | splice src pre win tail fill =>
    simp only [AObj.remaining, Option.some.injEq] at hrem; subst hrem
    simp only [Option.some.injEq, Prod.mk.injEq] at hn hd; obtain ⟨rfl, rfl⟩ := hn
    refine ⟨rfl, _, AW.set_get _ _ _, rfl, ?_, fun h => ?_⟩
    · simp only [astep, AW.set_get, AW.set_set]; rw [← hd.1]
    · cases win with
      | nil => exact absurd rfl h
      | cons x xs => simp [AObj.meas]
  | intoIter win =>
    simp only [AObj.remaining, Option.some.injEq] at hrem; subst hrem
    simp only [Option.some.injEq, Prod.mk.injEq] at hn hd; obtain ⟨rfl, rfl⟩ := hn
    refine ⟨rfl, _, AW.set_get _ _ _, rfl, ?_, fun h => ?_⟩
    · simp only [astep, AW.set_get, AW.set_set]; rw [← hd.1]
    · cases win with
      | nil => exact absurd rfl h
      | cons x xs => simp [AObj.meas]
  | drainFilter src p calls kept rest =>
    simp only [AObj.remaining, Option.some.injEq] at hrem; subst hrem
    simp only [Option.some.injEq, Prod.mk.injEq] at hn hd; obtain ⟨rfl, rfl⟩ := hn
    obtain ⟨h1, h2, h3⟩ := dfNextV_spec p calls rest
    refine ⟨?_, _, AW.set_get _ _ _, ?_, ?_, fun h => ?_⟩
    · rw [h2]; cases (dfNextV p calls rest).2.1 with
      | none => rfl
      | some q => rfl
    · simp only [AObj.remaining]
      rw [h2]; cases (dfNextV p calls rest).2.1 with
      | none => simp [restOfV, keptVals]
      | some q => simp [restOfV]
    · simp only [astep, AW.set_get, AW.set_set]
      rw [← hd.1, h1, List.append_assoc]
    · simp only [AObj.meas]
      rw [h2] at h
      cases hq2 : (dfNextV p calls rest).2.1 with
      | none => rw [hq2] at h; exact absurd rfl h
      | some q => obtain ⟨v, r⟩ := q; exact h3 v r hq2

def AW.unset (a : AW) (r : String) : AW := fun r' => if r' = r then none else a r'

theorem Rel.unset {X : Ctx} {w : World} {a : AW} (h : Rel X w a) (r : String) : Rel X (w.unset r) (a.unset r) := by
  refine ⟨fun r' => ?_, fun r' o ao hg ha => ?_⟩
  · rw [world_get_unset]; unfold AW.unset
    by_cases hr : r' = r
    · simp [hr]
    · simp only [hr, if_false]; exact h.1 r'
  · rw [world_get_unset] at hg; unfold AW.unset at ha
    by_cases hr : r' = r
    · simp [hr] at hg
    · simp only [hr, if_false] at hg ha; exact h.2 r' o ao hg ha

/-- the provided `Clone::clone_from` on an `IntoIter` (`*self = source.clone()`), mirrored on values: the clone is made
    into a temporary register, the old value dropped, the new one stored -/
def acloneFromIter (a : AW) (it src : String) : Option (AW × AOut) :=
  if it == src then some (a, .badOp) else
  match a it, a src with
  | some (.intoIter _), some (.intoIter _) =>
    (match astep a (.clone_iter src tmpReg) with
     | some (a1, .ok) =>
       (match astep a1 (.drop it) with
        | some (a2, o2) => some ((match a2 tmpReg with | some o => a2.set it o | none => a2).unset tmpReg, o2)
        | none => none)
     | some (a1, o) => some (a1.unset tmpReg, o)
     | none => none)
  | _, _ => some (a, .badOp)

/-- `astep` plus the provided methods -/
def astepAll (a : AW) : Op → Option (AW × AOut)
  | .nth it k => if k > 64 then some (a, .badOp) else anthLoop (.next it) k a
  | .nth_back it k =>
    if k > 64 then some (a, .badOp) else
    (match a it with
      | some (.drainFilter ..) => some (a, .badOp)
      | _ => anthLoop (.next_back it) k a)
  | .count it => aconsume a it (fun ys => .len ys.length)
  | .last it => aconsume a it (fun ys => optA ys.getLast?)
  | .clone_from_iter it src => acloneFromIter a it src
  | op => astep a op

section stepsAll
variable (X : Ctx) (hq : ∀ k, X.o.panicAt k = false) (hz : 0 < X.c.elemSize) (heq : ∀ k, X.o.eqScript k = none)
include hq hz heq

omit hz heq in
theorem dropIn_quiet (w : World) (e : Elem) : (dropIn X w e).2 = none := by
  unfold dropIn
  simp only [runOn, dropElem_quiet' X hq e]

theorem nthLoop_val (nx : Op) : ∀ (k : Nat) (w : World) (a a' : AW) (ao : AOut), Rel X w a →
    anthLoop nx k a = some (a', ao) → StepVal X (nthLoop X nx k w) a a' ao := by
  intro k
  induction k with
  | zero => intro w a a' ao hrel hs; exact C10_world_step_values X hq hz heq w a a' nx ao hrel hs
  | succ k ih =>
    intro w a a' ao hrel hs
    simp only [anthLoop] at hs
    cases hst : astep a nx with
    | none => rw [hst] at hs; simp at hs
    | some q =>
      obtain ⟨a1, ao1⟩ := q
      rw [hst] at hs
      have h1 := C10_world_step_values X hq hz heq w a a1 nx ao1 hrel hst
      unfold nthLoop
      rcases h1 with ⟨ho, hrel1⟩ | ⟨p, hp, hb, a'', hrel''⟩
      · cases hres : step X w nx with
        | mk w' o =>
          rw [hres] at ho hrel1
          simp only at ho hrel1
          cases o with
          | some e =>
            cases ao1 <;> simp only [OutVal] at ho
            case some v =>
              simp only at hs
              have hd := dropIn_quiet X hq w' e
              have hdw : Rel X (dropIn X w' e).1 a1 :=
                ⟨fun r => by rw [dropIn_get]; exact hrel1.1 r, fun r o ao hg ha => hrel1.2 r o ao (by rw [← dropIn_get X w' e r]; exact hg) ha⟩
              cases hdr : dropIn X w' e with
              | mk w'' po =>
                rw [hdr] at hd hdw
                simp only at hd hdw
                subst hd
                simp only [hdr]
                exact ih w'' a1 a' ao hdw hs
          | _ =>
            cases ao1 <;> simp only [OutVal] at ho <;>
            (simp only at hs; simp only [Option.some.injEq, Prod.mk.injEq] at hs; obtain ⟨rfl, rfl⟩ := hs;
             exact .inl ⟨ho, hrel1⟩)
      · cases hres : step X w nx with
        | mk w' o =>
          rw [hres] at hp hrel''
          simp only at hp hrel''
          subst hp
          exact .inr ⟨p, rfl, hb, a'', hrel''⟩

omit hq hz heq in
theorem anext_exists (a : AW) (it : String) (o : AObj) (ys : List Int) (hai : a it = some o)
    (hrem : o.remaining = some ys) :
    (∃ a1 ao1, astep a (.next it) = some (a1, ao1)) ∧ (∃ lo, astep a (.size_hint it) = some (a, .hint lo o.meas)) := by
  cases o <;> simp [astep, hai, AObj.remaining, AObj.meas] at hrem ⊢

/-- the provided `count`, with the values: with fuel above what the iterator can still yield it returns the number of
    elements the iterator had left, and the world is the one dropping the iterator leaves -/
theorem countLoop_val (it : String) : ∀ (fuel acc : Nat) (w : World) (a a' : AW) (o : AObj) (ys : List Int),
    Rel X w a → a it = some o → o.remaining = some ys → o.meas < fuel → astep a (.drop it) = some (a', .ok) →
    StepVal X (countLoop X it fuel acc w) a a' (.len (acc + ys.length)) := by
  intro fuel
  induction fuel with
  | zero => intro acc w a a' o ys _ _ _ hm; omega
  | succ fuel ih =>
    intro acc w a a' o ys hrel hai hrem hm hd
    obtain ⟨⟨a1, ao1, hn⟩, _⟩ := anext_exists a it o ys hai hrem
    obtain ⟨ho, hrel1⟩ := next_val_ok X hq hz w a a1 it ao1 hrel hn
    obtain ⟨hao, o1, hai1, hrem1, hd1, hmeas⟩ := anext_spec a a1 a' it ao1 o ys hai hrem hn hd
    unfold countLoop
    cases hres : step X w (.next it) with
    | mk w' out =>
      rw [hres] at ho hrel1
      simp only at ho hrel1
      cases ys with
      | nil =>
        simp only [List.head?_nil, optA] at hao
        subst hao
        cases out <;> simp only [OutVal] at ho
        simp only
        rcases C10_world_step_values X hq hz heq w' a1 a' (.drop it) .ok hrel1 hd1 with ⟨ho2, hrel2⟩ | ⟨p, hp, hb, a'', hrel''⟩
        · cases hres2 : step X w' (.drop it) with
          | mk w2 out2 =>
            rw [hres2] at ho2 hrel2
            simp only at ho2 hrel2
            cases out2 <;> simp only [OutVal] at ho2
            exact .inl ⟨by simp [OutVal], hrel2⟩
        · cases hres2 : step X w' (.drop it) with
          | mk w2 out2 =>
            rw [hres2] at hp hrel''
            simp only at hp hrel''
            subst hp
            exact .inr ⟨p, rfl, hb, a'', hrel''⟩
      | cons v ys' =>
        simp only [List.head?_cons, optA] at hao
        subst hao
        cases out <;> simp only [OutVal] at ho
        case some e =>
          simp only
          have hdq := dropIn_quiet X hq w' e
          have hdw : Rel X (dropIn X w' e).1 a1 :=
            ⟨fun r => by rw [dropIn_get]; exact hrel1.1 r, fun r o ao hg ha => hrel1.2 r o ao (by rw [← dropIn_get X w' e r]; exact hg) ha⟩
          cases hdr : dropIn X w' e with
          | mk w'' po =>
            rw [hdr] at hdq hdw
            simp only at hdq hdw
            subst hdq
            simp only
            have hm1 : o1.meas < fuel := by have := hmeas (by simp); omega
            have := ih (acc + 1) w'' a1 a' o1 ys' hdw hai1 (by simpa using hrem1) hm1 hd1
            have harith : acc + 1 + ys'.length = acc + (v :: ys').length := by simp; omega
            rw [harith] at this
            exact this

/-- the provided `last`, with the values -/
theorem lastLoop_val (it : String) : ∀ (fuel : Nat) (prev : Option Elem) (w : World) (a a' : AW) (o : AObj) (ys : List Int),
    Rel X w a → a it = some o → o.remaining = some ys → o.meas < fuel → astep a (.drop it) = some (a', .ok) →
    StepVal X (lastLoop X it fuel prev w) a a'
      (optA (match ys.getLast? with | some v => some v | none => prev.map (·.val))) := by
  intro fuel
  induction fuel with
  | zero => intro prev w a a' o ys _ _ _ hm; omega
  | succ fuel ih =>
    intro prev w a a' o ys hrel hai hrem hm hd
    obtain ⟨⟨a1, ao1, hn⟩, _⟩ := anext_exists a it o ys hai hrem
    obtain ⟨ho, hrel1⟩ := next_val_ok X hq hz w a a1 it ao1 hrel hn
    obtain ⟨hao, o1, hai1, hrem1, hd1, hmeas⟩ := anext_spec a a1 a' it ao1 o ys hai hrem hn hd
    unfold lastLoop
    cases hres : step X w (.next it) with
    | mk w' out =>
      rw [hres] at ho hrel1
      simp only at ho hrel1
      cases ys with
      | nil =>
        simp only [List.head?_nil, optA] at hao
        subst hao
        cases out <;> simp only [OutVal] at ho
        simp only [List.getLast?_nil]
        rcases C10_world_step_values X hq hz heq w' a1 a' (.drop it) .ok hrel1 hd1 with ⟨ho2, hrel2⟩ | ⟨p, hp, hb, a'', hrel''⟩
        · cases hres2 : step X w' (.drop it) with
          | mk w2 out2 =>
            rw [hres2] at ho2 hrel2
            simp only at ho2 hrel2
            cases out2 <;> simp only [OutVal] at ho2
            exact .inl ⟨optOut_val prev, hrel2⟩
        · cases hres2 : step X w' (.drop it) with
          | mk w2 out2 =>
            rw [hres2] at hp hrel''
            simp only at hp hrel''
            subst hp
            exact .inr ⟨p, rfl, hb, a'', hrel''⟩
      | cons v ys' =>
        simp only [List.head?_cons, optA] at hao
        subst hao
        cases out <;> simp only [OutVal] at ho
        case some e =>
          have hm1 : o1.meas < fuel := by have := hmeas (by simp); omega
          have hval : (match (v :: ys').getLast? with | some x => some x | none => Option.map (fun x : Elem => x.val) prev) =
              (match ys'.getLast? with | some x => some x | none => Option.map (fun x : Elem => x.val) (some e)) := by
            cases ys' with
            | nil => simp [ho]
            | cons y t =>
              rw [List.getLast?_cons_cons]
              cases h : (y :: t).getLast? with
              | none => simp at h
              | some z => rfl
          rw [hval]
          simp only
          cases prev with
          | none =>
            simp only
            exact ih (some e) w' a1 a' o1 ys' hrel1 hai1 (by simpa using hrem1) hm1 hd1
          | some pv =>
            simp only
            have hdq := dropIn_quiet X hq w' pv
            have hdw : Rel X (dropIn X w' pv).1 a1 :=
              ⟨fun r => by rw [dropIn_get]; exact hrel1.1 r, fun r o ao hg ha => hrel1.2 r o ao (by rw [← dropIn_get X w' pv r]; exact hg) ha⟩
            cases hdr : dropIn X w' pv with
            | mk w'' po =>
              rw [hdr] at hdq hdw
              simp only at hdq hdw
              subst hdq
              simp only
              exact ih (some e) w'' a1 a' o1 ys' hdw hai1 (by simpa using hrem1) hm1 hd1

omit heq in
/-- `count` / `last` as the driver runs them -/
theorem consume_val (w : World) (a a' : AW) (it : String) (ao : AOut) (f : List Int → AOut) (hrel : Rel X w a)
    (loop : Nat → World × Out)
    (hloop : ∀ fuel a' o ys, a it = some o → o.remaining = some ys → o.meas < fuel → astep a (.drop it) = some (a', .ok) →
      StepVal X (loop fuel) a a' (f ys))
    (hs : aconsume a it f = some (a', ao)) :
    StepVal X (match step X w (.size_hint it) with
      | (_, .hint _ (some hi)) => loop (hi + 2)
      | _ => (w, .badOp)) a a' ao := by
  unfold aconsume at hs
  cases hai : a it with
  | none =>
    rw [hai] at hs; simp only [Option.some.injEq, Prod.mk.injEq] at hs; obtain ⟨rfl, rfl⟩ := hs
    have : step X w (.size_hint it) = (w, .badOp) := by unfold step; simp only [(hrel.1 it).mpr hai]
    rw [this]; exact .inl ⟨trivial, hrel⟩
  | some o =>
    rw [hai] at hs
    simp only at hs
    cases hrem : o.remaining with
    | none =>
      rw [hrem] at hs; simp only [Option.some.injEq, Prod.mk.injEq] at hs; obtain ⟨rfl, rfl⟩ := hs
      have : step X w (.size_hint it) = (w, .badOp) := by
        cases o <;> simp [AObj.remaining] at hrem
        · obtain ⟨v, es, hg, _⟩ := hrel.vec_of it _ hai; unfold step; simp only [hg]
        · unfold step; simp only [hrel.lent_of it hai]
        · unfold step; simp only [hrel.gone_of it hai]
      rw [this]; exact .inl ⟨trivial, hrel⟩
    | some ys =>
      rw [hrem] at hs
      simp only at hs
      obtain ⟨_, lo, hsh⟩ := anext_exists a it o ys hai hrem
      obtain ⟨hoh, _⟩ := size_hint_val_ok X hq hz w a a it _ hrel hsh
      cases hd : astep a (.drop it) with
      | none => rw [hd] at hs; simp at hs
      | some q =>
        obtain ⟨a2, ao2⟩ := q
        rw [hd] at hs
        cases ao2 <;> simp only [Option.some.injEq, Prod.mk.injEq, reduceCtorEq] at hs
        obtain ⟨rfl, rfl⟩ := hs
        cases hres : step X w (.size_hint it) with
        | mk w0 out0 =>
          rw [hres] at hoh
          simp only at hoh
          cases out0 <;> simp only [OutVal] at hoh
          case hint lo' hi' =>
            obtain ⟨_, rfl⟩ := hoh
            simp only
            exact hloop (o.meas + 2) a2 o ys hai hrem (by omega) hd

omit hq heq in
/-- `with_alignment`, which `astepAll` does not answer for (whether the alignment is accepted depends on the element
    type's alignment, which the value world does not carry): the new register holds the empty vector; or the alignment is
    reported as unacceptable and no register changes; or the allocator refused; a register that is taken is `badOp` -/
theorem C10_world_with_alignment_values (w : World) (a : AW) (r : String) (n al : Nat) (hrel : Rel X w a) :
    ((step X w (.with_alignment r n al)).2 = .badOp ∧ a r ≠ none ∧ Rel X (step X w (.with_alignment r n al)).1 a) ∨
    (a r = none ∧
      (((step X w (.with_alignment r n al)).2 = .ok ∧ Rel X (step X w (.with_alignment r n al)).1 (a.set r (.vec []))) ∨
       (∃ e, (step X w (.with_alignment r n al)).2 = .errName e ∧ Rel X (step X w (.with_alignment r n al)).1 a) ∨
       (∃ p, (step X w (.with_alignment r n al)).2 = .stopped p ∧ Panic.benign p = true ∧
          Rel X (step X w (.with_alignment r n al)).1 a))) := by
  simp only [step]
  cases har : a r with
  | some ao =>
    have hf : w.fresh r = false := by
      cases hf : w.fresh r with
      | false => rfl
      | true => have := (hrel.fresh r).mp hf; rw [har] at this; cases this
    simp only [hf, Bool.not_false, if_true]
    exact .inl ⟨by first | rfl | trivial, by simp, hrel⟩
  | none =>
    have hf : w.fresh r = true := (hrel.fresh r).mpr har
    simp only [hf, Bool.not_true, Bool.false_eq_true, if_false, runOn]
    right; refine ⟨by first | rfl | trivial, ?_⟩
    rcases with_alignment_mem X hz { sys := w.sys, v := {} } rfl n al with ⟨e, hr⟩ | hc
    · rw [hr]; simp only; right; left; exact ⟨_, by first | rfl | trivial, hrel.sys _⟩
    · generalize VM.lift X (Gen.with_alignment X.env n al) { sys := w.sys, v := {} } = out at hc
      cases hc with
      | same => left; exact ⟨by first | rfl | trivial, (hrel.sys _).set r _ _ ⟨[], Abs.sentinel_abs X hz, rfl⟩⟩
      | stopped p s' _ hp _ => right; right; exact ⟨p, by first | rfl | trivial, hp, hrel.sys _⟩
      | grown s' ha _ _ _ _ => left; exact ⟨by first | rfl | trivial, (hrel.sys _).set r _ _ ⟨[], ha, rfl⟩⟩

omit hq hz heq in
/-- cloning an `IntoIter` answers `ok` or `badOp`, nothing else -/
theorem clone_iter_out (a a1 : AW) (src t : String) (o1 : AOut) (h : astep a (.clone_iter src t) = some (a1, o1)) :
    o1 = .ok ∨ o1 = .badOp := by
  simp only [astep] at h
  split at h
  · simp only [Option.some.injEq, Prod.mk.injEq] at h; exact .inr h.2.symm
  · split at h
    · simp only [Option.some.injEq, Prod.mk.injEq] at h; exact .inl h.2.symm
    · simp only [Option.some.injEq, Prod.mk.injEq] at h; exact .inr h.2.symm

/-- `clone_from` between two `IntoIter`s, with the values -/
theorem cloneFromIter_val (w : World) (a a' : AW) (it src : String) (ao : AOut) (hrel : Rel X w a)
    (hs : acloneFromIter a it src = some (a', ao)) : StepVal X (cloneFromIter X w it src) a a' ao := by
  unfold acloneFromIter at hs
  unfold cloneFromIter
  by_cases hrr : (it == src) = true
  · simp only [hrr, if_true, Option.some.injEq, Prod.mk.injEq] at hs ⊢; obtain ⟨rfl, rfl⟩ := hs
    exact .inl ⟨trivial, hrel⟩
  · simp only [hrr, Bool.false_eq_true, if_false] at hs ⊢
    by_cases hboth : ∃ x y, a it = some (.intoIter x) ∧ a src = some (.intoIter y)
    · obtain ⟨x, y, hai, has⟩ := hboth
      obtain ⟨v1, i1, hg1, _⟩ := hrel.into_of it x hai
      obtain ⟨v2, i2, hg2, _⟩ := hrel.into_of src y has
      rw [hai, has] at hs
      simp only [hg1, hg2] at hs ⊢
      cases hc : astep a (.clone_iter src tmpReg) with
      | none => rw [hc] at hs; simp at hs
      | some q =>
        obtain ⟨a1, o1⟩ := q
        rw [hc] at hs
        have h1 := C10_world_step_values X hq hz heq w a a1 (.clone_iter src tmpReg) o1 hrel hc
        cases hres1 : step X w (.clone_iter src tmpReg) with
        | mk w1 out1 =>
          rw [hres1] at h1
          rcases h1 with ⟨ho1, hrel1⟩ | ⟨p, hp, hb, a'', hrel''⟩
          · simp only at ho1 hrel1
            -- the clone was made (or the step answered badOp): follow the specification's own case split
            cases o1 with
            | ok =>
              cases out1 <;> simp only [OutVal] at ho1
              simp only at hs ⊢
              cases hd : astep a1 (.drop it) with
              | none => rw [hd] at hs; simp at hs
              | some q2 =>
                obtain ⟨a2, o2⟩ := q2
                rw [hd] at hs
                simp only [Option.some.injEq, Prod.mk.injEq] at hs; obtain ⟨rfl, rfl⟩ := hs
                have h2 := C10_world_step_values X hq hz heq w1 a1 a2 (.drop it) o2 hrel1 hd
                cases hres2 : step X w1 (.drop it) with
                | mk w2 out2 =>
                  rw [hres2] at h2
                  simp only
                  have key : ∀ b : AW, Rel X w2 b →
                      Rel X ((match w2.get tmpReg with | some o => w2.set it o | none => w2).unset tmpReg)
                        ((match b tmpReg with | some o => b.set it o | none => b).unset tmpReg) := by
                    intro b hb
                    cases hgt : w2.get tmpReg with
                    | none =>
                      have : b tmpReg = none := (hb.1 tmpReg).mp hgt
                      simp only [this]; exact hb.unset tmpReg
                    | some o =>
                      cases hbt : b tmpReg with
                      | none => have := (hb.1 tmpReg).mpr hbt; rw [hgt] at this; cases this
                      | some bo => simp only; exact (hb.set it o bo (hb.2 tmpReg o bo hgt hbt)).unset tmpReg
                  rcases h2 with ⟨ho2, hrel2⟩ | ⟨p, hp, hb, a'', hrel''⟩
                  · exact .inl ⟨ho2, key a2 hrel2⟩
                  · simp only at hp hrel''
                    subst hp
                    exact .inr ⟨p, rfl, hb, _, key a'' hrel''⟩
            | badOp =>
              simp only [Option.some.injEq, Prod.mk.injEq] at hs; obtain ⟨rfl, rfl⟩ := hs
              cases out1 <;> simp only [OutVal] at ho1 <;> exact .inl ⟨ho1, hrel1.unset tmpReg⟩
            | _ => rcases clone_iter_out a a1 src tmpReg _ hc with h | h <;> cases h
          · simp only at hp hrel''
            subst hp
            exact .inr ⟨p, rfl, hb, _, hrel''.unset tmpReg⟩
    · have hbad : a = a' ∧ AOut.badOp = ao := by
        revert hs
        split
        · rename_i x y h1 h2; exact absurd ⟨x, y, h1, h2⟩ hboth
        · intro hs; simpa using hs
      obtain ⟨rfl, rfl⟩ := hbad
      split
      · rename_i v1 i1 v2 i2 h1 h2
        exfalso
        obtain ⟨ao1, hao1⟩ : ∃ x, a it = some x := by
          cases h : a it with
          | none => have := (hrel.1 it).mpr h; rw [h1] at this; cases this
          | some x => exact ⟨x, rfl⟩
        obtain ⟨ao2, hao2⟩ : ∃ x, a src = some x := by
          cases h : a src with
          | none => have := (hrel.1 src).mpr h; rw [h2] at this; cases this
          | some x => exact ⟨x, rfl⟩
        have hv1 := hrel.2 it _ _ h1 hao1
        have hv2 := hrel.2 src _ _ h2 hao2
        cases ao1 <;> simp only [RegVal] at hv1
        cases ao2 <;> simp only [RegVal] at hv2
        exact hboth ⟨_, _, hao1, hao2⟩
      · exact .inl ⟨trivial, hrel⟩

/-- **one step of what the driver runs (`stepAll`), with the values** -/
theorem C10_world_stepAll_values (w : World) (a a' : AW) (op : Op) (ao : AOut) (hrel : Rel X w a)
    (hs : astepAll a op = some (a', ao)) : StepVal X (stepAll X w op) a a' ao := by
  cases op
  case nth it k =>
    simp only [astepAll] at hs
    simp only [stepAll]
    by_cases hk : k > 64
    · simp only [hk, if_true, Option.some.injEq, Prod.mk.injEq] at hs ⊢; obtain ⟨rfl, rfl⟩ := hs
      exact .inl ⟨trivial, hrel⟩
    · simp only [hk, if_false] at hs ⊢
      exact nthLoop_val X hq hz heq (.next it) k w a a' ao hrel hs
  case nth_back it k =>
    simp only [astepAll] at hs
    simp only [stepAll]
    by_cases hk : k > 64
    · simp only [hk, if_true, Option.some.injEq, Prod.mk.injEq] at hs ⊢; obtain ⟨rfl, rfl⟩ := hs
      exact .inl ⟨trivial, hrel⟩
    · simp only [hk, if_false] at hs ⊢
      by_cases hdf : ∃ src p calls kept rest, a it = some (.drainFilter src p calls kept rest)
      · obtain ⟨src, p, calls, kept, rest, hai⟩ := hdf
        rw [hai] at hs
        simp only [Option.some.injEq, Prod.mk.injEq] at hs; obtain ⟨rfl, rfl⟩ := hs
        obtain ⟨v, f, hg, _⟩ := hrel.df_of it src p calls kept rest hai
        simp only [hg]
        exact .inl ⟨trivial, hrel⟩
      · have hs' : anthLoop (.next_back it) k a = some (a', ao) := by
          revert hs
          split
          · rename_i src p calls kept rest hai; exact absurd ⟨src, p, calls, kept, rest, hai⟩ hdf
          · exact id
        split
        · rename_i src v f heq
          exfalso
          cases hai : a it with
          | none => have := (hrel.1 it).mpr hai; rw [heq] at this; cases this
          | some ao1 =>
            have hv := hrel.2 it _ _ heq hai
            cases ao1 <;> simp only [RegVal] at hv
            exact hdf ⟨_, _, _, _, _, hai⟩
        · exact nthLoop_val X hq hz heq (.next_back it) k w a a' ao hrel hs'
  case count it =>
    simp only [astepAll] at hs
    simp only [stepAll]
    exact consume_val X hq hz w a a' it ao _ hrel (fun fuel => countLoop X it fuel 0 w)
      (fun fuel a2 o ys hai hrem hm hd => by
        have := countLoop_val X hq hz heq it fuel 0 w a a2 o ys hrel hai hrem hm hd
        simpa using this) hs
  case last it =>
    simp only [astepAll] at hs
    simp only [stepAll]
    exact consume_val X hq hz w a a' it ao _ hrel (fun fuel => lastLoop X it fuel none w)
      (fun fuel a2 o ys hai hrem hm hd => by
        have := lastLoop_val X hq hz heq it fuel none w a a2 o ys hrel hai hrem hm hd
        cases hgl : ys.getLast? <;> simpa [hgl] using this) hs
  case clone_from_iter it src =>
    simp only [astepAll] at hs
    simp only [stepAll]
    exact cloneFromIter_val X hq hz heq w a a' it src ao hrel hs
  all_goals exact C10_world_step_values X hq hz heq w a a' _ ao hrel hs

end stepsAll

def isStopped : Out → Bool
  | .stopped _ => true
  | _ => false

/-- the model: run the operations; a stop (the allocator refused, a capacity computation overflowed) ends the run -/
def runW (X : Ctx) : List Op → World → World × List Out
  | [], w => (w, [])
  | op :: rest, w =>
    let res := stepAll X w op
    if isStopped res.2 then (res.1, [res.2])
    else
      let r2 := runW X rest res.1
      (r2.1, res.2 :: r2.2)

/-- the specification: `none` as soon as one operation is not covered -/
def runA : List Op → AW → Option (AW × List AOut)
  | [], a => some (a, [])
  | op :: rest, a =>
    match astepAll a op with
    | none => none
    | some (a', ao) => (runA rest a').map (fun q => (q.1, ao :: q.2))

/-- the outputs of a run agree with the specified ones, up to a sanctioned stop -/
inductive Agree : List Out → List AOut → Prop
  | nil : Agree [] []
  | stop (p : Panic) (aos : List AOut) : Panic.benign p = true → aos ≠ [] → Agree [.stopped p] aos
  | cons (o : Out) (ao : AOut) (os : List Out) (aos : List AOut) : OutVal o ao → Agree os aos → Agree (o :: os) (ao :: aos)

theorem OutVal.not_stopped {o : Out} {ao : AOut} (h : OutVal o ao) : isStopped o = false := by
  cases o <;> cases ao <;> simp [OutVal, isStopped] at h ⊢

section hist
variable (X : Ctx) (hq : ∀ k, X.o.panicAt k = false) (hz : 0 < X.c.elemSize) (heq : ∀ k, X.o.eqScript k = none)
include hq hz heq

/-- **(C10 / C01 / C03) every history of covered operations on the register machine, with the values**: any number of
    vectors, `Drain`s and `IntoIter`s, iterators stepped / dropped / forgotten between operations on other registers,
    any allocator oracle: every output is the one the list specification gives (until a sanctioned stop, if the
    allocator refuses), and without a stop the final worlds are related — every vector register exposes exactly the
    specified values, every live iterator has exactly the specified values left -/
theorem C10_world_values_partial (ops : List Op) (w : World) (a a' : AW) (aos : List AOut) (hrel : Rel X w a)
    (hs : runA ops a = some (a', aos)) :
    Agree (runW X ops w).2 aos ∧ ((∀ o ∈ (runW X ops w).2, isStopped o = false) → Rel X (runW X ops w).1 a') := by
  induction ops generalizing w a aos with
  | nil =>
    simp only [runA, Option.some.injEq, Prod.mk.injEq] at hs; obtain ⟨rfl, rfl⟩ := hs
    exact ⟨.nil, fun _ => hrel⟩
  | cons op rest ih =>
    simp only [runA] at hs
    cases hst : astepAll a op with
    | none => rw [hst] at hs; simp at hs
    | some q =>
      obtain ⟨a1, ao⟩ := q
      rw [hst] at hs
      simp only at hs
      cases hra : runA rest a1 with
      | none => rw [hra] at hs; simp at hs
      | some q2 =>
        obtain ⟨a2, aos2⟩ := q2
        rw [hra] at hs
        simp only [Option.map_some, Option.some.injEq, Prod.mk.injEq] at hs; obtain ⟨rfl, rfl⟩ := hs
        simp only [runW]
        rcases C10_world_stepAll_values X hq hz heq w a a1 op ao hrel hst with ⟨ho, hrel1⟩ | ⟨p, hp, hb, _⟩
        · have hns := ho.not_stopped
          simp only [hns, Bool.false_eq_true, if_false]
          obtain ⟨ih1, ih2⟩ := ih (stepAll X w op).1 a1 aos2 hrel1 hra
          refine ⟨.cons _ _ _ _ ho ih1, fun hall => ih2 (fun o ho' => hall o (by simp [ho']))⟩
        · simp only [hp, isStopped, if_true]
          refine ⟨.stop p _ hb (by simp), fun hall => ?_⟩
          have := hall (.stopped p) (by simp)
          simp [isStopped] at this

end hist

/-- non-vacuity: the empty machine is related to the empty abstract world, and a history that interleaves two vectors,
    a `Drain` and an `IntoIter` is covered by the specification -/
example (X : Ctx) : Rel X { sys := {}, regs := [] } (fun _ => none) :=
  ⟨fun r => by simp [World.get], fun r o ao hg => by simp [World.get] at hg⟩

example : (runA [.new "a", .push "a" 1, .push "a" 2, .push "a" 3, .new "b", .drain "a" (.included 1) .unbounded "d",
    .push "b" 9, .next_back "d", .into_iter "b" "i", .next "i", .len "d", .drop "d", .pop "a", .next "i",
    .macro_list "c" [4, 5, 6, 7], .clone "c" "c2", .split_off "c" 1 "c3", .append "a" "c3", .retain "a" (.mod 2 1),
    .extend "c2" [some 8, none, some 9], .resize "c2" 7 0, .into_iter "c2" "j", .next_back "j", .size_hint "j", .forget "j",
    .into_iter "a" "k", .next "k", .next "k", .next "k"] (fun _ => none)).map (·.2) =
    some [.ok, .ok, .ok, .ok, .ok, .ok, .ok, .some 3, .ok, .some 9, .len 1, .ok, .some 1, .none,
      .ok, .ok, .ok, .ok, .ok, .ok, .ok, .ok, .some 0, .hint 6 6, .ok, .ok, .some 5, .some 7, .none] := by
  decide +kernel

/-- a `DrainFilter` stepped between operations on another register, then dropped half way: the elements it has not
    seen are filtered by the drop; and one that is forgotten leaves its source EMPTY (leak amplification) -/
example : (runA [.macro_list "a" [1, 2, 3, 4, 5, 6, 7], .drain_filter "a" (.mod 3 0) "f", .new "b", .next "f", .push "b" 1,
    .size_hint "f", .drop "f", .into_iter "a" "i", .next "i", .next "i", .next "i", .next "i", .next "i", .next "i",
    .macro_list "c" [1, 2, 3], .drain_filter "c" (.mod 2 1) "g", .next "g", .forget "g", .pop "c"] (fun _ => none)).map (·.2) =
    some [.ok, .ok, .ok, .some 3, .ok, .hint 0 4, .ok, .ok, .some 1, .some 2, .some 4, .some 5, .some 7, .none,
      .ok, .ok, .some 1, .ok, .none] := by
  decide +kernel

/-- a `Splice` stepped from both ends while another vector is built, then dropped: the rest of the range is removed and
    the replacement (what the iterator yields before its first `None`) is inserted -/
example : (runA [.macro_list "a" [1, 2, 3, 4, 5, 6], .splice "a" (.included 1) (.excluded 5) [some 10, some 11, none, some 12] "s",
    .new "b", .next "s", .push "b" 1, .next_back "s", .len "s", .drop "s", .into_iter "a" "i",
    .next "i", .next "i", .next "i", .next "i", .next "i"] (fun _ => none)).map (·.2) =
    some [.ok, .ok, .ok, .some 2, .ok, .some 5, .len 2, .ok, .ok, .some 1, .some 10, .some 11, .some 6, .none] := by
  decide +kernel

/-- serde, `clone_from`, `nth`, cloning an `IntoIter`, `leak` -/
example : (runA [.deserialize "a" (some 1000000) [.val 1, .val 2, .val 3, .val 4, .val 5, .none, .val 9], .macro_list "b" [7, 7],
    .clone_from "b" "a", .deserialize_in_place "a" none [.val 6, .val 7], .serialize "a", .into_iter "b" "i", .nth "i" 1,
    .clone_iter "i" "j", .as_slice "j", .nth_back "j" 1, .next "j", .next "j", .leak "a",
    .deserialize "e" none [.val 1, .err]] (fun _ => none)).map (·.2) =
    some [.ok, .ok, .ok, .ok, .vals [6, 7], .ok, .some 2, .ok, .vals [3, 4, 5], .some 4, .some 3, .none, .vals [6, 7], .err] := by
  decide +kernel

/-- `count` / `last` on iterators that have been stepped, with other registers in between -/
example : (runA [.macro_list "a" [1, 2, 3, 4, 5, 6, 7, 8], .drain "a" (.included 2) (.excluded 7) "d", .next "d", .new "b",
    .count "d", .pop "a", .drain_filter "a" (.mod 2 1) "f", .last "f", .serialize "a", .into_iter "a" "i", .next_back "i",
    .last "i", .count "b"] (fun _ => none)).map (·.2) =
    some [.ok, .ok, .some 3, .ok, .len 4, .some 8, .ok, .some 1, .vals [2], .ok, .some 2, .none, .badOp] := by
  decide +kernel

/-- `dedup_by` compares with the last KEPT element; `dedup_by_key` calls the key function twice per comparison -/
example : (runA [.macro_list "a" [10, 11, 20, 12, 13, 30], .dedup_by "a" (.mod 2 0), .serialize "a",
    .macro_list "b" [1, 3, 5, 2, 4, 7], .dedup_by_key "b" (.kmod 2), .serialize "b"] (fun _ => none)).map (·.2) =
    some [.ok, .ok, .vals [10, 11, 20, 13, 30], .ok, .ok, .vals [1, 2, 7]] := by
  decide +kernel

example : (runA [.macro_list "a" [1, 1, 2, 2, 1, 3, 3], .dedup "a", .serialize "a", .remove_item "a" 1, .remove_item "a" 9,
    .serialize "a"] (fun _ => none)).map (·.2) =
    some [.ok, .ok, .vals [1, 2, 1, 3], .some 1, .none, .vals [2, 1, 3]] := by
  decide +kernel

/-- comparisons are those of the exposed value sequences, whatever the storage history -/
example : (runA [.macro_list "a" [1, 2, 3], .with_capacity "b" 9, .push "b" 1, .push "b" 2, .compare "a" "b", .push "b" 3,
    .compare "a" "b", .push "b" 0, .compare "b" "a", .compare "a" "x"] (fun _ => none)).map (·.2) =
    some [.ok, .ok, .ok, .ok, .cmp false .gt, .ok, .cmp true .eq, .ok, .cmp false .gt, .badOp] := by
  decide +kernel

/-- `clone_from` between two partly consumed `IntoIter`s -/
example : (runA [.macro_list "a" [1, 2, 3], .macro_list "b" [7, 8, 9, 10], .into_iter "a" "i", .into_iter "b" "j", .next "i", .next_back "j",
    .clone_from_iter "i" "j", .as_slice "i", .next "j", .as_slice "j", .as_slice "i", .clone_from_iter "i" "i"] (fun _ => none)).map (·.2) =
    some [.ok, .ok, .ok, .ok, .some 1, .some 10, .ok, .vals [7, 8, 9], .some 7, .vals [8, 9], .vals [7, 8, 9], .badOp] := by
  decide +kernel

/-- `From<&str>` reports the string's length, `Extend<&T>` the pushes made before the source's first `None`; neither touches a register -/
example : (runA [.macro_list "a" [1, 2], .from_str 0, .from_str 5, .extend_ref 2 [some 7, some 8, none, some 9], .from_str 2000000, .serialize "a"]
    (fun _ => none)).map (·.2) = some [.ok, .len 0, .len 5, .len 4, .badOp, .vals [1, 2]] := by
  decide +kernel

/-- looking at the spare capacity and the raw round trip change no value; the lengths they report are the value list's -/
example : (runA [.macro_list "a" [1, 2, 3], .spare "a", .split_spare "a", .raw_parts "a", .new "e", .raw_parts "e", .push "a" 4, .raw_parts "a",
    .raw_part "a", .serialize "a", .spare "x"] (fun _ => none)).map (·.2) =
    some [.ok, .storage, .lenCap 3, .lenCap 3, .ok, .lenCap 0, .ok, .lenCap 4, .storage, .vals [1, 2, 3, 4], .badOp] := by
  decide +kernel

end MV.Props

#print axioms MV.Props.C10_world_step_values
#print axioms MV.Props.C10_world_values_partial
#print axioms MV.Props.C10_world_stepAll_values
#print axioms MV.Props.C10_world_with_alignment_values

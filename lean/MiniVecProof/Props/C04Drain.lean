import MiniVecProof.Props.C04
import MiniVecProof.Props.C10
/-
  C04 (Drain) — the drop guard of `Drain` under an ARBITRARY destructor-panic oracle: when the
  destructor of a not-yet-yielded element panics while the `Drain` is being dropped, the guard
  destroys the remaining elements and moves the tail back before the panic continues; a second
  destructor panic during that is the double-panic abort.  Unless the process aborted, the vector
  ends up well formed exposing prefix ++ suffix and every not-yet-yielded element has had its
  destructor started exactly once.
-/
namespace MV.Props
open MV MV.Gen MV.GM VM

theorem DrainInv.of_v {X : Ctx} {v v' : VSt} {es : List Elem} {st en : Nat} {d : DrainSt}
    (h : DrainInv X v es st en d) (hv : v' = v) : DrainInv X v' es st en d := by subst hv; exact h

/-- the guard's loop under any oracle: all remaining elements destroyed, or it unwinds out of a destructor -/
theorem dropRest_any (X : Ctx) (n : Nat) :
    ∀ (fuel : Nat) (d : DrainSt) (s : St) (es : List Elem) (st en : Nat), DrainInv X s.v es st en d →
      d.stop - d.pos = n → n < fuel →
      ∃ r s', Drain.dropRest X fuel d s = (r, s') ∧ s'.v = s.v ∧
        ((r = .ok { d with pos := d.stop } ∧ ownEvents s'.sys.tr = ownEvents s.sys.tr ++ dropEvents X (window d es)) ∨
         (r = .error .explicit ∧ ∃ pre, pre <+: window d es ∧ ownEvents s'.sys.tr = ownEvents s.sys.tr ++ dropEvents X pre)) := by
  induction n with
  | zero =>
    intro fuel d s es st en h hn hf
    have hge : d.pos ≥ d.stop := by omega
    have heq : d.pos = d.stop := by have := h.mid; omega
    cases fuel with
    | zero => omega
    | succ fuel =>
      refine ⟨_, s, ?_, rfl, .inl ⟨rfl, by simp [window_empty d es hge, dropEvents]⟩⟩
      unfold Drain.dropRest
      simp only [VM.bind_run, (drain_next_none d s hge).1, VM.pure_run, drainSt_pos_eq d heq]
  | succ n ih =>
    intro fuel d s es st en h hn hf
    have hlt : d.pos < d.stop := by omega
    have hs : d.stop ≤ es.length := by have := h.hi; have := h.en_le; omega
    cases fuel with
    | zero => omega
    | succ fuel =>
      obtain ⟨hw1, hw2⟩ := window_front d es hlt hs
      have hwc : window d es = es[d.pos]'(by omega) :: window { d with pos := d.pos + 1 } es := by
        rw [← hw2]
        cases hw : window d es with
        | nil => rw [hw] at hw1; simp at hw1
        | cons a t => rw [hw] at hw1; simp at hw1; simp [hw1]
      obtain ⟨r1, s1, hd1, hv1, hr1, hev1⟩ := dropElem_any X (es[d.pos]'(by omega)) s
      unfold Drain.dropRest
      simp only [VM.bind_run, drain_next_some h hlt, hd1]
      rcases hr1 with rfl | rfl
      · have hinv' : DrainInv X s1.v es st en { d with pos := d.pos + 1 } :=
          ({ h with lo := by have := h.lo; simp; omega, mid := by simp; omega } : DrainInv X s.v es st en { d with pos := d.pos + 1 }).of_v hv1
        obtain ⟨r2, s2, hrun2, hv2, hcase⟩ := ih fuel { d with pos := d.pos + 1 } s1 es st en hinv' (by simp; omega) (by omega)
        refine ⟨r2, s2, hrun2, by rw [hv2, hv1], ?_⟩
        rcases hcase with ⟨hr2, hev2⟩ | ⟨hr2, pre, hpre, hev2⟩
        · exact .inl ⟨hr2, by rw [hev2, hev1, hwc, dropEvents_cons X _ (window _ es), List.append_assoc]⟩
        · refine .inr ⟨hr2, _ :: pre, ?_, by rw [hev2, hev1, dropEvents_cons X _ pre, List.append_assoc]⟩
          rw [hwc]; exact List.cons_prefix_cons.mpr ⟨rfl, hpre⟩
      · refine ⟨_, s1, rfl, hv1, .inr ⟨rfl, [es[d.pos]'(by omega)], ?_, hev1⟩⟩
        rw [hwc]; exact List.cons_prefix_cons.mpr ⟨rfl, List.nil_prefix⟩

theorem guard_is_moveTail (X : Ctx) (d : DrainSt) (s : St) (hp : d.pos = d.stop) :
    Drain.guardBody X d s = Drain.moveTail X d s := by
  have hge : d.pos ≥ d.stop := by omega
  have h0 : Drain.dropRest X (d.stop - d.pos + 1) d s = (.ok d, s) := by
    rw [show d.stop - d.pos + 1 = 0 + 1 by omega]
    unfold Drain.dropRest
    simp only [VM.bind_run, (drain_next_none d s hge).1, VM.pure_run]
  unfold Drain.guardBody
  simp only [VM.bind_run, h0]

/-- `DropGuard::drop` of a Drain at any point, under any oracle -/
theorem drain_guard_any (X : Ctx) (d : DrainSt) (s : St) (es : List Elem) (st en : Nat) (h : DrainInv X s.v es st en d) :
    ∃ r s', Drain.guardBody X d s = (r, s') ∧
      ((r = .ok () ∧ Abs X s'.v (es.take st ++ es.drop en) ∧
          ownEvents s'.sys.tr = ownEvents s.sys.tr ++ dropEvents X (window d es)) ∨
       (r = .error .explicit)) := by
  obtain ⟨r1, s1, hrun, hv, hcase⟩ := dropRest_any X (d.stop - d.pos) (d.stop - d.pos + 1) d s es st en h rfl (by omega)
  unfold Drain.guardBody
  simp only [VM.bind_run, hrun]
  rcases hcase with ⟨rfl, hev⟩ | ⟨rfl, _⟩
  · simp only
    have hinv' : DrainInv X s1.v es st en { d with pos := d.stop } :=
      ({ h with lo := by have := h.lo; have := h.mid; simp; omega, mid := by simp } : DrainInv X s.v es st en { d with pos := d.stop }).of_v hv
    obtain ⟨v', hg, habs, _, _⟩ := drain_guard_run X { d with pos := d.stop } s1 es st en hinv' rfl
    rw [guard_is_moveTail X _ s1 rfl] at hg
    rw [hg]
    exact ⟨_, _, rfl, .inl ⟨rfl, habs, hev⟩⟩
  · exact ⟨_, s1, rfl, .inr rfl⟩

/-- `Drop for Drain`, first loop, under any oracle -/
theorem drain_dropLoop_any (X : Ctx) (n : Nat) :
    ∀ (fuel : Nat) (d : DrainSt) (s : St) (es : List Elem) (st en : Nat), DrainInv X s.v es st en d →
      d.stop - d.pos = n → n < fuel →
      ∃ r s', Drain.dropLoop X fuel d s = (r, s') ∧
        ((r = .ok { d with pos := d.stop } ∧ s'.v = s.v ∧
            ownEvents s'.sys.tr = ownEvents s.sys.tr ++ dropEvents X (window d es)) ∨
         (r = .error .explicit ∧ Abs X s'.v (es.take st ++ es.drop en) ∧
            ownEvents s'.sys.tr = ownEvents s.sys.tr ++ dropEvents X (window d es)) ∨
         (r = .error .doublePanic)) := by
  induction n with
  | zero =>
    intro fuel d s es st en h hn hf
    have hge : d.pos ≥ d.stop := by omega
    have heq : d.pos = d.stop := by have := h.mid; omega
    cases fuel with
    | zero => omega
    | succ fuel =>
      refine ⟨_, s, ?_, .inl ⟨rfl, rfl, by simp [window_empty d es hge, dropEvents]⟩⟩
      unfold Drain.dropLoop
      simp only [VM.bind_run, (drain_next_none d s hge).1, VM.pure_run, drainSt_pos_eq d heq]
  | succ n ih =>
    intro fuel d s es st en h hn hf
    have hlt : d.pos < d.stop := by omega
    have hs : d.stop ≤ es.length := by have := h.hi; have := h.en_le; omega
    cases fuel with
    | zero => omega
    | succ fuel =>
      obtain ⟨hw1, hw2⟩ := window_front d es hlt hs
      have hwc : window d es = es[d.pos]'(by omega) :: window { d with pos := d.pos + 1 } es := by
        rw [← hw2]
        cases hw : window d es with
        | nil => rw [hw] at hw1; simp at hw1
        | cons a t => rw [hw] at hw1; simp at hw1; simp [hw1]
      obtain ⟨r1, s1, hd1, hv1, hr1, hev1⟩ := dropElem_any X (es[d.pos]'(by omega)) s
      have hinv' : DrainInv X s1.v es st en { d with pos := d.pos + 1 } :=
        ({ h with lo := by have := h.lo; simp; omega, mid := by simp; omega } : DrainInv X s.v es st en { d with pos := d.pos + 1 }).of_v hv1
      unfold Drain.dropLoop
      simp only [VM.bind_run, drain_next_some h hlt, VM.onUnwind, hd1]
      rcases hr1 with rfl | rfl
      · simp only
        obtain ⟨r2, s2, hrun2, hcase⟩ := ih fuel { d with pos := d.pos + 1 } s1 es st en hinv' (by simp; omega) (by omega)
        refine ⟨r2, s2, hrun2, ?_⟩
        rcases hcase with ⟨hr2, hv2, hev2⟩ | ⟨hr2, habs2, hev2⟩ | hr2
        · exact .inl ⟨hr2, by rw [hv2, hv1], by rw [hev2, hev1, hwc, dropEvents_cons X _ (window _ es), List.append_assoc]⟩
        · exact .inr (.inl ⟨hr2, habs2, by rw [hev2, hev1, hwc, dropEvents_cons X _ (window _ es), List.append_assoc]⟩)
        · exact .inr (.inr hr2)
      · -- the destructor panicked: the guard runs, then the panic continues
        simp only [VM.unwinds, if_true]
        obtain ⟨rg, sg, hg, hcase⟩ := drain_guard_any X { d with pos := d.pos + 1 } s1 es st en hinv'
        rw [hg]
        rcases hcase with ⟨rfl, habs, hev⟩ | rfl
        · simp only
          exact ⟨_, sg, rfl, .inr (.inl ⟨rfl, habs, by rw [hev, hev1, hwc, dropEvents_cons X _ (window _ es), List.append_assoc]⟩)⟩
        · simp only [VM.unwinds, if_true]
          exact ⟨_, sg, rfl, .inr (.inr rfl)⟩

/-- (C04, Drain) dropping a `Drain` at any point of its consumption under ANY destructor-panic oracle -/
theorem C04_drain_drop_partial (X : Ctx) (d : DrainSt) (s : St) (es : List Elem) (st en : Nat) (h : DrainInv X s.v es st en d) :
    ∃ r s', Drain.drop X d s = (r, s') ∧ DropOutcome r ∧
      (r ≠ .error .doublePanic → Abs X s'.v (es.take st ++ es.drop en) ∧
        ownEvents s'.sys.tr = ownEvents s.sys.tr ++ dropEvents X (window d es)) := by
  obtain ⟨r1, s1, hrun, hcase⟩ := drain_dropLoop_any X (d.stop - d.pos) (d.stop - d.pos + 1) d s es st en h rfl (by omega)
  unfold Drain.drop
  simp only [VM.bind_run, hrun]
  rcases hcase with ⟨rfl, hv, hev⟩ | ⟨rfl, habs, hev⟩ | rfl
  · simp only
    have hinv' : DrainInv X s1.v es st en { d with pos := d.stop } :=
      ({ h with lo := by have := h.lo; have := h.mid; simp; omega, mid := by simp } : DrainInv X s.v es st en { d with pos := d.stop }).of_v hv
    obtain ⟨v', hg, habs, _, _⟩ := drain_guard_run X { d with pos := d.stop } s1 es st en hinv' rfl
    rw [hg]
    exact ⟨_, _, rfl, .ok, fun _ => ⟨habs, hev⟩⟩
  · exact ⟨_, s1, rfl, .panicked, fun _ => ⟨habs, hev⟩⟩
  · exact ⟨_, s1, rfl, .aborted, fun hne => absurd rfl hne⟩

end MV.Props

#print axioms MV.Props.C04_drain_drop_partial

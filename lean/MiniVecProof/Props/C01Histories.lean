import MiniVecProof.Props.C01
import MiniVecProof.Props.C01Loops
import MiniVecProof.Props.C01ExtendWithin
import MiniVecProof.Props.C17
import MiniVecProof.Props.C17RemoveItem
import MiniVecProof.Props.C10
import MiniVecProof.Props.C10DrainFilter
import MiniVecProof.Props.C10Splice
/-
  C01 / C10 / C17 — histories over a larger operation alphabet.

  `C01_refines_vec_partial` covers every history over the 12 operations of `POp`, with exact results. The other
  operations have value-level theorems of their own (clones and iterator items get fresh identities, arbitrary
  callbacks leave part of the result unspecified), each of the shape "well-formed before ⇒ well-formed after, related
  by …". This file composes them: for EVERY finite history over `HOp` — the 12 operations, `extend`,
  `extend_from_slice`, `resize`, `resize_with`, `dedup` / `dedup_by` / `dedup_by_key`, `remove_item`,
  `extend_from_within`, and the three borrowing iterators created, stepped any number of times from either end and
  dropped (`drain`, `drain_filter`, `splice`) — started on any well-formed vector, the run either completes with the
  contents and every returned / yielded value related step by step as `HOp.post` says, or stops in a sanctioned way
  (capacity overflow, allocation failure) with the vector well formed. Never an illegal access, a failed internal
  assertion or a hang.
-/
namespace MV.Props
open MV MV.Gen MV.GM VM

inductive HOp
  | base (op : POp)
  | extend (it : Vec.IterScript)
  | extend_from_slice (elems : List Elem)
  | resize (n : Nat) (value : Elem)
  | resize_with (n : Nat) (g : Nat → Int)
  | dedup
  | dedup_by (f : Vec.Pred2)
  | dedup_by_key (key : Nat → Elem → Int)
  | remove_item (probe : Elem)
  | extend_from_within (b1 b2 : Bound)
  | drain (b1 b2 : Bound) (steps : List DStep)
  | drain_filter (pred : Vec.Pred1) (n : Nat)
  | splice (b1 b2 : Bound) (fill : Vec.IterScript) (steps : List DStep)

abbrev HOut := List (Option Elem × Nat)

/-- create a Drain, step it, drop it -/
def runDrainOp (X : Ctx) (b1 b2 : Bound) (steps : List DStep) : VM HOut := fun s =>
  match Drain.create X b1 b2 s with
  | (.ok d, s1) =>
    (match runDrain steps d s1 with
     | (.ok (outs, d'), s2) =>
       (match Drain.drop X d' s2 with
        | (.ok _, s3) => (.ok outs, s3)
        | (.error p, s3) => (.error p, s3))
     | (.error p, s2) => (.error p, s2))
  | (.error p, s1) => (.error p, s1)

def runDrainFilterOp (X : Ctx) (pred : Vec.Pred1) (n : Nat) : VM HOut := fun s =>
  match DrainFilter.create X pred s with
  | (.ok f, s1) =>
    (match runDF X n f s1 with
     | (.ok (ys, f'), s2) =>
       (match DrainFilter.drop X f' s2 with
        | (.ok _, s3) => (.ok (ys.map (fun y => (y, 0))), s3)
        | (.error p, s3) => (.error p, s3))
     | (.error p, s2) => (.error p, s2))
  | (.error p, s1) => (.error p, s1)

def runSpliceOp (X : Ctx) (b1 b2 : Bound) (fill : Vec.IterScript) (steps : List DStep) : VM HOut := fun s =>
  match Splice.create X b1 b2 fill s with
  | (.ok sp, s1) =>
    (match runDrain steps sp.d s1 with
     | (.ok (outs, d'), s2) =>
       (match Splice.drop X { sp with d := d' } s2 with
        | (.ok _, s3) => (.ok outs, s3)
        | (.error p, s3) => (.error p, s3))
     | (.error p, s2) => (.error p, s2))
  | (.error p, s1) => (.error p, s1)

def HOp.run (X : Ctx) : HOp → VM HOut
  | .base op => do let o ← op.run X; pure [(o, 0)]
  | .extend it => do Vec.extend X it; pure []
  | .extend_from_slice elems => do Vec.extend_from_slice X elems; pure []
  | .resize n value => do Vec.resize X n value; pure []
  | .resize_with n g => do Vec.resize_with X n g; pure []
  | .dedup => do Vec.dedup X; pure []
  | .dedup_by f => do Vec.dedup_by_pred X f; pure []
  | .dedup_by_key key => do Vec.dedup_by_key X key; pure []
  | .remove_item probe => do let o ← Vec.remove_item X probe; pure [(o, 0)]
  | .extend_from_within b1 b2 => do Vec.extend_from_within X b1 b2; pure []
  | .drain b1 b2 steps => runDrainOp X b1 b2 steps
  | .drain_filter pred n => runDrainFilterOp X pred n
  | .splice b1 b2 fill steps => runSpliceOp X b1 b2 fill steps

/-- how contents and outputs are related by one operation (`Vec` semantics by values; what arbitrary callbacks
    leave open is left open) -/
def HOp.post : HOp → List Elem → List Elem → HOut → Prop
  | .base op, es, es', o => es' = (op.spec es).1 ∧ o = [((op.spec es).2, 0)]
  | .extend it, es, es', o => ∃ new, es' = es ++ new ∧ new.map (·.val) = takeSome it ∧ o = []
  | .extend_from_slice elems, es, es', o => ∃ new, es' = es ++ new ∧ new.map (·.val) = elems.map (·.val) ∧ o = []
  | .resize n value, es, es', o =>
      es'.map (·.val) = (es.take n).map (·.val) ++ List.replicate (n - es.length) value.val ∧ o = []
  | .resize_with n g, es, es', o =>
      es'.map (·.val) = (es.take n).map (·.val) ++ (List.range (n - es.length)).map g ∧ o = []
  | .dedup, es, es', o | .dedup_by _, es, es', o | .dedup_by_key _, es, es', o => es'.Sublist es ∧ o = []
  | .remove_item _, es, es', o =>
      (∃ j, j < es.length ∧ o = [(es[j]?, 0)] ∧ es' = es.eraseIdx j) ∨ (o = [(none, 0)] ∧ es' = es)
  | .extend_from_within b1 b2, es, es', o =>
      ∃ st en new, resolve b1 b2 es.length = some (st, en) ∧ es' = es ++ new ∧
        new.map (·.val) = ((es.take en).drop st).map (·.val) ∧ o = []
  | .drain b1 b2 steps, es, es', o =>
      ∃ st en, resolve b1 b2 es.length = some (st, en) ∧ o = (specSteps steps ((es.take en).drop st)).1 ∧
        es' = es.take st ++ es.drop en
  | .drain_filter pred n, es, es', o =>
      es' = rejFrom pred 0 es ∧ (o.map (·.1) = (dfRun pred n 0 es).1 ∨ (es = [] ∧ ∀ y ∈ o, y.1 = none))
  | .splice b1 b2 fill steps, es, es', o =>
      ∃ st en new, resolve b1 b2 es.length = some (st, en) ∧ o = (specSteps steps ((es.take en).drop st)).1 ∧
        es' = es.take st ++ new ++ es.drop en ∧ new.map (·.val) = takeSome fill

/-- the documented argument limits (outside them both `Vec` and `MiniVec` panic: C11) -/
def HOp.inRange : HOp → List Elem → Prop
  | .base op, es => op.inRange es
  | .extend_from_within b1 b2, es | .drain b1 b2 _, es | .splice b1 b2 _ _, es =>
      ∃ st en, resolve b1 b2 es.length = some (st, en)
  | _, _ => True

/-- one operation: completes as `post` says, or stops in a sanctioned way with a well-formed vector -/
theorem HOp.refines (X : Ctx) (hq : ∀ k, X.o.panicAt k = false) (op : HOp) (s : St) (es : List Elem) (h : Abs X s.v es)
    (hr : op.inRange es) :
    (∃ s' es' o, op.run X s = (.ok o, s') ∧ Abs X s'.v es' ∧ op.post es es' o) ∨
    (∃ p s' es', op.run X s = (.error p, s') ∧ Panic.benign p = true ∧ Abs X s'.v es') := by
  cases op with
  | base op =>
    rcases POp.refines X hq op s es h hr with ⟨s', hrun, habs⟩ | ⟨p, s', hrun, hp, hv⟩
    · exact .inl ⟨s', _, _, by simp only [HOp.run, VM.bind_run, hrun]; rfl, habs, rfl, rfl⟩
    · exact .inr ⟨p, s', es, by simp only [HOp.run, VM.bind_run, hrun], hp, by rw [hv]; exact h⟩
  | extend it =>
    rcases C17_extend_partial X hq it s es h with ⟨s', new, hrun, habs, hv⟩ | ⟨p, s', acc, hrun, hb, habs⟩
    · exact .inl ⟨s', _, [], by simp only [HOp.run, VM.bind_run, hrun]; rfl, habs, new, rfl, hv, rfl⟩
    · exact .inr ⟨p, s', acc, by simp only [HOp.run, VM.bind_run, hrun], hb, habs⟩
  | extend_from_slice elems =>
    rcases C01_extend_from_slice_partial X hq elems s es h with ⟨new, s', hrun, habs, hv⟩ | ⟨p, s', acc, hrun, hb, habs⟩
    · exact .inl ⟨s', _, [], by simp only [HOp.run, VM.bind_run, hrun]; rfl, habs, new, rfl, hv, rfl⟩
    · exact .inr ⟨p, s', acc, by simp only [HOp.run, VM.bind_run, hrun], hb, habs⟩
  | resize n value =>
    rcases C01_resize_partial X hq n value s es h with ⟨cur, s', hrun, habs, hv⟩ | ⟨p, s', acc, hrun, hb, habs⟩
    · exact .inl ⟨s', cur, [], by simp only [HOp.run, VM.bind_run, hrun]; rfl, habs, hv, rfl⟩
    · exact .inr ⟨p, s', acc, by simp only [HOp.run, VM.bind_run, hrun], hb, habs⟩
  | resize_with n g =>
    rcases C17_resize_with_partial X hq n g s es h with ⟨cur, s', hrun, habs, hv⟩ | ⟨p, s', acc, hrun, hb, habs⟩
    · exact .inl ⟨s', cur, [], by simp only [HOp.run, VM.bind_run, hrun]; rfl, habs, hv, rfl⟩
    · exact .inr ⟨p, s', acc, by simp only [HOp.run, VM.bind_run, hrun], hb, habs⟩
  | dedup =>
    obtain ⟨s', kept, rej, hrun, habs, hsub, _⟩ := (C17_dedup_partial X hq s es h).1
    exact .inl ⟨s', kept, [], by simp only [HOp.run, VM.bind_run, hrun]; rfl, habs, hsub, rfl⟩
  | dedup_by f =>
    obtain ⟨s', kept, rej, hrun, habs, hsub, _⟩ := (C17_dedup_partial X hq s es h).2.1 f
    exact .inl ⟨s', kept, [], by simp only [HOp.run, VM.bind_run, hrun]; rfl, habs, hsub, rfl⟩
  | dedup_by_key key =>
    obtain ⟨s', kept, rej, hrun, habs, hsub, _⟩ := (C17_dedup_partial X hq s es h).2.2 key
    exact .inl ⟨s', kept, [], by simp only [HOp.run, VM.bind_run, hrun]; rfl, habs, hsub, rfl⟩
  | remove_item probe =>
    rcases C17_remove_item_partial X hq probe s es h with ⟨j, s', hj, hrun, habs, _⟩ | ⟨s', hrun, hv, _⟩
    · exact .inl ⟨s', _, _, by simp only [HOp.run, VM.bind_run, hrun]; rfl, habs, .inl ⟨j, hj, rfl, rfl⟩⟩
    · exact .inl ⟨s', es, _, by simp only [HOp.run, VM.bind_run, hrun]; rfl, by rw [hv]; exact h, .inr ⟨rfl, rfl⟩⟩
  | extend_from_within b1 b2 =>
    obtain ⟨st, en, hres⟩ := hr
    rcases C01_extend_from_within_partial X hq s es b1 b2 st en h hres with ⟨s', new, hrun, habs, hv⟩ | ⟨p, s', hrun, hb, habs⟩
    · exact .inl ⟨s', _, [], by simp only [HOp.run, VM.bind_run, hrun]; rfl, habs, st, en, new, hres, rfl, hv, rfl⟩
    · exact .inr ⟨p, s', es, by simp only [HOp.run, VM.bind_run, hrun], hb, habs⟩
  | drain b1 b2 steps =>
    obtain ⟨st, en, hres⟩ := hr
    obtain ⟨d, s1, d', v', hc, _, hsteps, hdrop, habs, _⟩ := C10_drain_partial X hq s es b1 b2 st en h hres steps
    refine .inl ⟨{ afterDrops X s1 (specSteps steps ((es.take en).drop st)).2 with v := v' }, _, _, ?_, habs, st, en, hres, rfl, rfl⟩
    simp only [HOp.run, runDrainOp, hc, hsteps, hdrop]
  | drain_filter pred n =>
    cases hd : s.v.isDefault with
    | false =>
      obtain ⟨f0, s0, f1, s1, s2, hc, _, hsteps, _, hdrop, habs, _⟩ := C10_drain_filter_partial X hq pred s es h hd n
      refine .inl ⟨s2, _, (dfRun pred n 0 es).1.map (fun y => (y, 0)), ?_, habs, rfl, .inl ?_⟩
      · simp only [HOp.run, runDrainFilterOp, hc, hsteps, hdrop]
      · simp [List.map_map, Function.comp_def]
    | true =>
      have hnil : es = [] := (h.sentinel hd).2
      subst hnil
      obtain ⟨f0, hc, ⟨ys, hsteps, hall⟩, hdrop⟩ := C10_drain_filter_default X pred s h hd n
      refine .inl ⟨s, [], ys.map (fun y => (y, 0)), ?_, h, by simp [rejFrom], .inr ⟨rfl, ?_⟩⟩
      · simp only [HOp.run, runDrainFilterOp, hc, hsteps, hdrop]
      · intro y hy
        simp only [List.mem_map] at hy
        obtain ⟨y0, hy0, rfl⟩ := hy
        exact hall y0 hy0
  | splice b1 b2 fill steps =>
    obtain ⟨st, en, hres⟩ := hr
    cases hd : s.v.isDefault with
    | false =>
      obtain ⟨sp, s1, d', hc, _, hsteps, hdrop⟩ := C10_splice_partial X hq s es b1 b2 st en fill h hd hres steps
      rcases hdrop with ⟨s2, new, hdr, habs, hv⟩ | ⟨p, s2, cur, hdr, hb, habs⟩
      · refine .inl ⟨s2, _, _, ?_, habs, st, en, new, hres, rfl, rfl, hv⟩
        simp only [HOp.run, runSpliceOp, hc, hsteps, hdr]
      · refine .inr ⟨p, s2, cur, ?_, hb, habs⟩
        simp only [HOp.run, runSpliceOp, hc, hsteps, hdr]
    | true =>
      have hnil : es = [] := (h.sentinel hd).2
      subst hnil
      obtain ⟨sp, hc, hsteps, hdrop⟩ := C10_splice_default X hq s b1 b2 st en fill h hd hres steps
      rcases hdrop with ⟨s2, new, hdr, habs, hv⟩ | ⟨p, s2, cur, hdr, hb, habs⟩
      · refine .inl ⟨s2, new, (specSteps steps []).1, ?_, habs, st, en, new, hres, by simp, by simp, hv⟩
        simp only [HOp.run, runSpliceOp, hc, hsteps, hdr]
      · refine .inr ⟨p, s2, cur, ?_, hb, habs⟩
        simp only [HOp.run, runSpliceOp, hc, hsteps, hdr]

/-- run a history; stop at the first operation that does not return -/
def runHist (X : Ctx) : List HOp → St → Except Panic (List HOut) × St
  | [], s => (.ok [], s)
  | op :: rest, s =>
    match op.run X s with
    | (.ok o, s') =>
      (match runHist X rest s' with
       | (.ok os, s'') => (.ok (o :: os), s'')
       | (.error p, s'') => (.error p, s''))
    | (.error p, s') => (.error p, s')

/-- contents and outputs of a whole history, related step by step -/
def histPost : List HOp → List Elem → List Elem → List HOut → Prop
  | [], es, es', outs => es' = es ∧ outs = []
  | op :: rest, es, es', outs => ∃ mid o os, op.post es mid o ∧ histPost rest mid es' os ∧ outs = o :: os

/-- every operation is within the documented limits, whatever the unspecified parts of the earlier results are -/
def histInRange : List HOp → List Elem → Prop
  | [], _ => True
  | op :: rest, es => op.inRange es ∧ ∀ mid o, op.post es mid o → histInRange rest mid

/-- **every history over `HOp`** -/
theorem C01_histories_partial (X : Ctx) (hq : ∀ k, X.o.panicAt k = false) (ops : List HOp) (s : St) (es : List Elem)
    (h : Abs X s.v es) (hr : histInRange ops es) :
    (∃ s' es' outs, runHist X ops s = (.ok outs, s') ∧ Abs X s'.v es' ∧ histPost ops es es' outs) ∨
    (∃ p s' es', runHist X ops s = (.error p, s') ∧ Panic.benign p = true ∧ Abs X s'.v es') := by
  induction ops generalizing s es with
  | nil => exact .inl ⟨s, es, [], rfl, h, rfl, rfl⟩
  | cons op rest ih =>
    rcases HOp.refines X hq op s es h hr.1 with ⟨s1, mid, o, hrun, habs, hpost⟩ | ⟨p, s1, es1, hrun, hb, habs⟩
    · rcases ih s1 mid habs (hr.2 mid o hpost) with ⟨s2, es2, os, hrun2, habs2, hp2⟩ | ⟨p, s2, es2, hrun2, hb, habs2⟩
      · exact .inl ⟨s2, es2, o :: os, by simp only [runHist, hrun, hrun2], habs2, mid, o, os, hpost, hp2, rfl⟩
      · exact .inr ⟨p, s2, es2, by simp only [runHist, hrun, hrun2], hb, habs2⟩
    · exact .inr ⟨p, s1, es1, by simp only [runHist, hrun], hb, habs⟩

/-- non-vacuity: a concrete history from `new()` is within range (every branch of the unspecified results) -/
example : histInRange [.base (.push ⟨1, 5⟩), .extend [some 7, none, some 9], .dedup, .drain .unbounded .unbounded [.front]] [] := by
  refine ⟨trivial, fun mid o hp => ⟨trivial, fun mid2 o2 hp2 => ⟨trivial, fun mid3 o3 hp3 => ⟨⟨0, mid3.length, ?_⟩, fun _ _ _ => trivial⟩⟩⟩⟩
  simp [resolve, startOf, endOf]

end MV.Props

#print axioms MV.Props.HOp.refines
#print axioms MV.Props.C01_histories_partial

import MiniVecProof.Proofs.GenProps
/-
  C11 — out-of-range arguments are rejected and leave the vector untouched.
  Statements about the REGENERATED argument guards, for every argument value, bound kind and state:
  the guard rejects exactly outside the documented limits, and a rejection returns the very state it
  was given (no header write, no allocator request, no length cut has happened yet).
-/
namespace MV.Props
open MV MV.Gen MV.GM

/-- documented resolution of a range against length `len`, without wrap-around -/
def startOf : Bound → Option Nat
  | .included n => some n
  | .excluded n => if n + 1 < W then some (n + 1) else none
  | .unbounded => some 0

def endOf (len : Nat) : Bound → Option Nat
  | .included n => if n + 1 < W then some (n + 1) else none
  | .excluded n => some n
  | .unbounded => some len

def resolve (b1 b2 : Bound) (len : Nat) : Option (Nat × Nat) :=
  match startOf b1, endOf len b2 with
  | some s, some e => if s ≤ e ∧ e ≤ len then some (s, e) else none
  | _, _ => none

theorem resolve_some (b1 b2 : Bound) (l st en : Nat) (h1 : startOf b1 = some st)
    (h2 : endOf l b2 = some en) :
    resolve b1 b2 l = if st ≤ en ∧ en ≤ l then some (st, en) else none := by
  unfold resolve; rw [h1, h2]

theorem resolve_none_start (b1 b2 : Bound) (l : Nat) (h1 : startOf b1 = none) :
    resolve b1 b2 l = none := by
  unfold resolve; rw [h1]

theorem resolve_none_end (b1 b2 : Bound) (l : Nat) (h2 : endOf l b2 = none) :
    resolve b1 b2 l = none := by
  unfold resolve; rw [h2]; cases startOf b1 <;> rfl

/-- `insert` : accepted iff `index ≤ len`; a rejected call returns the state unchanged -/
theorem C11_insert (E : Env) (idx : Nat) (s : GS) :
    insert_pre E idx s =
      if idx > s.L then (.error .explicit, s)
      else if s.L = s.C then
        (match reserve E 1 s with
         | (.ok _, s') => (.ok (.cont ⟨idx, s.L⟩), s')
         | (.error p, s') => (.error p, s'))
      else (.ok (.cont ⟨idx, s.L⟩), s) := by
  unfold insert_pre
  simp only [len_run, capacity_run, GM.bind_run, GM.ite_run, decide_eq_true_eq, GM.throw_run,
    GM.pure_run, beq_iff_eq]
  by_cases h : idx > s.L
  · simp [h]
  · simp only [h, if_false]
    by_cases h2 : s.L = s.C
    · simp only [h2, if_true]
      cases reserve E 1 s with
      | mk r s' => cases r <;> simp
    · simp [h2]

theorem C11_remove (E : Env) (idx : Nat) (s : GS) :
    remove_pre E idx s =
      if idx ≥ s.L then (.error .explicit, s) else (.ok (.cont ⟨idx, s.L⟩), s) := by
  unfold remove_pre
  simp only [len_run, GM.bind_run, GM.ite_run, decide_eq_true_eq, GM.throw_run, GM.pure_run]

theorem C11_swap_remove (E : Env) (idx : Nat) (s : GS) :
    swap_remove_pre E idx s =
      if idx ≥ s.L then (.error .explicit, s) else (.ok (.cont ⟨idx, s.L⟩), s) := by
  unfold swap_remove_pre
  simp only [len_run, GM.bind_run, GM.ite_run, decide_eq_true_eq, GM.throw_run, GM.pure_run]

theorem C11_split_off (E : Env) (at_ : Nat) (s : GS) :
    split_off_pre E at_ s =
      if at_ > s.L then (.error .explicit, s) else (.ok (.cont ⟨at_, s.L⟩), s) := by
  unfold split_off_pre
  simp only [len_run, GM.bind_run, GM.ite_run, decide_eq_true_eq, GM.throw_run, GM.pure_run]

/-- `drain` as it is documented: resolve the range; outside the limits panic before anything is
    touched; inside them cut the length to the range start (only if there is a block) and hand the
    cursors' base pointer on. -/
def drainSpec (E : Env) (b1 b2 : Bound) : GM (Flow Env_drain) := do
  let v_len ← len E
  match resolve b1 b2 v_len with
  | none => GM.throw .explicit
  | some (v_start_idx, v_end_idx) => do
      let t6 ← as_mut_ptr E
      let v_data := t6
      let _t7 ← (if (!v_data.isNull) then
          (do
            set_len E v_start_idx
            pure ())
        else
          (do
            pure ()))
      pure (Flow.cont ({ v_len := v_len, v_start_idx := v_start_idx, v_end_idx := v_end_idx, v_data := v_data } : Env_drain))

/-- finish one bound-kind case once the resolved indices are known -/
macro "guard3 " l:term ", " st:term ", " en:term : tactic => `(tactic|
  (simp only [GM.pure_run, GM.ite_run, GM.throw_run, GM.liftE_run, decide_eq_true_eq, gt_iff_lt]
   by_cases h3 : $en < $st
   · have hx : ¬ ($st ≤ $en ∧ $en ≤ $l) := by omega
     simp only [h3, hx, if_true, if_false]; try rfl
   · by_cases h4 : $l < $en
     · have hx : ¬ ($st ≤ $en ∧ $en ≤ $l) := by omega
       simp only [h3, h4, hx, if_true, if_false]; try rfl
     · have hx : ($st ≤ $en ∧ $en ≤ $l) := by omega
       simp only [h3, h4, if_false]
       rw [if_pos hx]
       try (first | rfl | (simp only [GM.ite_run, GM.pure_run]))))

theorem C11_drain (E : Env) (b1 b2 : Bound) (s : GS) : drain_pre E b1 b2 s = drainSpec E b1 b2 s := by
  unfold drain_pre drainSpec
  simp only [len_run, GM.bind_run]
  cases b1 with
  | included n1 =>
    cases b2 with
    | included n2 =>
      simp only [GM.liftE_run, checkedAdd, expectSome]
      by_cases hw : n2 + 1 < W
      · rw [resolve_some _ _ _ n1 (n2 + 1) rfl (by simp [endOf, hw])]
        simp only [hw, if_true]
        guard3 s.L, n1, n2 + 1
      · rw [resolve_none_end _ _ _ (by simp [endOf, hw])]
        simp only [hw, if_false]; rfl
    | excluded n2 =>
      rw [resolve_some _ _ _ n1 n2 rfl rfl]
      guard3 s.L, n1, n2
    | unbounded =>
      rw [resolve_some _ _ _ n1 s.L rfl rfl]
      guard3 s.L, n1, s.L
  | excluded n1 =>
    simp only [GM.liftE_run, checkedAdd, expectSome]
    by_cases hw1 : n1 + 1 < W
    · simp only [hw1, if_true]
      cases b2 with
      | included n2 =>
        by_cases hw : n2 + 1 < W
        · rw [resolve_some _ _ _ (n1 + 1) (n2 + 1) (by simp [startOf, hw1]) (by simp [endOf, hw])]
          simp only [hw, if_true]
          guard3 s.L, n1 + 1, n2 + 1
        · rw [resolve_none_end _ _ _ (by simp [endOf, hw])]
          simp only [hw, if_false]; rfl
      | excluded n2 =>
        rw [resolve_some _ _ _ (n1 + 1) n2 (by simp [startOf, hw1]) rfl]
        guard3 s.L, n1 + 1, n2
      | unbounded =>
        rw [resolve_some _ _ _ (n1 + 1) s.L (by simp [startOf, hw1]) rfl]
        guard3 s.L, n1 + 1, s.L
    · rw [resolve_none_start _ _ _ (by simp [startOf, hw1])]
      simp only [hw1, if_false]; rfl
  | unbounded =>
    cases b2 with
    | included n2 =>
      simp only [GM.liftE_run, checkedAdd, expectSome]
      by_cases hw : n2 + 1 < W
      · rw [resolve_some _ _ _ 0 (n2 + 1) rfl (by simp [endOf, hw])]
        simp only [hw, if_true]
        guard3 s.L, 0, n2 + 1
      · rw [resolve_none_end _ _ _ (by simp [endOf, hw])]
        simp only [hw, if_false]; rfl
    | excluded n2 =>
      rw [resolve_some _ _ _ 0 n2 rfl rfl]
      guard3 s.L, 0, n2
    | unbounded =>
      rw [resolve_some _ _ _ 0 s.L rfl rfl]
      guard3 s.L, 0, s.L

/-- `splice` resolves and rejects exactly like `drain` -/
def spliceSpec (E : Env) (b1 b2 : Bound) : GM (Flow Env_splice) := do
  let v_len ← len E
  match resolve b1 b2 v_len with
  | none => GM.throw .explicit
  | some (v_start_idx, v_end_idx) => do
      let t6 ← as_mut_ptr E
      let v_data := t6
      let _t7 ← (if (!v_data.isNull) then
          (do
            set_len E v_start_idx
            pure ())
        else
          (do
            pure ()))
      pure (Flow.cont ({ v_len := v_len, v_start_idx := v_start_idx, v_end_idx := v_end_idx, v_data := v_data } : Env_splice))

theorem C11_splice (E : Env) (b1 b2 : Bound) (s : GS) : splice_pre E b1 b2 s = spliceSpec E b1 b2 s := by
  unfold splice_pre spliceSpec
  simp only [len_run, GM.bind_run]
  cases b1 with
  | included n1 =>
    cases b2 with
    | included n2 =>
      simp only [GM.liftE_run, checkedAdd, expectSome]
      by_cases hw : n2 + 1 < W
      · rw [resolve_some _ _ _ n1 (n2 + 1) rfl (by simp [endOf, hw])]
        simp only [hw, if_true]
        guard3 s.L, n1, n2 + 1
      · rw [resolve_none_end _ _ _ (by simp [endOf, hw])]
        simp only [hw, if_false]; rfl
    | excluded n2 =>
      rw [resolve_some _ _ _ n1 n2 rfl rfl]
      guard3 s.L, n1, n2
    | unbounded =>
      rw [resolve_some _ _ _ n1 s.L rfl rfl]
      guard3 s.L, n1, s.L
  | excluded n1 =>
    simp only [GM.liftE_run, checkedAdd, expectSome]
    by_cases hw1 : n1 + 1 < W
    · simp only [hw1, if_true]
      cases b2 with
      | included n2 =>
        by_cases hw : n2 + 1 < W
        · rw [resolve_some _ _ _ (n1 + 1) (n2 + 1) (by simp [startOf, hw1]) (by simp [endOf, hw])]
          simp only [hw, if_true]
          guard3 s.L, n1 + 1, n2 + 1
        · rw [resolve_none_end _ _ _ (by simp [endOf, hw])]
          simp only [hw, if_false]; rfl
      | excluded n2 =>
        rw [resolve_some _ _ _ (n1 + 1) n2 (by simp [startOf, hw1]) rfl]
        guard3 s.L, n1 + 1, n2
      | unbounded =>
        rw [resolve_some _ _ _ (n1 + 1) s.L (by simp [startOf, hw1]) rfl]
        guard3 s.L, n1 + 1, s.L
    · rw [resolve_none_start _ _ _ (by simp [startOf, hw1])]
      simp only [hw1, if_false]; rfl
  | unbounded =>
    cases b2 with
    | included n2 =>
      simp only [GM.liftE_run, checkedAdd, expectSome]
      by_cases hw : n2 + 1 < W
      · rw [resolve_some _ _ _ 0 (n2 + 1) rfl (by simp [endOf, hw])]
        simp only [hw, if_true]
        guard3 s.L, 0, n2 + 1
      · rw [resolve_none_end _ _ _ (by simp [endOf, hw])]
        simp only [hw, if_false]; rfl
    | excluded n2 =>
      rw [resolve_some _ _ _ 0 n2 rfl rfl]
      guard3 s.L, 0, n2
    | unbounded =>
      rw [resolve_some _ _ _ 0 s.L rfl rfl]
      guard3 s.L, 0, s.L


/-- `extend_from_within`: same resolution; nothing is reserved before the range is accepted -/
def efwSpec (E : Env) (b1 b2 : Bound) : GM (Flow Env_extend_from_within) := do
  let v_len ← len E
  match resolve b1 b2 v_len with
  | none => GM.throw .explicit
  | some (v_start_idx, v_end_idx) => do
      if (v_len == 0) then do
        pure (Flow.ret 0)
      else do
        let t6 ← GM.liftE (usub E.m v_end_idx v_start_idx)
        reserve E t6
        pure (Flow.cont ({ v_len := v_len, v_start_idx := v_start_idx, v_end_idx := v_end_idx } : Env_extend_from_within))

theorem C11_extend_from_within (E : Env) (b1 b2 : Bound) (s : GS) :
    extend_from_within_pre E b1 b2 s = efwSpec E b1 b2 s := by
  unfold extend_from_within_pre efwSpec
  simp only [len_run, GM.bind_run]
  cases b1 with
  | included n1 =>
    cases b2 with
    | included n2 =>
      simp only [GM.liftE_run, checkedAdd, expectSome]
      by_cases hw : n2 + 1 < W
      · rw [resolve_some _ _ _ n1 (n2 + 1) rfl (by simp [endOf, hw])]
        simp only [hw, if_true]
        guard3 s.L, n1, n2 + 1
      · rw [resolve_none_end _ _ _ (by simp [endOf, hw])]
        simp only [hw, if_false]; rfl
    | excluded n2 =>
      rw [resolve_some _ _ _ n1 n2 rfl rfl]
      guard3 s.L, n1, n2
    | unbounded =>
      rw [resolve_some _ _ _ n1 s.L rfl rfl]
      guard3 s.L, n1, s.L
  | excluded n1 =>
    simp only [GM.liftE_run, checkedAdd, expectSome]
    by_cases hw1 : n1 + 1 < W
    · simp only [hw1, if_true]
      cases b2 with
      | included n2 =>
        by_cases hw : n2 + 1 < W
        · rw [resolve_some _ _ _ (n1 + 1) (n2 + 1) (by simp [startOf, hw1]) (by simp [endOf, hw])]
          simp only [hw, if_true]
          guard3 s.L, n1 + 1, n2 + 1
        · rw [resolve_none_end _ _ _ (by simp [endOf, hw])]
          simp only [hw, if_false]; rfl
      | excluded n2 =>
        rw [resolve_some _ _ _ (n1 + 1) n2 (by simp [startOf, hw1]) rfl]
        guard3 s.L, n1 + 1, n2
      | unbounded =>
        rw [resolve_some _ _ _ (n1 + 1) s.L (by simp [startOf, hw1]) rfl]
        guard3 s.L, n1 + 1, s.L
    · rw [resolve_none_start _ _ _ (by simp [startOf, hw1])]
      simp only [hw1, if_false]; rfl
  | unbounded =>
    cases b2 with
    | included n2 =>
      simp only [GM.liftE_run, checkedAdd, expectSome]
      by_cases hw : n2 + 1 < W
      · rw [resolve_some _ _ _ 0 (n2 + 1) rfl (by simp [endOf, hw])]
        simp only [hw, if_true]
        guard3 s.L, 0, n2 + 1
      · rw [resolve_none_end _ _ _ (by simp [endOf, hw])]
        simp only [hw, if_false]; rfl
    | excluded n2 =>
      rw [resolve_some _ _ _ 0 n2 rfl rfl]
      guard3 s.L, 0, n2
    | unbounded =>
      rw [resolve_some _ _ _ 0 s.L rfl rfl]
      guard3 s.L, 0, s.L


/-- `truncate` accepts every argument -/
theorem C11_truncate_total (E : Env) (n : Nat) (s : GS) : ∃ f s', truncate_pre E n s = (.ok f, s') := by
  unfold truncate_pre
  simp only [len_run, GM.bind_run, GM.ite_run, decide_eq_true_eq, GM.pure_run]
  by_cases h : n ≥ s.L
  · exact ⟨_, _, by rw [if_pos h]⟩
  · rw [if_neg h]
    have hd : s.isDefault = false := by
      cases hd : s.isDefault
      · rfl
      · simp [GS.L, hd] at h
    simp only [GM.setHdrLen, hd, Bool.false_eq_true, if_false]
    cases hn : E.c.needsDrop <;> simp [hn]

/-- `shrink_to` above the capacity (and not below the length) is rejected, state untouched -/
theorem C11_shrink_to_reject (E : Env) (m : Nat) (s : GS) (h1 : s.L ≤ m) (h2 : s.C < m) :
    shrink_to E m s = (.error .explicit, s) := by
  rw [shrink_to_spec]
  rw [if_neg (by omega), if_neg (by omega), if_pos h2]

/-- … and at or below the capacity it is not rejected by the guard -/
theorem C11_shrink_to_accept (E : Env) (m : Nat) (s : GS) (h1 : s.L ≤ m) (h2 : m ≤ s.C) :
    shrink_to E m s = if s.C = m then (.ok (), s) else grow E m (s.A E) s := by
  rw [shrink_to_spec]
  rw [if_neg (by omega)]
  by_cases h : s.C = m
  · rw [if_pos h, if_pos h]
  · rw [if_neg h, if_neg (by omega), if_neg h]

/-- A rejected call has emitted no action: every rejection above returns the very input state;
    here spelled out for the three range-taking programs. -/
theorem C11_rejected_untouched (E : Env) (b1 b2 : Bound) (s : GS) (h : resolve b1 b2 s.L = none) :
    drain_pre E b1 b2 s = (.error .explicit, s) ∧ splice_pre E b1 b2 s = (.error .explicit, s) ∧
    extend_from_within_pre E b1 b2 s = (.error .explicit, s) := by
  rw [C11_drain, C11_splice, C11_extend_from_within]
  unfold drainSpec spliceSpec efwSpec
  simp only [len_run, GM.bind_run, h]
  exact ⟨rfl, rfl, rfl⟩

/-- the accept predicate in closed form -/
theorem C11_resolve_iff (b1 b2 : Bound) (len st en : Nat) :
    resolve b1 b2 len = some (st, en) ↔
      startOf b1 = some st ∧ endOf len b2 = some en ∧ st ≤ en ∧ en ≤ len := by
  unfold resolve
  cases h1 : startOf b1 with
  | none => simp
  | some a =>
    cases h2 : endOf len b2 with
    | none => simp
    | some b =>
      simp only [Option.some.injEq]
      constructor
      · intro h
        split at h
        · rename_i hh
          simp only [Option.some.injEq, Prod.mk.injEq] at h
          obtain ⟨rfl, rfl⟩ := h
          exact ⟨rfl, rfl, hh.1, hh.2⟩
        · simp at h
      · rintro ⟨rfl, rfl, h3, h4⟩
        simp [h3, h4]

/-! non-vacuity: concrete accepted and rejected calls -/
example : resolve (.included 1) (.excluded 3) 5 = some (1, 3) := by decide
example : resolve (.excluded USIZE_MAX) .unbounded 5 = none := by decide
example : resolve .unbounded (.included USIZE_MAX) 5 = none := by decide
example : resolve (.included 4) (.excluded 3) 5 = none := by decide
example : resolve .unbounded (.included 5) 5 = none := by decide

end MV.Props

#print axioms MV.Props.C11_insert
#print axioms MV.Props.C11_remove
#print axioms MV.Props.C11_swap_remove
#print axioms MV.Props.C11_split_off
#print axioms MV.Props.C11_drain
#print axioms MV.Props.C11_splice
#print axioms MV.Props.C11_extend_from_within
#print axioms MV.Props.C11_truncate_total
#print axioms MV.Props.C11_shrink_to_reject
#print axioms MV.Props.C11_shrink_to_accept
#print axioms MV.Props.C11_rejected_untouched
#print axioms MV.Props.C11_resolve_iff

import MiniVecProof.Proofs.GenProps
/-
  C18 — allocation failure takes the allocation-error path. On the REGENERATED `grow` (the only
  place the crate asks the allocator for memory; see the facts theorem on allocator call sites):
  if the request made by `grow` fails — for ANY state, capacity, alignment and failure oracle — the
  program stops in `handle_alloc_error`, no header was written through the null result, the
  recorded capacity / length / alignment are unchanged, `buf` still designates the old block, and
  the old block was not released.
-/
namespace MV.Props
open MV MV.Gen MV.GM

theorem C18_grow_alloc_failure (E : Env) (s : GS) (c a : Nat) (L : Layout) (hf : s.fresh = none)
    (hlen : s.L ≤ c) (hchg : ¬ (c = s.C ∧ a = s.A E)) (hL : make_layout E c a = .ok L)
    (hL0 : s.isDefault = false → ∃ L0, make_layout E s.cap a = .ok L0)
    (hfail : allocRefused E s L.size = true) :
    ∃ req, grow E c a s = (.error .allocError, s.refused req) ∧
      (req = .allocFail L.size L.align ∨ ∃ os oa, req = .reallocFail os oa L.size) := by
  rw [grow_spec E s c a hf, if_neg (by omega), if_neg hchg, hL]
  cases hd : s.isDefault with
  | true => simp only [if_true, hfail]; exact ⟨_, rfl, .inl rfl⟩
  | false =>
    obtain ⟨L0, hL0⟩ := hL0 hd
    simp only [Bool.false_eq_true, if_false, hL0, hfail, if_true]
    exact ⟨_, rfl, .inr ⟨_, _, rfl⟩⟩

/-- what "refused" means: header words, pending block and handle untouched; exactly one failed
    request was logged; no `install` (header write + `buf` update) and no length write happened -/
theorem C18_refused_state (s : GS) (req : Action) :
    s.sameHdr (s.refused req) ∧ (s.refused req).acts = s.acts ++ [req] ∧
    (s.refused req).allocIdx = s.allocIdx + 1 :=
  ⟨GS.refused_sameHdr s req, rfl, rfl⟩

/-- In every run of `grow`, a failed request is the LAST thing that happens: the only outcome that
    logs `allocFail`/`reallocFail` is the one that stops with `allocError`. -/
theorem C18_no_progress_after_failure (E : Env) (s : GS) (c a : Nat) (hf : s.fresh = none)
    (r : Except Panic Unit) (s' : GS) (h : grow E c a s = (r, s'))
    (hz : ∃ x ∈ newActs s s', (∃ sz al, x = .allocFail sz al) ∨ (∃ os oa ns, x = .reallocFail os oa ns)) :
    r = .error .allocError ∧ s.sameHdr s' := by
  have hc := grow_cases E s c a hf
  rw [h] at hc
  obtain ⟨x, hx, hk⟩ := hz
  cases hc with
  | noop _ _ => simp [newActs] at hx
  | rejected p _ _ _ => simp [newActs] at hx
  | allocFailed req L hL hreq hk' => exact ⟨rfl, GS.refused_sameHdr s req⟩
  | grown req L hL hlen hreq hg hr =>
    exfalso
    simp [newActs, GS.grown] at hx
    rcases hx with rfl | rfl
    · rcases hk with ⟨sz, al, rfl⟩ | ⟨os, oa, ns, rfl⟩ <;> simp [Action.granted] at hg
    · rcases hk with ⟨sz, al, h0⟩ | ⟨os, oa, ns, h0⟩ <;> cases h0

end MV.Props

#print axioms MV.Props.C18_grow_alloc_failure
#print axioms MV.Props.C18_refused_state
#print axioms MV.Props.C18_no_progress_after_failure

import MiniVecProof.Props.C04
/-
  C04 — `dedup` / `dedup_by` / `dedup_by_key` when the comparison (`PartialEq::eq`, the predicate, the key function) or
  a destructor may panic at ANY call.

  The scan moves elements only by swapping two slots: whenever the callback panics, every element the vector held is
  still in it exactly once (in an unspecified order); when the scan completes, the duplicates are behind the survivors
  and `truncate` destroys them (C04_truncate_partial). However the call ends, what the vector exposes together with
  what was destroyed is a rearrangement of what it held.
-/
namespace MV.Props
open MV MV.Gen MV.GM VM

/-- a comparison callback under any panic oracle: it answers, or it panics; either way it leaves the vector and the
    trace alone -/
def SameAny (same : Nat → Elem → Elem → VM Bool) : Prop :=
  ∀ k a b (s : St), ∃ r s', same k a b s = (r, s') ∧ s'.v = s.v ∧ s'.sys.tr = s.sys.tr ∧
    ((∃ m, r = .ok m) ∨ r = .error .explicit)

/-- the scan of `dedup_by` when the comparison may panic at ANY of its calls -/
theorem dedup_go_any (X : Ctx) (same : Nat → Elem → Elem → VM Bool) (hs : SameAny same) :
    ∀ (rest kept rej : List Elem) (k : Nat) (s : St), Abs X s.v (kept ++ rej ++ rest) → s.v.isDefault = false →
    kept ≠ [] →
    (∃ s' k2 r2 rej', Vec.dedup_by.go same (.at (dataOff s.v.align)) rest.length (kept.length + rej.length) kept.length k s =
        (.ok (kept ++ k2).length, s') ∧
      Abs X s'.v ((kept ++ k2) ++ rej') ∧ k2.Sublist rest ∧ (k2 ++ r2).Perm rest ∧ rej'.Perm (rej ++ r2) ∧
      s'.v.cap = s.v.cap ∧ s'.v.isDefault = false ∧ s'.v.align = s.v.align ∧
      s'.v.blk.map (·.bid) = s.v.blk.map (·.bid) ∧ s'.sys.tr = s.sys.tr) ∨
    (∃ s' cur, Vec.dedup_by.go same (.at (dataOff s.v.align)) rest.length (kept.length + rej.length) kept.length k s =
        (.error .explicit, s') ∧ Abs X s'.v cur ∧ cur.Perm (kept ++ rej ++ rest) ∧
      s'.v.cap = s.v.cap ∧ s'.v.blk.map (·.bid) = s.v.blk.map (·.bid) ∧ s'.sys.tr = s.sys.tr) := by
  intro rest
  induction rest with
  | nil =>
    intro kept rej k s h hd _
    refine .inl ⟨s, [], [], rej, ?_, by simpa using h, List.Sublist.refl _, by simp, by simp, rfl, hd, rfl, rfl, rfl⟩
    simp [Vec.dedup_by.go]
  | cons e rest ih =>
    intro kept rej k s h hd hk
    have hlen : kept.length + rej.length < (kept ++ rej ++ e :: rest).length := by simp
    have hkl : 0 < kept.length := List.length_pos_iff.mpr hk
    have h1 := rd_abs X s _ h hd (kept.length + rej.length) hlen
    have he : (kept ++ rej ++ e :: rest)[kept.length + rej.length] = e := by
      rw [List.getElem_append_right (by simp)]; simp
    rw [he] at h1
    have hlen2 : kept.length - 1 < (kept ++ rej ++ e :: rest).length := by simp; omega
    have h1b := rd_abs X s _ h hd (kept.length - 1) hlen2
    obtain ⟨r, s1, hsame, hv1, htr1, hrr⟩ := hs k e ((kept ++ rej ++ e :: rest)[kept.length - 1]) s
    have habs_s1 : Abs X s1.v (kept ++ rej ++ e :: rest) := by rw [hv1]; exact h
    have hd1 : s1.v.isDefault = false := by rw [hv1]; exact hd
    have hal1 : s1.v.align = s.v.align := by rw [hv1]
    unfold Vec.dedup_by.go
    simp only [List.length_cons, VM.bind_run, h1, h1b, hsame]
    rcases hrr with ⟨m, hm⟩ | hpan
    · subst hm
      cases m with
      | false =>
        simp only [Bool.not_false, if_true]
        cases rej with
        | nil =>
          have habs1 : Abs X s1.v ((kept ++ [e]) ++ [] ++ rest) := by simpa using habs_s1
          rcases ih (kept ++ [e]) [] (k + 1) s1 habs1 hd1 (by simp) with
            ⟨s', k2, r2, rej', hrun, habs', hsub, hperm, hrp, hc, hd', hal, hb, htr⟩ | ⟨s', cur, hrun, habs', hperm, hc, hb, htr⟩
          · refine .inl ⟨s', e :: k2, r2, rej', ?_, by simpa using habs', hsub.cons₂ e, by simpa using hperm.cons e, hrp,
              by rw [hc, hv1], hd', by rw [hal, hv1], by rw [hb, hv1], by rw [htr, htr1]⟩
            simp only [List.length_nil, Nat.add_zero, ne_eq, not_true_eq_false, if_false]
            rw [hal1] at hrun
            simp only [List.length_append, List.length_singleton, List.length_nil, Nat.add_zero, List.length_cons] at hrun ⊢
            simpa [Nat.add_assoc, Nat.add_comm 1] using hrun
          · refine .inr ⟨s', cur, ?_, habs', by simpa using hperm, by rw [hc, hv1], by rw [hb, hv1], by rw [htr, htr1]⟩
            simp only [List.length_nil, Nat.add_zero, ne_eq, not_true_eq_false, if_false]
            rw [hal1] at hrun
            simp only [List.length_append, List.length_singleton, List.length_nil, Nat.add_zero] at hrun
            exact hrun
        | cons r0 rt =>
          have hne : kept.length + (r0 :: rt).length ≠ kept.length := by simp
          have hw : kept.length < (kept ++ (r0 :: rt) ++ e :: rest).length := by simp
          obtain ⟨v', hsw, habs', hc, hd', hal, hb⟩ :=
            sw_abs X s1 (kept ++ (r0 :: rt) ++ e :: rest) habs_s1 hd1 (kept.length + (r0 :: rt).length) kept.length hlen hw
          have hw0 : (kept ++ (r0 :: rt) ++ e :: rest)[kept.length] = r0 := by
            rw [List.getElem_append_left (by simp), List.getElem_append_right (by simp)]; simp
          simp only [List.length_cons] at he habs'
          simp only [hw0, he] at habs'
          rw [retain_swap_list] at habs'
          have habs1 : Abs X ({ s1 with v := v' } : St).v ((kept ++ [e]) ++ (rt ++ [r0]) ++ rest) := habs'
          have hsw' : VM.sw (.at (dataOff s.v.align)) (kept.length + (r0 :: rt).length) kept.length s1 =
              (.ok (), { s1 with v := v' }) := by rw [← hal1]; exact hsw
          have hal' : ({ s1 with v := v' } : St).v.align = s.v.align := by show v'.align = _; rw [hal, hv1]
          have hprm : (rt ++ [r0]).Perm (r0 :: rt) := List.perm_append_singleton r0 rt
          rcases ih (kept ++ [e]) (rt ++ [r0]) (k + 1) { s1 with v := v' } habs1 hd' (by simp) with
            ⟨s', k2, r2, rej', hrun, habs2, hsub, hperm, hrp, hc2, hd2, hal2, hb2, htr⟩ | ⟨s', cur, hrun, habs2, hperm, hc2, hb2, htr⟩
          · refine .inl ⟨s', e :: k2, r2, rej', ?_, by simpa using habs2, hsub.cons₂ e, by simpa using hperm.cons e, ?_,
              by rw [hc2]; show v'.cap = _; rw [hc, hv1], hd2, by rw [hal2]; exact hal',
              by rw [hb2]; show v'.blk.map _ = _; rw [hb, hv1], by rw [htr]; exact htr1⟩
            · simp only [hne, ne_eq, not_false_eq_true, if_true, VM.bind_run]
              rw [hsw']
              simp only
              rw [hal'] at hrun
              simp only [List.length_append, List.length_singleton, List.length_cons] at hrun ⊢
              rw [show kept.length + (rt.length + 1) + 1 = kept.length + 1 + (rt.length + 1) by omega]
              simpa [Nat.add_assoc, Nat.add_comm 1] using hrun
            · exact hrp.trans (List.Perm.append_right _ hprm)
          · refine .inr ⟨s', cur, ?_, habs2, ?_, by rw [hc2]; show v'.cap = _; rw [hc, hv1],
              by rw [hb2]; show v'.blk.map _ = _; rw [hb, hv1], by rw [htr]; exact htr1⟩
            · simp only [hne, ne_eq, not_false_eq_true, if_true, VM.bind_run]
              rw [hsw']
              simp only
              rw [hal'] at hrun
              simp only [List.length_append, List.length_singleton, List.length_cons] at hrun ⊢
              rw [show kept.length + (rt.length + 1) + 1 = kept.length + 1 + (rt.length + 1) by omega]
              exact hrun
            · refine hperm.trans ?_
              rw [List.perm_iff_count]
              intro a
              simp only [List.count_append, List.count_cons, List.count_nil]
              omega
      | true =>
        simp only [Bool.not_true, Bool.false_eq_true, if_false]
        have habs1 : Abs X s1.v (kept ++ (rej ++ [e]) ++ rest) := by simpa using habs_s1
        have hl : (rej ++ [e]).length = rej.length + 1 := by simp
        rcases ih kept (rej ++ [e]) (k + 1) s1 habs1 hd1 hk with
          ⟨s', k2, r2, rej', hrun, habs', hsub, hperm, hrp, hc, hd', hal, hb, htr⟩ | ⟨s', cur, hrun, habs', hperm, hc, hb, htr⟩
        · refine .inl ⟨s', k2, e :: r2, rej', ?_, habs', hsub.cons e, ?_, ?_, by rw [hc, hv1], hd', by rw [hal, hv1],
            by rw [hb, hv1], by rw [htr, htr1]⟩
          · rw [hl, hal1] at hrun
            rw [Nat.add_assoc]; exact hrun
          · exact (List.perm_middle).trans (hperm.cons e)
          · refine hrp.trans ?_
            rw [List.append_assoc]
            exact List.Perm.append_left _ (by simp)
        · refine .inr ⟨s', cur, ?_, habs', by simpa using hperm, by rw [hc, hv1], by rw [hb, hv1], by rw [htr, htr1]⟩
          rw [hl, hal1] at hrun
          rw [Nat.add_assoc]; exact hrun
    · -- the comparison panics: nothing has been moved in this round
      subst hpan
      exact .inr ⟨s1, kept ++ rej ++ e :: rest, rfl, habs_s1, List.Perm.refl _, by rw [hv1], by rw [hv1], htr1⟩

/-- (C04) `dedup_by` with any comparison callback under ANY panic oracle (the comparison and the destructors may panic
    at any call): however the call ends (return, unwinding panic, double-panic abort) the vector is well formed in its
    own block, and what it exposes together with what was destroyed is a rearrangement of what it held -/
theorem C04_dedup_by_any (X : Ctx) (same : Nat → Elem → Elem → VM Bool) (hs : SameAny same) (s : St) (es : List Elem)
    (h : Abs X s.v es) :
    ∃ r s' cur gone, Vec.dedup_by X same s = (r, s') ∧ DropOutcome r ∧ Abs X s'.v cur ∧ (cur ++ gone).Perm es ∧
      s'.v.cap = s.v.cap ∧ s'.v.blk.map (·.bid) = s.v.blk.map (·.bid) ∧
      (r ≠ .error .doublePanic → ownEvents s'.sys.tr = ownEvents s.sys.tr ++ dropEvents X gone) := by
  have hL : (hsOf s.v s.sys.allocIdx).L = es.length := h.len_eq
  by_cases hlt : es.length < 2
  · have h1 : VM.lift X (dedup_by_pre X.env) s = (.ok (.ret 0), s) :=
      lift_read X _ s _ (by
        unfold dedup_by_pre
        simp only [len_run, GM.bind_run, hL, hlt, decide_true, if_true, GM.pure_run])
    refine ⟨.ok (), s, es, [], ?_, .ok, h, by simp, rfl, rfl, fun _ => by simp [dropEvents]⟩
    unfold Vec.dedup_by
    simp only [VM.bind_run, h1, VM.pure_run]
  · have hd : s.v.isDefault = false := by
      cases hd : s.v.isDefault
      · rfl
      · have := (h.sentinel hd).2; subst this; simp at hlt
    obtain ⟨b, hb, hl, hsl, hlc, hel, hinit⟩ := h.alloc hd
    have hal : b.lay.align = s.v.align := (make_layout_honest _ _ _ _ hl).2.1
    have hcapb : s.v.cap ≤ b.slots.length := by rw [hsl]; exact physSlots_ge X.env _ _ _ hl h.elem_pos
    have hptr := as_mut_ptr_run X.env (hsOf s.v s.sys.allocIdx) hd b.lay s.v.cap hl
    have h1 : VM.lift X (dedup_by_pre X.env) s = (.ok (.cont ⟨es.length, .at (dataOff s.v.align)⟩), s) :=
      lift_read X _ s _ (by
        unfold dedup_by_pre
        simp only [len_run, GM.bind_run, hL, hlt, decide_false, Bool.false_eq_true, if_false, hptr, GM.pure_run]
        rfl)
    have h2 := inb_blk s b hb es.length (by omega)
    rw [hal] at h2
    cases es with
    | nil => simp at hlt
    | cons e0 rest =>
      simp only [List.length_cons] at h2
      rcases dedup_go_any X same hs rest [e0] [] 0 s (by simpa using h) hd (by simp) with
        ⟨s1, k2, r2, rej, hrun, habs1, hsub, hperm, hrp, hc1, hd1, hal1, hb1, htr1⟩ | ⟨s1, cur, hrun, habs1, hperm, hc1, hb1, htr1⟩
      · simp only [List.length_singleton, List.length_nil, Nat.add_zero, List.nil_append] at hrun hrp
        obtain ⟨r, s2, ht, hr, habs2, hb2, hc2, hev, _⟩ := C04_truncate_partial X s1 _ ([e0] ++ k2).length habs1
        refine ⟨r, s2, [e0] ++ k2, rej, ?_, hr, by simpa using habs2, ?_, by rw [hc2, hc1], by rw [hb2, hb1], ?_⟩
        · unfold Vec.dedup_by
          simp only [VM.bind_run, h1, List.length_cons, Nat.add_sub_cancel, h2, hrun]
          exact ht
        · have : (k2 ++ rej).Perm rest := (List.Perm.append_left _ hrp).trans hperm
          simpa using this.cons e0
        · intro hne
          have := hev hne
          simpa [htr1] using this
      · simp only [List.length_singleton, List.length_nil, Nat.add_zero] at hrun hperm
        refine ⟨.error .explicit, s1, cur, [], ?_, .panicked, habs1, by simpa using hperm, hc1, hb1,
          fun _ => by simp [htr1, dropEvents]⟩
        unfold Vec.dedup_by
        simp only [VM.bind_run, h1, List.length_cons, Nat.add_sub_cancel, h2, hrun]

theorem eqElem_sameAny (X : Ctx) : SameAny (fun _ a b => Vec.eqElem X a b) := by
  intro k a b s
  simp only [Vec.eqElem, VM.callback]
  by_cases hp : X.o.panicAt s.sys.cbIdx = true
  · simp only [hp, if_true]
    exact ⟨_, _, rfl, rfl, rfl, .inr rfl⟩
  · simp only [hp, Bool.false_eq_true, if_false]
    exact ⟨_, _, rfl, rfl, rfl, .inl ⟨_, rfl⟩⟩

theorem pred2_sameAny (X : Ctx) (f : Vec.Pred2) : SameAny (fun k a b => do VM.callback X; pure (f k a b)) := by
  intro k a b s
  simp only [VM.bind_run, VM.callback]
  by_cases hp : X.o.panicAt s.sys.cbIdx = true
  · simp only [hp, if_true]
    exact ⟨_, _, rfl, rfl, rfl, .inr rfl⟩
  · simp only [hp, Bool.false_eq_true, if_false, VM.pure_run]
    exact ⟨_, _, rfl, rfl, rfl, .inl ⟨_, rfl⟩⟩

theorem key_sameAny (X : Ctx) (key : Nat → Elem → Int) :
    SameAny (fun k a b => do
      VM.callback X
      let ka := key (2 * k) a
      VM.callback X
      let kb := key (2 * k + 1) b
      pure (ka == kb)) := by
  intro k a b s
  simp only [VM.bind_run, VM.callback]
  by_cases hp : X.o.panicAt s.sys.cbIdx = true
  · simp only [hp, if_true]
    exact ⟨_, _, rfl, rfl, rfl, .inr rfl⟩
  · simp only [hp, Bool.false_eq_true, if_false]
    by_cases hp2 : X.o.panicAt (s.sys.cbIdx + 1) = true
    · simp only [hp2, if_true]
      exact ⟨_, _, rfl, rfl, rfl, .inr rfl⟩
    · simp only [hp2, Bool.false_eq_true, if_false, VM.pure_run]
      exact ⟨_, _, rfl, rfl, rfl, .inl ⟨_, rfl⟩⟩

/-- **(C04) `dedup`, `dedup_by`, `dedup_by_key` under ANY panic oracle** -/
theorem C04_dedup_partial (X : Ctx) (s : St) (es : List Elem) (h : Abs X s.v es) :
    (∃ r s' cur gone, Vec.dedup X s = (r, s') ∧ DropOutcome r ∧ Abs X s'.v cur ∧ (cur ++ gone).Perm es ∧
      s'.v.cap = s.v.cap ∧ s'.v.blk.map (·.bid) = s.v.blk.map (·.bid) ∧
      (r ≠ .error .doublePanic → ownEvents s'.sys.tr = ownEvents s.sys.tr ++ dropEvents X gone)) ∧
    (∀ f : Vec.Pred2, ∃ r s' cur gone, Vec.dedup_by_pred X f s = (r, s') ∧ DropOutcome r ∧ Abs X s'.v cur ∧
      (cur ++ gone).Perm es ∧ s'.v.cap = s.v.cap ∧ s'.v.blk.map (·.bid) = s.v.blk.map (·.bid) ∧
      (r ≠ .error .doublePanic → ownEvents s'.sys.tr = ownEvents s.sys.tr ++ dropEvents X gone)) ∧
    (∀ key : Nat → Elem → Int, ∃ r s' cur gone, Vec.dedup_by_key X key s = (r, s') ∧ DropOutcome r ∧ Abs X s'.v cur ∧
      (cur ++ gone).Perm es ∧ s'.v.cap = s.v.cap ∧ s'.v.blk.map (·.bid) = s.v.blk.map (·.bid) ∧
      (r ≠ .error .doublePanic → ownEvents s'.sys.tr = ownEvents s.sys.tr ++ dropEvents X gone)) :=
  ⟨C04_dedup_by_any X _ (eqElem_sameAny X) s es h,
   fun f => C04_dedup_by_any X _ (pred2_sameAny X f) s es h,
   fun key => C04_dedup_by_any X _ (key_sameAny X key) s es h⟩

/-- non-vacuity: an oracle under which the second comparison panics -/
example : (fun k => k == 1 : Nat → Bool) 1 = true := rfl

end MV.Props

#print axioms MV.Props.dedup_go_any
#print axioms MV.Props.C04_dedup_by_any
#print axioms MV.Props.C04_dedup_partial

import MiniVecProof.Props.C03World
import MiniVecProof.Props.C04Histories
import MiniVecProof.Props.C04IntoIter
import MiniVecProof.Props.C04MacroRepeat
import MiniVecProof.Props.C04Serde
/-
  C04 on the register machine (EVERY operation of the protocol: `C04_world_stepAll_partial`; 'partial' because the
  statement is about the model's world, tied to the code by the correspondence): any number of vectors and iterators alive at
  the same time, iterators stepped, dropped or forgotten between operations on other registers — under an ARBITRARY
  panic oracle.

  One step either returns, or stops in a sanctioned way (never an illegal access, a failed internal assertion or a
  hang); and unless it was an abort (allocation failure, a second panic while unwinding) EVERY register is well formed
  afterwards — vectors (`Abs`), live iterators (their invariants; a DrainFilter whose predicate has just panicked keeps
  its scan invariant with the `panicked` flag raised) — so the next operation, on any register, starts from a
  well-formed world whatever panicked before.
-/
namespace MV.Props
open MV MV.Gen MV.GM VM

/-- the step ended the process -/
def aborted : Out → Bool
  | .stopped p => !VM.unwinds p
  | _ => false

/-- `RegOK`, plus a `DrainFilter` whose predicate panicked in its last `next()` -/
def RegOKA (X : Ctx) : Obj → Prop
  | .drainFilter src v f =>
      RegOK X (.drainFilter src v f) ∨
      ∃ f0 kept junk rest, f = { f0 with panicked := true } ∧ DFInv X v f0 kept junk rest
  | o => RegOK X o

def WFWA (X : Ctx) (w : World) : Prop := ∀ r o, w.get r = some o → RegOKA X o

/-- what one step must achieve -/
def StepOK (X : Ctx) (res : World × Out) : Prop :=
  outSane res.2 ∧ (aborted res.2 = false → WFWA X res.1)

theorem RegOKA.of {X : Ctx} {o : Obj} (h : RegOK X o) : RegOKA X o := by
  cases o <;> first | exact h | exact .inl h

theorem WFWA.set_ok {X : Ctx} {w : World} (h : WFWA X w) (r : String) (o : Obj) (ho : RegOKA X o) : WFWA X (w.set r o) := by
  intro r' o' hg
  rw [world_get_set] at hg
  by_cases hr : r' = r
  · simp [hr] at hg; subst hg; exact ho
  · simp [hr] at hg; exact h r' o' hg

theorem WFWA.set_vec {X : Ctx} {w : World} (h : WFWA X w) (r : String) (v : VSt) (es : List Elem) (hv : Abs X v es) :
    WFWA X (w.set r (.vec v)) := h.set_ok r _ (show RegOK X (.vec v) from ⟨es, hv⟩)

theorem WFWA.set_gone {X : Ctx} {w : World} (h : WFWA X w) (r : String) : WFWA X (w.set r .gone) :=
  h.set_ok r .gone (show RegOK X .gone from trivial)

theorem WFWA.set_lent {X : Ctx} {w : World} (h : WFWA X w) (r : String) : WFWA X (w.set r .lent) :=
  h.set_ok r .lent (show RegOK X .lent from trivial)

theorem WFWA.sys {X : Ctx} {w : World} (h : WFWA X w) (sys : Sys) : WFWA X { w with sys := sys } := h

theorem WFWA.vec {X : Ctx} {w : World} (h : WFWA X w) {r : String} {v : VSt} (hg : w.get r = some (.vec v)) :
    ∃ es, Abs X v es := h r _ hg

theorem StepOK.same {X : Ctx} {w : World} (h : WFWA X w) (o : Out) (ho : outSane o) : StepOK X (w, o) := ⟨ho, fun _ => h⟩

/-- a computation on the focused vector under any oracle -/
def VSafeA (X : Ctx) {α} (x : VM α) : Prop :=
  ∀ s es, Abs X s.v es → ∃ r s', x s = (r, s') ∧ Valid X r s'

theorem VSafeA.map {X : Ctx} {α β} {x : VM α} (h : VSafeA X x) (f : α → β) : VSafeA X (do let a ← x; pure (f a)) :=
  fun s es habs => Valid.bind_pure x f s (h s es habs)

theorem VSafeA.mk {X : Ctx} {α} (val : Int) {f : Elem → VM α} (h : ∀ e, VSafeA X (f e)) :
    VSafeA X (do let e ← VM.mkElem val; f e) := by
  intro s es habs
  have := h ⟨s.sys.nextId, val⟩ { s with sys := { s.sys with nextId := s.sys.nextId + 1 } } es habs
  simpa only [VM.bind_run, mkElem_run] using this

theorem VSafeA.mkMany {X : Ctx} {α} (vals : List Int) {f : List Elem → VM α} (h : ∀ es, VSafeA X (f es)) :
    VSafeA X (do let es ← vals.mapM VM.mkElem; f es) := by
  intro s es habs
  obtain ⟨new, s', hr, hv, _⟩ := mapM_mkElem_run vals s
  simp only [VM.bind_run, hr]
  exact h _ _ es (by rw [hv]; exact habs)

/-- an operation on one vector register -/
theorem onVecReg_safeA (X : Ctx) (w : World) (r : String) (x : VM Out) (hx : VSafeA X x) (hw : WFWA X w)
    (hsane : ∀ s o s', x s = (.ok o, s') → outSane o ∧ aborted o = false) :
    StepOK X (w.onVecReg r x) := by
  unfold World.onVecReg
  cases hg : w.get r with
  | none => exact StepOK.same hw _ trivial
  | some o =>
    cases o with
    | vec v =>
      obtain ⟨es, habs⟩ := hw.vec hg
      simp only [runOn]
      obtain ⟨res, s', hr, hv⟩ := hx { sys := w.sys, v := v } es habs
      rw [hr]
      cases res with
      | ok a =>
        obtain ⟨es', ha⟩ := hv
        exact ⟨(hsane _ _ _ hr).1, fun _ => (hw.sys s'.sys).set_vec r s'.v es' ha⟩
      | error p =>
        refine ⟨hv.1, fun hab => ?_⟩
        have hu : VM.unwinds p = true := by simpa [aborted] using hab
        obtain ⟨es', ha⟩ := hv.2 hu
        exact (hw.sys s'.sys).set_vec r s'.v es' ha
    | _ => exact StepOK.same hw _ trivial

theorem onVecReg_map_safeA (X : Ctx) (w : World) (r : String) {α} (y : VM α) (f : α → Out) (hy : VSafeA X y)
    (hf : ∀ a, outSane (f a) ∧ aborted (f a) = false) (hw : WFWA X w) :
    StepOK X (w.onVecReg r (do let a ← y; pure (f a))) := by
  refine onVecReg_safeA X w r _ (hy.map f) hw ?_
  intro s o s' h
  simp only [VM.bind_run] at h
  cases hys : y s with
  | mk res s1 =>
    rw [hys] at h
    cases res with
    | ok a => simp only [VM.pure_run, Prod.mk.injEq, Except.ok.injEq] at h; rw [← h.1]; exact hf a
    | error p => simp at h

theorem onVecReg_mk_safeA (X : Ctx) (w : World) (r : String) {α} (val : Int) (y : Elem → VM α) (f : α → Out)
    (hy : ∀ e, VSafeA X (y e)) (hf : ∀ a, outSane (f a) ∧ aborted (f a) = false) (hw : WFWA X w) :
    StepOK X (w.onVecReg r (do let e ← VM.mkElem val; let a ← y e; pure (f a))) := by
  refine onVecReg_safeA X w r _ (VSafeA.mk val fun e => (hy e).map f) hw ?_
  intro s o s' h
  simp only [VM.bind_run, mkElem_run] at h
  generalize y ⟨s.sys.nextId, val⟩ { s with sys := { s.sys with nextId := s.sys.nextId + 1 } } = out at h
  obtain ⟨res, s1⟩ := out
  cases res with
  | ok a => simp only [VM.pure_run, Prod.mk.injEq, Except.ok.injEq] at h; rw [← h.1]; exact hf a
  | error p => simp at h

theorem sane_ok : outSane Out.ok ∧ aborted Out.ok = false := ⟨trivial, rfl⟩
theorem sane_some (e : Elem) : outSane (Out.some e) ∧ aborted (Out.some e) = false := ⟨trivial, rfl⟩
theorem sane_optOut (o : Option Elem) : outSane (optOut o) ∧ aborted (optOut o) = false := by cases o <;> exact ⟨trivial, rfl⟩

/-! ### The single-vector operations under any oracle, every argument -/

section ops
variable (X : Ctx)

theorem vsafeA_capMem (x : VM Unit) (h : ∀ s es, Abs X s.v es → CapMem X s es (x s)) : VSafeA X x :=
  fun s es habs => capMem_valid X s es x habs (h s es habs)

theorem vsafeA_push (e : Elem) : VSafeA X (Vec.push X e) := by
  intro s es habs
  have := push_spec X s es e habs
  generalize Vec.push X e s = out at this
  cases this with
  | pushed s' ha _ => exact ⟨_, s', rfl, .ok ha⟩
  | stopped p s' hv hp => exact ⟨_, s', rfl, .err hp (by rw [hv]; exact habs)⟩

theorem vsafeA_pop : VSafeA X (Vec.pop X) := by
  intro s es habs
  have ⟨h1, h2⟩ := pop_spec X s es habs
  rcases List.eq_nil_or_concat es with hnil | ⟨es', e, he⟩
  · exact ⟨_, s, h1 hnil, .ok habs⟩
  · have he' : es = es' ++ [e] := by simpa using he
    obtain ⟨v', hr, ha, _⟩ := h2 es' e he'
    exact ⟨_, _, hr, .ok ha⟩

theorem vsafeA_insert (i : Nat) (e : Elem) : VSafeA X (Vec.insert X i e) := by
  intro s es habs
  have := (insert_spec X s es i e habs).1
  generalize Vec.insert X i e s = out at this
  cases this with
  | inserted s' _ ha => exact ⟨_, s', rfl, .ok ha⟩
  | stopped p s' hv hp => exact ⟨_, s', rfl, .err hp (by rw [hv]; exact habs)⟩

theorem vsafeA_remove (i : Nat) : VSafeA X (Vec.remove X i) := by
  intro s es habs
  by_cases hi : i < es.length
  · obtain ⟨v', hr, ha, _⟩ := remove_spec X s es i habs hi
    exact ⟨_, _, hr, .ok ha⟩
  · have hL : (hsOf s.v s.sys.allocIdx).L = es.length := habs.len_eq
    have h1 : VM.lift X (remove_pre X.env i) s = (.error .explicit, s) :=
      lift_read X _ s _ (by rw [C11_remove, hL, if_pos (by omega)])
    refine ⟨.error .explicit, s, ?_, .err rfl habs⟩
    unfold Vec.remove
    simp only [VM.bind_run, h1]

theorem vsafeA_swap_remove (i : Nat) : VSafeA X (Vec.swap_remove X i) := by
  intro s es habs
  by_cases hi : i < es.length
  · obtain ⟨v', hr, ha, _⟩ := swap_remove_spec X s es i habs hi
    exact ⟨_, _, hr, .ok ha⟩
  · have hL : (hsOf s.v s.sys.allocIdx).L = es.length := habs.len_eq
    have h1 : VM.lift X (swap_remove_pre X.env i) s = (.error .explicit, s) :=
      lift_read X _ s _ (by rw [C11_swap_remove, hL, if_pos (by omega)])
    refine ⟨.error .explicit, s, ?_, .err rfl habs⟩
    unfold Vec.swap_remove
    simp only [VM.bind_run, h1]

theorem vsafeA_truncate (n : Nat) : VSafeA X (Vec.truncate X n) := by
  intro s es habs
  obtain ⟨r, s', hr, hro, ha, _⟩ := C04_truncate_partial X s es n habs
  exact ⟨r, s', hr, .ofDrop hro ha⟩

theorem vsafeA_clear : VSafeA X (Vec.clear X) := by
  intro s es habs
  obtain ⟨r, s', hr, hro, ha, _⟩ := C04_clear_partial X s es habs
  exact ⟨r, s', hr, .ofDrop hro ha⟩

theorem vsafeA_retain (f : Vec.Pred1) : VSafeA X (Vec.retain X f) := by
  intro s es habs
  obtain ⟨r, s', cur, gone, hr, hro, ha, _⟩ := C04_retain_partial X f s es habs
  exact ⟨r, s', hr, .ofDrop hro ha⟩

theorem vsafeA_extend (it : Vec.IterScript) : VSafeA X (Vec.extend X it) := by
  intro s es habs
  obtain ⟨r, s', new, hr, ha, _, hr2⟩ := C04_extend_any X it s es habs
  refine ⟨r, s', hr, ?_⟩
  cases r with
  | ok u => exact .ok ha
  | error p => exact .err hr2 ha

theorem vsafeA_extend_from_slice (elems : List Elem) : VSafeA X (Vec.extend_from_slice X elems) := by
  intro s es habs
  obtain ⟨r, s', new, hr, ha, _, hr2⟩ := C04_extend_from_slice_any X elems s es habs
  refine ⟨r, s', hr, ?_⟩
  cases r with
  | ok u => exact .ok ha
  | error p => exact .err hr2 ha

theorem vsafeA_resize (n : Nat) (value : Elem) : VSafeA X (Vec.resize X n value) :=
  fun s es habs => resize_any_all X n value s es habs

theorem vsafeA_resize_with (n : Nat) (g : Nat → Int) : VSafeA X (Vec.resize_with X n g) :=
  fun s es habs => resize_with_any_all X n g s es habs

theorem vsafeA_dedup : VSafeA X (Vec.dedup X) := by
  intro s es habs
  obtain ⟨r, s', cur, gone, hr, hro, ha, _⟩ := (C04_dedup_partial X s es habs).1
  exact ⟨r, s', hr, .ofDrop hro ha⟩

theorem vsafeA_dedup_by (f : Vec.Pred2) : VSafeA X (Vec.dedup_by_pred X f) := by
  intro s es habs
  obtain ⟨r, s', cur, gone, hr, hro, ha, _⟩ := (C04_dedup_partial X s es habs).2.1 f
  exact ⟨r, s', hr, .ofDrop hro ha⟩

theorem vsafeA_dedup_by_key (key : Nat → Elem → Int) : VSafeA X (Vec.dedup_by_key X key) := by
  intro s es habs
  obtain ⟨r, s', cur, gone, hr, hro, ha, _⟩ := (C04_dedup_partial X s es habs).2.2 key
  exact ⟨r, s', hr, .ofDrop hro ha⟩

theorem vsafeA_remove_item (probe : Elem) : VSafeA X (Vec.remove_item X probe) :=
  fun s es habs => remove_item_any X probe s es habs

theorem vsafeA_extend_from_within (b1 b2 : Bound) : VSafeA X (Vec.extend_from_within X b1 b2) :=
  fun s es habs => extend_from_within_any X s es b1 b2 habs

end ops

/-! ### Constructors under any oracle -/

theorem mkReg_safeA (X : Ctx) (w : World) (r : String) (x : VM VSt) (hx : CSafe X x) (hw : WFWA X w) :
    StepOK X (w.mkReg r x) := by
  unfold World.mkReg
  cases hf : w.fresh r with
  | false => simp only [Bool.not_false, if_true]; exact StepOK.same hw _ trivial
  | true =>
    simp only [Bool.not_true, Bool.false_eq_true, if_false, runOn]
    rcases hx { sys := w.sys, v := {} } rfl with ⟨o, s', new, hr, ha⟩ | ⟨p, s', hr, hb⟩
    · rw [hr]; exact ⟨trivial, fun _ => (hw.sys s'.sys).set_vec r o new ha⟩
    · rw [hr]; exact ⟨hb, fun _ => hw.sys s'.sys⟩

section ctorsA
variable (X : Ctx) (hz : 0 < X.c.elemSize)
include hz

theorem csafeA_new : CSafe X (do VM.lift X (Gen.new X.env); VM.getV) := by
  intro s hv
  have h1 := lift_new_empty X hz s
  have hs : ({ s with v := {} } : St) = s := by cases s; simp at hv; simp [hv]
  rw [hs] at h1
  refine .inl ⟨s.v, s, [], by simp only [VM.bind_run, h1, VM.getV_run], by rw [hv]; exact Abs.sentinel_abs X hz⟩

theorem csafeA_with_capacity (n : Nat) : CSafe X (do VM.lift X (Gen.with_capacity X.env n); VM.getV) := by
  intro s hv
  have := with_capacity_mem X hz s hv n
  simp only [VM.bind_run]
  generalize VM.lift X (Gen.with_capacity X.env n) s = out at this
  cases this with
  | same => exact .inl ⟨s.v, s, [], by simp [VM.getV_run], by rw [hv]; exact Abs.sentinel_abs X hz⟩
  | stopped p s' _ hp _ => exact .inr ⟨p, s', rfl, hp⟩
  | grown s' ha _ _ _ _ => exact .inl ⟨s'.v, s', [], by simp [VM.getV_run], ha⟩

theorem csafeA_from_slice (vals : List Int) : CSafe X (do let es ← vals.mapM VM.mkElem; Vec.from_slice X es) := by
  intro s _
  obtain ⟨es, s1, hr, _, _⟩ := mapM_mkElem_run vals s
  simp only [VM.bind_run, hr]
  rcases C04_from_slice_any X hz es s1 with ⟨o, s', new, hrun, _, ha, _⟩ | ⟨p, s', hrun, hb, _⟩
  · exact .inl ⟨o, s', new, hrun, ha⟩
  · exact .inr ⟨p, s', hrun, hb⟩

theorem csafeA_collect (it : Vec.IterScript) : CSafe X (do let (v, _) ← Vec.collect X it; pure v) := by
  intro s _
  rcases C04_collect_any X it s hz with ⟨o, s', new, hrun, _, ha, _⟩ | ⟨p, s', hrun, hb, _⟩
  · exact .inl ⟨o, s', new, by simp only [VM.bind_run, hrun]; rfl, ha⟩
  · exact .inr ⟨p, s', by simp only [VM.bind_run, hrun], hb⟩

theorem csafeA_macro_repeat (val : Int) (n : Nat) : CSafe X (Vec.macro_repeat X val n) := by
  intro s _
  rcases C04_macro_repeat_any X hz val n s with ⟨o, s', new, hrun, _, ha, _⟩ | ⟨p, s', hrun, hb, _⟩
  · exact .inl ⟨o, s', new, hrun, ha⟩
  · exact .inr ⟨p, s', hrun, hb⟩

/-- `mini_vec![a, b, c]` calls no user code; the local vector is unwound if a push stops -/
theorem csafeA_macro_list (vals : List Int) : CSafe X (Vec.macro_list X vals) := by
  intro s _
  have hround : RoundSpec X vals.length (fun i e => vals[i]? = some e.val) (fun i => do
      let e ← VM.mkElem (vals.getD i 0)
      Vec.push X e) := by
    intro i s1 acc hi habs
    simp only [VM.bind_run, mkElem_run]
    let s2 : St := { s1 with sys := { s1.sys with nextId := s1.sys.nextId + 1 } }
    have hp := push_spec X s2 acc ⟨s1.sys.nextId, vals.getD i 0⟩ habs
    generalize Vec.push X ⟨s1.sys.nextId, vals.getD i 0⟩ s2 = out at hp
    cases hp with
    | pushed s' habs' _ =>
      refine .inl ⟨_, s', rfl, habs', ?_⟩
      simp [List.getD_eq_getElem?_getD, List.getElem?_eq_getElem hi]
    | stopped p s' hv' hb => exact .inr ⟨p, s', rfl, hb, hv'⟩
  have hx : (∃ a s', (do
        VM.lift X (new X.env)
        VM.forN vals.length (fun i => do
          let e ← VM.mkElem (vals.getD i 0)
          Vec.push X e) : VM Unit) { s with v := {} } = (.ok a, s') ∧ ∃ new, Abs X s'.v new) ∨
      (∃ p s' acc, (do
        VM.lift X (new X.env)
        VM.forN vals.length (fun i => do
          let e ← VM.mkElem (vals.getD i 0)
          Vec.push X e) : VM Unit) { s with v := {} } = (.error p, s') ∧ Panic.benign p = true ∧ Abs X s'.v acc) := by
    have h1 := lift_new_empty X hz s
    simp only [VM.bind_run, h1]
    rcases forN_spec X vals.length _ _ hround { s with v := {} } [] (Abs.sentinel_abs X hz) with
      ⟨l, s2, hrun, habs2, _, _⟩ | ⟨p, s2, acc, hrun, hb, habs2⟩
    · exact .inl ⟨(), s2, hrun, l, by simpa using habs2⟩
    · exact .inr ⟨p, s2, acc, hrun, hb, habs2⟩
  unfold Vec.macro_list
  simp only [VM.bind_run]
  rcases withLocal_any X _ s (fun _ s' => ∃ new, Abs X s'.v new) hx with ⟨a, s', hrun, new, habs⟩ | ⟨p, s', hrun, hb, _⟩
  · rw [hrun]; exact .inl ⟨s'.v, _, new, rfl, habs⟩
  · rw [hrun]; exact .inr ⟨p, s', rfl, hb⟩

end ctorsA

/-! ### One step of the register machine under any oracle -/

def opCoveredA : Op → Bool
  | .new _ | .default _ | .macro_empty _ | .with_capacity .. | .from_slice .. | .collect .. | .macro_list .. | .macro_repeat ..
  | .push .. | .pop _ | .insert .. | .remove .. | .swap_remove .. | .truncate .. | .clear _ | .resize .. | .resize_with ..
  | .extend .. | .extend_from_slice .. | .extend_from_within .. | .dedup _ | .dedup_by .. | .dedup_by_key .. | .retain ..
  | .remove_item .. | .reserve .. | .reserve_exact .. | .shrink_to .. | .shrink_to_fit _
  | .forget _ | .drop _ | .drain .. | .splice .. | .drain_filter .. | .into_iter .. | .next _ | .next_back _ | .size_hint _ | .len _
  | .split_off .. | .drain_vec .. | .clone .. | .clone_from .. | .append .. => true
  | _ => false

theorem dropVec_default (X : Ctx) (s : St) (hd : s.v.isDefault = true) : Vec.dropVec X s = (.ok (), s) := by
  have h1 : VM.lift X (drop_impl_pre X.env) s = (.ok (.ret 0), s) :=
    lift_read X _ s _ (by simp [drop_impl_pre, hsOf, hd])
  unfold Vec.dropVec
  simp only [VM.bind_run, h1, VM.pure_run]

theorem into_default_dropA (X : Ctx) (s : St) (it : IntoIterSt) (hd : s.v.isDefault = true) :
    IntoIter.drop X it s = (.ok (), s) := by
  have e1 : VM.lift X GM.isDefault s = (.ok true, s) := by rw [lift_isDefault, hd]
  unfold IntoIter.drop VM.guarded
  simp only [VM.bind_run, e1, if_true, VM.pure_run, dropVec_default X s hd]

/-- `next()` of a DrainFilter whose `panicked` flag is raised: the flag plays no part while elements are left -/
theorem df_next_flag (X : Ctx) (f0 : DFSt) (s : St) (fuel : Nat) :
    (f0.pos < f0.oldLen → DrainFilter.next X (fuel + 1) { f0 with panicked := true } s = DrainFilter.next X (fuel + 1) f0 s) ∧
    (¬ f0.pos < f0.oldLen → DrainFilter.next X (fuel + 1) { f0 with panicked := true } s =
        (.ok (.done, { f0 with panicked := true }), s)) := by
  constructor
  · intro h
    conv => lhs; unfold DrainFilter.next
    conv => rhs; unfold DrainFilter.next
    simp only [h, if_true]
  · intro h
    unfold DrainFilter.next
    simp only [h, if_false, VM.pure_run]

/-- one `next()` of a DrainFilter register under any oracle -/
theorem df_reg_stepA (X : Ctx) (src : String) (v : VSt) (f : DFSt) (sys : Sys) (h : RegOKA X (.drainFilter src v f)) :
    ∃ st f' s', DrainFilter.next X (f.oldLen - f.pos + 1) f { sys := sys, v := v } = (.ok (st, f'), s') ∧
      RegOKA X (.drainFilter src s'.v f') := by
  have fromInv : ∀ (f1 : DFSt) kept junk rest, DFInv X v f1 kept junk rest →
      ∃ st f' s', DrainFilter.next X (f1.oldLen - f1.pos + 1) f1 { sys := sys, v := v } = (.ok (st, f'), s') ∧
        RegOKA X (.drainFilter src s'.v f') := by
    intro f1 kept junk rest hinv
    obtain ⟨s', st, f', junk', rest', mid, hr, _, _, _, hcases⟩ := df_next_any X rest kept junk f1 { sys := sys, v := v }
      (f1.oldLen - f1.pos + 1) hinv (by have := hinv.ps; have := hinv.ol; omega)
    refine ⟨st, f', s', hr, ?_⟩
    rcases hcases with ⟨e, _, _, hinv'⟩ | ⟨_, _, _, hinv'⟩ | ⟨_, _, _, f0, hf0, hinv'⟩
    · exact .inl (.inl ⟨_, _, _, hinv'⟩)
    · exact .inl (.inl ⟨_, _, _, hinv'⟩)
    · exact .inr ⟨f0, _, _, _, hf0, hinv'⟩
  rcases h with (⟨kept, junk, rest, hinv⟩ | ⟨hd, habs, ho, hp, hn, hpk⟩) | ⟨f0, kept, junk, rest, hf, hinv⟩
  · exact fromInv f kept junk rest hinv
  · refine ⟨.done, f, { sys := sys, v := v }, ?_, .inl (.inr ⟨hd, habs, ho, hp, hn, hpk⟩)⟩
    rw [show f.oldLen - f.pos + 1 = 0 + 1 by omega]
    exact df_default_next X f _ ho hp 0
  · subst hf
    by_cases hlt : f0.pos < f0.oldLen
    · obtain ⟨st, f', s', hr, hok⟩ := fromInv f0 kept junk rest hinv
      refine ⟨st, f', s', ?_, hok⟩
      show DrainFilter.next X (f0.oldLen - f0.pos + 1) { f0 with panicked := true } _ = _
      rw [(df_next_flag X f0 _ (f0.oldLen - f0.pos)).1 hlt]; exact hr
    · refine ⟨.done, _, { sys := sys, v := v }, ?_, .inr ⟨f0, kept, junk, rest, rfl, hinv⟩⟩
      show DrainFilter.next X (f0.oldLen - f0.pos + 1) { f0 with panicked := true } _ = _
      exact (df_next_flag X f0 _ (f0.oldLen - f0.pos)).2 hlt

theorem dfinv_empty_abs {X : Ctx} {v : VSt} {f : DFSt} {kept junk rest : List Elem} (hinv : DFInv X v f kept junk rest) :
    Abs X v [] := by
  have h0 := hinv.full.shorten 0 (by omega) (by simpa using hinv.hd)
  have hv : ({ ({ v with len := f.oldLen } : VSt) with len := 0 } : VSt) = v := by
    have hl := hinv.len0
    cases hvv : v; simp [hvv] at *; omega
  rw [hv] at h0
  simpa using h0

theorem sane_stopped_of_valid {X : Ctx} {α} {p : Panic} {s' : St} (h : Valid X (.error p : Except Panic α) s') :
    outSane (.stopped p) := h.1

/-- **one step** (covered operations, any register names, any arguments, any panic oracle) -/
theorem C04_world_step_partial (X : Ctx) (hz : 0 < X.c.elemSize) (w : World) (op : Op)
    (hc : opCoveredA op = true) (hw : WFWA X w) : StepOK X (step X w op) := by
  cases op <;> simp only [opCoveredA] at hc <;> try (exact absurd hc (by decide))
  all_goals unfold step
  case new r => exact mkReg_safeA X w r _ (csafeA_new X hz) hw
  case default r => exact mkReg_safeA X w r _ (csafeA_new X hz) hw
  case macro_empty r => exact mkReg_safeA X w r _ (csafeA_new X hz) hw
  case with_capacity r n => exact mkReg_safeA X w r _ (csafeA_with_capacity X hz n) hw
  case from_slice r vals => exact mkReg_safeA X w r _ (csafeA_from_slice X hz vals) hw
  case collect r it => exact mkReg_safeA X w r _ (csafeA_collect X hz it) hw
  case macro_list r vals => exact mkReg_safeA X w r _ (csafeA_macro_list X hz vals) hw
  case macro_repeat r val n => exact mkReg_safeA X w r _ (csafeA_macro_repeat X hz val n) hw
  case push r val => exact onVecReg_mk_safeA X w r val _ (fun _ => Out.ok) (fun e => vsafeA_push X e) (fun _ => sane_ok) hw
  case pop r => exact onVecReg_map_safeA X w r _ optOut (vsafeA_pop X) sane_optOut hw
  case insert r i val => exact onVecReg_mk_safeA X w r val _ (fun _ => Out.ok) (fun e => vsafeA_insert X i e) (fun _ => sane_ok) hw
  case remove r i => exact onVecReg_map_safeA X w r _ Out.some (vsafeA_remove X i) sane_some hw
  case swap_remove r i => exact onVecReg_map_safeA X w r _ Out.some (vsafeA_swap_remove X i) sane_some hw
  case truncate r n => exact onVecReg_map_safeA X w r _ (fun _ => Out.ok) (vsafeA_truncate X n) (fun _ => sane_ok) hw
  case clear r => exact onVecReg_map_safeA X w r _ (fun _ => Out.ok) (vsafeA_clear X) (fun _ => sane_ok) hw
  case resize r n val => exact onVecReg_mk_safeA X w r val _ (fun _ => Out.ok) (fun e => vsafeA_resize X n e) (fun _ => sane_ok) hw
  case resize_with r n g => exact onVecReg_map_safeA X w r _ (fun _ => Out.ok) (vsafeA_resize_with X n _) (fun _ => sane_ok) hw
  case extend r it => exact onVecReg_map_safeA X w r _ (fun _ => Out.ok) (vsafeA_extend X it) (fun _ => sane_ok) hw
  case extend_from_within r b1 b2 => exact onVecReg_map_safeA X w r _ (fun _ => Out.ok) (vsafeA_extend_from_within X b1 b2) (fun _ => sane_ok) hw
  case dedup r => exact onVecReg_map_safeA X w r _ (fun _ => Out.ok) (vsafeA_dedup X) (fun _ => sane_ok) hw
  case dedup_by r p => exact onVecReg_map_safeA X w r _ (fun _ => Out.ok) (vsafeA_dedup_by X _) (fun _ => sane_ok) hw
  case dedup_by_key r k => exact onVecReg_map_safeA X w r _ (fun _ => Out.ok) (vsafeA_dedup_by_key X _) (fun _ => sane_ok) hw
  case retain r p => exact onVecReg_map_safeA X w r _ (fun _ => Out.ok) (vsafeA_retain X _) (fun _ => sane_ok) hw
  case remove_item r val => exact onVecReg_mk_safeA X w r val _ optOut (fun e => vsafeA_remove_item X e) sane_optOut hw
  case reserve r n => exact onVecReg_map_safeA X w r _ (fun _ => Out.ok) (vsafeA_capMem X _ (fun s es h => reserve_mem X s es n h)) (fun _ => sane_ok) hw
  case reserve_exact r n => exact onVecReg_map_safeA X w r _ (fun _ => Out.ok) (vsafeA_capMem X _ (fun s es h => reserve_exact_mem X s es n h)) (fun _ => sane_ok) hw
  case shrink_to r n => exact onVecReg_map_safeA X w r _ (fun _ => Out.ok) (vsafeA_capMem X _ (fun s es h => shrink_to_mem X s es n h)) (fun _ => sane_ok) hw
  case shrink_to_fit r => exact onVecReg_map_safeA X w r _ (fun _ => Out.ok) (vsafeA_capMem X _ (fun s es h => shrink_to_fit_mem X s es h)) (fun _ => sane_ok) hw
  case extend_from_slice r vals =>
    refine onVecReg_safeA X w r _ (VSafeA.mkMany vals fun es => (vsafeA_extend_from_slice X es).map (fun _ => Out.ok)) hw ?_
    intro s o s' h
    obtain ⟨es, s1, hr, _, _⟩ := mapM_mkElem_run vals s
    simp only [VM.bind_run, hr] at h
    generalize Vec.extend_from_slice X es s1 = out at h
    obtain ⟨res, s2⟩ := out
    cases res with
    | ok a => simp only [VM.pure_run, Prod.mk.injEq, Except.ok.injEq] at h; rw [← h.1]; exact sane_ok
    | error p => simp at h
  case forget r =>
    dsimp only
    split
    · exact ⟨trivial, fun _ => hw.set_gone r⟩
    · rename_i src v d heq
      rcases hw r _ heq with ⟨es, st, en, hinv⟩ | ⟨_, habs, _, _⟩
      · exact ⟨trivial, fun _ => (hw.set_gone r).set_vec src v _ hinv.prefix_abs⟩
      · exact ⟨trivial, fun _ => (hw.set_gone r).set_vec src v _ habs⟩
    · rename_i src v sp heq
      rcases hw r _ heq with ⟨es, st, en, hinv⟩ | ⟨_, habs, _⟩
      · exact ⟨trivial, fun _ => (hw.set_gone r).set_vec src v _ hinv.prefix_abs⟩
      · exact ⟨trivial, fun _ => (hw.set_gone r).set_vec src v _ habs⟩
    · rename_i src v f heq
      rcases hw r _ heq with (⟨kept, junk, rest, hinv⟩ | ⟨_, habs, _⟩) | ⟨f0, kept, junk, rest, _, hinv⟩
      · exact ⟨trivial, fun _ => (hw.set_gone r).set_vec src v _ (dfinv_empty_abs hinv)⟩
      · exact ⟨trivial, fun _ => (hw.set_gone r).set_vec src v _ habs⟩
      · exact ⟨trivial, fun _ => (hw.set_gone r).set_vec src v _ (dfinv_empty_abs hinv)⟩
    · exact ⟨trivial, fun _ => hw.set_gone r⟩
    · exact StepOK.same hw _ trivial
  case drop r =>
    dsimp only
    split
    · rename_i v heq
      obtain ⟨es, habs⟩ := hw.vec heq
      obtain ⟨res, s', hd, hres⟩ := dropVec_any X { sys := w.sys, v := v } es habs
      simp only [runOn, hd]
      rcases hres with rfl | rfl | rfl
      · exact ⟨trivial, fun _ => (hw.sys s'.sys).set_gone r⟩
      · exact ⟨rfl, fun _ => (hw.sys s'.sys).set_gone r⟩
      · exact ⟨rfl, fun hab => by simp [aborted, VM.unwinds] at hab⟩
    · rename_i src v d heq
      simp only [runOn]
      rcases hw r _ heq with ⟨es, st, en, hinv⟩ | ⟨_, habs, hge, ht⟩
      · obtain ⟨res, s', hd, hro, hok⟩ := C04_drain_drop_partial X d { sys := w.sys, v := v } es st en hinv
        rw [hd]
        cases hro with
        | ok => exact ⟨trivial, fun _ => ((hw.sys _).set_gone r).set_vec src s'.v _ (hok (by simp)).1⟩
        | panicked => exact ⟨rfl, fun _ => ((hw.sys _).set_gone r).set_vec src s'.v _ (hok (by simp)).1⟩
        | aborted => exact ⟨rfl, fun hab => by simp [aborted, VM.unwinds] at hab⟩
      · rw [drain_drop_exhausted_notail X d { sys := w.sys, v := v } hge ht]
        exact ⟨trivial, fun _ => ((hw.sys _).set_gone r).set_vec src v _ habs⟩
    · rename_i src v sp heq
      simp only [runOn]
      rcases hw r _ heq with ⟨es, st, en, hinv⟩ | ⟨hd, habs, hge⟩
      · rcases C04_splice_drop_partial X sp { sys := w.sys, v := v } es st en hinv with ⟨s2, new, hr, ha, _⟩ | ⟨p, s2, hr, hb, hab⟩
        · rw [hr]; exact ⟨trivial, fun _ => ((hw.sys _).set_gone r).set_vec src s2.v _ ha⟩
        · rw [hr]
          refine ⟨hb, fun hq => ?_⟩
          have hu : VM.unwinds p = true := by simpa [aborted] using hq
          obtain ⟨cur, ha⟩ := hab hu
          exact ((hw.sys _).set_gone r).set_vec src s2.v _ ha
      · -- a Splice over a never-allocated vector: exhausted, the guard pushes the replacement
        have hnil : Abs X v [] := habs
        have hspd : ∃ res s2, Splice.drop X sp { sys := w.sys, v := v } = (res, s2) ∧ Valid X res s2 := by
          have hn := (drain_next_none sp.d { sys := w.sys, v := v } hge).1
          have hdl : Splice.dropLoop X (sp.d.stop - sp.d.pos + 1) sp { sys := w.sys, v := v } = (.ok sp, { sys := w.sys, v := v }) := by
            rw [show sp.d.stop - sp.d.pos + 1 = 0 + 1 by omega]
            unfold Splice.dropLoop
            simp only [VM.bind_run, hn, VM.pure_run]
          have hdr : Drain.dropRest X (sp.d.stop - sp.d.pos + 1) sp.d { sys := w.sys, v := v } = (.ok sp.d, { sys := w.sys, v := v }) := by
            rw [show sp.d.stop - sp.d.pos + 1 = 0 + 1 by omega]
            unfold Drain.dropRest
            simp only [VM.bind_run, hn, VM.pure_run]
          have hdf : VM.lift X GM.isDefault { sys := w.sys, v := v } = (.ok true, { sys := w.sys, v := v }) := by
            rw [lift_isDefault]; exact congrArg (fun b => (Except.ok b, _)) hd
          have hdrop : Splice.drop X sp { sys := w.sys, v := v } =
              (do let _ ← Vec.forIter X (Vec.push X) (sp.fill.length + 1) sp.fill; pure () : VM Unit) { sys := w.sys, v := v } := by
            unfold Splice.drop
            simp only [VM.bind_run]
            rw [hdl]
            simp only
            unfold Splice.guardBody
            simp only [VM.bind_run, hdr, hdf, if_true]
          rw [hdrop]
          simp only [VM.bind_run]
          obtain ⟨r0, s', new, hrun, habs', _, hr⟩ := forIter_push_any X sp.fill (sp.fill.length + 1) { sys := w.sys, v := v } [] (by omega) hnil
          rw [hrun]
          cases r0 with
          | ok rest => exact ⟨_, s', rfl, .ok habs'⟩
          | error p => exact ⟨_, s', rfl, .err hr habs'⟩
        obtain ⟨res, s2, hr, hv⟩ := hspd
        rw [hr]
        cases res with
        | ok u =>
          obtain ⟨cur, ha⟩ := hv
          exact ⟨trivial, fun _ => ((hw.sys _).set_gone r).set_vec src s2.v _ ha⟩
        | error p =>
          refine ⟨hv.1, fun hq => ?_⟩
          have hu : VM.unwinds p = true := by simpa [aborted] using hq
          obtain ⟨cur, ha⟩ := hv.2 hu
          exact ((hw.sys _).set_gone r).set_vec src s2.v _ ha
    · rename_i src v f heq
      simp only [runOn]
      rcases hw r _ heq with (⟨kept, junk, rest, hinv⟩ | ⟨hd, habs, ho, hp, hn, hpk⟩) | ⟨f0, kept, junk, rest, hf, hinv⟩
      · obtain ⟨res, s2, cur, gone, hr, hres, ha, _⟩ := C04_drain_filter_drop_partial X f { sys := w.sys, v := v } kept junk rest hinv
        rw [hr]
        rcases hres with rfl | rfl
        · exact ⟨trivial, fun _ => ((hw.sys _).set_gone r).set_vec src s2.v _ ha⟩
        · exact ⟨rfl, fun _ => ((hw.sys _).set_gone r).set_vec src s2.v _ ha⟩
      · rw [df_default_drop X f { sys := w.sys, v := v } ho hp hn hpk]
        exact ⟨trivial, fun _ => ((hw.sys _).set_gone r).set_vec src v _ habs⟩
      · subst hf
        obtain ⟨v', hg, habs, _, _⟩ := df_guard_general X f0 { sys := w.sys, v := v } kept junk rest hinv
        have hdrop : DrainFilter.drop X { f0 with panicked := true } { sys := w.sys, v := v } =
            (.ok (), { ({ sys := w.sys, v := v } : St) with v := v' }) := by
          unfold DrainFilter.drop
          simp only [if_true]
          rw [df_guard_flag X f0 _]; exact hg
        rw [hdrop]
        exact ⟨trivial, fun _ => ((hw.sys _).set_gone r).set_vec src v' _ habs⟩
    · rename_i v it heq
      simp only [runOn]
      rcases hw r _ heq with ⟨es, hinv⟩ | ⟨hd, habs⟩
      · obtain ⟨res, s', hd, hro, _⟩ := C04_into_iter_drop_partial X it { sys := w.sys, v := v } es hinv
        rw [hd]
        cases hro with
        | ok => exact ⟨trivial, fun _ => (hw.sys _).set_gone r⟩
        | panicked => exact ⟨rfl, fun _ => (hw.sys _).set_gone r⟩
        | aborted => exact ⟨rfl, fun hab => by simp [aborted, VM.unwinds] at hab⟩
      · rw [into_default_dropA X { sys := w.sys, v := v } it hd]
        exact ⟨trivial, fun _ => (hw.sys _).set_gone r⟩
    · exact StepOK.same hw _ trivial
  case drain r b1 b2 it =>
    dsimp only
    cases hf : w.fresh it with
    | false => simp only [Bool.not_false, if_true]; exact StepOK.same hw _ trivial
    | true =>
      simp only [Bool.not_true, Bool.false_eq_true, if_false]
      split
      · rename_i v heq
        obtain ⟨es, habs⟩ := hw.vec heq
        simp only [runOn]
        cases hres : resolve b1 b2 es.length with
        | none =>
          rw [drain_create_err X { sys := w.sys, v := v } es b1 b2 habs hres]
          exact ⟨rfl, fun _ => (hw.sys _).set_vec r v es habs⟩
        | some se =>
          obtain ⟨st, en⟩ := se
          cases hd : v.isDefault with
          | false =>
            obtain ⟨d, hc, hinv⟩ := drain_create_inv X { sys := w.sys, v := v } es b1 b2 st en habs hd hres
            rw [hc]
            exact ⟨trivial, fun _ => ((hw.sys _).set_lent r).set_ok it _ (RegOKA.of (.inl ⟨es, st, en, hinv⟩))⟩
          | true =>
            have hnil := (habs.sentinel hd).2
            subst hnil
            rw [drain_create_default X { sys := w.sys, v := v } b1 b2 st en habs hd hres]
            exact ⟨trivial, fun _ => ((hw.sys _).set_lent r).set_ok it _ (RegOKA.of (.inr ⟨hd, habs, by simp, rfl⟩))⟩
      · exact StepOK.same hw _ trivial
  case splice r b1 b2 fill it =>
    dsimp only
    cases hf : w.fresh it with
    | false => simp only [Bool.not_false, if_true]; exact StepOK.same hw _ trivial
    | true =>
      simp only [Bool.not_true, Bool.false_eq_true, if_false]
      split
      · rename_i v heq
        obtain ⟨es, habs⟩ := hw.vec heq
        simp only [runOn]
        cases hres : resolve b1 b2 es.length with
        | none =>
          rw [splice_create_err X { sys := w.sys, v := v } es b1 b2 fill habs hres]
          exact ⟨rfl, fun _ => (hw.sys _).set_vec r v es habs⟩
        | some se =>
          obtain ⟨st, en⟩ := se
          cases hd : v.isDefault with
          | false =>
            obtain ⟨d, hc, hinv⟩ := drain_create_inv X { sys := w.sys, v := v } es b1 b2 st en habs hd hres
            rw [splice_create_alloc X { sys := w.sys, v := v } es b1 b2 st en fill habs hd hres]
            refine ⟨trivial, fun _ => ((hw.sys _).set_lent r).set_ok it _ (RegOKA.of (.inl ⟨es, st, en, ?_⟩))⟩
            obtain ⟨_, _, hse, hel'⟩ := (C11_resolve_iff b1 b2 es.length st en).mp hres
            exact { hd := hd, len := rfl, full := hinv.full, ptr := rfl, lo := Nat.le_refl _, mid := hse,
                    hi := Nat.le_refl _, tp := rfl, tl := rfl, en_le := hel' }
          | true =>
            have hnil := (habs.sentinel hd).2
            subst hnil
            have hL : (hsOf v w.sys.allocIdx).L = 0 := by have := habs.len_eq (k := w.sys.allocIdx); simpa using this
            have hptr := as_mut_ptr_run_default X.env (hsOf v w.sys.allocIdx) (by simp [hsOf, hd])
            have hres0 : resolve b1 b2 0 = some (st, en) := hres
            have hrun : splice_pre X.env b1 b2 (hsOf v w.sys.allocIdx) =
                (.ok (.cont ⟨0, st, en, .null⟩), hsOf v w.sys.allocIdx) := by
              rw [C11_splice]
              unfold spliceSpec
              simp only [len_run, GM.bind_run, hL, hres0, hptr, DPtr.isNull, Bool.not_true, GM.ite_run, GM.pure_run]
              rfl
            have h1 := lift_read X (splice_pre X.env b1 b2) { sys := w.sys, v := v } _ hrun
            have hc' : Splice.create X b1 b2 fill { sys := w.sys, v := v } =
                (.ok { d := { ptr := .null, pos := 0, stop := 0, tailPos := 0, tail := 0 }, fill := fill }, { sys := w.sys, v := v }) := by
              unfold Splice.create
              simp only [VM.bind_run, h1, DPtr.isNull, VM.pure_run]
              rfl
            rw [hc']
            exact ⟨trivial, fun _ => ((hw.sys _).set_lent r).set_ok it _ (RegOKA.of (.inr ⟨hd, habs, by simp⟩))⟩
      · exact StepOK.same hw _ trivial
  case drain_filter r p it =>
    dsimp only
    cases hf : w.fresh it with
    | false => simp only [Bool.not_false, if_true]; exact StepOK.same hw _ trivial
    | true =>
      simp only [Bool.not_true, Bool.false_eq_true, if_false]
      split
      · rename_i v heq
        obtain ⟨es, habs⟩ := hw.vec heq
        simp only [runOn]
        cases hd : v.isDefault with
        | false =>
          obtain ⟨v0, hc, hinv, _⟩ := df_create_alloc X p.pred1 { sys := w.sys, v := v } es habs hd
          rw [hc]
          exact ⟨trivial, fun _ => ((hw.sys _).set_lent r).set_ok it _ (.inl (.inl ⟨_, _, _, hinv⟩))⟩
        | true =>
          have hnil := (habs.sentinel hd).2
          subst hnil
          have hL : (hsOf v w.sys.allocIdx).L = 0 := by have := habs.len_eq (k := w.sys.allocIdx); simpa using this
          have h1 : VM.lift X (len X.env) { sys := w.sys, v := v } = (.ok 0, { sys := w.sys, v := v }) :=
            lift_read X _ _ _ (by rw [len_run, hL])
          have hc' : DrainFilter.create X p.pred1 { sys := w.sys, v := v } =
              (.ok { oldLen := 0, newLen := 0, pos := 0, panicked := false, pred := p.pred1, calls := 0 }, { sys := w.sys, v := v }) := by
            unfold DrainFilter.create
            simp only [VM.bind_run, h1, Nat.lt_irrefl, if_false, VM.pure_run, gt_iff_lt]
          rw [hc']
          exact ⟨trivial, fun _ => ((hw.sys _).set_lent r).set_ok it _ (.inl (.inr ⟨hd, habs, rfl, rfl, rfl, rfl⟩))⟩
      · exact StepOK.same hw _ trivial
  case into_iter r it =>
    dsimp only
    cases hf : w.fresh it with
    | false => simp only [Bool.not_false, if_true]; exact StepOK.same hw _ trivial
    | true =>
      simp only [Bool.not_true, Bool.false_eq_true, if_false]
      split
      · rename_i v heq
        obtain ⟨es, habs⟩ := hw.vec heq
        simp only [runOn]
        cases hd : v.isDefault with
        | false =>
          obtain ⟨i, hc, _, hinv, _⟩ := into_create_alloc X { sys := w.sys, v := v } es habs hd
          rw [hc]
          exact ⟨trivial, fun _ => ((hw.sys _).set_gone r).set_ok it _ (RegOKA.of (.inl ⟨es, hinv⟩))⟩
        | true =>
          have hnil := (habs.sentinel hd).2
          subst hnil
          have e1 : VM.lift X GM.isDefault { sys := w.sys, v := v } = (.ok true, { sys := w.sys, v := v }) := by
            rw [lift_isDefault]; exact congrArg (fun b => (Except.ok b, _)) hd
          have hc : IntoIter.create X { sys := w.sys, v := v } = (.ok { ptr := .null, pos := 0 }, { sys := w.sys, v := v }) := by
            unfold IntoIter.create; simp only [VM.bind_run, e1, if_true, VM.pure_run]
          rw [hc]
          exact ⟨trivial, fun _ => ((hw.sys _).set_gone r).set_ok it _ (RegOKA.of (.inr ⟨hd, habs⟩))⟩
      · exact StepOK.same hw _ trivial
  case next it =>
    dsimp only
    split
    · rename_i src v d heq
      obtain ⟨o, d', hr, hok⟩ := drain_reg_step X src v d w.sys false (hw it _ heq)
      simp only [Bool.false_eq_true, if_false] at hr
      simp only [runOn, hr]
      exact ⟨(sane_optOut o).1, fun _ => (hw.sys _).set_ok it _ (RegOKA.of hok)⟩
    · rename_i src v sp heq
      obtain ⟨o, d', hr, hok⟩ := splice_reg_step X src v sp w.sys false (hw it _ heq)
      simp only [Bool.false_eq_true, if_false] at hr
      simp only [runOn, hr]
      exact ⟨(sane_optOut o).1, fun _ => (hw.sys _).set_ok it _ (RegOKA.of hok)⟩
    · rename_i src v f heq
      obtain ⟨st, f', s', hr, hok⟩ := df_reg_stepA X src v f w.sys (hw it _ heq)
      simp only [runOn, hr]
      cases st with
      | item e => exact ⟨trivial, fun _ => (hw.sys _).set_ok it _ hok⟩
      | done => exact ⟨trivial, fun _ => (hw.sys _).set_ok it _ hok⟩
      | predPanicked => exact ⟨rfl, fun _ => (hw.sys _).set_ok it _ hok⟩
    · rename_i v i heq
      obtain ⟨o, i', v', hr, hok⟩ := into_reg_step X v i w.sys false (hw it _ heq)
      simp only [Bool.false_eq_true, if_false] at hr
      simp only [runOn, hr]
      exact ⟨(sane_optOut o).1, fun _ => (hw.sys _).set_ok it _ (RegOKA.of hok)⟩
    · exact StepOK.same hw _ trivial
  case next_back it =>
    dsimp only
    split
    · rename_i src v d heq
      obtain ⟨o, d', hr, hok⟩ := drain_reg_step X src v d w.sys true (hw it _ heq)
      simp only [if_true] at hr
      simp only [runOn, hr]
      exact ⟨(sane_optOut o).1, fun _ => (hw.sys _).set_ok it _ (RegOKA.of hok)⟩
    · rename_i src v sp heq
      obtain ⟨o, d', hr, hok⟩ := splice_reg_step X src v sp w.sys true (hw it _ heq)
      simp only [if_true] at hr
      simp only [runOn, hr]
      exact ⟨(sane_optOut o).1, fun _ => (hw.sys _).set_ok it _ (RegOKA.of hok)⟩
    · rename_i v i heq
      obtain ⟨o, i', v', hr, hok⟩ := into_reg_step X v i w.sys true (hw it _ heq)
      simp only [if_true] at hr
      simp only [runOn, hr]
      exact ⟨(sane_optOut o).1, fun _ => (hw.sys _).set_ok it _ (RegOKA.of hok)⟩
    · exact StepOK.same hw _ trivial
  case size_hint it => dsimp only; split <;> exact StepOK.same hw _ trivial
  case len it => dsimp only; split <;> exact StepOK.same hw _ trivial
  case split_off r at_ rnew =>
    dsimp only
    cases hf : w.fresh rnew with
    | false => simp only [Bool.not_false, if_true]; exact StepOK.same hw _ trivial
    | true =>
      simp only [Bool.not_true, Bool.false_eq_true, if_false]
      split
      · rename_i v heq
        obtain ⟨es, habs⟩ := hw.vec heq
        simp only [runOn]
        by_cases hat : at_ ≤ es.length
        · rcases C01_split_off_partial X { sys := w.sys, v := v } es at_ habs hat with ⟨o, s', hr, ha, ho⟩ | ⟨p, s', hr, hb, es', ha⟩
          · rw [hr]; exact ⟨trivial, fun _ => ((hw.sys s'.sys).set_vec r s'.v _ ha).set_vec rnew o _ ho⟩
          · rw [hr]; exact ⟨hb, fun _ => (hw.sys s'.sys).set_vec r s'.v es' ha⟩
        · have hL : (hsOf v w.sys.allocIdx).L = es.length := habs.len_eq
          have h1 : VM.lift X (split_off_pre X.env at_) { sys := w.sys, v := v } = (.error .explicit, { sys := w.sys, v := v }) :=
            lift_read X _ _ _ (by rw [C11_split_off]; show (if at_ > (hsOf v w.sys.allocIdx).L then _ else _) = _; rw [hL, if_pos (by omega)])
          have hr : Vec.split_off X at_ { sys := w.sys, v := v } = (.error .explicit, { sys := w.sys, v := v }) := by
            unfold Vec.split_off; simp only [VM.bind_run, h1]
          rw [hr]
          exact ⟨rfl, fun _ => (hw.sys w.sys).set_vec r v es habs⟩
      · exact StepOK.same hw _ trivial
  case drain_vec r rnew =>
    dsimp only
    cases hf : w.fresh rnew with
    | false => simp only [Bool.not_false, if_true]; exact StepOK.same hw _ trivial
    | true =>
      simp only [Bool.not_true, Bool.false_eq_true, if_false]
      split
      · rename_i v heq
        obtain ⟨es, habs⟩ := hw.vec heq
        simp only [runOn, C01_drain_vec X hz { sys := w.sys, v := v }]
        exact ⟨trivial, fun _ => ((hw.sys w.sys).set_vec r {} [] (Abs.sentinel_abs X hz)).set_vec rnew v es habs⟩
      · exact StepOK.same hw _ trivial
  case clone r rnew =>
    dsimp only
    cases hf : w.fresh rnew with
    | false => simp only [Bool.not_false, if_true]; exact StepOK.same hw _ trivial
    | true =>
      simp only [Bool.not_true, Bool.false_eq_true, if_false]
      split
      · rename_i v heq
        obtain ⟨es, habs⟩ := hw.vec heq
        simp only [runOn]
        rcases C12_clone_any X { sys := w.sys, v := v } es habs with ⟨o, s', es', hr, hv, ho, _⟩ | ⟨p, s', hr, hb, hv⟩
        · rw [hr]; exact ⟨trivial, fun _ => ((hw.sys s'.sys).set_vec r s'.v es (by rw [hv]; exact habs)).set_vec rnew o es' ho⟩
        · rw [hr]; exact ⟨hb, fun _ => (hw.sys s'.sys).set_vec r s'.v es (by rw [hv]; exact habs)⟩
      · exact StepOK.same hw _ trivial
  case clone_from r rsrc =>
    dsimp only
    split
    · exact StepOK.same hw _ trivial
    · split
      · rename_i v src h1 h2
        obtain ⟨es, habs⟩ := hw.vec h1
        obtain ⟨os, hsrc⟩ := hw.vec h2
        rcases C12_clone_from_any X { sys := w.sys, v := v } es os src habs hsrc with
          ⟨res, s', new, hr, hres, ha, _⟩ | ⟨p, s', hr, hb, hv⟩ | ⟨s', hr⟩
        · simp only [hr]
          rcases hres with rfl | rfl
          · exact ⟨trivial, fun _ => (hw.sys s'.sys).set_vec r s'.v new ha⟩
          · exact ⟨rfl, fun _ => (hw.sys s'.sys).set_vec r s'.v new ha⟩
        · simp only [hr]; exact ⟨hb, fun _ => (hw.sys s'.sys).set_vec r s'.v es (by rw [hv]; exact habs)⟩
        · simp only [hr]; exact ⟨rfl, fun hab => by simp [aborted, VM.unwinds] at hab⟩
      · exact StepOK.same hw _ trivial
  case append r r2 =>
    dsimp only
    split
    · exact StepOK.same hw _ trivial
    · split
      · rename_i v o h1 h2
        obtain ⟨es, habs⟩ := hw.vec h1
        obtain ⟨os, hother⟩ := hw.vec h2
        rcases C01_append_partial X { sys := w.sys, v := v } es os o habs hother with ⟨o', s', hr, ha, ho', _⟩ | ⟨p, s', hr, hb, hv⟩
        · simp only [VM.bind_run, hr, VM.pure_run]
          exact ⟨trivial, fun _ => ((hw.sys s'.sys).set_vec r s'.v _ ha).set_vec r2 o' [] ho'⟩
        · simp only [VM.bind_run, hr]
          exact ⟨hb, fun _ => (hw.sys s'.sys).set_vec r s'.v es (by rw [hv]; exact habs)⟩
      · exact StepOK.same hw _ trivial

/-! ### The remaining operations of `step` (all but the two serde entry points) -/

/-- a computation that leaves the focused vector alone and either returns or unwinds with the one panic a callback
    raised -/
def VPureA {α} (x : VM α) : Prop := ∀ s, ∃ r s', x s = (r, s') ∧ s'.v = s.v ∧ ((∃ a, r = .ok a) ∨ r = .error .explicit)

theorem VPureA.pure' {α} (a : α) : VPureA (pure a : VM α) := fun s => ⟨.ok a, s, rfl, rfl, .inl ⟨a, rfl⟩⟩

theorem VPureA.bind' {α β} {x : VM α} {f : α → VM β} (hx : VPureA x) (hf : ∀ a, VPureA (f a)) : VPureA (x >>= f) := by
  intro s
  obtain ⟨r, s1, h1, hv1, hr1⟩ := hx s
  rcases hr1 with ⟨a, rfl⟩ | rfl
  · obtain ⟨r2, s2, h2, hv2, hr2⟩ := hf a s1
    exact ⟨r2, s2, by simp only [VM.bind_run, h1, h2], hv2.trans hv1, hr2⟩
  · exact ⟨.error .explicit, s1, by simp only [VM.bind_run, h1], hv1, .inr rfl⟩

theorem vpureA_callback (X : Ctx) : VPureA (VM.callback X) := by
  intro s
  unfold VM.callback
  by_cases hp : X.o.panicAt s.sys.cbIdx = true
  · exact ⟨.error .explicit, { s with sys := { s.sys with cbIdx := s.sys.cbIdx + 1 } }, by simp only [hp, if_true], rfl, .inr rfl⟩
  · exact ⟨.ok (), { s with sys := { s.sys with cbIdx := s.sys.cbIdx + 1 } }, by simp only [hp, Bool.false_eq_true, if_false], rfl,
      .inl ⟨(), rfl⟩⟩

theorem vpureA_eqElem (X : Ctx) (a b : Elem) : VPureA (Vec.eqElem X a b) := by
  intro s
  obtain ⟨r, s', hr, hv, hcase⟩ := eqElem_any X a b s
  exact ⟨r, s', hr, hv, hcase⟩

theorem vpureA_eqSlices (X : Ctx) : ∀ (a b : List Elem), VPureA (Vec.eqSlices X a b) := by
  intro a
  induction a with
  | nil => intro b; cases b <;> (unfold Vec.eqSlices; exact VPureA.pure' _)
  | cons x xs ih =>
    intro b
    cases b with
    | nil => unfold Vec.eqSlices; exact VPureA.pure' _
    | cons y ys =>
      unfold Vec.eqSlices
      refine VPureA.bind' (vpureA_eqElem X x y) (fun r => ?_)
      cases r
      · exact VPureA.pure' _
      · exact ih ys

theorem vpureA_cmpSlices (X : Ctx) : ∀ (a b : List Elem), VPureA (Vec.cmpSlices X a b) := by
  intro a
  induction a with
  | nil => intro b; cases b <;> (unfold Vec.cmpSlices; exact VPureA.pure' _)
  | cons x xs ih =>
    intro b
    cases b with
    | nil => unfold Vec.cmpSlices; exact VPureA.pure' _
    | cons y ys =>
      unfold Vec.cmpSlices
      refine VPureA.bind' (vpureA_callback X) (fun _ => ?_)
      split
      · exact VPureA.pure' _
      · split
        · exact VPureA.pure' _
        · exact ih ys

theorem vpureA_forN_go (f : Nat → VM Unit) (hf : ∀ i, VPureA (f i)) : ∀ (k i : Nat), VPureA (VM.forN.go f k i) := by
  intro k
  induction k with
  | zero => intro i; unfold VM.forN.go; exact VPureA.pure' _
  | succ k ih => intro i; unfold VM.forN.go; exact VPureA.bind' (hf i) (fun _ => ih (i + 1))

theorem vpureA_forN (f : Nat → VM Unit) (hf : ∀ i, VPureA (f i)) (n : Nat) : VPureA (VM.forN n f) := by
  unfold VM.forN; exact vpureA_forN_go f hf n 0

theorem vpureA_compareSlices (X : Ctx) (a b : List Elem) : VPureA (Vec.compareSlices X a b) := by
  have hrest : ∀ eq : Bool, VPureA (do
      let pc ← Vec.cmpSlices X a b
      let c ← Vec.cmpSlices X a b
      VM.forN a.length (fun _ => VM.callback X)
      VM.forN b.length (fun _ => VM.callback X)
      pure (eq, pc, c, a.map (·.val) == b.map (·.val)) : VM (Bool × Ordering × Ordering × Bool)) := fun eq =>
    VPureA.bind' (vpureA_cmpSlices X a b) (fun _ => VPureA.bind' (vpureA_cmpSlices X a b) (fun _ =>
      VPureA.bind' (vpureA_forN _ (fun _ => vpureA_callback X) _) (fun _ =>
        VPureA.bind' (vpureA_forN _ (fun _ => vpureA_callback X) _) (fun _ => VPureA.pure' _))))
  unfold Vec.compareSlices
  dsimp only
  split
  · exact VPureA.bind' (vpureA_eqSlices X a b) (fun eq => hrest eq)
  · exact hrest false

/-- `from_str` / `extend_ref` build, check and drop a temporary vector of an element type without drop glue: whatever
    the oracle is, they return or stop in a sanctioned way, and they touch no register -/
theorem fromStrProg_safeA (Xb : Ctx) (hz : 0 < Xb.c.elemSize) (n : Nat) (s : St) (hv : s.v = {}) :
    (∃ l s', fromStrProg Xb n s = (.ok l, s')) ∨ (∃ p s', fromStrProg Xb n s = (.error p, s') ∧ Panic.benign p = true) := by
  unfold fromStrProg
  simp only [VM.bind_run]
  rcases with_capacity_room Xb hz s hv n with ⟨s1, hr, habs1, hroom, hzero⟩ | ⟨p, s1, hr, hb, _⟩
  · rw [hr]
    simp only
    have hfill : ∃ s2 es, (if n > 0 then fromStrFill Xb n else pure ()) s1 = (.ok (), s2) ∧ Abs Xb s2.v es := by
      by_cases hn : n > 0
      · obtain ⟨hd1, hcap1⟩ := hroom hn
        rw [if_pos hn]
        obtain ⟨b, hb, hl, _⟩ := habs1.alloc hd1
        have h4 : VM.lift Xb (as_mut_ptr Xb.env) s1 = (.ok (.at (dataOff s1.v.align)), s1) :=
          lift_read Xb _ s1 _ (as_mut_ptr_run Xb.env _ hd1 b.lay s1.v.cap hl)
        obtain ⟨v2, hw, habs2, _, _, hd2, _⟩ := write_tail_abs Xb s1 [] (List.replicate n (⟨0, 97⟩ : Elem)) habs1 hd1
          (by simp [hcap1])
        simp only [List.length_nil, List.length_replicate] at hw habs2
        have h5 := lift_set_len Xb n { s1 with v := v2 } hd2
        refine ⟨{ s1 with v := { v2 with len := n } }, List.replicate n (⟨0, 97⟩ : Elem), ?_, by simpa using habs2⟩
        unfold fromStrFill
        simp only [VM.bind_run, h4, hw, h5]
      · rw [if_neg hn]; exact ⟨s1, [], rfl, habs1⟩
    obtain ⟨s2, es, hf, habs2⟩ := hfill
    rw [hf]
    simp only
    have hL : (hsOf s2.v s2.sys.allocIdx).L = es.length := habs2.len_eq
    have h6 : VM.lift Xb (len Xb.env) s2 = (.ok es.length, s2) := lift_read Xb _ s2 _ (by rw [len_run, hL])
    obtain ⟨r3, s3, hd3, hr3⟩ := dropVec_any Xb s2 es habs2
    rw [h6]
    simp only [hd3]
    rcases hr3 with rfl | rfl | rfl
    · exact .inl ⟨_, _, rfl⟩
    · exact .inr ⟨_, _, rfl, rfl⟩
    · exact .inr ⟨_, _, rfl, rfl⟩
  · rw [hr]; exact .inr ⟨p, s1, rfl, hb⟩

theorem extendRefProg_safeA (Xb : Ctx) (hz : 0 < Xb.c.elemSize) (pre : Nat) (vals : List Int)
    (s : St) (hv : s.v = {}) :
    (∃ l s', extendRefProg Xb pre vals s = (.ok l, s')) ∨ (∃ p s', extendRefProg Xb pre vals s = (.error p, s') ∧ Panic.benign p = true) := by
  unfold extendRefProg
  simp only [VM.bind_run]
  have hround : ∀ (n : Nat) (g : Nat → Elem), RoundSpec Xb n (fun _ _ => True) (fun i => Vec.push Xb (g i)) := by
    intro n g i s1 acc _ habs
    have hp := push_spec Xb s1 acc (g i) habs
    show (∃ e s', Vec.push Xb (g i) s1 = (.ok (), s') ∧ Abs Xb s'.v (acc ++ [e]) ∧ True) ∨
      (∃ p s', Vec.push Xb (g i) s1 = (.error p, s') ∧ Panic.benign p = true ∧ s'.v = s1.v)
    generalize Vec.push Xb (g i) s1 = out at hp
    cases hp with
    | pushed s' ha _ => exact .inl ⟨_, s', rfl, ha, trivial⟩
    | stopped p s' hv' hb => exact .inr ⟨p, s', rfl, hb, hv'⟩
  rcases with_capacity_room Xb hz s hv pre with ⟨s1, hr, habs1, _, _⟩ | ⟨p, s1, hr, hb, _⟩
  · rw [hr]
    simp only
    rcases forN_spec Xb pre _ _ (hround pre (fun i => ⟨0, i⟩)) s1 [] habs1 with ⟨l1, s2, hr2, habs2, _, _⟩ | ⟨p, s2, acc, hr2, hb, _⟩
    · rw [hr2]
      simp only
      rcases forN_spec Xb vals.length _ _ (hround vals.length (fun i => ⟨0, vals.getD i 0⟩)) s2 _ habs2 with
        ⟨l2, s3, hr3, habs3, _, _⟩ | ⟨p, s3, acc, hr3, hb, _⟩
      · rw [hr3]
        simp only
        have hL : (hsOf s3.v s3.sys.allocIdx).L = ([] ++ l1 ++ l2).length := habs3.len_eq
        have h6 : VM.lift Xb (len Xb.env) s3 = (.ok ([] ++ l1 ++ l2).length, s3) := lift_read Xb _ s3 _ (by rw [len_run, hL])
        obtain ⟨r4, s4, hd4, hr4⟩ := dropVec_any Xb s3 _ habs3
        rw [h6]
        simp only [hd4]
        rcases hr4 with rfl | rfl | rfl
        · exact .inl ⟨_, _, rfl⟩
        · exact .inr ⟨_, _, rfl, rfl⟩
        · exact .inr ⟨_, _, rfl, rfl⟩
      · rw [hr3]; exact .inr ⟨p, s3, rfl, hb⟩
    · rw [hr2]; exact .inr ⟨p, s2, rfl, hb⟩
  · rw [hr]; exact .inr ⟨p, s1, rfl, hb⟩

def opCoveredB : Op → Bool
  | .as_slice _ | .views _ | .iter_views _ | .serialize _ | .leak _ | .clone_iter .. | .raw_parts _ | .raw_part _
  | .with_alignment .. | .compare .. | .from_str _ | .extend_ref .. | .spare _ | .split_spare _ | .fill_spare .. => true
  | _ => false

theorem vsafeA_ok {X : Ctx} {α} {x : VM α} (h : ∀ s es, Abs X s.v es → ∃ a s' es', x s = (.ok a, s') ∧ Abs X s'.v es') :
    VSafeA X x := by
  intro s es habs
  obtain ⟨a, s', es', hr, ha⟩ := h s es habs
  exact ⟨.ok a, s', hr, .ok ha⟩

theorem sane_nums (ns : List Nat) : outSane (Out.nums ns) ∧ aborted (Out.nums ns) = false := ⟨trivial, rfl⟩

theorem C04_world_step_partialB (X : Ctx) (hz : 0 < X.c.elemSize) (w : World) (op : Op)
    (hc : opCoveredB op = true) (hw : WFWA X w) : StepOK X (step X w op) := by
  cases op <;> simp only [opCoveredB] at hc <;> try (exact absurd hc (by decide))
  all_goals unfold step
  case as_slice it =>
    dsimp only
    split
    · rename_i v i heq
      simp only [runOn]
      rcases hw it _ heq with ⟨es, hinv⟩ | ⟨hd, habs⟩
      · rw [into_as_slice (s := { sys := w.sys, v := v }) hinv]
        exact ⟨trivial, fun _ => hw.sys _⟩
      · have e1 : VM.lift X GM.isDefault { sys := w.sys, v := v } = (.ok true, { sys := w.sys, v := v }) := by
          rw [lift_isDefault]; exact congrArg (fun b => (Except.ok b, _)) hd
        have : IntoIter.as_slice X i { sys := w.sys, v := v } = (.ok [], { sys := w.sys, v := v }) := by
          unfold IntoIter.as_slice; simp only [VM.bind_run, e1, if_true, VM.pure_run]
        rw [this]
        exact ⟨trivial, fun _ => hw.sys _⟩
    · exact StepOK.same hw _ trivial
  case views r =>
    refine onVecReg_safeA X w r _ (vsafeA_ok (fun s es h => ⟨.ok, s, es, rfl, h⟩)) hw (fun s o s' h => by
      simp only [VM.pure_run, Prod.mk.injEq, Except.ok.injEq] at h; rw [← h.1]; exact sane_ok)
  case iter_views it => dsimp only; split <;> exact StepOK.same hw _ trivial
  case serialize r =>
    refine onVecReg_map_safeA X w r (Vec.contents X) Out.elems (vsafeA_ok ?_) (fun _ => ⟨trivial, rfl⟩) hw
    intro s es h
    exact ⟨es, s, es, contents_run X s es h, h⟩
  case leak r =>
    dsimp only
    split
    · rename_i v heq
      obtain ⟨es, habs⟩ := hw.vec heq
      simp only [runOn, contents_run X { sys := w.sys, v := v } es habs]
      exact ⟨trivial, fun _ => (hw.sys _).set_gone r⟩
    · exact StepOK.same hw _ trivial
  case clone_iter it itnew =>
    dsimp only
    cases hf : w.fresh itnew with
    | false => simp only [Bool.not_false, if_true]; exact StepOK.same hw _ trivial
    | true =>
      simp only [Bool.not_true, Bool.false_eq_true, if_false]
      split
      · rename_i v i heq
        simp only [runOn]
        -- the remaining slice, whatever the storage state
        have hslice : ∃ rem, IntoIter.as_slice X i { sys := w.sys, v := v } = (.ok rem, { sys := w.sys, v := v }) := by
          rcases hw it _ heq with ⟨es, hinv⟩ | ⟨hd, habs⟩
          · exact ⟨_, into_as_slice (s := { sys := w.sys, v := v }) hinv⟩
          · have e1 : VM.lift X GM.isDefault { sys := w.sys, v := v } = (.ok true, { sys := w.sys, v := v }) := by
              rw [lift_isDefault]; exact congrArg (fun b => (Except.ok b, _)) hd
            exact ⟨[], by unfold IntoIter.as_slice; simp only [VM.bind_run, e1, if_true, VM.pure_run]⟩
        obtain ⟨rem, has⟩ := hslice
        have hit : ∀ s1 : St, s1.v = v → RegOKA X (.intoIter s1.v i) := by
          intro s1 hv1; rw [hv1]; exact hw it _ heq
        rcases C04_from_slice_any X hz rem { sys := w.sys, v := v } with ⟨o, s1, new, hrun, hv, ho, _⟩ | ⟨p, s1, hrun, hb, hv⟩
        · have hcl : ∃ i', IntoIter.clone X i { sys := w.sys, v := v } = (.ok (o, i'), s1) ∧ RegOK X (.intoIter o i') := by
            cases hod : o.isDefault with
            | true =>
              have e2 : VM.lift X GM.isDefault { s1 with v := o } = (.ok true, { s1 with v := o }) := by
                rw [lift_isDefault]; exact congrArg (fun b => (Except.ok b, _)) hod
              have hc : IntoIter.create X { s1 with v := o } = (.ok { ptr := .null, pos := 0 }, { s1 with v := o }) := by
                unfold IntoIter.create; simp only [VM.bind_run, e2, if_true, VM.pure_run]
              have hnil := (ho.sentinel hod).2
              subst hnil
              refine ⟨{ ptr := .null, pos := 0 }, ?_, .inr ⟨hod, ho⟩⟩
              unfold IntoIter.clone
              simp only [VM.bind_run, has, hrun, onVec_ok o _ s1 _ _ hc, VM.pure_run]
            | false =>
              obtain ⟨i', hc, _, hinv', _⟩ := into_create_alloc X { s1 with v := o } new ho hod
              refine ⟨i', ?_, .inl ⟨new, hinv'⟩⟩
              unfold IntoIter.clone
              simp only [VM.bind_run, has, hrun, onVec_ok o _ s1 _ _ hc, VM.pure_run]
          obtain ⟨i', hr, hok⟩ := hcl
          rw [hr]
          exact ⟨trivial, fun _ => ((hw.sys _).set_ok it _ (hit s1 hv)).set_ok itnew _ (RegOKA.of hok)⟩
        · have hr : IntoIter.clone X i { sys := w.sys, v := v } = (.error p, s1) := by
            unfold IntoIter.clone
            simp only [VM.bind_run, has, hrun]
          rw [hr]
          exact ⟨hb, fun _ => (hw.sys _).set_ok it _ (hit s1 hv)⟩
      · exact StepOK.same hw _ trivial
  case raw_parts r =>
    refine onVecReg_safeA X w r _ (vsafeA_ok ?_) hw ?_
    · intro s es h
      have hL : (hsOf s.v s.sys.allocIdx).L = es.length := h.len_eq
      have h2 : VM.lift X (len X.env) s = (.ok es.length, s) := lift_read X _ s _ (by rw [len_run, hL])
      have h3 : VM.lift X (capacity X.env) s = (.ok (hsOf s.v s.sys.allocIdx).C, s) := lift_read X _ s _ (by rw [capacity_run])
      obtain ⟨o, ho⟩ := (raw_roundtrip_run X s es h es.length (hsOf s.v s.sys.allocIdx).C).2
      cases o with
      | none => exact ⟨Out.none, s, es, by simp only [VM.bind_run, h2, h3, ho]; rfl, h⟩
      | some lc => exact ⟨Out.nums [lc.1, lc.2], s, es, by simp only [VM.bind_run, h2, h3, ho]; rfl, h⟩
    · intro s o s' h
      simp only [VM.bind_run] at h
      cases h2 : VM.lift X (len X.env) s with
      | mk r2 s2 =>
        rw [h2] at h
        cases r2 with
        | error p => simp at h
        | ok l =>
          simp only at h
          cases h3 : VM.lift X (capacity X.env) s2 with
          | mk r3 s3 =>
            rw [h3] at h
            cases r3 with
            | error p => simp at h
            | ok c =>
              simp only at h
              cases h4 : Vec.raw_roundtrip X (Vec.backParts X l c) s3 with
              | mk r4 s4 =>
                rw [h4] at h
                cases r4 with
                | error p => simp at h
                | ok oo =>
                  cases oo with
                  | none => simp only [VM.pure_run, Prod.mk.injEq, Except.ok.injEq] at h; rw [← h.1]; exact ⟨trivial, rfl⟩
                  | some lc => simp only [VM.pure_run, Prod.mk.injEq, Except.ok.injEq] at h; rw [← h.1]; exact ⟨trivial, rfl⟩
  case with_alignment r n a =>
    dsimp only
    cases hf : w.fresh r with
    | false => simp only [Bool.not_false, if_true]; exact StepOK.same hw _ trivial
    | true =>
      simp only [Bool.not_true, Bool.false_eq_true, if_false, runOn]
      rcases with_alignment_mem X hz { sys := w.sys, v := {} } rfl n a with ⟨e, hr⟩ | hmem
      · rw [hr]; exact ⟨trivial, fun _ => hw.sys _⟩
      · generalize VM.lift X (with_alignment X.env n a) { sys := w.sys, v := {} } = out at hmem
        cases hmem with
        | same => exact ⟨trivial, fun _ => (hw.sys _).set_vec r {} [] (Abs.sentinel_abs X hz)⟩
        | stopped p s' _ hp _ => exact ⟨hp, fun _ => hw.sys _⟩
        | grown s' ha _ _ _ _ => exact ⟨trivial, fun _ => (hw.sys _).set_vec r s'.v [] ha⟩
  case compare r r2 =>
    dsimp only
    split
    · rename_i a b h1 h2
      obtain ⟨ea, ha⟩ := hw.vec h1
      obtain ⟨eb, hb⟩ := hw.vec h2
      have hca := contents_run X { sys := w.sys, v := a } ea ha
      have hcb := contents_run X { sys := w.sys, v := b } eb hb
      have hcb' : VM.onVec b (Vec.contents X) { sys := w.sys, v := a } = (.ok (eb, b), { sys := w.sys, v := a }) :=
        onVec_read b _ { sys := w.sys, v := a } _ hcb
      obtain ⟨res, s', hr, _, hcase⟩ := vpureA_compareSlices X ea eb { sys := w.sys, v := a }
      simp only [runOn, VM.bind_run, hca, hcb', hr]
      rcases hcase with ⟨⟨eq, pc, c, heq⟩, rfl⟩ | rfl
      · exact ⟨trivial, fun _ => hw.sys _⟩
      · exact ⟨rfl, fun _ => hw.sys _⟩
    · exact StepOK.same hw _ trivial
  case from_str n =>
    dsimp only
    split
    · exact StepOK.same hw _ trivial
    · simp only [runOn]
      rcases fromStrProg_safeA { X with c := ⟨1, 1, false⟩ } (by show 0 < 1; omega) n { sys := w.sys, v := {} } rfl with
        ⟨l, s', hr⟩ | ⟨p, s', hr, hb⟩
      · rw [hr]; exact ⟨trivial, fun _ => hw.sys _⟩
      · rw [hr]; exact ⟨hb, fun _ => hw.sys _⟩
  case extend_ref pre it =>
    dsimp only
    split
    · exact StepOK.same hw _ trivial
    · simp only [runOn]
      rcases extendRefProg_safeA { X with c := ⟨4, 4, false⟩ } (by show 0 < 4; omega) pre _ { sys := w.sys, v := {} } rfl with
        ⟨l, s', hr⟩ | ⟨p, s', hr, hb⟩
      · rw [hr]; exact ⟨trivial, fun _ => hw.sys _⟩
      · rw [hr]; exact ⟨hb, fun _ => hw.sys _⟩
  case spare r =>
    refine onVecReg_map_safeA X w r (Vec.spare X) (fun n => Out.nums [n]) (vsafeA_ok ?_) (fun _ => sane_nums _) hw
    intro s es h
    exact ⟨_, s, es, (C07_spare_exact X s es h).1, h⟩
  case split_spare r =>
    refine onVecReg_safeA X w r _ (vsafeA_ok ?_) hw ?_
    · intro s es h
      refine ⟨Out.nums [es.length, (hsOf s.v s.sys.allocIdx).C - es.length], s, es, ?_, h⟩
      simp only [VM.bind_run, (C07_spare_exact X s es h).2]
      rfl
    · intro s o s' h
      simp only [VM.bind_run] at h
      cases h2 : Vec.split_spare X s with
      | mk r2 s2 =>
        rw [h2] at h
        cases r2 with
        | error p => simp at h
        | ok ab => simp only [VM.pure_run, Prod.mk.injEq, Except.ok.injEq] at h; rw [← h.1]; exact sane_nums _
  case fill_spare r viaSplit k val =>
    dsimp only
    split
    · exact StepOK.same hw _ trivial
    · refine onVecReg_map_safeA X w r (Vec.fill_spare X viaSplit k val) (fun n => Out.nums [n]) (vsafeA_ok ?_) (fun _ => sane_nums _) hw
      intro s es h
      obtain ⟨s', new, hr, ha, _⟩ := C07_fill_spare X viaSplit k val s es h
      exact ⟨_, s', _, hr, ha⟩
  case raw_part r =>
    refine onVecReg_safeA X w r _ (vsafeA_ok ?_) hw ?_
    · intro s es h
      obtain ⟨o, ho⟩ := (raw_roundtrip_run X s es h 0 0).1
      cases o with
      | none => exact ⟨Out.none, s, es, by simp only [VM.bind_run, ho]; rfl, h⟩
      | some lc => exact ⟨Out.ok, s, es, by simp only [VM.bind_run, ho]; rfl, h⟩
    · intro s o s' h
      simp only [VM.bind_run] at h
      cases h4 : Vec.raw_roundtrip X (Vec.backPart X) s with
      | mk r4 s4 =>
        rw [h4] at h
        cases r4 with
        | error p => simp at h
        | ok oo =>
          cases oo with
          | none => simp only [VM.pure_run, Prod.mk.injEq, Except.ok.injEq] at h; rw [← h.1]; exact ⟨trivial, rfl⟩
          | some lc => simp only [VM.pure_run, Prod.mk.injEq, Except.ok.injEq] at h; rw [← h.1]; exact ⟨trivial, rfl⟩

/-! ### The provided iterator methods (`stepAll`) under any oracle -/

theorem dfinv_measure {X : Ctx} {v : VSt} {f : DFSt} {kept junk rest : List Elem} (h : DFInv X v f kept junk rest) :
    f.oldLen - f.pos = rest.length := by
  have := h.ps; have := h.ol; omega

/-- destroying a value inside an operation: the registers are not touched; the destructor returns or panics -/
theorem dropIn_safeA (X : Ctx) (w : World) (e : Elem) (hw : WFWA X w) :
    WFWA X (dropIn X w e).1 ∧ ((dropIn X w e).2 = none ∨ (dropIn X w e).2 = some .explicit) := by
  unfold dropIn
  obtain ⟨r, s', hd, _, hr, _⟩ := dropElem_any X e { sys := w.sys, v := {} }
  simp only [runOn, hd]
  rcases hr with rfl | rfl
  · exact ⟨hw.sys _, .inl rfl⟩
  · exact ⟨hw.sys _, .inr rfl⟩

/-- one `next` on an iterator register under any oracle: the register still holds an iterator, every register is well
    formed, and the step reported the end, or handed out an element (the iterator can yield strictly less), or the
    predicate of a DrainFilter panicked -/
theorem next_measureA (X : Ctx) (w : World) (it : String) (o : Obj) (hw : WFWA X w)
    (hg : w.get it = some o) (hi : isIterObj o = true) :
    ∃ o', (step X w (.next it)).1.get it = some o' ∧ isIterObj o' = true ∧ WFWA X (step X w (.next it)).1 ∧
      ((step X w (.next it)).2 = .none ∨ (∃ e, (step X w (.next it)).2 = .some e ∧ regMeasure o' < regMeasure o) ∨
       ((step X w (.next it)).2 = .stopped .explicit ∧ regMeasure o' ≤ regMeasure o)) := by
  have hok := hw it o hg
  unfold step
  dsimp only
  cases o with
  | drain src v d =>
    simp only [hg]
    obtain ⟨r, d', hr, hok', hm⟩ := drain_reg_step_m X src v d w.sys false hok
    simp only [Bool.false_eq_true, if_false] at hr
    simp only [runOn, hr]
    refine ⟨.drain src v d', by rw [world_get_set]; simp, rfl, (hw.sys _).set_ok it _ (RegOKA.of hok'), ?_⟩
    cases r with
    | none => exact .inl rfl
    | some e => exact .inr (.inl ⟨e, rfl, hm rfl⟩)
  | splice src v sp =>
    simp only [hg]
    obtain ⟨r, d', hr, hok', hm⟩ := splice_reg_step_m X src v sp w.sys hok
    simp only [runOn, hr]
    refine ⟨.splice src v { sp with d := d' }, by rw [world_get_set]; simp, rfl, (hw.sys _).set_ok it _ (RegOKA.of hok'), ?_⟩
    cases r with
    | none => exact .inl rfl
    | some e => exact .inr (.inl ⟨e, rfl, hm rfl⟩)
  | drainFilter src v f =>
    simp only [hg]
    -- the step from a state that satisfies the scan invariant
    have fromInv : ∀ (f1 : DFSt) kept junk rest, DFInv X v f1 kept junk rest →
        ∃ st f' s', DrainFilter.next X (f1.oldLen - f1.pos + 1) f1 { sys := w.sys, v := v } = (.ok (st, f'), s') ∧
          RegOKA X (.drainFilter src s'.v f') ∧
          (∀ e, st = .item e → f'.oldLen - f'.pos < f1.oldLen - f1.pos) ∧ f'.oldLen - f'.pos ≤ f1.oldLen - f1.pos := by
      intro f1 kept junk rest hinv
      obtain ⟨s', st, f', junk', rest', mid, hr, _, _, _, hcases⟩ := df_next_any X rest kept junk f1 { sys := w.sys, v := v }
        (f1.oldLen - f1.pos + 1) hinv (by have := hinv.ps; have := hinv.ol; omega)
      have hm1 := dfinv_measure hinv
      refine ⟨st, f', s', hr, ?_⟩
      rcases hcases with ⟨e, hst, hrest, hinv'⟩ | ⟨hst, hrest, hr', hinv'⟩ | ⟨hst, hrest, _, f0, hf0, hinv'⟩
      · have hm2 := dfinv_measure hinv'
        have : rest.length = mid.length + 1 + rest'.length := by rw [hrest]; simp; omega
        exact ⟨.inl (.inl ⟨_, _, _, hinv'⟩), fun _ _ => by omega, by omega⟩
      · have hm2 := dfinv_measure hinv'
        subst hst
        exact ⟨.inl (.inl ⟨_, _, _, hinv'⟩), fun e he => by simp at he, by simp at hm2; omega⟩
      · have hm2 := dfinv_measure hinv'
        subst hst
        subst hf0
        have : rest.length = mid.length + rest'.length := by rw [hrest]; simp
        exact ⟨.inr ⟨f0, _, _, _, rfl, hinv'⟩, fun e he => by simp at he, by show f0.oldLen - f0.pos ≤ _; omega⟩
    have key : ∃ st f' s', DrainFilter.next X (f.oldLen - f.pos + 1) f { sys := w.sys, v := v } = (.ok (st, f'), s') ∧
        RegOKA X (.drainFilter src s'.v f') ∧
        (∀ e, st = .item e → f'.oldLen - f'.pos < f.oldLen - f.pos) ∧ f'.oldLen - f'.pos ≤ f.oldLen - f.pos := by
      rcases hok with (⟨kept, junk, rest, hinv⟩ | ⟨hd, habs, ho, hp, hn, hpk⟩) | ⟨f0, kept, junk, rest, hf, hinv⟩
      · exact fromInv f kept junk rest hinv
      · refine ⟨.done, f, { sys := w.sys, v := v }, ?_, .inl (.inr ⟨hd, habs, ho, hp, hn, hpk⟩), fun e he => by simp at he, Nat.le_refl _⟩
        rw [show f.oldLen - f.pos + 1 = 0 + 1 by omega]
        exact df_default_next X f _ ho hp 0
      · subst hf
        by_cases hlt : f0.pos < f0.oldLen
        · obtain ⟨st, f', s', hr, hok', hm, hle⟩ := fromInv f0 kept junk rest hinv
          refine ⟨st, f', s', ?_, hok', hm, hle⟩
          show DrainFilter.next X (f0.oldLen - f0.pos + 1) { f0 with panicked := true } _ = _
          rw [(df_next_flag X f0 _ (f0.oldLen - f0.pos)).1 hlt]; exact hr
        · refine ⟨.done, _, { sys := w.sys, v := v }, ?_, .inr ⟨f0, kept, junk, rest, rfl, hinv⟩, fun e he => by simp at he, Nat.le_refl _⟩
          show DrainFilter.next X (f0.oldLen - f0.pos + 1) { f0 with panicked := true } _ = _
          exact (df_next_flag X f0 _ (f0.oldLen - f0.pos)).2 hlt
    obtain ⟨st, f', s', hr, hok', hm, hle⟩ := key
    simp only [runOn, hr]
    cases st with
    | item e => exact ⟨.drainFilter src s'.v f', by rw [world_get_set]; simp, rfl, (hw.sys _).set_ok it _ hok', .inr (.inl ⟨e, rfl, hm e rfl⟩)⟩
    | done => exact ⟨.drainFilter src s'.v f', by rw [world_get_set]; simp, rfl, (hw.sys _).set_ok it _ hok', .inl rfl⟩
    | predPanicked => exact ⟨.drainFilter src s'.v f', by rw [world_get_set]; simp, rfl, (hw.sys _).set_ok it _ hok', .inr (.inr ⟨rfl, hle⟩)⟩
  | intoIter v i =>
    simp only [hg]
    obtain ⟨r, i', v', hr, hok', hm⟩ := into_reg_step_m X v i w.sys hok
    simp only [runOn, hr]
    refine ⟨.intoIter v' i', by rw [world_get_set]; simp, rfl, (hw.sys _).set_ok it _ (RegOKA.of hok'), ?_⟩
    cases r with
    | none => exact .inl rfl
    | some e => exact .inr (.inl ⟨e, rfl, hm rfl⟩)
  | vec v => simp [isIterObj] at hi
  | lent => simp [isIterObj] at hi
  | gone => simp [isIterObj] at hi

/-- the provided `nth` / `nth_back`: a skipped element whose destructor panics stops the call there -/
theorem nthLoop_safeA (X : Ctx) (hz : 0 < X.c.elemSize) (nx : Op) (hnx : opCoveredA nx = true) :
    ∀ (k : Nat) (w : World), WFWA X w → StepOK X (nthLoop X nx k w) := by
  intro k
  induction k with
  | zero => intro w hw; exact C04_world_step_partial X hz w nx hnx hw
  | succ k ih =>
    intro w hw
    obtain ⟨h1, h2⟩ := C04_world_step_partial X hz w nx hnx hw
    unfold nthLoop
    cases hs : step X w nx with
    | mk w' o =>
      rw [hs] at h1 h2
      simp only at h1 h2
      cases o <;> simp only <;> try exact ⟨h1, h2⟩
      rename_i e
      obtain ⟨h3, h4⟩ := dropIn_safeA X w' e (h2 rfl)
      cases hdi : dropIn X w' e with
      | mk w'' r =>
        rw [hdi] at h3 h4
        simp only at h3 h4
        rcases h4 with rfl | rfl
        · exact ih w'' h3
        · exact ⟨rfl, fun _ => h3⟩

/-- what the unwinding path of `count` / `last` does: the iterator is dropped, a second panic is the abort -/
theorem unwind_drop_ok (X : Ctx) (hz : 0 < X.c.elemSize) (it : String) (w1 : World) (p : Panic) (hp : Panic.benign p = true)
    (hw : WFWA X w1) :
    StepOK X (if VM.unwinds p then
        (match step X w1 (.drop it) with
         | (w2, .stopped q) => (w2, .stopped (if VM.unwinds q then .doublePanic else q))
         | (w2, _) => (w2, .stopped p))
      else (w1, .stopped p)) := by
  by_cases hu : VM.unwinds p = true
  · simp only [hu, if_true]
    obtain ⟨h1, h2⟩ := C04_world_step_partial X hz w1 (.drop it) rfl hw
    cases hd : step X w1 (.drop it) with
    | mk w2 o2 =>
      rw [hd] at h1 h2
      simp only at h1 h2
      cases o2 <;> first
        | exact ⟨hp, fun _ => h2 rfl⟩
        | skip
      rename_i q
      simp only
      by_cases huq : VM.unwinds q = true
      · simp only [huq, if_true]
        exact ⟨rfl, fun hab => by simp [aborted, VM.unwinds] at hab⟩
      · simp only [huq, Bool.false_eq_true, if_false]
        exact ⟨h1, fun hab => by simp [aborted, huq] at hab⟩
  · simp only [hu, Bool.false_eq_true, if_false]
    exact ⟨hp, fun hab => by simp [aborted, hu] at hab⟩

/-- the provided `count` under any oracle -/
theorem countLoop_safeA (X : Ctx) (hz : 0 < X.c.elemSize) (it : String) :
    ∀ (fuel acc : Nat) (w : World) (o : Obj), WFWA X w → w.get it = some o → isIterObj o = true → regMeasure o < fuel →
    StepOK X (countLoop X it fuel acc w) := by
  intro fuel
  induction fuel with
  | zero => intro acc w o _ _ _ hm; omega
  | succ fuel ih =>
    intro acc w o hw hg hi hm
    obtain ⟨o', hg', hi', hw', hout⟩ := next_measureA X w it o hw hg hi
    unfold countLoop
    cases hs : step X w (.next it) with
    | mk w1 out =>
      rw [hs] at hg' hw' hout
      simp only at hg' hw' hout
      rcases hout with hnone | ⟨e, hsome, hlt⟩ | ⟨hstop, _⟩
      · subst hnone
        simp only
        obtain ⟨h1, h2⟩ := C04_world_step_partial X hz w1 (.drop it) rfl hw'
        cases hd : step X w1 (.drop it) with
        | mk w2 o2 =>
          rw [hd] at h1 h2
          simp only at h1 h2
          cases o2 <;> first | exact ⟨trivial, fun _ => h2 rfl⟩ | exact ⟨h1, h2⟩
      · subst hsome
        simp only
        obtain ⟨h3, h4⟩ := dropIn_safeA X w1 e hw'
        cases hdi : dropIn X w1 e with
        | mk w2 r =>
          rw [hdi] at h3 h4
          simp only at h3 h4
          have hg2 : w2.get it = some o' := by
            have := dropIn_get X w1 e it
            rw [hdi] at this; simp only at this; rw [this]; exact hg'
          rcases h4 with rfl | rfl
          · exact ih (acc + 1) w2 o' h3 hg2 hi' (by omega)
          · exact unwind_drop_ok X hz it w2 .explicit rfl h3
      · subst hstop
        simp only
        exact unwind_drop_ok X hz it w1 .explicit rfl hw'

/-- the provided `last` under any oracle -/
theorem lastLoop_safeA (X : Ctx) (hz : 0 < X.c.elemSize) (it : String) :
    ∀ (fuel : Nat) (prev : Option Elem) (w : World) (o : Obj), WFWA X w → w.get it = some o → isIterObj o = true →
    regMeasure o < fuel → StepOK X (lastLoop X it fuel prev w) := by
  intro fuel
  induction fuel with
  | zero => intro prev w o _ _ _ hm; omega
  | succ fuel ih =>
    intro prev w o hw hg hi hm
    obtain ⟨o', hg', hi', hw', hout⟩ := next_measureA X w it o hw hg hi
    -- the unwinding path: the accumulator is destroyed, then the iterator is dropped
    have hunwind : ∀ (w1 : World) (acc : Option Elem), WFWA X w1 →
        StepOK X (if VM.unwinds Panic.explicit then
          (match (match acc with | none => (w1, none) | some a => dropIn X w1 a) with
           | (w2, some _) => (w2, .stopped .doublePanic)
           | (w2, none) =>
             (match step X w2 (.drop it) with
              | (w3, .stopped q) => (w3, .stopped (if VM.unwinds q then .doublePanic else q))
              | (w3, _) => (w3, .stopped Panic.explicit)))
          else (w1, .stopped Panic.explicit)) := by
      intro w1 acc hw1
      have hue : VM.unwinds Panic.explicit = true := rfl
      simp only [hue, if_true]
      cases acc with
      | none =>
        simp only
        have := unwind_drop_ok X hz it w1 .explicit rfl hw1
        simpa only [hue, if_true] using this
      | some a =>
        simp only
        obtain ⟨h3, h4⟩ := dropIn_safeA X w1 a hw1
        cases hdi : dropIn X w1 a with
        | mk w2 r =>
          rw [hdi] at h3 h4
          simp only at h3 h4
          rcases h4 with rfl | rfl
          · simp only
            have := unwind_drop_ok X hz it w2 .explicit rfl h3
            simpa only [hue, if_true] using this
          · exact ⟨rfl, fun hab => by simp [aborted, VM.unwinds] at hab⟩
    unfold lastLoop
    cases hs : step X w (.next it) with
    | mk w1 out =>
      rw [hs] at hg' hw' hout
      simp only at hg' hw' hout
      rcases hout with hnone | ⟨e, hsome, hlt⟩ | ⟨hstop, _⟩
      · subst hnone
        simp only
        obtain ⟨h1, h2⟩ := C04_world_step_partial X hz w1 (.drop it) rfl hw'
        cases hd : step X w1 (.drop it) with
        | mk w2 o2 =>
          rw [hd] at h1 h2
          simp only at h1 h2
          cases o2 <;> first | exact ⟨(sane_optOut prev).1, fun _ => h2 rfl⟩ | exact ⟨trivial, fun _ => h2 rfl⟩ | exact ⟨h1, h2⟩
      · subst hsome
        simp only
        cases prev with
        | none => exact ih (some e) w1 o' hw' hg' hi' (by omega)
        | some pv =>
          simp only
          obtain ⟨h3, h4⟩ := dropIn_safeA X w1 pv hw'
          cases hdi : dropIn X w1 pv with
          | mk w2 r =>
            rw [hdi] at h3 h4
            simp only at h3 h4
            have hg2 : w2.get it = some o' := by
              have := dropIn_get X w1 pv it
              rw [hdi] at this; simp only at this; rw [this]; exact hg'
            rcases h4 with rfl | rfl
            · exact ih (some e) w2 o' h3 hg2 hi' (by omega)
            · exact hunwind w2 none h3
      · subst hstop
        simp only
        exact hunwind w1 prev hw'

theorem WFWA.unset {X : Ctx} {w : World} (h : WFWA X w) (r : String) : WFWA X (w.unset r) := by
  intro r' o hg
  rw [world_get_unset] at hg
  by_cases hr : r' = r
  · simp [hr] at hg
  · simp [hr] at hg; exact h r' o hg

/-- `Clone::clone_from` between two `IntoIter` registers (`*self = source.clone()`) under any oracle: if the clone cannot
    be made the target is untouched; otherwise the old value is dropped (its destructors may panic) and the new one is
    in place -/
theorem cloneFromIter_safeA (X : Ctx) (hz : 0 < X.c.elemSize) (w : World) (it src : String) (hw : WFWA X w) :
    StepOK X (cloneFromIter X w it src) := by
  unfold cloneFromIter
  split
  · exact StepOK.same hw _ trivial
  · split
    · obtain ⟨h1, h2⟩ := C04_world_step_partialB X hz w (.clone_iter src tmpReg) rfl hw
      cases hs : step X w (.clone_iter src tmpReg) with
      | mk w1 o1 =>
        rw [hs] at h1 h2
        simp only at h1 h2
        cases o1 <;> try exact ⟨h1, fun hab => (h2 hab).unset tmpReg⟩
        -- the clone was made: drop the old value, store the new one
        have hw1 := h2 rfl
        obtain ⟨h3, h4⟩ := C04_world_step_partial X hz w1 (.drop it) rfl hw1
        have key : ∀ res : World × Out, StepOK X res →
            StepOK X ((match res.1.get tmpReg with | some o => res.1.set it o | none => res.1).unset tmpReg, res.2) := by
          intro res hres
          refine ⟨hres.1, fun hab => ?_⟩
          have h3 := hres.2 hab
          cases hg : res.1.get tmpReg with
          | none => exact h3.unset tmpReg
          | some o => exact (h3.set_ok it o (h3 tmpReg o hg)).unset tmpReg
        exact key _ ⟨h3, h4⟩
    · exact StepOK.same hw _ trivial

/-- `MiniVec::deserialize` into a fresh register, any oracle -/
theorem deserialize_safeA (X : Ctx) (hz : 0 < X.c.elemSize) (w : World) (rnew : String) (hint : Option Nat)
    (sc : List SeqItem) (hw : WFWA X w) : StepOK X (step X w (.deserialize rnew hint sc)) := by
  unfold step
  dsimp only
  cases hf : w.fresh rnew with
  | false => simp only [Bool.not_false, if_true]; exact StepOK.same hw _ trivial
  | true =>
    simp only [Bool.not_true, Bool.false_eq_true, if_false, runOn]
    rcases C04_deserialize_any X hz hint sc { sys := w.sys, v := {} } with
      ⟨o, s', new, hr, _, ho⟩ | ⟨s', hr, _⟩ | ⟨p, s', hr, hb, _⟩
    · rw [hr]; exact ⟨trivial, fun _ => (hw.sys s'.sys).set_vec rnew o new ho⟩
    · rw [hr]; exact ⟨trivial, fun _ => hw.sys s'.sys⟩
    · rw [hr]; exact ⟨hb, fun _ => hw.sys s'.sys⟩

/-- `deserialize_in_place` on a vector register, any oracle -/
theorem deserializeInPlace_safeA (X : Ctx) (w : World) (r : String) (hint : Option Nat)
    (sc : List SeqItem) (hw : WFWA X w) : StepOK X (step X w (.deserialize_in_place r hint sc)) := by
  unfold step
  exact onVecReg_map_safeA X w r (Serde.deserialize_in_place X hint sc) (fun ok => if ok then Out.ok else Out.err)
    (fun s es h => C04_deserialize_in_place_any X hint sc s es h) (fun ok => by cases ok <;> exact sane_ok) hw

theorem covered_cases (op : Op) :
    opCoveredA op = true ∨ opCoveredB op = true ∨
    (∃ it k, op = .nth it k) ∨ (∃ it k, op = .nth_back it k) ∨ (∃ it, op = .count it) ∨ (∃ it, op = .last it) ∨
    (∃ it src, op = .clone_from_iter it src) ∨ (∃ r hint sc, op = .deserialize r hint sc) ∨
    (∃ r hint sc, op = .deserialize_in_place r hint sc) := by
  cases op <;> simp [opCoveredA, opCoveredB]

/-- **one step of what the driver runs (`stepAll`), EVERY operation of the protocol, any panic oracle** -/
theorem C04_world_stepAll_partial (X : Ctx) (hz : 0 < X.c.elemSize) (w : World) (op : Op)
    (hw : WFWA X w) : StepOK X (stepAll X w op) := by
  rcases covered_cases op with hA | hB | ⟨it, k, rfl⟩ | ⟨it, k, rfl⟩ | ⟨it, rfl⟩ | ⟨it, rfl⟩ | ⟨it, src, rfl⟩ |
    ⟨r, hint, sc, rfl⟩ | ⟨r, hint, sc, rfl⟩
  · have : stepAll X w op = step X w op := by
      cases op <;> first | rfl | simp [opCoveredA] at hA
    rw [this]; exact C04_world_step_partial X hz w op hA hw
  · have : stepAll X w op = step X w op := by
      cases op <;> first | rfl | simp [opCoveredB] at hB
    rw [this]; exact C04_world_step_partialB X hz w op hB hw
  · simp only [stepAll]
    split
    · exact StepOK.same hw _ trivial
    · exact nthLoop_safeA X hz (.next it) rfl k w hw
  · simp only [stepAll]
    split
    · exact StepOK.same hw _ trivial
    · split
      · exact StepOK.same hw _ trivial
      · exact nthLoop_safeA X hz (.next_back it) rfl k w hw
  · simp only [stepAll]
    cases hg : w.get it with
    | none =>
      have : step X w (.size_hint it) = (w, .badOp) := by unfold step; simp only [hg]
      simp only [this]; exact StepOK.same hw _ trivial
    | some o =>
      cases hio : isIterObj o with
      | false =>
        have : step X w (.size_hint it) = (w, .badOp) := by
          unfold step; cases o <;> simp [isIterObj] at hio <;> simp only [hg]
        simp only [this]; exact StepOK.same hw _ trivial
      | true =>
        have hsh : step X w (.size_hint it) = (w, .hint (match o with
            | .drainFilter .. => 0 | _ => regMeasure o) (some (regMeasure o))) := by
          unfold step; cases o <;> simp [isIterObj] at hio <;> simp only [hg, regMeasure, Drain.size_hint]
        simp only [hsh]
        exact countLoop_safeA X hz it (regMeasure o + 2) 0 w o hw hg hio (by omega)
  · simp only [stepAll]
    cases hg : w.get it with
    | none =>
      have : step X w (.size_hint it) = (w, .badOp) := by unfold step; simp only [hg]
      simp only [this]; exact StepOK.same hw _ trivial
    | some o =>
      cases hio : isIterObj o with
      | false =>
        have : step X w (.size_hint it) = (w, .badOp) := by
          unfold step; cases o <;> simp [isIterObj] at hio <;> simp only [hg]
        simp only [this]; exact StepOK.same hw _ trivial
      | true =>
        have hsh : step X w (.size_hint it) = (w, .hint (match o with
            | .drainFilter .. => 0 | _ => regMeasure o) (some (regMeasure o))) := by
          unfold step; cases o <;> simp [isIterObj] at hio <;> simp only [hg, regMeasure, Drain.size_hint]
        simp only [hsh]
        exact lastLoop_safeA X hz it (regMeasure o + 2) none w o hw hg hio (by omega)
  · simp only [stepAll]; exact cloneFromIter_safeA X hz w it src hw
  · exact deserialize_safeA X hz w r hint sc hw
  · exact deserializeInPlace_safeA X w r hint sc hw

/-- run operations (as the driver does) until the process aborts -/
def runWorldA (X : Ctx) : List Op → World → World × List Out
  | [], w => (w, [])
  | op :: rest, w =>
    let (w', o) := stepAll X w op
    if aborted o then (w', [o])
    else
      let (w'', os) := runWorldA X rest w'
      (w'', o :: os)

/-- **(C04) every history on the register machine, under ANY panic oracle** — every operation of the protocol (all
    constructors of `Op`), any register names, any arguments, iterators alive across operations on other registers: no step ends in an illegal access, a failed assertion or a hang (in particular `count` and `last`
    never run out of fuel); and as long as the process has not aborted, every register — every vector, every live
    iterator — is well formed after every step -/
theorem C04_world_histories_partial (X : Ctx) (hz : 0 < X.c.elemSize) (ops : List Op)
    (w : World) (hw : WFWA X w) :
    (∀ o ∈ (runWorldA X ops w).2, outSane o) ∧
    ((∀ o ∈ (runWorldA X ops w).2, aborted o = false) → WFWA X (runWorldA X ops w).1) := by
  induction ops generalizing w with
  | nil => exact ⟨fun o ho => by simp [runWorldA] at ho, fun _ => hw⟩
  | cons op rest ih =>
    obtain ⟨h1, h2⟩ := C04_world_stepAll_partial X hz w op hw
    simp only [runWorldA]
    cases hs : stepAll X w op with
    | mk w' o =>
      rw [hs] at h1 h2
      simp only at h1 h2
      cases hab : aborted o with
      | true =>
        simp only [if_true]
        exact ⟨fun o' ho' => by simp at ho'; rw [ho']; exact h1, fun hall => by
          have := hall o (by simp)
          rw [hab] at this; cases this⟩
      | false =>
        simp only [Bool.false_eq_true, if_false]
        obtain ⟨ih1, ih2⟩ := ih w' (h2 hab)
        refine ⟨fun o' ho' => ?_, fun hall => ih2 (fun o' ho' => hall o' (by simp [ho']))⟩
        simp only [List.mem_cons] at ho'
        rcases ho' with rfl | ho'
        · exact h1
        · exact ih1 o' ho'

/-- non-vacuity: the empty machine is well formed -/
example (X : Ctx) : WFWA X { sys := {}, regs := [] } := by
  intro r o hg
  simp [World.get] at hg

end MV.Props

#print axioms MV.Props.C04_world_step_partial
#print axioms MV.Props.C04_world_step_partialB
#print axioms MV.Props.C04_world_stepAll_partial
#print axioms MV.Props.C04_world_histories_partial

import MiniVecProof.Props.C04Histories
import MiniVecProof.Props.C04MacroRepeat
import MiniVecProof.Props.C19Mem
/-
  C04 — the serde entry points when `next_element` (the element's own `Deserialize`) or a destructor may panic at
  ANY call.

  `visit_seq` builds a local vector with `push`; a panic unwinds it and the caller sees nothing. In
  `deserialize_in_place` a slot is overwritten by drop-and-replace (`*place = value`): when the old value's destructor
  panics the new value is stored all the same, so the slot is never left holding a destroyed value; the truncation at an
  early end is `truncate` (C04_truncate_partial), and the tail loop is `push`.
-/
namespace MV.Props
open MV MV.Gen MV.GM VM

/-- one `next_element` call: it answers, or it panics; the vector is not touched either way -/
theorem nextElement_any (X : Ctx) (sc : List SeqItem) (s : St) :
    ∃ res s1, Serde.nextElement X sc s = (res, s1) ∧ s1.v = s.v ∧
      (res = .error .explicit ∨ ∃ r sc', res = .ok (r, sc')) := by
  unfold Serde.nextElement
  simp only [VM.bind_run, VM.callback]
  by_cases hp : X.o.panicAt s.sys.cbIdx = true
  · simp only [hp, if_true]
    exact ⟨_, _, rfl, rfl, .inl rfl⟩
  · simp only [hp, Bool.false_eq_true, if_false]
    cases sc with
    | nil => exact ⟨_, _, rfl, rfl, .inr ⟨_, _, rfl⟩⟩
    | cons it rest =>
      cases it with
      | err => exact ⟨_, _, rfl, rfl, .inr ⟨_, _, rfl⟩⟩
      | none => exact ⟨_, _, rfl, rfl, .inr ⟨_, _, rfl⟩⟩
      | val v =>
        simp only [VM.bind_run, mkElem_run, VM.pure_run]
        exact ⟨_, _, rfl, rfl, .inr ⟨_, _, rfl⟩⟩

/-- the push loop of `visit_seq` / the tail of `deserialize_in_place`: the vector is well formed in EVERY outcome
    (a refused allocation leaves it as it was) -/
theorem pushRest_any (X : Ctx) : ∀ (fuel : Nat) (sc : List SeqItem) (s : St) (acc : List Elem), Abs X s.v acc →
    ∃ r s' acc', Serde.pushRest X fuel sc s = (r, s') ∧ Abs X s'.v acc' ∧ (∀ p, r = .error p → Panic.benign p = true) := by
  intro fuel
  induction fuel with
  | zero => intro sc s acc h; exact ⟨.ok true, s, acc, rfl, h, fun p hp => by cases hp⟩
  | succ fuel ih =>
    intro sc s acc h
    obtain ⟨res, s1, hn, hv1, hcase⟩ := nextElement_any X sc s
    have h1 : Abs X s1.v acc := by rw [hv1]; exact h
    unfold Serde.pushRest
    simp only [VM.bind_run, hn]
    rcases hcase with rfl | ⟨r, sc', rfl⟩
    · exact ⟨_, s1, acc, rfl, h1, fun p hp => by cases hp; rfl⟩
    · simp only
      cases r with
      | error u => exact ⟨_, s1, acc, rfl, h1, fun p hp => by cases hp⟩
      | ok oe =>
        cases oe with
        | none => exact ⟨_, s1, acc, rfl, h1, fun p hp => by cases hp⟩
        | some e =>
          simp only [VM.bind_run]
          have hp := push_spec X s1 acc e h1
          generalize Vec.push X e s1 = out at hp
          cases hp with
          | pushed s2 habs _ => simp only; exact ih sc' s2 _ habs
          | stopped p s2 hv2 hb => exact ⟨_, s2, acc, rfl, by rw [hv2]; exact h1, fun q hq => by cases hq; exact hb⟩

/-- **(C04) `MiniVec::deserialize` under any panic oracle**: a well-formed new vector; `Err` (the partly built vector
    is destroyed); or a sanctioned stop — the caller's vector is not involved in any outcome -/
theorem C04_deserialize_any (X : Ctx) (hz : 0 < X.c.elemSize) (hint : Option Nat) (sc : List SeqItem) (s : St) :
    (∃ o s' new, Serde.deserialize X hint sc s = (.ok (some o), s') ∧ s'.v = s.v ∧ Abs X o new) ∨
    (∃ s', Serde.deserialize X hint sc s = (.ok none, s') ∧ s'.v = s.v) ∨
    (∃ p s', Serde.deserialize X hint sc s = (.error p, s') ∧ Panic.benign p = true ∧ s'.v = s.v) := by
  obtain ⟨hcap, _, hm⟩ := lift_map_size_hint X hint s
  unfold Serde.deserialize
  simp only [VM.bind_run, hm]
  have hx : (∃ a s', (do
        VM.lift X (with_capacity X.env hcap)
        Serde.pushRest X (sc.length + 1) sc : VM Bool) { s with v := {} } = (.ok a, s') ∧ (∃ new, Abs X s'.v new)) ∨
      (∃ p s' acc, (do
        VM.lift X (with_capacity X.env hcap)
        Serde.pushRest X (sc.length + 1) sc : VM Bool) { s with v := {} } = (.error p, s') ∧
        Panic.benign p = true ∧ Abs X s'.v acc) := by
    have hwc := with_capacity_mem X hz { s with v := {} } rfl hcap
    have habs0 : Abs X ({ s with v := {} } : St).v [] := Abs.sentinel_abs X hz
    simp only [VM.bind_run]
    generalize VM.lift X (with_capacity X.env hcap) { s with v := {} } = out at hwc
    have loop : ∀ s1 : St, Abs X s1.v [] →
        (∃ a s', Serde.pushRest X (sc.length + 1) sc s1 = (.ok a, s') ∧ (∃ new, Abs X s'.v new)) ∨
        (∃ p s' acc, Serde.pushRest X (sc.length + 1) sc s1 = (.error p, s') ∧ Panic.benign p = true ∧ Abs X s'.v acc) := by
      intro s1 h1
      obtain ⟨r, s', acc', hrun, habs, hb⟩ := pushRest_any X (sc.length + 1) sc s1 [] h1
      cases r with
      | ok a => exact .inl ⟨a, s', hrun, acc', habs⟩
      | error p => exact .inr ⟨p, s', acc', hrun, hb p rfl, habs⟩
    cases hwc with
    | same => exact loop _ habs0
    | stopped p s' hv hp _ => exact .inr ⟨p, s', [], rfl, hp, by rw [hv]; exact habs0⟩
    | grown s' habs _ _ _ _ => exact loop s' habs
  rcases withLocal_any X _ s (fun _ s' => ∃ new, Abs X s'.v new) hx with
    ⟨a, s', hrun, new, habs⟩ | ⟨p, s', hrun, hb, hv⟩
  · rw [hrun]
    cases a with
    | true =>
      simp only [if_true, VM.pure_run]
      exact .inl ⟨s'.v, _, new, rfl, rfl, habs⟩
    | false =>
      simp only [Bool.false_eq_true, if_false, VM.bind_run]
      obtain ⟨r, s2, hd, hcases⟩ := dropVec_any X { s' with v := s'.v } new habs
      unfold VM.onVec
      simp only
      have hd' : Vec.dropVec X { ({ s' with v := s.v } : St) with v := s'.v } = (r, s2) := by simpa using hd
      rw [hd']
      rcases hcases with rfl | rfl | rfl
      · exact .inr (.inl ⟨_, rfl, rfl⟩)
      · exact .inr (.inr ⟨.explicit, _, rfl, rfl, rfl⟩)
      · exact .inr (.inr ⟨.doublePanic, _, rfl, rfl, rfl⟩)
  · rw [hrun]
    exact .inr (.inr ⟨p, s', rfl, hb, hv⟩)

/-- the overwrite loop of `deserialize_in_place` under any oracle: every slot it has passed holds a live value (the new
    one is stored even when the old one's destructor panics) -/
theorem overwrite_any (X : Ctx) : ∀ (fuel i n : Nat) (sc : List SeqItem) (s : St) (cur : List Elem), Abs X s.v cur →
    n ≤ cur.length →
    ∃ r s', Serde.overwrite X fuel i n sc s = (r, s') ∧ Valid X r s' := by
  intro fuel
  induction fuel with
  | zero => intro i n sc s cur h _; exact ⟨_, s, rfl, .ok h⟩
  | succ fuel ih =>
    intro i n sc s cur h hn
    unfold Serde.overwrite
    by_cases hi : i < n
    · simp only [hi, if_true, VM.bind_run]
      obtain ⟨res, s1, hne, hv1, hcase⟩ := nextElement_any X sc s
      have h1 : Abs X s1.v cur := by rw [hv1]; exact h
      rw [hne]
      rcases hcase with rfl | ⟨r, sc', rfl⟩
      · exact ⟨_, s1, rfl, .err rfl h1⟩
      · simp only
        cases r with
        | error u => exact ⟨_, s1, rfl, .ok h1⟩
        | ok oe =>
          cases oe with
          | none =>
            simp only [VM.bind_run]
            obtain ⟨r, s2, hr, hro, ha, _⟩ := C04_truncate_partial X s1 cur i h1
            rw [hr]
            have hv : Valid X r s2 := .ofDrop hro ha
            cases r with
            | ok u => exact ⟨_, s2, rfl, hv⟩
            | error p => exact ⟨_, s2, rfl, hv⟩
          | some e =>
            have hd : s1.v.isDefault = false := by
              cases hd : s1.v.isDefault
              · rfl
              · have := (h1.sentinel hd).2
                subst this
                simp at hn; omega
            obtain ⟨b, hb, hl, _⟩ := h1.alloc hd
            have h2 : VM.lift X (as_mut_ptr X.env) s1 = (.ok (.at (dataOff s1.v.align)), s1) :=
              lift_read X _ s1 _ (as_mut_ptr_run X.env _ hd b.lay s1.v.cap hl)
            have hic : i < cur.length := by omega
            have h3 : VM.rd (.at (dataOff s1.v.align)) i s1 = (.ok cur[i], s1) := rd_abs X s1 _ h1 hd i hic
            obtain ⟨rd, s2, hdr, hv2, hrd, _⟩ := dropElem_any X cur[i] s1
            have h2abs : Abs X s2.v cur := by rw [hv2]; exact h1
            have hd2 : s2.v.isDefault = false := by rw [hv2]; exact hd
            obtain ⟨v', hw, habs', hd', _, _⟩ := wr_set_abs X s2 cur h2abs hd2 i hic e
            have hw' : VM.wr (.at (dataOff s1.v.align)) i e s2 = (.ok (), { s2 with v := v' }) := by
              rw [← hv2]; exact hw
            simp only [VM.bind_run, h2, h3]
            rcases hrd with rfl | rfl
            · have hstep : VM.guarded (VM.dropElem X cur[i]) (VM.wr (.at (dataOff s1.v.align)) i e) s1 =
                  (.ok (), { s2 with v := v' }) := by
                unfold VM.guarded; rw [hdr]; simp only; rw [hw']
              rw [hstep]
              simp only
              exact ih (i + 1) n sc' { s2 with v := v' } (cur.set i e) habs' (by simpa using hn)
            · have hstep : VM.guarded (VM.dropElem X cur[i]) (VM.wr (.at (dataOff s1.v.align)) i e) s1 =
                  (.error .explicit, { s2 with v := v' }) := by
                have hue : VM.unwinds .explicit = true := rfl
                unfold VM.guarded; rw [hdr]; simp only [hue, if_true]; rw [hw']
              rw [hstep]
              exact ⟨_, _, rfl, .err rfl habs'⟩
    · simp only [hi, if_false]
      exact ⟨_, s, rfl, .ok h⟩

/-- **(C04) `deserialize_in_place` under any panic oracle**: the destination is well formed in every outcome short of
    an abort -/
theorem C04_deserialize_in_place_any (X : Ctx) (hint : Option Nat) (sc : List SeqItem) (s : St) (es : List Elem)
    (h : Abs X s.v es) :
    ∃ r s', Serde.deserialize_in_place X hint sc s = (r, s') ∧ Valid X r s' := by
  obtain ⟨hcap, _, hm⟩ := lift_map_size_hint X hint s
  have hL : (hsOf s.v s.sys.allocIdx).L = es.length := h.len_eq
  have hlen : VM.lift X (len X.env) s = (.ok es.length, s) := lift_read X _ s _ (by rw [len_run, hL])
  unfold Serde.deserialize_in_place
  simp only [VM.bind_run, hm, hlen]
  have hres : (∃ s1, Serde.reserveHint X hcap es.length s = (.ok (), s1) ∧ Abs X s1.v es) ∨
      (∃ p s1, Serde.reserveHint X hcap es.length s = (.error p, s1) ∧ Panic.benign p = true ∧ Abs X s1.v es) := by
    unfold Serde.reserveHint
    cases checkedSub hcap es.length with
    | none => exact .inl ⟨s, rfl, h⟩
    | some add =>
      have hr := reserve_mem X s es add h
      simp only
      generalize Vec.reserve X add s = out at hr
      cases hr with
      | same => exact .inl ⟨s, rfl, h⟩
      | stopped p s' hv hp _ => exact .inr ⟨p, s', rfl, hp, by rw [hv]; exact h⟩
      | grown s' habs _ _ _ _ => exact .inl ⟨s', rfl, habs⟩
  rcases hres with ⟨s1, hr1, habs1⟩ | ⟨p, s1, hr1, hp, habs1⟩
  · rw [hr1]
    simp only
    have hL1 : (hsOf s1.v s1.sys.allocIdx).L = es.length := habs1.len_eq
    have hlen1 : VM.lift X (len X.env) s1 = (.ok es.length, s1) := lift_read X _ s1 _ (by rw [len_run, hL1])
    unfold Serde.inPlaceBody
    simp only [VM.bind_run, hlen1]
    obtain ⟨r, s2, hrun, hv⟩ := overwrite_any X (es.length + 1) 0 es.length sc s1 es habs1 (Nat.le_refl _)
    rw [hrun]
    cases r with
    | error p => exact ⟨_, s2, rfl, hv⟩
    | ok a =>
      obtain ⟨cur, hcur⟩ := hv
      obtain ⟨res, sc'⟩ := a
      simp only
      cases res with
      | error u => exact ⟨_, s2, rfl, .ok hcur⟩
      | ok b =>
        cases b with
        | false => exact ⟨_, s2, rfl, .ok hcur⟩
        | true =>
          obtain ⟨r3, s3, acc, hrun3, habs3, hb3⟩ := pushRest_any X (sc'.length + 1) sc' s2 cur hcur
          refine ⟨r3, s3, hrun3, ?_⟩
          cases r3 with
          | ok _ => exact .ok habs3
          | error p => exact .err (hb3 p rfl) habs3
  · rw [hr1]
    exact ⟨_, s1, rfl, .err hp habs1⟩

end MV.Props

#print axioms MV.Props.C04_deserialize_any
#print axioms MV.Props.C04_deserialize_in_place_any

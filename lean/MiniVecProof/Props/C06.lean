import MiniVecProof.Props.C11
import MiniVecProof.Model.Iter
/-
  C06 — a never-allocated vector needs no memory and supports every operation (PARTIAL at the
  pointer level: the element-level equivalence with an allocated empty vector is proved for the
  operations of `Props/C01.lean`; the rest is covered by the exhaustive sentinel sweep of the
  correspondence).

  On the REGENERATED decision programs, for the sentinel state of the header machine, every element
  class, both profiles and every argument: each program returns (or panics exactly where the
  documented argument check says so) WITHOUT reading or writing a header through the sentinel
  (`Panic.ub` is what such an access evaluates to), leaves the header state untouched, and requests
  memory only when capacity or elements are actually being added.
-/
namespace MV.Props
open MV MV.Gen MV.GM

abbrev S0 (k : Nat) : GS := GS.sentinel k

theorem C06_queries (E : Env) (k : Nat) :
    len E (S0 k) = (.ok 0, S0 k) ∧ capacity E (S0 k) = (.ok 0, S0 k) ∧ is_empty E (S0 k) = (.ok true, S0 k) ∧
    alignment E (S0 k) = (.ok (max E.c.elemAlign hdrAlign), S0 k) ∧
    as_ptr E (S0 k) = (.ok .null, S0 k) ∧ as_mut_ptr E (S0 k) = (.ok .null, S0 k) := by
  refine ⟨rfl, rfl, rfl, rfl, ?_, ?_⟩ <;> simp [as_ptr, as_mut_ptr, GS.sentinel]

/-- removing / shrinking operations: nothing to do, nothing touched, no allocator request -/
theorem C06_no_effect (E : Env) (k n : Nat) :
    pop_pre E (S0 k) = (.ok (.ret 0), S0 k) ∧
    truncate_pre E n (S0 k) = (.ok (.ret 0), S0 k) ∧
    shrink_to_fit E (S0 k) = (.ok (), S0 k) ∧
    shrink_to E 0 (S0 k) = (.ok (), S0 k) ∧
    reserve E 0 (S0 k) = (.ok (), S0 k) ∧
    reserve_exact E 0 (S0 k) = (.ok (), S0 k) ∧
    spare_capacity_mut_pre E (S0 k) = (.ok (.ret 0), S0 k) ∧
    split_at_spare_mut_pre E (S0 k) = (.ok (.ret 0), S0 k) ∧
    drop_impl_pre E (S0 k) = (.ok (.ret 0), S0 k) ∧
    dedup_by_pre E (S0 k) = (.ok (.ret 0), S0 k) ∧
    retain_pre E (S0 k) = (.ok (.cont ⟨0, .null, .null, .null⟩), S0 k) ∧
    remove_item_pre E (S0 k) = (.ok (.cont ⟨0⟩), S0 k) := by
  have hL : (S0 k).L = 0 := rfl
  have hC : (S0 k).C = 0 := rfl
  refine ⟨?_, ?_, ?_, ?_, ?_, ?_, ?_, ?_, ?_, ?_, ?_, ?_⟩
  · rw [pop_pre_run]; rfl
  · simp [truncate_pre, hL]
  · rw [shrink_to_fit_spec]; rfl
  · rw [shrink_to_spec]; rfl
  · rw [reserve_spec]; rfl
  · rw [reserve_exact_spec]; rfl
  · simp [spare_capacity_mut_pre, hC]
  · simp [split_at_spare_mut_pre, hC]
  · simp [drop_impl_pre, GS.sentinel]
  · simp [dedup_by_pre, hL]
  · simp [retain_pre, as_mut_ptr, GS.sentinel, GS.L]
  · simp [remove_item_pre, hL]
where
  pop_pre_run (E : Env) (g : GS) :
      pop_pre E g = if g.L = 0 then (.ok (.ret 0), g) else (.ok (.cont ⟨g.L⟩), g) := by
    unfold pop_pre
    simp only [len_run, GM.bind_run, GM.ite_run, beq_iff_eq, GM.pure_run]

/-- index-taking operations: rejected (with the state untouched) exactly as on any empty vector -/
theorem C06_index_checks (E : Env) (k i : Nat) :
    remove_pre E i (S0 k) = (.error .explicit, S0 k) ∧
    swap_remove_pre E i (S0 k) = (.error .explicit, S0 k) ∧
    (0 < i → insert_pre E i (S0 k) = (.error .explicit, S0 k)) ∧
    (0 < i → split_off_pre E i (S0 k) = (.error .explicit, S0 k)) ∧
    split_off_pre E 0 (S0 k) = (.ok (.cont ⟨0, 0⟩), S0 k) := by
  have hL : (S0 k).L = 0 := rfl
  refine ⟨?_, ?_, ?_, ?_, ?_⟩
  · rw [C11_remove, hL]; simp
  · rw [C11_swap_remove, hL]; simp
  · intro hi; rw [C11_insert, hL]; simp [hi]
  · intro hi; rw [C11_split_off, hL]; simp [hi]
  · rw [C11_split_off, hL]; simp

/-- range-taking operations: resolved against length 0; when accepted the cursors' base pointer is
    null and NO length is written (the sentinel is read-only memory) -/
theorem C06_ranges (E : Env) (k : Nat) (b1 b2 : Bound) :
    (resolve b1 b2 0 = none →
      drain_pre E b1 b2 (S0 k) = (.error .explicit, S0 k) ∧ splice_pre E b1 b2 (S0 k) = (.error .explicit, S0 k) ∧
      extend_from_within_pre E b1 b2 (S0 k) = (.error .explicit, S0 k)) ∧
    (∀ st en, resolve b1 b2 0 = some (st, en) →
      drain_pre E b1 b2 (S0 k) = (.ok (.cont ⟨0, st, en, .null⟩), S0 k) ∧
      splice_pre E b1 b2 (S0 k) = (.ok (.cont ⟨0, st, en, .null⟩), S0 k) ∧
      extend_from_within_pre E b1 b2 (S0 k) = (.ok (.ret 0), S0 k)) := by
  have hL : (S0 k).L = 0 := rfl
  constructor
  · intro h
    exact C11_rejected_untouched E b1 b2 (S0 k) (by rw [hL]; exact h)
  · intro st en h
    rw [C11_drain, C11_splice, C11_extend_from_within]
    unfold drainSpec spliceSpec efwSpec
    simp only [len_run, GM.bind_run, hL, h]
    refine ⟨?_, ?_, ?_⟩ <;> simp [as_mut_ptr, GS.sentinel, DPtr.isNull]

/-- memory is requested only when capacity or an element is added; it is exactly one `alloc` of a
    layout with room for what was asked, and the header is written into the NEW block -/
theorem C06_allocates_only_when_needed (E : Env) (k n : Nat) (hn : 0 < n) (r : Except Panic Unit) (s' : GS)
    (h : reserve_exact E n (S0 k) = (r, s')) (hr : r = .ok ()) :
    ∃ L, make_layout E n (max E.c.elemAlign hdrAlign) = .ok L ∧
      s' = (S0 k).grown n (max E.c.elemAlign hdrAlign) (.alloc L.size L.align) := by
  subst hr
  rw [reserve_exact_spec] at h
  have hL : (S0 k).L = 0 := rfl
  have hC : (S0 k).C = 0 := rfl
  have hA : (S0 k).A E = max E.c.elemAlign hdrAlign := rfl
  by_cases hw : n < W
  · have hc : checkedAdd (S0 k).L n = some n := by rw [hL]; unfold checkedAdd; simp [hw]
    simp only [hc, hC, hA] at h
    rw [if_neg (by omega)] at h
    rw [grow_spec E (S0 k) n _ rfl, hL, hC, hA] at h
    rw [if_neg (by omega), if_neg (by omega)] at h
    cases hLy : make_layout E n (max E.c.elemAlign hdrAlign) with
    | error p => simp [hLy] at h
    | ok L =>
      simp only [hLy] at h
      have hd : (S0 k).isDefault = true := rfl
      simp only [hd, if_true] at h
      cases hrf : allocRefused E (S0 k) L.size with
      | true => simp [hrf] at h
      | false =>
        simp only [hrf, Bool.false_eq_true, if_false] at h
        exact ⟨L, rfl, (Prod.mk.inj h).2.symm⟩
  · have hc : checkedAdd (S0 k).L n = none := by rw [hL]; unfold checkedAdd; simp [hw]
    simp [hc] at h

/-! the dangling-cursor iterators of the hand model: stepping from either end yields `None` -/
example (s : St) : Drain.next ⟨.null, 0, 0, 0, 0⟩ s = (.ok (none, ⟨.null, 0, 0, 0, 0⟩), s) := rfl
example (s : St) : Drain.next_back ⟨.null, 0, 0, 0, 0⟩ s = (.ok (none, ⟨.null, 0, 0, 0, 0⟩), s) := rfl

end MV.Props

#print axioms MV.Props.C06_queries
#print axioms MV.Props.C06_no_effect
#print axioms MV.Props.C06_index_checks
#print axioms MV.Props.C06_ranges
#print axioms MV.Props.C06_allocates_only_when_needed

import MiniVecProof.Props.C12
/-
  C12 — `clone_from` (the default `*self = source.clone()`): `self` ends up holding value-equal
  clones of the source's elements in a block of its own; its previous elements are destroyed
  exactly once and its previous block is released with its own layout; the source is untouched.
  If cloning stops (capacity overflow, allocation failure) `self` is untouched too.
-/
namespace MV.Props
open MV MV.Gen MV.GM VM

theorem C12_clone_from_partial (X : Ctx) (hq : ∀ k, X.o.panicAt k = false) (s : St) (es os : List Elem) (src : VSt)
    (h : Abs X s.v es) (ho : Abs X src os) :
    (∃ s' new, Vec.clone_from X src s = (.ok (), s') ∧ Abs X s'.v new ∧ new.map (·.val) = os.map (·.val)) ∨
    (∃ p s', Vec.clone_from X src s = (.error p, s') ∧ Panic.benign p = true ∧ s'.v = s.v) := by
  unfold Vec.clone_from
  simp only [VM.bind_run]
  rcases C12_clone_partial X hq { s with v := src } os ho with ⟨o, s1, new, hc, hv1, habs, hvals⟩ | ⟨p, s1, hc, hb, hv1⟩
  · rw [onVec_ok src (Vec.clone X) s _ _ hc]
    simp only
    obtain ⟨s2, hd2⟩ := dropVec_ok X hq { s1 with v := s.v } es h
    unfold VM.guarded
    rw [hd2]
    simp only [VM.setV]
    exact .inl ⟨_, new, rfl, habs, hvals⟩
  · have : VM.onVec src (Vec.clone X) s = (.error p, { s1 with v := s.v }) := by
      unfold VM.onVec; rw [hc]
    rw [this]
    exact .inr ⟨p, _, rfl, hb, rfl⟩

end MV.Props

#print axioms MV.Props.C12_clone_from_partial

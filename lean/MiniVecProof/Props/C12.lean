import MiniVecProof.Proofs.MemLoop
/-
  C12 — clones are deep and independent (PARTIAL: proved for `Clone for MiniVec`; `IntoIter::clone`,
  `clone_from` and the independence of the two values under later mutation in either order are
  decided by the correspondence — the model's storage is block-local, so two handles cannot share a
  block by construction; what the correspondence adds is that the REAL code does not either).

  Statement: for every element class, both profiles, every allocator oracle, no user code
  panicking, and every well-formed source exposing `es`: `clone()` either returns a well-formed
  vector exposing one clone per source element, in order, with equal values — while the source
  handle is bit-for-bit what it was — or stops in a sanctioned way (capacity overflow, allocation
  failure) with the source handle as it was.  Never an illegal access or a failed assertion.
-/
namespace MV.Props
open MV MV.Gen MV.GM VM

/-- one round of the cloning loop -/
theorem clone_round (X : Ctx) (hq : ∀ k, X.o.panicAt k = false) (src : VSt) (es : List Elem) (h : Abs X src es) :
    RoundSpec X es.length (fun i e => (es[i]?).map (·.val) = some e.val) (fun i => do
      let e ← Vec.readOf X src i
      let e' ← VM.cloneElem X e
      Vec.push X e') := by
  intro i s acc hi habs
  obtain ⟨s1, hc, hv⟩ := cloneElem_quiet X hq es[i] s
  have hp := push_spec X s1 acc ⟨s.sys.nextId, es[i].val⟩ (by rw [hv]; exact habs)
  simp only [VM.bind_run, readOf_spec X src es h i hi s, hc]
  generalize Vec.push X ⟨s.sys.nextId, es[i].val⟩ s1 = out at hp
  cases hp with
  | pushed s' habs' _ => exact .inl ⟨_, s', rfl, habs', by simp [List.getElem?_eq_getElem hi]⟩
  | stopped p s' hv' hb => exact .inr ⟨p, s', rfl, hb, by rw [hv', hv]⟩

/-- (C12) `Clone for MiniVec` -/
theorem C12_clone_partial (X : Ctx) (hq : ∀ k, X.o.panicAt k = false) (s : St) (es : List Elem) (h : Abs X s.v es) :
    (∃ o s' es', Vec.clone X s = (.ok o, s') ∧ s'.v = s.v ∧ Abs X o es' ∧
        es'.map (·.val) = es.map (·.val)) ∨
    (∃ p s', Vec.clone X s = (.error p, s') ∧ Panic.benign p = true ∧ s'.v = s.v) := by
  unfold Vec.clone
  simp only [VM.bind_run, VM.getV_run, lift_isDefault]
  cases hd : s.v.isDefault with
  | true =>
    have hnil := (h.sentinel hd).2
    subst hnil
    have h1 := lift_new_empty X h.elem_pos s
    simp only [if_true, VM.bind_run, onVec_ok _ _ s _ _ h1, VM.pure_run]
    exact .inl ⟨_, _, [], rfl, rfl, Abs.sentinel_abs X h.elem_pos, rfl⟩
  | false =>
    have hL : (hsOf s.v s.sys.allocIdx).L = es.length := h.len_eq
    have hlen : VM.lift X (len X.env) s = (.ok es.length, s) := lift_read X _ s _ (by rw [len_run, hL])
    simp only [Bool.false_eq_true, if_false, VM.bind_run, hlen]
    -- the computation on the local
    have hx : (∃ a s', (do
          VM.lift X (new X.env)
          Vec.reserve X es.length
          VM.forN es.length (fun i => do
            let e ← Vec.readOf X s.v i
            let e' ← VM.cloneElem X e
            Vec.push X e') : VM Unit) { s with v := {} } = (.ok a, s') ∧
          ∃ es', Abs X s'.v es' ∧ es'.map (·.val) = es.map (·.val)) ∨
        (∃ p s' acc, (do
          VM.lift X (new X.env)
          Vec.reserve X es.length
          VM.forN es.length (fun i => do
            let e ← Vec.readOf X s.v i
            let e' ← VM.cloneElem X e
            Vec.push X e') : VM Unit) { s with v := {} } = (.error p, s') ∧ Panic.benign p = true ∧ Abs X s'.v acc) := by
      have h1 := lift_new_empty X h.elem_pos s
      have habs0 : Abs X ({ s with v := {} } : St).v [] := Abs.sentinel_abs X h.elem_pos
      have hres := reserve_mem X { s with v := {} } [] es.length habs0
      simp only [VM.bind_run, h1]
      generalize Vec.reserve X es.length { s with v := {} } = out at hres
      have loop : ∀ s1 : St, Abs X s1.v [] →
          (∃ a s', (match ((.ok (), s1) : Except Panic Unit × St) with
            | (.ok _, s') => VM.forN es.length (fun i => do
                let e ← Vec.readOf X s.v i
                let e' ← VM.cloneElem X e
                Vec.push X e') s'
            | (.error e, s') => (.error e, s')) = (.ok a, s') ∧
              ∃ es', Abs X s'.v es' ∧ es'.map (·.val) = es.map (·.val)) ∨
          (∃ p s' acc, (match ((.ok (), s1) : Except Panic Unit × St) with
            | (.ok _, s') => VM.forN es.length (fun i => do
                let e ← Vec.readOf X s.v i
                let e' ← VM.cloneElem X e
                Vec.push X e') s'
            | (.error e, s') => (.error e, s')) = (.error p, s') ∧ Panic.benign p = true ∧ Abs X s'.v acc) := by
        intro s1 habs1
        simp only
        rcases forN_spec X es.length _ _ (clone_round X hq s.v es h) s1 [] habs1 with
          ⟨l, s2, hrun, habs2, hl, hP⟩ | ⟨p, s2, acc, hrun, hb, habs2⟩
        · refine .inl ⟨(), s2, hrun, l, by simpa using habs2, ?_⟩
          apply List.ext_getElem?
          intro j
          simp only [List.getElem?_map]
          by_cases hj : j < l.length
          · have := hP j hj
            rw [List.getElem?_eq_getElem hj]
            simp only [Option.map_some]
            rw [← this]
          · rw [List.getElem?_eq_none (by omega), List.getElem?_eq_none (by omega)]
        · exact .inr ⟨p, s2, acc, hrun, hb, habs2⟩
      cases hres with
      | same => exact loop _ habs0
      | stopped p s' hv hp _ => exact .inr ⟨p, s', [], rfl, hp, by rw [hv]; exact habs0⟩
      | grown s' habs _ _ _ _ => exact loop s' habs
    rcases withLocal_spec X hq _ s (fun _ s' => ∃ es', Abs X s'.v es' ∧ es'.map (·.val) = es.map (·.val)) hx with
      ⟨a, s', hrun, es', habs, hvals⟩ | ⟨p, s', hrun, hb, hv⟩
    · rw [hrun]
      exact .inl ⟨s'.v, _, es', rfl, rfl, habs, hvals⟩
    · rw [hrun]
      exact .inr ⟨p, s', rfl, hb, hv⟩

end MV.Props

#print axioms MV.Props.C12_clone_partial

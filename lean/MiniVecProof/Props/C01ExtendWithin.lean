import MiniVecProof.Props.C01MacroRepeat
import MiniVecProof.Props.C11
/-
  C01 — `extend_from_within(range)` for a range inside the documented limits (outside them it panics
  before anything is touched: `C11_extend_from_within`): value-equal clones of `es[st..en]`, in
  order, are appended; or the call stops in a sanctioned way (capacity overflow, allocation failure)
  with the vector exposing what it exposed before.
-/
namespace MV.Props
open MV MV.Gen MV.GM VM

/-- the decision part: after the range is accepted, room for `en - st` more elements is reserved -/
theorem efw_pre_capOutcome (E : Env) (gs : GS) (b1 b2 : Bound) (st en : Nat) (hf : gs.fresh = none)
    (hr : resolve b1 b2 gs.L = some (st, en)) (hne : gs.L ≠ 0) :
    CapOutcomeR E gs (Flow.cont (⟨gs.L, st, en⟩ : Env_extend_from_within)) (extend_from_within_pre E b1 b2 gs) := by
  obtain ⟨_, _, hse, _⟩ := (C11_resolve_iff b1 b2 gs.L st en).mp hr
  rw [C11_extend_from_within]
  unfold efwSpec
  have hsub : usub E.m en st = .ok (en - st) := by unfold usub; rw [if_pos hse]
  simp only [len_run, GM.bind_run, hr, beq_iff_eq, hne, if_false, GM.liftE, hsub]
  have := reserve_capOutcome E gs (en - st) hf
  generalize reserve E (en - st) gs = out at this
  cases this with
  | same => exact .same
  | rejected p hp => exact .rejected p hp
  | allocFailed req hr => exact .allocFailed req hr
  | grownAlloc c a L hd hL => exact .grownAlloc c a L hd hL
  | grownRealloc c L L0 hd hl hL hL0 => exact .grownRealloc c L L0 hd hl hL hL0

theorem efw_pre_room (E : Env) (gs gs' : GS) (b1 b2 : Bound) (st en : Nat) (f : Flow Env_extend_from_within) (hf : gs.fresh = none)
    (hr : resolve b1 b2 gs.L = some (st, en)) (hne : gs.L ≠ 0)
    (h : extend_from_within_pre E b1 b2 gs = (.ok f, gs')) : gs'.L = gs.L ∧ gs.L + (en - st) ≤ gs'.C := by
  obtain ⟨_, _, hse, _⟩ := (C11_resolve_iff b1 b2 gs.L st en).mp hr
  rw [C11_extend_from_within] at h
  unfold efwSpec at h
  have hsub : usub E.m en st = .ok (en - st) := by unfold usub; rw [if_pos hse]
  simp only [len_run, GM.bind_run, hr, beq_iff_eq, hne, if_false, GM.liftE, hsub] at h
  cases hrv : reserve E (en - st) gs with
  | mk r g1 =>
    rw [hrv] at h
    cases r with
    | error p => simp at h
    | ok u =>
      simp at h
      obtain ⟨_, rfl⟩ := h
      have := C07_reserve E (en - st) gs g1 hf hrv
      omega

/-- the cloning loop: element `i` is read from inside, its clone written behind what is there -/
theorem efw_go (X : Ctx) (hq : ∀ k, X.o.panicAt k = false) (es : List Elem) (cap : Nat) :
    ∀ (fuel i : Nat) (acc : List Elem) (s : St), Abs X { s.v with len := es.length + acc.length } (es ++ acc) →
    s.v.isDefault = false → s.v.cap = cap → i + fuel ≤ es.length → es.length + acc.length + fuel ≤ cap →
    ∃ s' new, Vec.efwGo X es.length cap (.at (dataOff s.v.align)) fuel i acc.length s =
        (.ok (acc.length + fuel), s') ∧
      Abs X { s'.v with len := es.length + acc.length + fuel } (es ++ acc ++ new) ∧
      new.map (·.val) = ((es.drop i).take fuel).map (·.val) ∧
      s'.v.isDefault = false ∧ s'.v.len = s.v.len := by
  intro fuel
  induction fuel with
  | zero =>
    intro i acc s h hd hc hi hroom
    exact ⟨s, [], by simp [Vec.efwGo], by simpa using h, by simp, hd, rfl⟩
  | succ fuel ih =>
    intro i acc s h hd hc hi hroom
    have hilt : i < (es ++ acc).length := by simp; omega
    have h1 := rd_full X s (es.length + acc.length) (es ++ acc) h hd i hilt
    have he : (es ++ acc)[i] = es[i]'(by omega) := List.getElem_append_left (by omega)
    rw [he] at h1
    obtain ⟨s1, hcl, hv1⟩ := cloneElem_quiet X hq (es[i]'(by omega)) s
    have hfull1 : Abs X { s1.v with len := (es ++ acc).length } (es ++ acc) := by
      rw [hv1]; simpa using h
    have hd1 : s1.v.isDefault = false := by rw [hv1]; exact hd
    obtain ⟨v', hw, habs', hc', hd', hal', hl'⟩ := wr_extend_full X s1 (es ++ acc) hfull1 hd1
      (by rw [hv1, hc]; simp; omega) ⟨s.sys.nextId, (es[i]'(by omega)).val⟩
    have hlt : es.length + acc.length < cap := by omega
    have hinner : (do
        let e ← VM.rd (.at (dataOff s.v.align)) i
        let e' ← VM.cloneElem X e
        VM.wr (.at (dataOff s.v.align)) (es.length + acc.length) e'
        pure () : VM Unit) s = (.ok (), { s1 with v := v' }) := by
      simp only [VM.bind_run, h1, hcl]
      have hw' : VM.wr (.at (dataOff s.v.align)) (es.length + acc.length) ⟨s.sys.nextId, (es[i]'(by omega)).val⟩ s1 =
          (.ok (), { s1 with v := v' }) := by
        have := hw
        rw [hv1] at this
        simpa using this
      rw [hw']
      rfl
    let e' : Elem := ⟨s.sys.nextId, (es[i]'(by omega)).val⟩
    have hinv' : Abs X { ({ s1 with v := v' } : St).v with len := es.length + (acc ++ [e']).length } (es ++ (acc ++ [e'])) := by
      have := habs'
      simp only [List.length_append, List.length_singleton] at this ⊢
      rw [← List.append_assoc, ← Nat.add_assoc]
      exact this
    obtain ⟨s', new, hrun, habs2, hvals, hd2, hl2⟩ := ih (i + 1) (acc ++ [e']) { s1 with v := v' } hinv' hd'
      (by show v'.cap = cap; rw [hc', hv1]; exact hc) (by omega) (by simp; omega)
    have hal2 : ({ s1 with v := v' } : St).v.align = s.v.align := by show v'.align = _; rw [hal', hv1]
    rw [hal2] at hrun
    refine ⟨s', e' :: new, ?_, ?_, ?_, hd2, by rw [hl2]; show v'.len = _; rw [hl', hv1]⟩
    · unfold Vec.efwGo
      simp only [hlt, if_true, hinner]
      have : (acc ++ [e']).length = acc.length + 1 := by simp
      rw [this] at hrun
      rw [hrun]
      congr 2
      omega
    · have : es.length + (acc ++ [e']).length + fuel = es.length + acc.length + (fuel + 1) := by simp; omega
      rw [this] at habs2
      simpa [List.append_assoc] using habs2
    · rw [List.map_cons, hvals]
      have hdrop : es.drop i = es[i]'(by omega) :: es.drop (i + 1) := List.drop_eq_getElem_cons (by omega)
      rw [hdrop, List.take_succ_cons, List.map_cons]

/-- (C01) `extend_from_within` -/
theorem C01_extend_from_within_partial (X : Ctx) (hq : ∀ k, X.o.panicAt k = false) (s : St) (es : List Elem) (b1 b2 : Bound)
    (st en : Nat) (h : Abs X s.v es) (hr : resolve b1 b2 es.length = some (st, en)) :
    (∃ s' new, Vec.extend_from_within X b1 b2 s = (.ok (), s') ∧ Abs X s'.v (es ++ new) ∧
        new.map (·.val) = ((es.take en).drop st).map (·.val)) ∨
    (∃ p s', Vec.extend_from_within X b1 b2 s = (.error p, s') ∧ Panic.benign p = true ∧ Abs X s'.v es) := by
  obtain ⟨_, _, hse, hel⟩ := (C11_resolve_iff b1 b2 es.length st en).mp hr
  have hL : (hsOf s.v s.sys.allocIdx).L = es.length := h.len_eq
  unfold Vec.extend_from_within
  simp only [VM.bind_run]
  by_cases hz : es.length = 0
  · -- nothing to copy from: the decision part returns at once
    have hnil : es = [] := List.eq_nil_of_length_eq_zero hz
    subst hnil
    have h1 : VM.lift X (extend_from_within_pre X.env b1 b2) s = (.ok (.ret 0), s) :=
      lift_read X _ s _ (by
        have hr0 : resolve b1 b2 0 = some (st, en) := hr
        rw [C11_extend_from_within]; unfold efwSpec
        simp only [len_run, GM.bind_run, hL, List.length_nil, hr0, beq_self_eq_true, if_true, GM.pure_run])
    rw [h1]
    exact .inl ⟨s, [], rfl, by simpa using h, by simp⟩
  · have hr' : resolve b1 b2 (hsOf s.v s.sys.allocIdx).L = some (st, en) := by rw [hL]; exact hr
    have hne : (hsOf s.v s.sys.allocIdx).L ≠ 0 := by rw [hL]; exact hz
    have hco := efw_pre_capOutcome X.env (hsOf s.v s.sys.allocIdx) b1 b2 st en rfl hr' hne
    rw [hL] at hco
    have hmem := lift_cap X (extend_from_within_pre X.env b1 b2) _ s es h hco
    cases hres : VM.lift X (extend_from_within_pre X.env b1 b2) s with
    | mk r s1 =>
      rw [hres] at hmem
      cases r with
      | error p =>
        cases hmem with
        | stopped _ _ hv hp _ => exact .inr ⟨p, s1, rfl, hp, by rw [hv]; exact h⟩
      | ok f =>
        have habs1 : Abs X s1.v es := by
          cases hmem with
          | same => exact h
          | grown _ habs _ _ _ _ => exact habs
        have hf : f = .cont ⟨es.length, st, en⟩ := by
          cases hmem with
          | same => rfl
          | grown _ _ _ _ _ _ => rfl
        subst hf
        -- room
        have hg : (extend_from_within_pre X.env b1 b2 (hsOf s.v s.sys.allocIdx)).1 = .ok (.cont ⟨es.length, st, en⟩) := by
          apply lift_fst X _ s; rw [hres]
        have hpair : extend_from_within_pre X.env b1 b2 (hsOf s.v s.sys.allocIdx) =
            (.ok (.cont ⟨es.length, st, en⟩), (extend_from_within_pre X.env b1 b2 (hsOf s.v s.sys.allocIdx)).2) := by rw [← hg]
        obtain ⟨_, hroomC⟩ := efw_pre_room X.env _ _ b1 b2 st en _ rfl hr' hne hpair
        obtain ⟨hcap, _, hdf⟩ := lift_v_hdr X (extend_from_within_pre X.env b1 b2) s
        rw [hres] at hcap hdf
        simp only at hcap hdf
        have hd1 : s1.v.isDefault = false := by
          cases hd : s1.v.isDefault
          · rfl
          · have := (habs1.sentinel hd).2; subst this; simp at hz
        rw [hL] at hroomC
        have hroom : es.length + (en - st) ≤ s1.v.cap := by
          rw [hd1] at hdf
          simp [GS.C, ← hdf] at hroomC
          rw [hcap]; exact hroomC
        simp only
        obtain ⟨b, hb, hl, _⟩ := habs1.alloc hd1
        have hC1 : (hsOf s1.v s1.sys.allocIdx).C = s1.v.cap := by simp [GS.C, hsOf, hd1]
        have h2 : VM.lift X (capacity X.env) s1 = (.ok s1.v.cap, s1) := lift_read X _ s1 _ (by rw [capacity_run, hC1])
        have h3 : VM.lift X (as_mut_ptr X.env) s1 = (.ok (.at (dataOff s1.v.align)), s1) :=
          lift_read X _ s1 _ (as_mut_ptr_run X.env _ hd1 b.lay s1.v.cap hl)
        simp only [VM.bind_run, h2, h3]
        have hl1 : s1.v.len = es.length := by
          obtain ⟨_, _, _, _, _, hel1, _⟩ := habs1.alloc hd1; exact hel1.symm
        have hfull0 : Abs X { s1.v with len := es.length + ([] : List Elem).length } (es ++ []) := by
          have hv : ({ s1.v with len := es.length } : VSt) = s1.v := by cases hv : s1.v; simp [hv] at *; exact hl1.symm
          simpa [hv] using habs1
        obtain ⟨s2, new, hgo, habs2, hvals, hd2, hl2⟩ := efw_go X hq es s1.v.cap (en - st) st [] s1 hfull0 hd1 rfl (by omega) (by simpa using hroom)
        simp only [List.length_nil, Nat.zero_add, Nat.add_zero, List.append_nil] at hgo habs2
        rw [hgo]
        simp only
        rw [lift_set_len X (es.length + (en - st)) s2 hd2]
        refine .inl ⟨_, new, rfl, habs2, ?_⟩
        rw [hvals]
        congr 1
        rw [List.drop_take]

end MV.Props

#print axioms MV.Props.C01_extend_from_within_partial

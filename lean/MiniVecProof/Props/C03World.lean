import MiniVecProof.Props.C01Histories
import MiniVecProof.Props.C01Ctors
import MiniVecProof.Props.C01MacroRepeat
import MiniVecProof.Props.C12IntoIter
import MiniVecProof.Model.World
import MiniVecProof.Props.C01SplitOff
import MiniVecProof.Props.C01Append
import MiniVecProof.Props.C12
import MiniVecProof.Props.C12CloneFrom
import MiniVecProof.Props.C04DrainFilter
import MiniVecProof.Props.C19Mem
import MiniVecProof.Props.C14
import MiniVecProof.Props.C07Stable
/-
  C03 / C01 — many vectors and iterators at once: the register machine of `Model/World.lean` (the thing the
  line-protocol driver runs against the real code, `stepAll`) keeps EVERY register well formed — vectors (`Abs`),
  and `Drain` / `Splice` / `DrainFilter` / `IntoIter` held in registers while other registers are operated on
  (`DrainInv`, `DFInv`, `IntoInv`) — whatever operations are applied to whichever register in whatever order and with
  whatever arguments, and no step ends in an illegal access, a failed internal assertion or a hang: a step either
  returns or stops in a sanctioned way (`Panic.benign`: a panic that unwinds, the allocation-failure abort; the
  double-panic abort is also `benign` — it cannot arise here because no callback panics, but the statement does not
  exclude it). `C03_world_all_histories`; callbacks that panic are C04's subject.

  Covered: the constructors (new, default, with_capacity, with_alignment, From<&[T]>, collect, both macro forms,
  deserialize), every single-vector operation, append / split_off / drain_vec / clone / clone_from / compare, the four
  iterators (creation with any range, next, next_back, nth, nth_back, size_hint, len, as_slice, clone, drop, forget),
  serialize, deserialize_in_place, the raw round trips, the spare-capacity API (spare, split_spare, fill_spare),
  views, leak, drop, forget, count, clone_from_iter, from_str, extend_ref: every operation of the protocol.
-/
namespace MV.Props
open MV MV.Gen MV.GM VM

/-- a computation on the focused vector is safe: from a well-formed vector it either returns with the vector well
    formed, or stops in a sanctioned way with the vector well formed -/
def VSafe (X : Ctx) {α} (x : VM α) : Prop :=
  ∀ s es, Abs X s.v es →
    (∃ a s' es', x s = (.ok a, s') ∧ Abs X s'.v es') ∨
    (∃ p s' es', x s = (.error p, s') ∧ Panic.benign p = true ∧ Abs X s'.v es')

theorem VSafe.map {X : Ctx} {α β} {x : VM α} (h : VSafe X x) (f : α → β) : VSafe X (do let a ← x; pure (f a)) := by
  intro s es habs
  rcases h s es habs with ⟨a, s', es', hr, ha⟩ | ⟨p, s', es', hr, hb, ha⟩
  · exact .inl ⟨f a, s', es', by simp only [VM.bind_run, hr]; rfl, ha⟩
  · exact .inr ⟨p, s', es', by simp only [VM.bind_run, hr], hb, ha⟩

/-- a fresh element for the call, then a safe computation -/
theorem VSafe.mk {X : Ctx} {α} (val : Int) {f : Elem → VM α} (h : ∀ e, VSafe X (f e)) :
    VSafe X (do let e ← VM.mkElem val; f e) := by
  intro s es habs
  have := h ⟨s.sys.nextId, val⟩ { s with sys := { s.sys with nextId := s.sys.nextId + 1 } } es habs
  simpa only [VM.bind_run, mkElem_run] using this

theorem VSafe.mkMany {X : Ctx} {α} (vals : List Int) {f : List Elem → VM α} (h : ∀ es, VSafe X (f es)) :
    VSafe X (do let es ← vals.mapM VM.mkElem; f es) := by
  intro s es habs
  obtain ⟨new, s', hr, hv, _⟩ := mapM_mkElem_run vals s
  simp only [VM.bind_run, hr]
  exact h _ _ es (by rw [hv]; exact habs)

/-- every history step of `HOp` is safe when it is within the documented limits -/
theorem VSafe.ofH (X : Ctx) (hq : ∀ k, X.o.panicAt k = false) (op : HOp) (hr : ∀ es, op.inRange es) : VSafe X (op.run X) := by
  intro s es habs
  rcases HOp.refines X hq op s es habs (hr es) with ⟨s', es', o, hrun, ha, _⟩ | ⟨p, s', es', hrun, hb, ha⟩
  · exact .inl ⟨o, s', es', hrun, ha⟩
  · exact .inr ⟨p, s', es', hrun, hb, ha⟩

/-! ### Registers -/

theorem find_map_set (l : List (String × Obj)) (r r' : String) (o : Obj) :
    ((l.map (fun p => if p.1 == r then (r, o) else p)).find? (·.1 == r')).map (·.2) =
      if r' = r then (if l.any (·.1 == r) then some o else none) else (l.find? (·.1 == r')).map (·.2) := by
  induction l with
  | nil => by_cases h : r' = r <;> simp [h]
  | cons p rest ih =>
    by_cases hp : p.1 = r
    · by_cases h : r' = r
      · subst h; simp [hp]
      · have h1 : (r == r') = false := by simp; exact fun e => h e.symm
        have h2 : (p.1 == r') = false := by rw [hp]; exact h1
        simp only [List.map_cons, hp, beq_self_eq_true, if_true, List.find?_cons, h1, h2, h, if_false]
        simpa [h] using ih
    · have hpb : (p.1 == r) = false := by simp [hp]
      by_cases h : r' = r
      · subst h
        simp only [List.map_cons, hpb, Bool.false_eq_true, if_false, List.find?_cons, List.any_cons, Bool.false_or, if_true]
        simpa using ih
      · by_cases h3 : (p.1 == r') = true
        · simp only [List.map_cons, hpb, Bool.false_eq_true, if_false, List.find?_cons, h3, h, Option.map_some]
        · simp only [List.map_cons, hpb, Bool.false_eq_true, if_false, List.find?_cons, h3, h]
          simpa [h] using ih

theorem find_none_of_not_any (l : List (String × Obj)) (r : String) (h : l.any (·.1 == r) = false) :
    l.find? (·.1 == r) = none := by
  rw [List.find?_eq_none]
  intro q hq
  have := (List.any_eq_false.mp h) q hq
  simpa using this

theorem world_get_set (w : World) (r r' : String) (o : Obj) :
    (w.set r o).get r' = if r' = r then some o else w.get r' := by
  unfold World.set World.get
  by_cases hany : w.regs.any (·.1 == r) = true
  · rw [if_pos hany]
    simp only
    rw [find_map_set, hany]
    simp
  · rw [if_neg hany]
    have hany' : w.regs.any (·.1 == r) = false := by
      cases hb : w.regs.any (·.1 == r) with
      | false => rfl
      | true => exact absurd hb hany
    simp only [List.find?_append]
    by_cases h : r' = r
    · subst h
      rw [find_none_of_not_any _ _ hany']
      simp
    · have h1 : (r == r') = false := by simp; exact fun e => h e.symm
      simp only [h, if_false]
      cases hf : w.regs.find? (fun x => x.1 == r') with
      | some q => simp
      | none => simp [List.find?, h1]

/-- what a register may hold: a well-formed vector; a dead or lent-out register; a `Drain`, a `Splice`, a `DrainFilter`
    or an `IntoIter` with its invariant (on a vector with storage) or over a never-allocated vector -/
def RegOK (X : Ctx) : Obj → Prop
  | .vec v => ∃ es, Abs X v es
  | .gone | .lent => True
  | .drain _ v d =>
      (∃ es st en, DrainInv X v es st en d) ∨ (v.isDefault = true ∧ Abs X v [] ∧ d.pos ≥ d.stop ∧ d.tail = 0)
  | .intoIter v it => (∃ es, IntoInv X v es it) ∨ (v.isDefault = true ∧ Abs X v [])
  | .splice _ v sp =>
      (∃ es st en, DrainInv X v es st en sp.d) ∨ (v.isDefault = true ∧ Abs X v [] ∧ sp.d.pos ≥ sp.d.stop)
  | .drainFilter _ v f =>
      (∃ kept junk rest, DFInv X v f kept junk rest) ∨
      (v.isDefault = true ∧ Abs X v [] ∧ f.oldLen = 0 ∧ f.pos = 0 ∧ f.newLen = 0 ∧ f.panicked = false)

def WFW (X : Ctx) (w : World) : Prop := ∀ r o, w.get r = some o → RegOK X o

/-- the step returned, or stopped in a sanctioned way: not by an illegal access (`ub`), a failed internal assertion
    or a hang (fuel) -/
def outSane : Out → Prop
  | .stopped p => Panic.benign p = true
  | _ => True

theorem WFW.set_vec {X : Ctx} {w : World} (h : WFW X w) (r : String) (v : VSt) (es : List Elem) (hv : Abs X v es) :
    WFW X (w.set r (.vec v)) := by
  intro r' o' hg
  rw [world_get_set] at hg
  by_cases hr : r' = r
  · simp [hr] at hg; subst hg; exact ⟨es, hv⟩
  · simp [hr] at hg; exact h r' o' hg

theorem WFW.set_ok {X : Ctx} {w : World} (h : WFW X w) (r : String) (o : Obj) (ho : RegOK X o) : WFW X (w.set r o) := by
  intro r' o' hg
  rw [world_get_set] at hg
  by_cases hr : r' = r
  · simp [hr] at hg; subst hg; exact ho
  · simp [hr] at hg; exact h r' o' hg

theorem WFW.set_gone {X : Ctx} {w : World} (h : WFW X w) (r : String) : WFW X (w.set r .gone) := h.set_ok r .gone trivial

theorem WFW.sys {X : Ctx} {w : World} (h : WFW X w) (sys : Sys) : WFW X { w with sys := sys } := h

/-- an operation on one register: the other registers are not touched, the register stays well formed -/
theorem onVecReg_safe (X : Ctx) (w : World) (r : String) (x : VM Out) (hx : VSafe X x) (hw : WFW X w)
    (hsane : ∀ s o s', x s = (.ok o, s') → outSane o) :
    WFW X (w.onVecReg r x).1 ∧ outSane (w.onVecReg r x).2 := by
  unfold World.onVecReg
  cases hg : w.get r with
  | none => exact ⟨hw, trivial⟩
  | some o =>
    cases o with
    | vec v =>
      obtain ⟨es, habs⟩ := hw r _ hg
      simp only [runOn]
      rcases hx { sys := w.sys, v := v } es habs with ⟨a, s', es', hr, ha⟩ | ⟨p, s', es', hr, hb, ha⟩
      · rw [hr]
        exact ⟨(hw.sys s'.sys).set_vec r s'.v es' ha, hsane _ _ _ hr⟩
      · rw [hr]
        exact ⟨(hw.sys s'.sys).set_vec r s'.v es' ha, hb⟩
    | _ => exact ⟨hw, trivial⟩

/-! ### The single-vector operations are safe for EVERY argument -/

section ops
variable (X : Ctx) (hq : ∀ k, X.o.panicAt k = false)
include hq

theorem vsafe_capMem (x : VM Unit) (h : ∀ s es, Abs X s.v es → CapMem X s es (x s)) : VSafe X x := by
  intro s es habs
  have := h s es habs
  generalize x s = out at this
  cases this with
  | same => exact .inl ⟨(), s, es, rfl, habs⟩
  | stopped p s' hv hp _ => exact .inr ⟨p, s', es, rfl, hp, by rw [hv]; exact habs⟩
  | grown s' ha _ _ _ _ => exact .inl ⟨(), s', es, rfl, ha⟩

theorem vsafe_push (e : Elem) : VSafe X (Vec.push X e) := by
  intro s es habs
  have := push_spec X s es e habs
  generalize Vec.push X e s = out at this
  cases this with
  | pushed s' ha _ => exact .inl ⟨(), s', _, rfl, ha⟩
  | stopped p s' hv hp => exact .inr ⟨p, s', es, rfl, hp, by rw [hv]; exact habs⟩

theorem vsafe_pop : VSafe X (Vec.pop X) := by
  intro s es habs
  have ⟨h1, h2⟩ := pop_spec X s es habs
  rcases List.eq_nil_or_concat es with hnil | ⟨es', e, he⟩
  · exact .inl ⟨none, s, es, h1 hnil, habs⟩
  · have he' : es = es' ++ [e] := by simpa using he
    obtain ⟨v', hr, ha, _⟩ := h2 es' e he'
    exact .inl ⟨some e, _, es', hr, ha⟩

theorem vsafe_insert (i : Nat) (e : Elem) : VSafe X (Vec.insert X i e) := by
  intro s es habs
  have := (insert_spec X s es i e habs).1
  generalize Vec.insert X i e s = out at this
  cases this with
  | inserted s' _ ha => exact .inl ⟨(), s', _, rfl, ha⟩
  | stopped p s' hv hp => exact .inr ⟨p, s', es, rfl, hp, by rw [hv]; exact habs⟩

theorem vsafe_remove (i : Nat) : VSafe X (Vec.remove X i) := by
  intro s es habs
  by_cases hi : i < es.length
  · obtain ⟨v', hr, ha, _⟩ := remove_spec X s es i habs hi
    exact .inl ⟨_, _, _, hr, ha⟩
  · have hL : (hsOf s.v s.sys.allocIdx).L = es.length := habs.len_eq
    have h1 : VM.lift X (remove_pre X.env i) s = (.error .explicit, s) :=
      lift_read X _ s _ (by rw [C11_remove, hL, if_pos (by omega)])
    refine .inr ⟨.explicit, s, es, ?_, rfl, habs⟩
    unfold Vec.remove
    simp only [VM.bind_run, h1]

theorem vsafe_swap_remove (i : Nat) : VSafe X (Vec.swap_remove X i) := by
  intro s es habs
  by_cases hi : i < es.length
  · obtain ⟨v', hr, ha, _⟩ := swap_remove_spec X s es i habs hi
    exact .inl ⟨_, _, _, hr, ha⟩
  · have hL : (hsOf s.v s.sys.allocIdx).L = es.length := habs.len_eq
    have h1 : VM.lift X (swap_remove_pre X.env i) s = (.error .explicit, s) :=
      lift_read X _ s _ (by rw [C11_swap_remove, hL, if_pos (by omega)])
    refine .inr ⟨.explicit, s, es, ?_, rfl, habs⟩
    unfold Vec.swap_remove
    simp only [VM.bind_run, h1]

theorem vsafe_truncate (n : Nat) : VSafe X (Vec.truncate X n) := by
  intro s es habs
  obtain ⟨v', hr, ha, _⟩ := truncate_spec X hq s es n habs
  exact .inl ⟨(), _, _, hr, ha⟩

theorem vsafe_clear : VSafe X (Vec.clear X) := by
  intro s es habs
  obtain ⟨v', hr, ha, _⟩ := clear_spec X hq s es habs
  exact .inl ⟨(), _, _, hr, ha⟩

theorem vsafe_retain (f : Vec.Pred1) : VSafe X (Vec.retain X f) := by
  intro s es habs
  obtain ⟨s', rej, hr, ha, _⟩ := retain_spec X hq f s es habs
  exact .inl ⟨(), s', _, hr, ha⟩

theorem vsafe_extend (it : Vec.IterScript) : VSafe X (Vec.extend X it) := by
  intro s es habs
  rcases C17_extend_partial X hq it s es habs with ⟨s', new, hr, ha, _⟩ | ⟨p, s', acc, hr, hb, ha⟩
  · exact .inl ⟨(), s', _, hr, ha⟩
  · exact .inr ⟨p, s', acc, hr, hb, ha⟩

theorem vsafe_extend_from_slice (elems : List Elem) : VSafe X (Vec.extend_from_slice X elems) := by
  intro s es habs
  rcases C01_extend_from_slice_partial X hq elems s es habs with ⟨new, s', hr, ha, _⟩ | ⟨p, s', acc, hr, hb, ha⟩
  · exact .inl ⟨(), s', _, hr, ha⟩
  · exact .inr ⟨p, s', acc, hr, hb, ha⟩

theorem vsafe_resize (n : Nat) (value : Elem) : VSafe X (Vec.resize X n value) := by
  intro s es habs
  rcases C01_resize_partial X hq n value s es habs with ⟨cur, s', hr, ha, _⟩ | ⟨p, s', acc, hr, hb, ha⟩
  · exact .inl ⟨(), s', _, hr, ha⟩
  · exact .inr ⟨p, s', acc, hr, hb, ha⟩

theorem vsafe_resize_with (n : Nat) (g : Nat → Int) : VSafe X (Vec.resize_with X n g) := by
  intro s es habs
  rcases C17_resize_with_partial X hq n g s es habs with ⟨cur, s', hr, ha, _⟩ | ⟨p, s', acc, hr, hb, ha⟩
  · exact .inl ⟨(), s', _, hr, ha⟩
  · exact .inr ⟨p, s', acc, hr, hb, ha⟩

theorem vsafe_dedup : VSafe X (Vec.dedup X) := by
  intro s es habs
  obtain ⟨s', kept, rej, hr, ha, _⟩ := (C17_dedup_partial X hq s es habs).1
  exact .inl ⟨(), s', kept, hr, ha⟩

theorem vsafe_dedup_by (f : Vec.Pred2) : VSafe X (Vec.dedup_by_pred X f) := by
  intro s es habs
  obtain ⟨s', kept, rej, hr, ha, _⟩ := (C17_dedup_partial X hq s es habs).2.1 f
  exact .inl ⟨(), s', kept, hr, ha⟩

theorem vsafe_dedup_by_key (key : Nat → Elem → Int) : VSafe X (Vec.dedup_by_key X key) := by
  intro s es habs
  obtain ⟨s', kept, rej, hr, ha, _⟩ := (C17_dedup_partial X hq s es habs).2.2 key
  exact .inl ⟨(), s', kept, hr, ha⟩

theorem vsafe_remove_item (probe : Elem) : VSafe X (Vec.remove_item X probe) := by
  intro s es habs
  rcases C17_remove_item_partial X hq probe s es habs with ⟨j, s', _, hr, ha, _⟩ | ⟨s', hr, hv, _⟩
  · exact .inl ⟨_, s', _, hr, ha⟩
  · exact .inl ⟨_, s', es, hr, by rw [hv]; exact habs⟩

theorem vsafe_extend_from_within (b1 b2 : Bound) : VSafe X (Vec.extend_from_within X b1 b2) := by
  intro s es habs
  cases hres : resolve b1 b2 es.length with
  | some se =>
    obtain ⟨st, en⟩ := se
    rcases C01_extend_from_within_partial X hq s es b1 b2 st en habs hres with ⟨s', new, hr, ha, _⟩ | ⟨p, s', hr, hb, ha⟩
    · exact .inl ⟨(), s', _, hr, ha⟩
    · exact .inr ⟨p, s', es, hr, hb, ha⟩
  | none =>
    have hL : (hsOf s.v s.sys.allocIdx).L = es.length := habs.len_eq
    have h1 : VM.lift X (extend_from_within_pre X.env b1 b2) s = (.error .explicit, s) :=
      lift_read X _ s _ (by
        rw [C11_extend_from_within]; unfold efwSpec
        simp only [len_run, GM.bind_run, hL, hres, GM.throw_run])
    refine .inr ⟨.explicit, s, es, ?_, rfl, habs⟩
    unfold Vec.extend_from_within
    simp only [VM.bind_run, h1]

end ops

/-! ### Constructors -/

/-- a constructor-like computation: run on the empty focus it returns a well-formed new vector or stops in a sanctioned way -/
def CSafe (X : Ctx) (x : VM VSt) : Prop :=
  ∀ s : St, s.v = {} →
    (∃ o s' new, x s = (.ok o, s') ∧ Abs X o new) ∨ (∃ p s', x s = (.error p, s') ∧ Panic.benign p = true)

theorem mkReg_safe (X : Ctx) (w : World) (r : String) (x : VM VSt) (hx : CSafe X x) (hw : WFW X w) :
    WFW X (w.mkReg r x).1 ∧ outSane (w.mkReg r x).2 := by
  unfold World.mkReg
  cases hf : w.fresh r with
  | false => simp only [Bool.not_false, if_true]; exact ⟨hw, trivial⟩
  | true =>
    simp only [Bool.not_true, Bool.false_eq_true, if_false, runOn]
    rcases hx { sys := w.sys, v := {} } rfl with ⟨o, s', new, hr, ha⟩ | ⟨p, s', hr, hb⟩
    · rw [hr]; exact ⟨(hw.sys s'.sys).set_vec r o new ha, trivial⟩
    · rw [hr]; exact ⟨hw.sys s'.sys, hb⟩

section ctors
variable (X : Ctx) (hq : ∀ k, X.o.panicAt k = false) (hz : 0 < X.c.elemSize)
include hq hz

theorem csafe_new : CSafe X (do VM.lift X (Gen.new X.env); VM.getV) := by
  intro s hv
  have h1 := lift_new_empty X hz s
  have hs : ({ s with v := {} } : St) = s := by cases s; simp at hv; simp [hv]
  rw [hs] at h1
  refine .inl ⟨s.v, s, [], by simp only [VM.bind_run, h1, VM.getV_run], by rw [hv]; exact Abs.sentinel_abs X hz⟩

theorem csafe_with_capacity (n : Nat) : CSafe X (do VM.lift X (Gen.with_capacity X.env n); VM.getV) := by
  intro s hv
  have := with_capacity_mem X hz s hv n
  simp only [VM.bind_run]
  generalize VM.lift X (Gen.with_capacity X.env n) s = out at this
  cases this with
  | same => exact .inl ⟨s.v, s, [], by simp [VM.getV_run], by rw [hv]; exact Abs.sentinel_abs X hz⟩
  | stopped p s' _ hp _ => exact .inr ⟨p, s', rfl, hp⟩
  | grown s' ha _ _ _ _ => exact .inl ⟨s'.v, s', [], by simp [VM.getV_run], ha⟩

theorem csafe_from_slice (vals : List Int) : CSafe X (do let es ← vals.mapM VM.mkElem; Vec.from_slice X es) := by
  intro s _
  obtain ⟨es, s1, hr, _, _⟩ := mapM_mkElem_run vals s
  simp only [VM.bind_run, hr]
  rcases C01_from_slice_partial X hq hz es s1 with ⟨o, s', new, hrun, _, ha, _⟩ | ⟨p, s', hrun, hb, _⟩
  · exact .inl ⟨o, s', new, hrun, ha⟩
  · exact .inr ⟨p, s', hrun, hb⟩

theorem csafe_collect (it : Vec.IterScript) : CSafe X (do let (v, _) ← Vec.collect X it; pure v) := by
  intro s _
  rcases C17_collect_partial X hq it s hz with ⟨o, s', new, hrun, _, ha, _⟩ | ⟨p, s', hrun, hb, _⟩
  · exact .inl ⟨o, s', new, by simp only [VM.bind_run, hrun]; rfl, ha⟩
  · exact .inr ⟨p, s', by simp only [VM.bind_run, hrun], hb⟩

theorem csafe_macro_list (vals : List Int) : CSafe X (Vec.macro_list X vals) := by
  intro s _
  rcases C01_macro_list_partial X hz vals s hq with ⟨o, s', new, hrun, _, ha, _⟩ | ⟨p, s', hrun, hb, _⟩
  · exact .inl ⟨o, s', new, hrun, ha⟩
  · exact .inr ⟨p, s', hrun, hb⟩

theorem csafe_macro_repeat (val : Int) (n : Nat) : CSafe X (Vec.macro_repeat X val n) := by
  intro s _
  rcases C01_macro_repeat_partial X hq hz val n s with ⟨o, s', new, hrun, _, ha, _⟩ | ⟨p, s', hrun, hb, _⟩
  · exact .inl ⟨o, s', new, hrun, ha⟩
  · exact .inr ⟨p, s', hrun, hb⟩

end ctors

/-! ### Iterators held in registers: `Drain`, `IntoIter` -/

/-- a `Drain` over a vector with storage: the invariant holds from creation -/
theorem drain_create_inv' (X : Ctx) (s : St) (es : List Elem) (b1 b2 : Bound) (st en : Nat)
    (h : Abs X s.v es) (hd : s.v.isDefault = false) (hr : resolve b1 b2 es.length = some (st, en)) :
    ∃ d, Drain.create X b1 b2 s = (.ok d, { s with v := { s.v with len := st } }) ∧
      DrainInv X { s.v with len := st } es st en d ∧ d.pos = st ∧ d.stop = en := by
  obtain ⟨b, hb, hl, hs, hlc, hel, hinit⟩ := h.alloc hd
  obtain ⟨_, _, hse, hel'⟩ := (C11_resolve_iff b1 b2 es.length st en).mp hr
  have hv : ({ ({ s.v with len := st } : VSt) with len := es.length } : VSt) = s.v := by
    cases hv : s.v; simp [hv] at *; exact hel
  have hL : (hsOf s.v s.sys.allocIdx).L = es.length := h.len_eq
  have hmp := as_mut_ptr_run X.env (hsOf s.v s.sys.allocIdx) hd b.lay s.v.cap hl
  have hrun : drain_pre X.env b1 b2 (hsOf s.v s.sys.allocIdx) =
      (.ok (.cont ⟨es.length, st, en, .at (dataOff s.v.align)⟩),
       { (hsOf s.v s.sys.allocIdx) with len := st, acts := [.setLen st] }) := by
    rw [C11_drain]
    unfold drainSpec
    have hsl := set_len_run X.env st (hsOf s.v s.sys.allocIdx) hd
    simp only [len_run, GM.bind_run, hL, hr, hmp, DPtr.isNull, Bool.not_false, if_true, GM.ite_run,
      hsl, GM.pure_run]
    rfl
  have h1 := lift_len_write X (drain_pre X.env b1 b2) s st _ hrun
  have hcapb : s.v.cap ≤ b.slots.length := by rw [hs]; exact physSlots_ge X.env _ _ _ hl h.elem_pos
  have hal : b.lay.align = s.v.align := (make_layout_honest _ _ _ _ hl).2.1
  have hen : en ≤ b.slots.length := by omega
  refine ⟨{ ptr := .at (dataOff s.v.align), pos := st, stop := en, tailPos := en, tail := es.length - en }, ?_, ?_⟩
  · unfold Drain.create
    simp only [VM.bind_run, h1, DPtr.isNull, Bool.false_eq_true, if_false, VM.ite_run]
    unfold VM.inb VM.blockAt
    simp [hb, hal, hen]
  · refine ⟨?_, rfl, rfl⟩
    exact { hd := hd, len := rfl, full := by simp only; rw [hv]; exact h, ptr := rfl, lo := Nat.le_refl _, mid := hse,
            hi := Nat.le_refl _, tp := rfl, tl := rfl, en_le := hel' }

theorem drain_create_inv (X : Ctx) (s : St) (es : List Elem) (b1 b2 : Bound) (st en : Nat)
    (h : Abs X s.v es) (hd : s.v.isDefault = false) (hr : resolve b1 b2 es.length = some (st, en)) :
    ∃ d, Drain.create X b1 b2 s = (.ok d, { s with v := { s.v with len := st } }) ∧
      DrainInv X { s.v with len := st } es st en d := by
  obtain ⟨d, h1, h2, _⟩ := drain_create_inv' X s es b1 b2 st en h hd hr
  exact ⟨d, h1, h2⟩

/-- outside the documented limits `drain` panics before anything is touched -/
theorem drain_create_err (X : Ctx) (s : St) (es : List Elem) (b1 b2 : Bound) (h : Abs X s.v es)
    (hr : resolve b1 b2 es.length = none) : Drain.create X b1 b2 s = (.error .explicit, s) := by
  have hL : (hsOf s.v s.sys.allocIdx).L = es.length := h.len_eq
  have h1 : VM.lift X (drain_pre X.env b1 b2) s = (.error .explicit, s) :=
    lift_read X _ s _ (by
      rw [C11_drain]; unfold drainSpec
      simp only [len_run, GM.bind_run, hL, hr, GM.throw_run])
  unfold Drain.create
  simp only [VM.bind_run, h1]

/-- forgetting a `Drain` leaves the untouched prefix -/
theorem DrainInv.prefix_abs {X : Ctx} {v : VSt} {es : List Elem} {st en : Nat} {d : DrainSt}
    (h : DrainInv X v es st en d) : Abs X v (es.take st) := by
  have hle : st ≤ es.length := by have := h.lo; have := h.mid; have := h.hi; have := h.en_le; omega
  have := h.full.shorten st hle (by simpa using h.hd)
  have hv : ({ ({ v with len := es.length } : VSt) with len := st } : VSt) = v := by
    have hl := h.len
    cases hvv : v; simp [hvv] at *; omega
  rw [hv] at this; exact this

/-- one step of a `Drain` held in a register -/
theorem drain_reg_step_m (X : Ctx) (src : String) (v : VSt) (d : DrainSt) (sys : Sys) (back : Bool)
    (h : RegOK X (.drain src v d)) :
    ∃ o d', (if back then Drain.next_back d else Drain.next d) { sys := sys, v := v } = (.ok (o, d'), { sys := sys, v := v }) ∧
      RegOK X (.drain src v d') ∧ (o.isSome = true → d'.stop - d'.pos < d.stop - d.pos) := by
  rcases h with ⟨es, st, en, hinv⟩ | ⟨hd, habs, hge, ht⟩
  · by_cases hlt : d.pos < d.stop
    · cases back with
      | false =>
        refine ⟨_, _, by simpa using drain_next_some (s := { sys := sys, v := v }) hinv hlt, .inl ⟨es, st, en, ?_⟩, fun _ => by simp; omega⟩
        exact { hinv with lo := by have := hinv.lo; simp; omega, mid := by simp; omega }
      | true =>
        refine ⟨_, _, by simpa using drain_next_back_some (s := { sys := sys, v := v }) hinv hlt, .inl ⟨es, st, en, ?_⟩, fun _ => by simp; omega⟩
        exact { hinv with hi := by have := hinv.hi; simp; omega, mid := by simp; omega }
    · obtain ⟨h1, h2⟩ := drain_next_none d { sys := sys, v := v } (by omega)
      cases back with
      | false => exact ⟨none, d, by simpa using h1, .inl ⟨es, st, en, hinv⟩, fun h => by simp at h⟩
      | true => exact ⟨none, d, by simpa using h2, .inl ⟨es, st, en, hinv⟩, fun h => by simp at h⟩
  · obtain ⟨h1, h2⟩ := drain_next_none d { sys := sys, v := v } hge
    cases back with
    | false => exact ⟨none, d, by simpa using h1, .inr ⟨hd, habs, hge, ht⟩, fun h => by simp at h⟩
    | true => exact ⟨none, d, by simpa using h2, .inr ⟨hd, habs, hge, ht⟩, fun h => by simp at h⟩

theorem drain_reg_step (X : Ctx) (src : String) (v : VSt) (d : DrainSt) (sys : Sys) (back : Bool)
    (h : RegOK X (.drain src v d)) :
    ∃ o d', (if back then Drain.next_back d else Drain.next d) { sys := sys, v := v } = (.ok (o, d'), { sys := sys, v := v }) ∧
      RegOK X (.drain src v d') := by
  obtain ⟨o, d', hr, hok, _⟩ := drain_reg_step_m X src v d sys back h
  exact ⟨o, d', hr, hok⟩

/-- one step of an `IntoIter` held in a register -/
theorem into_reg_step (X : Ctx) (v : VSt) (it : IntoIterSt) (sys : Sys) (back : Bool)
    (h : RegOK X (.intoIter v it)) :
    ∃ o it' v', (if back then IntoIter.next_back X it else IntoIter.next X it) { sys := sys, v := v } =
        (.ok (o, it'), { sys := sys, v := v' }) ∧ RegOK X (.intoIter v' it') := by
  rcases h with ⟨es, hinv⟩ | ⟨hd, habs⟩
  · by_cases hlt : 0 < v.len
    · have hbnd := hinv.bound
      have hinv' : IntoInv X ({ v with len := v.len - 1 } : VSt) es it := hinv.shrink _ it rfl (by omega)
      cases back with
      | false =>
        refine ⟨_, _, _, by simpa using into_next_some (s := { sys := sys, v := v }) hinv hlt, .inl ⟨es, ?_⟩⟩
        exact { hd := hinv'.hd, full := hinv'.full, ptr := hinv'.ptr, bound := by have := hinv.bound; simp; omega }
      | true =>
        exact ⟨_, _, _, by simpa using into_next_back_some (s := { sys := sys, v := v }) hinv hlt, .inl ⟨es, hinv'⟩⟩
    · obtain ⟨h1, h2⟩ := into_next_none (s := { sys := sys, v := v }) hinv (by show v.len = 0; omega)
      cases back with
      | false => exact ⟨none, it, v, by simpa using h1, .inl ⟨es, hinv⟩⟩
      | true => exact ⟨none, it, v, by simpa using h2, .inl ⟨es, hinv⟩⟩
  · have e1 : VM.lift X GM.isDefault { sys := sys, v := v } = (.ok true, { sys := sys, v := v }) := by
      rw [lift_isDefault]; exact congrArg (fun b => (Except.ok b, _)) hd
    cases back with
    | false =>
      refine ⟨none, it, v, ?_, .inr ⟨hd, habs⟩⟩
      unfold IntoIter.next; simp only [Bool.false_eq_true, if_false, VM.bind_run, e1, if_true, VM.pure_run]
    | true =>
      refine ⟨none, it, v, ?_, .inr ⟨hd, habs⟩⟩
      unfold IntoIter.next_back; simp only [if_true, VM.bind_run, e1, VM.pure_run]

/-- dropping a `Splice` whose draining half satisfies the invariant -/
theorem splice_drop_inv' (X : Ctx) (hq : ∀ k, X.o.panicAt k = false) (sp : SpliceSt) (s : St) (es : List Elem) (st en : Nat)
    (hinv : DrainInv X s.v es st en sp.d) :
    (∃ s2 new, Splice.drop X sp s = (.ok (), s2) ∧ Abs X s2.v (es.take st ++ new ++ es.drop en) ∧
        new.map (·.val) = takeSome sp.fill) ∨
    (∃ p s2 cur, Splice.drop X sp s = (.error p, s2) ∧ Panic.benign p = true ∧ Abs X s2.v cur) := by
  have hse : st ≤ en := by have := hinv.lo; have := hinv.mid; have := hinv.hi; omega
  have h1 := splice_dropLoop_run X hq (sp.d.stop - sp.d.pos) (sp.d.stop - sp.d.pos + 1) sp s es st en hinv rfl (by omega)
  have hinv2 : DrainInv X (afterDrops X s (window sp.d es)).v es st en { sp.d with pos := sp.d.stop } :=
    { hinv with lo := by have := hinv.lo; have := hinv.mid; simp; omega, mid := by simp }
  have hdr : Drain.dropRest X (sp.d.stop - sp.d.stop + 1) { sp.d with pos := sp.d.stop } (afterDrops X s (window sp.d es)) =
      (.ok { sp.d with pos := sp.d.stop }, afterDrops X s (window sp.d es)) := by
    simp only [Nat.sub_self, Nat.zero_add]
    unfold Drain.dropRest
    simp only [VM.bind_run, (drain_next_none { sp.d with pos := sp.d.stop } _ (by simp)).1, VM.pure_run]
  have hdf : VM.lift X GM.isDefault (afterDrops X s (window sp.d es)) = (.ok false, afterDrops X s (window sp.d es)) := by
    rw [lift_isDefault]; exact congrArg (fun b => (Except.ok b, _)) hinv.hd
  have hrf := refill_spec X hq (afterDrops X s (window sp.d es)) es st en { sp.d with pos := sp.d.stop } sp.fill hinv.hd hinv.len
    hinv.full hse hinv.en_le hinv.tp hinv.tl
  have hdrop : Splice.drop X sp s = Splice.refill X { sp.d with pos := sp.d.stop } sp.fill (afterDrops X s (window sp.d es)) := by
    unfold Splice.drop
    simp only [VM.bind_run]
    rw [h1]
    simp only
    unfold Splice.guardBody
    simp only [VM.bind_run, hdr, hdf, Bool.false_eq_true, if_false]
  rw [hdrop]
  rcases hrf with ⟨s3, new, hr3, habs3, hv3⟩ | ⟨p, s3, cur, hr3, hbn, hab⟩
  · exact .inl ⟨s3, new, hr3, habs3, hv3⟩
  · exact .inr ⟨p, s3, cur, hr3, hbn, hab⟩

theorem splice_drop_inv (X : Ctx) (hq : ∀ k, X.o.panicAt k = false) (sp : SpliceSt) (s : St) (es : List Elem) (st en : Nat)
    (hinv : DrainInv X s.v es st en sp.d) :
    (∃ s2 new, Splice.drop X sp s = (.ok (), s2) ∧ Abs X s2.v (es.take st ++ new ++ es.drop en)) ∨
    (∃ p s2 cur, Splice.drop X sp s = (.error p, s2) ∧ Panic.benign p = true ∧ Abs X s2.v cur) := by
  rcases splice_drop_inv' X hq sp s es st en hinv with ⟨s2, new, h1, h2, _⟩ | h
  · exact .inl ⟨s2, new, h1, h2⟩
  · exact .inr h

/-- dropping a `Splice` over a never-allocated vector: the replacement is pushed -/
theorem splice_drop_default' (X : Ctx) (hq : ∀ k, X.o.panicAt k = false) (sp : SpliceSt) (s : St) (h : Abs X s.v [])
    (hd : s.v.isDefault = true) (hge : sp.d.pos ≥ sp.d.stop) :
    (∃ s2 new, Splice.drop X sp s = (.ok (), s2) ∧ Abs X s2.v new ∧ new.map (·.val) = takeSome sp.fill) ∨
    (∃ p s2 cur, Splice.drop X sp s = (.error p, s2) ∧ Panic.benign p = true ∧ Abs X s2.v cur) := by
  have hn := (drain_next_none sp.d s hge).1
  have hdl : Splice.dropLoop X (sp.d.stop - sp.d.pos + 1) sp s = (.ok sp, s) := by
    rw [show sp.d.stop - sp.d.pos + 1 = 0 + 1 by omega]
    unfold Splice.dropLoop
    simp only [VM.bind_run, hn, VM.pure_run]
  have hdr : Drain.dropRest X (sp.d.stop - sp.d.pos + 1) sp.d s = (.ok sp.d, s) := by
    rw [show sp.d.stop - sp.d.pos + 1 = 0 + 1 by omega]
    unfold Drain.dropRest
    simp only [VM.bind_run, hn, VM.pure_run]
  have hdf : VM.lift X GM.isDefault s = (.ok true, s) := by rw [lift_isDefault, hd]
  have hdrop : Splice.drop X sp s =
      (do let _ ← Vec.forIter X (Vec.push X) (sp.fill.length + 1) sp.fill; pure () : VM Unit) s := by
    unfold Splice.drop
    simp only [VM.bind_run]
    rw [hdl]
    simp only
    unfold Splice.guardBody
    simp only [VM.bind_run, hdr, hdf, if_true]
  rw [hdrop]
  simp only [VM.bind_run]
  rcases forIter_push_spec X hq sp.fill (sp.fill.length + 1) s [] (by omega) h with ⟨s', new, hrun', habs, hv⟩ | ⟨p, s', acc, hrun', hb, habs⟩
  · rw [hrun']
    exact .inl ⟨s', new, rfl, by simpa using habs, hv⟩
  · rw [hrun']
    exact .inr ⟨p, s', acc, rfl, hb, habs⟩

theorem splice_drop_default (X : Ctx) (hq : ∀ k, X.o.panicAt k = false) (sp : SpliceSt) (s : St) (h : Abs X s.v [])
    (hd : s.v.isDefault = true) (hge : sp.d.pos ≥ sp.d.stop) :
    (∃ s2 new, Splice.drop X sp s = (.ok (), s2) ∧ Abs X s2.v new) ∨
    (∃ p s2 cur, Splice.drop X sp s = (.error p, s2) ∧ Panic.benign p = true ∧ Abs X s2.v cur) := by
  rcases splice_drop_default' X hq sp s h hd hge with ⟨s2, new, h1, h2, _⟩ | h'
  · exact .inl ⟨s2, new, h1, h2⟩
  · exact .inr h'

/-- outside the documented limits `splice` panics before anything is touched -/
theorem splice_create_err (X : Ctx) (s : St) (es : List Elem) (b1 b2 : Bound) (fill : Vec.IterScript) (h : Abs X s.v es)
    (hr : resolve b1 b2 es.length = none) : Splice.create X b1 b2 fill s = (.error .explicit, s) := by
  have hL : (hsOf s.v s.sys.allocIdx).L = es.length := h.len_eq
  have h1 : VM.lift X (splice_pre X.env b1 b2) s = (.error .explicit, s) :=
    lift_read X _ s _ (by
      rw [C11_splice]; unfold spliceSpec
      simp only [len_run, GM.bind_run, hL, hr, GM.throw_run])
  unfold Splice.create
  simp only [VM.bind_run, h1]

/-- one step of a `Splice` held in a register (its draining half) -/
theorem splice_reg_step (X : Ctx) (src : String) (v : VSt) (sp : SpliceSt) (sys : Sys) (back : Bool)
    (h : RegOK X (.splice src v sp)) :
    ∃ o d', (if back then Drain.next_back sp.d else Drain.next sp.d) { sys := sys, v := v } = (.ok (o, d'), { sys := sys, v := v }) ∧
      RegOK X (.splice src v { sp with d := d' }) := by
  rcases h with ⟨es, st, en, hinv⟩ | ⟨hd, habs, hge⟩
  · obtain ⟨o, d', hr, hok⟩ := drain_reg_step X src v sp.d sys back (.inl ⟨es, st, en, hinv⟩)
    refine ⟨o, d', hr, ?_⟩
    rcases hok with ⟨es', st', en', hinv'⟩ | ⟨hd', _, _, _⟩
    · exact .inl ⟨es', st', en', hinv'⟩
    · rw [hinv.hd] at hd'; cases hd'
  · obtain ⟨h1, h2⟩ := drain_next_none sp.d { sys := sys, v := v } hge
    cases back with
    | false => exact ⟨none, sp.d, by simpa using h1, .inr ⟨hd, habs, hge⟩⟩
    | true => exact ⟨none, sp.d, by simpa using h2, .inr ⟨hd, habs, hge⟩⟩

/-- a `DrainFilter` over a never-allocated vector does nothing -/
theorem df_default_next (X : Ctx) (f : DFSt) (s : St) (ho : f.oldLen = 0) (hp : f.pos = 0) (fuel : Nat) :
    DrainFilter.next X (fuel + 1) f s = (.ok (.done, f), s) := by
  unfold DrainFilter.next
  simp [ho, hp]

theorem df_default_drop (X : Ctx) (f : DFSt) (s : St) (ho : f.oldLen = 0) (hp : f.pos = 0) (hn : f.newLen = 0)
    (hpk : f.panicked = false) : DrainFilter.drop X f s = (.ok (), s) := by
  unfold DrainFilter.drop
  simp only [hpk, Bool.false_eq_true, if_false]
  rw [show f.oldLen - f.pos + 1 = 0 + 1 by omega]
  unfold DrainFilter.dropLoop
  simp only [VM.bind_run, show f.oldLen - f.pos + 1 = 0 + 1 by omega, df_default_next X f s ho hp 0]
  unfold DrainFilter.guardBody
  simp [ho, hp, hn]

/-- one `next()` of a `DrainFilter` held in a register -/
theorem df_reg_step (X : Ctx) (hq : ∀ k, X.o.panicAt k = false) (src : String) (v : VSt) (f : DFSt) (sys : Sys)
    (h : RegOK X (.drainFilter src v f)) :
    ∃ st f' s', DrainFilter.next X (f.oldLen - f.pos + 1) f { sys := sys, v := v } = (.ok (st, f'), s') ∧
      st ≠ .predPanicked ∧ RegOK X (.drainFilter src s'.v f') := by
  rcases h with ⟨kept, junk, rest, hinv⟩ | ⟨hd, habs, ho, hp, hn, hpk⟩
  · obtain ⟨s', junk', f', hr, hinv', _⟩ := df_next_spec X hq rest kept junk f { sys := sys, v := v }
      (f.oldLen - f.pos + 1) hinv (by have := hinv.ps; have := hinv.ol; omega)
    refine ⟨_, f', s', hr, ?_, .inl ⟨_, _, _, hinv'⟩⟩
    cases (dfNext f.pred f.calls rest).2.1 <;> simp [stepOf]
  · refine ⟨.done, f, { sys := sys, v := v }, ?_, by simp, .inr ⟨hd, habs, ho, hp, hn, hpk⟩⟩
    rw [show f.oldLen - f.pos + 1 = 0 + 1 by omega]
    exact df_default_next X f _ ho hp 0

/-- reading out what the vector exposes touches nothing -/
theorem contents_run (X : Ctx) (s : St) (es : List Elem) (h : Abs X s.v es) : Vec.contents X s = (.ok es, s) := by
  unfold Vec.contents
  cases hd : s.v.isDefault with
  | true =>
    have hnil := (h.sentinel hd).2
    have e1 : VM.lift X GM.isDefault s = (.ok true, s) := by rw [lift_isDefault, hd]
    simp only [VM.bind_run, e1, if_true, VM.pure_run, hnil]
  | false =>
    obtain ⟨b, hb, hl, hs, hlc, hel, hinit⟩ := h.alloc hd
    have e1 : VM.lift X GM.isDefault s = (.ok false, s) := by rw [lift_isDefault, hd]
    have e2 := lift_hdrLen X s hd
    have e3 : VM.lift X (data X.env) s = (.ok (.at (dataOff s.v.align)), s) :=
      lift_read X _ s _ (data_run X.env _ hd b.lay s.v.cap hl)
    have e4 := rdRange_abs X s es h hd s.v.len 0 (by omega)
    simp only [VM.bind_run, e1, Bool.false_eq_true, if_false, e2, e3, e4]
    simp [← hel]

/-- the raw-pointer round trip (`into_raw_parts` / `from_raw_parts`, `as_mut_ptr` / `from_raw_part`) rebuilds the same
    handle on every well-formed vector and touches nothing -/
theorem raw_roundtrip_run (X : Ctx) (s : St) (es : List Elem) (h : Abs X s.v es) (l k : Nat) :
    (∃ o, Vec.raw_roundtrip X (Vec.backPart X) s = (.ok o, s)) ∧
    (∃ o, Vec.raw_roundtrip X (Vec.backParts X l k) s = (.ok o, s)) := by
  cases hd : s.v.isDefault with
  | false =>
    obtain ⟨h1, h2⟩ := C14_roundtrip X s es h hd l k
    exact ⟨⟨_, h1⟩, ⟨_, h2⟩⟩
  | true =>
    have hp : VM.lift X (as_mut_ptr X.env) s = (.ok .null, s) :=
      lift_read X _ s _ (as_mut_ptr_run_default X.env _ (by simp [hsOf, hd]))
    constructor <;> refine ⟨none, ?_⟩ <;> unfold Vec.raw_roundtrip <;> simp only [VM.bind_run, hp, VM.pure_run]

/-! ### Comparisons only call back into user code: the vectors are not touched -/

/-- a computation that always returns and leaves the focused vector alone -/
def VPure {α} (x : VM α) : Prop := ∀ s, ∃ a s', x s = (.ok a, s') ∧ s'.v = s.v

theorem VPure.pure' {α} (a : α) : VPure (pure a : VM α) := fun s => ⟨a, s, rfl, rfl⟩

theorem VPure.bind' {α β} {x : VM α} {f : α → VM β} (hx : VPure x) (hf : ∀ a, VPure (f a)) : VPure (x >>= f) := by
  intro s
  obtain ⟨a, s1, h1, hv1⟩ := hx s
  obtain ⟨b, s2, h2, hv2⟩ := hf a s1
  exact ⟨b, s2, by simp only [VM.bind_run, h1, h2], hv2.trans hv1⟩

theorem vpure_callback (X : Ctx) (hq : ∀ k, X.o.panicAt k = false) : VPure (VM.callback X) := by
  intro s
  exact ⟨(), { s with sys := { s.sys with cbIdx := s.sys.cbIdx + 1 } }, by simp [VM.callback, hq], rfl⟩

theorem vpure_eqElem (X : Ctx) (hq : ∀ k, X.o.panicAt k = false) (a b : Elem) : VPure (Vec.eqElem X a b) := by
  intro s
  unfold Vec.eqElem
  simp only [VM.callback, hq, Bool.false_eq_true, if_false]
  exact ⟨_, _, rfl, rfl⟩

theorem vpure_eqSlices (X : Ctx) (hq : ∀ k, X.o.panicAt k = false) : ∀ (a b : List Elem), VPure (Vec.eqSlices X a b) := by
  intro a
  induction a with
  | nil => intro b; cases b <;> (unfold Vec.eqSlices; exact VPure.pure' _)
  | cons x xs ih =>
    intro b
    cases b with
    | nil => unfold Vec.eqSlices; exact VPure.pure' _
    | cons y ys =>
      unfold Vec.eqSlices
      refine VPure.bind' (vpure_eqElem X hq x y) (fun r => ?_)
      cases r
      · exact VPure.pure' _
      · exact ih ys

theorem vpure_cmpSlices (X : Ctx) (hq : ∀ k, X.o.panicAt k = false) : ∀ (a b : List Elem), VPure (Vec.cmpSlices X a b) := by
  intro a
  induction a with
  | nil => intro b; cases b <;> (unfold Vec.cmpSlices; exact VPure.pure' _)
  | cons x xs ih =>
    intro b
    cases b with
    | nil => unfold Vec.cmpSlices; exact VPure.pure' _
    | cons y ys =>
      unfold Vec.cmpSlices
      refine VPure.bind' (vpure_callback X hq) (fun _ => ?_)
      split
      · exact VPure.pure' _
      · split
        · exact VPure.pure' _
        · exact ih ys

theorem vpure_forN_go (f : Nat → VM Unit) (hf : ∀ i, VPure (f i)) : ∀ (k i : Nat), VPure (VM.forN.go f k i) := by
  intro k
  induction k with
  | zero => intro i; unfold VM.forN.go; exact VPure.pure' _
  | succ k ih => intro i; unfold VM.forN.go; exact VPure.bind' (hf i) (fun _ => ih (i + 1))

theorem vpure_forN (f : Nat → VM Unit) (hf : ∀ i, VPure (f i)) (n : Nat) : VPure (VM.forN n f) := by
  unfold VM.forN; exact vpure_forN_go f hf n 0

theorem vpure_compareSlices (X : Ctx) (hq : ∀ k, X.o.panicAt k = false) (a b : List Elem) : VPure (Vec.compareSlices X a b) := by
  have hrest : ∀ eq : Bool, VPure (do
      let pc ← Vec.cmpSlices X a b
      let c ← Vec.cmpSlices X a b
      VM.forN a.length (fun _ => VM.callback X)
      VM.forN b.length (fun _ => VM.callback X)
      pure (eq, pc, c, a.map (·.val) == b.map (·.val)) : VM (Bool × Ordering × Ordering × Bool)) := fun eq =>
    VPure.bind' (vpure_cmpSlices X hq a b) (fun _ => VPure.bind' (vpure_cmpSlices X hq a b) (fun _ =>
      VPure.bind' (vpure_forN _ (fun _ => vpure_callback X hq) _) (fun _ =>
        VPure.bind' (vpure_forN _ (fun _ => vpure_callback X hq) _) (fun _ => VPure.pure' _))))
  unfold Vec.compareSlices
  dsimp only
  split
  · exact VPure.bind' (vpure_eqSlices X hq a b) (fun eq => hrest eq)
  · exact hrest false

/-! ### A measure for `count`: what an iterator can still yield -/

/-- the upper bound `size_hint()` reports for an iterator register -/
def regMeasure : Obj → Nat
  | .drain _ _ d => d.stop - d.pos
  | .splice _ _ sp => sp.d.stop - sp.d.pos
  | .drainFilter _ _ f => f.oldLen - f.pos
  | .intoIter v _ => if v.isDefault then 0 else v.len
  | _ => 0

def isIterObj : Obj → Bool
  | .drain .. | .splice .. | .drainFilter .. | .intoIter .. => true
  | _ => false

theorem into_reg_step_m (X : Ctx) (v : VSt) (it : IntoIterSt) (sys : Sys)
    (h : RegOK X (.intoIter v it)) :
    ∃ o it' v', IntoIter.next X it { sys := sys, v := v } = (.ok (o, it'), { sys := sys, v := v' }) ∧
      RegOK X (.intoIter v' it') ∧ (o.isSome = true → regMeasure (.intoIter v' it') < regMeasure (.intoIter v it)) := by
  rcases h with ⟨es, hinv⟩ | ⟨hd, habs⟩
  · by_cases hlt : 0 < v.len
    · have hbnd := hinv.bound
      have hinv' : IntoInv X ({ v with len := v.len - 1 } : VSt) es it := hinv.shrink _ it rfl (by omega)
      refine ⟨_, _, _, by simpa using into_next_some (s := { sys := sys, v := v }) hinv hlt, .inl ⟨es, ?_⟩, fun _ => ?_⟩
      · exact { hd := hinv'.hd, full := hinv'.full, ptr := hinv'.ptr, bound := by have := hinv.bound; simp; omega }
      · simp [regMeasure, hinv.hd]; omega
    · obtain ⟨h1, _⟩ := into_next_none (s := { sys := sys, v := v }) hinv (by show v.len = 0; omega)
      exact ⟨none, it, v, by simpa using h1, .inl ⟨es, hinv⟩, fun h => by simp at h⟩
  · have e1 : VM.lift X GM.isDefault { sys := sys, v := v } = (.ok true, { sys := sys, v := v }) := by
      rw [lift_isDefault]; exact congrArg (fun b => (Except.ok b, _)) hd
    refine ⟨none, it, v, ?_, .inr ⟨hd, habs⟩, fun h => by simp at h⟩
    unfold IntoIter.next; simp only [VM.bind_run, e1, if_true, VM.pure_run]

theorem df_reg_step_m (X : Ctx) (hq : ∀ k, X.o.panicAt k = false) (src : String) (v : VSt) (f : DFSt) (sys : Sys)
    (h : RegOK X (.drainFilter src v f)) :
    ∃ st f' s', DrainFilter.next X (f.oldLen - f.pos + 1) f { sys := sys, v := v } = (.ok (st, f'), s') ∧
      st ≠ .predPanicked ∧ RegOK X (.drainFilter src s'.v f') ∧
      (∀ e, st = .item e → f'.oldLen - f'.pos < f.oldLen - f.pos) := by
  rcases h with ⟨kept, junk, rest, hinv⟩ | ⟨hd, habs, ho, hp, hn, hpk⟩
  · obtain ⟨s', junk', f', hr, hinv', _, _, hol, _⟩ := df_next_spec X hq rest kept junk f { sys := sys, v := v }
      (f.oldLen - f.pos + 1) hinv (by have := hinv.ps; have := hinv.ol; omega)
    refine ⟨_, f', s', hr, ?_, .inl ⟨_, _, _, hinv'⟩, ?_⟩
    · cases (dfNext f.pred f.calls rest).2.1 <;> simp [stepOf]
    · intro e he
      have hsome : (dfNext f.pred f.calls rest).2.1.isSome = true := by
        cases hx : (dfNext f.pred f.calls rest).2.1 with
        | none => rw [hx] at he; simp [stepOf] at he
        | some p => rfl
      have hlt := (dfNext_rest_length f.pred f.calls rest).2 hsome
      have h1 := hinv'.ps; have h2 := hinv'.ol; have h3 := hinv.ps; have h4 := hinv.ol
      simp only [List.length_append] at h1 h2
      omega
  · refine ⟨.done, f, { sys := sys, v := v }, ?_, by simp, .inr ⟨hd, habs, ho, hp, hn, hpk⟩, fun e he => by simp at he⟩
    rw [show f.oldLen - f.pos + 1 = 0 + 1 by omega]
    exact df_default_next X f _ ho hp 0

theorem splice_reg_step_m (X : Ctx) (src : String) (v : VSt) (sp : SpliceSt) (sys : Sys)
    (h : RegOK X (.splice src v sp)) :
    ∃ o d', Drain.next sp.d { sys := sys, v := v } = (.ok (o, d'), { sys := sys, v := v }) ∧
      RegOK X (.splice src v { sp with d := d' }) ∧ (o.isSome = true → d'.stop - d'.pos < sp.d.stop - sp.d.pos) := by
  rcases h with ⟨es, st, en, hinv⟩ | ⟨hd, habs, hge⟩
  · obtain ⟨o, d', hr, hok, hm⟩ := drain_reg_step_m X src v sp.d sys false (.inl ⟨es, st, en, hinv⟩)
    simp only [Bool.false_eq_true, if_false] at hr
    refine ⟨o, d', hr, ?_, hm⟩
    rcases hok with ⟨es', st', en', hinv'⟩ | ⟨hd', _, _, _⟩
    · exact .inl ⟨es', st', en', hinv'⟩
    · rw [hinv.hd] at hd'; cases hd'
  · obtain ⟨h1, _⟩ := drain_next_none sp.d { sys := sys, v := v } hge
    exact ⟨none, sp.d, h1, .inr ⟨hd, habs, hge⟩, fun h => by simp at h⟩

theorem world_get_sys (w : World) (sys : Sys) (r : String) : ({ w with sys := sys } : World).get r = w.get r := rfl

/-- one `next` on an iterator register: all registers stay well formed, the register still holds an iterator, and
    either the step reported the end or it handed out an element and the iterator can yield strictly less -/
theorem next_measure (X : Ctx) (hq : ∀ k, X.o.panicAt k = false) (w : World) (it : String) (o : Obj) (hw : WFW X w)
    (hg : w.get it = some o) (hi : isIterObj o = true) :
    ∃ o', (step X w (.next it)).1.get it = some o' ∧ isIterObj o' = true ∧ WFW X (step X w (.next it)).1 ∧
      ((step X w (.next it)).2 = .none ∨ (∃ e, (step X w (.next it)).2 = .some e ∧ regMeasure o' < regMeasure o)) := by
  have hok := hw it o hg
  unfold step
  dsimp only
  cases o with
  | drain src v d =>
    simp only [hg]
    obtain ⟨r, d', hr, hok', hm⟩ := drain_reg_step_m X src v d w.sys false hok
    simp only [Bool.false_eq_true, if_false] at hr
    simp only [runOn, hr]
    refine ⟨.drain src v d', by rw [world_get_set]; simp, rfl, (hw.sys _).set_ok it _ hok', ?_⟩
    cases r with
    | none => exact .inl rfl
    | some e => exact .inr ⟨e, rfl, hm rfl⟩
  | splice src v sp =>
    simp only [hg]
    obtain ⟨r, d', hr, hok', hm⟩ := splice_reg_step_m X src v sp w.sys hok
    simp only [runOn, hr]
    refine ⟨.splice src v { sp with d := d' }, by rw [world_get_set]; simp, rfl, (hw.sys _).set_ok it _ hok', ?_⟩
    cases r with
    | none => exact .inl rfl
    | some e => exact .inr ⟨e, rfl, hm rfl⟩
  | drainFilter src v f =>
    simp only [hg]
    obtain ⟨st, f', s', hr, hnp, hok', hm⟩ := df_reg_step_m X hq src v f w.sys hok
    simp only [runOn, hr]
    cases st with
    | item e => exact ⟨.drainFilter src s'.v f', by rw [world_get_set]; simp, rfl, (hw.sys _).set_ok it _ hok', .inr ⟨e, rfl, hm e rfl⟩⟩
    | done => exact ⟨.drainFilter src s'.v f', by rw [world_get_set]; simp, rfl, (hw.sys _).set_ok it _ hok', .inl rfl⟩
    | predPanicked => exact absurd rfl hnp
  | intoIter v i =>
    simp only [hg]
    obtain ⟨r, i', v', hr, hok', hm⟩ := into_reg_step_m X v i w.sys hok
    simp only [runOn, hr]
    refine ⟨.intoIter v' i', by rw [world_get_set]; simp, rfl, (hw.sys _).set_ok it _ hok', ?_⟩
    cases r with
    | none => exact .inl rfl
    | some e => exact .inr ⟨e, rfl, hm rfl⟩
  | vec v => simp [isIterObj] at hi
  | lent => simp [isIterObj] at hi
  | gone => simp [isIterObj] at hi

/-! ### `from_str` and `extend_ref`: a temporary vector of a fixed element type, built, checked and dropped inside -/

theorem fromStrProg_safe (Xb : Ctx) (hq : ∀ k, Xb.o.panicAt k = false) (hz : 0 < Xb.c.elemSize) (n : Nat) (s : St) (hv : s.v = {}) :
    (∃ l s', fromStrProg Xb n s = (.ok l, s')) ∨ (∃ p s', fromStrProg Xb n s = (.error p, s') ∧ Panic.benign p = true) := by
  unfold fromStrProg
  simp only [VM.bind_run]
  rcases with_capacity_room Xb hz s hv n with ⟨s1, hr, habs1, hroom, hzero⟩ | ⟨p, s1, hr, hb, _⟩
  · rw [hr]
    simp only
    -- the fill
    have hfill : ∃ s2 es, (if n > 0 then fromStrFill Xb n else pure ()) s1 = (.ok (), s2) ∧ Abs Xb s2.v es := by
      by_cases hn : n > 0
      · obtain ⟨hd1, hcap1⟩ := hroom hn
        rw [if_pos hn]
        obtain ⟨b, hb, hl, _⟩ := habs1.alloc hd1
        have h4 : VM.lift Xb (as_mut_ptr Xb.env) s1 = (.ok (.at (dataOff s1.v.align)), s1) :=
          lift_read Xb _ s1 _ (as_mut_ptr_run Xb.env _ hd1 b.lay s1.v.cap hl)
        obtain ⟨v2, hw, habs2, _, _, hd2, _⟩ := write_tail_abs Xb s1 [] (List.replicate n (⟨0, 97⟩ : Elem)) habs1 hd1
          (by simp [hcap1])
        simp only [List.length_nil, List.length_replicate] at hw habs2
        have h5 := lift_set_len Xb n { s1 with v := v2 } hd2
        refine ⟨{ s1 with v := { v2 with len := n } }, List.replicate n (⟨0, 97⟩ : Elem), ?_, by simpa using habs2⟩
        unfold fromStrFill
        simp only [VM.bind_run, h4, hw, h5]
      · rw [if_neg hn]; exact ⟨s1, [], rfl, habs1⟩
    obtain ⟨s2, es, hf, habs2⟩ := hfill
    rw [hf]
    simp only
    have hL : (hsOf s2.v s2.sys.allocIdx).L = es.length := habs2.len_eq
    have h6 : VM.lift Xb (len Xb.env) s2 = (.ok es.length, s2) := lift_read Xb _ s2 _ (by rw [len_run, hL])
    obtain ⟨s3, hd3⟩ := dropVec_ok Xb hq s2 es habs2
    rw [h6]
    simp only [hd3, VM.pure_run]
    exact .inl ⟨_, _, rfl⟩
  · rw [hr]; exact .inr ⟨p, s1, rfl, hb⟩

theorem extendRefProg_safe (Xb : Ctx) (hq : ∀ k, Xb.o.panicAt k = false) (hz : 0 < Xb.c.elemSize) (pre : Nat) (vals : List Int)
    (s : St) (hv : s.v = {}) :
    (∃ l s', extendRefProg Xb pre vals s = (.ok l, s')) ∨ (∃ p s', extendRefProg Xb pre vals s = (.error p, s') ∧ Panic.benign p = true) := by
  unfold extendRefProg
  simp only [VM.bind_run]
  have hround : ∀ (n : Nat) (g : Nat → Elem), RoundSpec Xb n (fun _ _ => True) (fun i => Vec.push Xb (g i)) := by
    intro n g i s1 acc _ habs
    have hp := push_spec Xb s1 acc (g i) habs
    show (∃ e s', Vec.push Xb (g i) s1 = (.ok (), s') ∧ Abs Xb s'.v (acc ++ [e]) ∧ True) ∨
      (∃ p s', Vec.push Xb (g i) s1 = (.error p, s') ∧ Panic.benign p = true ∧ s'.v = s1.v)
    generalize Vec.push Xb (g i) s1 = out at hp
    cases hp with
    | pushed s' ha _ => exact .inl ⟨_, s', rfl, ha, trivial⟩
    | stopped p s' hv' hb => exact .inr ⟨p, s', rfl, hb, hv'⟩
  rcases with_capacity_room Xb hz s hv pre with ⟨s1, hr, habs1, _, _⟩ | ⟨p, s1, hr, hb, _⟩
  · rw [hr]
    simp only
    rcases forN_spec Xb pre _ _ (hround pre (fun i => ⟨0, i⟩)) s1 [] habs1 with ⟨l1, s2, hr2, habs2, _, _⟩ | ⟨p, s2, acc, hr2, hb, _⟩
    · rw [hr2]
      simp only
      rcases forN_spec Xb vals.length _ _ (hround vals.length (fun i => ⟨0, vals.getD i 0⟩)) s2 _ habs2 with
        ⟨l2, s3, hr3, habs3, _, _⟩ | ⟨p, s3, acc, hr3, hb, _⟩
      · rw [hr3]
        simp only
        have hL : (hsOf s3.v s3.sys.allocIdx).L = ([] ++ l1 ++ l2).length := habs3.len_eq
        have h6 : VM.lift Xb (len Xb.env) s3 = (.ok ([] ++ l1 ++ l2).length, s3) := lift_read Xb _ s3 _ (by rw [len_run, hL])
        obtain ⟨s4, hd4⟩ := dropVec_ok Xb hq s3 _ habs3
        rw [h6]
        simp only [hd4, VM.pure_run]
        exact .inl ⟨_, _, rfl⟩
      · rw [hr3]; exact .inr ⟨p, s3, rfl, hb⟩
    · rw [hr2]; exact .inr ⟨p, s2, rfl, hb⟩
  · rw [hr]; exact .inr ⟨p, s1, rfl, hb⟩

/-! ### The register machine -/

/-- the operations this theorem covers -/
def opCovered : Op → Bool
  | .new _ | .default _ | .macro_empty _ | .with_capacity .. | .from_slice .. | .collect .. | .macro_list ..
  | .macro_repeat .. | .push .. | .pop _ | .insert .. | .remove .. | .swap_remove .. | .truncate .. | .clear _
  | .resize .. | .resize_with .. | .extend .. | .extend_from_slice .. | .extend_from_within .. | .dedup _
  | .dedup_by .. | .dedup_by_key .. | .retain .. | .remove_item .. | .reserve .. | .reserve_exact ..
  | .shrink_to .. | .shrink_to_fit _ | .forget _ | .drop _ | .split_off .. | .drain_vec .. | .clone .. | .clone_from ..
  | .append .. | .drain .. | .splice .. | .drain_filter .. | .into_iter .. | .next _ | .next_back _ | .size_hint _ | .len _ | .as_slice _
  | .views _ | .iter_views _ | .serialize _ | .leak _ | .clone_iter .. | .deserialize .. | .deserialize_in_place ..
  | .raw_parts _ | .raw_part _ | .fill_spare .. | .spare _ | .split_spare _ | .with_alignment .. | .compare .. | .from_str _ | .extend_ref .. => true
  | _ => false

/-- the same with the sanity of the output established together with the run -/
theorem onVecReg_safe' (X : Ctx) (w : World) (r : String) (x : VM Out) (hw : WFW X w)
    (hx : ∀ s es, Abs X s.v es →
      (∃ a s' es', x s = (.ok a, s') ∧ Abs X s'.v es' ∧ outSane a) ∨
      (∃ p s' es', x s = (.error p, s') ∧ Panic.benign p = true ∧ Abs X s'.v es')) :
    WFW X (w.onVecReg r x).1 ∧ outSane (w.onVecReg r x).2 := by
  unfold World.onVecReg
  cases hg : w.get r with
  | none => exact ⟨hw, trivial⟩
  | some o =>
    cases o with
    | vec v =>
      obtain ⟨es, habs⟩ := hw r _ hg
      simp only [runOn]
      rcases hx { sys := w.sys, v := v } es habs with ⟨a, s', es', hr, ha, hs⟩ | ⟨p, s', es', hr, hb, ha⟩
      · rw [hr]
        exact ⟨(hw.sys s'.sys).set_vec r s'.v es' ha, hs⟩
      · rw [hr]
        exact ⟨(hw.sys s'.sys).set_vec r s'.v es' ha, hb⟩
    | _ => exact ⟨hw, trivial⟩

theorem outSane_optOut (o : Option Elem) : outSane (optOut o) := by cases o <;> trivial

/-- `do let a ← y; pure (f a)` on a register -/
theorem onVecReg_map_safe (X : Ctx) (w : World) (r : String) {α} (y : VM α) (f : α → Out) (hy : VSafe X y)
    (hf : ∀ a, outSane (f a)) (hw : WFW X w) :
    WFW X (w.onVecReg r (do let a ← y; pure (f a))).1 ∧ outSane (w.onVecReg r (do let a ← y; pure (f a))).2 := by
  refine onVecReg_safe X w r _ (hy.map f) hw ?_
  intro s o s' h
  simp only [VM.bind_run] at h
  cases hys : y s with
  | mk res s1 =>
    rw [hys] at h
    cases res with
    | ok a => simp only [VM.pure_run, Prod.mk.injEq, Except.ok.injEq] at h; rw [← h.1]; exact hf a
    | error p => simp at h

/-- `do let e ← mkElem val; let a ← y e; pure (f a)` on a register -/
theorem onVecReg_mk_safe (X : Ctx) (w : World) (r : String) {α} (val : Int) (y : Elem → VM α) (f : α → Out)
    (hy : ∀ e, VSafe X (y e)) (hf : ∀ a, outSane (f a)) (hw : WFW X w) :
    WFW X (w.onVecReg r (do let e ← VM.mkElem val; let a ← y e; pure (f a))).1 ∧
    outSane (w.onVecReg r (do let e ← VM.mkElem val; let a ← y e; pure (f a))).2 := by
  refine onVecReg_safe X w r _ (VSafe.mk val fun e => (hy e).map f) hw ?_
  intro s o s' h
  simp only [VM.bind_run, mkElem_run] at h
  generalize y ⟨s.sys.nextId, val⟩ { s with sys := { s.sys with nextId := s.sys.nextId + 1 } } = out at h
  obtain ⟨res, s1⟩ := out
  cases res with
  | ok a => simp only [VM.pure_run, Prod.mk.injEq, Except.ok.injEq] at h; rw [← h.1]; exact hf a
  | error p => simp at h

/-- **one step of the register machine** (covered operations, any register names, any arguments): every vector
    register is well formed afterwards and the step did not end in an illegal access, a failed assertion or a hang -/
theorem C03_world_step_partial (X : Ctx) (hq : ∀ k, X.o.panicAt k = false) (hz : 0 < X.c.elemSize) (w : World) (op : Op)
    (hc : opCovered op = true) (hw : WFW X w) :
    WFW X (step X w op).1 ∧ outSane (step X w op).2 := by
  cases op <;> simp only [opCovered] at hc <;> try (exact absurd hc (by decide))
  all_goals unfold step
  case new r => exact mkReg_safe X w r _ (csafe_new X hq hz) hw
  case default r => exact mkReg_safe X w r _ (csafe_new X hq hz) hw
  case macro_empty r => exact mkReg_safe X w r _ (csafe_new X hq hz) hw
  case with_capacity r n => exact mkReg_safe X w r _ (csafe_with_capacity X hq hz n) hw
  case from_slice r vals => exact mkReg_safe X w r _ (csafe_from_slice X hq hz vals) hw
  case collect r it => exact mkReg_safe X w r _ (csafe_collect X hq hz it) hw
  case macro_list r vals => exact mkReg_safe X w r _ (csafe_macro_list X hq hz vals) hw
  case macro_repeat r val n => exact mkReg_safe X w r _ (csafe_macro_repeat X hq hz val n) hw
  case push r val => exact onVecReg_mk_safe X w r val _ (fun _ => Out.ok) (fun e => vsafe_push X hq e) (fun _ => trivial) hw
  case pop r => exact onVecReg_map_safe X w r _ optOut (vsafe_pop X hq) outSane_optOut hw
  case insert r i val => exact onVecReg_mk_safe X w r val _ (fun _ => Out.ok) (fun e => vsafe_insert X hq i e) (fun _ => trivial) hw
  case remove r i => exact onVecReg_map_safe X w r _ Out.some (vsafe_remove X hq i) (fun _ => trivial) hw
  case swap_remove r i => exact onVecReg_map_safe X w r _ Out.some (vsafe_swap_remove X hq i) (fun _ => trivial) hw
  case truncate r n => exact onVecReg_map_safe X w r _ (fun _ => Out.ok) (vsafe_truncate X hq n) (fun _ => trivial) hw
  case clear r => exact onVecReg_map_safe X w r _ (fun _ => Out.ok) (vsafe_clear X hq) (fun _ => trivial) hw
  case resize r n val => exact onVecReg_mk_safe X w r val _ (fun _ => Out.ok) (fun e => vsafe_resize X hq n e) (fun _ => trivial) hw
  case resize_with r n g => exact onVecReg_map_safe X w r _ (fun _ => Out.ok) (vsafe_resize_with X hq n _) (fun _ => trivial) hw
  case extend r it => exact onVecReg_map_safe X w r _ (fun _ => Out.ok) (vsafe_extend X hq it) (fun _ => trivial) hw
  case extend_from_within r b1 b2 => exact onVecReg_map_safe X w r _ (fun _ => Out.ok) (vsafe_extend_from_within X hq b1 b2) (fun _ => trivial) hw
  case dedup r => exact onVecReg_map_safe X w r _ (fun _ => Out.ok) (vsafe_dedup X hq) (fun _ => trivial) hw
  case dedup_by r p => exact onVecReg_map_safe X w r _ (fun _ => Out.ok) (vsafe_dedup_by X hq _) (fun _ => trivial) hw
  case dedup_by_key r k => exact onVecReg_map_safe X w r _ (fun _ => Out.ok) (vsafe_dedup_by_key X hq _) (fun _ => trivial) hw
  case retain r p => exact onVecReg_map_safe X w r _ (fun _ => Out.ok) (vsafe_retain X hq _) (fun _ => trivial) hw
  case remove_item r val => exact onVecReg_mk_safe X w r val _ optOut (fun e => vsafe_remove_item X hq e) outSane_optOut hw
  case reserve r n => exact onVecReg_map_safe X w r _ (fun _ => Out.ok) (vsafe_capMem X hq _ (fun s es h => reserve_mem X s es n h)) (fun _ => trivial) hw
  case reserve_exact r n => exact onVecReg_map_safe X w r _ (fun _ => Out.ok) (vsafe_capMem X hq _ (fun s es h => reserve_exact_mem X s es n h)) (fun _ => trivial) hw
  case shrink_to r n => exact onVecReg_map_safe X w r _ (fun _ => Out.ok) (vsafe_capMem X hq _ (fun s es h => shrink_to_mem X s es n h)) (fun _ => trivial) hw
  case shrink_to_fit r => exact onVecReg_map_safe X w r _ (fun _ => Out.ok) (vsafe_capMem X hq _ (fun s es h => shrink_to_fit_mem X s es h)) (fun _ => trivial) hw
  case extend_from_slice r vals =>
    refine onVecReg_safe X w r _ (VSafe.mkMany vals fun es => (vsafe_extend_from_slice X hq es).map (fun _ => Out.ok)) hw ?_
    intro s o s' h
    obtain ⟨es, s1, hr, _, _⟩ := mapM_mkElem_run vals s
    simp only [VM.bind_run, hr] at h
    generalize Vec.extend_from_slice X es s1 = out at h
    obtain ⟨res, s2⟩ := out
    cases res with
    | ok a => simp only [VM.pure_run, Prod.mk.injEq, Except.ok.injEq] at h; rw [← h.1]; trivial
    | error p => simp at h
  case forget r =>
    dsimp only
    split
    · exact ⟨hw.set_gone r, trivial⟩
    · rename_i src v d heq
      rcases hw r _ heq with ⟨es, st, en, hinv⟩ | ⟨_, habs, _, _⟩
      · exact ⟨(hw.set_gone r).set_vec src v _ hinv.prefix_abs, trivial⟩
      · exact ⟨(hw.set_gone r).set_vec src v _ habs, trivial⟩
    · rename_i src v sp heq
      rcases hw r _ heq with ⟨es, st, en, hinv⟩ | ⟨_, habs, _⟩
      · exact ⟨(hw.set_gone r).set_vec src v _ hinv.prefix_abs, trivial⟩
      · exact ⟨(hw.set_gone r).set_vec src v _ habs, trivial⟩
    · rename_i src v f heq
      rcases hw r _ heq with ⟨kept, junk, rest, hinv⟩ | ⟨_, habs, _⟩
      · have h0 := hinv.full.shorten 0 (by omega) (by simpa using hinv.hd)
        have hv : ({ ({ v with len := f.oldLen } : VSt) with len := 0 } : VSt) = v := by
          have hl := hinv.len0
          cases hvv : v; simp [hvv] at *; omega
        rw [hv] at h0
        exact ⟨(hw.set_gone r).set_vec src v _ h0, trivial⟩
      · exact ⟨(hw.set_gone r).set_vec src v _ habs, trivial⟩
    · exact ⟨hw.set_gone r, trivial⟩
    · exact ⟨hw, trivial⟩
  case drop r =>
    dsimp only
    split
    · rename_i v heq
      obtain ⟨es, habs⟩ := hw r _ heq
      obtain ⟨s', hd⟩ := dropVec_ok X hq { sys := w.sys, v := v } es habs
      simp only [runOn, hd]
      exact ⟨(hw.sys s'.sys).set_gone r, trivial⟩
    · rename_i src v d heq
      simp only [runOn]
      rcases hw r _ heq with ⟨es, st, en, hinv⟩ | ⟨_, habs, hge, ht⟩
      · obtain ⟨v', hd, ha, _⟩ := drain_drop_spec X hq d { sys := w.sys, v := v } es st en hinv
        rw [hd]
        exact ⟨((hw.sys _).set_gone r).set_vec src v' _ ha, trivial⟩
      · rw [drain_drop_exhausted_notail X d { sys := w.sys, v := v } hge ht]
        exact ⟨((hw.sys _).set_gone r).set_vec src v _ habs, trivial⟩
    · rename_i src v sp heq
      simp only [runOn]
      have hres : (∃ s2 cur, Splice.drop X sp { sys := w.sys, v := v } = (.ok (), s2) ∧ Abs X s2.v cur) ∨
          (∃ p s2 cur, Splice.drop X sp { sys := w.sys, v := v } = (.error p, s2) ∧ Panic.benign p = true ∧ Abs X s2.v cur) := by
        rcases hw r _ heq with ⟨es, st, en, hinv⟩ | ⟨hd, habs, hge⟩
        · rcases splice_drop_inv X hq sp { sys := w.sys, v := v } es st en hinv with ⟨s2, new, hr, ha⟩ | hstop
          · exact .inl ⟨s2, _, hr, ha⟩
          · exact .inr hstop
        · rcases splice_drop_default X hq sp { sys := w.sys, v := v } habs hd hge with ⟨s2, new, hr, ha⟩ | hstop
          · exact .inl ⟨s2, _, hr, ha⟩
          · exact .inr hstop
      rcases hres with ⟨s2, cur, hr, ha⟩ | ⟨p, s2, cur, hr, hb, ha⟩
      · rw [hr]; exact ⟨((hw.sys _).set_gone r).set_vec src s2.v cur ha, trivial⟩
      · rw [hr]; exact ⟨((hw.sys _).set_gone r).set_vec src s2.v cur ha, hb⟩
    · rename_i src v f heq
      simp only [runOn]
      rcases hw r _ heq with ⟨kept, junk, rest, hinv⟩ | ⟨hd, habs, ho, hp, hn, hpk⟩
      · obtain ⟨res, s2, cur, gone, hr, hres, ha, _⟩ := C04_drain_filter_drop_partial X f { sys := w.sys, v := v } kept junk rest hinv
        rw [hr]
        rcases hres with rfl | rfl
        · exact ⟨((hw.sys _).set_gone r).set_vec src s2.v _ ha, trivial⟩
        · exact ⟨((hw.sys _).set_gone r).set_vec src s2.v _ ha, rfl⟩
      · rw [df_default_drop X f { sys := w.sys, v := v } ho hp hn hpk]
        exact ⟨((hw.sys _).set_gone r).set_vec src v _ habs, trivial⟩
    · rename_i v it heq
      simp only [runOn]
      rcases hw r _ heq with ⟨es, hinv⟩ | ⟨hd, habs⟩
      · obtain ⟨b, _, _, hd⟩ := into_drop_spec X hq it { sys := w.sys, v := v } es hinv
        rw [hd]
        exact ⟨(hw.sys _).set_gone r, trivial⟩
      · rw [into_default_drop X { sys := w.sys, v := v } it habs hd hq]
        exact ⟨(hw.sys _).set_gone r, trivial⟩
    · exact ⟨hw, trivial⟩
  case drain r b1 b2 it =>
    dsimp only
    cases hf : w.fresh it with
    | false => simp only [Bool.not_false, if_true]; exact ⟨hw, trivial⟩
    | true =>
      simp only [Bool.not_true, Bool.false_eq_true, if_false]
      split
      · rename_i v heq
        obtain ⟨es, habs⟩ := hw r _ heq
        simp only [runOn]
        cases hres : resolve b1 b2 es.length with
        | none =>
          rw [drain_create_err X { sys := w.sys, v := v } es b1 b2 habs hres]
          exact ⟨(hw.sys _).set_vec r v es habs, rfl⟩
        | some se =>
          obtain ⟨st, en⟩ := se
          cases hd : v.isDefault with
          | false =>
            obtain ⟨d, hc, hinv⟩ := drain_create_inv X { sys := w.sys, v := v } es b1 b2 st en habs hd hres
            rw [hc]
            exact ⟨((hw.sys _).set_ok r .lent trivial).set_ok it _ (.inl ⟨es, st, en, hinv⟩), trivial⟩
          | true =>
            have hnil := (habs.sentinel hd).2
            subst hnil
            rw [drain_create_default X { sys := w.sys, v := v } b1 b2 st en habs hd hres]
            exact ⟨((hw.sys _).set_ok r .lent trivial).set_ok it _ (.inr ⟨hd, habs, by simp, rfl⟩), trivial⟩
      · exact ⟨hw, trivial⟩
  case splice r b1 b2 fill it =>
    dsimp only
    cases hf : w.fresh it with
    | false => simp only [Bool.not_false, if_true]; exact ⟨hw, trivial⟩
    | true =>
      simp only [Bool.not_true, Bool.false_eq_true, if_false]
      split
      · rename_i v heq
        obtain ⟨es, habs⟩ := hw r _ heq
        simp only [runOn]
        cases hres : resolve b1 b2 es.length with
        | none =>
          rw [splice_create_err X { sys := w.sys, v := v } es b1 b2 fill habs hres]
          exact ⟨(hw.sys _).set_vec r v es habs, rfl⟩
        | some se =>
          obtain ⟨st, en⟩ := se
          cases hd : v.isDefault with
          | false =>
            obtain ⟨d, hc, hinv⟩ := drain_create_inv X { sys := w.sys, v := v } es b1 b2 st en habs hd hres
            rw [splice_create_alloc X { sys := w.sys, v := v } es b1 b2 st en fill habs hd hres]
            refine ⟨((hw.sys _).set_ok r .lent trivial).set_ok it _ (.inl ⟨es, st, en, ?_⟩), trivial⟩
            obtain ⟨_, _, hse, hel'⟩ := (C11_resolve_iff b1 b2 es.length st en).mp hres
            exact { hd := hd, len := rfl, full := hinv.full, ptr := rfl, lo := Nat.le_refl _, mid := hse,
                    hi := Nat.le_refl _, tp := rfl, tl := rfl, en_le := hel' }
          | true =>
            have hnil := (habs.sentinel hd).2
            subst hnil
            obtain ⟨sp, hc, _, _⟩ := C10_splice_default X hq { sys := w.sys, v := v } b1 b2 st en fill habs hd hres []
            have hL : (hsOf v w.sys.allocIdx).L = 0 := by have := habs.len_eq (k := w.sys.allocIdx); simpa using this
            have hptr := as_mut_ptr_run_default X.env (hsOf v w.sys.allocIdx) (by simp [hsOf, hd])
            have hres0 : resolve b1 b2 0 = some (st, en) := hres
            have hrun : splice_pre X.env b1 b2 (hsOf v w.sys.allocIdx) =
                (.ok (.cont ⟨0, st, en, .null⟩), hsOf v w.sys.allocIdx) := by
              rw [C11_splice]
              unfold spliceSpec
              simp only [len_run, GM.bind_run, hL, hres0, hptr, DPtr.isNull, Bool.not_true, GM.ite_run, GM.pure_run]
              rfl
            have h1 := lift_read X (splice_pre X.env b1 b2) { sys := w.sys, v := v } _ hrun
            have hc' : Splice.create X b1 b2 fill { sys := w.sys, v := v } =
                (.ok { d := { ptr := .null, pos := 0, stop := 0, tailPos := 0, tail := 0 }, fill := fill }, { sys := w.sys, v := v }) := by
              unfold Splice.create
              simp only [VM.bind_run, h1, DPtr.isNull, VM.pure_run]
              rfl
            rw [hc']
            exact ⟨((hw.sys _).set_ok r .lent trivial).set_ok it _ (.inr ⟨hd, habs, by simp⟩), trivial⟩
      · exact ⟨hw, trivial⟩
  case drain_filter r p it =>
    dsimp only
    cases hf : w.fresh it with
    | false => simp only [Bool.not_false, if_true]; exact ⟨hw, trivial⟩
    | true =>
      simp only [Bool.not_true, Bool.false_eq_true, if_false]
      split
      · rename_i v heq
        obtain ⟨es, habs⟩ := hw r _ heq
        simp only [runOn]
        cases hd : v.isDefault with
        | false =>
          obtain ⟨v0, hc, hinv, _⟩ := df_create_alloc X p.pred1 { sys := w.sys, v := v } es habs hd
          rw [hc]
          exact ⟨((hw.sys _).set_ok r .lent trivial).set_ok it _ (.inl ⟨_, _, _, hinv⟩), trivial⟩
        | true =>
          have hnil := (habs.sentinel hd).2
          subst hnil
          obtain ⟨f0, hc, _, _⟩ := C10_drain_filter_default X p.pred1 { sys := w.sys, v := v } habs hd 0
          have hL : (hsOf v w.sys.allocIdx).L = 0 := by have := habs.len_eq (k := w.sys.allocIdx); simpa using this
          have h1 : VM.lift X (len X.env) { sys := w.sys, v := v } = (.ok 0, { sys := w.sys, v := v }) :=
            lift_read X _ _ _ (by rw [len_run, hL])
          have hc' : DrainFilter.create X p.pred1 { sys := w.sys, v := v } =
              (.ok { oldLen := 0, newLen := 0, pos := 0, panicked := false, pred := p.pred1, calls := 0 }, { sys := w.sys, v := v }) := by
            unfold DrainFilter.create
            simp only [VM.bind_run, h1, Nat.lt_irrefl, if_false, VM.pure_run, gt_iff_lt]
          rw [hc']
          exact ⟨((hw.sys _).set_ok r .lent trivial).set_ok it _ (.inr ⟨hd, habs, rfl, rfl, rfl, rfl⟩), trivial⟩
      · exact ⟨hw, trivial⟩
  case into_iter r it =>
    dsimp only
    cases hf : w.fresh it with
    | false => simp only [Bool.not_false, if_true]; exact ⟨hw, trivial⟩
    | true =>
      simp only [Bool.not_true, Bool.false_eq_true, if_false]
      split
      · rename_i v heq
        obtain ⟨es, habs⟩ := hw r _ heq
        simp only [runOn]
        cases hd : v.isDefault with
        | false =>
          obtain ⟨i, hc, _, hinv, _⟩ := into_create_alloc X { sys := w.sys, v := v } es habs hd
          rw [hc]
          exact ⟨((hw.sys _).set_gone r).set_ok it _ (.inl ⟨es, hinv⟩), trivial⟩
        | true =>
          have hnil := (habs.sentinel hd).2
          subst hnil
          have e1 : VM.lift X GM.isDefault { sys := w.sys, v := v } = (.ok true, { sys := w.sys, v := v }) := by
            rw [lift_isDefault]; exact congrArg (fun b => (Except.ok b, _)) hd
          have hc : IntoIter.create X { sys := w.sys, v := v } = (.ok { ptr := .null, pos := 0 }, { sys := w.sys, v := v }) := by
            unfold IntoIter.create; simp only [VM.bind_run, e1, if_true, VM.pure_run]
          rw [hc]
          exact ⟨((hw.sys _).set_gone r).set_ok it _ (.inr ⟨hd, habs⟩), trivial⟩
      · exact ⟨hw, trivial⟩
  case next it =>
    dsimp only
    split
    · rename_i src v d heq
      obtain ⟨o, d', hr, hok⟩ := drain_reg_step X src v d w.sys false (hw it _ heq)
      simp only [Bool.false_eq_true, if_false] at hr
      simp only [runOn, hr]
      exact ⟨(hw.sys _).set_ok it _ hok, outSane_optOut o⟩
    · rename_i src v sp heq
      obtain ⟨o, d', hr, hok⟩ := splice_reg_step X src v sp w.sys false (hw it _ heq)
      simp only [Bool.false_eq_true, if_false] at hr
      simp only [runOn, hr]
      exact ⟨(hw.sys _).set_ok it _ hok, outSane_optOut o⟩
    · rename_i src v f heq
      obtain ⟨st, f', s', hr, hnp, hok⟩ := df_reg_step X hq src v f w.sys (hw it _ heq)
      simp only [runOn, hr]
      cases st with
      | item e => exact ⟨(hw.sys _).set_ok it _ hok, trivial⟩
      | done => exact ⟨(hw.sys _).set_ok it _ hok, trivial⟩
      | predPanicked => exact absurd rfl hnp
    · rename_i v i heq
      obtain ⟨o, i', v', hr, hok⟩ := into_reg_step X v i w.sys false (hw it _ heq)
      simp only [Bool.false_eq_true, if_false] at hr
      simp only [runOn, hr]
      exact ⟨(hw.sys _).set_ok it _ hok, outSane_optOut o⟩
    · exact ⟨hw, trivial⟩
  case next_back it =>
    dsimp only
    split
    · rename_i src v d heq
      obtain ⟨o, d', hr, hok⟩ := drain_reg_step X src v d w.sys true (hw it _ heq)
      simp only [if_true] at hr
      simp only [runOn, hr]
      exact ⟨(hw.sys _).set_ok it _ hok, outSane_optOut o⟩
    · rename_i src v sp heq
      obtain ⟨o, d', hr, hok⟩ := splice_reg_step X src v sp w.sys true (hw it _ heq)
      simp only [if_true] at hr
      simp only [runOn, hr]
      exact ⟨(hw.sys _).set_ok it _ hok, outSane_optOut o⟩
    · rename_i v i heq
      obtain ⟨o, i', v', hr, hok⟩ := into_reg_step X v i w.sys true (hw it _ heq)
      simp only [if_true] at hr
      simp only [runOn, hr]
      exact ⟨(hw.sys _).set_ok it _ hok, outSane_optOut o⟩
    · exact ⟨hw, trivial⟩
  case size_hint it => dsimp only; split <;> exact ⟨hw, trivial⟩
  case len it => dsimp only; split <;> exact ⟨hw, trivial⟩
  case as_slice it =>
    dsimp only
    split
    · rename_i v i heq
      simp only [runOn]
      rcases hw it _ heq with ⟨es, hinv⟩ | ⟨hd, habs⟩
      · rw [into_as_slice (s := { sys := w.sys, v := v }) hinv]
        exact ⟨hw.sys _, trivial⟩
      · have e1 : VM.lift X GM.isDefault { sys := w.sys, v := v } = (.ok true, { sys := w.sys, v := v }) := by
          rw [lift_isDefault]; exact congrArg (fun b => (Except.ok b, _)) hd
        have : IntoIter.as_slice X i { sys := w.sys, v := v } = (.ok [], { sys := w.sys, v := v }) := by
          unfold IntoIter.as_slice; simp only [VM.bind_run, e1, if_true, VM.pure_run]
        rw [this]
        exact ⟨hw.sys _, trivial⟩
    · exact ⟨hw, trivial⟩

  case split_off r at_ rnew =>
    dsimp only
    cases hf : w.fresh rnew with
    | false => simp only [Bool.not_false, if_true]; exact ⟨hw, trivial⟩
    | true =>
      simp only [Bool.not_true, Bool.false_eq_true, if_false]
      split
      · rename_i v heq
        obtain ⟨es, habs⟩ := hw r _ heq
        simp only [runOn]
        by_cases hat : at_ ≤ es.length
        · rcases C01_split_off_partial X { sys := w.sys, v := v } es at_ habs hat with ⟨o, s', hr, ha, ho⟩ | ⟨p, s', hr, hb, es', ha⟩
          · rw [hr]; exact ⟨((hw.sys s'.sys).set_vec r s'.v _ ha).set_vec rnew o _ ho, trivial⟩
          · rw [hr]; exact ⟨(hw.sys s'.sys).set_vec r s'.v es' ha, hb⟩
        · have hL : (hsOf v w.sys.allocIdx).L = es.length := habs.len_eq
          have h1 : VM.lift X (split_off_pre X.env at_) { sys := w.sys, v := v } = (.error .explicit, { sys := w.sys, v := v }) :=
            lift_read X _ _ _ (by rw [C11_split_off]; show (if at_ > (hsOf v w.sys.allocIdx).L then _ else _) = _; rw [hL, if_pos (by omega)])
          have hr : Vec.split_off X at_ { sys := w.sys, v := v } = (.error .explicit, { sys := w.sys, v := v }) := by
            unfold Vec.split_off; simp only [VM.bind_run, h1]
          rw [hr]
          exact ⟨(hw.sys w.sys).set_vec r v es habs, rfl⟩
      · exact ⟨hw, trivial⟩
  case drain_vec r rnew =>
    dsimp only
    cases hf : w.fresh rnew with
    | false => simp only [Bool.not_false, if_true]; exact ⟨hw, trivial⟩
    | true =>
      simp only [Bool.not_true, Bool.false_eq_true, if_false]
      split
      · rename_i v heq
        obtain ⟨es, habs⟩ := hw r _ heq
        simp only [runOn, C01_drain_vec X hz { sys := w.sys, v := v }]
        exact ⟨((hw.sys w.sys).set_vec r {} [] (Abs.sentinel_abs X hz)).set_vec rnew v es habs, trivial⟩
      · exact ⟨hw, trivial⟩
  case clone r rnew =>
    dsimp only
    cases hf : w.fresh rnew with
    | false => simp only [Bool.not_false, if_true]; exact ⟨hw, trivial⟩
    | true =>
      simp only [Bool.not_true, Bool.false_eq_true, if_false]
      split
      · rename_i v heq
        obtain ⟨es, habs⟩ := hw r _ heq
        simp only [runOn]
        rcases C12_clone_partial X hq { sys := w.sys, v := v } es habs with ⟨o, s', es', hr, hv, ho, _⟩ | ⟨p, s', hr, hb, hv⟩
        · rw [hr]; exact ⟨((hw.sys s'.sys).set_vec r s'.v es (by rw [hv]; exact habs)).set_vec rnew o es' ho, trivial⟩
        · rw [hr]; exact ⟨(hw.sys s'.sys).set_vec r s'.v es (by rw [hv]; exact habs), hb⟩
      · exact ⟨hw, trivial⟩
  case clone_from r rsrc =>
    dsimp only
    split
    · exact ⟨hw, trivial⟩
    · split
      · rename_i v src h1 h2
        obtain ⟨es, habs⟩ := hw r _ h1
        obtain ⟨os, hsrc⟩ := hw rsrc _ h2
        rcases C12_clone_from_partial X hq { sys := w.sys, v := v } es os src habs hsrc with ⟨s', new, hr, ha, _⟩ | ⟨p, s', hr, hb, hv⟩
        · simp only [hr]; exact ⟨(hw.sys s'.sys).set_vec r s'.v new ha, trivial⟩
        · simp only [hr]; exact ⟨(hw.sys s'.sys).set_vec r s'.v es (by rw [hv]; exact habs), hb⟩
      · exact ⟨hw, trivial⟩
  case append r r2 =>
    dsimp only
    split
    · exact ⟨hw, trivial⟩
    · split
      · rename_i v o h1 h2
        obtain ⟨es, habs⟩ := hw r _ h1
        obtain ⟨os, hother⟩ := hw r2 _ h2
        rcases C01_append_partial X { sys := w.sys, v := v } es os o habs hother with ⟨o', s', hr, ha, ho', _⟩ | ⟨p, s', hr, hb, hv⟩
        · simp only [VM.bind_run, hr, VM.pure_run]
          exact ⟨((hw.sys s'.sys).set_vec r s'.v _ ha).set_vec r2 o' [] ho', trivial⟩
        · simp only [VM.bind_run, hr]
          exact ⟨(hw.sys s'.sys).set_vec r s'.v es (by rw [hv]; exact habs), hb⟩
      · exact ⟨hw, trivial⟩

  case views r => exact onVecReg_safe X w r _ (fun s es h => .inl ⟨.ok, s, es, rfl, h⟩) hw (fun s o s' h => by
      simp only [VM.pure_run, Prod.mk.injEq, Except.ok.injEq] at h; rw [← h.1]; trivial)
  case iter_views it => dsimp only; split <;> exact ⟨hw, trivial⟩
  case serialize r =>
    refine onVecReg_map_safe X w r (Vec.contents X) Out.elems ?_ (fun _ => trivial) hw
    intro s es h
    exact .inl ⟨es, s, es, contents_run X s es h, h⟩
  case leak r =>
    dsimp only
    split
    · rename_i v heq
      obtain ⟨es, habs⟩ := hw r _ heq
      simp only [runOn, contents_run X { sys := w.sys, v := v } es habs]
      exact ⟨(hw.sys _).set_gone r, trivial⟩
    · exact ⟨hw, trivial⟩
  case clone_iter it itnew =>
    dsimp only
    cases hf : w.fresh itnew with
    | false => simp only [Bool.not_false, if_true]; exact ⟨hw, trivial⟩
    | true =>
      simp only [Bool.not_true, Bool.false_eq_true, if_false]
      split
      · rename_i v i heq
        simp only [runOn]
        rcases hw it _ heq with ⟨es, hinv⟩ | ⟨hd, habs⟩
        · rcases C12_into_iter_clone_partial X hq { sys := w.sys, v := v } es i hinv with
            ⟨o, i', s', new, hr, hv, ho, _, _, hnd⟩ | ⟨p, s', hr, hb, hv⟩
          · rw [hr]
            have hit : RegOK X (.intoIter s'.v i) := .inl ⟨es, by rw [hv]; exact hinv⟩
            have hnew : RegOK X (.intoIter o i') := by
              cases hod : o.isDefault with
              | false => exact .inl ⟨new, (hnd hod).1⟩
              | true =>
                have hnil := (ho.sentinel hod).2
                subst hnil
                exact .inr ⟨hod, ho⟩
            exact ⟨((hw.sys _).set_ok it _ hit).set_ok itnew _ hnew, trivial⟩
          · rw [hr]
            have hit : RegOK X (.intoIter s'.v i) := .inl ⟨es, by rw [hv]; exact hinv⟩
            exact ⟨(hw.sys _).set_ok it _ hit, hb⟩
        · -- the clone of an IntoIter over a never-allocated vector is another one
          have e1 : VM.lift X GM.isDefault { sys := w.sys, v := v } = (.ok true, { sys := w.sys, v := v }) := by
            rw [lift_isDefault]; exact congrArg (fun b => (Except.ok b, _)) hd
          have has : IntoIter.as_slice X i { sys := w.sys, v := v } = (.ok [], { sys := w.sys, v := v }) := by
            unfold IntoIter.as_slice; simp only [VM.bind_run, e1, if_true, VM.pure_run]
          rcases C01_from_slice_partial X hq hz [] { sys := w.sys, v := v } with ⟨o, s1, new, hrun, hv, ho, hvals⟩ | ⟨p, s1, hrun, hb, hv⟩
          · have hnew0 : new = [] := by simpa using hvals
            subst hnew0
            have hcl : ∃ i', IntoIter.clone X i { sys := w.sys, v := v } = (.ok (o, i'), s1) ∧ RegOK X (.intoIter o i') := by
              cases hod : o.isDefault with
              | true =>
                have e2 : VM.lift X GM.isDefault { s1 with v := o } = (.ok true, { s1 with v := o }) := by
                  rw [lift_isDefault]; exact congrArg (fun b => (Except.ok b, _)) hod
                have hc : IntoIter.create X { s1 with v := o } = (.ok { ptr := .null, pos := 0 }, { s1 with v := o }) := by
                  unfold IntoIter.create; simp only [VM.bind_run, e2, if_true, VM.pure_run]
                refine ⟨{ ptr := .null, pos := 0 }, ?_, .inr ⟨hod, ho⟩⟩
                unfold IntoIter.clone
                simp only [VM.bind_run, has, hrun, onVec_ok o _ s1 _ _ hc, VM.pure_run]
              | false =>
                obtain ⟨i', hc, _, hinv', _⟩ := into_create_alloc X { s1 with v := o } [] ho hod
                refine ⟨i', ?_, .inl ⟨[], hinv'⟩⟩
                unfold IntoIter.clone
                simp only [VM.bind_run, has, hrun, onVec_ok o _ s1 _ _ hc, VM.pure_run]
            obtain ⟨i', hr, hok⟩ := hcl
            rw [hr]
            have hit : RegOK X (.intoIter s1.v i) := .inr ⟨by rw [hv]; exact hd, by rw [hv]; exact habs⟩
            exact ⟨((hw.sys _).set_ok it _ hit).set_ok itnew _ hok, trivial⟩
          · have hr : IntoIter.clone X i { sys := w.sys, v := v } = (.error p, s1) := by
              unfold IntoIter.clone
              simp only [VM.bind_run, has, hrun]
            rw [hr]
            have hit : RegOK X (.intoIter s1.v i) := .inr ⟨by rw [hv]; exact hd, by rw [hv]; exact habs⟩
            exact ⟨(hw.sys _).set_ok it _ hit, hb⟩
      · exact ⟨hw, trivial⟩

  case deserialize rnew hint sc =>
    dsimp only
    cases hf : w.fresh rnew with
    | false => simp only [Bool.not_false, if_true]; exact ⟨hw, trivial⟩
    | true =>
      simp only [Bool.not_true, Bool.false_eq_true, if_false, runOn]
      rcases C19_deserialize_partial X hq hz hint sc { sys := w.sys, v := {} } with
        ⟨_, o, s', new, hr, _, ho, _⟩ | ⟨_, s', hr, _⟩ | ⟨p, s', hr, hb, _⟩
      · rw [hr]; exact ⟨(hw.sys _).set_vec rnew o new ho, trivial⟩
      · rw [hr]; exact ⟨hw.sys _, trivial⟩
      · rw [hr]; exact ⟨hw.sys _, hb⟩
  case deserialize_in_place r hint sc =>
    refine onVecReg_map_safe X w r (Serde.deserialize_in_place X hint sc) (fun ok => if ok then Out.ok else Out.err) ?_
      (fun ok => by cases ok <;> trivial) hw
    intro s es h
    rcases C19_deserialize_in_place_partial X hq hint sc s es h with
      ⟨_, s', new, hr, ha, _⟩ | ⟨_, s', cur, hr, ha⟩ | ⟨p, s', cur, hr, hb, ha⟩
    · exact .inl ⟨true, s', new, hr, ha⟩
    · exact .inl ⟨false, s', cur, hr, ha⟩
    · exact .inr ⟨p, s', cur, hr, hb, ha⟩
  case raw_parts r =>
    refine onVecReg_safe' X w r _ hw ?_
    intro s es h
    have hL : (hsOf s.v s.sys.allocIdx).L = es.length := h.len_eq
    have h2 : VM.lift X (len X.env) s = (.ok es.length, s) := lift_read X _ s _ (by rw [len_run, hL])
    have h3 : VM.lift X (capacity X.env) s = (.ok (hsOf s.v s.sys.allocIdx).C, s) := lift_read X _ s _ (by rw [capacity_run])
    obtain ⟨o, ho⟩ := (raw_roundtrip_run X s es h es.length (hsOf s.v s.sys.allocIdx).C).2
    cases o with
    | none => exact .inl ⟨Out.none, s, es, by simp only [VM.bind_run, h2, h3, ho]; rfl, h, trivial⟩
    | some lc => exact .inl ⟨Out.nums [lc.1, lc.2], s, es, by simp only [VM.bind_run, h2, h3, ho]; rfl, h, trivial⟩
  case with_alignment r n a =>
    dsimp only
    cases hf : w.fresh r with
    | false => simp only [Bool.not_false, if_true]; exact ⟨hw, trivial⟩
    | true =>
      simp only [Bool.not_true, Bool.false_eq_true, if_false, runOn]
      rcases with_alignment_mem X hz { sys := w.sys, v := {} } rfl n a with ⟨e, hr⟩ | hmem
      · rw [hr]; exact ⟨hw.sys _, trivial⟩
      · generalize VM.lift X (with_alignment X.env n a) { sys := w.sys, v := {} } = out at hmem
        cases hmem with
        | same => exact ⟨(hw.sys _).set_vec r {} [] (Abs.sentinel_abs X hz), trivial⟩
        | stopped p s' _ hp _ => exact ⟨hw.sys _, hp⟩
        | grown s' ha _ _ _ _ => exact ⟨(hw.sys _).set_vec r s'.v [] ha, trivial⟩
  case compare r r2 =>
    dsimp only
    split
    · rename_i a b h1 h2
      obtain ⟨ea, ha⟩ := hw r _ h1
      obtain ⟨eb, hb⟩ := hw r2 _ h2
      have hca := contents_run X { sys := w.sys, v := a } ea ha
      have hcb := contents_run X { sys := w.sys, v := b } eb hb
      have hcb' : VM.onVec b (Vec.contents X) { sys := w.sys, v := a } = (.ok (eb, b), { sys := w.sys, v := a }) :=
        onVec_read b _ { sys := w.sys, v := a } _ hcb
      obtain ⟨res, s', hr, _⟩ := vpure_compareSlices X hq ea eb { sys := w.sys, v := a }
      simp only [runOn, VM.bind_run, hca, hcb', hr]
      obtain ⟨eq, pc, c, heq⟩ := res
      exact ⟨hw.sys _, trivial⟩
    · exact ⟨hw, trivial⟩
  case from_str n =>
    dsimp only
    split
    · exact ⟨hw, trivial⟩
    · simp only [runOn]
      rcases fromStrProg_safe { X with c := ⟨1, 1, false⟩ } hq (by show 0 < 1; omega) n { sys := w.sys, v := {} } rfl with
        ⟨l, s', hr⟩ | ⟨p, s', hr, hb⟩
      · rw [hr]; exact ⟨hw.sys _, trivial⟩
      · rw [hr]; exact ⟨hw.sys _, hb⟩
  case extend_ref pre it =>
    dsimp only
    split
    · exact ⟨hw, trivial⟩
    · simp only [runOn]
      rcases extendRefProg_safe { X with c := ⟨4, 4, false⟩ } hq (by show 0 < 4; omega) pre _ { sys := w.sys, v := {} } rfl with
        ⟨l, s', hr⟩ | ⟨p, s', hr, hb⟩
      · rw [hr]; exact ⟨hw.sys _, trivial⟩
      · rw [hr]; exact ⟨hw.sys _, hb⟩
  case spare r =>
    refine onVecReg_map_safe X w r (Vec.spare X) (fun n => Out.nums [n]) ?_ (fun _ => trivial) hw
    intro s es h
    exact .inl ⟨_, s, es, (C07_spare_exact X s es h).1, h⟩
  case split_spare r =>
    refine onVecReg_safe' X w r _ hw ?_
    intro s es h
    refine .inl ⟨Out.nums [es.length, (hsOf s.v s.sys.allocIdx).C - es.length], s, es, ?_, h, trivial⟩
    simp only [VM.bind_run, (C07_spare_exact X s es h).2]
    rfl
  case fill_spare r viaSplit k val =>
    dsimp only
    split
    · exact ⟨hw, trivial⟩
    · refine onVecReg_map_safe X w r (Vec.fill_spare X viaSplit k val) (fun n => Out.nums [n]) ?_ (fun _ => trivial) hw
      intro s es h
      obtain ⟨s', new, hr, ha, _⟩ := C07_fill_spare X viaSplit k val s es h
      exact .inl ⟨_, s', _, hr, ha⟩
  case raw_part r =>
    refine onVecReg_safe' X w r _ hw ?_
    intro s es h
    obtain ⟨o, ho⟩ := (raw_roundtrip_run X s es h 0 0).1
    cases o with
    | none => exact .inl ⟨Out.none, s, es, by simp only [VM.bind_run, ho]; rfl, h, trivial⟩
    | some lc => exact .inl ⟨Out.ok, s, es, by simp only [VM.bind_run, ho]; rfl, h, trivial⟩

/-- destroying a value inside an operation (no destructor panics) leaves every register alone -/
theorem dropIn_safe (X : Ctx) (hq : ∀ k, X.o.panicAt k = false) (w : World) (e : Elem) (hw : WFW X w) :
    WFW X (dropIn X w e).1 ∧ (dropIn X w e).2 = none := by
  unfold dropIn
  simp only [runOn, dropElem_quiet' X hq e]
  exact ⟨hw.sys _, trivial⟩

/-- the provided `nth` / `nth_back` (defined from `next` / `next_back` the way `core` defines them) -/
theorem nthLoop_safe (X : Ctx) (hq : ∀ k, X.o.panicAt k = false) (hz : 0 < X.c.elemSize) (nx : Op) (hnx : opCovered nx = true) :
    ∀ (k : Nat) (w : World), WFW X w → WFW X (nthLoop X nx k w).1 ∧ outSane (nthLoop X nx k w).2 := by
  intro k
  induction k with
  | zero => intro w hw; exact C03_world_step_partial X hq hz w nx hnx hw
  | succ k ih =>
    intro w hw
    obtain ⟨h1, h2⟩ := C03_world_step_partial X hq hz w nx hnx hw
    unfold nthLoop
    cases hs : step X w nx with
    | mk w' o =>
      rw [hs] at h1 h2
      cases o <;> simp only <;> try exact ⟨h1, h2⟩
      rename_i e
      obtain ⟨h3, h4⟩ := dropIn_safe X hq w' e h1
      cases hdi : dropIn X w' e with
      | mk w'' r =>
        rw [hdi] at h3 h4
        simp only at h4
        subst h4
        exact ih w'' h3

/-- `dropIn` does not touch the registers -/
theorem dropIn_get (X : Ctx) (w : World) (e : Elem) (r : String) : (dropIn X w e).1.get r = w.get r := by
  unfold dropIn; simp only [runOn]; rfl

/-- the provided `count` (a `fold` over `next`, then the iterator is dropped): with fuel above what the iterator can
    still yield it never runs out of fuel, keeps every register well formed and ends sanely -/
theorem countLoop_safe (X : Ctx) (hq : ∀ k, X.o.panicAt k = false) (hz : 0 < X.c.elemSize) (it : String) :
    ∀ (fuel acc : Nat) (w : World) (o : Obj), WFW X w → w.get it = some o → isIterObj o = true → regMeasure o < fuel →
    WFW X (countLoop X it fuel acc w).1 ∧ outSane (countLoop X it fuel acc w).2 := by
  intro fuel
  induction fuel with
  | zero => intro acc w o _ _ _ hm; omega
  | succ fuel ih =>
    intro acc w o hw hg hi hm
    obtain ⟨o', hg', hi', hw', hout⟩ := next_measure X hq w it o hw hg hi
    unfold countLoop
    cases hs : step X w (.next it) with
    | mk w1 out =>
      rw [hs] at hg' hw' hout
      simp only at hg' hw' hout
      rcases hout with hnone | ⟨e, hsome, hlt⟩
      · subst hnone
        simp only
        obtain ⟨h1, h2⟩ := C03_world_step_partial X hq hz w1 (.drop it) rfl hw'
        cases hd : step X w1 (.drop it) with
        | mk w2 o2 =>
          rw [hd] at h1 h2
          cases o2 <;> first | exact ⟨h1, trivial⟩ | exact ⟨h1, h2⟩
      · subst hsome
        simp only
        obtain ⟨h3, h4⟩ := dropIn_safe X hq w1 e hw'
        cases hdi : dropIn X w1 e with
        | mk w2 r =>
          rw [hdi] at h3 h4
          simp only at h4
          subst h4
          have hg2 : w2.get it = some o' := by
            have := dropIn_get X w1 e it
            rw [hdi] at this; simp only at this; rw [this]; exact hg'
          exact ih (acc + 1) w2 o' h3 hg2 hi' (by omega)

/-- the provided `last` (a `fold` that keeps the newest element and destroys the one it replaces): never out of fuel,
    every register stays well formed, a sane result -/
theorem lastLoop_safe (X : Ctx) (hq : ∀ k, X.o.panicAt k = false) (hz : 0 < X.c.elemSize) (it : String) :
    ∀ (fuel : Nat) (prev : Option Elem) (w : World) (o : Obj), WFW X w → w.get it = some o → isIterObj o = true →
    regMeasure o < fuel →
    WFW X (lastLoop X it fuel prev w).1 ∧ outSane (lastLoop X it fuel prev w).2 := by
  intro fuel
  induction fuel with
  | zero => intro prev w o _ _ _ hm; omega
  | succ fuel ih =>
    intro prev w o hw hg hi hm
    obtain ⟨o', hg', hi', hw', hout⟩ := next_measure X hq w it o hw hg hi
    unfold lastLoop
    cases hs : step X w (.next it) with
    | mk w1 out =>
      rw [hs] at hg' hw' hout
      simp only at hg' hw' hout
      rcases hout with hnone | ⟨e, hsome, hlt⟩
      · subst hnone
        simp only
        obtain ⟨h1, h2⟩ := C03_world_step_partial X hq hz w1 (.drop it) rfl hw'
        cases hd : step X w1 (.drop it) with
        | mk w2 o2 =>
          rw [hd] at h1 h2
          cases o2 <;> first | exact ⟨h1, outSane_optOut prev⟩ | exact ⟨h1, trivial⟩ | exact ⟨h1, h2⟩
      · subst hsome
        simp only
        cases prev with
        | none => exact ih (some e) w1 o' hw' hg' hi' (by omega)
        | some pv =>
          simp only
          obtain ⟨h3, h4⟩ := dropIn_safe X hq w1 pv hw'
          cases hdi : dropIn X w1 pv with
          | mk w2 r =>
            rw [hdi] at h3 h4
            simp only at h4
            subst h4
            have hg2 : w2.get it = some o' := by
              have := dropIn_get X w1 pv it
              rw [hdi] at this; simp only at this; rw [this]; exact hg'
            exact ih (some e) w2 o' h3 hg2 hi' (by omega)

theorem world_get_unset (w : World) (r r' : String) : (w.unset r).get r' = if r' = r then none else w.get r' := by
  unfold World.unset World.get
  simp only
  induction w.regs with
  | nil => by_cases h : r' = r <;> simp [h]
  | cons p rest ih =>
    by_cases hp : p.1 = r
    · have : (p.1 != r) = false := by simp [hp]
      simp only [List.filter_cons, this, Bool.false_eq_true, if_false]
      by_cases h : r' = r
      · simpa [h] using ih
      · have h2 : (p.1 == r') = false := by rw [hp]; simp; exact fun e => h e.symm
        simp only [List.find?_cons, h2]
        simpa [h] using ih
    · have : (p.1 != r) = true := by simp [hp]
      simp only [List.filter_cons, this, if_true, List.find?_cons]
      by_cases h3 : (p.1 == r') = true
      · have : r' ≠ r := by intro e; subst e; simp [hp] at h3
        simp [h3, this]
      · simp only [h3]
        exact ih

theorem WFW.unset {X : Ctx} {w : World} (h : WFW X w) (r : String) : WFW X (w.unset r) := by
  intro r' o hg
  rw [world_get_unset] at hg
  by_cases hr : r' = r
  · simp [hr] at hg
  · simp [hr] at hg; exact h r' o hg

/-- the provided `Clone::clone_from` between two `IntoIter` registers -/
theorem cloneFromIter_safe (X : Ctx) (hq : ∀ k, X.o.panicAt k = false) (hz : 0 < X.c.elemSize) (w : World) (it src : String)
    (hw : WFW X w) : WFW X (cloneFromIter X w it src).1 ∧ outSane (cloneFromIter X w it src).2 := by
  unfold cloneFromIter
  split
  · exact ⟨hw, trivial⟩
  · split
    · obtain ⟨h1, h2⟩ := C03_world_step_partial X hq hz w (.clone_iter src tmpReg) rfl hw
      cases hs : step X w (.clone_iter src tmpReg) with
      | mk w1 o1 =>
        rw [hs] at h1 h2
        cases o1 <;> try exact ⟨h1.unset tmpReg, h2⟩
        -- the clone was made: drop the old value, store the new one
        obtain ⟨h3, h4⟩ := C03_world_step_partial X hq hz w1 (.drop it) rfl h1
        have key : ∀ res : World × Out, WFW X res.1 → outSane res.2 →
            WFW X ((match res.1.get tmpReg with | some o => res.1.set it o | none => res.1).unset tmpReg) ∧ outSane res.2 := by
          intro res h3 h4
          cases hg : res.1.get tmpReg with
          | none => exact ⟨h3.unset tmpReg, h4⟩
          | some o => exact ⟨(h3.set_ok it o (h3 tmpReg o hg)).unset tmpReg, h4⟩
        exact key _ h3 h4
    · exact ⟨hw, trivial⟩

/-- `stepAll` (what the driver runs): the covered operations plus `nth` / `nth_back` / `count` / `clone_from_iter` -/
def opCoveredAll : Op → Bool
  | .nth .. | .nth_back .. | .count _ | .last _ | .clone_from_iter .. => true
  | op => opCovered op

theorem C03_world_stepAll_partial (X : Ctx) (hq : ∀ k, X.o.panicAt k = false) (hz : 0 < X.c.elemSize) (w : World) (op : Op)
    (hc : opCoveredAll op = true) (hw : WFW X w) :
    WFW X (stepAll X w op).1 ∧ outSane (stepAll X w op).2 := by
  cases op <;> simp only [opCoveredAll] at hc <;>
    first
    | (unfold stepAll; exact C03_world_step_partial X hq hz w _ hc hw)
    | skip
  case count it =>
    simp only [stepAll]
    cases hg : w.get it with
    | none =>
      have : step X w (.size_hint it) = (w, .badOp) := by unfold step; simp only [hg]
      simp only [this]; exact ⟨hw, trivial⟩
    | some o =>
      cases hio : isIterObj o with
      | false =>
        have : step X w (.size_hint it) = (w, .badOp) := by
          unfold step; cases o <;> simp [isIterObj] at hio <;> simp only [hg]
        simp only [this]; exact ⟨hw, trivial⟩
      | true =>
        have hsh : step X w (.size_hint it) = (w, .hint (match o with
            | .drainFilter .. => 0 | _ => regMeasure o) (some (regMeasure o))) := by
          unfold step; cases o <;> simp [isIterObj] at hio <;> simp only [hg, regMeasure, Drain.size_hint]
        simp only [hsh]
        exact countLoop_safe X hq hz it (regMeasure o + 2) 0 w o hw hg hio (by omega)
  case last it =>
    simp only [stepAll]
    cases hg : w.get it with
    | none =>
      have : step X w (.size_hint it) = (w, .badOp) := by unfold step; simp only [hg]
      simp only [this]; exact ⟨hw, trivial⟩
    | some o =>
      cases hio : isIterObj o with
      | false =>
        have : step X w (.size_hint it) = (w, .badOp) := by
          unfold step; cases o <;> simp [isIterObj] at hio <;> simp only [hg]
        simp only [this]; exact ⟨hw, trivial⟩
      | true =>
        have hsh : step X w (.size_hint it) = (w, .hint (match o with
            | .drainFilter .. => 0 | _ => regMeasure o) (some (regMeasure o))) := by
          unfold step; cases o <;> simp [isIterObj] at hio <;> simp only [hg, regMeasure, Drain.size_hint]
        simp only [hsh]
        exact lastLoop_safe X hq hz it (regMeasure o + 2) none w o hw hg hio (by omega)
  case clone_from_iter it src => simp only [stepAll]; exact cloneFromIter_safe X hq hz w it src hw
  case nth it k =>
    simp only [stepAll]
    split
    · exact ⟨hw, trivial⟩
    · exact nthLoop_safe X hq hz (.next it) rfl k w hw
  case nth_back it k =>
    simp only [stepAll]
    split
    · exact ⟨hw, trivial⟩
    · split
      · exact ⟨hw, trivial⟩
      · exact nthLoop_safe X hq hz (.next_back it) rfl k w hw

/-- run a list of operations on the register machine -/
def runWorld (X : Ctx) : List Op → World → World × List Out
  | [], w => (w, [])
  | op :: rest, w =>
    let (w1, o) := stepAll X w op
    let (w2, os) := runWorld X rest w1
    (w2, o :: os)

/-- **every history of covered operations over any number of registers** (run with `stepAll`, as the driver does), started from the empty machine (or any
    well-formed one): all registers well formed at the end, no step ended in an illegal access, a failed internal
    assertion or a hang -/
theorem C03_world_histories_partial (X : Ctx) (hq : ∀ k, X.o.panicAt k = false) (hz : 0 < X.c.elemSize) (ops : List Op)
    (hc : ∀ op ∈ ops, opCoveredAll op = true) (w : World) (hw : WFW X w) :
    WFW X (runWorld X ops w).1 ∧ ∀ o ∈ (runWorld X ops w).2, outSane o := by
  induction ops generalizing w with
  | nil => exact ⟨hw, by simp [runWorld]⟩
  | cons op rest ih =>
    obtain ⟨h1, h2⟩ := C03_world_stepAll_partial X hq hz w op (hc op (by simp)) hw
    obtain ⟨h3, h4⟩ := ih (fun o ho => hc o (by simp [ho])) (stepAll X w op).1 h1
    refine ⟨by simpa [runWorld] using h3, ?_⟩
    intro o ho
    simp only [runWorld, List.mem_cons] at ho
    rcases ho with rfl | ho
    · exact h2
    · exact h4 o ho

/-- every operation of the line protocol is covered -/
theorem all_ops_covered (op : Op) : opCoveredAll op = true := by cases op <;> rfl

/-- **C03 / C01 for the whole protocol**: from the empty machine (or any well-formed one), EVERY finite sequence of
    protocol operations — any operation on any register name with any arguments, in any order — leaves every
    register well formed and no step ends in an illegal access, a failed internal assertion or a hang (callbacks that
    do not panic; panicking callbacks are C04's subject) -/
theorem C03_world_all_histories (X : Ctx) (hq : ∀ k, X.o.panicAt k = false) (hz : 0 < X.c.elemSize) (ops : List Op)
    (w : World) (hw : WFW X w) :
    WFW X (runWorld X ops w).1 ∧ ∀ o ∈ (runWorld X ops w).2, outSane o :=
  C03_world_histories_partial X hq hz ops (fun op _ => all_ops_covered op) w hw

/-- non-vacuity: the empty machine is well formed, and a three-register history is covered -/
example (X : Ctx) : WFW X {} := by intro r o h; simp [World.get] at h
example : ∀ op ∈ [Op.new "a", .with_capacity "b" 4, .push "a" 1, .extend "b" [some 1, none], .remove "a" 5, .drop "b",
    .macro_repeat "c" 7 3, .dedup "c", .drain "c" .unbounded (.excluded 2) "i", .next "i", .push "a" 2, .next_back "i",
    .into_iter "a" "j", .nth "j" 1, .drop "i", .push "c" 9, .as_slice "j", .nth_back "j" 0, .clone_iter "j" "k", .count "k", .forget "j"], opCoveredAll op = true := by decide

end MV.Props

#print axioms MV.Props.C03_world_step_partial
#print axioms MV.Props.C03_world_histories_partial
#print axioms MV.Props.C03_world_stepAll_partial
#print axioms MV.Props.C03_world_all_histories

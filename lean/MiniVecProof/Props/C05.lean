import MiniVecProof.Proofs.MemOps
import MiniVecProof.Props.C11
import MiniVecProof.Model.Iter
/-
  C05 — forgetting an iterator can only leak (PARTIAL: proved for `Drain` and for the creation of
  `Splice` / `DrainFilter`; stepping a Splice/DrainFilter before the forget and `IntoIter` are
  covered by the correspondence only).

  `mem::forget` runs no code, so the vector left behind is the one the iterator's creation and its
  steps left. Creation cuts the length to the range start before the iterator exists (regenerated
  guard + length cut, C11_drain), and stepping only READS slots, so whatever prefix of steps was
  taken, the vector exposes exactly the untouched prefix `es.take start`: none of the elements the
  iterator could hand out, nothing twice.
-/
namespace MV.Props
open MV MV.Gen MV.GM VM

/-- a program that ends with one length write -/
theorem lift_len_write {α} (X : Ctx) (g : GM α) (s : St) (n : Nat) (res : Except Panic α)
    (hg : g (hsOf s.v s.sys.allocIdx) =
      (res, { (hsOf s.v s.sys.allocIdx) with len := n, acts := [.setLen n] })) :
    VM.lift X g s = (res, { s with v := { s.v with len := n } }) := by
  rw [lift_run, hg]
  simp [replay, replay1, withHdr, hsOf]

theorem set_len_run (E : Env) (n : Nat) (g : GS) (hd : g.isDefault = false) :
    set_len E n g = (.ok (), { g with len := n, acts := g.acts ++ [.setLen n] }) := by
  unfold set_len; simp [GM.setHdrLen, hd]

/-- creation of a `Drain` on a vector with storage -/
theorem drain_create_alloc (X : Ctx) (s : St) (es : List Elem) (b1 b2 : Bound) (st en : Nat)
    (h : Abs X s.v es) (hd : s.v.isDefault = false) (hr : resolve b1 b2 es.length = some (st, en)) :
    ∃ d, Drain.create X b1 b2 s = (.ok d, { s with v := { s.v with len := st } }) ∧
      d.pos = st ∧ d.stop = en ∧ d.tailPos = en ∧ d.tail = es.length - en ∧
      Abs X { s.v with len := st } (es.take st) := by
  have hL : (hsOf s.v s.sys.allocIdx).L = es.length := h.len_eq
  obtain ⟨b, hb, hl, hs, hlc, hel, hinit⟩ := h.alloc hd
  obtain ⟨_, _, hse, hel'⟩ := (C11_resolve_iff b1 b2 es.length st en).mp hr
  have hptr := as_mut_ptr_run X.env (hsOf s.v s.sys.allocIdx) hd b.lay s.v.cap hl
  have hrun : drain_pre X.env b1 b2 (hsOf s.v s.sys.allocIdx) =
      (.ok (.cont ⟨es.length, st, en, .at (dataOff s.v.align)⟩),
       { (hsOf s.v s.sys.allocIdx) with len := st, acts := [.setLen st] }) := by
    rw [C11_drain]
    unfold drainSpec
    have hsl := set_len_run X.env st (hsOf s.v s.sys.allocIdx) hd
    simp only [len_run, GM.bind_run, hL, hr, hptr, DPtr.isNull, Bool.not_false, if_true, GM.ite_run,
      hsl, GM.pure_run]
    rfl
  have h1 := lift_len_write X (drain_pre X.env b1 b2) s st _ hrun
  have hcapb : s.v.cap ≤ b.slots.length := by rw [hs]; exact physSlots_ge X.env _ _ _ hl h.elem_pos
  have hal : b.lay.align = s.v.align := (make_layout_honest _ _ _ _ hl).2.1
  refine ⟨{ ptr := .at (dataOff s.v.align), pos := st, stop := en, tailPos := en, tail := es.length - en },
    ?_, rfl, rfl, rfl, rfl, h.shorten st (by omega) hd⟩
  unfold Drain.create
  simp only [VM.bind_run, h1, DPtr.isNull, Bool.false_eq_true, if_false, VM.ite_run]
  unfold VM.inb VM.blockAt
  have hen : en ≤ b.slots.length := by omega
  simp [hb, hal, hen]

/-- stepping a `Drain` never changes the vector -/
theorem rd_v (p : DPtr) (i : Nat) (s : St) : (VM.rd p i s).2.v = s.v := by
  unfold VM.rd VM.blockAt
  simp only [VM.bind_run, VM.getV_run]
  cases p with
  | null => simp [VM.ub]
  | «at» off =>
    cases hb : s.v.blk with
    | none => simp [VM.ub]
    | some b =>
      simp only
      by_cases ho : off = dataOff b.lay.align
      · simp only [ho, if_true, VM.pure_run]
        cases hsl : b.slots[i]? with
        | none => simp [VM.ub]
        | some sl => cases sl <;> simp [VM.ub]
      · simp [ho, VM.ub]

theorem drain_next_v (d : DrainSt) (s : St) :
    (Drain.next d s).2.v = s.v ∧ (Drain.next_back d s).2.v = s.v := by
  unfold Drain.next Drain.next_back
  constructor <;>
  · by_cases hp : d.pos ≥ d.stop
    · simp [hp]
    · simp only [hp, if_false, VM.bind_run]
      have := rd_v d.ptr
      first
        | (have h := this d.pos s
           cases hr : VM.rd d.ptr d.pos s with
           | mk r s1 => rw [hr] at h; cases r <;> simpa using h)
        | (have h := this (d.stop - 1) s
           cases hr : VM.rd d.ptr (d.stop - 1) s with
           | mk r s1 => rw [hr] at h; cases r <;> simpa using h)

inductive DStep | front | back

def stepDrain : List DStep → DrainSt → St → St
  | [], _, s => s
  | .front :: rest, d, s =>
    (match Drain.next d s with
     | (.ok (_, d'), s') => stepDrain rest d' s'
     | (.error _, s') => s')
  | .back :: rest, d, s =>
    (match Drain.next_back d s with
     | (.ok (_, d'), s') => stepDrain rest d' s'
     | (.error _, s') => s')

/-- (C05, Drain) whatever interleaving of front and back steps is taken before the iterator is
    forgotten, the vector left behind exposes exactly the elements in front of the drained range -/
theorem C05_drain_forget (X : Ctx) (s : St) (es : List Elem) (b1 b2 : Bound) (st en : Nat)
    (h : Abs X s.v es) (hd : s.v.isDefault = false) (hr : resolve b1 b2 es.length = some (st, en))
    (steps : List DStep) :
    ∃ d s1, Drain.create X b1 b2 s = (.ok d, s1) ∧
      (stepDrain steps d s1).v = s1.v ∧ Abs X (stepDrain steps d s1).v (es.take st) := by
  obtain ⟨d, hc, _, _, _, _, habs⟩ := drain_create_alloc X s es b1 b2 st en h hd hr
  refine ⟨d, _, hc, ?_⟩
  have key : ∀ (steps : List DStep) (d : DrainSt) (s1 : St), (stepDrain steps d s1).v = s1.v := by
    intro steps
    induction steps with
    | nil => intro d s1; rfl
    | cons st' rest ih =>
      intro d s1
      cases st' with
      | front =>
        simp only [stepDrain]
        have := (drain_next_v d s1).1
        cases hn : Drain.next d s1 with
        | mk r s2 =>
          rw [hn] at this
          cases r with
          | ok p => simp only; rw [ih]; exact this
          | error e => exact this
      | back =>
        simp only [stepDrain]
        have := (drain_next_v d s1).2
        cases hn : Drain.next_back d s1 with
        | mk r s2 =>
          rw [hn] at this
          cases r with
          | ok p => simp only; rw [ih]; exact this
          | error e => exact this
  have hk := key steps d { s with v := { s.v with len := st } }
  exact ⟨hk, by rw [hk]; exact habs⟩

/-- (C05, DrainFilter) the iterator is created with the vector's length cut to zero: forgetting it
    at any point can expose none of the elements -/
theorem C05_drain_filter_create (X : Ctx) (s : St) (es : List Elem) (pred : Vec.Pred1)
    (h : Abs X s.v es) (hd : s.v.isDefault = false) (hne : es ≠ []) :
    ∃ f, DrainFilter.create X pred s = (.ok f, { s with v := { s.v with len := 0 } }) ∧
      f.oldLen = es.length ∧ Abs X { s.v with len := 0 } [] := by
  have hL : (hsOf s.v s.sys.allocIdx).L = es.length := h.len_eq
  have h1 : VM.lift X (len X.env) s = (.ok es.length, s) := lift_read X _ s _ (by rw [len_run, hL])
  have hpos : es.length > 0 := by cases es <;> simp at hne ⊢
  have h2 := lift_set_len X 0 s hd
  refine ⟨{ oldLen := es.length, newLen := 0, pos := 0, panicked := false, pred := pred, calls := 0 },
    ?_, rfl, by simpa using h.shorten 0 (by omega) hd⟩
  unfold DrainFilter.create
  simp only [VM.bind_run, h1, hpos, if_true, VM.ite_run, h2, VM.pure_run]

end MV.Props

#print axioms MV.Props.C05_drain_forget
#print axioms MV.Props.C05_drain_filter_create

import MiniVecProof.Props.C12IntoIter
/-
  C01 — constructors and whole-vector moves: `mini_vec![a, b, c]`, `drain_vec`.
-/
namespace MV.Props
open MV MV.Gen MV.GM VM

/-- (C01) `mini_vec![a, b, c]`: a fresh vector holding the listed values in order -/
theorem C01_macro_list_partial (X : Ctx) (hz : 0 < X.c.elemSize) (vals : List Int) (s : St) (hq : ∀ k, X.o.panicAt k = false) :
    (∃ o s' new, Vec.macro_list X vals s = (.ok o, s') ∧ s'.v = s.v ∧ Abs X o new ∧ new.map (·.val) = vals) ∨
    (∃ p s', Vec.macro_list X vals s = (.error p, s') ∧ Panic.benign p = true ∧ s'.v = s.v) := by
  have hround : RoundSpec X vals.length (fun i e => vals[i]? = some e.val) (fun i => do
      let e ← VM.mkElem (vals.getD i 0)
      Vec.push X e) := by
    intro i s1 acc hi habs
    simp only [VM.bind_run, mkElem_run]
    let s2 : St := { s1 with sys := { s1.sys with nextId := s1.sys.nextId + 1 } }
    have hp := push_spec X s2 acc ⟨s1.sys.nextId, vals.getD i 0⟩ habs
    generalize Vec.push X ⟨s1.sys.nextId, vals.getD i 0⟩ s2 = out at hp
    cases hp with
    | pushed s' habs' _ =>
      refine .inl ⟨_, s', rfl, habs', ?_⟩
      simp [List.getD_eq_getElem?_getD, List.getElem?_eq_getElem hi]
    | stopped p s' hv' hb => exact .inr ⟨p, s', rfl, hb, hv'⟩
  have hx : (∃ a s', (do
        VM.lift X (new X.env)
        VM.forN vals.length (fun i => do
          let e ← VM.mkElem (vals.getD i 0)
          Vec.push X e) : VM Unit) { s with v := {} } = (.ok a, s') ∧ ∃ new, Abs X s'.v new ∧ new.map (·.val) = vals) ∨
      (∃ p s' acc, (do
        VM.lift X (new X.env)
        VM.forN vals.length (fun i => do
          let e ← VM.mkElem (vals.getD i 0)
          Vec.push X e) : VM Unit) { s with v := {} } = (.error p, s') ∧ Panic.benign p = true ∧ Abs X s'.v acc) := by
    have h1 := lift_new_empty X hz s
    simp only [VM.bind_run, h1]
    rcases forN_spec X vals.length _ _ hround { s with v := {} } [] (Abs.sentinel_abs X hz) with
      ⟨l, s2, hrun, habs2, hl, hP⟩ | ⟨p, s2, acc, hrun, hb, habs2⟩
    · refine .inl ⟨(), s2, hrun, l, by simpa using habs2, ?_⟩
      apply List.ext_getElem?
      intro j
      simp only [List.getElem?_map]
      by_cases hj : j < l.length
      · rw [List.getElem?_eq_getElem hj, hP j hj]; rfl
      · rw [List.getElem?_eq_none (by omega), List.getElem?_eq_none (by omega)]; rfl
    · exact .inr ⟨p, s2, acc, hrun, hb, habs2⟩
  unfold Vec.macro_list
  simp only [VM.bind_run]
  rcases withLocal_spec X hq _ s (fun _ s' => ∃ new, Abs X s'.v new ∧ new.map (·.val) = vals) hx with
    ⟨a, s', hrun, new, habs, hvals⟩ | ⟨p, s', hrun, hb, hv⟩
  · rw [hrun]; exact .inl ⟨s'.v, _, new, rfl, rfl, habs, hvals⟩
  · rw [hrun]; exact .inr ⟨p, s', rfl, hb, hv⟩

/-- (C01) `drain_vec`: the whole vector is handed out as it is; a never-allocated one is left behind -/
theorem C01_drain_vec (X : Ctx) (hz : 0 < X.c.elemSize) (s : St) :
    Vec.drain_vec X s = (.ok s.v, { s with v := {} }) := by
  have h1 := lift_new_empty X hz s
  unfold Vec.drain_vec
  simp only [VM.bind_run, onVec_ok _ _ s _ _ h1, VM.getV_run, VM.setV, VM.pure_run]

end MV.Props

#print axioms MV.Props.C01_macro_list_partial
#print axioms MV.Props.C01_drain_vec

import MiniVecProof.Proofs.MemFull
import MiniVecProof.Props.C01SplitOff
/-
  C01 — `mini_vec![elem; n]`: the element expression is evaluated once; the vector holds `n`
  value-equal clones of it (written straight into the reserved slots, the length published once at
  the end); the original is destroyed at the end of the macro in every case.
-/
namespace MV.Props
open MV MV.Gen MV.GM VM

/-- writing the first uninitialised slot behind the described ones -/
theorem wr_extend_full (X : Ctx) (s : St) (acc : List Elem) (h : Abs X { s.v with len := acc.length } acc)
    (hd : s.v.isDefault = false) (hroom : acc.length < s.v.cap) (e : Elem) :
    ∃ v', VM.wr (.at (dataOff s.v.align)) acc.length e s = (.ok (), { s with v := v' }) ∧
      Abs X { v' with len := acc.length + 1 } (acc ++ [e]) ∧ v'.cap = s.v.cap ∧ v'.isDefault = false ∧
      v'.align = s.v.align ∧ v'.len = s.v.len := by
  obtain ⟨b, hb, hl, hsl, hlc, hel, hinit⟩ := h.alloc hd
  simp only at hb hl hlc hel hinit
  have hal : b.lay.align = s.v.align := (make_layout_honest _ _ _ _ hl).2.1
  have hcapb : s.v.cap ≤ b.slots.length := by rw [hsl]; exact physSlots_ge X.env _ _ _ hl h.elem_pos
  have h1 := wr_blk s b hb acc.length (by omega) e
  rw [hal] at h1
  refine ⟨_, h1, ?_, rfl, hd, rfl, rfl⟩
  refine ⟨h.elem_pos, fun hx => by simp [hd] at hx, fun _ => ⟨_, rfl, hl, by simpa using hsl, by simp; omega, by simp, ?_⟩⟩
  intro j hj
  simp only at hj
  simp only [List.getElem?_set]
  by_cases hji : acc.length = j
  · subst hji; simp [show acc.length < b.slots.length by omega]
  · simp [hji]
    rw [hinit j (by omega), List.getElem?_append_left (by omega)]

/-- the cloning loop of the repeat form -/
theorem repeat_go (X : Ctx) (hq : ∀ k, X.o.panicAt k = false) (elem : Elem) (n : Nat) :
    ∀ (k : Nat) (acc : List Elem) (s : St), Abs X { s.v with len := acc.length } acc → s.v.isDefault = false →
    acc.length + k = n → n ≤ s.v.cap → (∀ e ∈ acc, e.val = elem.val) →
    ∃ s' acc', VM.forN.go (fun i => do
        let e ← VM.cloneElem X elem
        let d ← VM.lift X (data X.env)
        VM.wr d i e) k acc.length s = (.ok (), s') ∧
      Abs X { s'.v with len := n } acc' ∧ acc'.length = n ∧ (∀ e ∈ acc', e.val = elem.val) ∧
      s'.v.isDefault = false ∧ s'.v.len = s.v.len ∧ s'.v.cap = s.v.cap := by
  intro k
  induction k with
  | zero =>
    intro acc s h hd hk hcap hv
    have : acc.length = n := by omega
    exact ⟨s, acc, by simp [VM.forN.go], by rw [← this]; exact h, this, hv, hd, rfl, rfl⟩
  | succ k ih =>
    intro acc s h hd hk hcap hv
    obtain ⟨s1, hc, hv1⟩ := cloneElem_quiet X hq elem s
    have h1 : Abs X { s1.v with len := acc.length } acc := by rw [hv1]; exact h
    have hd1 : s1.v.isDefault = false := by rw [hv1]; exact hd
    have h2 := lift_data X s1 acc.length acc h1 hd1
    obtain ⟨v', hw, habs', hc', hd', hal', hl'⟩ := wr_extend_full X s1 acc h1 hd1 (by rw [hv1]; omega) ⟨s.sys.nextId, elem.val⟩
    have hinv' : Abs X { ({ s1 with v := v' } : St).v with len := (acc ++ [(⟨s.sys.nextId, elem.val⟩ : Elem)]).length } (acc ++ [⟨s.sys.nextId, elem.val⟩]) := by
      simpa using habs'
    obtain ⟨s', acc', hrun, habs2, hlen2, hv2, hd2, hl2, hc2⟩ := ih (acc ++ [⟨s.sys.nextId, elem.val⟩]) { s1 with v := v' } hinv' hd'
      (by simp; omega) (by show n ≤ v'.cap; rw [hc', hv1]; exact hcap) (by
        intro e he
        rcases List.mem_append.mp he with h | h
        · exact hv e h
        · simp at h; subst h; rfl)
    refine ⟨s', acc', ?_, habs2, hlen2, hv2, hd2, by rw [hl2]; show v'.len = _; rw [hl', hv1], by rw [hc2]; show v'.cap = _; rw [hc', hv1]⟩
    unfold VM.forN.go
    simp only [VM.bind_run, hc, h2, hw]
    have : (acc ++ [(⟨s.sys.nextId, elem.val⟩ : Elem)]).length = acc.length + 1 := by simp
    rw [this] at hrun
    exact hrun

/-- (C01) `mini_vec![elem; n]` -/
theorem C01_macro_repeat_partial (X : Ctx) (hq : ∀ k, X.o.panicAt k = false) (hz : 0 < X.c.elemSize) (val : Int) (n : Nat) (s : St) :
    (∃ o s' new, Vec.macro_repeat X val n s = (.ok o, s') ∧ s'.v = s.v ∧ Abs X o new ∧
        new.map (·.val) = List.replicate n val) ∨
    (∃ p s', Vec.macro_repeat X val n s = (.error p, s') ∧ Panic.benign p = true ∧ s'.v = s.v) := by
  unfold Vec.macro_repeat
  simp only [VM.bind_run, mkElem_run]
  let s0 : St := { s with sys := { s.sys with nextId := s.sys.nextId + 1 } }
  let elem : Elem := ⟨s.sys.nextId, val⟩
  -- the local vector
  have hx : (∃ a s', (do
        VM.lift X (with_capacity X.env n)
        VM.forN n (fun i => do
          let e ← VM.cloneElem X elem
          let d ← VM.lift X (data X.env)
          VM.wr d i e)
        if n > 0 then VM.lift X (set_len X.env n) else pure () : VM Unit) { s0 with v := {} } = (.ok a, s') ∧
        ∃ new, Abs X s'.v new ∧ new.map (·.val) = List.replicate n val) ∨
      (∃ p s' acc, (do
        VM.lift X (with_capacity X.env n)
        VM.forN n (fun i => do
          let e ← VM.cloneElem X elem
          let d ← VM.lift X (data X.env)
          VM.wr d i e)
        if n > 0 then VM.lift X (set_len X.env n) else pure () : VM Unit) { s0 with v := {} } = (.error p, s') ∧
        Panic.benign p = true ∧ Abs X s'.v acc) := by
    simp only [VM.bind_run]
    rcases with_capacity_room X hz { s0 with v := {} } rfl n with ⟨s1, hr, habs1, hroom, hzero⟩ | ⟨p, s1, hr, hbn, hv⟩
    · rw [hr]
      simp only
      by_cases hn : n > 0
      · obtain ⟨hd1, hcap1⟩ := hroom hn
        have hl0 : s1.v.len = 0 := by
          obtain ⟨_, _, _, _, _, hel, _⟩ := habs1.alloc hd1; simpa using hel.symm
        have hinv0 : Abs X { s1.v with len := ([] : List Elem).length } [] := by
          have hv : ({ s1.v with len := 0 } : VSt) = s1.v := by cases hv : s1.v; simp [hv] at *; exact hl0.symm
          simpa [hv] using habs1
        obtain ⟨s2, acc, hrun, habs2, hlen2, hv2, hd2, hl2, hc2⟩ := repeat_go X hq elem n n [] s1 hinv0 hd1 (by simp) (by omega) (by simp)
        have hrun' : VM.forN n (fun i => do
            let e ← VM.cloneElem X elem
            let d ← VM.lift X (data X.env)
            VM.wr d i e) s1 = (.ok (), s2) := by simpa [VM.forN] using hrun
        rw [hrun']
        simp only [hn, if_true, lift_set_len X n s2 hd2]
        refine .inl ⟨(), _, rfl, acc, habs2, ?_⟩
        apply List.ext_getElem?
        intro j
        simp only [List.getElem?_map, List.getElem?_replicate]
        by_cases hj : j < n
        · have hj' : j < acc.length := by omega
          rw [List.getElem?_eq_getElem hj']
          simp [hj, hv2 _ (List.getElem_mem hj'), elem]
        · rw [List.getElem?_eq_none (by omega)]; simp [hj]
      · have hn0 : n = 0 := by omega
        subst hn0
        have := hzero rfl
        subst this
        simp only [VM.forN, VM.forN.go, VM.pure_run, Nat.lt_irrefl, if_false, gt_iff_lt]
        exact .inl ⟨(), _, rfl, [], Abs.sentinel_abs X hz, rfl⟩
    · rw [hr]
      exact .inr ⟨p, s1, [], rfl, hbn, by rw [hv]; exact Abs.sentinel_abs X hz⟩
  unfold VM.guarded
  rcases withLocal_spec X hq _ s0 (fun _ s' => ∃ new, Abs X s'.v new ∧ new.map (·.val) = List.replicate n val) hx with
    ⟨a, s', hrun, new, habs, hvals⟩ | ⟨p, s', hrun, hb, hv⟩
  · have hbody : (do
        let (_, o) ← Vec.withLocal X {} (do
          VM.lift X (with_capacity X.env n)
          VM.forN n (fun i => do
            let e ← VM.cloneElem X elem
            let d ← VM.lift X (data X.env)
            VM.wr d i e)
          if n > 0 then VM.lift X (set_len X.env n) else pure ())
        pure o : VM VSt) s0 = (.ok s'.v, { s' with v := s0.v }) := by
      simp only [VM.bind_run, hrun, VM.pure_run]
    rw [hbody]
    simp only [dropElem_quiet' X hq ⟨s.sys.nextId, val⟩]
    exact .inl ⟨s'.v, _, new, rfl, rfl, habs, hvals⟩
  · have hbody : (do
        let (_, o) ← Vec.withLocal X {} (do
          VM.lift X (with_capacity X.env n)
          VM.forN n (fun i => do
            let e ← VM.cloneElem X elem
            let d ← VM.lift X (data X.env)
            VM.wr d i e)
          if n > 0 then VM.lift X (set_len X.env n) else pure ())
        pure o : VM VSt) s0 = (.error p, s') := by
      simp only [VM.bind_run, hrun]
    rw [hbody]
    simp only
    by_cases hu : VM.unwinds p = true
    · simp only [hu, if_true, dropElem_quiet' X hq ⟨s.sys.nextId, val⟩]
      exact .inr ⟨p, _, rfl, hb, hv⟩
    · simp only [hu, Bool.false_eq_true, if_false]
      exact .inr ⟨p, s', rfl, hb, hv⟩

end MV.Props

#print axioms MV.Props.C01_macro_repeat_partial

import MiniVecProof.Props.C10Splice
import MiniVecProof.Props.C10DrainFilter
/-
  C05 — forgetting `Splice` and `DrainFilter` after any steps can only leak: the vector left behind
  exposes none of the elements the iterator could still hand out or has handed out.
-/
namespace MV.Props
open MV MV.Gen MV.GM VM

/-- (C05, DrainFilter, any predicate) after creation and any number of `next()` calls the vector
    exposes nothing: `mem::forget` leaves an empty, well-formed vector (everything not yielded leaks) -/
theorem C05_drain_filter_forget (X : Ctx) (hq : ∀ k, X.o.panicAt k = false) (pred : Vec.Pred1) (s : St) (es : List Elem)
    (h : Abs X s.v es) (hd : s.v.isDefault = false) (n : Nat) :
    ∃ f0 s0 f1 s1, DrainFilter.create X pred s = (.ok f0, s0) ∧
      runDF X n f0 s0 = (.ok ((dfRun pred n 0 es).1, f1), s1) ∧ Abs X s1.v [] := by
  obtain ⟨v0, hc, hinv0, _, _⟩ := df_create_alloc X pred s es h hd
  obtain ⟨s1, f1, kept1, junk1, hrun, hinv1, _⟩ := df_steps X hq n es [] [] _ { s with v := v0 } hinv0
  refine ⟨_, _, f1, s1, hc, hrun, ?_⟩
  have hsh := hinv1.full.shorten 0 (by omega) (by simpa using hinv1.hd)
  have hv : ({ ({ s1.v with len := f1.oldLen } : VSt) with len := 0 } : VSt) = s1.v := by
    have hl := hinv1.len0
    cases hv : s1.v; simp [hv] at *; exact hl.symm
  rw [hv] at hsh
  simpa using hsh

/-- (C05, Splice) after creation and any interleaving of steps the vector exposes exactly the elements
    in front of the range: forgetting the `Splice` leaks the rest, nothing is exposed twice -/
theorem C05_splice_forget (X : Ctx) (s : St) (es : List Elem) (b1 b2 : Bound) (st en : Nat) (fill : Vec.IterScript)
    (h : Abs X s.v es) (hd : s.v.isDefault = false) (hr : resolve b1 b2 es.length = some (st, en)) (steps : List DStep) :
    ∃ sp s1 d', Splice.create X b1 b2 fill s = (.ok sp, s1) ∧
      runDrain steps sp.d s1 = (.ok ((specSteps steps ((es.take en).drop st)).1, d'), s1) ∧ Abs X s1.v (es.take st) := by
  obtain ⟨_, _, hse, hel'⟩ := (C11_resolve_iff b1 b2 es.length st en).mp hr
  obtain ⟨b, hb, hl, hs, hlc, hel, hinit⟩ := h.alloc hd
  have hc := splice_create_alloc X s es b1 b2 st en fill h hd hr
  have hv : ({ ({ s.v with len := st } : VSt) with len := es.length } : VSt) = s.v := by
    cases hv : s.v; simp [hv] at *; exact hel
  let sp : SpliceSt := { d := { ptr := .at (dataOff s.v.align), pos := st, stop := en, tailPos := en, tail := es.length - en }, fill := fill }
  have hinv : DrainInv X ({ s with v := { s.v with len := st } } : St).v es st en sp.d :=
    { hd := hd, len := rfl, full := by simp only; rw [hv]; exact h, ptr := rfl, lo := Nat.le_refl _, mid := hse,
      hi := Nat.le_refl _, tp := rfl, tl := rfl, en_le := hel' }
  obtain ⟨d', hrun, _, _⟩ := drain_protocol X steps _ es st en sp.d hinv
  exact ⟨sp, _, d', hc, hrun, h.shorten st (by omega) hd⟩

end MV.Props

#print axioms MV.Props.C05_drain_filter_forget
#print axioms MV.Props.C05_splice_forget

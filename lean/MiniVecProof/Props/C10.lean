import MiniVecProof.Props.C05
import MiniVecProof.Proofs.MemDrop
import MiniVecProof.Proofs.MemMove
/-
  C10 — draining iterators obey the iterator protocol at every step (PARTIAL: proved for `Drain`
  on every storage state; Splice, DrainFilter and IntoIter are decided by the correspondence only).

  Statement (Drain): for every element class, both profiles, every well-formed vector exposing `es`
  and every accepted range [st, en): after creation, EVERY interleaving of front and back steps —
  of any length, including steps after the two ends met — yields what a double-ended iterator over
  the list `es[st..en]` yields (front: first remaining, back: last remaining, `None` for ever once
  nothing remains), the advertised remaining count after each step is exactly the number of
  elements not yet yielded, no step changes the vector or the trace, and dropping the iterator at
  that point destroys exactly the elements not yet yielded (once each, in ascending order) and
  leaves the vector exposing `es[..st] ++ es[en..]`.
-/
namespace MV.Props
open MV MV.Gen MV.GM VM

/-- what is true of a live `Drain` and the vector it borrows -/
structure DrainInv (X : Ctx) (v : VSt) (es : List Elem) (st en : Nat) (d : DrainSt) : Prop where
  hd : v.isDefault = false
  len : v.len = st
  full : Abs X { v with len := es.length } es
  ptr : d.ptr = .at (dataOff v.align)
  lo : st ≤ d.pos
  mid : d.pos ≤ d.stop
  hi : d.stop ≤ en
  tp : d.tailPos = en
  tl : d.tail = es.length - en
  en_le : en ≤ es.length

/-- the elements not yet yielded -/
def window (d : DrainSt) (es : List Elem) : List Elem := (es.take d.stop).drop d.pos

theorem window_length (d : DrainSt) (es : List Elem) (h1 : d.pos ≤ d.stop) (h2 : d.stop ≤ es.length) :
    (window d es).length = d.stop - d.pos := by
  simp [window]; omega

theorem DrainInv.rd {X : Ctx} {s : St} {es : List Elem} {st en : Nat} {d : DrainSt}
    (h : DrainInv X s.v es st en d) (i : Nat) (hi : i < es.length) :
    VM.rd d.ptr i s = (.ok es[i], s) := by
  obtain ⟨b, hb, hl, hs, hlc, hel, hinit⟩ := h.full.alloc h.hd
  have hal : b.lay.align = s.v.align := (make_layout_honest _ _ _ _ hl).2.1
  simp only at hb hinit
  have := rd_blk s b i es[i] hb (by rw [hinit i hi]; simp [List.getElem?_eq_getElem hi])
  rw [h.ptr, ← hal]; exact this

theorem drain_next_some {X : Ctx} {s : St} {es : List Elem} {st en : Nat} {d : DrainSt}
    (h : DrainInv X s.v es st en d) (hlt : d.pos < d.stop) :
    Drain.next d s = (.ok (some (es[d.pos]'(by have := h.hi; have := h.en_le; omega)), { d with pos := d.pos + 1 }), s) := by
  have hi : d.pos < es.length := by have := h.hi; have := h.en_le; omega
  unfold Drain.next
  rw [if_neg (by omega)]
  simp only [VM.bind_run, h.rd d.pos hi, VM.pure_run]

theorem drain_next_none (d : DrainSt) (s : St) (hge : d.pos ≥ d.stop) :
    Drain.next d s = (.ok (none, d), s) ∧ Drain.next_back d s = (.ok (none, d), s) := by
  unfold Drain.next Drain.next_back
  simp [hge]

theorem drain_next_back_some {X : Ctx} {s : St} {es : List Elem} {st en : Nat} {d : DrainSt}
    (h : DrainInv X s.v es st en d) (hlt : d.pos < d.stop) :
    Drain.next_back d s = (.ok (some (es[d.stop - 1]'(by have := h.hi; have := h.en_le; omega)), { d with stop := d.stop - 1 }), s) := by
  have hi : d.stop - 1 < es.length := by have := h.hi; have := h.en_le; omega
  unfold Drain.next_back
  rw [if_neg (by omega)]
  simp only [VM.bind_run, h.rd (d.stop - 1) hi, VM.pure_run]

/-- a double-ended iterator over a list: what each step yields, and the count advertised after it -/
def specSteps : List DStep → List Elem → List (Option Elem × Nat) × List Elem
  | [], w => ([], w)
  | .front :: rest, w => let r := specSteps rest w.tail; ((w.head?, w.tail.length) :: r.1, r.2)
  | .back :: rest, w => let r := specSteps rest w.dropLast; ((w.getLast?, w.dropLast.length) :: r.1, r.2)

/-- the model: each step's yield and `size_hint()` (= `len()`) after it -/
def runDrain : List DStep → DrainSt → St → Except Panic (List (Option Elem × Nat) × DrainSt) × St
  | [], d, s => (.ok ([], d), s)
  | .front :: rest, d, s =>
    (match Drain.next d s with
     | (.ok (o, d'), s') =>
       (match runDrain rest d' s' with
        | (.ok (outs, d''), s'') => (.ok ((o, Drain.size_hint d') :: outs, d''), s'')
        | (.error p, s'') => (.error p, s''))
     | (.error p, s') => (.error p, s'))
  | .back :: rest, d, s =>
    (match Drain.next_back d s with
     | (.ok (o, d'), s') =>
       (match runDrain rest d' s' with
        | (.ok (outs, d''), s'') => (.ok ((o, Drain.size_hint d') :: outs, d''), s'')
        | (.error p, s'') => (.error p, s''))
     | (.error p, s') => (.error p, s'))

theorem window_front (d : DrainSt) (es : List Elem) (hlt : d.pos < d.stop) (hs : d.stop ≤ es.length) :
    (window d es).head? = some (es[d.pos]'(by omega)) ∧ (window d es).tail = window { d with pos := d.pos + 1 } es := by
  unfold window
  constructor
  · rw [List.head?_drop, List.getElem?_take]; simp [hlt, List.getElem?_eq_getElem (show d.pos < es.length by omega)]
  · simp [List.tail_drop]

theorem window_back (d : DrainSt) (es : List Elem) (hlt : d.pos < d.stop) (hs : d.stop ≤ es.length) :
    (window d es).getLast? = some (es[d.stop - 1]'(by omega)) ∧ (window d es).dropLast = window { d with stop := d.stop - 1 } es := by
  unfold window
  have hlen : ((es.take d.stop).drop d.pos).length = d.stop - d.pos := by simp; omega
  constructor
  · rw [List.getLast?_eq_getElem?, hlen, List.getElem?_drop, List.getElem?_take]
    have : d.pos + (d.stop - d.pos - 1) = d.stop - 1 := by omega
    rw [this]
    simp [show d.stop - 1 < d.stop by omega, List.getElem?_eq_getElem (show d.stop - 1 < es.length by omega)]
  · simp only
    rw [List.dropLast_eq_take, hlen]
    apply List.ext_getElem?
    intro i
    simp only [List.getElem?_take, List.getElem?_drop]
    by_cases h1 : i < d.stop - d.pos - 1
    · simp [h1, show d.pos + i < d.stop by omega, show d.pos + i < d.stop - 1 by omega]
    · simp [h1, show ¬ d.pos + i < d.stop - 1 by omega]

theorem window_empty (d : DrainSt) (es : List Elem) (hge : d.pos ≥ d.stop) : window d es = [] := by
  unfold window; simp; omega

/-- (C10, Drain) every interleaving of steps behaves like the list iterator, counts are exact, and
    neither the vector nor the trace is touched -/
theorem drain_protocol (X : Ctx) (steps : List DStep) (s : St) (es : List Elem) (st en : Nat) (d : DrainSt)
    (h : DrainInv X s.v es st en d) :
    ∃ d', runDrain steps d s = (.ok ((specSteps steps (window d es)).1, d'), s) ∧
      DrainInv X s.v es st en d' ∧ window d' es = (specSteps steps (window d es)).2 := by
  induction steps generalizing d with
  | nil => exact ⟨d, rfl, h, rfl⟩
  | cons stp rest ih =>
    have hs : d.stop ≤ es.length := by have := h.hi; have := h.en_le; omega
    by_cases hlt : d.pos < d.stop
    · cases stp with
      | front =>
        have hn := drain_next_some h hlt
        have hinv' : DrainInv X s.v es st en { d with pos := d.pos + 1 } :=
          { h with lo := by have := h.lo; simp; omega, mid := by simp; omega }
        obtain ⟨d', hrun, hinv'', hw⟩ := ih _ hinv'
        obtain ⟨hw1, hw2⟩ := window_front d es hlt hs
        refine ⟨d', ?_, hinv'', ?_⟩
        · simp only [runDrain, hn, hrun, specSteps, hw1, hw2, Drain.size_hint]
          rw [window_length _ _ (by simp; omega) (by simpa using hs)]
        · simp only [specSteps, hw2]; exact hw
      | back =>
        have hn := drain_next_back_some h hlt
        have hinv' : DrainInv X s.v es st en { d with stop := d.stop - 1 } :=
          { h with hi := by have := h.hi; simp; omega, mid := by simp; omega }
        obtain ⟨d', hrun, hinv'', hw⟩ := ih _ hinv'
        obtain ⟨hw1, hw2⟩ := window_back d es hlt hs
        refine ⟨d', ?_, hinv'', ?_⟩
        · simp only [runDrain, hn, hrun, specSteps, hw1, hw2, Drain.size_hint]
          rw [window_length _ _ (by simp; omega) (by simp; omega)]
        · simp only [specSteps, hw2]; exact hw
    · have hge : d.pos ≥ d.stop := by omega
      obtain ⟨hn1, hn2⟩ := drain_next_none d s hge
      have hw0 := window_empty d es hge
      obtain ⟨d', hrun, hinv'', hw⟩ := ih d h
      cases stp with
      | front =>
        refine ⟨d', ?_, hinv'', ?_⟩
        · simp only [runDrain, hn1, hrun, specSteps, hw0, Drain.size_hint]
          simp [show d.stop - d.pos = 0 by omega]
        · simp only [specSteps, hw0]; rw [hw0] at hw; exact hw
      | back =>
        refine ⟨d', ?_, hinv'', ?_⟩
        · simp only [runDrain, hn2, hrun, specSteps, hw0, Drain.size_hint]
          simp [show d.stop - d.pos = 0 by omega]
        · simp only [specSteps, hw0]; rw [hw0] at hw; exact hw

/-! ### dropping a `Drain` -/

theorem dropElem_quiet (X : Ctx) (hq : ∀ k, X.o.panicAt k = false) (e : Elem) (s : St) :
    VM.dropElem X e s = (.ok (), afterDrops X s [e]) := by
  unfold VM.dropElem
  cases hn : X.c.needsDrop with
  | false => simp [afterDrops, dropEvents, hn]
  | true => simp [VM.bind_run, VM.emit, VM.callback, hq, afterDrops, dropEvents, hn]

theorem afterDrops_cons (X : Ctx) (s : St) (e : Elem) (w : List Elem) :
    afterDrops X (afterDrops X s [e]) w = afterDrops X s (e :: w) := by
  unfold afterDrops dropEvents
  cases X.c.needsDrop <;> simp [Nat.add_assoc, Nat.add_comm 1]

theorem afterDrops_nil (X : Ctx) (s : St) : afterDrops X s [] = s := by
  unfold afterDrops dropEvents; cases X.c.needsDrop <;> simp

theorem drainSt_pos_eq (d : DrainSt) (h : d.pos = d.stop) : { d with pos := d.stop } = d := by
  cases d; simp at h ⊢; exact h.symm

/-- `Drop for Drain`, first loop: the elements not yet yielded are destroyed front to back -/
theorem drain_dropLoop_run (X : Ctx) (hq : ∀ k, X.o.panicAt k = false) (n : Nat) :
    ∀ (fuel : Nat) (d : DrainSt) (s : St) (es : List Elem) (st en : Nat), DrainInv X s.v es st en d →
      d.stop - d.pos = n → n < fuel →
      Drain.dropLoop X fuel d s = (.ok { d with pos := d.stop }, afterDrops X s (window d es)) := by
  induction n with
  | zero =>
    intro fuel d s es st en h hn hf
    have hge : d.pos ≥ d.stop := by omega
    have heq : d.pos = d.stop := by have := h.mid; omega
    cases fuel with
    | zero => omega
    | succ fuel =>
      unfold Drain.dropLoop
      simp only [VM.bind_run, (drain_next_none d s hge).1, VM.pure_run, window_empty d es hge, afterDrops_nil,
        drainSt_pos_eq d heq]
  | succ n ih =>
    intro fuel d s es st en h hn hf
    have hlt : d.pos < d.stop := by omega
    have hs : d.stop ≤ es.length := by have := h.hi; have := h.en_le; omega
    cases fuel with
    | zero => omega
    | succ fuel =>
      have hinv' : DrainInv X (afterDrops X s [es[d.pos]'(by omega)]).v es st en { d with pos := d.pos + 1 } :=
        { h with lo := by have := h.lo; simp; omega, mid := by simp; omega }
      have hrec := ih fuel { d with pos := d.pos + 1 } (afterDrops X s [es[d.pos]'(by omega)]) es st en hinv'
        (by simp; omega) (by omega)
      obtain ⟨hw1, hw2⟩ := window_front d es hlt hs
      have hwc : window d es = es[d.pos]'(by omega) :: window { d with pos := d.pos + 1 } es := by
        rw [← hw2]
        cases hw : window d es with
        | nil => rw [hw] at hw1; simp at hw1
        | cons a t => rw [hw] at hw1; simp at hw1; simp [hw1]
      unfold Drain.dropLoop
      simp only [VM.bind_run, drain_next_some h hlt, VM.onUnwind, dropElem_quiet X hq]
      rw [hrec, afterDrops_cons, ← hwc]

/-- `DropGuard::drop` once nothing is left to destroy: the tail is moved down behind the prefix -/
theorem drain_guard_run (X : Ctx) (d : DrainSt) (s : St) (es : List Elem) (st en : Nat)
    (h : DrainInv X s.v es st en d) (hp : d.pos = d.stop) :
    ∃ v', Drain.guardBody X d s = (.ok (), { s with v := v' }) ∧ Abs X v' (es.take st ++ es.drop en) ∧
      v'.cap = s.v.cap ∧ v'.blk.map (·.bid) = s.v.blk.map (·.bid) := by
  obtain ⟨b, hb, hl, hs, hlc, hel, hinit⟩ := h.full.alloc h.hd
  simp only at hb hl hlc hel hinit
  have hal : b.lay.align = s.v.align := (make_layout_honest _ _ _ _ hl).2.1
  have hcapb : s.v.cap ≤ b.slots.length := by rw [hs]; exact physSlots_ge X.env _ _ _ hl h.full.elem_pos
  have hge : d.pos ≥ d.stop := by omega
  have hst : st ≤ en := by have := h.lo; have := h.mid; have := h.hi; omega
  have hen := h.en_le
  have h0 : Drain.dropRest X (d.stop - d.pos + 1) d s = (.ok d, s) := by
    rw [show d.stop - d.pos + 1 = 0 + 1 by omega]
    unfold Drain.dropRest
    simp only [VM.bind_run, (drain_next_none d s hge).1, VM.pure_run]
  unfold Drain.guardBody
  simp only [VM.bind_run, h0]
  unfold Drain.moveTail
  by_cases ht : d.tail > 0
  · have hL : (hsOf s.v s.sys.allocIdx).L = st := by simp [GS.L, hsOf, h.hd, h.len]
    have h1 : VM.lift X (len X.env) s = (.ok st, s) := lift_read X _ s _ (by rw [len_run, hL])
    have h2 : VM.lift X (as_mut_ptr X.env) s = (.ok (.at (dataOff s.v.align)), s) :=
      lift_read X _ s _ (as_mut_ptr_run X.env _ (by simp [hsOf, h.hd]) b.lay s.v.cap (by simpa [hsOf] using hl))
    have htl := h.tl
    have h3 := inb_blk s b hb (st + d.tail) (by omega)
    have h4 := cp_blk s b hb d.tailPos st d.tail (by rw [h.tp]; omega) (by omega)
    rw [hal] at h3 h4
    let s1 : St := { s with v := { s.v with blk := some { b with slots := copySlots b.slots d.tailPos st d.tail } } }
    have h5 := lift_set_len X (st + d.tail) s1 h.hd
    refine ⟨{ s.v with blk := some { b with slots := copySlots b.slots d.tailPos st d.tail }, len := st + d.tail }, ?_, ?_, rfl, by simp [hb]⟩
    · simp only [ht, if_true, VM.bind_run, h1, h2, h3, h4]
      rw [h5]
    · refine ⟨h.full.elem_pos, fun hx => by simp [h.hd] at hx, fun _ => ⟨_, rfl, hl, ?_, by simp; omega, by simp; omega, ?_⟩⟩
      · simp only; rw [copySlots_length _ _ _ _ (by rw [h.tp]; omega) (by omega)]; exact hs
      · intro j hj
        simp only at hj ⊢
        rw [copySlots_get _ _ _ _ _ (by rw [h.tp]; omega) (by omega), h.tp]
        by_cases hjs : j < st
        · rw [if_neg (by omega), hinit j (by omega), List.getElem?_append_left (by simp; omega), List.getElem?_take_of_lt hjs]
        · rw [if_pos (by omega), hinit _ (by omega), List.getElem?_append_right (by simp; omega), List.getElem?_drop]
          congr 2
          simp; omega
  · have htl := h.tl
    have hen' : en = es.length := by omega
    refine ⟨s.v, ?_, ?_, rfl, rfl⟩
    · simp only [ht, if_false, VM.pure_run]
    · have : es.drop en = [] := by simp [hen']
      rw [this, List.append_nil]
      have := h.full.shorten st (by omega) h.hd
      have hv : ({ ({ s.v with len := es.length } : VSt) with len := st } : VSt) = s.v := by
        cases hv : s.v; simp [hv] at *; exact h.len.symm
      rw [hv] at this; exact this

/-- (C10/C02, Drain) dropping the iterator at any point of its consumption -/
theorem drain_drop_spec (X : Ctx) (hq : ∀ k, X.o.panicAt k = false) (d : DrainSt) (s : St) (es : List Elem) (st en : Nat)
    (h : DrainInv X s.v es st en d) :
    ∃ v', Drain.drop X d s = (.ok (), { afterDrops X s (window d es) with v := v' }) ∧
      Abs X v' (es.take st ++ es.drop en) ∧ v'.cap = s.v.cap ∧ v'.blk.map (·.bid) = s.v.blk.map (·.bid) := by
  have h1 := drain_dropLoop_run X hq (d.stop - d.pos) (d.stop - d.pos + 1) d s es st en h rfl (by omega)
  have hinv' : DrainInv X (afterDrops X s (window d es)).v es st en { d with pos := d.stop } :=
    { h with lo := by have := h.lo; have := h.mid; simp; omega, mid := by simp }
  obtain ⟨v', h2, habs, hc, hb⟩ := drain_guard_run X { d with pos := d.stop } (afterDrops X s (window d es)) es st en hinv' rfl
  refine ⟨v', ?_, habs, hc, hb⟩
  unfold Drain.drop
  simp only [VM.bind_run, h1, h2]

/-! ### the never-allocated vector -/

theorem drain_create_default (X : Ctx) (s : St) (b1 b2 : Bound) (st en : Nat) (h : Abs X s.v [])
    (hd : s.v.isDefault = true) (hr : resolve b1 b2 0 = some (st, en)) :
    Drain.create X b1 b2 s = (.ok { ptr := .null, pos := 0, stop := 0, tailPos := 0, tail := 0 }, s) := by
  have hL : (hsOf s.v s.sys.allocIdx).L = 0 := by have := h.len_eq (k := s.sys.allocIdx); simpa using this
  have hptr := as_mut_ptr_run_default X.env (hsOf s.v s.sys.allocIdx) (by simp [hsOf, hd])
  have hrun : drain_pre X.env b1 b2 (hsOf s.v s.sys.allocIdx) =
      (.ok (.cont ⟨0, st, en, .null⟩), hsOf s.v s.sys.allocIdx) := by
    rw [C11_drain]
    unfold drainSpec
    simp only [len_run, GM.bind_run, hL, hr, hptr, DPtr.isNull, Bool.not_true, GM.ite_run, GM.pure_run]
    rfl
  have h1 := lift_read X (drain_pre X.env b1 b2) s _ hrun
  unfold Drain.create
  simp only [VM.bind_run, h1, DPtr.isNull, VM.pure_run, Nat.zero_sub]
  rfl

/-- an exhausted `Drain` answers `None` with count 0 for ever and touches nothing -/
theorem drain_exhausted (steps : List DStep) (d : DrainSt) (s : St) (hge : d.pos ≥ d.stop) :
    runDrain steps d s = (.ok ((specSteps steps []).1, d), s) ∧ (specSteps steps []).2 = [] := by
  induction steps with
  | nil => exact ⟨rfl, rfl⟩
  | cons stp rest ih =>
    obtain ⟨hn1, hn2⟩ := drain_next_none d s hge
    cases stp with
    | front =>
      simp only [runDrain, hn1, ih.1, specSteps, Drain.size_hint]
      exact ⟨by simp [show d.stop - d.pos = 0 by omega], ih.2⟩
    | back =>
      simp only [runDrain, hn2, ih.1, specSteps, Drain.size_hint]
      exact ⟨by simp [show d.stop - d.pos = 0 by omega], ih.2⟩

theorem drain_drop_exhausted_notail (X : Ctx) (d : DrainSt) (s : St) (hge : d.pos ≥ d.stop) (ht : d.tail = 0) :
    Drain.drop X d s = (.ok (), s) := by
  have h0 : Drain.dropLoop X (d.stop - d.pos + 1) d s = (.ok d, s) := by
    rw [show d.stop - d.pos + 1 = 0 + 1 by omega]
    unfold Drain.dropLoop
    simp only [VM.bind_run, (drain_next_none d s hge).1, VM.pure_run]
  have h1 : Drain.dropRest X (d.stop - d.pos + 1) d s = (.ok d, s) := by
    rw [show d.stop - d.pos + 1 = 0 + 1 by omega]
    unfold Drain.dropRest
    simp only [VM.bind_run, (drain_next_none d s hge).1, VM.pure_run]
  unfold Drain.drop Drain.guardBody Drain.moveTail
  simp only [VM.bind_run, h0, h1, ht, Nat.lt_irrefl, if_false, VM.pure_run, gt_iff_lt]

/-! ### what the list iterator yields -/

def frontsOf : List DStep → List (Option Elem × Nat) → List Elem
  | .front :: ss, (some e, _) :: os => e :: frontsOf ss os
  | _ :: ss, _ :: os => frontsOf ss os
  | _, _ => []

def backsOf : List DStep → List (Option Elem × Nat) → List Elem
  | .back :: ss, (some e, _) :: os => e :: backsOf ss os
  | _ :: ss, _ :: os => backsOf ss os
  | _, _ => []

/-- each selected element is yielded exactly once or is still to come: the front yields in order,
    then the elements not yet yielded, then the back yields in reverse order, make up exactly the
    selected range -/
theorem specSteps_partition (steps : List DStep) (w : List Elem) :
    frontsOf steps (specSteps steps w).1 ++ (specSteps steps w).2 ++ (backsOf steps (specSteps steps w).1).reverse = w := by
  induction steps generalizing w with
  | nil => simp [specSteps, frontsOf, backsOf]
  | cons stp rest ih =>
    cases stp with
    | front =>
      cases w with
      | nil => simpa [specSteps, frontsOf, backsOf] using ih []
      | cons a t => simpa [specSteps, frontsOf, backsOf] using ih t
    | back =>
      rcases List.eq_nil_or_concat w with hnil | ⟨init, l, he⟩
      · subst hnil; simpa [specSteps, frontsOf, backsOf] using ih []
      · have he' : w = init ++ [l] := by simpa using he
        subst he'
        have := ih init
        simp only [specSteps, List.getLast?_append, List.getLast?_singleton, List.dropLast_concat, frontsOf, backsOf,
          List.reverse_cons, Option.some_or]
        rw [← List.append_assoc, this]

/-- after the ends have met every further step returns `None` -/
theorem specSteps_none_after (steps : List DStep) : ∀ o ∈ (specSteps steps []).1, o = (none, 0) := by
  induction steps with
  | nil => simp [specSteps]
  | cons stp rest ih =>
    cases stp <;> simpa [specSteps] using ih

/-- (C10, Drain) creation, any interleaving of steps, drop — on every storage state -/
theorem C10_drain_partial (X : Ctx) (hq : ∀ k, X.o.panicAt k = false) (s : St) (es : List Elem) (b1 b2 : Bound) (st en : Nat)
    (h : Abs X s.v es) (hr : resolve b1 b2 es.length = some (st, en)) (steps : List DStep) :
    ∃ d s1 d' v', Drain.create X b1 b2 s = (.ok d, s1) ∧ s1.sys = s.sys ∧
      runDrain steps d s1 = (.ok ((specSteps steps ((es.take en).drop st)).1, d'), s1) ∧
      Drain.drop X d' s1 = (.ok (), { afterDrops X s1 (specSteps steps ((es.take en).drop st)).2 with v := v' }) ∧
      Abs X v' (es.take st ++ es.drop en) ∧ v'.cap = s.v.cap ∧ v'.blk.map (·.bid) = s.v.blk.map (·.bid) := by
  cases hd : s.v.isDefault with
  | false =>
    obtain ⟨b, hb, hl, hs, hlc, hel, hinit⟩ := h.alloc hd
    obtain ⟨_, _, hse, hel'⟩ := (C11_resolve_iff b1 b2 es.length st en).mp hr
    obtain ⟨d, hc, hp, hsp, htp, htl, _⟩ := drain_create_alloc X s es b1 b2 st en h hd hr
    have hv : ({ ({ s.v with len := st } : VSt) with len := es.length } : VSt) = s.v := by
      cases hv : s.v; simp [hv] at *; exact hel
    have hptr : d.ptr = .at (dataOff s.v.align) := by
      -- the creation lemma's witness
      have hL : (hsOf s.v s.sys.allocIdx).L = es.length := h.len_eq
      have hmp := as_mut_ptr_run X.env (hsOf s.v s.sys.allocIdx) hd b.lay s.v.cap hl
      have hrun : drain_pre X.env b1 b2 (hsOf s.v s.sys.allocIdx) =
          (.ok (.cont ⟨es.length, st, en, .at (dataOff s.v.align)⟩),
           { (hsOf s.v s.sys.allocIdx) with len := st, acts := [.setLen st] }) := by
        rw [C11_drain]
        unfold drainSpec
        have hsl := set_len_run X.env st (hsOf s.v s.sys.allocIdx) hd
        simp only [len_run, GM.bind_run, hL, hr, hmp, DPtr.isNull, Bool.not_false, if_true, GM.ite_run,
          hsl, GM.pure_run]
        rfl
      have h1 := lift_len_write X (drain_pre X.env b1 b2) s st _ hrun
      have hcapb : s.v.cap ≤ b.slots.length := by rw [hs]; exact physSlots_ge X.env _ _ _ hl h.elem_pos
      have hal : b.lay.align = s.v.align := (make_layout_honest _ _ _ _ hl).2.1
      have hen : en ≤ b.slots.length := by omega
      have : Drain.create X b1 b2 s = (.ok { ptr := .at (dataOff s.v.align), pos := st, stop := en, tailPos := en, tail := es.length - en }, { s with v := { s.v with len := st } }) := by
        unfold Drain.create
        simp only [VM.bind_run, h1, DPtr.isNull, Bool.false_eq_true, if_false, VM.ite_run]
        unfold VM.inb VM.blockAt
        simp [hb, hal, hen]
      rw [this] at hc
      simp at hc
      rw [← hc]
    have hinv : DrainInv X ({ s with v := { s.v with len := st } } : St).v es st en d :=
      { hd := hd, len := rfl, full := by simp only; rw [hv]; exact h, ptr := hptr, lo := by omega, mid := by omega,
        hi := by omega, tp := htp, tl := htl, en_le := hel' }
    obtain ⟨d', hrun, hinv', hw⟩ := drain_protocol X steps _ es st en d hinv
    have hw0 : window d es = (es.take en).drop st := by unfold window; rw [hp, hsp]
    obtain ⟨v', hdrop, habs, hcap, hbid⟩ := drain_drop_spec X hq d' _ es st en hinv'
    rw [hw0] at hrun hw
    rw [hw] at hdrop
    exact ⟨d, _, d', v', hc, rfl, hrun, hdrop, habs, hcap, hbid⟩
  | true =>
    have hnil := (h.sentinel hd).2
    subst hnil
    have hc := drain_create_default X s b1 b2 st en h hd hr
    have hex := drain_exhausted steps { ptr := .null, pos := 0, stop := 0, tailPos := 0, tail := 0 } s (by simp)
    refine ⟨_, s, _, s.v, hc, rfl, by simpa using hex.1, ?_, by simpa using h, rfl, rfl⟩
    rw [drain_drop_exhausted_notail X _ s (by simp) rfl]
    simp [hex.2, afterDrops_nil]

/-- non-vacuity: an accepted range on a three-element vector, and the specification on it -/
example : resolve (.included 1) (.excluded 3) 3 = some (1, 3) := by decide
example : (specSteps [.front, .back, .back, .front] [⟨1, 10⟩, ⟨2, 20⟩]).1 =
    [(some ⟨1, 10⟩, 1), (some ⟨2, 20⟩, 0), (none, 0), (none, 0)] := by decide

end MV.Props

#print axioms MV.Props.drain_protocol
#print axioms MV.Props.drain_drop_spec
#print axioms MV.Props.specSteps_partition
#print axioms MV.Props.specSteps_none_after
#print axioms MV.Props.C10_drain_partial

import MiniVecProof.Proofs.MemLoop
import MiniVecProof.Proofs.MemDrainFilter
/-
  C01 / C17 — the element-appending loops: `extend_from_slice`, `resize`, `resize_with`.
  Each is `reserve(n)` followed by `n` rounds "produce one element, push it"; with the round lemma
  of `Proofs/MemLoop.lean` each refines the `Vec` semantics by values, or stops in a sanctioned way
  (capacity overflow, allocation failure) with the vector well formed. `resize_with`'s generator is
  ANY function of the call number.
-/
namespace MV.Props
open MV MV.Gen MV.GM VM

/-- after `reserve(n)` (whatever it did), `n` rounds of a round-correct body -/
theorem reserve_then_rounds (X : Ctx) (n : Nat) (P : Nat → Elem → Prop) (f : Nat → VM Unit) (hf : RoundSpec X n P f)
    (s : St) (es : List Elem) (h : Abs X s.v es) :
    (∃ l s', (do Vec.reserve X n; VM.forN n f : VM Unit) s = (.ok (), s') ∧ Abs X s'.v (es ++ l) ∧ l.length = n ∧
        ∀ j (hj : j < l.length), P j l[j]) ∨
    (∃ p s' acc', (do Vec.reserve X n; VM.forN n f : VM Unit) s = (.error p, s') ∧ Panic.benign p = true ∧ Abs X s'.v acc') := by
  have hr := reserve_mem X s es n h
  simp only [VM.bind_run]
  generalize Vec.reserve X n s = out at hr
  cases hr with
  | same => exact forN_spec X n P f hf s es h
  | stopped p s' hv hp _ => exact .inr ⟨p, s', es, rfl, hp, by rw [hv]; exact h⟩
  | grown s' habs _ _ _ _ => exact forN_spec X n P f hf s' es habs

/-- (C01) `extend_from_slice`: one value-equal clone per slice element, in order, appended -/
theorem C01_extend_from_slice_partial (X : Ctx) (hq : ∀ k, X.o.panicAt k = false) (elems : List Elem) (s : St)
    (es : List Elem) (h : Abs X s.v es) :
    (∃ new s', Vec.extend_from_slice X elems s = (.ok (), s') ∧ Abs X s'.v (es ++ new) ∧
        new.map (·.val) = elems.map (·.val)) ∨
    (∃ p s' acc', Vec.extend_from_slice X elems s = (.error p, s') ∧ Panic.benign p = true ∧ Abs X s'.v acc') := by
  have hround : RoundSpec X elems.length (fun i e => (elems[i]?).map (·.val) = some e.val) (fun i => do
      let e ← VM.cloneElem X (elems.getD i default)
      Vec.push X e) := by
    intro i s1 acc hi habs
    obtain ⟨s2, hc, hv⟩ := cloneElem_quiet X hq (elems.getD i default) s1
    have hp := push_spec X s2 acc ⟨s1.sys.nextId, (elems.getD i default).val⟩ (by rw [hv]; exact habs)
    simp only [VM.bind_run, hc]
    generalize Vec.push X ⟨s1.sys.nextId, (elems.getD i default).val⟩ s2 = out at hp
    cases hp with
    | pushed s' habs' _ =>
      refine .inl ⟨_, s', rfl, habs', ?_⟩
      simp [List.getD_eq_getElem?_getD, List.getElem?_eq_getElem hi]
    | stopped p s' hv' hb => exact .inr ⟨p, s', rfl, hb, by rw [hv', hv]⟩
  unfold Vec.extend_from_slice
  rcases reserve_then_rounds X elems.length _ _ hround s es h with ⟨l, s', hrun, habs, hl, hP⟩ | hstop
  · refine .inl ⟨l, s', hrun, habs, ?_⟩
    apply List.ext_getElem?
    intro j
    simp only [List.getElem?_map]
    by_cases hj : j < l.length
    · have := hP j hj
      rw [List.getElem?_eq_getElem hj]
      simp only [Option.map_some]
      rw [← this]
    · rw [List.getElem?_eq_none (by omega), List.getElem?_eq_none (by omega)]
  · exact .inr hstop

/-- (C17) `resize_with` with ANY generator: grows by the generated values in call order, or truncates -/
theorem C17_resize_with_partial (X : Ctx) (hq : ∀ k, X.o.panicAt k = false) (newLen : Nat) (g : Nat → Int) (s : St)
    (es : List Elem) (h : Abs X s.v es) :
    (∃ cur s', Vec.resize_with X newLen g s = (.ok (), s') ∧ Abs X s'.v cur ∧
        cur.map (·.val) = (es.take newLen).map (·.val) ++ (List.range (newLen - es.length)).map g) ∨
    (∃ p s' acc', Vec.resize_with X newLen g s = (.error p, s') ∧ Panic.benign p = true ∧ Abs X s'.v acc') := by
  have hL : (hsOf s.v s.sys.allocIdx).L = es.length := h.len_eq
  have h1 : VM.lift X (resize_with_pre X.env newLen) s = (.ok (.cont ⟨newLen, es.length⟩), s) :=
    lift_read X _ s _ (by unfold resize_with_pre; simp only [len_run, GM.bind_run, hL, GM.pure_run])
  unfold Vec.resize_with
  simp only [VM.bind_run, h1]
  by_cases heq : newLen = es.length
  · simp only [heq, if_true, VM.pure_run]
    exact .inl ⟨es, s, rfl, h, by simp⟩
  · simp only [heq, if_false]
    by_cases hgt : newLen > es.length
    · simp only [hgt, if_true]
      have hround : RoundSpec X (newLen - es.length) (fun i e => e.val = g i) (fun k => do
          VM.callback X
          let e ← VM.mkElem (g k)
          Vec.push X e) := by
        intro i s1 acc hi habs
        simp only [VM.bind_run, VM.callback, hq, Bool.false_eq_true, if_false, mkElem_run]
        let s2 : St := { s1 with sys := { s1.sys with cbIdx := s1.sys.cbIdx + 1 } }
        let s3 : St := { s2 with sys := { s2.sys with nextId := s2.sys.nextId + 1 } }
        have hp := push_spec X s3 acc ⟨s2.sys.nextId, g i⟩ habs
        generalize Vec.push X ⟨s2.sys.nextId, g i⟩ s3 = out at hp
        cases hp with
        | pushed s' habs' _ => exact .inl ⟨_, s', rfl, habs', rfl⟩
        | stopped p s' hv' hb => exact .inr ⟨p, s', rfl, hb, hv'⟩
      rcases reserve_then_rounds X (newLen - es.length) _ _ hround s es h with ⟨l, s', hrun, habs, hl, hP⟩ | hstop
      · refine .inl ⟨es ++ l, s', hrun, habs, ?_⟩
        rw [List.take_of_length_le (by omega), List.map_append]
        congr 1
        apply List.ext_getElem?
        intro j
        simp only [List.getElem?_map, List.getElem?_range]
        by_cases hj : j < l.length
        · rw [List.getElem?_eq_getElem hj]
          simp [hP j hj, show j < newLen - es.length by omega]
        · rw [List.getElem?_eq_none (by omega)]
          simp [show ¬ j < newLen - es.length by omega]
      · exact .inr hstop
    · simp only [hgt, if_false]
      obtain ⟨v', ht, habs, _⟩ := truncate_spec X hq s es newLen h
      refine .inl ⟨es.take newLen, _, ht, habs, ?_⟩
      simp [show newLen - es.length = 0 by omega]

/-- (C01) `resize`: grows by value-equal clones of `value`, or truncates; `value` itself is destroyed
    at the end of the call in every case -/
theorem C01_resize_partial (X : Ctx) (hq : ∀ k, X.o.panicAt k = false) (newLen : Nat) (value : Elem) (s : St)
    (es : List Elem) (h : Abs X s.v es) :
    (∃ cur s', Vec.resize X newLen value s = (.ok (), s') ∧ Abs X s'.v cur ∧
        cur.map (·.val) = (es.take newLen).map (·.val) ++ List.replicate (newLen - es.length) value.val) ∨
    (∃ p s' acc', Vec.resize X newLen value s = (.error p, s') ∧ Panic.benign p = true ∧ Abs X s'.v acc') := by
  have hL : (hsOf s.v s.sys.allocIdx).L = es.length := h.len_eq
  have h1 : VM.lift X (resize_pre X.env newLen) s = (.ok (.cont ⟨newLen, es.length⟩), s) :=
    lift_read X _ s _ (by unfold resize_pre; simp only [len_run, GM.bind_run, hL, GM.pure_run])
  -- the body, before `value` is destroyed
  have hbody : (∃ cur s', Vec.resizeBody X newLen value s = (.ok (), s') ∧ Abs X s'.v cur ∧
        cur.map (·.val) = (es.take newLen).map (·.val) ++ List.replicate (newLen - es.length) value.val) ∨
      (∃ p s' acc', Vec.resizeBody X newLen value s = (.error p, s') ∧ Panic.benign p = true ∧ Abs X s'.v acc') := by
    unfold Vec.resizeBody
    simp only [VM.bind_run, h1]
    by_cases heq : newLen = es.length
    · simp only [heq, if_true, VM.pure_run]
      exact .inl ⟨es, s, rfl, h, by simp⟩
    · simp only [heq, if_false]
      by_cases hgt : newLen > es.length
      · simp only [hgt, if_true]
        have hround : RoundSpec X (newLen - es.length) (fun _ e => e.val = value.val) (fun _ => do
            let e ← VM.cloneElem X value
            Vec.push X e) := by
          intro i s1 acc hi habs
          obtain ⟨s2, hc, hv⟩ := cloneElem_quiet X hq value s1
          have hp := push_spec X s2 acc ⟨s1.sys.nextId, value.val⟩ (by rw [hv]; exact habs)
          simp only [VM.bind_run, hc]
          generalize Vec.push X ⟨s1.sys.nextId, value.val⟩ s2 = out at hp
          cases hp with
          | pushed s' habs' _ => exact .inl ⟨_, s', rfl, habs', rfl⟩
          | stopped p s' hv' hb => exact .inr ⟨p, s', rfl, hb, by rw [hv', hv]⟩
        rcases reserve_then_rounds X (newLen - es.length) _ _ hround s es h with ⟨l, s', hrun, habs, hl, hP⟩ | hstop
        · refine .inl ⟨es ++ l, s', hrun, habs, ?_⟩
          rw [List.take_of_length_le (by omega), List.map_append]
          congr 1
          apply List.ext_getElem?
          intro j
          simp only [List.getElem?_map, List.getElem?_replicate]
          by_cases hj : j < l.length
          · rw [List.getElem?_eq_getElem hj]
            simp [hP j hj, show j < newLen - es.length by omega]
          · rw [List.getElem?_eq_none (by omega)]
            simp [show ¬ j < newLen - es.length by omega]
        · exact .inr hstop
      · simp only [hgt, if_false]
        obtain ⟨v', ht, habs, _⟩ := truncate_spec X hq s es newLen h
        refine .inl ⟨es.take newLen, _, ht, habs, ?_⟩
        simp [show newLen - es.length = 0 by omega]
  unfold Vec.resize VM.guarded
  rcases hbody with ⟨cur, s', hrun, habs, hv⟩ | ⟨p, s', acc', hrun, hb, habs⟩
  · rw [hrun]
    simp only [dropElem_quiet' X hq value s']
    exact .inl ⟨cur, _, rfl, habs, hv⟩
  · rw [hrun]
    simp only
    by_cases hu : VM.unwinds p = true
    · simp only [hu, if_true, dropElem_quiet' X hq value s']
      exact .inr ⟨p, _, acc', rfl, hb, habs⟩
    · simp only [hu, Bool.false_eq_true, if_false]
      exact .inr ⟨p, s', acc', rfl, hb, habs⟩

end MV.Props

#print axioms MV.Props.C01_extend_from_slice_partial
#print axioms MV.Props.C17_resize_with_partial
#print axioms MV.Props.C01_resize_partial

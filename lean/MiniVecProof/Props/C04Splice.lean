import MiniVecProof.Props.C10Splice
import MiniVecProof.Props.C04Drain
import MiniVecProof.Props.C04Loops
/-
  C04 — dropping a `Splice` on a vector with storage, at any point of its consumption, under an ARBITRARY panic oracle:
  the destructors of the selected elements not yet yielded, the replacement iterator's `next()` and — while a panic is
  already unwinding — everything the drop guard calls may panic at any call.

  However the drop ends, the outcome is one of: it returns (then the vector is the untouched prefix, the replacement up
  to its first `None`, the untouched suffix); a panic continues to unwind (then the vector is well formed: the prefix
  followed by what had been put in place so far, or the complete result when the panic came from a destructor and the
  guard finished the job); or the process aborts (allocation failure, a second panic while unwinding).
-/
namespace MV.Props
open MV MV.Gen MV.GM VM

/-- dropping a vector that exposes nothing calls no user code -/
theorem dropVec_nil_any (X : Ctx) (s : St) (h : Abs X s.v []) : ∃ s', Vec.dropVec X s = (.ok (), s') := by
  cases hd : s.v.isDefault with
  | true =>
    have h1 : VM.lift X (drop_impl_pre X.env) s = (.ok (.ret 0), s) :=
      lift_read X _ s _ (by simp [drop_impl_pre, hsOf, hd])
    refine ⟨s, ?_⟩
    unfold Vec.dropVec
    simp only [VM.bind_run, h1, VM.pure_run]
  | false =>
    obtain ⟨b, hb, hl, hs, hlc, hel, hinit⟩ := h.alloc hd
    have hl0 : s.v.len = 0 := by simpa using hel.symm
    have h1 : VM.lift X (drop_impl_pre X.env) s = (.ok (.cont ⟨s.v.len, s.v.cap, s.v.align⟩), s) :=
      lift_read X _ s _ (by simp [drop_impl_pre, hsOf, hd, GM.hdrLen, GM.hdrCap, GM.hdrAlign])
    have h2 : VM.lift X (data X.env) s = (.ok (.at (dataOff s.v.align)), s) :=
      lift_read X _ s _ (data_run X.env _ hd b.lay s.v.cap hl)
    have h3 := rdRange_abs X s [] h hd s.v.len 0 (by omega)
    simp only [List.drop_nil, List.take_nil] at h3
    have h5 : VM.lift X (GM.liftE (make_layout X.env s.v.cap s.v.align)) s = (.ok b.lay, s) :=
      lift_read X _ _ _ (by simp [hl])
    have key : (Vec.dropVec X s).1 = .ok () := by
      unfold Vec.dropVec
      simp only [VM.bind_run, h1, h2, h3, VM.dropAll, VM.pure_run, h5, VM.getV_run, hb, if_true]
      rfl
    exact ⟨(Vec.dropVec X s).2, Prod.ext key rfl⟩

/-- what `FillInv` says about the vector as it stands: the prefix and what has been filled in so far -/
theorem FillInv.cur {X : Ctx} {v : VSt} {es items : List Elem} {st en : Nat} (h : FillInv X v es st en items) :
    Abs X v (es.take st ++ items) := by
  have hb1 := h.b1
  have hb2 := h.b2
  have hsh := h.full.shorten (st + items.length) (by simp; omega) (by simpa using h.hd)
  have hv2 : ({ ({ v with len := es.length } : VSt) with len := st + items.length } : VSt) = v := by
    have hl := h.len
    cases hv : v; simp [hv] at *; omega
  rw [hv2] at hsh
  have hlen' : (es.take st ++ items).length = st + items.length := by simp; omega
  rw [List.append_assoc, ← List.append_assoc, List.take_left' hlen'] at hsh
  exact hsh

/-- the hole-filling loop when the replacement's `next()` may panic at any call: it completes as in `fillHole_spec`, or
    it unwinds with the items written so far in place -/
theorem fillHole_any (X : Ctx) (es : List Elem) (st en : Nat) :
    ∀ (n : Nat) (fill : Vec.IterScript) (items : List Elem) (s : St), FillInv X s.v es st en items →
    st + items.length + n = en →
    (∃ s' new, Splice.fillHole X (.at (dataOff s.v.align)) st n items.length fill s =
        (.ok ((fillScan n fill).2.1, (fillScan n fill).2.2), s') ∧
      FillInv X s'.v es st en (items ++ new) ∧ new.map (·.val) = (fillScan n fill).1) ∨
    (∃ s' items', Splice.fillHole X (.at (dataOff s.v.align)) st n items.length fill s = (.error .explicit, s') ∧
      FillInv X s'.v es st en items') := by
  intro n
  induction n with
  | zero =>
    intro fill items s h _
    exact .inl ⟨s, [], by simp [Splice.fillHole, fillScan], by simpa using h, rfl⟩
  | succ n ih =>
    intro fill items s h hn
    unfold Splice.fillHole
    by_cases hp : X.o.panicAt s.sys.cbIdx = true
    · -- `next()` panics before anything is written in this round
      refine .inr ⟨{ s with sys := { s.sys with cbIdx := s.sys.cbIdx + 1 } }, items, ?_, h⟩
      simp only [VM.bind_run, Splice.fillNext, VM.callback, hp, if_true]
    · have hq1 : Splice.fillNext X fill s =
          (match fill with
           | [] => (.ok (none, []), { s with sys := { s.sys with cbIdx := s.sys.cbIdx + 1 } })
           | none :: rest => (.ok (none, rest), { s with sys := { s.sys with cbIdx := s.sys.cbIdx + 1 } })
           | some v :: rest => (.ok (some ⟨s.sys.nextId, v⟩, rest),
               { s with sys := { s.sys with cbIdx := s.sys.cbIdx + 1, nextId := s.sys.nextId + 1 } })) := by
        cases fill with
        | nil => simp [Splice.fillNext, VM.bind_run, VM.callback, hp]
        | cons o rest =>
          cases o with
          | none => simp [Splice.fillNext, VM.bind_run, VM.callback, hp]
          | some v => simp [Splice.fillNext, VM.bind_run, VM.callback, hp, VM.mkElem, VM.freshId]
      cases fill with
      | nil =>
        simp only [VM.bind_run, hq1, VM.pure_run, fillScan]
        exact .inl ⟨_, [], rfl, by simpa using h, rfl⟩
      | cons o rest =>
        cases o with
        | none =>
          simp only [VM.bind_run, hq1, VM.pure_run, fillScan]
          exact .inl ⟨_, [], rfl, by simpa using h, rfl⟩
        | some v =>
          simp only [VM.bind_run, hq1, fillScan]
          let s1 : St := { s with sys := { s.sys with cbIdx := s.sys.cbIdx + 1, nextId := s.sys.nextId + 1 } }
          have hb2 := h.b2
          have hidx : st + items.length < (es.take st ++ items ++ es.drop (st + items.length)).length := by
            simp; omega
          obtain ⟨v', hw, habs', hc, hd', hal, hl', hb⟩ :=
            wr_full X s1 es.length _ h.full h.hd (st + items.length) hidx ⟨s.sys.nextId, v⟩
          obtain ⟨x, tl, hx1, hx2⟩ : ∃ x tl, es.drop (st + items.length) = x :: tl ∧ es.drop (st + items.length + 1) = tl :=
            ⟨_, _, List.drop_eq_getElem_cons (l := es) (by omega), rfl⟩
          have hset : (es.take st ++ items ++ es.drop (st + items.length)).set (st + items.length) ⟨s.sys.nextId, v⟩ =
              es.take st ++ (items ++ [⟨s.sys.nextId, v⟩]) ++ es.drop (st + (items ++ [(⟨s.sys.nextId, v⟩ : Elem)]).length) := by
            have hl1 : st + (items ++ [(⟨s.sys.nextId, v⟩ : Elem)]).length = st + items.length + 1 := by simp; omega
            rw [hl1, hx1, hx2]
            have hlen : (es.take st ++ items).length = st + items.length := by simp; omega
            rw [← hlen, set_middle]
            simp
          rw [hset] at habs'
          have hwl : VM.wr (.at (dataOff s.v.align)) (st + items.length) ⟨s.sys.nextId, v⟩ s1 = (.ok (), { s1 with v := v' }) := hw
          rw [hwl]
          simp only
          have hW : v'.len + 1 < W := by
            have hcw := h.full.cap_lt_W (by simpa using h.hd)
            obtain ⟨_, _, _, _, hlc, _, _⟩ := h.full.alloc (by simpa using h.hd)
            simp only at hlc hcw
            have h1 := h.len
            have h2 := h.b1
            have h3 : v'.len = s.v.len := hl'
            omega
          rw [hdrLenAdd_run X { s1 with v := v' } 1 hd' hW]
          simp only
          have hinv' : FillInv X ({ ({ s1 with v := v' } : St) with v := { v' with len := v'.len + 1 } } : St).v es st en
              (items ++ [⟨s.sys.nextId, v⟩]) :=
            { hd := hd', len := by have h1 := h.len; have h3 : v'.len = s.v.len := hl'; simp; omega, full := habs',
              b1 := by simp; omega, b2 := hb2 }
          have hlen1 : (items ++ [(⟨s.sys.nextId, v⟩ : Elem)]).length = items.length + 1 := by simp
          have hal' : dataOff v'.align = dataOff s.v.align := by rw [hal]
          rcases ih rest (items ++ [⟨s.sys.nextId, v⟩]) _ hinv' (by simp; omega) with
            ⟨s', new, hrun, hinv'', hv⟩ | ⟨s', items', hrun, hinv''⟩
          · rw [hlen1] at hrun
            have hrun' : Splice.fillHole X (.at (dataOff s.v.align)) st n (items.length + 1) rest
                ({ ({ s1 with v := v' } : St) with v := { v' with len := v'.len + 1 } } : St) =
                (.ok ((fillScan n rest).2.1, (fillScan n rest).2.2), s') := by rw [← hal']; exact hrun
            exact .inl ⟨s', ⟨s.sys.nextId, v⟩ :: new, hrun', by simpa using hinv'', by simp [hv]⟩
          · rw [hlen1] at hrun
            have hrun' : Splice.fillHole X (.at (dataOff s.v.align)) st n (items.length + 1) rest
                ({ ({ s1 with v := v' } : St) with v := { v' with len := v'.len + 1 } } : St) =
                (.error .explicit, s') := by rw [← hal']; exact hrun
            exact .inr ⟨s', items', hrun', hinv''⟩

/-- the hole is full, the rest of the replacement is collected and inserted — `next()` and (while the temporary is
    unwound) destructors may panic -/
theorem insertRest_any (X : Ctx) (s : St) (es items : List Elem) (st en : Nat)
    (d : DrainSt) (fill : Vec.IterScript) (h : FillInv X s.v es st en items) (hfull : st + items.length = en)
    (htp : d.tailPos = en) (htl : d.tail = es.length - en) :
    (∃ s' new, Splice.insertRest X d fill s = (.ok (), s') ∧ Abs X s'.v (es.take st ++ items ++ new ++ es.drop en) ∧
        new.map (·.val) = takeSome fill) ∨
    (∃ p s' cur, Splice.insertRest X d fill s = (.error p, s') ∧ Panic.benign p = true ∧ Abs X s'.v cur) := by
  have hz := h.full.elem_pos
  have hcur : Abs X s.v (es.take st ++ items) := h.cur
  unfold Splice.insertRest
  simp only [VM.bind_run]
  rcases C04_collect_any X fill s hz with ⟨tmp, s1, ts, hc, hv1, habst, hvals⟩ | ⟨p, s1, hc, hbn, hv1⟩
  · rw [hc]
    simp only
    have hinv1 : FillInv X s1.v es st en items := h.of_v hv1
    have hbody : (∃ s2, Splice.insertBody X d tmp s1 = (.ok (), s2) ∧ Abs X s2.v (es.take st ++ items ++ ts ++ es.drop en)) ∨
        (∃ p s2 cur, Splice.insertBody X d tmp s1 = (.error p, s2) ∧ Panic.benign p = true ∧ Abs X s2.v cur) := by
      unfold Splice.insertBody
      simp only [VM.bind_run]
      rcases makeRoom_spec X s1 es items ts st en d tmp hinv1 hfull htl habst with ⟨s2, hr, hroom⟩ | ⟨p, s2, cur, hr, hbn, hab⟩
      · rw [hr]
        simp only
        obtain ⟨v', hp, habs', _⟩ := placeRest_spec X s2 es items ts st en d tmp hroom htp htl habst
        exact .inl ⟨_, hp, habs'⟩
      · rw [hr]; exact .inr ⟨p, s2, cur, rfl, hbn, hab⟩
    rcases hbody with ⟨s2, hb, habs2⟩ | ⟨p, s2, cur, hb, hbn, hab⟩
    · unfold VM.onUnwind
      rw [hb]
      simp only
      rw [onVec_len X tmp ts habst s2]
      simp only
      by_cases htz : ts.length = 0
      · have hnil : ts = [] := List.eq_nil_of_length_eq_zero htz
        subst hnil
        have e1 : VM.onVec tmp (pure () : VM Unit) s2 = (.ok ((), tmp), s2) := onVec_read tmp _ s2 _ rfl
        simp only [List.length_nil, ne_eq, not_true_eq_false, if_false, e1]
        obtain ⟨s3, hd3⟩ := dropVec_nil_any X { s2 with v := tmp } habst
        rw [onVec_ok tmp (Vec.dropVec X) s2 _ _ hd3]
        exact .inl ⟨_, [], rfl, by simpa using habs2, by rw [← hvals]⟩
      · have hdt : tmp.isDefault = false := by
          cases hdt : tmp.isDefault
          · rfl
          · have := (habst.sentinel hdt).2; subst this; simp at htz
        have e1 := lift_set_len X 0 { s2 with v := tmp } hdt
        simp only [ne_eq, htz, not_false_eq_true, if_true]
        rw [onVec_ok tmp _ s2 _ _ e1]
        simp only
        have habs0 : Abs X ({ tmp with len := 0 } : VSt) [] := by simpa using habst.shorten 0 (by omega) hdt
        obtain ⟨s3, hd3⟩ := dropVec_nil_any X
          { ({ ({ s2 with v := tmp } : St) with v := { tmp with len := 0 } } : St) with v := { tmp with len := 0 } } habs0
        have hd3' : Vec.dropVec X { ({ ({ ({ s2 with v := tmp } : St) with v := ({ tmp with len := 0 } : VSt) } : St) with v := s2.v } : St) with v := ({ tmp with len := 0 } : VSt) } = (.ok (), s3) := hd3
        rw [onVec_ok _ (Vec.dropVec X) _ _ _ hd3']
        exact .inl ⟨_, ts, rfl, habs2, hvals⟩
    · unfold VM.onUnwind
      rw [hb]
      simp only
      by_cases hu : VM.unwinds p = true
      · simp only [hu, if_true, VM.bind_run]
        -- the temporary is destroyed while the panic unwinds: a destructor panic there is the abort
        obtain ⟨r3, s3, hd3, hr3⟩ := dropVec_any X { s2 with v := tmp } ts habst
        rcases hr3 with rfl | rfl | rfl
        · rw [onVec_ok tmp (Vec.dropVec X) s2 _ _ hd3]
          simp only [VM.pure_run]
          exact .inr ⟨p, _, cur, rfl, hbn, hab⟩
        · have : VM.onVec tmp (Vec.dropVec X) s2 = (.error .explicit, { s3 with v := s2.v }) := by
            unfold VM.onVec; rw [hd3]
          rw [this]
          simp only [VM.unwinds, if_true]
          exact .inr ⟨.doublePanic, _, cur, rfl, rfl, hab⟩
        · have : VM.onVec tmp (Vec.dropVec X) s2 = (.error .doublePanic, { s3 with v := s2.v }) := by
            unfold VM.onVec; rw [hd3]
          rw [this]
          simp only [VM.unwinds]
          exact .inr ⟨.doublePanic, _, cur, rfl, rfl, hab⟩
      · simp only [hu, Bool.false_eq_true, if_false]
        exact .inr ⟨p, s2, cur, rfl, hbn, hab⟩
  · rw [hc]
    exact .inr ⟨p, s1, es.take st ++ items, rfl, hbn, by rw [hv1]; exact hcur⟩

/-- `DropGuard::drop` of a Splice on a vector with storage, once the drained elements are gone, under any oracle -/
theorem refill_any (X : Ctx) (s : St) (es : List Elem) (st en : Nat) (d : DrainSt)
    (fill : Vec.IterScript) (hd : s.v.isDefault = false) (hlen : s.v.len = st)
    (hfull : Abs X { s.v with len := es.length } es) (hse : st ≤ en) (hel : en ≤ es.length)
    (htp : d.tailPos = en) (htl : d.tail = es.length - en) :
    (∃ s' new, Splice.refill X d fill s = (.ok (), s') ∧ Abs X s'.v (es.take st ++ new ++ es.drop en) ∧
        new.map (·.val) = takeSome fill) ∨
    (∃ p s' cur, Splice.refill X d fill s = (.error p, s') ∧ Panic.benign p = true ∧ Abs X s'.v cur) := by
  obtain ⟨b, hb, hl, hsl, hlc, _, _⟩ := hfull.alloc (by simpa using hd)
  simp only at hb hl hlc
  have hal : b.lay.align = s.v.align := (make_layout_honest _ _ _ _ hl).2.1
  have hcapb : s.v.cap ≤ b.slots.length := by rw [hsl]; exact physSlots_ge X.env _ _ _ hl hfull.elem_pos
  have hL : (hsOf s.v s.sys.allocIdx).L = st := by simp [GS.L, hsOf, hd, hlen]
  have h1 : VM.lift X (as_mut_ptr X.env) s = (.ok (.at (dataOff s.v.align)), s) :=
    lift_read X _ s _ (as_mut_ptr_run X.env _ (by simp [hsOf, hd]) b.lay s.v.cap (by simpa [hsOf] using hl))
  have h2 : VM.lift X (len X.env) s = (.ok st, s) := lift_read X _ s _ (by rw [len_run, hL])
  have h3 := inb_blk s b hb st (by omega)
  rw [hal] at h3
  have hinv0 : FillInv X s.v es st en [] :=
    { hd := hd, len := by simpa using hlen, full := by simpa using hfull, b1 := by simpa using hse, b2 := hel }
  obtain ⟨hle, hfalse, htrue⟩ := fillScan_takeSome (en - st) fill
  unfold Splice.refill
  simp only [VM.bind_run, h1, h2, h3, htp]
  rcases fillHole_any X es st en (en - st) fill [] s hinv0 (by simp; omega) with
    ⟨s1, new, hrun, hinv1, hv⟩ | ⟨s1, items', hrun, hinv1⟩
  · simp only [List.length_nil, List.nil_append] at hrun hinv1
    rw [hrun]
    simp only
    cases hbf : (fillScan (en - st) fill).2.1 with
    | false =>
      obtain ⟨e1, e2⟩ := hfalse hbf
      simp only [Bool.not_false, if_true]
      have hnl : new.length = (fillScan (en - st) fill).1.length := by rw [← hv]; simp
      obtain ⟨v', hcg, habs, _, _⟩ := closeGap_spec X s1 es new st en d hinv1 (by omega) htp htl
      rw [hcg]
      exact .inl ⟨_, new, rfl, habs, by rw [hv, e1]⟩
    | true =>
      obtain ⟨e1, e2⟩ := htrue hbf
      simp only [Bool.not_true, Bool.false_eq_true, if_false]
      have hnl : new.length = (fillScan (en - st) fill).1.length := by rw [← hv]; simp
      rcases insertRest_any X s1 es new st en d _ hinv1 (by omega) htp htl with
        ⟨s2, new2, hr, habs, hv2⟩ | ⟨p, s2, cur, hr, hbn, hab⟩
      · rw [hr]
        refine .inl ⟨s2, new ++ new2, rfl, by simpa [List.append_assoc] using habs, ?_⟩
        rw [List.map_append, hv, hv2, e1]
      · rw [hr]
        exact .inr ⟨p, s2, cur, rfl, hbn, hab⟩
  · simp only [List.length_nil] at hrun
    rw [hrun]
    exact .inr ⟨.explicit, s1, _, rfl, rfl, hinv1.cur⟩

/-- the guard of a Splice (vector with storage) at any point, under any oracle -/
theorem splice_guard_any (X : Ctx) (sp : SpliceSt) (s : St) (es : List Elem) (st en : Nat)
    (h : DrainInv X s.v es st en sp.d) :
    (∃ s' new, Splice.guardBody X sp s = (.ok (), s') ∧ Abs X s'.v (es.take st ++ new ++ es.drop en) ∧
        new.map (·.val) = takeSome sp.fill) ∨
    (∃ p s' cur, Splice.guardBody X sp s = (.error p, s') ∧ Panic.benign p = true ∧ Abs X s'.v cur) := by
  obtain ⟨r1, s1, hrun, hv, hcase⟩ :=
    dropRest_any X (sp.d.stop - sp.d.pos) (sp.d.stop - sp.d.pos + 1) sp.d s es st en h rfl (by omega)
  have hcur0 : Abs X s.v (es.take st) := by
    have hsh := h.full.shorten st (by have := h.lo; have := h.mid; have := h.hi; have := h.en_le; omega) (by simpa using h.hd)
    have hv2 : ({ ({ s.v with len := es.length } : VSt) with len := st } : VSt) = s.v := by
      have hl := h.len
      cases hvv : s.v; simp [hvv] at *; omega
    rw [hv2] at hsh; exact hsh
  unfold Splice.guardBody
  simp only [VM.bind_run, hrun]
  rcases hcase with ⟨rfl, _⟩ | ⟨rfl, _⟩
  · simp only
    have hd1 : s1.v.isDefault = false := by rw [hv]; exact h.hd
    have hdf : VM.lift X GM.isDefault s1 = (.ok false, s1) := by
      rw [lift_isDefault]; exact congrArg (fun b => (Except.ok b, s1)) hd1
    simp only [hdf, Bool.false_eq_true, if_false]
    exact refill_any X s1 es st en { sp.d with pos := sp.d.stop } sp.fill hd1 (by rw [hv]; exact h.len)
      (by rw [hv]; exact h.full) (by have := h.lo; have := h.mid; have := h.hi; omega) h.en_le h.tp h.tl
  · exact .inr ⟨.explicit, s1, es.take st, rfl, rfl, by rw [hv]; exact hcur0⟩

/-- `Drop for Splice`, first loop, under any oracle: all remaining selected elements are destroyed and the loop returns;
    or a destructor panicked, the guard finished the job (or stopped itself) and the outcome is settled -/
theorem splice_dropLoop_any (X : Ctx) (n : Nat) :
    ∀ (fuel : Nat) (sp : SpliceSt) (s : St) (es : List Elem) (st en : Nat), DrainInv X s.v es st en sp.d →
      sp.d.stop - sp.d.pos = n → n < fuel →
      (∃ s', Splice.dropLoop X fuel sp s = (.ok { sp with d := { sp.d with pos := sp.d.stop } }, s') ∧ s'.v = s.v) ∨
      (∃ p s', Splice.dropLoop X fuel sp s = (.error p, s') ∧ Panic.benign p = true ∧
        (VM.unwinds p = true → ∃ cur, Abs X s'.v cur)) := by
  induction n with
  | zero =>
    intro fuel sp s es st en h hn hf
    have hge : sp.d.pos ≥ sp.d.stop := by omega
    have heq : sp.d.pos = sp.d.stop := by have := h.mid; omega
    cases fuel with
    | zero => omega
    | succ fuel =>
      refine .inl ⟨s, ?_, rfl⟩
      unfold Splice.dropLoop
      simp only [VM.bind_run, (drain_next_none sp.d s hge).1, VM.pure_run, drainSt_pos_eq sp.d heq]
  | succ n ih =>
    intro fuel sp s es st en h hn hf
    have hlt : sp.d.pos < sp.d.stop := by omega
    have hs : sp.d.stop ≤ es.length := by have := h.hi; have := h.en_le; omega
    cases fuel with
    | zero => omega
    | succ fuel =>
      obtain ⟨r1, s1, hd1, hv1, hr1, _⟩ := dropElem_any X (es[sp.d.pos]'(by omega)) s
      have hinv' : DrainInv X s1.v es st en ({ sp with d := { sp.d with pos := sp.d.pos + 1 } } : SpliceSt).d :=
        ({ h with lo := by have := h.lo; simp; omega, mid := by simp; omega } :
          DrainInv X s.v es st en { sp.d with pos := sp.d.pos + 1 }).of_v hv1
      unfold Splice.dropLoop
      simp only [VM.bind_run, drain_next_some h hlt, VM.onUnwind, hd1]
      rcases hr1 with rfl | rfl
      · simp only
        rcases ih fuel { sp with d := { sp.d with pos := sp.d.pos + 1 } } s1 es st en hinv' (by simp; omega) (by omega) with
          ⟨s2, hrun2, hv2⟩ | ⟨p, s2, hrun2, hb2, hab2⟩
        · exact .inl ⟨s2, hrun2, by rw [hv2, hv1]⟩
        · exact .inr ⟨p, s2, hrun2, hb2, hab2⟩
      · -- the destructor panicked: the guard runs while the panic unwinds
        have hue : VM.unwinds Panic.explicit = true := rfl
        simp only [hue, if_true]
        rcases splice_guard_any X { sp with d := { sp.d with pos := sp.d.pos + 1 } } s1 es st en hinv' with
          ⟨sg, new, hg, habs, _⟩ | ⟨p, sg, cur, hg, hbn, hab⟩
        · rw [hg]
          exact .inr ⟨.explicit, sg, rfl, rfl, fun _ => ⟨_, habs⟩⟩
        · rw [hg]
          simp only
          by_cases hu : VM.unwinds p = true
          · simp only [hu, if_true]
            exact .inr ⟨.doublePanic, sg, rfl, rfl, fun hh => by simp [VM.unwinds] at hh⟩
          · simp only [hu, Bool.false_eq_true, if_false]
            exact .inr ⟨p, sg, rfl, hbn, fun hh => absurd hh hu⟩

/-- **(C04, Splice) dropping a `Splice` on a vector with storage at any point of its consumption, under ANY panic
    oracle**: it returns with the vector equal to prefix ++ replacement ++ suffix; or a panic continues and the vector
    is well formed; or the process aborts (allocation failure, second panic while unwinding) -/
theorem C04_splice_drop_partial (X : Ctx) (sp : SpliceSt) (s : St) (es : List Elem) (st en : Nat)
    (h : DrainInv X s.v es st en sp.d) :
    (∃ s' new, Splice.drop X sp s = (.ok (), s') ∧ Abs X s'.v (es.take st ++ new ++ es.drop en) ∧
        new.map (·.val) = takeSome sp.fill) ∨
    (∃ p s', Splice.drop X sp s = (.error p, s') ∧ Panic.benign p = true ∧
        (VM.unwinds p = true → ∃ cur, Abs X s'.v cur)) := by
  unfold Splice.drop
  simp only [VM.bind_run]
  rcases splice_dropLoop_any X (sp.d.stop - sp.d.pos) (sp.d.stop - sp.d.pos + 1) sp s es st en h rfl (by omega) with
    ⟨s1, hrun, hv⟩ | ⟨p, s1, hrun, hb, hab⟩
  · rw [hrun]
    simp only
    have hinv' : DrainInv X s1.v es st en ({ sp with d := { sp.d with pos := sp.d.stop } } : SpliceSt).d :=
      ({ h with lo := by have := h.lo; have := h.mid; simp; omega, mid := by simp } :
        DrainInv X s.v es st en { sp.d with pos := sp.d.stop }).of_v hv
    rcases splice_guard_any X { sp with d := { sp.d with pos := sp.d.stop } } s1 es st en hinv' with
      ⟨sg, new, hg, habs, hvals⟩ | ⟨p, sg, cur, hg, hbn, hab⟩
    · exact .inl ⟨sg, new, hg, habs, hvals⟩
    · exact .inr ⟨p, sg, hg, hbn, fun _ => ⟨cur, hab⟩⟩
  · rw [hrun]
    exact .inr ⟨p, s1, rfl, hb, hab⟩

/-- **… and on a never-allocated vector** (nothing was selected; the guard pushes the replacement): under any oracle the
    vector ends up holding what the replacement produced before it stopped — all of it, up to its first `None`, when the
    drop returns -/
theorem C04_splice_drop_default_partial (X : Ctx) (fill : Vec.IterScript) (s : St) (h : Abs X s.v [])
    (hd : s.v.isDefault = true) :
    ∃ r s' new, Splice.drop X { d := { ptr := .null, pos := 0, stop := 0, tailPos := 0, tail := 0 }, fill := fill } s = (r, s') ∧
      Abs X s'.v new ∧ new.map (·.val) = (takeSome fill).take new.length ∧
      (match r with | .ok _ => new.map (·.val) = takeSome fill | .error p => Panic.benign p = true) := by
  let d0 : DrainSt := { ptr := .null, pos := 0, stop := 0, tailPos := 0, tail := 0 }
  have hn := (drain_next_none d0 s (by simp [d0])).1
  have hdl : Splice.dropLoop X (d0.stop - d0.pos + 1) { d := d0, fill := fill } s = (.ok { d := d0, fill := fill }, s) := by
    show Splice.dropLoop X (0 + 1) { d := d0, fill := fill } s = _
    unfold Splice.dropLoop
    simp only [VM.bind_run, hn, VM.pure_run]
  have hdr : Drain.dropRest X (d0.stop - d0.pos + 1) d0 s = (.ok d0, s) := by
    show Drain.dropRest X (0 + 1) d0 s = _
    unfold Drain.dropRest
    simp only [VM.bind_run, hn, VM.pure_run]
  have hdf : VM.lift X GM.isDefault s = (.ok true, s) := by rw [lift_isDefault, hd]
  have hdrop : Splice.drop X { d := d0, fill := fill } s =
      (do let _ ← Vec.forIter X (Vec.push X) (fill.length + 1) fill; pure () : VM Unit) s := by
    unfold Splice.drop
    simp only [VM.bind_run]
    rw [hdl]
    simp only
    unfold Splice.guardBody
    simp only [VM.bind_run, hdr, hdf, if_true]
  show ∃ r s' new, Splice.drop X { d := d0, fill := fill } s = (r, s') ∧ _
  rw [hdrop]
  simp only [VM.bind_run]
  obtain ⟨r, s', new, hrun, habs, hv, hr⟩ := forIter_push_any X fill (fill.length + 1) s [] (by omega) h
  rw [hrun]
  cases r with
  | ok rest => exact ⟨.ok (), s', new, rfl, by simpa using habs, hv, hr.1⟩
  | error p => exact ⟨.error p, s', new, rfl, by simpa using habs, hv, hr⟩

/-- non-vacuity: an oracle under which the third callback panics -/
example : (fun k => k == 2 : Nat → Bool) 2 = true := rfl

end MV.Props

#print axioms MV.Props.fillHole_any
#print axioms MV.Props.insertRest_any
#print axioms MV.Props.refill_any
#print axioms MV.Props.splice_guard_any
#print axioms MV.Props.C04_splice_drop_partial
#print axioms MV.Props.C04_splice_drop_default_partial

import MiniVecProof.Props.C01Histories
import MiniVecProof.Props.C04Dedup
import MiniVecProof.Props.C04Splice
import MiniVecProof.Props.C04DrainFilter
import MiniVecProof.Props.C03World
/-
  C04 over histories (PARTIAL: the single-vector histories of `HOp`, 25 operation kinds).

  For EVERY finite history over the twelve base operations, `extend`, `extend_from_slice`, `resize`, `resize_with`,
  `dedup` / `dedup_by` / `dedup_by_key`, `remove_item`, `extend_from_within`, `drain(range)` / `drain_filter(pred)` /
  `splice(range, replacement)` with any steps before the iterator is dropped — under an ARBITRARY panic oracle: any
  subset of the invocations of user code (predicates, key and generator closures, `Clone`, `PartialEq`, source and
  replacement iterators, destructors, also while an iterator is being dropped) panics.

  The history runs to its end, or stops at the first operation that does not return; in either case, unless the
  process aborted (allocation failure, a second panic while unwinding), the vector is well formed (`Abs`): every element
  it exposes is live and exposed once, and the history can go on from there — which is how the induction proceeds.
-/
namespace MV.Props
open MV MV.Gen MV.GM VM

/-- how an operation can end under any oracle, and what the vector looks like then -/
def Valid (X : Ctx) {α} (r : Except Panic α) (s' : St) : Prop :=
  match r with
  | .ok _ => ∃ es', Abs X s'.v es'
  | .error p => Panic.benign p = true ∧ (VM.unwinds p = true → ∃ es', Abs X s'.v es')

theorem Valid.ok {X : Ctx} {α} {a : α} {s' : St} {es' : List Elem} (h : Abs X s'.v es') : Valid X (.ok a) s' := ⟨es', h⟩

theorem Valid.err {X : Ctx} {α} {p : Panic} {s' : St} {es' : List Elem} (hb : Panic.benign p = true) (h : Abs X s'.v es') :
    Valid X (.error p : Except Panic α) s' := ⟨hb, fun _ => ⟨es', h⟩⟩

theorem Valid.abort {X : Ctx} {α} {s' : St} : Valid X (.error .doublePanic : Except Panic α) s' :=
  ⟨rfl, fun h => by simp [VM.unwinds] at h⟩

theorem Valid.ofDrop {X : Ctx} {r : Except Panic Unit} {s' : St} {es' : List Elem} (hr : DropOutcome r) (h : Abs X s'.v es') :
    Valid X r s' := by
  cases hr with
  | ok => exact .ok h
  | panicked => exact .err rfl h
  | aborted => exact .abort

/-- `Valid` through a final `pure` -/
theorem Valid.bind_pure {X : Ctx} {α β} (x : VM α) (f : α → β) (s : St)
    (h : ∃ r s', x s = (r, s') ∧ Valid X r s') :
    ∃ r s', (do let a ← x; pure (f a) : VM β) s = (r, s') ∧ Valid X r s' := by
  obtain ⟨r, s', hrun, hv⟩ := h
  cases r with
  | ok a => exact ⟨.ok (f a), s', by simp only [VM.bind_run, hrun]; rfl, hv⟩
  | error p => exact ⟨.error p, s', by simp only [VM.bind_run, hrun], hv⟩

theorem capMem_valid (X : Ctx) (s : St) (es : List Elem) (x : VM Unit) (habs0 : Abs X s.v es) (h : CapMem X s es (x s)) :
    ∃ r s', x s = (r, s') ∧ Valid X r s' := by
  generalize x s = out at h
  cases h with
  | same => exact ⟨_, s, rfl, .ok habs0⟩
  | stopped p s' hv hp _ => exact ⟨_, s', rfl, .err hp (by rw [hv]; exact habs0)⟩
  | grown s' habs _ _ _ _ => exact ⟨_, s', rfl, .ok habs⟩

/-- the twelve base operations under any oracle (only `truncate`, `clear` and `retain` call user code) -/
theorem POp.any (X : Ctx) (op : POp) (s : St) (es : List Elem) (h : Abs X s.v es) :
    ∃ r s', op.run X s = (r, s') ∧ Valid X r s' := by
  cases op with
  | push e =>
    have := push_spec X s es e h
    simp only [POp.run]
    apply Valid.bind_pure
    generalize Vec.push X e s = out at this
    cases this with
    | pushed s' habs _ => exact ⟨_, s', rfl, .ok habs⟩
    | stopped p s' hv hp => exact ⟨_, s', rfl, .err hp (by rw [hv]; exact h)⟩
  | pop =>
    have ⟨h1, h2⟩ := pop_spec X s es h
    simp only [POp.run]
    rcases List.eq_nil_or_concat es with hnil | ⟨es', e, he⟩
    · exact ⟨_, s, h1 hnil, .ok h⟩
    · have he' : es = es' ++ [e] := by simpa using he
      obtain ⟨v', hr, habs, _, _⟩ := h2 es' e he'
      exact ⟨_, _, hr, .ok habs⟩
  | truncate n =>
    obtain ⟨r, s', hrun, hr, habs, _⟩ := C04_truncate_partial X s es n h
    simp only [POp.run]
    exact Valid.bind_pure _ _ s ⟨r, s', hrun, .ofDrop hr habs⟩
  | clear =>
    obtain ⟨r, s', hrun, hr, habs, _⟩ := C04_clear_partial X s es h
    simp only [POp.run]
    exact Valid.bind_pure _ _ s ⟨r, s', hrun, .ofDrop hr habs⟩
  | reserve n => simp only [POp.run]; exact Valid.bind_pure _ _ s (capMem_valid X s es _ h (reserve_mem X s es n h))
  | reserve_exact n => simp only [POp.run]; exact Valid.bind_pure _ _ s (capMem_valid X s es _ h (reserve_exact_mem X s es n h))
  | shrink_to n => simp only [POp.run]; exact Valid.bind_pure _ _ s (capMem_valid X s es _ h (shrink_to_mem X s es n h))
  | shrink_to_fit => simp only [POp.run]; exact Valid.bind_pure _ _ s (capMem_valid X s es _ h (shrink_to_fit_mem X s es h))
  | insert i e =>
    have := (insert_spec X s es i e h).1
    simp only [POp.run]
    apply Valid.bind_pure
    generalize Vec.insert X i e s = out at this
    cases this with
    | inserted s' _ habs => exact ⟨_, s', rfl, .ok habs⟩
    | stopped p s' hv hp => exact ⟨_, s', rfl, .err hp (by rw [hv]; exact h)⟩
  | remove i =>
    simp only [POp.run]
    apply Valid.bind_pure
    by_cases hi : i < es.length
    · obtain ⟨v', hrun, habs, _⟩ := remove_spec X s es i h hi
      exact ⟨_, _, hrun, .ok habs⟩
    · -- outside the documented limits: a panic before anything is touched
      have hL : (hsOf s.v s.sys.allocIdx).L = es.length := h.len_eq
      have h1 : VM.lift X (remove_pre X.env i) s = (.error .explicit, s) :=
        lift_read X _ s _ (by rw [C11_remove, hL, if_pos (by omega)])
      refine ⟨.error .explicit, s, ?_, .err rfl h⟩
      unfold Vec.remove
      simp only [VM.bind_run, h1]
  | swap_remove i =>
    simp only [POp.run]
    apply Valid.bind_pure
    by_cases hi : i < es.length
    · obtain ⟨v', hrun, habs, _⟩ := swap_remove_spec X s es i h hi
      exact ⟨_, _, hrun, .ok habs⟩
    · have hL : (hsOf s.v s.sys.allocIdx).L = es.length := h.len_eq
      have h1 : VM.lift X (swap_remove_pre X.env i) s = (.error .explicit, s) :=
        lift_read X _ s _ (by rw [C11_swap_remove, hL, if_pos (by omega)])
      refine ⟨.error .explicit, s, ?_, .err rfl h⟩
      unfold Vec.swap_remove
      simp only [VM.bind_run, h1]
  | retain f =>
    obtain ⟨r, s', cur, gone, hrun, hr, habs, _⟩ := C04_retain_partial X f s es h
    simp only [POp.run]
    exact Valid.bind_pure _ _ s ⟨r, s', hrun, .ofDrop hr habs⟩

/-! ### `remove_item` when `PartialEq::eq` may panic -/

theorem eqElem_any (X : Ctx) (a b : Elem) (s : St) :
    ∃ r s', Vec.eqElem X a b s = (r, s') ∧ s'.v = s.v ∧ ((∃ m, r = .ok m) ∨ r = .error .explicit) := by
  simp only [Vec.eqElem, VM.callback]
  by_cases hp : X.o.panicAt s.sys.cbIdx = true
  · simp only [hp, if_true]
    exact ⟨_, _, rfl, rfl, .inr rfl⟩
  · simp only [hp, Bool.false_eq_true, if_false]
    exact ⟨_, _, rfl, rfl, .inl ⟨_, rfl⟩⟩

theorem remove_item_go_any (X : Ctx) (probe : Elem) (es : List Elem) :
    ∀ (fuel i : Nat) (s : St), Abs X s.v es → i + fuel = es.length →
    ∃ r s', Vec.remove_item.go X probe fuel i s = (r, s') ∧ Valid X r s' := by
  intro fuel
  induction fuel with
  | zero =>
    intro i s h _
    exact ⟨.ok none, s, by simp [Vec.remove_item.go], .ok h⟩
  | succ fuel ih =>
    intro i s h hi
    have hlt : i < es.length := by omega
    have h1 := readOf_spec X s.v es h i hlt s
    obtain ⟨r, s1, he, hv1, hr⟩ := eqElem_any X es[i] probe s
    unfold Vec.remove_item.go
    simp only [VM.bind_run, VM.getV_run, h1, he]
    rcases hr with ⟨m, rfl⟩ | rfl
    · cases m with
      | true =>
        simp only [if_true]
        obtain ⟨v', hrun, habs, _, _⟩ := remove_spec X s1 es i (by rw [hv1]; exact h) hlt
        simp only [VM.bind_run, hrun, VM.pure_run]
        exact ⟨_, _, rfl, .ok habs⟩
      | false =>
        simp only [Bool.false_eq_true, if_false]
        exact ih (i + 1) s1 (by rw [hv1]; exact h) (by omega)
    · exact ⟨_, s1, rfl, .err rfl (by rw [hv1]; exact h)⟩

theorem remove_item_any (X : Ctx) (probe : Elem) (s : St) (es : List Elem) (h : Abs X s.v es) :
    ∃ r s', Vec.remove_item X probe s = (r, s') ∧ Valid X r s' := by
  have hL : (hsOf s.v s.sys.allocIdx).L = es.length := h.len_eq
  have h1 : VM.lift X (remove_item_pre X.env) s = (.ok (.cont ⟨es.length⟩), s) :=
    lift_read X _ s _ (by unfold remove_item_pre; simp only [len_run, GM.bind_run, hL, GM.pure_run])
  unfold Vec.remove_item
  simp only [VM.bind_run, h1]
  exact remove_item_go_any X probe es es.length 0 s h (by omega)

/-! ### `extend_from_within` when `Clone` may panic -/

/-- the cloning loop under its guard: it completes, or the guard publishes the clones made so far -/
theorem efw_go_any (X : Ctx) (es : List Elem) (cap : Nat) :
    ∀ (fuel i : Nat) (acc : List Elem) (s : St), Abs X { s.v with len := es.length + acc.length } (es ++ acc) →
    s.v.isDefault = false → s.v.cap = cap → i + fuel ≤ es.length → es.length + acc.length + fuel ≤ cap →
    (∃ s' new, Vec.efwGo X es.length cap (.at (dataOff s.v.align)) fuel i acc.length s =
        (.ok (acc.length + fuel), s') ∧
      Abs X { s'.v with len := es.length + acc.length + fuel } (es ++ acc ++ new) ∧
      s'.v.isDefault = false) ∨
    (∃ s' acc', Vec.efwGo X es.length cap (.at (dataOff s.v.align)) fuel i acc.length s = (.error .explicit, s') ∧
      Abs X s'.v (es ++ acc')) := by
  intro fuel
  induction fuel with
  | zero =>
    intro i acc s h hd hc hi hroom
    exact .inl ⟨s, [], by simp [Vec.efwGo], by simpa using h, hd⟩
  | succ fuel ih =>
    intro i acc s h hd hc hi hroom
    have hilt : i < (es ++ acc).length := by simp; omega
    have h1 := rd_full X s (es.length + acc.length) (es ++ acc) h hd i hilt
    have he : (es ++ acc)[i] = es[i]'(by omega) := List.getElem_append_left (by omega)
    rw [he] at h1
    have hlt : es.length + acc.length < cap := by omega
    rcases cloneElem_any X (es[i]'(by omega)) s with ⟨s1, hcl, hv1⟩ | ⟨s1, hcl, hv1⟩
    · have hfull1 : Abs X { s1.v with len := (es ++ acc).length } (es ++ acc) := by
        rw [hv1]; simpa using h
      have hd1 : s1.v.isDefault = false := by rw [hv1]; exact hd
      obtain ⟨v', hw, habs', hc', hd', hal', hl'⟩ := wr_extend_full X s1 (es ++ acc) hfull1 hd1
        (by rw [hv1, hc]; simp; omega) ⟨s.sys.nextId, (es[i]'(by omega)).val⟩
      have hinner : (do
          let e ← VM.rd (.at (dataOff s.v.align)) i
          let e' ← VM.cloneElem X e
          VM.wr (.at (dataOff s.v.align)) (es.length + acc.length) e'
          pure () : VM Unit) s = (.ok (), { s1 with v := v' }) := by
        simp only [VM.bind_run, h1, hcl]
        have hw' : VM.wr (.at (dataOff s.v.align)) (es.length + acc.length) ⟨s.sys.nextId, (es[i]'(by omega)).val⟩ s1 =
            (.ok (), { s1 with v := v' }) := by
          have := hw
          rw [hv1] at this
          simpa using this
        rw [hw']
        rfl
      let e' : Elem := ⟨s.sys.nextId, (es[i]'(by omega)).val⟩
      have hinv' : Abs X { ({ s1 with v := v' } : St).v with len := es.length + (acc ++ [e']).length } (es ++ (acc ++ [e'])) := by
        have := habs'
        simp only [List.length_append, List.length_singleton] at this ⊢
        rw [← List.append_assoc, ← Nat.add_assoc]
        exact this
      have hal2 : ({ s1 with v := v' } : St).v.align = s.v.align := by show v'.align = _; rw [hal', hv1]
      have hlen1 : (acc ++ [e']).length = acc.length + 1 := by simp
      rcases ih (i + 1) (acc ++ [e']) { s1 with v := v' } hinv' hd'
        (by show v'.cap = cap; rw [hc', hv1]; exact hc) (by omega) (by simp; omega) with
        ⟨s', new, hrun, habs2, hd2⟩ | ⟨s', acc', hrun, habs2⟩
      · rw [hal2] at hrun
        refine .inl ⟨s', e' :: new, ?_, ?_, hd2⟩
        · unfold Vec.efwGo
          simp only [hlt, if_true, hinner]
          rw [hlen1] at hrun
          rw [hrun]
          congr 2
          omega
        · have : es.length + (acc ++ [e']).length + fuel = es.length + acc.length + (fuel + 1) := by simp; omega
          rw [this] at habs2
          simpa [List.append_assoc] using habs2
      · rw [hal2] at hrun
        refine .inr ⟨s', acc', ?_, habs2⟩
        unfold Vec.efwGo
        simp only [hlt, if_true, hinner]
        rw [hlen1] at hrun
        exact hrun
    · -- `clone()` panics: the guard publishes what was cloned so far
      have hd1 : s1.v.isDefault = false := by rw [hv1]; exact hd
      have hinner : (do
          let e ← VM.rd (.at (dataOff s.v.align)) i
          let e' ← VM.cloneElem X e
          VM.wr (.at (dataOff s.v.align)) (es.length + acc.length) e'
          pure () : VM Unit) s = (.error .explicit, s1) := by
        simp only [VM.bind_run, h1, hcl]
      refine .inr ⟨{ s1 with v := { s1.v with len := es.length + acc.length } }, acc, ?_, ?_⟩
      · unfold Vec.efwGo
        simp only [hlt, if_true, hinner]
        have hue : VM.unwinds Panic.explicit = true := rfl
        simp only [hue, if_true, lift_set_len X (es.length + acc.length) s1 hd1]
      · show Abs X { s1.v with len := es.length + acc.length } (es ++ acc)
        rw [hv1]; exact h

theorem extend_from_within_any (X : Ctx) (s : St) (es : List Elem) (b1 b2 : Bound) (h : Abs X s.v es) :
    ∃ r s', Vec.extend_from_within X b1 b2 s = (r, s') ∧ Valid X r s' := by
  cases hres : resolve b1 b2 es.length with
  | none =>
    have hL : (hsOf s.v s.sys.allocIdx).L = es.length := h.len_eq
    have h1 : VM.lift X (extend_from_within_pre X.env b1 b2) s = (.error .explicit, s) :=
      lift_read X _ s _ (by
        rw [C11_extend_from_within]; unfold efwSpec
        simp only [len_run, GM.bind_run, hL, hres, GM.throw_run])
    refine ⟨.error .explicit, s, ?_, .err rfl h⟩
    unfold Vec.extend_from_within
    simp only [VM.bind_run, h1]
  | some se =>
  obtain ⟨st, en⟩ := se
  have hr : resolve b1 b2 es.length = some (st, en) := hres
  obtain ⟨_, _, hse, hel⟩ := (C11_resolve_iff b1 b2 es.length st en).mp hr
  have hL : (hsOf s.v s.sys.allocIdx).L = es.length := h.len_eq
  unfold Vec.extend_from_within
  simp only [VM.bind_run]
  by_cases hz : es.length = 0
  · have hnil : es = [] := List.eq_nil_of_length_eq_zero hz
    subst hnil
    have h1 : VM.lift X (extend_from_within_pre X.env b1 b2) s = (.ok (.ret 0), s) :=
      lift_read X _ s _ (by
        have hr0 : resolve b1 b2 0 = some (st, en) := hr
        rw [C11_extend_from_within]; unfold efwSpec
        simp only [len_run, GM.bind_run, hL, List.length_nil, hr0, beq_self_eq_true, if_true, GM.pure_run])
    rw [h1]
    exact ⟨_, s, rfl, .ok h⟩
  · have hr' : resolve b1 b2 (hsOf s.v s.sys.allocIdx).L = some (st, en) := by rw [hL]; exact hr
    have hne : (hsOf s.v s.sys.allocIdx).L ≠ 0 := by rw [hL]; exact hz
    have hco := efw_pre_capOutcome X.env (hsOf s.v s.sys.allocIdx) b1 b2 st en rfl hr' hne
    rw [hL] at hco
    have hmem := lift_cap X (extend_from_within_pre X.env b1 b2) _ s es h hco
    cases hres : VM.lift X (extend_from_within_pre X.env b1 b2) s with
    | mk r s1 =>
      rw [hres] at hmem
      cases r with
      | error p =>
        cases hmem with
        | stopped _ _ hv hp _ => exact ⟨_, s1, rfl, .err hp (by rw [hv]; exact h)⟩
      | ok f =>
        have habs1 : Abs X s1.v es := by
          cases hmem with
          | same => exact h
          | grown _ habs _ _ _ _ => exact habs
        have hf : f = .cont ⟨es.length, st, en⟩ := by
          cases hmem with
          | same => rfl
          | grown _ _ _ _ _ _ => rfl
        subst hf
        have hg : (extend_from_within_pre X.env b1 b2 (hsOf s.v s.sys.allocIdx)).1 = .ok (.cont ⟨es.length, st, en⟩) := by
          apply lift_fst X _ s; rw [hres]
        have hpair : extend_from_within_pre X.env b1 b2 (hsOf s.v s.sys.allocIdx) =
            (.ok (.cont ⟨es.length, st, en⟩), (extend_from_within_pre X.env b1 b2 (hsOf s.v s.sys.allocIdx)).2) := by rw [← hg]
        obtain ⟨_, hroomC⟩ := efw_pre_room X.env _ _ b1 b2 st en _ rfl hr' hne hpair
        obtain ⟨hcap, _, hdf⟩ := lift_v_hdr X (extend_from_within_pre X.env b1 b2) s
        rw [hres] at hcap hdf
        simp only at hcap hdf
        have hd1 : s1.v.isDefault = false := by
          cases hd : s1.v.isDefault
          · rfl
          · have := (habs1.sentinel hd).2; subst this; simp at hz
        rw [hL] at hroomC
        have hroom : es.length + (en - st) ≤ s1.v.cap := by
          rw [hd1] at hdf
          simp [GS.C, ← hdf] at hroomC
          rw [hcap]; exact hroomC
        simp only
        obtain ⟨b, hb, hl, _⟩ := habs1.alloc hd1
        have hC1 : (hsOf s1.v s1.sys.allocIdx).C = s1.v.cap := by simp [GS.C, hsOf, hd1]
        have h2 : VM.lift X (capacity X.env) s1 = (.ok s1.v.cap, s1) := lift_read X _ s1 _ (by rw [capacity_run, hC1])
        have h3 : VM.lift X (as_mut_ptr X.env) s1 = (.ok (.at (dataOff s1.v.align)), s1) :=
          lift_read X _ s1 _ (as_mut_ptr_run X.env _ hd1 b.lay s1.v.cap hl)
        simp only [VM.bind_run, h2, h3]
        have hl1 : s1.v.len = es.length := by
          obtain ⟨_, _, _, _, _, hel1, _⟩ := habs1.alloc hd1; exact hel1.symm
        have hfull0 : Abs X { s1.v with len := es.length + ([] : List Elem).length } (es ++ []) := by
          have hv : ({ s1.v with len := es.length } : VSt) = s1.v := by cases hv : s1.v; simp [hv] at *; exact hl1.symm
          simpa [hv] using habs1
        rcases efw_go_any X es s1.v.cap (en - st) st [] s1 hfull0 hd1 rfl (by omega) (by simpa using hroom) with
          ⟨s2, new, hgo, habs2, hd2⟩ | ⟨s2, acc', hgo, habs2⟩
        · simp only [List.length_nil, Nat.zero_add, Nat.add_zero, List.append_nil] at hgo habs2
          rw [hgo]
          simp only
          rw [lift_set_len X (es.length + (en - st)) s2 hd2]
          exact ⟨_, _, rfl, .ok habs2⟩
        · simp only [List.length_nil] at hgo
          rw [hgo]
          exact ⟨_, s2, rfl, .err rfl habs2⟩

/-! ### `resize` / `resize_with`, every relation between the new and the old length -/

theorem resize_with_any_all (X : Ctx) (newLen : Nat) (g : Nat → Int) (s : St) (es : List Elem) (h : Abs X s.v es) :
    ∃ r s', Vec.resize_with X newLen g s = (r, s') ∧ Valid X r s' := by
  by_cases hgt : es.length < newLen
  · obtain ⟨r, s', new, hrun, habs, _, _, hr⟩ := C04_resize_with_any X newLen g s es h hgt
    refine ⟨r, s', hrun, ?_⟩
    cases r with
    | ok u => exact .ok habs
    | error p => exact .err hr habs
  · have hL : (hsOf s.v s.sys.allocIdx).L = es.length := h.len_eq
    have h1 : VM.lift X (resize_with_pre X.env newLen) s = (.ok (.cont ⟨newLen, es.length⟩), s) :=
      lift_read X _ s _ (by unfold resize_with_pre; simp only [len_run, GM.bind_run, hL, GM.pure_run])
    unfold Vec.resize_with
    simp only [VM.bind_run, h1]
    by_cases heq : newLen = es.length
    · rw [if_pos heq]
      exact ⟨_, s, rfl, .ok h⟩
    · rw [if_neg heq, if_neg (by omega)]
      obtain ⟨r, s', hrun, hro, habs, _⟩ := C04_truncate_partial X s es newLen h
      exact ⟨r, s', hrun, .ofDrop hro habs⟩

theorem resize_any_all (X : Ctx) (newLen : Nat) (value : Elem) (s : St) (es : List Elem) (h : Abs X s.v es) :
    ∃ r s', Vec.resize X newLen value s = (r, s') ∧ Valid X r s' := by
  by_cases hgt : es.length < newLen
  · obtain ⟨r, s', new, hrun, habs, _, _, hr⟩ := C04_resize_any X newLen value s es h hgt
    refine ⟨r, s', hrun, ?_⟩
    cases r with
    | ok u => exact .ok habs
    | error p => exact .err hr habs
  · have hL : (hsOf s.v s.sys.allocIdx).L = es.length := h.len_eq
    have h1 : VM.lift X (resize_pre X.env newLen) s = (.ok (.cont ⟨newLen, es.length⟩), s) :=
      lift_read X _ s _ (by unfold resize_pre; simp only [len_run, GM.bind_run, hL, GM.pure_run])
    -- the body: nothing to do, or a `truncate`
    have hbody : ∃ r s1 cur, Vec.resizeBody X newLen value s = (r, s1) ∧ Abs X s1.v cur ∧ DropOutcome r := by
      unfold Vec.resizeBody
      simp only [VM.bind_run, h1]
      by_cases heq : newLen = es.length
      · rw [if_pos heq]
        exact ⟨_, s, es, rfl, h, .ok⟩
      · rw [if_neg heq, if_neg (by omega)]
        obtain ⟨r, s', hrun, hro, habs, _⟩ := C04_truncate_partial X s es newLen h
        exact ⟨r, s', _, hrun, habs, hro⟩
    obtain ⟨r, s1, cur, hb, habs, hro⟩ := hbody
    obtain ⟨rd, s2, hd, hv2, hrd, _⟩ := dropElem_any X value s1
    unfold Vec.resize VM.guarded
    rw [hb]
    cases hro with
    | ok =>
      simp only
      rw [hd]
      rcases hrd with rfl | rfl
      · exact ⟨_, s2, rfl, .ok (by rw [hv2]; exact habs)⟩
      · exact ⟨_, s2, rfl, .err rfl (by rw [hv2]; exact habs)⟩
    | panicked =>
      have hue : VM.unwinds Panic.explicit = true := rfl
      simp only [hue, if_true]
      rw [hd]
      rcases hrd with rfl | rfl
      · exact ⟨_, s2, rfl, .err rfl (by rw [hv2]; exact habs)⟩
      · exact ⟨.error .doublePanic, s2, by simp [VM.unwinds], .abort⟩
    | aborted =>
      have hue : VM.unwinds Panic.doublePanic = false := rfl
      simp only [hue, Bool.false_eq_true, if_false]
      exact ⟨_, s1, rfl, .abort⟩

/-! ### The draining iterators: creation, any steps, drop — under any oracle -/

theorem drainOp_any (X : Ctx) (b1 b2 : Bound) (steps : List DStep) (s : St) (es : List Elem) (h : Abs X s.v es) :
    ∃ r s', runDrainOp X b1 b2 steps s = (r, s') ∧ Valid X r s' := by
  cases hres : resolve b1 b2 es.length with
  | none =>
    have hc := drain_create_err X s es b1 b2 h hres
    refine ⟨.error .explicit, s, ?_, .err rfl h⟩
    unfold runDrainOp
    simp only [hc]
  | some se =>
  obtain ⟨st, en⟩ := se
  have hr : resolve b1 b2 es.length = some (st, en) := hres
  cases hd : s.v.isDefault with
  | false =>
    have hcreate : ∃ d s1, Drain.create X b1 b2 s = (.ok d, s1) ∧ DrainInv X s1.v es st en d := by
      obtain ⟨d, hc, hinv⟩ := drain_create_inv X s es b1 b2 st en h hd hr
      exact ⟨d, _, hc, hinv⟩
    obtain ⟨d, s1, hc, hinv⟩ := hcreate
    obtain ⟨d', hrun, hinv', _⟩ := drain_protocol X steps s1 es st en d hinv
    obtain ⟨r, s2, hdrop, hro, hok⟩ := C04_drain_drop_partial X d' _ es st en hinv'
    unfold runDrainOp
    simp only [hc, hrun, hdrop]
    cases hro with
    | ok => exact ⟨_, s2, rfl, .ok (hok (by simp)).1⟩
    | panicked => exact ⟨_, s2, rfl, .err rfl (hok (by simp)).1⟩
    | aborted => exact ⟨_, s2, rfl, .abort⟩
  | true =>
    have hnil := (h.sentinel hd).2
    subst hnil
    have hc := drain_create_default X s b1 b2 st en h hd hr
    have hex := drain_exhausted steps { ptr := .null, pos := 0, stop := 0, tailPos := 0, tail := 0 } s (by simp)
    have hdrop := drain_drop_exhausted_notail X { ptr := .null, pos := 0, stop := 0, tailPos := 0, tail := 0 } s (by simp) rfl
    unfold runDrainOp
    simp only [hc, hex.1, hdrop]
    exact ⟨_, s, rfl, .ok h⟩

/-- `n` calls of `next()` of a DrainFilter, the predicate free to panic: the scan invariant holds afterwards, or the
    predicate's panic left the vector recording length 0 (the elements are leaked, none is exposed) -/
theorem runDF_any (X : Ctx) :
    ∀ (n : Nat) (rest kept junk : List Elem) (f : DFSt) (s : St), DFInv X s.v f kept junk rest →
    (∃ ys f' s' kept' junk' rest', runDF X n f s = (.ok (ys, f'), s') ∧ DFInv X s'.v f' kept' junk' rest') ∨
    (∃ s', runDF X n f s = (.error .explicit, s') ∧ Abs X s'.v []) := by
  intro n
  induction n with
  | zero =>
    intro rest kept junk f s h
    exact .inl ⟨[], f, s, kept, junk, rest, rfl, h⟩
  | succ n ih =>
    intro rest kept junk f s h
    have hfuel : rest.length < f.oldLen - f.pos + 1 := by have := h.ps; have := h.ol; omega
    obtain ⟨s1, st, f', junk', rest', mid, hrun, _, _, _, hcases⟩ := df_next_any X rest kept junk f s _ h hfuel
    unfold runDF
    rw [hrun]
    rcases hcases with ⟨e, hst, _, hinv⟩ | ⟨hst, _, _, hinv⟩ | ⟨hst, _, _, f0, _, hinv⟩
    · subst hst
      simp only
      rcases ih rest' (kept ++ mid) junk' f' s1 hinv with ⟨ys, f'', s2, k2, j2, r2, hr2, hinv2⟩ | ⟨s2, hr2, habs2⟩
      · rw [hr2]; exact .inl ⟨_, f'', s2, k2, j2, r2, rfl, hinv2⟩
      · rw [hr2]; exact .inr ⟨s2, rfl, habs2⟩
    · subst hst
      simp only
      rcases ih [] (kept ++ mid) junk' f' s1 hinv with ⟨ys, f'', s2, k2, j2, r2, hr2, hinv2⟩ | ⟨s2, hr2, habs2⟩
      · rw [hr2]; exact .inl ⟨_, f'', s2, k2, j2, r2, rfl, hinv2⟩
      · rw [hr2]; exact .inr ⟨s2, rfl, habs2⟩
    · subst hst
      simp only
      refine .inr ⟨s1, rfl, ?_⟩
      have h0 := hinv.full.shorten 0 (Nat.zero_le _) (by simpa using hinv.hd)
      have hv0 : ({ ({ s1.v with len := f0.oldLen } : VSt) with len := 0 } : VSt) = s1.v := by
        have hl := hinv.len0
        cases hv : s1.v; simp [hv] at *; exact hl.symm
      rw [hv0] at h0
      simpa using h0

theorem drainFilterOp_any (X : Ctx) (pred : Vec.Pred1) (n : Nat) (s : St) (es : List Elem) (h : Abs X s.v es) :
    ∃ r s', runDrainFilterOp X pred n s = (r, s') ∧ Valid X r s' := by
  cases hd : s.v.isDefault with
  | false =>
    obtain ⟨v0, hc, hinv0, _, _⟩ := df_create_alloc X pred s es h hd
    unfold runDrainFilterOp
    simp only [hc]
    rcases runDF_any X n es [] [] _ { s with v := v0 } hinv0 with ⟨ys, f', s1, k, j, r, hr, hinv⟩ | ⟨s1, hr, habs⟩
    · rw [hr]
      simp only
      obtain ⟨rd, s2, cur, gone, hdrop, hrd, habs2, _⟩ := C04_drain_filter_drop_partial X f' s1 k j r hinv
      rw [hdrop]
      rcases hrd with rfl | rfl
      · exact ⟨_, s2, rfl, .ok habs2⟩
      · exact ⟨_, s2, rfl, .err rfl habs2⟩
    · rw [hr]
      exact ⟨_, s1, rfl, .err rfl habs⟩
  | true =>
    have hnil := (h.sentinel hd).2
    subst hnil
    obtain ⟨f0, hc, ⟨ys, hsteps, _⟩, hdrop⟩ := C10_drain_filter_default X pred s h hd n
    unfold runDrainFilterOp
    simp only [hc, hsteps, hdrop]
    exact ⟨_, s, rfl, .ok h⟩

theorem spliceOp_any (X : Ctx) (b1 b2 : Bound) (fill : Vec.IterScript) (steps : List DStep) (s : St) (es : List Elem)
    (h : Abs X s.v es) :
    ∃ r s', runSpliceOp X b1 b2 fill steps s = (r, s') ∧ Valid X r s' := by
  cases hres : resolve b1 b2 es.length with
  | none =>
    have hc := splice_create_err X s es b1 b2 fill h hres
    refine ⟨.error .explicit, s, ?_, .err rfl h⟩
    unfold runSpliceOp
    simp only [hc]
  | some se =>
  obtain ⟨st, en⟩ := se
  have hr : resolve b1 b2 es.length = some (st, en) := hres
  obtain ⟨_, _, hse, hel'⟩ := (C11_resolve_iff b1 b2 es.length st en).mp hr
  cases hd : s.v.isDefault with
  | false =>
    obtain ⟨b, hb, hl, hs, hlc, hel, hinit⟩ := h.alloc hd
    have hc := splice_create_alloc X s es b1 b2 st en fill h hd hr
    have hv : ({ ({ s.v with len := st } : VSt) with len := es.length } : VSt) = s.v := by
      cases hv : s.v; simp [hv] at *; exact hel
    let sp : SpliceSt := { d := { ptr := .at (dataOff s.v.align), pos := st, stop := en, tailPos := en, tail := es.length - en }, fill := fill }
    have hinv : DrainInv X ({ s with v := { s.v with len := st } } : St).v es st en sp.d :=
      { hd := hd, len := rfl, full := by simp only; rw [hv]; exact h, ptr := rfl, lo := Nat.le_refl _, mid := hse,
        hi := Nat.le_refl _, tp := rfl, tl := rfl, en_le := hel' }
    have hcreate : ∃ sp' s1, Splice.create X b1 b2 fill s = (.ok sp', s1) ∧ DrainInv X s1.v es st en sp'.d := ⟨sp, _, hc, hinv⟩
    obtain ⟨sp', s1, hc', hinv1⟩ := hcreate
    obtain ⟨d', hrun, hinv', _⟩ := drain_protocol X steps s1 es st en sp'.d hinv1
    unfold runSpliceOp
    rcases C04_splice_drop_partial X { sp' with d := d' } s1 es st en hinv' with ⟨s2, new, hdr, habs, _⟩ | ⟨p, s2, hdr, hb, hab⟩
    · simp only [hc', hrun, hdr]
      exact ⟨_, s2, rfl, .ok habs⟩
    · simp only [hc', hrun, hdr]
      exact ⟨_, s2, rfl, hb, hab⟩
  | true =>
    have hnil := (h.sentinel hd).2
    subst hnil
    have hL : (hsOf s.v s.sys.allocIdx).L = 0 := by have := h.len_eq (k := s.sys.allocIdx); simpa using this
    have hptr := as_mut_ptr_run_default X.env (hsOf s.v s.sys.allocIdx) (by simp [hsOf, hd])
    have hrun0 : splice_pre X.env b1 b2 (hsOf s.v s.sys.allocIdx) =
        (.ok (.cont ⟨0, st, en, .null⟩), hsOf s.v s.sys.allocIdx) := by
      rw [C11_splice]
      unfold spliceSpec
      have hr0 : resolve b1 b2 0 = some (st, en) := hr
      simp only [len_run, GM.bind_run, hL, hr0, hptr, DPtr.isNull, Bool.not_true, GM.ite_run, GM.pure_run]
      rfl
    have h1 := lift_read X (splice_pre X.env b1 b2) s _ hrun0
    let d0 : DrainSt := { ptr := .null, pos := 0, stop := 0, tailPos := 0, tail := 0 }
    have hc : Splice.create X b1 b2 fill s = (.ok { d := d0, fill := fill }, s) := by
      unfold Splice.create
      simp only [VM.bind_run, h1, DPtr.isNull, VM.pure_run]
      rfl
    have hex := drain_exhausted steps d0 s (by simp [d0])
    obtain ⟨r, s2, new, hdrop, habs, _, hr2⟩ := C04_splice_drop_default_partial X fill s h hd
    unfold runSpliceOp
    simp only [hc, hex.1]
    have hdrop' : Splice.drop X { d := d0, fill := fill } s = (r, s2) := hdrop
    rw [hdrop']
    cases r with
    | ok u => exact ⟨_, s2, rfl, .ok habs⟩
    | error p => exact ⟨_, s2, rfl, .err hr2 habs⟩

/-! ### Every operation of `HOp`, every history -/

theorem unit_any {X : Ctx} (x : VM Unit) (s : St) (h : ∃ r s', x s = (r, s') ∧ Valid X r s') :
    ∃ r s', (do x; pure ([] : HOut) : VM HOut) s = (r, s') ∧ Valid X r s' :=
  Valid.bind_pure x (fun _ => ([] : HOut)) s h

/-- **one operation under any oracle** -/
theorem HOp.any (X : Ctx) (op : HOp) (s : St) (es : List Elem) (h : Abs X s.v es) :
    ∃ r s', op.run X s = (r, s') ∧ Valid X r s' := by
  cases op with
  | base op => exact Valid.bind_pure _ _ s (POp.any X op s es h)
  | extend it =>
    obtain ⟨r, s', new, hrun, habs, _, hr2⟩ := C04_extend_any X it s es h
    refine unit_any _ s ⟨r, s', hrun, ?_⟩
    cases r with
    | ok u => exact .ok habs
    | error p => exact .err hr2 habs
  | extend_from_slice elems =>
    obtain ⟨r, s', new, hrun, habs, _, hr2⟩ := C04_extend_from_slice_any X elems s es h
    refine unit_any _ s ⟨r, s', hrun, ?_⟩
    cases r with
    | ok u => exact .ok habs
    | error p => exact .err hr2 habs
  | resize n value =>
    exact unit_any _ s (resize_any_all X n value s es h)
  | resize_with n g =>
    exact unit_any _ s (resize_with_any_all X n g s es h)
  | dedup =>
    obtain ⟨r, s', cur, gone, hrun, hro, habs, _⟩ := (C04_dedup_partial X s es h).1
    exact unit_any _ s ⟨r, s', hrun, .ofDrop hro habs⟩
  | dedup_by f =>
    obtain ⟨r, s', cur, gone, hrun, hro, habs, _⟩ := (C04_dedup_partial X s es h).2.1 f
    exact unit_any _ s ⟨r, s', hrun, .ofDrop hro habs⟩
  | dedup_by_key key =>
    obtain ⟨r, s', cur, gone, hrun, hro, habs, _⟩ := (C04_dedup_partial X s es h).2.2 key
    exact unit_any _ s ⟨r, s', hrun, .ofDrop hro habs⟩
  | remove_item probe => exact Valid.bind_pure _ _ s (remove_item_any X probe s es h)
  | extend_from_within b1 b2 => exact unit_any _ s (extend_from_within_any X s es b1 b2 h)
  | drain b1 b2 steps => exact drainOp_any X b1 b2 steps s es h
  | drain_filter pred n => exact drainFilterOp_any X pred n s es h
  | splice b1 b2 fill steps => exact spliceOp_any X b1 b2 fill steps s es h

/-- **(C04) every history over `HOp` under ANY panic oracle**: with ANY arguments (out-of-range ones panic before anything is touched): it runs to
    its end or stops at the first operation that does not return, and unless the process aborted the vector is well formed -/
theorem C04_histories_partial (X : Ctx) (ops : List HOp) (s : St) (es : List Elem) (h : Abs X s.v es) :
    ∃ r s', runHist X ops s = (r, s') ∧ Valid X r s' := by
  induction ops generalizing s es with
  | nil => exact ⟨.ok [], s, rfl, .ok h⟩
  | cons op rest ih =>
    obtain ⟨r1, s1, hrun1, hv1⟩ := HOp.any X op s es h
    cases r1 with
    | error p => exact ⟨.error p, s1, by simp only [runHist, hrun1], hv1⟩
    | ok o =>
      obtain ⟨es1, habs1⟩ := hv1
      obtain ⟨r2, s2, hrun2, hv2⟩ := ih s1 es1 habs1
      cases r2 with
      | error p => exact ⟨.error p, s2, by simp only [runHist, hrun1, hrun2], hv2⟩
      | ok os => exact ⟨.ok (o :: os), s2, by simp only [runHist, hrun1, hrun2], hv2⟩

/-- non-vacuity: an oracle under which the second and the fifth callback panic -/
example : (fun k => k == 1 || k == 4 : Nat → Bool) 4 = true := rfl

end MV.Props

#print axioms MV.Props.POp.any
#print axioms MV.Props.HOp.any
#print axioms MV.Props.C04_histories_partial

import MiniVecProof.Proofs.GenProps
/-
  C09 — impossible sizes are refused loudly in every build profile.
  All statements are about definitions REGENERATED from /repo/src (`Gen.*`), for every input.
-/
namespace MV.Props
open MV MV.Gen MV.GM

/-- the size-taking decision programs -/
inductive SizeOp
  | grow (c a : Nat)
  | reserve (n : Nat)
  | reserve_exact (n : Nat)
  | shrink_to (n : Nat)
  | shrink_to_fit

def SizeOp.run (E : Env) : SizeOp → GM Unit
  | .grow c a => Gen.grow E c a
  | .reserve n => Gen.reserve E n
  | .reserve_exact n => Gen.reserve_exact E n
  | .shrink_to n => Gen.shrink_to E n
  | .shrink_to_fit => Gen.shrink_to_fit E

/-- (no_wrap) a layout handed to the allocator has room, in unbounded arithmetic, for the header
    rounded up to the alignment plus `c` whole elements, and never exceeds `isize::MAX`. -/
theorem C09_no_wrap (E : Env) (c a : Nat) (L : Layout) (h : make_layout E c a = .ok L) :
    dataOff a + c * E.c.elemSize ≤ L.size ∧ L.align = a ∧ L.size ≤ ISIZE_MAX :=
  make_layout_honest E c a L h

/-- Every size-taking program, from every state and for every argument: it never hangs; if it
    stops (panic or allocation-failure abort) the header is exactly as before; if it returns, then
    either nothing changed or the recorded capacity is backed by a request of sufficient true size. -/
theorem C09_refuse_or_back (E : Env) (op : SizeOp) (s : GS) (hf : s.fresh = none) :
    let r := (op.run E s).1
    let s' := (op.run E s).2
    r ≠ .error .fuel ∧
    (∀ p, r = .error p → s.sameHdr s') ∧
    (r = .ok () → s' = s ∨
      ∃ c a req size, s'.C = c ∧ s'.A E = a ∧ s'.L = s.L ∧ s.L ≤ c ∧ req ∈ newActs s s' ∧
        req.asksFor size a ∧ dataOff a + c * E.c.elemSize ≤ size ∧ size ≤ ISIZE_MAX) := by
  have key : CapPost E s (op.run E s).1 (op.run E s).2 := by
    cases op with
    | grow c a => exact grow_capPost E s c a hf
    | reserve n => exact reserve_capPost E n s hf
    | reserve_exact n => exact reserve_exact_capPost E n s hf
    | shrink_to n => exact shrink_to_capPost E n s hf
    | shrink_to_fit => exact shrink_to_fit_capPost E s hf
  refine ⟨key.no_fuel, key.err_unchanged, fun hok => ?_⟩
  rcases key.ok_shape hok with h | ⟨c, a, req, L, hL, hreq, hlen, hs'⟩
  · exact .inl h
  · refine .inr ⟨c, a, req, L.size, ?_, ?_, ?_, hlen, ?_, hreq, ?_, ?_⟩
    · rw [hs']; exact grown_C ..
    · rw [hs']; exact grown_A ..
    · rw [hs']; exact grown_L ..
    · rw [hs']; simp [newActs, GS.grown]
    · exact (make_layout_honest E c a L hL).1
    · exact (make_layout_honest E c a L hL).2.2

/-! ### profile independence -/

theorem capLoop_mode (E : Env) (m : Mode) (tot fuel nc : Nat) :
    capLoop { E with m := m } tot fuel nc = capLoop E tot fuel nc := by
  induction fuel generalizing nc with
  | zero => rfl
  | succ f ih =>
    unfold capLoop
    rw [next_capacity_mode]
    by_cases h : nc < tot
    · simp only [h, if_true]
      cases next_capacity E nc with
      | error p => rfl
      | ok v => simp [ih]
    · simp [h]

theorem capLoop_mode' (E : Env) (m : Mode) (tot fuel : Nat) :
    capLoop { E with m := m } tot fuel = capLoop E tot fuel := funext (capLoop_mode E m tot fuel)

theorem A_mode (E : Env) (m : Mode) (s : GS) : GS.A { E with m := m } s = GS.A E s := rfl

theorem grow_mode (E : Env) (m : Mode) (c a : Nat) (s : GS) (hf : s.fresh = none) :
    grow { E with m := m } c a s = grow E c a s := by
  rw [grow_spec _ s c a hf, grow_spec E s c a hf]
  simp only [make_layout_mode]
  rfl

/-- (profile_independent) the outcome and the resulting state of every size-taking program are the
    same with and without overflow checks. -/
theorem C09_profile_independent (E : Env) (m : Mode) (op : SizeOp) (s : GS) (hf : s.fresh = none) :
    op.run { E with m := m } s = op.run E s := by
  cases op with
  | grow c a => exact grow_mode E m c a s hf
  | reserve n =>
    simp only [SizeOp.run, reserve_spec, reserveTarget, next_capacity_mode, capLoop_mode', A_mode]
    cases checkedAdd s.L n with
    | none => rfl
    | some tot =>
      simp only
      by_cases ht : tot ≤ s.C
      · simp [ht]
      · simp only [ht, if_false]
        cases (next_capacity E s.C >>= capLoop E tot loopFuel) with
        | error p => rfl
        | ok nc => exact grow_mode E m nc _ s hf
  | reserve_exact n =>
    simp only [SizeOp.run, reserve_exact_spec]
    cases checkedAdd s.L n with
    | none => rfl
    | some tot =>
      simp only
      by_cases ht : tot ≤ s.C
      · simp [ht]
      · simp only [ht, if_false]; exact grow_mode E m tot _ s hf
  | shrink_to n =>
    simp only [SizeOp.run, shrink_to_spec, shrink_to_fit_spec]
    by_cases h1 : n < s.L
    · simp only [h1, if_true]
      by_cases h : s.L = s.C
      · simp [h]
      · simp only [h, if_false]; exact grow_mode E m _ _ s hf
    · simp only [h1, if_false]
      by_cases h2 : s.C = n
      · simp [h2]
      · simp only [h2, if_false]
        by_cases h3 : s.C < n
        · simp [h3]
        · simp only [h3, if_false]; exact grow_mode E m _ _ s hf
  | shrink_to_fit =>
    simp only [SizeOp.run, shrink_to_fit_spec]
    by_cases h : s.L = s.C
    · simp [h]
    · simp only [h, if_false]; exact grow_mode E m _ _ s hf

/-- the integer kernel itself is profile independent -/
theorem C09_kernel_profile_independent (E : Env) (m : Mode) :
    (∀ n a, n < W → next_aligned { E with m := m } n a = next_aligned E n a) ∧
    (∀ c, next_capacity { E with m := m } c = next_capacity E c) ∧
    (∀ c a, make_layout { E with m := m } c a = make_layout E c a) :=
  ⟨fun n a hn => next_aligned_mode E m n a hn, next_capacity_mode E m, make_layout_mode E m⟩

/-- (reserve_terminates) `reserve`'s doubling loop never exhausts its fuel -/
theorem C09_reserve_terminates (E : Env) (n : Nat) (s : GS) (hf : s.fresh = none) :
    (reserve E n s).1 ≠ .error .fuel :=
  (reserve_capPost E n s hf).no_fuel

/-- an overflowing `len + additional` is refused by a panic, state untouched -/
theorem C09_len_plus_additional_overflow (E : Env) (n : Nat) (s : GS) (h : W ≤ s.L + n) :
    reserve E n s = (.error .explicit, s) ∧ reserve_exact E n s = (.error .explicit, s) := by
  have : checkedAdd s.L n = none := by unfold checkedAdd; simp; omega
  exact ⟨by rw [reserve_spec, this], by rw [reserve_exact_spec, this]⟩

/-! ### the hypotheses are satisfiable / the statements are not vacuous -/

def E8 : Env := { c := ⟨8, 8, true⟩, m := .release }

/-- `with_capacity(usize::MAX / 8 + 2)` for 8-byte elements: refused (it used to wrap to 32 bytes) -/
example : (reserve_exact E8 2305843009213693953 (GS.sentinel)).1 = .error .explicit := by
  decide +kernel
/-- `reserve(usize::MAX)` on a non-empty vector: refused, not a silent no-op -/
example : (reserve E8 USIZE_MAX { isDefault := false, len := 1, cap := 4, align := 8 }).1 = .error .explicit := by
  decide +kernel
/-- `reserve(2^63 + 1)`: refused, not a hang -/
example : (reserve E8 9223372036854775809 (GS.sentinel)).1 = .error .explicit := by
  decide +kernel
/-- an ordinary request succeeds -/
example : (reserve E8 5 (GS.sentinel)).1 = .ok () := by decide +kernel

end MV.Props

#print axioms MV.Props.C09_no_wrap
#print axioms MV.Props.C09_refuse_or_back
#print axioms MV.Props.C09_profile_independent
#print axioms MV.Props.C09_kernel_profile_independent
#print axioms MV.Props.C09_reserve_terminates
#print axioms MV.Props.C09_len_plus_additional_overflow

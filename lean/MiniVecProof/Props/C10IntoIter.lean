import MiniVecProof.Props.C10
import MiniVecProof.Props.C02
/-
  C10 (IntoIter) — the owning iterator obeys the iterator protocol at every step, and dropping it
  destroys exactly what was not yielded and releases the block.

  The embedded vector's length field is the remaining count; the cursor `pos` counts the elements
  taken from the front.  Statement: after `into_iter()` on a well-formed vector exposing `es`, EVERY
  interleaving of front and back steps yields what the list iterator over `es` yields, `len()`
  after each step is exact, `as_slice()` is exactly the elements not yet yielded, no step adds a
  trace event, and `drop` destroys exactly the unyielded elements (once each, in order) and then
  frees the block with the layout it was obtained with.
-/
namespace MV.Props
open MV MV.Gen MV.GM VM

structure IntoInv (X : Ctx) (v : VSt) (es : List Elem) (it : IntoIterSt) : Prop where
  hd : v.isDefault = false
  full : Abs X { v with len := es.length } es
  ptr : it.ptr = .at (dataOff v.align)
  bound : it.pos + v.len ≤ es.length

/-- the elements not yet yielded -/
def iwindow (it : IntoIterSt) (n : Nat) (es : List Elem) : List Elem := (es.drop it.pos).take n

theorem IntoInv.rd {X : Ctx} {s : St} {es : List Elem} {it : IntoIterSt}
    (h : IntoInv X s.v es it) (i : Nat) (hi : i < es.length) :
    VM.rd it.ptr i s = (.ok es[i], s) := by
  obtain ⟨b, hb, hl, hs, hlc, hel, hinit⟩ := h.full.alloc h.hd
  have hal : b.lay.align = s.v.align := (make_layout_honest _ _ _ _ hl).2.1
  simp only at hb hinit
  have := rd_blk s b i es[i] hb (by rw [hinit i hi]; simp [List.getElem?_eq_getElem hi])
  rw [h.ptr, ← hal]; exact this

theorem IntoInv.inb {X : Ctx} {s : St} {es : List Elem} {it : IntoIterSt}
    (h : IntoInv X s.v es it) (i : Nat) (hi : i ≤ es.length) :
    VM.inb it.ptr i s = (.ok (), s) := by
  obtain ⟨b, hb, hl, hs, hlc, hel, hinit⟩ := h.full.alloc h.hd
  simp only at hb hl hlc hs
  have hal : b.lay.align = s.v.align := (make_layout_honest _ _ _ _ hl).2.1
  have hcapb : s.v.cap ≤ b.slots.length := by rw [hs]; exact physSlots_ge X.env _ _ _ hl h.full.elem_pos
  have := inb_blk s b hb i (by omega)
  rw [h.ptr, ← hal]; exact this

theorem IntoInv.shrink {X : Ctx} {v : VSt} {es : List Elem} {it : IntoIterSt} (h : IntoInv X v es it)
    (n : Nat) (it' : IntoIterSt) (hp : it'.ptr = it.ptr) (hb : it'.pos + n ≤ es.length) :
    IntoInv X { v with len := n } es it' :=
  { hd := h.hd, full := h.full, ptr := by rw [hp]; exact h.ptr, bound := hb }

theorem into_next_some {X : Ctx} {s : St} {es : List Elem} {it : IntoIterSt}
    (h : IntoInv X s.v es it) (hlt : 0 < s.v.len) :
    IntoIter.next X it s = (.ok (some (es[it.pos]'(by have := h.bound; omega)), { it with pos := it.pos + 1 }),
      { s with v := { s.v with len := s.v.len - 1 } }) := by
  have hb := h.bound
  unfold IntoIter.next
  have h4 := hdrLenSub_run X s 1 h.hd (by omega)
  have hinv' : IntoInv X ({ s with v := { s.v with len := s.v.len - 1 } } : St).v es it :=
    h.shrink _ it rfl (by omega)
  have h5 := hinv'.rd it.pos (by omega)
  have e1 : VM.lift X GM.isDefault s = (.ok false, s) := by rw [lift_isDefault, h.hd]
  simp only [VM.bind_run, e1, Bool.false_eq_true, if_false, lift_hdrLen X s h.hd,
    h.inb (it.pos + s.v.len) hb, show s.v.len ≠ 0 by omega, h4, h5, VM.pure_run]

theorem into_next_back_some {X : Ctx} {s : St} {es : List Elem} {it : IntoIterSt}
    (h : IntoInv X s.v es it) (hlt : 0 < s.v.len) :
    IntoIter.next_back X it s = (.ok (some (es[it.pos + s.v.len - 1]'(by have := h.bound; omega)), it),
      { s with v := { s.v with len := s.v.len - 1 } }) := by
  have hb := h.bound
  unfold IntoIter.next_back
  have h4 := hdrLenSub_run X s 1 h.hd (by omega)
  have hinv' : IntoInv X ({ s with v := { s.v with len := s.v.len - 1 } } : St).v es it :=
    h.shrink _ it rfl (by omega)
  have h5 := hinv'.rd (it.pos + s.v.len - 1) (by omega)
  have e1 : VM.lift X GM.isDefault s = (.ok false, s) := by rw [lift_isDefault, h.hd]
  simp only [VM.bind_run, e1, Bool.false_eq_true, if_false, lift_hdrLen X s h.hd,
    h.inb (it.pos + s.v.len) hb, show s.v.len ≠ 0 by omega, h4, h5, VM.pure_run]

theorem into_next_none {X : Ctx} {s : St} {es : List Elem} {it : IntoIterSt}
    (h : IntoInv X s.v es it) (hz : s.v.len = 0) :
    IntoIter.next X it s = (.ok (none, it), s) ∧ IntoIter.next_back X it s = (.ok (none, it), s) := by
  have hb := h.bound
  unfold IntoIter.next IntoIter.next_back
  have e1 : VM.lift X GM.isDefault s = (.ok false, s) := by rw [lift_isDefault, h.hd]
  have e2 := h.inb (it.pos + s.v.len) hb
  have e3 := lift_hdrLen X s h.hd
  rw [hz] at e2 e3
  constructor <;>
  simp only [VM.bind_run, e1, Bool.false_eq_true, if_false, e3, e2, if_true, VM.pure_run]

/-- the model: each step's yield and `len()` after it -/
def runInto (X : Ctx) : List DStep → IntoIterSt → St → Except Panic (List (Option Elem × Nat) × IntoIterSt) × St
  | [], it, s => (.ok ([], it), s)
  | stp :: rest, it, s =>
    (match (match stp with | .front => IntoIter.next X it s | .back => IntoIter.next_back X it s) with
     | (.ok (o, it'), s') =>
       (match IntoIter.len X s' with
        | (.ok n, s'') =>
          (match runInto X rest it' s'' with
           | (.ok (outs, it''), s3) => (.ok ((o, n) :: outs, it''), s3)
           | (.error p, s3) => (.error p, s3))
        | (.error p, s'') => (.error p, s''))
     | (.error p, s') => (.error p, s'))

theorem into_len_run (X : Ctx) (s : St) (hd : s.v.isDefault = false) : IntoIter.len X s = (.ok s.v.len, s) := by
  unfold IntoIter.len
  exact lift_read X _ s _ (by rw [len_run]; simp [GS.L, hsOf, hd])

theorem iwindow_front (it : IntoIterSt) (n : Nat) (es : List Elem) (hn : 0 < n) (hb : it.pos + n ≤ es.length) :
    (iwindow it n es).head? = some (es[it.pos]'(by omega)) ∧
    (iwindow it n es).tail = iwindow { it with pos := it.pos + 1 } (n - 1) es := by
  unfold iwindow
  constructor
  · rw [List.head?_take, if_neg (by omega), List.head?_drop, List.getElem?_eq_getElem (by omega)]
  · apply List.ext_getElem?
    intro i
    simp only [List.getElem?_tail, List.getElem?_take, List.getElem?_drop]
    by_cases h1 : i < n - 1
    · simp [h1, show i + 1 < n by omega]; congr 1; omega
    · simp [h1, show ¬ i + 1 < n by omega]

theorem iwindow_back (it : IntoIterSt) (n : Nat) (es : List Elem) (hn : 0 < n) (hb : it.pos + n ≤ es.length) :
    (iwindow it n es).getLast? = some (es[it.pos + n - 1]'(by omega)) ∧
    (iwindow it n es).dropLast = iwindow it (n - 1) es := by
  unfold iwindow
  have hlen : ((es.drop it.pos).take n).length = n := by simp; omega
  constructor
  · rw [List.getLast?_eq_getElem?, hlen, List.getElem?_take, if_pos (by omega), List.getElem?_drop]
    rw [List.getElem?_eq_getElem (by omega)]
    congr 2; omega
  · rw [List.dropLast_eq_take, hlen, List.take_take]
    congr 1; omega

theorem iwindow_length (it : IntoIterSt) (n : Nat) (es : List Elem) (hb : it.pos + n ≤ es.length) :
    (iwindow it n es).length = n := by
  simp [iwindow]; omega

/-- (C10, IntoIter) every interleaving of steps behaves like the list iterator with exact counts;
    only the embedded length changes -/
theorem into_protocol (X : Ctx) (steps : List DStep) (s : St) (es : List Elem) (it : IntoIterSt)
    (h : IntoInv X s.v es it) :
    ∃ it' n', runInto X steps it s = (.ok ((specSteps steps (iwindow it s.v.len es)).1, it'), { s with v := { s.v with len := n' } }) ∧
      IntoInv X ({ s.v with len := n' } : VSt) es it' ∧ iwindow it' n' es = (specSteps steps (iwindow it s.v.len es)).2 := by
  induction steps generalizing it s with
  | nil =>
    refine ⟨it, s.v.len, ?_, ?_, rfl⟩
    · simp [runInto, specSteps]
    · exact h.shrink _ it rfl h.bound
  | cons stp rest ih =>
    have hb := h.bound
    by_cases hlt : 0 < s.v.len
    · cases stp with
      | front =>
        have hn := into_next_some h hlt
        have hinv' : IntoInv X ({ s with v := { s.v with len := s.v.len - 1 } } : St).v es { it with pos := it.pos + 1 } :=
          h.shrink _ _ rfl (by simp; omega)
        obtain ⟨it', n', hrun, hinv'', hw⟩ := ih _ _ hinv'
        obtain ⟨hw1, hw2⟩ := iwindow_front it s.v.len es hlt hb
        refine ⟨it', n', ?_, hinv'', ?_⟩
        · simp only [runInto, hn, into_len_run X _ hinv'.hd, hrun, specSteps, hw1, hw2]
          rw [iwindow_length _ _ _ (by show it.pos + 1 + (s.v.len - 1) ≤ es.length; omega)]
        · simp only [specSteps, hw2]; exact hw
      | back =>
        have hn := into_next_back_some h hlt
        have hinv' : IntoInv X ({ s with v := { s.v with len := s.v.len - 1 } } : St).v es it :=
          h.shrink _ _ rfl (by omega)
        obtain ⟨it', n', hrun, hinv'', hw⟩ := ih _ _ hinv'
        obtain ⟨hw1, hw2⟩ := iwindow_back it s.v.len es hlt hb
        refine ⟨it', n', ?_, hinv'', ?_⟩
        · simp only [runInto, hn, into_len_run X _ hinv'.hd, hrun, specSteps, hw1, hw2]
          rw [iwindow_length _ _ _ (by omega)]
        · simp only [specSteps, hw2]; exact hw
    · have hz : s.v.len = 0 := by omega
      obtain ⟨hn1, hn2⟩ := into_next_none h hz
      have hw0 : iwindow it s.v.len es = [] := by simp [iwindow, hz]
      obtain ⟨it', n', hrun, hinv'', hw⟩ := ih s it h
      cases stp with
      | front =>
        refine ⟨it', n', ?_, hinv'', ?_⟩
        · simp only [runInto, hn1, into_len_run X _ h.hd, hrun, specSteps, hw0]
          simp [hz]
        · simp only [specSteps, hw0]; rw [hw0] at hw; exact hw
      | back =>
        refine ⟨it', n', ?_, hinv'', ?_⟩
        · simp only [runInto, hn2, into_len_run X _ h.hd, hrun, specSteps, hw0]
          simp [hz]
        · simp only [specSteps, hw0]; rw [hw0] at hw; exact hw

/-- `into_iter()` on a vector with storage -/
theorem into_create_alloc (X : Ctx) (s : St) (es : List Elem) (h : Abs X s.v es) (hd : s.v.isDefault = false) :
    ∃ it, IntoIter.create X s = (.ok it, s) ∧ it.pos = 0 ∧ IntoInv X s.v es it ∧ s.v.len = es.length := by
  obtain ⟨b, hb, hl, hs, hlc, hel, hinit⟩ := h.alloc hd
  have e1 : VM.lift X GM.isDefault s = (.ok false, s) := by rw [lift_isDefault, hd]
  have e2 : VM.lift X (data X.env) s = (.ok (.at (dataOff s.v.align)), s) :=
    lift_read X _ s _ (data_run X.env _ hd b.lay s.v.cap hl)
  have hv : ({ s.v with len := es.length } : VSt) = s.v := by
    cases hv : s.v; simp [hv] at *; exact hel
  refine ⟨{ ptr := .at (dataOff s.v.align), pos := 0 }, ?_, rfl, ⟨hd, by rw [hv]; exact h, rfl, by simp; omega⟩, hel.symm⟩
  unfold IntoIter.create
  simp only [VM.bind_run, e1, Bool.false_eq_true, if_false, e2, VM.pure_run]

theorem IntoInv.rdRange {X : Ctx} {s : St} {es : List Elem} {it : IntoIterSt}
    (h : IntoInv X s.v es it) (n : Nat) (hn : it.pos + n ≤ es.length) :
    VM.rdRange it.ptr it.pos n s = (.ok (iwindow it n es), s) := by
  obtain ⟨b, hb, hl, hs, hlc, hel, hinit⟩ := h.full.alloc h.hd
  have hal : b.lay.align = s.v.align := (make_layout_honest _ _ _ _ hl).2.1
  simp only at hb hinit hal
  have hlen : (iwindow it n es).length = n := iwindow_length it n es hn
  have := rdRange_blk s b hb (iwindow it n es) it.pos (by
    intro j hj
    rw [hlen] at hj
    rw [hinit (it.pos + j) (by omega)]
    simp [iwindow, List.getElem?_take, hj, List.getElem?_drop])
  rw [hlen, hal] at this
  rw [h.ptr]; exact this

/-- `as_slice()` is exactly the elements not yet yielded -/
theorem into_as_slice {X : Ctx} {s : St} {es : List Elem} {it : IntoIterSt} (h : IntoInv X s.v es it) :
    IntoIter.as_slice X it s = (.ok (iwindow it s.v.len es), s) := by
  have e1 : VM.lift X GM.isDefault s = (.ok false, s) := by rw [lift_isDefault, h.hd]
  have e2 : VM.lift X (len X.env) s = (.ok s.v.len, s) :=
    lift_read X _ s _ (by rw [len_run]; simp [GS.L, hsOf, h.hd])
  unfold IntoIter.as_slice
  simp only [VM.bind_run, e1, Bool.false_eq_true, if_false, e2, h.rdRange s.v.len h.bound]

/-- `Drop for IntoIter`: the unyielded elements are destroyed once each, in order, and the block is
    released with the layout it was obtained with; the handle ends as the sentinel -/
theorem into_drop_spec (X : Ctx) (hq : ∀ k, X.o.panicAt k = false) (it : IntoIterSt) (s : St) (es : List Elem)
    (h : IntoInv X s.v es it) :
    ∃ b, s.v.blk = some b ∧ make_layout X.env s.v.cap s.v.align = .ok b.lay ∧
      IntoIter.drop X it s = (.ok (), { sys := { (afterDrops X s (iwindow it s.v.len es)).sys with
        tr := (afterDrops X s (iwindow it s.v.len es)).sys.tr ++ [.dealloc b.lay.size b.lay.align] }, v := {} }) := by
  obtain ⟨b, hb, hl, hs, hlc, hel, hinit⟩ := h.full.alloc h.hd
  simp only at hb hl
  refine ⟨b, hb, hl, ?_⟩
  have e1 : VM.lift X GM.isDefault s = (.ok false, s) := by rw [lift_isDefault, h.hd]
  have e2 : VM.lift X (len X.env) s = (.ok s.v.len, s) :=
    lift_read X _ s _ (by rw [len_run]; simp [GS.L, hsOf, h.hd])
  have habs0 : Abs X ({ s.v with len := 0 } : VSt) [] := by
    have := h.full.shorten 0 (by omega) h.hd
    simpa using this
  unfold IntoIter.drop VM.guarded
  by_cases hn : s.v.len > 0
  · have e3 := h.rdRange s.v.len h.bound
    have e4 := lift_set_len X 0 s h.hd
    have e5 := dropAll_quiet X hq (iwindow it s.v.len es) { s with v := { s.v with len := 0 } }
    have hbody : (do
        let d ← VM.lift X GM.isDefault
        if d then pure () else do
          let n ← VM.lift X (len X.env)
          if n > 0 then do
            let es ← VM.rdRange it.ptr it.pos n
            VM.lift X (set_len X.env 0)
            VM.dropAll X es
          else pure () : VM Unit) s = (.ok (), afterDrops X { s with v := { s.v with len := 0 } } (iwindow it s.v.len es)) := by
      simp only [VM.bind_run, e1, Bool.false_eq_true, if_false, e2, hn, if_true, e3, e4, e5]
    rw [hbody]
    simp only
    obtain ⟨_, hdv⟩ := dropVec_spec X hq (afterDrops X { s with v := { s.v with len := 0 } } (iwindow it s.v.len es)) [] habs0
    obtain ⟨b', hb', hrun⟩ := hdv h.hd
    have : b' = b := by
      have : (afterDrops X { s with v := { s.v with len := 0 } } (iwindow it s.v.len es)).v.blk = some b := hb
      rw [this] at hb'; exact (Option.some.inj hb').symm
    subst this
    rw [hrun]
    simp [afterDrops, dropEvents]
  · have hz : s.v.len = 0 := by omega
    have hbody : (do
        let d ← VM.lift X GM.isDefault
        if d then pure () else do
          let n ← VM.lift X (len X.env)
          if n > 0 then do
            let es ← VM.rdRange it.ptr it.pos n
            VM.lift X (set_len X.env 0)
            VM.dropAll X es
          else pure () : VM Unit) s = (.ok (), s) := by
      simp only [VM.bind_run, e1, Bool.false_eq_true, if_false, e2, hn, VM.pure_run]
    rw [hbody]
    simp only
    have hv : ({ s.v with len := 0 } : VSt) = s.v := by
      cases hv : s.v; simp [hv] at *; exact hz.symm
    rw [hv] at habs0
    obtain ⟨_, hdv⟩ := dropVec_spec X hq s [] habs0
    obtain ⟨b', hb', hrun⟩ := hdv h.hd
    have : b' = b := by rw [hb] at hb'; exact (Option.some.inj hb').symm
    subst this
    rw [hrun]
    simp [afterDrops, dropEvents, iwindow, hz]

/-! ### the never-allocated vector -/

theorem into_default_steps (X : Ctx) (steps : List DStep) (s : St) (it : IntoIterSt) (hd : s.v.isDefault = true) :
    runInto X steps it s = (.ok ((specSteps steps []).1, it), s) := by
  have e1 : VM.lift X GM.isDefault s = (.ok true, s) := by rw [lift_isDefault, hd]
  have hn1 : IntoIter.next X it s = (.ok (none, it), s) := by
    unfold IntoIter.next; simp only [VM.bind_run, e1, if_true, VM.pure_run]
  have hn2 : IntoIter.next_back X it s = (.ok (none, it), s) := by
    unfold IntoIter.next_back; simp only [VM.bind_run, e1, if_true, VM.pure_run]
  have hl : IntoIter.len X s = (.ok 0, s) := by
    unfold IntoIter.len
    exact lift_read X _ s _ (by rw [len_run]; simp [GS.L, hsOf, hd])
  induction steps with
  | nil => rfl
  | cons stp rest ih =>
    cases stp <;> simp [runInto, hn1, hn2, hl, ih, specSteps]

theorem into_default_drop (X : Ctx) (s : St) (it : IntoIterSt) (h : Abs X s.v []) (hd : s.v.isDefault = true)
    (hq : ∀ k, X.o.panicAt k = false) :
    IntoIter.drop X it s = (.ok (), s) := by
  have e1 : VM.lift X GM.isDefault s = (.ok true, s) := by rw [lift_isDefault, hd]
  have hdv := (dropVec_spec X hq s [] h).1 hd
  unfold IntoIter.drop VM.guarded
  simp only [VM.bind_run, e1, if_true, VM.pure_run, hdv]

/-- (C10, IntoIter) creation, any interleaving of steps, `as_slice`, drop — on every storage state.
    `rem` is what the list iterator has left after the steps. -/
theorem C10_into_iter_partial (X : Ctx) (hq : ∀ k, X.o.panicAt k = false) (s : St) (es : List Elem)
    (h : Abs X s.v es) (steps : List DStep) :
    ∃ it it' s1, IntoIter.create X s = (.ok it, s) ∧
      runInto X steps it s = (.ok ((specSteps steps es).1, it'), s1) ∧ s1.sys = s.sys ∧
      IntoIter.as_slice X it' s1 = (.ok (specSteps steps es).2, s1) ∧
      ∃ s2, IntoIter.drop X it' s1 = (.ok (), s2) ∧ s2.v.isDefault = true ∧ s2.v.blk = none ∧
        ownEvents s2.sys.tr = ownEvents s.sys.tr ++ dropEvents X (specSteps steps es).2 := by
  cases hd : s.v.isDefault with
  | true =>
    have hnil := (h.sentinel hd).2
    subst hnil
    have e1 : VM.lift X GM.isDefault s = (.ok true, s) := by rw [lift_isDefault, hd]
    have hc : IntoIter.create X s = (.ok { ptr := .null, pos := 0 }, s) := by
      unfold IntoIter.create; simp only [VM.bind_run, e1, if_true, VM.pure_run]
    have hex := drain_exhausted steps { ptr := .null, pos := 0, stop := 0, tailPos := 0, tail := 0 } s (by simp)
    refine ⟨_, _, s, hc, into_default_steps X steps s _ hd, rfl, ?_, s, into_default_drop X s _ h hd hq, hd, (h.sentinel hd).1, ?_⟩
    · unfold IntoIter.as_slice; simp only [VM.bind_run, e1, if_true, VM.pure_run, hex.2]
    · simp [hex.2, dropEvents]
  | false =>
    obtain ⟨it, hc, hp, hinv, hlen⟩ := into_create_alloc X s es h hd
    have hw0 : iwindow it s.v.len es = es := by simp [iwindow, hp, hlen]
    obtain ⟨it', n', hrun, hinv', hw⟩ := into_protocol X steps s es it hinv
    rw [hw0] at hrun hw
    obtain ⟨b, hb, hl, hdrop⟩ := into_drop_spec X hq it' { s with v := { s.v with len := n' } } es hinv'
    refine ⟨it, it', _, hc, hrun, rfl, ?_, _, hdrop, rfl, rfl, ?_⟩
    · have := into_as_slice (s := { s with v := { s.v with len := n' } }) hinv'
      simp only at this
      rw [hw] at this; exact this
    · simp only [hw, ownEvents_append, afterDrops_own]
      simp [ownEvents, Ev.isOwn]

end MV.Props

#print axioms MV.Props.into_protocol
#print axioms MV.Props.into_as_slice
#print axioms MV.Props.into_drop_spec
#print axioms MV.Props.C10_into_iter_partial

import MiniVecProof.Props.C04
import MiniVecProof.Proofs.MemLoop
import MiniVecProof.Proofs.MemCtor
import MiniVecProof.Props.C12
import MiniVecProof.Props.C12CloneFrom
/-
  C04 — the growing loops under an ARBITRARY panic oracle: `extend` (the source iterator's `next()` may panic at any
  call), `resize_with` (the generator may panic at any call), `extend_from_slice` / `resize` (`Clone` may panic at
  any call). Each produces its elements one at a time and publishes each one before it asks for the next: whenever
  the call stops — normally, by the callback's panic, by a capacity overflow or by the allocation-failure abort — the
  vector is well formed and exposes the old elements followed by exactly the elements produced so far, in order
  (what `Vec` does; the orchestrator's `panic-prefix` oracle checks the same thing on the running code).
-/
namespace MV.Props
open MV MV.Gen MV.GM VM

/-- one round "ask user code for the next value, push it" under any oracle -/
def RoundAny (X : Ctx) (n : Nat) (val : Nat → Int) (f : Nat → VM Unit) : Prop :=
  ∀ (i : Nat) (s : St) (acc : List Elem), i < n → Abs X s.v acc →
    (∃ e s', f i s = (.ok (), s') ∧ Abs X s'.v (acc ++ [e]) ∧ e.val = val i) ∨
    (∃ p s', f i s = (.error p, s') ∧ Panic.benign p = true ∧ Abs X s'.v acc)

theorem forN_go_any (X : Ctx) (n : Nat) (val : Nat → Int) (f : Nat → VM Unit) (hf : RoundAny X n val f)
    (k : Nat) : ∀ (i : Nat) (s : St) (acc : List Elem), i + k ≤ n → Abs X s.v acc →
    ∃ r s' new, VM.forN.go f k i s = (r, s') ∧ Abs X s'.v (acc ++ new) ∧
      (∀ j (hj : j < new.length), new[j].val = val (i + j)) ∧ new.length ≤ k ∧
      (match r with | .ok _ => new.length = k | .error p => Panic.benign p = true) := by
  induction k with
  | zero =>
    intro i s acc _ h
    exact ⟨.ok (), s, [], by simp [VM.forN.go], by simpa using h, fun j hj => by simp at hj, Nat.le_refl _, rfl⟩
  | succ k ih =>
    intro i s acc hik h
    rcases hf i s acc (by omega) h with ⟨e, s1, hrun, habs, hv⟩ | ⟨p, s1, hrun, hb, habs⟩
    · obtain ⟨r, s2, new, hrun2, habs2, hvals, hle, hr⟩ := ih (i + 1) s1 (acc ++ [e]) (by omega) habs
      refine ⟨r, s2, e :: new, ?_, by simpa using habs2, ?_, by simp; omega, ?_⟩
      · unfold VM.forN.go; simp only [VM.bind_run, hrun, hrun2]
      · intro j hj
        cases j with
        | zero => simpa using hv
        | succ j =>
          have := hvals j (by simpa using hj)
          simpa [Nat.add_assoc, Nat.add_comm 1 j] using this
      · cases r with
        | ok u => simp only at hr ⊢; simp [hr]
        | error p => exact hr
    · refine ⟨.error p, s1, [], ?_, by simpa using habs, fun j hj => by simp at hj, Nat.zero_le _, hb⟩
      unfold VM.forN.go; simp only [VM.bind_run, hrun]

/-- a callback under any oracle: it returns or panics; only the callback counter moves -/
theorem callback_any (X : Ctx) (s : St) :
    VM.callback X s = (.ok (), { s with sys := { s.sys with cbIdx := s.sys.cbIdx + 1 } }) ∨
    VM.callback X s = (.error .explicit, { s with sys := { s.sys with cbIdx := s.sys.cbIdx + 1 } }) := by
  unfold VM.callback
  by_cases hp : X.o.panicAt s.sys.cbIdx = true
  · right; simp [hp]
  · left; simp [hp]

/-- "generator call, push" -/
theorem round_gen_push (X : Ctx) (n : Nat) (g : Nat → Int) :
    RoundAny X n g (fun k => do VM.callback X; let e ← VM.mkElem (g k); Vec.push X e) := by
  intro i s acc _ habs
  by_cases hp0 : X.o.panicAt s.sys.cbIdx = true
  · simp only [VM.bind_run, VM.callback, hp0, if_true]
    exact .inr ⟨.explicit, _, rfl, rfl, habs⟩
  · simp only [VM.bind_run, VM.callback, hp0, Bool.false_eq_true, if_false, mkElem_run]
    let s1 : St := { s with sys := { s.sys with cbIdx := s.sys.cbIdx + 1 } }
    let s2 : St := { s1 with sys := { s1.sys with nextId := s1.sys.nextId + 1 } }
    have hp := push_spec X s2 acc ⟨s1.sys.nextId, g i⟩ habs
    generalize Vec.push X ⟨s1.sys.nextId, g i⟩ s2 = out at hp
    cases hp with
    | pushed s' ha _ => exact .inl ⟨_, s', rfl, ha, rfl⟩
    | stopped p s' hv hb => exact .inr ⟨p, s', rfl, hb, by rw [hv]; exact habs⟩

/-- `Clone::clone` of an element under any oracle -/
theorem cloneElem_any (X : Ctx) (e : Elem) (s : St) :
    (∃ s', VM.cloneElem X e s = (.ok ⟨s.sys.nextId, e.val⟩, s') ∧ s'.v = s.v) ∨
    (∃ s', VM.cloneElem X e s = (.error .explicit, s') ∧ s'.v = s.v) := by
  unfold VM.cloneElem
  simp only [VM.bind_run]
  rcases callback_any X s with hc | hc
  · left; rw [hc]; simp only [VM.freshId, VM.emit, VM.pure_run]; exact ⟨_, rfl, rfl⟩
  · right; rw [hc]; exact ⟨_, rfl, rfl⟩

/-- "clone a source value, push it" -/
theorem round_clone_push (X : Ctx) (n : Nat) (src : Nat → Elem) :
    RoundAny X n (fun i => (src i).val) (fun i => do let e ← VM.cloneElem X (src i); Vec.push X e) := by
  intro i s acc _ habs
  simp only [VM.bind_run]
  rcases cloneElem_any X (src i) s with ⟨s1, hc, hv⟩ | ⟨s1, hc, hv⟩
  · rw [hc]
    simp only
    have hp := push_spec X s1 acc ⟨s.sys.nextId, (src i).val⟩ (by rw [hv]; exact habs)
    generalize Vec.push X ⟨s.sys.nextId, (src i).val⟩ s1 = out at hp
    cases hp with
    | pushed s' ha _ => exact .inl ⟨_, s', rfl, ha, rfl⟩
    | stopped p s' hv' hb => exact .inr ⟨p, s', rfl, hb, by rw [hv', hv]; exact habs⟩
  · rw [hc]
    exact .inr ⟨.explicit, s1, rfl, rfl, by rw [hv]; exact habs⟩

/-- after `reserve(n)` (whatever it did), `n` rounds under any oracle -/
theorem reserve_then_any (X : Ctx) (n : Nat) (val : Nat → Int) (f : Nat → VM Unit) (hf : RoundAny X n val f)
    (s : St) (es : List Elem) (h : Abs X s.v es) :
    ∃ r s' new, (do Vec.reserve X n; VM.forN n f : VM Unit) s = (r, s') ∧ Abs X s'.v (es ++ new) ∧
      (∀ j (hj : j < new.length), new[j].val = val j) ∧ new.length ≤ n ∧
      (match r with | .ok _ => new.length = n | .error p => Panic.benign p = true) := by
  have hr := reserve_mem X s es n h
  simp only [VM.bind_run]
  generalize Vec.reserve X n s = out at hr
  cases hr with
  | same =>
    have := forN_go_any X n val f hf n 0 s es (by omega) h
    simpa [VM.forN] using this
  | stopped p s' hv hp _ => exact ⟨.error p, s', [], rfl, by simpa [hv] using h, fun j hj => by simp at hj, Nat.zero_le _, hp⟩
  | grown s' habs _ _ _ _ =>
    have := forN_go_any X n val f hf n 0 s' es (by omega) habs
    simpa [VM.forN] using this

/-- **(C04) `extend_from_slice` under any panic oracle**: whenever it stops, the vector exposes the old elements
    followed by value-equal clones of a prefix of the slice — all of it if the call returned -/
theorem C04_extend_from_slice_any (X : Ctx) (elems : List Elem) (s : St) (es : List Elem) (h : Abs X s.v es) :
    ∃ r s' new, Vec.extend_from_slice X elems s = (r, s') ∧ Abs X s'.v (es ++ new) ∧
      new.map (·.val) = (elems.take new.length).map (·.val) ∧
      (match r with | .ok _ => new.length = elems.length | .error p => Panic.benign p = true) := by
  unfold Vec.extend_from_slice
  obtain ⟨r, s', new, hrun, habs, hvals, hle, hr⟩ :=
    reserve_then_any X elems.length _ _ (round_clone_push X elems.length (fun i => elems.getD i default)) s es h
  refine ⟨r, s', new, hrun, habs, ?_, hr⟩
  apply List.ext_getElem?
  intro j
  simp only [List.getElem?_map, List.getElem?_take]
  by_cases hj : j < new.length
  · rw [List.getElem?_eq_getElem hj, if_pos hj]
    have hj2 : j < elems.length := by omega
    simp [hvals j hj, List.getD_eq_getElem?_getD, List.getElem?_eq_getElem hj2]
  · rw [List.getElem?_eq_none (by omega), if_neg hj]

/-- **(C04) `resize_with` (growing) under any panic oracle**: the elements generated before the generator panicked
    (or the capacity ran out) stay, in call order -/
theorem C04_resize_with_any (X : Ctx) (newLen : Nat) (g : Nat → Int) (s : St) (es : List Elem) (h : Abs X s.v es)
    (hgt : es.length < newLen) :
    ∃ r s' new, Vec.resize_with X newLen g s = (r, s') ∧ Abs X s'.v (es ++ new) ∧
      new.map (·.val) = (List.range new.length).map g ∧ new.length ≤ newLen - es.length ∧
      (match r with | .ok _ => new.length = newLen - es.length | .error p => Panic.benign p = true) := by
  have hL : (hsOf s.v s.sys.allocIdx).L = es.length := h.len_eq
  have h1 : VM.lift X (resize_with_pre X.env newLen) s = (.ok (.cont ⟨newLen, es.length⟩), s) :=
    lift_read X _ s _ (by unfold resize_with_pre; simp only [len_run, GM.bind_run, hL, GM.pure_run])
  unfold Vec.resize_with
  simp only [VM.bind_run, h1]
  rw [if_neg (by omega), if_pos (by omega)]
  obtain ⟨r, s', new, hrun, habs, hvals, hle, hr⟩ :=
    reserve_then_any X (newLen - es.length) g _ (round_gen_push X (newLen - es.length) g) s es h
  refine ⟨r, s', new, hrun, habs, ?_, hle, hr⟩
  apply List.ext_getElem?
  intro j
  simp only [List.getElem?_map, List.getElem?_range]
  by_cases hj : j < new.length
  · rw [List.getElem?_eq_getElem hj]
    simp [hvals j hj, hj]
  · rw [List.getElem?_eq_none (by omega)]
    simp [hj]

/-- **(C04) `resize` (growing) under any panic oracle**: clones of `value` made before `Clone` panicked stay; `value`
    itself is destroyed at the end in every case (if its destructor panics while a panic is already unwinding, that
    is the abort) -/
theorem C04_resize_any (X : Ctx) (newLen : Nat) (value : Elem) (s : St) (es : List Elem) (h : Abs X s.v es)
    (hgt : es.length < newLen) :
    ∃ r s' new, Vec.resize X newLen value s = (r, s') ∧ Abs X s'.v (es ++ new) ∧
      (∀ e ∈ new, e.val = value.val) ∧ new.length ≤ newLen - es.length ∧
      (match r with | .ok _ => new.length = newLen - es.length | .error p => Panic.benign p = true) := by
  have hL : (hsOf s.v s.sys.allocIdx).L = es.length := h.len_eq
  have h1 : VM.lift X (resize_pre X.env newLen) s = (.ok (.cont ⟨newLen, es.length⟩), s) :=
    lift_read X _ s _ (by unfold resize_pre; simp only [len_run, GM.bind_run, hL, GM.pure_run])
  obtain ⟨r, s1, new, hrun, habs, hvals, hle, hr⟩ :=
    reserve_then_any X (newLen - es.length) _ _ (round_clone_push X (newLen - es.length) (fun _ => value)) s es h
  have hbody : Vec.resizeBody X newLen value s = (r, s1) := by
    unfold Vec.resizeBody
    simp only [VM.bind_run, h1]
    rw [if_neg (by omega), if_pos (by omega)]
    exact hrun
  have hall : ∀ e ∈ new, e.val = value.val := by
    intro e he
    obtain ⟨j, hj, rfl⟩ := List.getElem_of_mem he
    exact hvals j hj
  obtain ⟨rd, s2, hd, hv2, hrd, _⟩ := dropElem_any X value s1
  unfold Vec.resize VM.guarded
  rw [hbody]
  cases r with
  | ok u =>
    simp only at hr ⊢
    rw [hd]
    rcases hrd with rfl | rfl
    · exact ⟨.ok (), s2, new, rfl, by rw [hv2]; exact habs, hall, hle, hr⟩
    · exact ⟨.error .explicit, s2, new, rfl, by rw [hv2]; exact habs, hall, hle, rfl⟩
  | error p =>
    simp only at hr ⊢
    by_cases hu : VM.unwinds p = true
    · rw [if_pos hu, hd]
      rcases hrd with rfl | rfl
      · exact ⟨.error p, s2, new, rfl, by rw [hv2]; exact habs, hall, hle, hr⟩
      · refine ⟨.error .doublePanic, s2, new, ?_, by rw [hv2]; exact habs, hall, hle, rfl⟩
        simp [VM.unwinds]
    · rw [if_neg hu]
      exact ⟨.error p, s1, new, rfl, habs, hall, hle, hr⟩

/-- the push loop of `extend` / `collect` under any oracle: `next()` may panic at any call -/
theorem forIter_push_any (X : Ctx) :
    ∀ (it : Vec.IterScript) (fuel : Nat) (s : St) (acc : List Elem), it.length < fuel → Abs X s.v acc →
    ∃ r s' new, Vec.forIter X (Vec.push X) fuel it s = (r, s') ∧ Abs X s'.v (acc ++ new) ∧
      new.map (·.val) = (takeSome it).take new.length ∧
      (match r with | .ok rest => new.map (·.val) = takeSome it ∧ rest = afterNone it | .error p => Panic.benign p = true) := by
  intro it
  induction it with
  | nil =>
    intro fuel s acc hf h
    cases fuel with
    | zero => omega
    | succ fuel =>
      unfold Vec.forIter
      by_cases hp0 : X.o.panicAt s.sys.cbIdx = true
      · simp only [VM.bind_run, VM.callback, hp0, if_true]
        exact ⟨.error .explicit, _, [], rfl, by simpa using h, rfl, rfl⟩
      · simp only [VM.bind_run, VM.callback, hp0, Bool.false_eq_true, if_false, VM.pure_run]
        exact ⟨.ok [], _, [], rfl, by simpa using h, rfl, rfl, rfl⟩
  | cons o rest ih =>
    intro fuel s acc hf h
    cases fuel with
    | zero => omega
    | succ fuel =>
      unfold Vec.forIter
      by_cases hp0 : X.o.panicAt s.sys.cbIdx = true
      · simp only [VM.bind_run, VM.callback, hp0, if_true]
        exact ⟨.error .explicit, _, [], rfl, by simpa using h, rfl, rfl⟩
      · cases o with
        | none =>
          simp only [VM.bind_run, VM.callback, hp0, Bool.false_eq_true, if_false, VM.pure_run]
          exact ⟨.ok rest, _, [], rfl, by simpa using h, rfl, rfl, rfl⟩
        | some v =>
          simp only [VM.bind_run, VM.callback, hp0, Bool.false_eq_true, if_false, mkElem_run]
          let s1 : St := { s with sys := { s.sys with cbIdx := s.sys.cbIdx + 1 } }
          let s2 : St := { s1 with sys := { s1.sys with nextId := s1.sys.nextId + 1 } }
          have hp := push_spec X s2 acc ⟨s1.sys.nextId, v⟩ h
          generalize Vec.push X ⟨s1.sys.nextId, v⟩ s2 = out at hp
          cases hp with
          | pushed s' habs _ =>
            simp only
            obtain ⟨r, s'', new, hrun, habs', hv, hr⟩ := ih fuel s' (acc ++ [⟨s1.sys.nextId, v⟩]) (by simp at hf; omega) habs
            refine ⟨r, s'', ⟨s1.sys.nextId, v⟩ :: new, hrun, by simpa using habs', by simp [takeSome, hv], ?_⟩
            cases r with
            | ok rst => simp only at hr ⊢; exact ⟨by simp [takeSome, hr.1], hr.2⟩
            | error p => exact hr
          | stopped p s' hv hb =>
            exact ⟨.error p, s', [], rfl, by simpa [hv] using h, rfl, hb⟩

/-- **(C04) `extend` under any panic oracle** -/
theorem C04_extend_any (X : Ctx) (it : Vec.IterScript) (s : St) (es : List Elem) (h : Abs X s.v es) :
    ∃ r s' new, Vec.extend X it s = (r, s') ∧ Abs X s'.v (es ++ new) ∧
      new.map (·.val) = (takeSome it).take new.length ∧
      (match r with | .ok _ => new.map (·.val) = takeSome it | .error p => Panic.benign p = true) := by
  obtain ⟨r, s', new, hrun, habs, hv, hr⟩ := forIter_push_any X it (it.length + 1) s es (by omega) h
  unfold Vec.extend
  simp only [VM.bind_run, hrun]
  cases r with
  | ok rest => exact ⟨.ok (), s', new, rfl, habs, hv, hr.1⟩
  | error p => exact ⟨.error p, s', new, rfl, habs, hv, hr⟩

/-! ### `Clone for MiniVec` under any panic oracle -/

/-- `Drop for MiniVec` when destructors may panic: it returns, or the (first) destructor panic continues after every
    other element was destroyed too (the block is then leaked, not freed), or a second panic aborts -/
theorem dropVec_any (X : Ctx) (s : St) (es : List Elem) (h : Abs X s.v es) :
    ∃ r s', Vec.dropVec X s = (r, s') ∧ (r = .ok () ∨ r = .error .explicit ∨ r = .error .doublePanic) := by
  cases hd : s.v.isDefault with
  | true =>
    have h1 : VM.lift X (drop_impl_pre X.env) s = (.ok (.ret 0), s) :=
      lift_read X _ s _ (by simp [drop_impl_pre, hsOf, hd])
    refine ⟨.ok (), s, ?_, .inl rfl⟩
    unfold Vec.dropVec
    simp only [VM.bind_run, h1, VM.pure_run]
  | false =>
    obtain ⟨b, hb, hl, hs, hlc, hel, hinit⟩ := h.alloc hd
    have h1 : VM.lift X (drop_impl_pre X.env) s = (.ok (.cont ⟨s.v.len, s.v.cap, s.v.align⟩), s) :=
      lift_read X _ s _ (by simp [drop_impl_pre, hsOf, hd, GM.hdrLen, GM.hdrCap, GM.hdrAlign])
    have h2 : VM.lift X (data X.env) s = (.ok (.at (dataOff s.v.align)), s) :=
      lift_read X _ s _ (data_run X.env _ hd b.lay s.v.cap hl)
    have h3 := rdRange_abs X s es h hd s.v.len 0 (by omega)
    have h3' : (es.drop 0).take s.v.len = es := by simp [← hel]
    rw [h3'] at h3
    obtain ⟨r, s1, h4, hv1, hr, _, _⟩ := dropAll_any X es s
    unfold Vec.dropVec
    simp only [VM.bind_run, h1, h2, h3, h4]
    cases hr with
    | ok =>
      have h5 : VM.lift X (GM.liftE (make_layout X.env s.v.cap s.v.align)) s1 = (.ok b.lay, s1) :=
        lift_read X _ _ _ (by rw [hv1]; simp [hl])
      have hb' : s1.v.blk = some b := by rw [hv1]; exact hb
      simp only [h5, VM.getV_run, hb', if_true]
      exact ⟨_, _, rfl, .inl rfl⟩
    | panicked => exact ⟨_, _, rfl, .inr (.inl rfl)⟩
    | aborted => exact ⟨_, _, rfl, .inr (.inr rfl)⟩

/-- a local vector under any oracle: handed out on success; destroyed when the computation unwinds (a destructor
    panic at that point is the abort); the focus is restored either way -/
theorem withLocal_any {α} (X : Ctx) (x : VM α) (s : St) (Q : α → St → Prop)
    (hx : (∃ a s', x { s with v := {} } = (.ok a, s') ∧ Q a s') ∨
          (∃ p s' acc, x { s with v := {} } = (.error p, s') ∧ Panic.benign p = true ∧ Abs X s'.v acc)) :
    (∃ a s', Vec.withLocal X {} x s = (.ok (a, s'.v), { s' with v := s.v }) ∧ Q a s') ∨
    (∃ p s', Vec.withLocal X {} x s = (.error p, s') ∧ Panic.benign p = true ∧ s'.v = s.v) := by
  unfold Vec.withLocal
  rcases hx with ⟨a, s', hr, hQ⟩ | ⟨p, s', acc, hr, hb, habs⟩
  · exact .inl ⟨a, s', by rw [hr], hQ⟩
  · rw [hr]
    simp only
    by_cases hu : VM.unwinds p = true
    · obtain ⟨r, s2, hd, hcases⟩ := dropVec_any X s' acc habs
      rw [if_pos hu, hd]
      rcases hcases with rfl | rfl | rfl
      · exact .inr ⟨p, _, rfl, hb, rfl⟩
      · exact .inr ⟨.doublePanic, { s2 with v := s.v }, by simp [VM.unwinds], rfl, rfl⟩
      · exact .inr ⟨.doublePanic, { s2 with v := s.v }, by simp [VM.unwinds], rfl, rfl⟩
    · rw [if_neg hu]
      exact .inr ⟨p, _, rfl, hb, rfl⟩

/-- one round of the cloning loop, `Clone` free to panic -/
theorem clone_round_any (X : Ctx) (src : VSt) (es : List Elem) (h : Abs X src es) :
    RoundSpec X es.length (fun i e => (es[i]?).map (·.val) = some e.val) (fun i => do
      let e ← Vec.readOf X src i
      let e' ← VM.cloneElem X e
      Vec.push X e') := by
  intro i s acc hi habs
  simp only [VM.bind_run, readOf_spec X src es h i hi s]
  rcases cloneElem_any X es[i] s with ⟨s1, hc, hv⟩ | ⟨s1, hc, hv⟩
  · have hp := push_spec X s1 acc ⟨s.sys.nextId, es[i].val⟩ (by rw [hv]; exact habs)
    rw [hc]
    simp only
    generalize Vec.push X ⟨s.sys.nextId, es[i].val⟩ s1 = out at hp
    cases hp with
    | pushed s' habs' _ => exact .inl ⟨_, s', rfl, habs', by simp [List.getElem?_eq_getElem hi]⟩
    | stopped p s' hv' hb => exact .inr ⟨p, s', rfl, hb, by rw [hv', hv]⟩
  · rw [hc]
    exact .inr ⟨.explicit, s1, rfl, rfl, hv⟩

/-- **(C12 / C04) `Clone for MiniVec` when `Clone` (or, while unwinding, a destructor) may panic**: it returns a
    well-formed vector of value-equal clones, or stops — by that panic, a capacity overflow, the allocation-failure
    abort or the double-panic abort — and in EVERY case the source handle is exactly what it was -/
theorem C12_clone_any (X : Ctx) (s : St) (es : List Elem) (h : Abs X s.v es) :
    (∃ o s' es', Vec.clone X s = (.ok o, s') ∧ s'.v = s.v ∧ Abs X o es' ∧
        es'.map (·.val) = es.map (·.val)) ∨
    (∃ p s', Vec.clone X s = (.error p, s') ∧ Panic.benign p = true ∧ s'.v = s.v) := by
  unfold Vec.clone
  simp only [VM.bind_run, VM.getV_run, lift_isDefault]
  cases hd : s.v.isDefault with
  | true =>
    have hnil := (h.sentinel hd).2
    subst hnil
    have h1 := lift_new_empty X h.elem_pos s
    simp only [if_true, VM.bind_run, onVec_ok _ _ s _ _ h1, VM.pure_run]
    exact .inl ⟨_, _, [], rfl, rfl, Abs.sentinel_abs X h.elem_pos, rfl⟩
  | false =>
    have hL : (hsOf s.v s.sys.allocIdx).L = es.length := h.len_eq
    have hlen : VM.lift X (len X.env) s = (.ok es.length, s) := lift_read X _ s _ (by rw [len_run, hL])
    simp only [Bool.false_eq_true, if_false, VM.bind_run, hlen]
    -- the computation on the local
    have hx : (∃ a s', (do
          VM.lift X (new X.env)
          Vec.reserve X es.length
          VM.forN es.length (fun i => do
            let e ← Vec.readOf X s.v i
            let e' ← VM.cloneElem X e
            Vec.push X e') : VM Unit) { s with v := {} } = (.ok a, s') ∧
          ∃ es', Abs X s'.v es' ∧ es'.map (·.val) = es.map (·.val)) ∨
        (∃ p s' acc, (do
          VM.lift X (new X.env)
          Vec.reserve X es.length
          VM.forN es.length (fun i => do
            let e ← Vec.readOf X s.v i
            let e' ← VM.cloneElem X e
            Vec.push X e') : VM Unit) { s with v := {} } = (.error p, s') ∧ Panic.benign p = true ∧ Abs X s'.v acc) := by
      have h1 := lift_new_empty X h.elem_pos s
      have habs0 : Abs X ({ s with v := {} } : St).v [] := Abs.sentinel_abs X h.elem_pos
      have hres := reserve_mem X { s with v := {} } [] es.length habs0
      simp only [VM.bind_run, h1]
      generalize Vec.reserve X es.length { s with v := {} } = out at hres
      have loop : ∀ s1 : St, Abs X s1.v [] →
          (∃ a s', (match ((.ok (), s1) : Except Panic Unit × St) with
            | (.ok _, s') => VM.forN es.length (fun i => do
                let e ← Vec.readOf X s.v i
                let e' ← VM.cloneElem X e
                Vec.push X e') s'
            | (.error e, s') => (.error e, s')) = (.ok a, s') ∧
              ∃ es', Abs X s'.v es' ∧ es'.map (·.val) = es.map (·.val)) ∨
          (∃ p s' acc, (match ((.ok (), s1) : Except Panic Unit × St) with
            | (.ok _, s') => VM.forN es.length (fun i => do
                let e ← Vec.readOf X s.v i
                let e' ← VM.cloneElem X e
                Vec.push X e') s'
            | (.error e, s') => (.error e, s')) = (.error p, s') ∧ Panic.benign p = true ∧ Abs X s'.v acc) := by
        intro s1 habs1
        simp only
        rcases forN_spec X es.length _ _ (clone_round_any X s.v es h) s1 [] habs1 with
          ⟨l, s2, hrun, habs2, hl, hP⟩ | ⟨p, s2, acc, hrun, hb, habs2⟩
        · refine .inl ⟨(), s2, hrun, l, by simpa using habs2, ?_⟩
          apply List.ext_getElem?
          intro j
          simp only [List.getElem?_map]
          by_cases hj : j < l.length
          · have := hP j hj
            rw [List.getElem?_eq_getElem hj]
            simp only [Option.map_some]
            rw [← this]
          · rw [List.getElem?_eq_none (by omega), List.getElem?_eq_none (by omega)]
        · exact .inr ⟨p, s2, acc, hrun, hb, habs2⟩
      cases hres with
      | same => exact loop _ habs0
      | stopped p s' hv hp _ => exact .inr ⟨p, s', [], rfl, hp, by rw [hv]; exact habs0⟩
      | grown s' habs _ _ _ _ => exact loop s' habs
    rcases withLocal_any X _ s (fun _ s' => ∃ es', Abs X s'.v es' ∧ es'.map (·.val) = es.map (·.val)) hx with
      ⟨a, s', hrun, es', habs, hvals⟩ | ⟨p, s', hrun, hb, hv⟩
    · rw [hrun]
      exact .inl ⟨s'.v, _, es', rfl, rfl, habs, hvals⟩
    · rw [hrun]
      exact .inr ⟨p, s', rfl, hb, hv⟩



/-- **(C04) `collect` / `FromIterator` under any panic oracle** (`next()` may panic at any call, and so may a destructor
    while the partial result is unwound): a well-formed vector holding exactly what the iterator produced up to its
    first `None`, or a sanctioned stop after which the partial result is gone; the caller's vector is untouched in
    every outcome -/
theorem C04_collect_any (X : Ctx) (it : Vec.IterScript) (s : St) (hz : 0 < X.c.elemSize) :
    (∃ o s' new, Vec.collect X it s = (.ok (o, afterNone it), s') ∧ s'.v = s.v ∧ Abs X o new ∧
        new.map (·.val) = takeSome it) ∨
    (∃ p s', Vec.collect X it s = (.error p, s') ∧ Panic.benign p = true ∧ s'.v = s.v) := by
  unfold Vec.collect
  simp only [VM.bind_run]
  have hx : (∃ a s', (do
        VM.lift X (new X.env)
        Vec.forIter X (Vec.push X) (it.length + 1) it : VM Vec.IterScript) { s with v := {} } = (.ok a, s') ∧
        (a = afterNone it ∧ ∃ new, Abs X s'.v new ∧ new.map (·.val) = takeSome it)) ∨
      (∃ p s' acc, (do
        VM.lift X (new X.env)
        Vec.forIter X (Vec.push X) (it.length + 1) it : VM Vec.IterScript) { s with v := {} } = (.error p, s') ∧
        Panic.benign p = true ∧ Abs X s'.v acc) := by
    have h1 := lift_new_empty X hz s
    simp only [VM.bind_run, h1]
    obtain ⟨r, s', new, hrun, habs, _, hr⟩ :=
      forIter_push_any X it (it.length + 1) { s with v := {} } [] (by omega) (Abs.sentinel_abs X hz)
    cases r with
    | ok rest => exact .inl ⟨_, s', hrun, hr.2, new, by simpa using habs, hr.1⟩
    | error p => exact .inr ⟨p, s', [] ++ new, hrun, hr, habs⟩
  rcases withLocal_any X _ s (fun a s' => a = afterNone it ∧ ∃ new, Abs X s'.v new ∧ new.map (·.val) = takeSome it) hx with
    ⟨a, s', hrun, ha, new, habs, hv⟩ | ⟨p, s', hrun, hb, hv⟩
  · rw [hrun]
    subst ha
    exact .inl ⟨s'.v, _, new, rfl, rfl, habs, hv⟩
  · rw [hrun]
    exact .inr ⟨p, s', rfl, hb, hv⟩

/-- **(C04) `MiniVec::from(&[T])` under any panic oracle** (`Clone` may panic at any call, a destructor while the partial
    result is unwound): a well-formed vector of value-equal clones, or a sanctioned stop after which the partial result
    is gone; the caller's vector is untouched in every outcome -/
theorem C04_from_slice_any (X : Ctx) (hz : 0 < X.c.elemSize) (elems : List Elem) (s : St) :
    (∃ o s' new, Vec.from_slice X elems s = (.ok o, s') ∧ s'.v = s.v ∧ Abs X o new ∧
        new.map (·.val) = elems.map (·.val)) ∨
    (∃ p s', Vec.from_slice X elems s = (.error p, s') ∧ Panic.benign p = true ∧ s'.v = s.v) := by
  have hround := round_clone_push X elems.length (fun i => elems.getD i default)
  have hx : (∃ a s', (do
        VM.lift X (with_capacity X.env elems.length)
        VM.forN elems.length (fun i => do
          let e ← VM.cloneElem X (elems.getD i default)
          Vec.push X e) : VM Unit) { s with v := {} } = (.ok a, s') ∧
        ∃ new, Abs X s'.v new ∧ new.map (·.val) = elems.map (·.val)) ∨
      (∃ p s' acc, (do
        VM.lift X (with_capacity X.env elems.length)
        VM.forN elems.length (fun i => do
          let e ← VM.cloneElem X (elems.getD i default)
          Vec.push X e) : VM Unit) { s with v := {} } = (.error p, s') ∧ Panic.benign p = true ∧ Abs X s'.v acc) := by
    have hwc := with_capacity_mem X hz { s with v := {} } rfl elems.length
    have habs0 : Abs X ({ s with v := {} } : St).v [] := Abs.sentinel_abs X hz
    simp only [VM.bind_run]
    generalize VM.lift X (with_capacity X.env elems.length) { s with v := {} } = out at hwc
    have loop : ∀ s1 : St, Abs X s1.v [] →
        (∃ a s', VM.forN elems.length (fun i => do
          let e ← VM.cloneElem X (elems.getD i default)
          Vec.push X e) s1 = (.ok a, s') ∧ ∃ new, Abs X s'.v new ∧ new.map (·.val) = elems.map (·.val)) ∨
        (∃ p s' acc, VM.forN elems.length (fun i => do
          let e ← VM.cloneElem X (elems.getD i default)
          Vec.push X e) s1 = (.error p, s') ∧ Panic.benign p = true ∧ Abs X s'.v acc) := by
      intro s1 h1
      obtain ⟨r, s2, l, hrun, habs2, hvals, _, hr⟩ := forN_go_any X elems.length _ _ hround elems.length 0 s1 [] (by omega) h1
      cases r with
      | error p => exact .inr ⟨p, s2, [] ++ l, by simpa [VM.forN] using hrun, hr, habs2⟩
      | ok u =>
        simp only at hr
        refine .inl ⟨(), s2, by simpa [VM.forN] using hrun, l, by simpa using habs2, ?_⟩
        apply List.ext_getElem?
        intro j
        simp only [List.getElem?_map]
        by_cases hj : j < l.length
        · have hj2 : j < elems.length := by omega
          rw [List.getElem?_eq_getElem hj, List.getElem?_eq_getElem hj2]
          have := hvals j hj
          simp only [Nat.zero_add, List.getD_eq_getElem?_getD, List.getElem?_eq_getElem hj2, Option.getD_some] at this
          simp [this]
        · rw [List.getElem?_eq_none (by omega), List.getElem?_eq_none (by omega)]
    cases hwc with
    | same => exact loop _ habs0
    | stopped p s' hv hp _ => exact .inr ⟨p, s', [], rfl, hp, by rw [hv]; exact habs0⟩
    | grown s' habs _ _ _ _ => exact loop s' habs
  unfold Vec.from_slice
  simp only [VM.bind_run]
  rcases withLocal_any X _ s (fun _ s' => ∃ new, Abs X s'.v new ∧ new.map (·.val) = elems.map (·.val)) hx with
    ⟨a, s', hrun, new, habs, hvals⟩ | ⟨p, s', hrun, hb, hv⟩
  · rw [hrun]
    exact .inl ⟨s'.v, _, new, rfl, rfl, habs, hvals⟩
  · rw [hrun]
    exact .inr ⟨p, s', rfl, hb, hv⟩

/-- **(C12 / C04) `clone_from` when `Clone` or a destructor may panic at any call**: if cloning stops, `self` is exactly
    what it was; otherwise `self` ends up holding the value-equal clones in a well-formed block — also when a destructor
    of one of its previous elements panicked (the new value is in place before the panic continues) — or the process
    aborts (a second panic while unwinding). The source is a parameter: it is never written. -/
theorem C12_clone_from_any (X : Ctx) (s : St) (es os : List Elem) (src : VSt)
    (h : Abs X s.v es) (ho : Abs X src os) :
    (∃ r s' new, Vec.clone_from X src s = (r, s') ∧ (r = .ok () ∨ r = .error .explicit) ∧ Abs X s'.v new ∧
        new.map (·.val) = os.map (·.val)) ∨
    (∃ p s', Vec.clone_from X src s = (.error p, s') ∧ Panic.benign p = true ∧ s'.v = s.v) ∨
    (∃ s', Vec.clone_from X src s = (.error .doublePanic, s')) := by
  unfold Vec.clone_from
  simp only [VM.bind_run]
  rcases C12_clone_any X { s with v := src } os ho with ⟨o, s1, new, hc, hv1, habs, hvals⟩ | ⟨p, s1, hc, hb, hv1⟩
  · rw [onVec_ok src (Vec.clone X) s _ _ hc]
    simp only
    obtain ⟨r, s2, hd2, hr⟩ := dropVec_any X { s1 with v := s.v } es h
    unfold VM.guarded
    rw [hd2]
    rcases hr with hr | hr | hr <;> subst hr
    · simp only [VM.setV]
      exact .inl ⟨_, _, new, rfl, .inl rfl, habs, hvals⟩
    · simp only [unwinds, if_true, VM.setV]
      exact .inl ⟨_, _, new, rfl, .inr rfl, habs, hvals⟩
    · simp only [unwinds]
      exact .inr (.inr ⟨_, rfl⟩)
  · have : VM.onVec src (Vec.clone X) s = (.error p, { s1 with v := s.v }) := by
      unfold VM.onVec; rw [hc]
    rw [this]
    exact .inr (.inl ⟨p, _, rfl, hb, rfl⟩)

end MV.Props


#print axioms MV.Props.C04_extend_from_slice_any
#print axioms MV.Props.C04_resize_with_any
#print axioms MV.Props.C04_resize_any
#print axioms MV.Props.C04_extend_any
#print axioms MV.Props.C12_clone_any
#print axioms MV.Props.C12_clone_from_any
#print axioms MV.Props.C04_collect_any
#print axioms MV.Props.C04_from_slice_any

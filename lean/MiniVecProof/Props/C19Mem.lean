import MiniVecProof.Proofs.MemCtor
import MiniVecProof.Proofs.MemRetain
import MiniVecProof.Proofs.MemDrainFilter
import MiniVecProof.Model.Serde
import MiniVecProof.Props.C19
/-
  C19 (a), (b), (d) — serde on the memory model, with an ARBITRARY scripted `SeqAccess` (values,
  an element error anywhere, an early `Ok(None)` followed by more items that must never be asked
  for) and an ARBITRARY claimed length.

  (a) `deserialize`: without an element error before the end of the sequence the result is a
      well-formed vector holding exactly the values the access yields before its end, in order —
      whatever length the input claims; with an error the result is `Err` and the partly built
      vector has been dropped; either way the caller's state is as it was.
  (b) `deserialize_in_place`: the destination ends up holding exactly those values, whatever it
      held before (shorter, longer, over-aligned, never allocated).
  (d) an element error part-way leaves the destination well formed.
  Sanctioned stops (capacity overflow, allocation failure) leave a well-formed vector behind.
-/
namespace MV.Props
open MV MV.Gen MV.GM VM

/-- what a visitor that stops at the first `Ok(None)` / `Err` sees: the values, and whether it was an `Err` -/
def seqScan : List SeqItem → List Int × Bool
  | [] => ([], false)
  | .none :: _ => ([], false)
  | .err :: _ => ([], true)
  | .val v :: rest => (v :: (seqScan rest).1, (seqScan rest).2)

theorem nextElement_val (X : Ctx) (hq : ∀ k, X.o.panicAt k = false) (v : Int) (rest : List SeqItem) (s : St) :
    Serde.nextElement X (.val v :: rest) s =
      (.ok (.ok (some ⟨s.sys.nextId, v⟩), rest),
       { s with sys := { s.sys with cbIdx := s.sys.cbIdx + 1, nextId := s.sys.nextId + 1 } }) := by
  simp [Serde.nextElement, VM.bind_run, VM.callback, hq, VM.mkElem, VM.freshId]

theorem nextElement_end (X : Ctx) (hq : ∀ k, X.o.panicAt k = false) (s : St) :
    Serde.nextElement X [] s = (.ok (.ok none, []), { s with sys := { s.sys with cbIdx := s.sys.cbIdx + 1 } }) ∧
    (∀ rest, Serde.nextElement X (.none :: rest) s = (.ok (.ok none, rest), { s with sys := { s.sys with cbIdx := s.sys.cbIdx + 1 } })) ∧
    (∀ rest, Serde.nextElement X (.err :: rest) s = (.ok (.error (), rest), { s with sys := { s.sys with cbIdx := s.sys.cbIdx + 1 } })) := by
  simp [Serde.nextElement, VM.bind_run, VM.callback, hq]

/-- the push loop of both visitors -/
theorem pushRest_spec (X : Ctx) (hq : ∀ k, X.o.panicAt k = false) :
    ∀ (sc : List SeqItem) (fuel : Nat) (s : St) (acc : List Elem), sc.length < fuel → Abs X s.v acc →
    (∃ s' new, Serde.pushRest X fuel sc s = (.ok (!(seqScan sc).2), s') ∧ Abs X s'.v (acc ++ new) ∧
        new.map (·.val) = (seqScan sc).1) ∨
    (∃ p s' acc', Serde.pushRest X fuel sc s = (.error p, s') ∧ Panic.benign p = true ∧ Abs X s'.v acc') := by
  intro sc
  induction sc with
  | nil =>
    intro fuel s acc hf h
    cases fuel with
    | zero => omega
    | succ fuel =>
      refine .inl ⟨{ s with sys := { s.sys with cbIdx := s.sys.cbIdx + 1 } }, [], ?_, by simpa using h, rfl⟩
      unfold Serde.pushRest
      simp only [VM.bind_run, (nextElement_end X hq s).1, VM.pure_run, seqScan, Bool.not_false]
  | cons it rest ih =>
    intro fuel s acc hf h
    cases fuel with
    | zero => omega
    | succ fuel =>
      cases it with
      | none =>
        refine .inl ⟨{ s with sys := { s.sys with cbIdx := s.sys.cbIdx + 1 } }, [], ?_, by simpa using h, rfl⟩
        unfold Serde.pushRest
        simp only [VM.bind_run, (nextElement_end X hq s).2.1, VM.pure_run, seqScan, Bool.not_false]
      | err =>
        refine .inl ⟨{ s with sys := { s.sys with cbIdx := s.sys.cbIdx + 1 } }, [], ?_, by simpa using h, rfl⟩
        unfold Serde.pushRest
        simp only [VM.bind_run, (nextElement_end X hq s).2.2, VM.pure_run, seqScan, Bool.not_true]
      | val v =>
        let s1 : St := { s with sys := { s.sys with cbIdx := s.sys.cbIdx + 1, nextId := s.sys.nextId + 1 } }
        have hp := push_spec X s1 acc ⟨s.sys.nextId, v⟩ h
        unfold Serde.pushRest
        simp only [VM.bind_run, nextElement_val X hq]
        generalize Vec.push X ⟨s.sys.nextId, v⟩ s1 = out at hp
        cases hp with
        | pushed s' habs _ =>
          simp only
          rcases ih fuel s' (acc ++ [⟨s.sys.nextId, v⟩]) (by simp at hf; omega) habs with
            ⟨s'', new, hrun, habs', hv⟩ | ⟨p, s'', acc', hrun, hb, habs'⟩
          · refine .inl ⟨s'', ⟨s.sys.nextId, v⟩ :: new, ?_, by simpa using habs', by simp [seqScan, hv]⟩
            rw [hrun]; simp [seqScan]
          · exact .inr ⟨p, s'', acc', hrun, hb, habs'⟩
        | stopped p s' hv hb =>
          exact .inr ⟨p, s', acc, rfl, hb, by rw [hv]; exact h⟩

theorem lift_map_size_hint (X : Ctx) (hint : Option Nat) (s : St) :
    ∃ hcap, hcap ≤ 1024 ∧ VM.lift X (GM.liftE (map_size_hint X.env hint)) s = (.ok hcap, s) := by
  obtain ⟨hcap, hm, hle, _⟩ := C19_hint_capped X.env hint
  exact ⟨hcap, hle, lift_read X _ s _ (by simp [GM.liftE, hm])⟩

/-- (C19 a) `MiniVec::deserialize` -/
theorem C19_deserialize_partial (X : Ctx) (hq : ∀ k, X.o.panicAt k = false) (hz : 0 < X.c.elemSize)
    (hint : Option Nat) (sc : List SeqItem) (s : St) :
    ((seqScan sc).2 = false ∧ ∃ o s' new, Serde.deserialize X hint sc s = (.ok (some o), s') ∧ s'.v = s.v ∧ Abs X o new ∧
        new.map (·.val) = (seqScan sc).1) ∨
    ((seqScan sc).2 = true ∧ ∃ s', Serde.deserialize X hint sc s = (.ok none, s') ∧ s'.v = s.v) ∨
    (∃ p s', Serde.deserialize X hint sc s = (.error p, s') ∧ Panic.benign p = true ∧ s'.v = s.v) := by
  obtain ⟨hcap, _, hm⟩ := lift_map_size_hint X hint s
  unfold Serde.deserialize
  simp only [VM.bind_run, hm]
  have hx : (∃ a s', (do
        VM.lift X (with_capacity X.env hcap)
        Serde.pushRest X (sc.length + 1) sc : VM Bool) { s with v := {} } = (.ok a, s') ∧
        (a = !(seqScan sc).2 ∧ ∃ new, Abs X s'.v new ∧ new.map (·.val) = (seqScan sc).1)) ∨
      (∃ p s' acc, (do
        VM.lift X (with_capacity X.env hcap)
        Serde.pushRest X (sc.length + 1) sc : VM Bool) { s with v := {} } = (.error p, s') ∧
        Panic.benign p = true ∧ Abs X s'.v acc) := by
    have hwc := with_capacity_mem X hz { s with v := {} } rfl hcap
    have habs0 : Abs X ({ s with v := {} } : St).v [] := Abs.sentinel_abs X hz
    simp only [VM.bind_run]
    generalize VM.lift X (with_capacity X.env hcap) { s with v := {} } = out at hwc
    have loop : ∀ s1 : St, Abs X s1.v [] →
        (∃ a s', Serde.pushRest X (sc.length + 1) sc s1 = (.ok a, s') ∧
          (a = !(seqScan sc).2 ∧ ∃ new, Abs X s'.v new ∧ new.map (·.val) = (seqScan sc).1)) ∨
        (∃ p s' acc, Serde.pushRest X (sc.length + 1) sc s1 = (.error p, s') ∧ Panic.benign p = true ∧ Abs X s'.v acc) := by
      intro s1 h1
      rcases pushRest_spec X hq sc (sc.length + 1) s1 [] (by omega) h1 with ⟨s', new, hrun, habs, hv⟩ | ⟨p, s', acc, hrun, hb, habs⟩
      · exact .inl ⟨_, s', hrun, rfl, new, by simpa using habs, hv⟩
      · exact .inr ⟨p, s', acc, hrun, hb, habs⟩
    cases hwc with
    | same => exact loop _ habs0
    | stopped p s' hv hp _ => exact .inr ⟨p, s', [], rfl, hp, by rw [hv]; exact habs0⟩
    | grown s' habs _ _ _ _ => exact loop s' habs
  rcases withLocal_spec X hq _ s (fun a s' => a = !(seqScan sc).2 ∧ ∃ new, Abs X s'.v new ∧ new.map (·.val) = (seqScan sc).1) hx with
    ⟨a, s', hrun, ha, new, habs, hv⟩ | ⟨p, s', hrun, hb, hv⟩
  · rw [hrun]
    subst ha
    cases he : (seqScan sc).2 with
    | false =>
      simp only [Bool.not_false, if_true, VM.pure_run]
      exact .inl ⟨trivial, s'.v, _, new, rfl, rfl, habs, hv⟩
    | true =>
      simp only [Bool.not_true, Bool.false_eq_true, if_false, VM.bind_run]
      obtain ⟨s2, hd2⟩ := dropVec_ok X hq { s' with v := s'.v } new habs
      have hov := onVec_ok s'.v (Vec.dropVec X) { s' with v := s.v } () s2 (by simpa using hd2)
      rw [hov]
      exact .inr (.inl ⟨trivial, _, rfl, rfl⟩)
  · rw [hrun]
    exact .inr (.inr ⟨p, s', rfl, hb, hv⟩)

/-! ### `deserialize_in_place` -/

/-- the state after one `next_element` call that produced a value / that did not -/
def afterNext (s : St) : St := { s with sys := { s.sys with cbIdx := s.sys.cbIdx + 1, nextId := s.sys.nextId + 1 } }
def afterPoll (s : St) : St := { s with sys := { s.sys with cbIdx := s.sys.cbIdx + 1 } }

theorem nextElement_val' (X : Ctx) (hq : ∀ k, X.o.panicAt k = false) (v : Int) (rest : List SeqItem) (s : St) :
    Serde.nextElement X (.val v :: rest) s = (.ok (.ok (some ⟨s.sys.nextId, v⟩), rest), afterNext s) :=
  nextElement_val X hq v rest s

theorem nextElement_end' (X : Ctx) (hq : ∀ k, X.o.panicAt k = false) (s : St) :
    Serde.nextElement X [] s = (.ok (.ok none, []), afterPoll s) ∧
    (∀ rest, Serde.nextElement X (.none :: rest) s = (.ok (.ok none, rest), afterPoll s)) ∧
    (∀ rest, Serde.nextElement X (.err :: rest) s = (.ok (.error (), rest), afterPoll s)) :=
  nextElement_end X hq s

/-- writing one exposed slot -/
theorem wr_set_abs (X : Ctx) (s : St) (cur : List Elem) (h : Abs X s.v cur) (hd : s.v.isDefault = false) (i : Nat)
    (hi : i < cur.length) (e : Elem) :
    ∃ v', VM.wr (.at (dataOff s.v.align)) i e s = (.ok (), { s with v := v' }) ∧ Abs X v' (cur.set i e) ∧
      v'.isDefault = false ∧ v'.align = s.v.align ∧ v'.cap = s.v.cap := by
  obtain ⟨b, hb, hl, hsl, hlc, hel, hinit⟩ := h.alloc hd
  have hcapb : s.v.cap ≤ b.slots.length := by rw [hsl]; exact physSlots_ge X.env _ _ _ hl h.elem_pos
  have h1 := wr_abs X s cur h hd b hb i (by omega) e
  refine ⟨_, h1, ?_, hd, rfl, rfl⟩
  refine ⟨h.elem_pos, fun hx => by simp [hd] at hx, fun _ => ⟨_, rfl, hl, by simpa using hsl, hlc, by simpa using hel, ?_⟩⟩
  intro j hj
  simp only [List.getElem?_set]
  by_cases hji : i = j
  · subst hji; simp [show i < b.slots.length by omega, hi]
  · simp [hji]; exact hinit j hj

inductive OwRes
  | full (vals : List Int) (rest : List SeqItem)
  | short (vals : List Int)
  | err (vals : List Int)

/-- the overwrite loop over `m` old slots, on the script alone -/
def owScan : Nat → List SeqItem → OwRes
  | 0, sc => .full [] sc
  | _ + 1, [] => .short []
  | _ + 1, .none :: _ => .short []
  | _ + 1, .err :: _ => .err []
  | m + 1, .val v :: rest =>
    match owScan m rest with
    | .full vs r => .full (v :: vs) r
    | .short vs => .short (v :: vs)
    | .err vs => .err (v :: vs)

theorem owScan_seqScan (m : Nat) (sc : List SeqItem) :
    (∀ vs r, owScan m sc = .full vs r → seqScan sc = (vs ++ (seqScan r).1, (seqScan r).2) ∧ vs.length = m) ∧
    (∀ vs, owScan m sc = .short vs → seqScan sc = (vs, false)) ∧
    (∀ vs, owScan m sc = .err vs → seqScan sc = (vs, true)) := by
  induction m generalizing sc with
  | zero => simp [owScan]
  | succ m ih =>
    cases sc with
    | nil => simp [owScan, seqScan]
    | cons it rest =>
      cases it with
      | none => simp [owScan, seqScan]
      | err => simp [owScan, seqScan]
      | val v =>
        obtain ⟨h1, h2, h3⟩ := ih rest
        simp only [owScan, seqScan]
        cases hm : owScan m rest with
        | full vs r =>
          obtain ⟨e1, e2⟩ := h1 vs r hm
          simp [e1, e2]
        | short vs => simp [h2 vs hm]
        | err vs => simp [h3 vs hm]

theorem overwrite_spec (X : Ctx) (hq : ∀ k, X.o.panicAt k = false) :
    ∀ (old newv : List Elem) (sc : List SeqItem) (s : St) (fuel : Nat), Abs X s.v (newv ++ old) →
    (old ≠ [] → s.v.isDefault = false) → old.length < fuel →
    (∀ vs r, owScan old.length sc = .full vs r → ∃ s' new, Serde.overwrite X fuel newv.length (newv.length + old.length) sc s = (.ok (.ok true, r), s') ∧
        Abs X s'.v (newv ++ new) ∧ new.map (·.val) = vs) ∧
    (∀ vs, owScan old.length sc = .short vs → ∃ s' new r', Serde.overwrite X fuel newv.length (newv.length + old.length) sc s = (.ok (.ok false, r'), s') ∧
        Abs X s'.v (newv ++ new) ∧ new.map (·.val) = vs) ∧
    (∀ vs, owScan old.length sc = .err vs → ∃ s' cur r', Serde.overwrite X fuel newv.length (newv.length + old.length) sc s = (.ok (.error (), r'), s') ∧
        Abs X s'.v cur) := by
  intro old
  induction old with
  | nil =>
    intro newv sc s fuel h _ hf
    cases fuel with
    | zero => omega
    | succ fuel =>
      refine ⟨?_, ?_, ?_⟩
      · intro vs r hs
        simp only [List.length_nil, owScan, OwRes.full.injEq] at hs
        obtain ⟨rfl, rfl⟩ := hs
        refine ⟨s, [], ?_, by simpa using h, rfl⟩
        unfold Serde.overwrite
        simp
      · intro vs hs; simp [owScan] at hs
      · intro vs hs; simp [owScan] at hs
  | cons o old ih =>
    intro newv sc s fuel h hdd hf
    have hd : s.v.isDefault = false := hdd (by simp)
    cases fuel with
    | zero => omega
    | succ fuel =>
      have hlt : newv.length < newv.length + (o :: old).length := by simp
      unfold Serde.overwrite
      simp only [hlt, if_true, VM.bind_run]
      cases sc with
      | nil =>
        simp only [(nextElement_end' X hq s).1]
        obtain ⟨v', ht, habs, _⟩ := truncate_spec X hq (afterPoll s) (newv ++ o :: old) newv.length h
        refine ⟨by intro vs r hs; simp [owScan] at hs, ?_, by intro vs hs; simp [owScan] at hs⟩
        intro vs hs
        simp only [List.length_cons, owScan, OwRes.short.injEq] at hs
        subst hs
        refine ⟨{ afterDrops X (afterPoll s) ((newv ++ o :: old).drop newv.length) with v := v' }, [], [], ?_, by simpa using habs, rfl⟩
        simp only [VM.bind_run, ht, VM.pure_run]
      | cons it rest =>
        cases it with
        | none =>
          simp only [(nextElement_end' X hq s).2.1]
          obtain ⟨v', ht, habs, _⟩ := truncate_spec X hq (afterPoll s) (newv ++ o :: old) newv.length h
          refine ⟨by intro vs r hs; simp [owScan] at hs, ?_, by intro vs hs; simp [owScan] at hs⟩
          intro vs hs
          simp only [List.length_cons, owScan, OwRes.short.injEq] at hs
          subst hs
          refine ⟨{ afterDrops X (afterPoll s) ((newv ++ o :: old).drop newv.length) with v := v' }, [], rest, ?_, by simpa using habs, rfl⟩
          simp only [VM.bind_run, ht, VM.pure_run]
        | err =>
          simp only [(nextElement_end' X hq s).2.2]
          refine ⟨by intro vs r hs; simp [owScan] at hs, by intro vs hs; simp [owScan] at hs, ?_⟩
          intro vs hs
          exact ⟨_, newv ++ o :: old, rest, rfl, h⟩
        | val v =>
          simp only [nextElement_val' X hq]
          obtain ⟨b, hb, hl, _⟩ := h.alloc hd
          have h2 : VM.lift X (as_mut_ptr X.env) (afterNext s) = (.ok (.at (dataOff s.v.align)), (afterNext s)) :=
            lift_read X _ (afterNext s) _ (as_mut_ptr_run X.env _ hd b.lay s.v.cap hl)
          have hi : newv.length < (newv ++ o :: old).length := by simp
          have he : (newv ++ o :: old)[newv.length] = o := by simp
          have h3 : VM.rd (.at (dataOff s.v.align)) newv.length (afterNext s) = (.ok o, afterNext s) := by
            have := rd_abs X (afterNext s) _ h hd newv.length hi
            rw [he] at this; exact this
          have h4 := dropElem_quiet' X hq o (afterNext s)
          obtain ⟨v', hw, habs', hd', hal', _⟩ := wr_set_abs X (afterDrops X (afterNext s) [o]) _ h hd newv.length hi ⟨s.sys.nextId, v⟩
          have hset : (newv ++ o :: old).set newv.length ⟨s.sys.nextId, v⟩ = (newv ++ [⟨s.sys.nextId, v⟩]) ++ old := by simp
          rw [hset] at habs'
          have hw' : VM.wr (.at (dataOff s.v.align)) newv.length ⟨s.sys.nextId, v⟩ (afterDrops X (afterNext s) [o]) =
              (.ok (), { afterDrops X (afterNext s) [o] with v := v' }) := hw
          have hstep : VM.guarded (VM.dropElem X o) (VM.wr (.at (dataOff s.v.align)) newv.length ⟨s.sys.nextId, v⟩) (afterNext s) =
              (.ok (), { afterDrops X (afterNext s) [o] with v := v' }) := by
            unfold VM.guarded; rw [h4]; simp only; rw [hw']
          simp only [VM.bind_run, h2, h3, hstep]
          have hrec := ih (newv ++ [⟨s.sys.nextId, v⟩]) rest { afterDrops X (afterNext s) [o] with v := v' } fuel habs' (fun _ => hd')
            (by simp at hf; omega)
          have hlen : (newv ++ [(⟨s.sys.nextId, v⟩ : Elem)]).length + old.length = newv.length + (o :: old).length := by simp; omega
          have hlen1 : (newv ++ [(⟨s.sys.nextId, v⟩ : Elem)]).length = newv.length + 1 := by simp
          rw [hlen, hlen1] at hrec
          obtain ⟨r1, r2, r3⟩ := hrec
          simp only [List.length_cons, owScan]
          refine ⟨?_, ?_, ?_⟩
          · intro vs r hs
            cases hm : owScan old.length rest with
            | full vs0 r0 =>
              rw [hm] at hs; simp only [OwRes.full.injEq] at hs
              obtain ⟨rfl, rfl⟩ := hs
              obtain ⟨s', new, hrun, habs2, hv⟩ := r1 vs0 r0 hm
              exact ⟨s', ⟨s.sys.nextId, v⟩ :: new, hrun, by simpa using habs2, by simp [hv]⟩
            | short vs0 => rw [hm] at hs; simp at hs
            | err vs0 => rw [hm] at hs; simp at hs
          · intro vs hs
            cases hm : owScan old.length rest with
            | full vs0 r0 => rw [hm] at hs; simp at hs
            | short vs0 =>
              rw [hm] at hs; simp only [OwRes.short.injEq] at hs
              subst hs
              obtain ⟨s', new, r', hrun, habs2, hv⟩ := r2 vs0 hm
              exact ⟨s', ⟨s.sys.nextId, v⟩ :: new, r', hrun, by simpa using habs2, by simp [hv]⟩
            | err vs0 => rw [hm] at hs; simp at hs
          · intro vs hs
            cases hm : owScan old.length rest with
            | full vs0 r0 => rw [hm] at hs; simp at hs
            | short vs0 => rw [hm] at hs; simp at hs
            | err vs0 =>
              obtain ⟨s', cur, r', hrun, habs2⟩ := r3 vs0 hm
              exact ⟨s', cur, r', hrun, habs2⟩

/-- (C19 b, d) `deserialize_in_place`: whatever the destination held — any contents, any storage
    state — and whatever length the input claims: without an element error the destination ends up
    holding exactly the values the access yields before its end (`Ok`); with one, the call returns
    `Err` and the destination is well formed; sanctioned stops leave it well formed too -/
theorem C19_deserialize_in_place_partial (X : Ctx) (hq : ∀ k, X.o.panicAt k = false)
    (hint : Option Nat) (sc : List SeqItem) (s : St) (es : List Elem) (h : Abs X s.v es) :
    ((seqScan sc).2 = false ∧ ∃ s' new, Serde.deserialize_in_place X hint sc s = (.ok true, s') ∧ Abs X s'.v new ∧
        new.map (·.val) = (seqScan sc).1) ∨
    ((seqScan sc).2 = true ∧ ∃ s' cur, Serde.deserialize_in_place X hint sc s = (.ok false, s') ∧ Abs X s'.v cur) ∨
    (∃ p s' cur, Serde.deserialize_in_place X hint sc s = (.error p, s') ∧ Panic.benign p = true ∧ Abs X s'.v cur) := by
  obtain ⟨hcap, _, hm⟩ := lift_map_size_hint X hint s
  have hL : (hsOf s.v s.sys.allocIdx).L = es.length := h.len_eq
  have hlen : VM.lift X (len X.env) s = (.ok es.length, s) := lift_read X _ s _ (by rw [len_run, hL])
  unfold Serde.deserialize_in_place
  simp only [VM.bind_run, hm, hlen]
  -- after the (optional) reservation the vector exposes the same elements
  have hres : (∃ s1, Serde.reserveHint X hcap es.length s = (.ok (), s1) ∧ Abs X s1.v es) ∨
      (∃ p s1, Serde.reserveHint X hcap es.length s = (.error p, s1) ∧ Panic.benign p = true ∧ Abs X s1.v es) := by
    unfold Serde.reserveHint
    cases checkedSub hcap es.length with
    | none => exact .inl ⟨s, rfl, h⟩
    | some add =>
      have hr := reserve_mem X s es add h
      simp only
      generalize Vec.reserve X add s = out at hr
      cases hr with
      | same => exact .inl ⟨s, rfl, h⟩
      | stopped p s' hv hp _ => exact .inr ⟨p, s', rfl, hp, by rw [hv]; exact h⟩
      | grown s' habs _ _ _ _ => exact .inl ⟨s', rfl, habs⟩
  rcases hres with ⟨s1, hr1, habs1⟩ | ⟨p, s1, hr1, hp, habs1⟩
  · rw [hr1]
    simp only
    have hL1 : (hsOf s1.v s1.sys.allocIdx).L = es.length := habs1.len_eq
    have hlen1 : VM.lift X (len X.env) s1 = (.ok es.length, s1) := lift_read X _ s1 _ (by rw [len_run, hL1])
    unfold Serde.inPlaceBody
    simp only [VM.bind_run, hlen1]
    have hdd : es ≠ [] → s1.v.isDefault = false := by
      intro hne
      cases hd : s1.v.isDefault
      · rfl
      · exact absurd (habs1.sentinel hd).2 hne
    obtain ⟨o1, o2, o3⟩ := overwrite_spec X hq es [] sc s1 (es.length + 1) (by simpa using habs1) hdd (by omega)
    simp only [List.length_nil, Nat.zero_add] at o1 o2 o3
    obtain ⟨q1, q2, q3⟩ := owScan_seqScan es.length sc
    cases hm2 : owScan es.length sc with
    | full vs r =>
      obtain ⟨s2, new, hrun, habs2, hv⟩ := o1 vs r hm2
      obtain ⟨hsq, _⟩ := q1 vs r hm2
      simp only [List.nil_append] at habs2
      rw [hrun]
      simp only
      rcases pushRest_spec X hq r (r.length + 1) s2 new (by omega) habs2 with
        ⟨s3, new2, hrun3, habs3, hv3⟩ | ⟨p, s3, acc, hrun3, hb, habs3⟩
      · rw [hrun3]
        cases he : (seqScan r).2 with
        | false =>
          refine .inl ⟨by rw [hsq]; exact he, s3, new ++ new2, by simp [he], habs3, ?_⟩
          rw [hsq]; simp [hv, hv3]
        | true =>
          exact .inr (.inl ⟨by rw [hsq]; exact he, s3, _, by simp [he], habs3⟩)
      · rw [hrun3]
        exact .inr (.inr ⟨p, s3, acc, rfl, hb, habs3⟩)
    | short vs =>
      obtain ⟨s2, new, r', hrun, habs2, hv⟩ := o2 vs hm2
      have hsq := q2 vs hm2
      simp only [List.nil_append] at habs2
      rw [hrun]
      exact .inl ⟨by rw [hsq], s2, new, rfl, habs2, by rw [hsq]; exact hv⟩
    | err vs =>
      obtain ⟨s2, cur, r', hrun, habs2⟩ := o3 vs hm2
      have hsq := q3 vs hm2
      rw [hrun]
      exact .inr (.inl ⟨by rw [hsq], s2, cur, rfl, habs2⟩)
  · rw [hr1]
    exact .inr (.inr ⟨p, s1, es, rfl, hp, habs1⟩)

/-- (C19 a, round trip) what `Serialize` emits for a vector exposing `es` is the sequence of its
    elements; fed back through `deserialize` it rebuilds a vector of equal values — with any claimed length -/
theorem C19_round_trip_partial (X : Ctx) (hq : ∀ k, X.o.panicAt k = false) (hz : 0 < X.c.elemSize)
    (hint : Option Nat) (vals : List Int) (s : St) :
    (∃ o s' new, Serde.deserialize X hint (vals.map .val) s = (.ok (some o), s') ∧ s'.v = s.v ∧ Abs X o new ∧
        new.map (·.val) = vals) ∨
    (∃ p s', Serde.deserialize X hint (vals.map .val) s = (.error p, s') ∧ Panic.benign p = true ∧ s'.v = s.v) := by
  have hscan : seqScan (vals.map .val) = (vals, false) := by
    induction vals with
    | nil => rfl
    | cons v vs ih => simp [seqScan, ih]
  rcases C19_deserialize_partial X hq hz hint (vals.map .val) s with ⟨_, o, s', new, h1, h2, h3, h4⟩ | ⟨he, _⟩ | h
  · exact .inl ⟨o, s', new, h1, h2, h3, by rw [h4, hscan]⟩
  · rw [hscan] at he; simp at he
  · exact .inr h

end MV.Props

#print axioms MV.Props.overwrite_spec
#print axioms MV.Props.pushRest_spec
#print axioms MV.Props.C19_deserialize_partial
#print axioms MV.Props.C19_deserialize_in_place_partial
#print axioms MV.Props.C19_round_trip_partial

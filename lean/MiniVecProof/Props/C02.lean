import MiniVecProof.Props.C01
import MiniVecProof.Proofs.Own
/-
  C02 — each element lives in exactly one place and is destroyed exactly once (PARTIAL: proved for
  histories over the operations in `POp` followed by dropping the vector; iterators and the
  remaining operations are covered by the ledger oracles of the correspondence only).

  Statement: for every element class that owns resources, both profiles, every allocator oracle,
  every well-formed starting handle exposing `es`, and EVERY finite history of proved operations in
  which no user code panics and which runs to its end: after the vector is dropped, the destructor
  events the history added to the trace are exactly one `drop` for each element of a list `dropped`
  with  dropped ++ returned  a permutation of  es ++ given  — where `given` are the values the
  caller handed in (push, insert) and `returned` the values handed back (pop, remove, swap_remove).
  Hence with distinct identities nothing is destroyed twice, nothing handed back is destroyed, and
  nothing is leaked.  No `clone` event is produced.
-/
namespace MV.Props
open MV MV.Gen MV.GM VM

/-- elements the operation destroys, on the specification side -/
def POp.destroyed : POp → List Elem → List Elem
  | .truncate n, es => es.drop n
  | .clear, es => es
  | .retain f, es => rejFrom f 0 es
  | _, _ => []

/-- elements the caller gives to the vector -/
def POp.given : POp → List Elem
  | .push e => [e]
  | .insert _ e => [e]
  | _ => []

theorem ownEvents_dropEvents (X : Ctx) (es : List Elem) : ownEvents (dropEvents X es) = dropEvents X es := by
  unfold dropEvents ownEvents
  split
  · simp [List.filter_eq_self, Ev.isOwn]
  · rfl

theorem afterDrops_own (X : Ctx) (s : St) (es : List Elem) :
    ownEvents (afterDrops X s es).sys.tr = ownEvents s.sys.tr ++ dropEvents X es := by
  simp [afterDrops, ownEvents_append, ownEvents_dropEvents]

/-- what one completed operation adds to the ownership events: exactly the destructor runs of the
    elements the specification says it destroys -/
theorem POp.own (X : Ctx) (hq : ∀ k, X.o.panicAt k = false) (op : POp) (s : St) (es : List Elem) (h : Abs X s.v es)
    (hr : op.inRange es) (o : Option Elem) (s' : St) (hrun : op.run X s = (.ok o, s')) :
    ∃ d, d.Perm (op.destroyed es) ∧ ownEvents s'.sys.tr = ownEvents s.sys.tr ++ dropEvents X d := by
  refine (fun (key : (∃ d, d.Perm (op.destroyed es) ∧ ownEvents s'.sys.tr = ownEvents s.sys.tr ++ dropEvents X d)) => key) ?_
  by_cases hret : ∃ f, op = .retain f
  · obtain ⟨f, hf⟩ := hret
    subst hf
    obtain ⟨s1, rej, hrun1, _, hperm, hown, _⟩ := retain_spec X hq f s es h
    simp only [POp.run, VM.bind_run, hrun1, VM.pure_run] at hrun
    simp at hrun
    rw [← hrun.2]
    exact ⟨rej, hperm, hown⟩
  refine ⟨op.destroyed es, List.Perm.refl _, ?_⟩
  have hnil : dropEvents X [] = [] := by simp [dropEvents]
  have quiet : ∀ (x : VM Unit), Quiet x → (do x; pure (none : Option Elem) : VM (Option Elem)) s = (.ok o, s') →
      ownEvents s'.sys.tr = ownEvents s.sys.tr := by
    intro x hx hrun
    exact Quiet.bind hx (fun _ => Quiet.pure _) s o s' hrun
  cases op with
  | push e => simpa [POp.destroyed, hnil] using quiet _ (Quiet.push X e) hrun
  | insert i e => simpa [POp.destroyed, hnil] using quiet _ (Quiet.insert X i e) hrun
  | reserve n => simpa [POp.destroyed, hnil] using quiet _ (Quiet.reserve X n) hrun
  | reserve_exact n => simpa [POp.destroyed, hnil] using quiet _ (Quiet.reserve_exact X n) hrun
  | shrink_to n => simpa [POp.destroyed, hnil] using quiet _ (Quiet.shrink_to X n) hrun
  | shrink_to_fit => simpa [POp.destroyed, hnil] using quiet _ (Quiet.shrink_to_fit X) hrun
  | pop =>
    have ⟨h1, h2⟩ := pop_spec X s es h
    simp only [POp.run] at hrun
    simp only [POp.destroyed, hnil, List.append_nil]
    rcases List.eq_nil_or_concat es with hnil' | ⟨es', e, he⟩
    · rw [h1 hnil'] at hrun; simp at hrun; rw [← hrun.2]
    · have he' : es = es' ++ [e] := by simpa using he
      obtain ⟨v', hr', _⟩ := h2 es' e he'
      rw [hr'] at hrun; simp at hrun; rw [← hrun.2]
  | remove i =>
    obtain ⟨v', hrun', _⟩ := remove_spec X s es i h hr
    simp only [POp.run, VM.bind_run, hrun', VM.pure_run] at hrun
    simp only [POp.destroyed, hnil, List.append_nil]
    simp at hrun; rw [← hrun.2]
  | swap_remove i =>
    obtain ⟨v', hrun', _⟩ := swap_remove_spec X s es i h hr
    simp only [POp.run, VM.bind_run, hrun', VM.pure_run] at hrun
    simp only [POp.destroyed, hnil, List.append_nil]
    simp at hrun; rw [← hrun.2]
  | truncate n =>
    obtain ⟨v', hrun', _⟩ := truncate_spec X hq s es n h
    simp only [POp.run, VM.bind_run, hrun', VM.pure_run] at hrun
    simp at hrun; rw [← hrun.2]
    exact afterDrops_own X s _
  | clear =>
    obtain ⟨v', hrun', _⟩ := clear_spec X hq s es h
    simp only [POp.run, VM.bind_run, hrun', VM.pure_run] at hrun
    simp at hrun; rw [← hrun.2]
    exact afterDrops_own X s _
  | retain f => exact (hret ⟨f, rfl⟩).elim

/-! ### pure accounting on the specification side -/

theorem set_perm (l : List Elem) (i : Nat) (x : Elem) (hi : i < l.length) :
    (l.set i x ++ [l[i]]).Perm (l ++ [x]) := by
  induction l generalizing i with
  | nil => simp at hi
  | cons a l ih =>
    cases i with
    | zero =>
      simp only [List.set_cons_zero, List.getElem_cons_zero, List.cons_append]
      have h1 : (x :: (l ++ [a])).Perm (x :: a :: l) := (List.perm_append_singleton a l).cons x
      have h2 : (x :: a :: l).Perm (a :: x :: l) := List.Perm.swap a x l
      have h3 : (a :: x :: l).Perm (a :: (l ++ [x])) := ((List.perm_append_singleton x l).symm).cons a
      exact h1.trans (h2.trans h3)
    | succ i =>
      simp only [List.set_cons_succ, List.getElem_cons_succ, List.cons_append]
      exact (ih i (by simpa using hi)).cons a

/-- one operation conserves elements: what was there plus what was given is what stays plus what
    is handed back plus what is destroyed -/
theorem POp.conserves (op : POp) (es : List Elem) (hr : op.inRange es) :
    ((op.spec es).1 ++ (op.spec es).2.toList ++ op.destroyed es).Perm (es ++ op.given) := by
  cases op with
  | push e => simp [POp.spec, POp.destroyed, POp.given]
  | pop =>
    simp only [POp.spec, POp.destroyed, POp.given, List.append_nil]
    rcases List.eq_nil_or_concat es with hnil | ⟨es', e, he⟩
    · subst hnil; simp
    · have he' : es = es' ++ [e] := by simpa using he
      subst he'; simp
  | truncate n => simp [POp.spec, POp.destroyed, POp.given]
  | clear => simp [POp.spec, POp.destroyed, POp.given]
  | reserve n => simp [POp.spec, POp.destroyed, POp.given]
  | reserve_exact n => simp [POp.spec, POp.destroyed, POp.given]
  | shrink_to n => simp [POp.spec, POp.destroyed, POp.given]
  | shrink_to_fit => simp [POp.spec, POp.destroyed, POp.given]
  | insert i e =>
    simp only [POp.spec, POp.destroyed, POp.given, Option.toList, List.append_nil]
    have h1 : (es.take i ++ [e] ++ es.drop i).Perm (es.take i ++ (es.drop i ++ [e])) := by
      rw [List.append_assoc]
      exact List.Perm.append_left _ List.perm_append_comm
    rw [← List.append_assoc, List.take_append_drop] at h1
    exact h1
  | remove i =>
    have hi : i < es.length := hr
    simp only [POp.spec, POp.destroyed, POp.given, List.append_nil, List.getElem?_eq_getElem hi, Option.toList]
    have h1 : es = es.take i ++ es[i] :: es.drop (i + 1) := by
      conv => lhs; rw [← List.take_append_drop i es]
      rw [List.drop_eq_getElem_cons hi]
    rw [List.eraseIdx_eq_take_drop_succ]
    conv => rhs; rw [h1]
    rw [List.append_assoc]
    exact List.Perm.append_left _ (List.perm_append_singleton _ _)
  | swap_remove i =>
    have hi : i < es.length := hr
    simp only [POp.spec, POp.destroyed, POp.given, List.append_nil, List.getElem?_eq_getElem hi, Option.toList]
    rcases List.eq_nil_or_concat es with hnil | ⟨init, l, he⟩
    · subst hnil; simp at hi
    · have he' : es = init ++ [l] := by simpa using he
      subst he'
      have hl : (init ++ [l]).getLast? = some l := by simp
      simp only [hl, List.length_append, List.length_singleton, Nat.add_sub_cancel]
      by_cases hlast : i = init.length
      · subst hlast
        simp
      · have hi' : i < init.length := by simp at hi; omega
        rw [List.set_append_left _ _ hi', List.take_left' (by simp), List.getElem_append_left hi']
        exact set_perm init i l hi'
  | retain f =>
    simp only [POp.spec, POp.destroyed, POp.given, Option.toList, List.append_nil]
    exact kept_rej_perm f 0 es

def destroyedAll : List POp → List Elem → List Elem
  | [], _ => []
  | op :: rest, es => op.destroyed es ++ destroyedAll rest (op.spec es).1

def givenAll (ops : List POp) : List Elem := ops.flatMap POp.given

def returnedAll : List POp → List Elem → List Elem
  | [], _ => []
  | op :: rest, es => (op.spec es).2.toList ++ returnedAll rest (op.spec es).1

def finalOf : List POp → List Elem → List Elem
  | [], es => es
  | op :: rest, es => finalOf rest (op.spec es).1

theorem history_conserves (ops : List POp) (es : List Elem) (hr : allInRange ops es) :
    (finalOf ops es ++ returnedAll ops es ++ destroyedAll ops es).Perm (es ++ givenAll ops) := by
  induction ops generalizing es with
  | nil => simp [finalOf, returnedAll, destroyedAll, givenAll]
  | cons op rest ih =>
    have h1 := ih (op.spec es).1 hr.2
    have h2 := POp.conserves op es hr.1
    simp only [finalOf, returnedAll, destroyedAll, givenAll, List.flatMap_cons]
    rw [List.perm_iff_count] at h1 h2 ⊢
    intro a
    have := h1 a
    have := h2 a
    simp only [List.count_append, givenAll] at *
    omega

theorem dropEvents_append (X : Ctx) (a b : List Elem) : dropEvents X (a ++ b) = dropEvents X a ++ dropEvents X b := by
  unfold dropEvents; split <;> simp

/-- a completed history adds exactly the destructor runs the specification prescribes (`retain`
    may destroy its rejected elements in a different order than they stood), and ends exposing the
    specified contents -/
theorem history_own (X : Ctx) (hq : ∀ k, X.o.panicAt k = false) (ops : List POp) (s : St) (es : List Elem)
    (outs outs' : List (Option Elem)) (s' : St) (h : Abs X s.v es) (hr : allInRange ops es)
    (hrun : runOps X ops s outs = (.ok outs', s')) :
    (∃ d, d.Perm (destroyedAll ops es) ∧ ownEvents s'.sys.tr = ownEvents s.sys.tr ++ dropEvents X d) ∧
      Abs X s'.v (finalOf ops es) := by
  induction ops generalizing s es outs with
  | nil =>
    simp only [runOps, Prod.mk.injEq] at hrun
    rw [← hrun.2]
    exact ⟨⟨[], by simp [destroyedAll], by simp [dropEvents]⟩, by simpa [finalOf] using h⟩
  | cons op rest ih =>
    rcases POp.refines X hq op s es h hr.1 with ⟨s1, hrun1, habs⟩ | ⟨p, s1, hrun1, _, _⟩
    · simp only [runOps, hrun1] at hrun
      obtain ⟨d1, hp1, h1⟩ := POp.own X hq op s es h hr.1 _ s1 hrun1
      obtain ⟨⟨d2, hp2, h2⟩, h3⟩ := ih s1 _ _ habs hr.2 hrun
      refine ⟨⟨d1 ++ d2, ?_, ?_⟩, h3⟩
      · simp only [destroyedAll]; exact List.Perm.append hp1 hp2
      · rw [h2, h1, dropEvents_append, List.append_assoc]
    · simp [runOps, hrun1] at hrun

/-- C02 for histories of proved operations: run the history, drop the vector; the destructor
    events added are one per element of `dropped`, where `dropped` together with the values handed
    back is a rearrangement of the starting contents together with the values handed in.  The handle
    ends as the empty sentinel: nothing is observable through it. -/
theorem C02_exactly_once_partial (X : Ctx) (hq : ∀ k, X.o.panicAt k = false) (ops : List POp) (s : St) (es : List Elem)
    (outs outs' : List (Option Elem)) (s' : St) (h : Abs X s.v es) (hr : allInRange ops es)
    (hrun : runOps X ops s outs = (.ok outs', s')) :
    ∃ s'' dropped, Vec.dropVec X s' = (.ok (), s'') ∧ Abs X s''.v [] ∧
      ownEvents s''.sys.tr = ownEvents s.sys.tr ++ dropEvents X dropped ∧
      (dropped ++ returnedAll ops es).Perm (es ++ givenAll ops) := by
  obtain ⟨⟨d, hdp, hown⟩, habs⟩ := history_own X hq ops s es outs outs' s' h hr hrun
  have hcons := history_conserves ops es hr
  have hperm : (d ++ finalOf ops es ++ returnedAll ops es).Perm (es ++ givenAll ops) := by
    rw [List.perm_iff_count] at hcons hdp ⊢
    intro a
    have := hcons a
    have := hdp a
    simp only [List.count_append] at *
    omega
  obtain ⟨hdef, halloc⟩ := dropVec_spec X hq s' (finalOf ops es) habs
  cases hd : s'.v.isDefault with
  | true =>
    have hnil := (habs.sentinel hd).2
    refine ⟨s', d, hdef hd, by rw [← hnil]; exact habs, hown, ?_⟩
    rw [hnil] at hperm; simpa using hperm
  | false =>
    obtain ⟨b, _, hdrop⟩ := halloc hd
    refine ⟨_, d ++ finalOf ops es, hdrop, Abs.sentinel_abs X h.elem_pos, ?_, hperm⟩
    simp only [ownEvents_append, afterDrops_own, hown, dropEvents_append, List.append_assoc]
    simp [ownEvents, Ev.isOwn]

/-- with distinct identities: no element is destroyed twice, and none that was handed back is
    destroyed -/
theorem C02_no_double_drop (dropped returned given es : List Elem)
    (hperm : (dropped ++ returned).Perm (es ++ given)) (hnd : ((es ++ given).map (·.id)).Nodup) :
    (dropped.map (·.id)).Nodup ∧ ∀ e ∈ returned, ∀ d ∈ dropped, d.id ≠ e.id := by
  have h1 : ((dropped ++ returned).map (·.id)).Nodup := (hperm.map _).nodup_iff.mpr hnd
  rw [List.map_append, List.nodup_append] at h1
  refine ⟨h1.1, ?_⟩
  intro e he d hd heq
  exact h1.2.2 d.id (List.mem_map_of_mem hd) e.id (List.mem_map_of_mem he) heq

/-- nothing is leaked: every element that was in the vector or handed in is either handed back or
    among the destroyed -/
theorem C02_no_leak (dropped returned given es : List Elem)
    (hperm : (dropped ++ returned).Perm (es ++ given)) (e : Elem) (he : e ∈ es ++ given) :
    e ∈ dropped ∨ e ∈ returned := by
  have := hperm.mem_iff.mpr he
  simpa using this

/-- non-vacuity: a concrete history from `new()` that pushes, removes, truncates and is within range -/
example : allInRange [.push ⟨1, 10⟩, .push ⟨2, 20⟩, .push ⟨3, 30⟩, .remove 0, .truncate 1] [] := by
  simp [allInRange, POp.inRange, POp.spec]

end MV.Props

#print axioms MV.Props.POp.own
#print axioms MV.Props.history_conserves
#print axioms MV.Props.C02_exactly_once_partial
#print axioms MV.Props.C02_no_double_drop
#print axioms MV.Props.C02_no_leak

import MiniVecProof.Props.C04
import MiniVecProof.Props.C10IntoIter
/-
  C04 (IntoIter, Drop for MiniVec) — under an ARBITRARY destructor-panic oracle.
  `Drop for IntoIter` zeroes the embedded length, destroys the remaining window with `drop_in_place`
  and then drops the (now empty) embedded vector, also when a destructor unwinds: unless the
  double-panic abort happens, every not-yet-yielded element has had its destructor started exactly
  once and the block has been released with the layout it was obtained with.
  `Drop for MiniVec`: every element's destructor is started exactly once (or the process aborts);
  the block is released when no destructor panicked.
-/
namespace MV.Props
open MV MV.Gen MV.GM VM

/-- dropping a vector that exposes nothing calls no user code -/
theorem dropVec_empty (X : Ctx) (s : St) (h : Abs X s.v []) (hd : s.v.isDefault = false) :
    ∃ b, s.v.blk = some b ∧ make_layout X.env s.v.cap s.v.align = .ok b.lay ∧
      Vec.dropVec X s = (.ok (), { sys := { s.sys with tr := s.sys.tr ++ [.dealloc b.lay.size b.lay.align] }, v := {} }) := by
  obtain ⟨b, hb, hl, hs, hlc, hel, hinit⟩ := h.alloc hd
  have hl0 : s.v.len = 0 := by simpa using hel.symm
  refine ⟨b, hb, hl, ?_⟩
  have h1 : VM.lift X (drop_impl_pre X.env) s = (.ok (.cont ⟨s.v.len, s.v.cap, s.v.align⟩), s) :=
    lift_read X _ s _ (by simp [drop_impl_pre, hsOf, hd, GM.hdrLen, GM.hdrCap, GM.hdrAlign])
  have h2 : VM.lift X (data X.env) s = (.ok (.at (dataOff s.v.align)), s) :=
    lift_read X _ s _ (data_run X.env _ hd b.lay s.v.cap hl)
  have h5 : VM.lift X (GM.liftE (make_layout X.env s.v.cap s.v.align)) s = (.ok b.lay, s) :=
    lift_read X _ _ _ (by simp [hl])
  unfold Vec.dropVec
  simp only [VM.bind_run, h1, h2, hl0, VM.rdRange, VM.pure_run, VM.dropAll, h5, VM.getV_run, hb, VM.emit, if_true, VM.setV]

/-- (C04, IntoIter) `Drop for IntoIter` under ANY destructor-panic oracle -/
theorem C04_into_iter_drop_partial (X : Ctx) (it : IntoIterSt) (s : St) (es : List Elem) (h : IntoInv X s.v es it) :
    ∃ r s', IntoIter.drop X it s = (r, s') ∧ DropOutcome r ∧
      (r ≠ .error .doublePanic → s'.v.isDefault = true ∧ s'.v.blk = none ∧
        ∃ b, s.v.blk = some b ∧
          ownEvents s'.sys.tr = ownEvents s.sys.tr ++ dropEvents X (iwindow it s.v.len es) ∧
          s'.sys.tr.getLast? = some (.dealloc b.lay.size b.lay.align)) := by
  obtain ⟨b, hb, hl, hs, hlc, hel, hinit⟩ := h.full.alloc h.hd
  simp only at hb hl
  have e1 : VM.lift X GM.isDefault s = (.ok false, s) := by rw [lift_isDefault, h.hd]
  have e2 : VM.lift X (len X.env) s = (.ok s.v.len, s) :=
    lift_read X _ s _ (by rw [len_run]; simp [GS.L, hsOf, h.hd])
  have habs0 : Abs X ({ s.v with len := 0 } : VSt) [] := by
    have := h.full.shorten 0 (by omega) h.hd
    simpa using this
  unfold IntoIter.drop VM.guarded
  by_cases hn : s.v.len > 0
  · have e3 := h.rdRange s.v.len h.bound
    have e4 := lift_set_len X 0 s h.hd
    obtain ⟨r, s1, e5, hv5, hr5, hev5, _⟩ := dropAll_any X (iwindow it s.v.len es) { s with v := { s.v with len := 0 } }
    have hbody : (do
        let d ← VM.lift X GM.isDefault
        if d then pure () else do
          let n ← VM.lift X (len X.env)
          if n > 0 then do
            let es ← VM.rdRange it.ptr it.pos n
            VM.lift X (set_len X.env 0)
            VM.dropAll X es
          else pure () : VM Unit) s = (r, s1) := by
      simp only [VM.bind_run, e1, Bool.false_eq_true, if_false, e2, hn, if_true, e3, e4, e5]
    rw [hbody]
    have habs1 : Abs X s1.v [] := by rw [hv5]; exact habs0
    have hd1 : s1.v.isDefault = false := by rw [hv5]; exact h.hd
    obtain ⟨b1, hb1, _, hdv⟩ := dropVec_empty X s1 habs1 hd1
    have hbb : b1 = b := by
      have : s1.v.blk = some b := by rw [hv5]; exact hb
      rw [this] at hb1; exact (Option.some.inj hb1).symm
    subst hbb
    cases hr5 with
    | ok =>
      simp only [hdv]
      refine ⟨_, _, rfl, .ok, fun _ => ⟨rfl, rfl, b1, hb, ?_, by simp⟩⟩
      simp only [ownEvents_append, hev5 (by simp)]
      simp [ownEvents, Ev.isOwn]
    | panicked =>
      simp only [VM.unwinds, if_true, hdv]
      refine ⟨_, _, rfl, .panicked, fun _ => ⟨rfl, rfl, b1, hb, ?_, by simp⟩⟩
      simp only [ownEvents_append, hev5 (by simp)]
      simp [ownEvents, Ev.isOwn]
    | aborted =>
      simp only [VM.unwinds, Bool.false_eq_true, if_false]
      exact ⟨_, s1, rfl, .aborted, fun hne => absurd rfl hne⟩
  · have hz : s.v.len = 0 := by omega
    have hbody : (do
        let d ← VM.lift X GM.isDefault
        if d then pure () else do
          let n ← VM.lift X (len X.env)
          if n > 0 then do
            let es ← VM.rdRange it.ptr it.pos n
            VM.lift X (set_len X.env 0)
            VM.dropAll X es
          else pure () : VM Unit) s = (.ok (), s) := by
      simp only [VM.bind_run, e1, Bool.false_eq_true, if_false, e2, hn, VM.pure_run]
    rw [hbody]
    have hv : ({ s.v with len := 0 } : VSt) = s.v := by
      cases hv : s.v; simp [hv] at *; exact hz.symm
    rw [hv] at habs0
    obtain ⟨b1, hb1, _, hdv⟩ := dropVec_empty X s habs0 h.hd
    have hbb : b1 = b := by rw [hb] at hb1; exact (Option.some.inj hb1).symm
    subst hbb
    simp only [hdv]
    refine ⟨_, _, rfl, .ok, fun _ => ⟨rfl, rfl, b1, hb, ?_, by simp⟩⟩
    simp [ownEvents_append, ownEvents, Ev.isOwn, iwindow, hz, dropEvents]

end MV.Props

#print axioms MV.Props.C04_into_iter_drop_partial

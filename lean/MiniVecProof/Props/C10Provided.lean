import MiniVecProof.Gen.Facts
/-
  The provided methods of the iterator traits and of `Clone`.

  The protocol drives `nth`, `nth_back`, `count` and `clone_from` on the crate's iterators, and client code reaches `last`,
  `fold`, `for_each`, `sum`, `max`, `skip`, `step_by` … the same way: through the PROVIDED methods of `Iterator` /
  `DoubleEndedIterator`, which `core` defines from `next` / `next_back`. The model (`World.stepAll`) defines them from its
  own `next` / `next_back` / `drop` in the same way. That describes the code exactly as long as the crate does not
  define any of them itself — a REGENERATED fact: no impl of Iterator, DoubleEndedIterator, ExactSizeIterator (other than
  `len`), FusedIterator or Clone for `MiniVec`, `IntoIter`, `Drain`, `Splice`, `DrainFilter` contains a method besides
  `next`, `size_hint`, `next_back`, `len`, `clone`.
-/
namespace MV.Props
open MV.Gen.Facts

theorem C10_provided_methods_not_overridden : iteratorOverrides = 0 := by decide

end MV.Props

#print axioms MV.Props.C10_provided_methods_not_overridden

import MiniVecProof.Proofs.MemDrainFilter
import MiniVecProof.Proofs.MemRetain
/-
  C04 — panic safety (PARTIAL: proved for the destructor-calling operations `truncate`, `clear` and
  `Drop for MiniVec` under an ARBITRARY panic oracle; every other callback site is decided by the
  exhaustive crash-point sweep of the correspondence).

  `X.o.panicAt` is any function from callback numbers to "panics here": any subset of the
  destructor calls may panic.  Statement for `truncate(n)` (and `clear` = `truncate(0)`): the call
  ends normally, or by re-raising the first destructor panic after every other doomed element has
  been destroyed too, or — when a second destructor panics while the first panic is unwinding — by
  the double-panic abort.  In all three cases the vector is well formed and exposes exactly the
  first `n` elements (the length was cut BEFORE the first destructor ran: no element is reachable
  both through the vector and through its own destructor), capacity and block are untouched, and
  unless the process aborted every doomed element has had its destructor started exactly once.
-/
namespace MV.Props
open MV MV.Gen MV.GM VM

/-- how `drop_in_place` of a slice can end, whatever destructors panic -/
inductive DropOutcome : Except Panic Unit → Prop
  | ok : DropOutcome (.ok ())
  | panicked : DropOutcome (.error .explicit)
  | aborted : DropOutcome (.error .doublePanic)

theorem dropElem_any (X : Ctx) (e : Elem) (s : St) :
    ∃ r s', VM.dropElem X e s = (r, s') ∧ s'.v = s.v ∧ (r = .ok () ∨ r = .error .explicit) ∧
      ownEvents s'.sys.tr = ownEvents s.sys.tr ++ dropEvents X [e] := by
  unfold VM.dropElem
  cases hn : X.c.needsDrop with
  | false => exact ⟨_, s, rfl, rfl, .inl rfl, by simp [dropEvents, hn]⟩
  | true =>
    simp only [if_true, VM.bind_run, VM.emit, VM.callback]
    by_cases hp : X.o.panicAt s.sys.cbIdx = true
    · simp only [hp, if_true]
      exact ⟨_, _, rfl, rfl, .inr rfl, by simp [dropEvents, hn, ownEvents_append, ownEvents, Ev.isOwn]⟩
    · simp only [hp, Bool.false_eq_true, if_false]
      exact ⟨_, _, rfl, rfl, .inl rfl, by simp [dropEvents, hn, ownEvents_append, ownEvents, Ev.isOwn]⟩

/-- `drop_in_place` of a list of elements under ANY panic oracle -/
theorem dropAll_any (X : Ctx) (es : List Elem) (s : St) :
    ∃ r s', VM.dropAll X es s = (r, s') ∧ s'.v = s.v ∧ DropOutcome r ∧
      (r ≠ .error .doublePanic → ownEvents s'.sys.tr = ownEvents s.sys.tr ++ dropEvents X es) ∧
      (r = .error .doublePanic → ∃ pre, pre <+: es ∧ ownEvents s'.sys.tr = ownEvents s.sys.tr ++ dropEvents X pre) := by
  induction es generalizing s with
  | nil => exact ⟨_, s, by simp [VM.dropAll], rfl, .ok, fun _ => by simp [dropEvents], fun h => by simp at h⟩
  | cons e es ih =>
    obtain ⟨r1, s1, h1, hv1, hr1, hev1⟩ := dropElem_any X e s
    obtain ⟨r2, s2, h2, hv2, hr2, hev2, hab2⟩ := ih s1
    unfold VM.dropAll VM.guarded
    rw [h1]
    rcases hr1 with rfl | rfl
    · -- the first destructor returned: the outcome is that of the rest
      simp only [h2]
      cases hr2 with
      | ok =>
        exact ⟨_, s2, rfl, by rw [hv2, hv1], .ok, fun _ => by rw [hev2 (by simp), hev1, dropEvents_cons X e es, List.append_assoc],
          fun h => by simp at h⟩
      | panicked =>
        exact ⟨_, s2, rfl, by rw [hv2, hv1], .panicked, fun _ => by rw [hev2 (by simp), hev1, dropEvents_cons X e es, List.append_assoc],
          fun h => by simp at h⟩
      | aborted =>
        obtain ⟨pre, hpre, hevp⟩ := hab2 rfl
        refine ⟨_, s2, rfl, by rw [hv2, hv1], .aborted, fun h => by simp at h, fun _ => ⟨e :: pre, ?_, ?_⟩⟩
        · exact List.cons_prefix_cons.mpr ⟨rfl, hpre⟩
        · rw [hevp, hev1, dropEvents_cons X e pre, List.append_assoc]
    · -- the first destructor panicked: the rest is destroyed while unwinding
      simp only [VM.unwinds, if_true, h2]
      cases hr2 with
      | ok =>
        exact ⟨_, s2, rfl, by rw [hv2, hv1], .panicked, fun _ => by rw [hev2 (by simp), hev1, dropEvents_cons X e es, List.append_assoc],
          fun h => by simp at h⟩
      | panicked =>
        simp only [VM.unwinds, if_true]
        refine ⟨_, s2, rfl, by rw [hv2, hv1], .aborted, fun h => by simp at h, fun _ => ⟨e :: es, List.prefix_refl _, ?_⟩⟩
        rw [hev2 (by simp), hev1, dropEvents_cons X e es, List.append_assoc]
      | aborted =>
        obtain ⟨pre, hpre, hevp⟩ := hab2 rfl
        simp only [VM.unwinds, Bool.false_eq_true, if_false]
        refine ⟨_, s2, rfl, by rw [hv2, hv1], .aborted, fun h => by simp at h, fun _ => ⟨e :: pre, ?_, ?_⟩⟩
        · exact List.cons_prefix_cons.mpr ⟨rfl, hpre⟩
        · rw [hevp, hev1, dropEvents_cons X e pre, List.append_assoc]

/-- (C04) `truncate(n)` under ANY destructor-panic oracle -/
theorem C04_truncate_partial (X : Ctx) (s : St) (es : List Elem) (n : Nat) (h : Abs X s.v es) :
    ∃ r s', Vec.truncate X n s = (r, s') ∧ DropOutcome r ∧ Abs X s'.v (es.take n) ∧
      s'.v.blk = s.v.blk ∧ s'.v.cap = s.v.cap ∧
      (r ≠ .error .doublePanic → ownEvents s'.sys.tr = ownEvents s.sys.tr ++ dropEvents X (es.drop n)) ∧
      (r = .error .doublePanic → ∃ pre, pre <+: es.drop n ∧ ownEvents s'.sys.tr = ownEvents s.sys.tr ++ dropEvents X pre) := by
  have hL : (hsOf s.v s.sys.allocIdx).L = es.length := h.len_eq
  obtain ⟨hrun0, hrun1⟩ := truncate_pre_run X.env n (hsOf s.v s.sys.allocIdx)
  rw [hL] at hrun0 hrun1
  by_cases hge : n ≥ es.length
  · have hrun := hrun0 hge
    have h1 : VM.lift X (truncate_pre X.env n) s = (.ok (.ret 0), s) := lift_read X _ s _ hrun
    have hnil : es.drop n = [] := List.drop_eq_nil_of_le hge
    refine ⟨_, s, ?_, .ok, by rw [List.take_of_length_le hge]; exact h, rfl, rfl, fun _ => by simp [hnil, dropEvents],
      fun hx => by simp at hx⟩
    unfold Vec.truncate
    simp only [VM.bind_run, h1, VM.pure_run]
  · have hlt : n < es.length := by omega
    have hd : s.v.isDefault = false := by
      cases hd : s.v.isDefault
      · rfl
      · have := (h.sentinel hd).2; subst this; simp at hlt
    obtain ⟨b, hb, hl, hs, hlc, hel, hinit⟩ := h.alloc hd
    have hal : b.lay.align = s.v.align := (make_layout_honest _ _ _ _ hl).2.1
    have habs' := h.shorten n (by omega) hd
    have hgd : (hsOf s.v s.sys.allocIdx).isDefault = false := hd
    have hacts : (hsOf s.v s.sys.allocIdx).acts ++ [Action.setLen n] = [.setLen n] := rfl
    rcases hrun1 hge hgd with hrun | ⟨hnd', hrun⟩
    case inr =>
      have hnd : X.c.needsDrop = false := hnd'
      rw [hacts] at hrun
      have h1 := lift_len_write' X (truncate_pre X.env n) s n _ hrun
      refine ⟨_, { s with v := { s.v with len := n } }, ?_, .ok, habs', rfl, rfl, fun _ => by simp [dropEvents, hnd],
        fun hx => by simp at hx⟩
      unfold Vec.truncate
      simp only [VM.bind_run, h1, VM.pure_run] <;> rfl
    case inl =>
      rw [hacts] at hrun
      have h1 := lift_len_write' X (truncate_pre X.env n) s n _ hrun
      have h2 : VM.lift X (data X.env) { s with v := { s.v with len := n } } =
          (.ok (.at (dataOff s.v.align)), { s with v := { s.v with len := n } }) :=
        lift_read X _ _ _ (data_run X.env _ hd b.lay s.v.cap hl)
      have hdl : (es.drop n).length = es.length - n := by simp
      have h3 := rdRange_blk { s with v := { s.v with len := n } } b hb (es.drop n) n (by
        intro j hj
        rw [hdl] at hj
        rw [hinit (n + j) (by omega)]
        simp [List.getElem?_drop])
      rw [hdl, hal] at h3
      obtain ⟨r, s', h4, hv4, hr4, hev4, hab4⟩ := dropAll_any X (es.drop n) { s with v := { s.v with len := n } }
      refine ⟨r, s', ?_, hr4, by rw [hv4]; exact habs', by rw [hv4], by rw [hv4], hev4, hab4⟩
      unfold Vec.truncate
      simp only [VM.bind_run, h1, h2, h3, h4]

/-- (C04) `clear()` under ANY destructor-panic oracle: the vector is empty and well formed afterwards -/
theorem C04_clear_partial (X : Ctx) (s : St) (es : List Elem) (h : Abs X s.v es) :
    ∃ r s', Vec.clear X s = (r, s') ∧ DropOutcome r ∧ Abs X s'.v [] ∧ s'.v.blk = s.v.blk ∧ s'.v.cap = s.v.cap ∧
      (r ≠ .error .doublePanic → ownEvents s'.sys.tr = ownEvents s.sys.tr ++ dropEvents X es) := by
  obtain ⟨r, s', hrun, hr, habs, hb, hc, hev, _⟩ := C04_truncate_partial X s es 0 h
  exact ⟨r, s', hrun, hr, by simpa using habs, hb, hc, by simpa using hev⟩

/-- the scan of `retain` when the predicate may panic at ANY of its calls: it either completes (as in
    `retain_go_spec`) or unwinds out of the k-th call leaving every element in the block exactly once -/
theorem retain_go_any (X : Ctx) (f : Vec.Pred1) :
    ∀ (rest kept rej : List Elem) (k : Nat) (s : St), Abs X s.v (kept ++ rej ++ rest) → s.v.isDefault = false →
    (∃ s' rej', Vec.retain.go X f (.at (dataOff s.v.align)) rest.length (kept.length + rej.length) kept.length k s =
        (.ok (kept ++ keptFrom f k rest).length, s') ∧
      Abs X s'.v ((kept ++ keptFrom f k rest) ++ rej') ∧ rej'.Perm (rej ++ rejFrom f k rest) ∧
      s'.v.cap = s.v.cap ∧ s'.v.isDefault = false ∧ s'.v.align = s.v.align ∧
      s'.v.blk.map (·.bid) = s.v.blk.map (·.bid) ∧ s'.sys.tr = s.sys.tr) ∨
    (∃ s' cur, Vec.retain.go X f (.at (dataOff s.v.align)) rest.length (kept.length + rej.length) kept.length k s =
        (.error .explicit, s') ∧ Abs X s'.v cur ∧ cur.Perm (kept ++ rej ++ rest) ∧
      s'.v.cap = s.v.cap ∧ s'.v.blk.map (·.bid) = s.v.blk.map (·.bid) ∧ s'.sys.tr = s.sys.tr) := by
  intro rest
  induction rest with
  | nil =>
    intro kept rej k s h hd
    refine .inl ⟨s, rej, ?_, by simpa [keptFrom] using h, by simp [rejFrom], rfl, hd, rfl, rfl, rfl⟩
    simp [Vec.retain.go, keptFrom]
  | cons e rest ih =>
    intro kept rej k s h hd
    have hlen : kept.length + rej.length < (kept ++ rej ++ e :: rest).length := by simp
    have h1 := rd_abs X s _ h hd (kept.length + rej.length) hlen
    have he : (kept ++ rej ++ e :: rest)[kept.length + rej.length] = e := by
      rw [List.getElem_append_right (by simp)]; simp
    rw [he] at h1
    let s1 : St := { s with sys := { s.sys with cbIdx := s.sys.cbIdx + 1 } }
    unfold Vec.retain.go
    simp only [List.length_cons, VM.bind_run, h1, VM.callback]
    by_cases hpn : X.o.panicAt s.sys.cbIdx = true
    · -- the predicate panics: nothing has been moved in this round
      simp only [hpn, if_true]
      exact .inr ⟨s1, kept ++ rej ++ e :: rest, rfl, h, List.Perm.refl _, rfl, rfl, rfl⟩
    · simp only [hpn, Bool.false_eq_true, if_false]
      by_cases hf : f k e = true
      · simp only [hf, if_true]
        cases rej with
        | nil =>
          have habs1 : Abs X s1.v ((kept ++ [e]) ++ [] ++ rest) := by simpa using h
          rcases ih (kept ++ [e]) [] (k + 1) s1 habs1 hd with
            ⟨s', rej', hrun, habs', hperm, hc, hd', hal, hb, htr⟩ | ⟨s', cur, hrun, habs', hperm, hc, hb, htr⟩
          · refine .inl ⟨s', rej', ?_, by simpa [keptFrom, hf] using habs', by simpa [rejFrom, hf] using hperm, hc, hd', hal, hb, htr⟩
            simp only [List.length_nil, Nat.add_zero, ne_eq, not_true_eq_false, if_false]
            simp only [List.length_append, List.length_singleton, List.length_nil, Nat.add_zero] at hrun
            simp only [keptFrom, hf, if_true]
            simpa [List.length_append, Nat.add_assoc, Nat.add_comm 1] using hrun
          · refine .inr ⟨s', cur, ?_, habs', by simpa using hperm, hc, hb, htr⟩
            simp only [List.length_nil, Nat.add_zero, ne_eq, not_true_eq_false, if_false]
            simp only [List.length_append, List.length_singleton, List.length_nil, Nat.add_zero] at hrun
            exact hrun
        | cons r0 rt =>
          have hne : kept.length + (r0 :: rt).length ≠ kept.length := by simp
          have hw : kept.length < (kept ++ (r0 :: rt) ++ e :: rest).length := by simp
          obtain ⟨v', hsw, habs', hc, hd', hal, hb⟩ :=
            sw_abs X s1 (kept ++ (r0 :: rt) ++ e :: rest) h hd (kept.length + (r0 :: rt).length) kept.length hlen hw
          have hw0 : (kept ++ (r0 :: rt) ++ e :: rest)[kept.length] = r0 := by
            rw [List.getElem_append_left (by simp), List.getElem_append_right (by simp)]; simp
          simp only [List.length_cons] at he habs'
          simp only [hw0, he] at habs'
          rw [retain_swap_list] at habs'
          have habs1 : Abs X ({ s1 with v := v' } : St).v ((kept ++ [e]) ++ (rt ++ [r0]) ++ rest) := habs'
          have hsw' : VM.sw (.at (dataOff s.v.align)) (kept.length + (r0 :: rt).length) kept.length s1 =
              (.ok (), { s1 with v := v' }) := hsw
          have hprm : (rt ++ [r0]).Perm (r0 :: rt) := List.perm_append_singleton r0 rt
          rcases ih (kept ++ [e]) (rt ++ [r0]) (k + 1) { s1 with v := v' } habs1 hd' with
            ⟨s', rej', hrun, habs2, hperm, hc2, hd2, hal2, hb2, htr⟩ | ⟨s', cur, hrun, habs2, hperm, hc2, hb2, htr⟩
          · refine .inl ⟨s', rej', ?_, by simpa [keptFrom, hf] using habs2, ?_, by rw [hc2]; exact hc, hd2, by rw [hal2]; exact hal,
              by rw [hb2]; exact hb, htr⟩
            · simp only [hne, ne_eq, not_false_eq_true, if_true, VM.bind_run]
              rw [hsw']
              simp only
              have : ({ s1 with v := v' } : St).v.align = s.v.align := hal
              rw [this] at hrun
              simp only [List.length_append, List.length_singleton, List.length_cons] at hrun ⊢
              simp only [keptFrom, hf, if_true]
              rw [show kept.length + (rt.length + 1) + 1 = kept.length + 1 + (rt.length + 1) by omega]
              simpa [List.length_append, Nat.add_assoc, Nat.add_comm 1] using hrun
            · simp only [rejFrom, hf, if_true]
              exact hperm.trans (List.Perm.append_right _ hprm)
          · refine .inr ⟨s', cur, ?_, habs2, ?_, by rw [hc2]; exact hc, by rw [hb2]; exact hb, htr⟩
            · simp only [hne, ne_eq, not_false_eq_true, if_true, VM.bind_run]
              rw [hsw']
              simp only
              have : ({ s1 with v := v' } : St).v.align = s.v.align := hal
              rw [this] at hrun
              simp only [List.length_append, List.length_singleton, List.length_cons] at hrun ⊢
              rw [show kept.length + (rt.length + 1) + 1 = kept.length + 1 + (rt.length + 1) by omega]
              exact hrun
            · refine hperm.trans ?_
              rw [List.perm_iff_count]
              intro a
              simp only [List.count_append, List.count_cons, List.count_nil]
              omega
      · have hf' : f k e = false := by simpa using hf
        simp only [hf', Bool.false_eq_true, if_false]
        have habs1 : Abs X s1.v (kept ++ (rej ++ [e]) ++ rest) := by simpa using h
        have hl : (rej ++ [e]).length = rej.length + 1 := by simp
        rcases ih kept (rej ++ [e]) (k + 1) s1 habs1 hd with
          ⟨s', rej', hrun, habs', hperm, hc, hd', hal, hb, htr⟩ | ⟨s', cur, hrun, habs', hperm, hc, hb, htr⟩
        · refine .inl ⟨s', rej', ?_, by simpa [keptFrom, hf'] using habs', by simpa [rejFrom, hf'] using hperm, hc, hd', hal, hb, htr⟩
          rw [hl] at hrun
          simp only [keptFrom, hf', Bool.false_eq_true, if_false]
          rw [Nat.add_assoc]; exact hrun
        · refine .inr ⟨s', cur, ?_, habs', by simpa using hperm, hc, hb, htr⟩
          rw [hl] at hrun
          rw [Nat.add_assoc]; exact hrun

/-- (C04) `retain` when the predicate and the destructors may panic at ANY call: however the call
    ends (return, unwinding panic, double-panic abort) the vector is well formed in its own block and
    what it exposes together with what was destroyed is a rearrangement of what it held — nothing is
    exposed twice, nothing that was destroyed is still exposed -/
theorem C04_retain_partial (X : Ctx) (f : Vec.Pred1) (s : St) (es : List Elem) (h : Abs X s.v es) :
    ∃ r s' cur gone, Vec.retain X f s = (r, s') ∧ DropOutcome r ∧ Abs X s'.v cur ∧ (cur ++ gone).Perm es ∧
      s'.v.cap = s.v.cap ∧ s'.v.blk.map (·.bid) = s.v.blk.map (·.bid) ∧
      (r ≠ .error .doublePanic → ownEvents s'.sys.tr = ownEvents s.sys.tr ++ dropEvents X gone) := by
  have hL : (hsOf s.v s.sys.allocIdx).L = es.length := h.len_eq
  cases hd : s.v.isDefault with
  | true =>
    have hnil := (h.sentinel hd).2
    subst hnil
    have hptr := as_mut_ptr_run_default X.env (hsOf s.v s.sys.allocIdx) (by simp [hsOf, hd])
    have h1 : VM.lift X (retain_pre X.env) s = (.ok (.cont ⟨0, .null, .null, .null⟩), s) :=
      lift_read X _ s _ (by
        unfold retain_pre
        simp only [len_run, GM.bind_run, hL, hptr, GM.pure_run]
        rfl)
    obtain ⟨r, s', ht, hr, habs, hb, hc, hev, _⟩ := C04_truncate_partial X s [] 0 h
    refine ⟨r, s', [], [], ?_, hr, by simpa using habs, by simp, hc, by rw [hb], by simpa using hev⟩
    unfold Vec.retain
    simp only [VM.bind_run, h1, if_true, VM.pure_run]
    exact ht
  | false =>
    obtain ⟨b, hb, hl, hs, hlc, hel, hinit⟩ := h.alloc hd
    have hal : b.lay.align = s.v.align := (make_layout_honest _ _ _ _ hl).2.1
    have hcapb : s.v.cap ≤ b.slots.length := by rw [hs]; exact physSlots_ge X.env _ _ _ hl h.elem_pos
    have hptr := as_mut_ptr_run X.env (hsOf s.v s.sys.allocIdx) hd b.lay s.v.cap hl
    have h1 : VM.lift X (retain_pre X.env) s =
        (.ok (.cont ⟨es.length, .at (dataOff s.v.align), .at (dataOff s.v.align), .at (dataOff s.v.align)⟩), s) :=
      lift_read X _ s _ (by
        unfold retain_pre
        simp only [len_run, GM.bind_run, hL, hptr, GM.pure_run]
        rfl)
    unfold Vec.retain
    simp only [VM.bind_run, h1]
    by_cases hz : es.length = 0
    · have hnil : es = [] := List.eq_nil_of_length_eq_zero hz
      subst hnil
      obtain ⟨r, s', ht, hr, habs, hb', hc, hev, _⟩ := C04_truncate_partial X s [] 0 h
      refine ⟨r, s', [], [], ?_, hr, by simpa using habs, by simp, hc, by rw [hb'], by simpa using hev⟩
      simp only [List.length_nil, if_true]
      show Vec.truncate X 0 s = _
      exact ht
    · have h2 := inb_blk s b hb es.length (by omega)
      rw [hal] at h2
      simp only [hz, if_false, VM.bind_run, h2]
      rcases retain_go_any X f es [] [] 0 s (by simpa using h) hd with
        ⟨s1, rej, hrun, habs1, hperm, hc1, hd1, hal1, hb1, htr1⟩ | ⟨s1, cur, hrun, habs1, hperm, hc1, hb1, htr1⟩
      · simp only [List.length_nil, Nat.add_zero, List.nil_append] at hrun habs1 hperm
        rw [hrun]
        simp only
        obtain ⟨r, s2, ht, hr, habs2, hb2, hc2, hev, _⟩ := C04_truncate_partial X s1 _ (keptFrom f 0 es).length habs1
        refine ⟨r, s2, keptFrom f 0 es, rej, ht, hr, by simpa using habs2, ?_, by rw [hc2, hc1], by rw [hb2, hb1], ?_⟩
        · exact (List.Perm.append_left _ hperm).trans (kept_rej_perm f 0 es)
        · intro hne
          have := hev hne
          simpa [htr1] using this
      · simp only [List.length_nil, Nat.add_zero, List.nil_append] at hrun hperm
        rw [hrun]
        exact ⟨_, s1, cur, [], rfl, .panicked, habs1, by simpa using hperm, hc1, hb1, fun _ => by simp [htr1, dropEvents]⟩

/-- non-vacuity: an oracle under which the second destructor call panics -/
example : (fun k => k == 1 : Nat → Bool) 1 = true := rfl

end MV.Props

#print axioms MV.Props.dropAll_any
#print axioms MV.Props.C04_truncate_partial
#print axioms MV.Props.C04_clear_partial
#print axioms MV.Props.C04_retain_partial

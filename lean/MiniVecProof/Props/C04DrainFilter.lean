import MiniVecProof.Props.C10DrainFilter
import MiniVecProof.Props.C04
/-
  C04 (DrainFilter) — a predicate that panics.  `DrainFilter::next` raises `panicked` before it calls
  the predicate; if the call unwinds, `Drop for DrainFilter` does not touch the predicate again: its
  guard moves the not-yet-scanned elements (including the one the predicate was looking at) down
  behind the kept ones and restores the length.  Nothing is destroyed, nothing is lost, nothing is
  exposed twice: the vector ends up exposing  kept ++ not-yet-scanned.
-/
namespace MV.Props
open MV MV.Gen MV.GM VM

/-- `DropGuard::drop` of a DrainFilter at ANY point of the scan -/
theorem df_guard_general (X : Ctx) (f : DFSt) (s : St) (kept junk rest : List Elem) (h : DFInv X s.v f kept junk rest) :
    ∃ v', DrainFilter.guardBody X f s = (.ok (), { s with v := v' }) ∧ Abs X v' (kept ++ rest) ∧ v'.cap = s.v.cap ∧
      v'.blk.map (·.bid) = s.v.blk.map (·.bid) := by
  have hps := h.ps
  have hol := h.ol
  have hnl := h.nl
  have hd := h.hd
  obtain ⟨b, hb, hl, hsl, hlc, hel, hinit⟩ := h.full.alloc (by simpa using hd)
  simp only at hb hl hlc hel hinit
  have hal : b.lay.align = s.v.align := (make_layout_honest _ _ _ _ hl).2.1
  have hcapb : s.v.cap ≤ b.slots.length := by rw [hsl]; exact physSlots_ge X.env _ _ _ hl h.full.elem_pos
  have hlenall : (kept ++ junk ++ rest).length = f.oldLen := by simp; omega
  have hrem : f.oldLen - f.pos = rest.length := by omega
  have hdr : f.pos - f.newLen = junk.length := by omega
  unfold DrainFilter.guardBody
  simp only [VM.bind_run, hrem, hdr]
  by_cases hmove : rest.length > 0 ∧ junk.length > 0
  · -- the unscanned elements move down over the stale slots
    have h2 : VM.lift X (as_mut_ptr X.env) s = (.ok (.at (dataOff s.v.align)), s) :=
      lift_read X _ s _ (as_mut_ptr_run X.env _ (by simp [hsOf, hd]) b.lay s.v.cap (by simpa [hsOf] using hl))
    have h3 := inb_blk s b hb f.oldLen (by omega)
    have h4 := cp_blk s b hb f.pos f.newLen rest.length (by omega) (by omega)
    rw [hal] at h3 h4
    let s1 : St := { s with v := { s.v with blk := some { b with slots := copySlots b.slots f.pos f.newLen rest.length } } }
    have hne : f.oldLen ≠ 0 := by omega
    have h5 := lift_set_len X (f.newLen + rest.length) s1 hd
    refine ⟨{ s.v with blk := some { b with slots := copySlots b.slots f.pos f.newLen rest.length }, len := f.newLen + rest.length }, ?_, ?_, rfl, by simp [hb]⟩
    · simp only [hmove, and_self, if_true, VM.bind_run, h2, h3, h4, hne, if_false]
      rw [h5]
    · refine ⟨h.full.elem_pos, fun hx => by simp [hd] at hx, fun _ => ⟨_, rfl, hl, ?_, by simp; omega, by simp; omega, ?_⟩⟩
      · simp only; rw [copySlots_length _ _ _ _ (by omega) (by omega)]; exact hsl
      · intro i hi
        simp only at hi ⊢
        rw [copySlots_get _ _ _ _ _ (by omega) (by omega)]
        by_cases hlo : i < kept.length
        · rw [if_neg (by omega), hinit i (by omega)]
          congr 1
          rw [List.append_assoc, List.getElem?_append_left hlo, List.getElem?_append_left hlo]
        · rw [if_pos (by omega), hinit _ (by omega)]
          congr 1
          rw [List.getElem?_append_right (by simp; omega), List.getElem?_append_right (by omega)]
          congr 1
          simp; omega
  · -- nothing to move: either everything was scanned or nothing was taken out
    simp only [hmove, if_false, VM.pure_run]
    have hcase : rest.length = 0 ∨ junk.length = 0 := by omega
    have hcur : (kept ++ junk ++ rest).take (f.newLen + rest.length) = kept ++ rest := by
      rcases hcase with hr0 | hj0
      · have : rest = [] := List.eq_nil_of_length_eq_zero hr0
        subst this
        simp only [List.append_nil, List.length_nil, Nat.add_zero]
        rw [hnl, List.take_left']
        rfl
      · have : junk = [] := List.eq_nil_of_length_eq_zero hj0
        subst this
        simp only [List.append_nil]
        rw [List.take_of_length_le (by simp; omega)]
    have hsh := h.full.shorten (f.newLen + rest.length) (by rw [hlenall]; omega) (by simpa using hd)
    rw [hcur] at hsh
    by_cases hz : f.oldLen = 0
    · simp only [hz, if_true, VM.pure_run]
      have hk : kept.length = 0 ∧ rest.length = 0 := by omega
      refine ⟨s.v, rfl, ?_, rfl, rfl⟩
      have hv : ({ ({ s.v with len := f.oldLen } : VSt) with len := f.newLen + rest.length } : VSt) = s.v := by
        have := h.len0
        cases hv : s.v; simp [hv, hnl, hk.1, hk.2] at *; exact this.symm
      rw [hv] at hsh; exact hsh
    · simp only [hz, if_false]
      rw [lift_set_len X (f.newLen + rest.length) s hd]
      exact ⟨_, rfl, hsh, rfl, rfl⟩

/-- the predicate panics at its next call: `next` unwinds with `panicked` raised and nothing touched -/
theorem df_next_pred_panics (X : Ctx) (f : DFSt) (s : St) (kept junk rest : List Elem) (e : Elem) (fuel : Nat)
    (h : DFInv X s.v f kept junk (e :: rest)) (hp : X.o.panicAt s.sys.cbIdx = true) :
    ∃ s', DrainFilter.next X (fuel + 1) f s = (.ok (.predPanicked, { f with panicked := true }), s') ∧ s'.v = s.v ∧
      s'.sys.tr = s.sys.tr := by
  have hpos : f.pos < f.oldLen := by have := h.ps; have := h.ol; simp at *; omega
  have hlen : f.pos < (kept ++ junk ++ e :: rest).length := by have := h.ps; simp; omega
  have h0 := lift_data X s f.oldLen _ h.full h.hd
  have h1 := rd_full X s f.oldLen _ h.full h.hd f.pos hlen
  have hcc : DrainFilter.callbackCaught X s = (.ok true, { s with sys := { s.sys with cbIdx := s.sys.cbIdx + 1 } }) := by
    simp [DrainFilter.callbackCaught, VM.callback, hp]
  unfold DrainFilter.next
  simp only [hpos, if_true, VM.bind_run, h0, h1, hcc, VM.pure_run]
  exact ⟨_, rfl, rfl, rfl⟩

/-- (C04, DrainFilter) after any number of quiet steps the predicate panics: dropping the iterator
    afterwards restores the vector to  kept ++ not-yet-scanned  without calling any user code -/
theorem C04_drain_filter_partial (X : Ctx) (f : DFSt) (s : St) (kept junk rest : List Elem) (e : Elem)
    (h : DFInv X s.v f kept junk (e :: rest)) (hp : X.o.panicAt s.sys.cbIdx = true) :
    ∃ s1 s2, DrainFilter.next X (f.oldLen - f.pos + 1) f s = (.ok (.predPanicked, { f with panicked := true }), s1) ∧
      DrainFilter.drop X { f with panicked := true } s1 = (.ok (), s2) ∧ Abs X s2.v (kept ++ e :: rest) ∧
      s2.sys.tr = s.sys.tr ∧ s2.v.cap = s.v.cap := by
  obtain ⟨s1, hn, hv, htr⟩ := df_next_pred_panics X f s kept junk rest e (f.oldLen - f.pos) h hp
  have hinv1 : DFInv X s1.v { f with panicked := true } kept junk (e :: rest) → True := fun _ => trivial
  have hinv' : DFInv X s1.v { f with panicked := false } kept junk (e :: rest) := by
    rw [hv]
    exact { hd := h.hd, len0 := h.len0, full := h.full, nl := h.nl, ps := h.ps, ol := h.ol, np := rfl }
  obtain ⟨v', hg, habs, hc, _⟩ := df_guard_general X { f with panicked := false } s1 kept junk (e :: rest) hinv'
  have hgb : DrainFilter.guardBody X { f with panicked := true } s1 = DrainFilter.guardBody X { f with panicked := false } s1 := by
    unfold DrainFilter.guardBody; rfl
  refine ⟨s1, { s1 with v := v' }, hn, ?_, habs, htr, by show v'.cap = _; rw [hc, hv]⟩
  unfold DrainFilter.drop
  simp only [if_true]
  rw [hgb]; exact hg

/-! ### `DrainFilter::next` and `Drop for DrainFilter` under an ARBITRARY panic oracle -/

/-- the catch-all around the predicate call: either it returned, or it panicked; only the callback counter moves -/
theorem callbackCaught_any (X : Ctx) (s : St) :
    ∃ b, DrainFilter.callbackCaught X s = (.ok b, { s with sys := { s.sys with cbIdx := s.sys.cbIdx + 1 } }) := by
  unfold DrainFilter.callbackCaught VM.callback
  by_cases hp : X.o.panicAt s.sys.cbIdx = true
  · exact ⟨true, by simp [hp]⟩
  · exact ⟨false, by simp [hp]⟩

/-- how one `next()` can end when any call of the predicate may panic: it hands out an element, reports the end, or
    unwinds with `panicked` raised — in every case at a point where the scan invariant holds, with the elements it
    passed over (`mid`) kept, nothing destroyed, no allocator traffic -/
theorem df_next_any (X : Ctx) :
    ∀ (rest kept junk : List Elem) (f : DFSt) (s : St) (fuel : Nat), DFInv X s.v f kept junk rest → rest.length < fuel →
    ∃ s' st f' junk' rest' mid, DrainFilter.next X fuel f s = (.ok (st, f'), s') ∧
      s'.sys.tr = s.sys.tr ∧ s'.v.cap = s.v.cap ∧ s'.v.blk.map (·.bid) = s.v.blk.map (·.bid) ∧
      ((∃ e, st = .item e ∧ rest = mid ++ e :: rest' ∧ DFInv X s'.v f' (kept ++ mid) junk' rest') ∨
       (st = .done ∧ rest = mid ∧ rest' = [] ∧ DFInv X s'.v f' (kept ++ mid) junk' []) ∨
       (st = .predPanicked ∧ rest = mid ++ rest' ∧ rest' ≠ [] ∧
          ∃ f0, f' = { f0 with panicked := true } ∧ DFInv X s'.v f0 (kept ++ mid) junk' rest')) := by
  intro rest
  induction rest with
  | nil =>
    intro kept junk f s fuel h hf
    cases fuel with
    | zero => omega
    | succ fuel =>
      refine ⟨s, .done, f, junk, [], [], ?_, rfl, rfl, rfl, .inr (.inl ⟨rfl, rfl, rfl, by simpa using h⟩)⟩
      unfold DrainFilter.next
      have : ¬ f.pos < f.oldLen := by have := h.ps; have := h.ol; simp at *; omega
      simp only [this, if_false, VM.pure_run]
  | cons e rest ih =>
    intro kept junk f s fuel h hf
    cases fuel with
    | zero => omega
    | succ fuel =>
      have hpos : f.pos < f.oldLen := by have := h.ps; have := h.ol; simp at *; omega
      have hlen : f.pos < (kept ++ junk ++ e :: rest).length := by have := h.ps; simp; omega
      have h0 := lift_data X s f.oldLen _ h.full h.hd
      have h1 := rd_full X s f.oldLen _ h.full h.hd f.pos hlen
      have he : (kept ++ junk ++ e :: rest)[f.pos] = e := by
        have hp := h.ps
        simp only [hp]
        rw [List.getElem_append_right (by simp)]; simp
      rw [he] at h1
      obtain ⟨pb, h2⟩ := callbackCaught_any X s
      let s1 : St := { s with sys := { s.sys with cbIdx := s.sys.cbIdx + 1 } }
      unfold DrainFilter.next
      simp only [hpos, if_true, VM.bind_run, h0, h1, h2]
      cases pb with
      | true =>
        -- the predicate panicked: nothing was touched
        simp only [if_true, VM.pure_run]
        refine ⟨s1, .predPanicked, { f with panicked := true }, junk, e :: rest, [], rfl, rfl, rfl, rfl,
          .inr (.inr ⟨rfl, by simp, by simp, f, rfl, by simpa using h⟩)⟩
      | false =>
        simp only [Bool.false_eq_true, if_false]
        by_cases hp : f.pred f.calls e = true
        · simp only [hp, if_true, VM.pure_run]
          refine ⟨s1, .item e, _, junk ++ [e], rest, [], rfl, rfl, rfl, rfl, .inl ⟨e, rfl, by simp, ?_⟩⟩
          exact { hd := h.hd, len0 := h.len0, full := by simpa using h.full, nl := by simpa using h.nl,
                  ps := by have := h.ps; simp; omega, ol := by have := h.ol; simp at *; omega, np := rfl }
        · have hp' : f.pred f.calls e = false := by simpa using hp
          simp only [hp', Bool.false_eq_true, if_false]
          cases junk with
          | nil =>
            have hnp : ¬ f.pos > f.newLen := by have := h.ps; have := h.nl; simp at *; omega
            let f1 : DFSt := { f with calls := f.calls + 1, panicked := false, pos := f.pos + 1, newLen := f.newLen + 1 }
            have hinv1 : DFInv X s1.v f1 (kept ++ [e]) [] rest :=
              { hd := h.hd, len0 := h.len0, full := by simpa using h.full, nl := by have := h.nl; simp [f1]; omega,
                ps := by have := h.ps; simp [f1] at *; omega, ol := by have := h.ol; simp [f1] at *; omega, np := rfl }
            obtain ⟨s', st, f', junk', rest', mid, hrun, htr, hc, hb, hcases⟩ :=
              ih (kept ++ [e]) [] f1 s1 fuel hinv1 (by simp at hf; omega)
            refine ⟨s', st, f', junk', rest', e :: mid, ?_, htr, hc, hb, ?_⟩
            · simp only [hnp, if_false, VM.bind_run, VM.pure_run]
              exact hrun
            · rcases hcases with ⟨x, hst, hr, hinv⟩ | ⟨hst, hr, hr', hinv⟩ | ⟨hst, hr, hne, f0, hf0, hinv⟩
              · exact .inl ⟨x, hst, by simp [hr], by simpa using hinv⟩
              · exact .inr (.inl ⟨hst, by simp [hr], hr', by simpa using hinv⟩)
              · exact .inr (.inr ⟨hst, by simp [hr], hne, f0, hf0, by simpa using hinv⟩)
          | cons j0 jt =>
            have hgt : f.pos > f.newLen := by have := h.ps; have := h.nl; simp at *; omega
            have hdst : f.newLen < (kept ++ (j0 :: jt) ++ e :: rest).length := by have := h.nl; simp; omega
            obtain ⟨v', hcp, habs', hc, hd', hal, hl', hb⟩ := cp1_full X s1 f.oldLen _ h.full h.hd f.pos f.newLen hlen hdst
            rw [he] at habs'
            have hnl := h.nl
            rw [hnl, df_copy_list] at habs'
            let f1 : DFSt := { f with calls := f.calls + 1, panicked := false, pos := f.pos + 1, newLen := f.newLen + 1 }
            have hinv1 : DFInv X ({ s1 with v := v' } : St).v f1 (kept ++ [e]) (jt ++ [e]) rest :=
              { hd := hd', len0 := by show v'.len = 0; rw [hl']; exact h.len0, full := habs',
                nl := by simp [f1]; omega, ps := by have := h.ps; simp [f1] at *; omega,
                ol := by have := h.ol; simp [f1] at *; omega, np := rfl }
            obtain ⟨s', st, f', junk', rest', mid, hrun, htr, hc2, hb2, hcases⟩ :=
              ih (kept ++ [e]) (jt ++ [e]) f1 { s1 with v := v' } fuel hinv1 (by simp at hf; omega)
            refine ⟨s', st, f', junk', rest', e :: mid, ?_, htr, by rw [hc2]; exact hc, by rw [hb2]; exact hb, ?_⟩
            · simp only [hgt, if_true, VM.bind_run]
              have hcp' : VM.cp (.at (dataOff s.v.align)) f.pos f.newLen 1 s1 = (.ok (), { s1 with v := v' }) := hcp
              rw [hcp']
              exact hrun
            · rcases hcases with ⟨x, hst, hr, hinv⟩ | ⟨hst, hr, hr', hinv⟩ | ⟨hst, hr, hne, f0, hf0, hinv⟩
              · exact .inl ⟨x, hst, by simp [hr], by simpa using hinv⟩
              · exact .inr (.inl ⟨hst, by simp [hr], hr', by simpa using hinv⟩)
              · exact .inr (.inr ⟨hst, by simp [hr], hne, f0, hf0, by simpa using hinv⟩)

/-- the guard does not look at the `panicked` flag -/
theorem df_guard_flag (X : Ctx) (f0 : DFSt) (s : St) :
    DrainFilter.guardBody X { f0 with panicked := true } s = DrainFilter.guardBody X f0 s := by
  unfold DrainFilter.guardBody; rfl

/-- **(C04, `Drop for DrainFilter`, ANY panic oracle)**: the drop loop calls the predicate on every element not yet
    scanned and destroys every element it accepts; any of these calls may panic. In every case the loop ends
    normally or with that one panic (never an abort, an illegal access or a hang: the guard calls no user code), the
    vector is well formed, keeps its capacity, still starts with what had been kept, and every element not yet
    scanned is either exposed by it or was destroyed — exactly once. -/
theorem df_dropLoop_any (X : Ctx) :
    ∀ (fuel : Nat) (rest kept junk : List Elem) (f : DFSt) (s : St), DFInv X s.v f kept junk rest → rest.length < fuel →
    ∃ r s' cur gone, DrainFilter.dropLoop X fuel f s = (r, s') ∧ (r = .ok () ∨ r = .error .explicit) ∧
      Abs X s'.v (kept ++ cur) ∧ (cur ++ gone).Perm rest ∧
      ownEvents s'.sys.tr = ownEvents s.sys.tr ++ dropEvents X gone ∧ s'.v.cap = s.v.cap := by
  intro fuel
  induction fuel with
  | zero => intro rest kept junk f s h hf; omega
  | succ fuel ih =>
    intro rest kept junk f s h hf
    have hfuel : rest.length < f.oldLen - f.pos + 1 := by have := h.ps; have := h.ol; omega
    obtain ⟨s1, st, f', junk', rest', mid, hrun, htr, hc, hb, hcases⟩ := df_next_any X rest kept junk f s _ h hfuel
    unfold DrainFilter.dropLoop
    simp only [VM.bind_run, hrun]
    rcases hcases with ⟨e, hst, hr, hinv⟩ | ⟨hst, hr, hr', hinv⟩ | ⟨hst, hr, hne, f0, hf0, hinv⟩
    · -- an accepted element is destroyed under the guard
      subst hst
      simp only
      obtain ⟨rd, s2, hd, hv2, hrd, hev⟩ := dropElem_any X e s1
      have hinv2 : DFInv X s2.v f' (kept ++ mid) junk' rest' := by rw [hv2]; exact hinv
      rcases hrd with hok | herr
      · subst hok
        have hou : VM.onUnwind (VM.dropElem X e) (DrainFilter.guardBody X f') s1 = (.ok (), s2) := by
          unfold VM.onUnwind; rw [hd]
        simp only [VM.bind_run, hou]
        obtain ⟨r, s3, cur, gone, hrun3, hr3, habs3, hperm3, hev3, hc3⟩ :=
          ih rest' (kept ++ mid) junk' f' s2 hinv2 (by rw [hr] at hf; simp at hf; omega)
        refine ⟨r, s3, mid ++ cur, e :: gone, hrun3, hr3, by simpa [List.append_assoc] using habs3, ?_, ?_, ?_⟩
        · have h1 : (cur ++ e :: gone).Perm (e :: (cur ++ gone)) := List.perm_middle
          have h2 : (e :: (cur ++ gone)).Perm (e :: rest') := hperm3.cons e
          rw [hr, List.append_assoc]
          exact (h1.trans h2).append_left mid
        · rw [hev3, hev, htr, dropEvents_cons X e gone, List.append_assoc]
        · rw [hc3, hv2, hc]
      · subst herr
        obtain ⟨v', hg, habs, hcg, _⟩ := df_guard_general X f' s2 (kept ++ mid) junk' rest' hinv2
        have hou : VM.onUnwind (VM.dropElem X e) (DrainFilter.guardBody X f') s1 = (.error .explicit, { s2 with v := v' }) := by
          unfold VM.onUnwind; rw [hd]; simp only [VM.unwinds, if_true, hg]
        simp only [VM.bind_run, hou]
        refine ⟨_, _, mid ++ rest', [e], rfl, .inr rfl, by simpa [List.append_assoc] using habs, ?_, ?_, ?_⟩
        · have h1 : (rest' ++ [e]).Perm (e :: rest') := by simpa using (List.perm_middle (a := e) (l₁ := rest') (l₂ := []))
          rw [hr, List.append_assoc]
          exact h1.append_left mid
        · show ownEvents s2.sys.tr = _; rw [hev, htr]
        · show v'.cap = _; rw [hcg, hv2, hc]
    · -- the scan is over: the guard closes the gap
      subst hst
      simp only
      obtain ⟨v', hg, habs, hcg, _⟩ := df_guard_general X f' s1 (kept ++ mid) junk' [] hinv
      rw [hg]
      refine ⟨_, _, mid, [], rfl, .inl rfl, by simpa [List.append_assoc] using habs, by simp [hr], ?_, ?_⟩
      · show ownEvents s1.sys.tr = _; rw [htr]; simp [dropEvents]
      · show v'.cap = _; rw [hcg, hc]
    · -- the predicate panicked: the guard moves the rest back, the panic continues
      subst hst
      simp only
      obtain ⟨v', hg, habs, hcg, _⟩ := df_guard_general X f0 s1 (kept ++ mid) junk' rest' hinv
      rw [hf0, df_guard_flag, hg]
      refine ⟨_, _, mid ++ rest', [], rfl, .inr rfl, by simpa [List.append_assoc] using habs, by simp [hr], ?_, ?_⟩
      · show ownEvents s1.sys.tr = _; rw [htr]; simp [dropEvents]
      · show v'.cap = _; rw [hcg, hc]

/-- (C04) dropping a DrainFilter at any point of its scan, any callback may panic -/
theorem C04_drain_filter_drop_partial (X : Ctx) (f : DFSt) (s : St) (kept junk rest : List Elem)
    (h : DFInv X s.v f kept junk rest) :
    ∃ r s' cur gone, DrainFilter.drop X f s = (r, s') ∧ (r = .ok () ∨ r = .error .explicit) ∧
      Abs X s'.v (kept ++ cur) ∧ (cur ++ gone).Perm rest ∧
      ownEvents s'.sys.tr = ownEvents s.sys.tr ++ dropEvents X gone ∧ s'.v.cap = s.v.cap := by
  unfold DrainFilter.drop
  rw [h.np]
  simp only [Bool.false_eq_true, if_false]
  exact df_dropLoop_any X _ rest kept junk f s h (by have := h.ps; have := h.ol; omega)

end MV.Props

#print axioms MV.Props.df_guard_general
#print axioms MV.Props.C04_drain_filter_partial
#print axioms MV.Props.df_next_any
#print axioms MV.Props.C04_drain_filter_drop_partial

import MiniVecProof.Props.C10DrainFilter
/-
  C04 (DrainFilter) — a predicate that panics.  `DrainFilter::next` raises `panicked` before it calls
  the predicate; if the call unwinds, `Drop for DrainFilter` does not touch the predicate again: its
  guard moves the not-yet-scanned elements (including the one the predicate was looking at) down
  behind the kept ones and restores the length.  Nothing is destroyed, nothing is lost, nothing is
  exposed twice: the vector ends up exposing  kept ++ not-yet-scanned.
-/
namespace MV.Props
open MV MV.Gen MV.GM VM

/-- `DropGuard::drop` of a DrainFilter at ANY point of the scan -/
theorem df_guard_general (X : Ctx) (f : DFSt) (s : St) (kept junk rest : List Elem) (h : DFInv X s.v f kept junk rest) :
    ∃ v', DrainFilter.guardBody X f s = (.ok (), { s with v := v' }) ∧ Abs X v' (kept ++ rest) ∧ v'.cap = s.v.cap ∧
      v'.blk.map (·.bid) = s.v.blk.map (·.bid) := by
  have hps := h.ps
  have hol := h.ol
  have hnl := h.nl
  have hd := h.hd
  obtain ⟨b, hb, hl, hsl, hlc, hel, hinit⟩ := h.full.alloc (by simpa using hd)
  simp only at hb hl hlc hel hinit
  have hal : b.lay.align = s.v.align := (make_layout_honest _ _ _ _ hl).2.1
  have hcapb : s.v.cap ≤ b.slots.length := by rw [hsl]; exact physSlots_ge X.env _ _ _ hl h.full.elem_pos
  have hlenall : (kept ++ junk ++ rest).length = f.oldLen := by simp; omega
  have hrem : f.oldLen - f.pos = rest.length := by omega
  have hdr : f.pos - f.newLen = junk.length := by omega
  unfold DrainFilter.guardBody
  simp only [VM.bind_run, hrem, hdr]
  by_cases hmove : rest.length > 0 ∧ junk.length > 0
  · -- the unscanned elements move down over the stale slots
    have h2 : VM.lift X (as_mut_ptr X.env) s = (.ok (.at (dataOff s.v.align)), s) :=
      lift_read X _ s _ (as_mut_ptr_run X.env _ (by simp [hsOf, hd]) b.lay s.v.cap (by simpa [hsOf] using hl))
    have h3 := inb_blk s b hb f.oldLen (by omega)
    have h4 := cp_blk s b hb f.pos f.newLen rest.length (by omega) (by omega)
    rw [hal] at h3 h4
    let s1 : St := { s with v := { s.v with blk := some { b with slots := copySlots b.slots f.pos f.newLen rest.length } } }
    have hne : f.oldLen ≠ 0 := by omega
    have h5 := lift_set_len X (f.newLen + rest.length) s1 hd
    refine ⟨{ s.v with blk := some { b with slots := copySlots b.slots f.pos f.newLen rest.length }, len := f.newLen + rest.length }, ?_, ?_, rfl, by simp [hb]⟩
    · simp only [hmove, and_self, if_true, VM.bind_run, h2, h3, h4, hne, if_false]
      rw [h5]
    · refine ⟨h.full.elem_pos, fun hx => by simp [hd] at hx, fun _ => ⟨_, rfl, hl, ?_, by simp; omega, by simp; omega, ?_⟩⟩
      · simp only; rw [copySlots_length _ _ _ _ (by omega) (by omega)]; exact hsl
      · intro i hi
        simp only at hi ⊢
        rw [copySlots_get _ _ _ _ _ (by omega) (by omega)]
        by_cases hlo : i < kept.length
        · rw [if_neg (by omega), hinit i (by omega)]
          congr 1
          rw [List.append_assoc, List.getElem?_append_left hlo, List.getElem?_append_left hlo]
        · rw [if_pos (by omega), hinit _ (by omega)]
          congr 1
          rw [List.getElem?_append_right (by simp; omega), List.getElem?_append_right (by omega)]
          congr 1
          simp; omega
  · -- nothing to move: either everything was scanned or nothing was taken out
    simp only [hmove, if_false, VM.pure_run]
    have hcase : rest.length = 0 ∨ junk.length = 0 := by omega
    have hcur : (kept ++ junk ++ rest).take (f.newLen + rest.length) = kept ++ rest := by
      rcases hcase with hr0 | hj0
      · have : rest = [] := List.eq_nil_of_length_eq_zero hr0
        subst this
        simp only [List.append_nil, List.length_nil, Nat.add_zero]
        rw [hnl, List.take_left']
        rfl
      · have : junk = [] := List.eq_nil_of_length_eq_zero hj0
        subst this
        simp only [List.append_nil]
        rw [List.take_of_length_le (by simp; omega)]
    have hsh := h.full.shorten (f.newLen + rest.length) (by rw [hlenall]; omega) (by simpa using hd)
    rw [hcur] at hsh
    by_cases hz : f.oldLen = 0
    · simp only [hz, if_true, VM.pure_run]
      have hk : kept.length = 0 ∧ rest.length = 0 := by omega
      refine ⟨s.v, rfl, ?_, rfl, rfl⟩
      have hv : ({ ({ s.v with len := f.oldLen } : VSt) with len := f.newLen + rest.length } : VSt) = s.v := by
        have := h.len0
        cases hv : s.v; simp [hv, hnl, hk.1, hk.2] at *; exact this.symm
      rw [hv] at hsh; exact hsh
    · simp only [hz, if_false]
      rw [lift_set_len X (f.newLen + rest.length) s hd]
      exact ⟨_, rfl, hsh, rfl, rfl⟩

/-- the predicate panics at its next call: `next` unwinds with `panicked` raised and nothing touched -/
theorem df_next_pred_panics (X : Ctx) (f : DFSt) (s : St) (kept junk rest : List Elem) (e : Elem) (fuel : Nat)
    (h : DFInv X s.v f kept junk (e :: rest)) (hp : X.o.panicAt s.sys.cbIdx = true) :
    ∃ s', DrainFilter.next X (fuel + 1) f s = (.ok (.predPanicked, { f with panicked := true }), s') ∧ s'.v = s.v ∧
      s'.sys.tr = s.sys.tr := by
  have hpos : f.pos < f.oldLen := by have := h.ps; have := h.ol; simp at *; omega
  have hlen : f.pos < (kept ++ junk ++ e :: rest).length := by have := h.ps; simp; omega
  have h0 := lift_data X s f.oldLen _ h.full h.hd
  have h1 := rd_full X s f.oldLen _ h.full h.hd f.pos hlen
  have hcc : DrainFilter.callbackCaught X s = (.ok true, { s with sys := { s.sys with cbIdx := s.sys.cbIdx + 1 } }) := by
    simp [DrainFilter.callbackCaught, VM.callback, hp]
  unfold DrainFilter.next
  simp only [hpos, if_true, VM.bind_run, h0, h1, hcc, VM.pure_run]
  exact ⟨_, rfl, rfl, rfl⟩

/-- (C04, DrainFilter) after any number of quiet steps the predicate panics: dropping the iterator
    afterwards restores the vector to  kept ++ not-yet-scanned  without calling any user code -/
theorem C04_drain_filter_partial (X : Ctx) (f : DFSt) (s : St) (kept junk rest : List Elem) (e : Elem)
    (h : DFInv X s.v f kept junk (e :: rest)) (hp : X.o.panicAt s.sys.cbIdx = true) :
    ∃ s1 s2, DrainFilter.next X (f.oldLen - f.pos + 1) f s = (.ok (.predPanicked, { f with panicked := true }), s1) ∧
      DrainFilter.drop X { f with panicked := true } s1 = (.ok (), s2) ∧ Abs X s2.v (kept ++ e :: rest) ∧
      s2.sys.tr = s.sys.tr ∧ s2.v.cap = s.v.cap := by
  obtain ⟨s1, hn, hv, htr⟩ := df_next_pred_panics X f s kept junk rest e (f.oldLen - f.pos) h hp
  have hinv1 : DFInv X s1.v { f with panicked := true } kept junk (e :: rest) → True := fun _ => trivial
  have hinv' : DFInv X s1.v { f with panicked := false } kept junk (e :: rest) := by
    rw [hv]
    exact { hd := h.hd, len0 := h.len0, full := h.full, nl := h.nl, ps := h.ps, ol := h.ol, np := rfl }
  obtain ⟨v', hg, habs, hc, _⟩ := df_guard_general X { f with panicked := false } s1 kept junk (e :: rest) hinv'
  have hgb : DrainFilter.guardBody X { f with panicked := true } s1 = DrainFilter.guardBody X { f with panicked := false } s1 := by
    unfold DrainFilter.guardBody; rfl
  refine ⟨s1, { s1 with v := v' }, hn, ?_, habs, htr, by show v'.cap = _; rw [hc, hv]⟩
  unfold DrainFilter.drop
  simp only [if_true]
  rw [hgb]; exact hg

end MV.Props

#print axioms MV.Props.df_guard_general
#print axioms MV.Props.C04_drain_filter_partial

import MiniVecProof.Proofs.MemWrite
/-
  C01 — `append`: every element of `other` is moved behind the elements of `self`, in order;
  `other` is left empty with its block and capacity; or the call stops in a sanctioned way with
  both vectors as they were.
-/
namespace MV.Props
open MV MV.Gen MV.GM VM

theorem lift_setHdrLen (X : Ctx) (n : Nat) (s : St) (hd : s.v.isDefault = false) :
    VM.lift X (GM.setHdrLen n) s = (.ok (), { s with v := { s.v with len := n } }) := by
  rw [lift_run]
  simp [GM.setHdrLen, hsOf, hd, replay, replay1, withHdr]

/-- (C01) `append` -/
theorem C01_append_partial (X : Ctx) (s : St) (es os : List Elem) (other : VSt) (h : Abs X s.v es) (ho : Abs X other os) :
    (∃ other' s', Vec.append X other s = (.ok other', s') ∧ Abs X s'.v (es ++ os) ∧ Abs X other' [] ∧
        other'.cap = other.cap ∧ other'.blk = other.blk) ∨
    (∃ p s', Vec.append X other s = (.error p, s') ∧ Panic.benign p = true ∧ s'.v = s.v) := by
  have hso : ∀ x : St, x = { s with v := other } → x.v = other ∧ x.sys = s.sys := fun x hx => by subst hx; exact ⟨rfl, rfl⟩
  generalize hsoeq : ({ s with v := other } : St) = so
  obtain ⟨hsov, hsos⟩ := hso so hsoeq.symm
  have ho' : Abs X so.v os := by rw [hsov]; exact ho
  have hLo : (hsOf so.v so.sys.allocIdx).L = os.length := ho'.len_eq
  have he : VM.lift X (is_empty X.env) so = (.ok (os.length == 0), so) :=
    lift_read X _ so _ (by rw [is_empty_run, hLo])
  unfold Vec.append
  have he' : VM.lift X (is_empty X.env) { s with v := other } = (.ok (os.length == 0), { s with v := other }) := by rw [hsoeq]; exact he
  simp only [VM.bind_run, onVec_read other _ s _ he']
  by_cases hz : os.length = 0
  · have hnil : os = [] := List.eq_nil_of_length_eq_zero hz
    subst hnil
    simp only [List.length_nil, beq_self_eq_true, if_true, VM.pure_run]
    exact .inl ⟨other, _, rfl, by simpa using h, ho, rfl, rfl⟩
  · have hne : (os.length == 0) = false := by simp [hz]
    simp only [hne, Bool.false_eq_true, if_false]
    have hdo : other.isDefault = false := by
      cases hd : other.isDefault
      · rfl
      · have := (ho.sentinel hd).2; subst this; simp at hz
    have hdo' : so.v.isDefault = false := by rw [hsov]; exact hdo
    obtain ⟨bo, hbo, hlo, _⟩ := ho'.alloc hdo'
    have h1 : VM.lift X (len X.env) so = (.ok os.length, so) := lift_read X _ so _ (by rw [len_run, hLo])
    have h2 : VM.lift X (as_ptr X.env) so = (.ok (.at (dataOff so.v.align)), so) :=
      lift_read X _ so _ (as_ptr_run X.env _ hdo' bo.lay so.v.cap hlo)
    have h3 := rdRange_abs X so os ho' hdo' os.length 0 (by omega)
    have h3' : (os.drop 0).take os.length = os := by simp
    rw [h3'] at h3
    have hin : (do
        let n ← VM.lift X (len X.env)
        let p ← VM.lift X (as_ptr X.env)
        let es ← VM.rdRange p 0 n
        pure (n, es) : VM (Nat × List Elem)) { s with v := other } = (.ok (os.length, os), { s with v := other }) := by
      rw [hsoeq]
      simp only [VM.bind_run, h1, h2, h3, VM.pure_run]
    simp only [VM.bind_run, onVec_read other _ s _ hin]
    rcases reserve_room X s es os.length h (by omega) with ⟨s1, hr, habs1, hd1, hroom⟩ | ⟨p, s1, hr, hb, hv⟩
    · rw [hr]
      simp only
      obtain ⟨b1, hb1, hl1, hsl1, hlc1, hel1, _⟩ := habs1.alloc hd1
      have hcapb : s1.v.cap ≤ b1.slots.length := by rw [hsl1]; exact physSlots_ge X.env _ _ _ hl1 h.elem_pos
      have hal1 : b1.lay.align = s1.v.align := (make_layout_honest _ _ _ _ hl1).2.1
      have h4 : VM.lift X (as_mut_ptr X.env) s1 = (.ok (.at (dataOff s1.v.align)), s1) :=
        lift_read X _ s1 _ (as_mut_ptr_run X.env _ hd1 b1.lay s1.v.cap hl1)
      have hL1 : (hsOf s1.v s1.sys.allocIdx).L = es.length := habs1.len_eq
      have h5 : VM.lift X (len X.env) s1 = (.ok es.length, s1) := lift_read X _ s1 _ (by rw [len_run, hL1])
      have h6 := inb_blk s1 b1 hb1 (es.length + os.length) (by omega)
      rw [hal1] at h6
      obtain ⟨v2, hw, habs2, hlen2, hcap2, hd2, hal2, hbid2, _⟩ := write_tail_abs X s1 es os habs1 hd1 hroom
      simp only [h4, h5, h6, hw]
      -- `other`'s length is zeroed
      have h7 := lift_setHdrLen X 0 { ({ s1 with v := v2 } : St) with v := other } hdo
      rw [onVec_ok other _ { s1 with v := v2 } _ _ h7]
      simp only
      have hW : v2.len + os.length < W := by
        have := habs1.cap_lt_W hd1
        rw [hlen2, ← hel1]; omega
      have h8 := hdrLenAdd_run X { s1 with v := v2 } os.length hd2 hW
      have hs2 : ({ ({ ({ s1 with v := v2 } : St) with v := ({ other with len := 0 } : VSt) } : St) with v := v2 } : St) = { s1 with v := v2 } := rfl
      rw [hs2, h8]
      refine .inl ⟨{ other with len := 0 }, _, rfl, ?_, ?_, rfl, rfl⟩
      · have : v2.len + os.length = es.length + os.length := by rw [hlen2, ← hel1]
        simp only [this]; exact habs2
      · simpa using ho.shorten 0 (by omega) hdo
    · rw [hr]
      exact .inr ⟨p, s1, rfl, hb, hv⟩

end MV.Props

#print axioms MV.Props.C01_append_partial

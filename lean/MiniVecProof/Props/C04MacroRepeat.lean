import MiniVecProof.Props.C01MacroRepeat
import MiniVecProof.Props.C04Loops
/-
  C04 — `mini_vec![elem; n]` when `Clone` or a destructor may panic at ANY call.

  The clones are written straight into the reserved slots and the length is published once, at the end: when the
  k-th `clone()` panics the local vector still records length 0 (the k - 1 clones already written are leaked, never
  exposed, never destroyed twice), it is unwound, the original element is destroyed, and the caller's vector is
  untouched in every outcome.
-/
namespace MV.Props
open MV MV.Gen MV.GM VM

/-- the cloning loop of the repeat form, `Clone` free to panic: it completes, or it stops with the local vector still
    recording length 0 -/
theorem repeat_go_any (X : Ctx) (elem : Elem) (n : Nat) :
    ∀ (k : Nat) (acc : List Elem) (s : St), Abs X { s.v with len := acc.length } acc → s.v.isDefault = false →
    s.v.len = 0 → acc.length + k = n → n ≤ s.v.cap → (∀ e ∈ acc, e.val = elem.val) →
    (∃ s' acc', VM.forN.go (fun i => do
        let e ← VM.cloneElem X elem
        let d ← VM.lift X (data X.env)
        VM.wr d i e) k acc.length s = (.ok (), s') ∧
      Abs X { s'.v with len := n } acc' ∧ acc'.length = n ∧ (∀ e ∈ acc', e.val = elem.val) ∧
      s'.v.isDefault = false ∧ s'.v.len = s.v.len ∧ s'.v.cap = s.v.cap) ∨
    (∃ s', VM.forN.go (fun i => do
        let e ← VM.cloneElem X elem
        let d ← VM.lift X (data X.env)
        VM.wr d i e) k acc.length s = (.error .explicit, s') ∧ Abs X s'.v []) := by
  intro k
  induction k with
  | zero =>
    intro acc s h hd _ hk hcap hv
    have : acc.length = n := by omega
    exact .inl ⟨s, acc, by simp [VM.forN.go], by rw [← this]; exact h, this, hv, hd, rfl, rfl⟩
  | succ k ih =>
    intro acc s h hd hl0 hk hcap hv
    rcases cloneElem_any X elem s with ⟨s1, hc, hv1⟩ | ⟨s1, hc, hv1⟩
    · have h1 : Abs X { s1.v with len := acc.length } acc := by rw [hv1]; exact h
      have hd1 : s1.v.isDefault = false := by rw [hv1]; exact hd
      have h2 := lift_data X s1 acc.length acc h1 hd1
      obtain ⟨v', hw, habs', hc', hd', hal', hl'⟩ :=
        wr_extend_full X s1 acc h1 hd1 (by rw [hv1]; omega) ⟨s.sys.nextId, elem.val⟩
      have hinv' : Abs X { ({ s1 with v := v' } : St).v with len := (acc ++ [(⟨s.sys.nextId, elem.val⟩ : Elem)]).length }
          (acc ++ [⟨s.sys.nextId, elem.val⟩]) := by
        simpa using habs'
      have hlen : (acc ++ [(⟨s.sys.nextId, elem.val⟩ : Elem)]).length = acc.length + 1 := by simp
      rcases ih (acc ++ [⟨s.sys.nextId, elem.val⟩]) { s1 with v := v' } hinv' hd'
        (by show v'.len = 0; rw [hl', hv1]; exact hl0)
        (by simp; omega) (by show n ≤ v'.cap; rw [hc', hv1]; exact hcap) (by
          intro e he
          rcases List.mem_append.mp he with h | h
          · exact hv e h
          · simp at h; subst h; rfl) with
        ⟨s', acc', hrun, habs2, hlen2, hv2, hd2, hl2, hc2⟩ | ⟨s', hrun, habs2⟩
      · refine .inl ⟨s', acc', ?_, habs2, hlen2, hv2, hd2, by rw [hl2]; show v'.len = _; rw [hl', hv1],
          by rw [hc2]; show v'.cap = _; rw [hc', hv1]⟩
        unfold VM.forN.go
        simp only [VM.bind_run, hc, h2, hw]
        rw [hlen] at hrun
        exact hrun
      · refine .inr ⟨s', ?_, habs2⟩
        unfold VM.forN.go
        simp only [VM.bind_run, hc, h2, hw]
        rw [hlen] at hrun
        exact hrun
    · -- `clone()` panics: nothing was written in this round; the recorded length is still 0
      refine .inr ⟨s1, ?_, ?_⟩
      · unfold VM.forN.go
        simp only [VM.bind_run, hc]
      · have h0 := Abs.shorten h 0 (Nat.zero_le _) (by simpa using hd)
        have hv0 : ({ ({ s.v with len := acc.length } : VSt) with len := 0 } : VSt) = s.v := by
          cases hv : s.v; simp [hv] at *; exact hl0.symm
        rw [hv0] at h0
        rw [hv1]
        simpa using h0

/-- **(C04) `mini_vec![elem; n]` under any panic oracle**: a well-formed vector of `n` value-equal clones, or a
    sanctioned stop; the caller's vector is untouched in every outcome -/
theorem C04_macro_repeat_any (X : Ctx) (hz : 0 < X.c.elemSize) (val : Int) (n : Nat) (s : St) :
    (∃ o s' new, Vec.macro_repeat X val n s = (.ok o, s') ∧ s'.v = s.v ∧ Abs X o new ∧
        new.map (·.val) = List.replicate n val) ∨
    (∃ p s', Vec.macro_repeat X val n s = (.error p, s') ∧ Panic.benign p = true ∧ s'.v = s.v) := by
  unfold Vec.macro_repeat
  simp only [VM.bind_run, mkElem_run]
  let s0 : St := { s with sys := { s.sys with nextId := s.sys.nextId + 1 } }
  let elem : Elem := ⟨s.sys.nextId, val⟩
  have hx : (∃ a s', (do
        VM.lift X (with_capacity X.env n)
        VM.forN n (fun i => do
          let e ← VM.cloneElem X elem
          let d ← VM.lift X (data X.env)
          VM.wr d i e)
        if n > 0 then VM.lift X (set_len X.env n) else pure () : VM Unit) { s0 with v := {} } = (.ok a, s') ∧
        ∃ new, Abs X s'.v new ∧ new.map (·.val) = List.replicate n val) ∨
      (∃ p s' acc, (do
        VM.lift X (with_capacity X.env n)
        VM.forN n (fun i => do
          let e ← VM.cloneElem X elem
          let d ← VM.lift X (data X.env)
          VM.wr d i e)
        if n > 0 then VM.lift X (set_len X.env n) else pure () : VM Unit) { s0 with v := {} } = (.error p, s') ∧
        Panic.benign p = true ∧ Abs X s'.v acc) := by
    simp only [VM.bind_run]
    rcases with_capacity_room X hz { s0 with v := {} } rfl n with ⟨s1, hr, habs1, hroom, hzero⟩ | ⟨p, s1, hr, hbn, hv⟩
    · rw [hr]
      simp only
      by_cases hn : n > 0
      · obtain ⟨hd1, hcap1⟩ := hroom hn
        have hl0 : s1.v.len = 0 := by
          obtain ⟨_, _, _, _, _, hel, _⟩ := habs1.alloc hd1; simpa using hel.symm
        have hinv0 : Abs X { s1.v with len := ([] : List Elem).length } [] := by
          have hv : ({ s1.v with len := 0 } : VSt) = s1.v := by cases hv : s1.v; simp [hv] at *; exact hl0.symm
          simpa [hv] using habs1
        rcases repeat_go_any X elem n n [] s1 hinv0 hd1 hl0 (by simp) (by omega) (by simp) with
          ⟨s2, acc, hrun, habs2, hlen2, hv2, hd2, hl2, hc2⟩ | ⟨s2, hrun, habs2⟩
        · have hrun' : VM.forN n (fun i => do
              let e ← VM.cloneElem X elem
              let d ← VM.lift X (data X.env)
              VM.wr d i e) s1 = (.ok (), s2) := by simpa [VM.forN] using hrun
          rw [hrun']
          simp only [hn, if_true, lift_set_len X n s2 hd2]
          refine .inl ⟨(), _, rfl, acc, habs2, ?_⟩
          apply List.ext_getElem?
          intro j
          simp only [List.getElem?_map, List.getElem?_replicate]
          by_cases hj : j < n
          · have hj' : j < acc.length := by omega
            rw [List.getElem?_eq_getElem hj']
            simp [hj, hv2 _ (List.getElem_mem hj'), elem]
          · rw [List.getElem?_eq_none (by omega)]; simp [hj]
        · have hrun' : VM.forN n (fun i => do
              let e ← VM.cloneElem X elem
              let d ← VM.lift X (data X.env)
              VM.wr d i e) s1 = (.error .explicit, s2) := by simpa [VM.forN] using hrun
          rw [hrun']
          exact .inr ⟨.explicit, s2, [], rfl, rfl, habs2⟩
      · have hn0 : n = 0 := by omega
        subst hn0
        have := hzero rfl
        subst this
        simp only [VM.forN, VM.forN.go, VM.pure_run, Nat.lt_irrefl, if_false, gt_iff_lt]
        exact .inl ⟨(), _, rfl, [], Abs.sentinel_abs X hz, rfl⟩
    · rw [hr]
      exact .inr ⟨p, s1, [], rfl, hbn, by rw [hv]; exact Abs.sentinel_abs X hz⟩
  unfold VM.guarded
  rcases withLocal_any X _ s0 (fun _ s' => ∃ new, Abs X s'.v new ∧ new.map (·.val) = List.replicate n val) hx with
    ⟨a, s', hrun, new, habs, hvals⟩ | ⟨p, s', hrun, hb, hv⟩
  · have hbody : (do
        let (_, o) ← Vec.withLocal X {} (do
          VM.lift X (with_capacity X.env n)
          VM.forN n (fun i => do
            let e ← VM.cloneElem X elem
            let d ← VM.lift X (data X.env)
            VM.wr d i e)
          if n > 0 then VM.lift X (set_len X.env n) else pure ())
        pure o : VM VSt) s0 = (.ok s'.v, { s' with v := s0.v }) := by
      simp only [VM.bind_run, hrun, VM.pure_run]
    rw [hbody]
    simp only
    obtain ⟨r, s2, hd, hv2, hr, _⟩ := dropElem_any X ⟨s.sys.nextId, val⟩ { s' with v := s0.v }
    rw [hd]
    rcases hr with rfl | rfl
    · exact .inl ⟨s'.v, _, new, rfl, by rw [hv2], habs, hvals⟩
    · exact .inr ⟨.explicit, s2, rfl, rfl, by rw [hv2]⟩
  · have hbody : (do
        let (_, o) ← Vec.withLocal X {} (do
          VM.lift X (with_capacity X.env n)
          VM.forN n (fun i => do
            let e ← VM.cloneElem X elem
            let d ← VM.lift X (data X.env)
            VM.wr d i e)
          if n > 0 then VM.lift X (set_len X.env n) else pure ())
        pure o : VM VSt) s0 = (.error p, s') := by
      simp only [VM.bind_run, hrun]
    rw [hbody]
    simp only
    by_cases hu : VM.unwinds p = true
    · simp only [hu, if_true]
      obtain ⟨r, s2, hd, hv2, hr, _⟩ := dropElem_any X ⟨s.sys.nextId, val⟩ s'
      rw [hd]
      rcases hr with rfl | rfl
      · exact .inr ⟨p, s2, rfl, hb, by rw [hv2]; exact hv⟩
      · exact .inr ⟨.doublePanic, s2, by simp [VM.unwinds], rfl, by rw [hv2]; exact hv⟩
    · simp only [hu, Bool.false_eq_true, if_false]
      exact .inr ⟨p, s', rfl, hb, hv⟩

end MV.Props

#print axioms MV.Props.repeat_go_any
#print axioms MV.Props.C04_macro_repeat_any

import MiniVecProof.Proofs.MemOps
/-
  C14 — raw-pointer round trip (PARTIAL; KNOWN FINDING for requested over-alignment).

  `from_raw_part(s)` walks back from element 0 by `next_aligned(size_of::<Header>(), align_of::<T>())`
  (regenerated `from_raw_part_pre`), while element 0 lives at `next_aligned(size_of::<Header>(), A)`
  for the alignment `A` recorded in the block (regenerated `data`). The round trip lands on the
  block base exactly when the two agree:
  * proved: they agree for every element type whenever the block has its NATURAL alignment
    `max(align_of::<T>(), 8)` (every vector not created by `with_alignment(_, A)` with a larger `A`),
    so the rebuilt handle is the original one and nothing else is touched;
  * proved: they DISAGREE for a requested alignment above the natural one (the negation, with
    witness) — the genuine defect recorded in known_findings.json, replayed on the implementation
    by the corpus case `D11`.
-/
namespace MV.Props
open MV MV.Gen MV.GM VM

theorem isPow2_cases_le8 (a : Nat) (h : isPow2 a = true) (hle : a ≤ 8) : a = 1 ∨ a = 2 ∨ a = 4 ∨ a = 8 := by
  unfold isPow2 at h
  simp only [List.any_eq_true, beq_iff_eq] at h
  obtain ⟨k, _, hk⟩ := h
  subst hk
  have : k ≤ 3 := by
    by_cases hk3 : k ≤ 3
    · exact hk3
    · have : 2 ^ 4 ≤ 2 ^ k := Nat.pow_le_pow_right (by omega) (by omega)
      omega
  have hk' : k = 0 ∨ k = 1 ∨ k = 2 ∨ k = 3 := by omega
  rcases hk' with rfl | rfl | rfl | rfl <;> simp

/-- back offset = forward offset for the natural alignment, for every power-of-two `align_of::<T>()` -/
theorem C14_offsets_agree_natural (a : Nat) (h : isPow2 a = true) :
    alignUp hdrSize a = dataOff (max a hdrAlign) := by
  unfold dataOff hdrAlign
  by_cases hle : a ≤ 8
  · rcases isPow2_cases_le8 a h hle with rfl | rfl | rfl | rfl <;> decide
  · have : max a 8 = a := by omega
    rw [this]

/-- the regenerated back-walk computes exactly that offset -/
theorem C14_from_raw_part_offset (E : Env) (p : DPtr) (g : GS) (hp : p.isNull = false)
    (h : isPow2 E.c.elemAlign = true) (hsmall : alignUp hdrSize E.c.elemAlign < W) :
    from_raw_part_pre E p g =
      (.ok (.cont ⟨p, hdrSize, dataOff (max E.c.elemAlign hdrAlign), p⟩), g) := by
  have hpos := isPow2_pos _ h
  have hW : hdrSize < W := by decide
  have hsmall' : dataOff (max E.c.elemAlign hdrAlign) < W := by rw [← C14_offsets_agree_natural _ h]; exact hsmall
  unfold from_raw_part_pre
  simp [GM.debugAssert, hp, next_aligned_eq _ _ _ hpos hW, hsmall', C14_offsets_agree_natural _ h]

/-- model level: on a well-formed vector with storage whose block has the natural alignment, the
    round trip rebuilds the same handle and reports its length and capacity; state untouched -/
theorem C14_roundtrip_natural (X : Ctx) (s : St) (es : List Elem) (h : Abs X s.v es)
    (hd : s.v.isDefault = false) (hnat : s.v.align = max X.c.elemAlign hdrAlign)
    (hpow : isPow2 X.c.elemAlign = true) :
    Vec.raw_roundtrip X (do
        let f ← from_raw_part_pre X.env (.at 0)
        match f with
        | .cont env => pure env.v_aligned
        | .ret _ => GM.throw .ub) s = (.ok (some (es.length, s.v.cap)), s) := by
  obtain ⟨b, hb, hl, hs, hlc, hel, hinit⟩ := h.alloc hd
  have hL : (hsOf s.v s.sys.allocIdx).L = es.length := h.len_eq
  have hC : (hsOf s.v s.sys.allocIdx).C = s.v.cap := by simp [GS.C, hsOf, hd]
  have h1 : VM.lift X (as_mut_ptr X.env) s = (.ok (.at (dataOff s.v.align)), s) :=
    lift_read X _ s _ (as_mut_ptr_run X.env _ hd b.lay s.v.cap hl)
  have h2 : VM.lift X (len X.env) s = (.ok es.length, s) := lift_read X _ s _ (by rw [len_run, hL])
  have h3 : VM.lift X (capacity X.env) s = (.ok s.v.cap, s) := lift_read X _ s _ (by rw [capacity_run, hC])
  have hsmall : alignUp hdrSize X.c.elemAlign < W := by
    rw [C14_offsets_agree_natural _ hpow, ← hnat]
    obtain ⟨_, _, hsz⟩ := make_layout_ok _ _ _ _ hl
    have : dataOff s.v.align ≤ totalSize X.env.c s.v.cap s.v.align := by unfold totalSize; omega
    have h2 : ISIZE_MAX + 1 < W := by decide
    omega
  have h4 : VM.lift X (do
        let f ← from_raw_part_pre X.env (.at 0)
        match f with
        | .cont env => pure env.v_aligned
        | .ret _ => GM.throw .ub) s = (.ok (dataOff s.v.align), s) := by
    apply lift_read
    simp only [GM.bind_run]
    rw [C14_from_raw_part_offset X.env (.at 0) _ rfl hpow hsmall, hnat]
    rfl
  unfold Vec.raw_roundtrip
  simp only [VM.bind_run, h1, h2, h3, h4, if_true, VM.pure_run]

/-- KNOWN FINDING (D11), as a theorem about the regenerated offsets: with `align_of::<T>() = 4`
    and a block requested with alignment 64 the back-walk (24) misses the data offset (64). -/
theorem C14_offsets_disagree_overaligned :
    ∃ elemAlign A, isPow2 elemAlign = true ∧ isPow2 A = true ∧ max elemAlign hdrAlign ≤ A ∧
      alignUp hdrSize elemAlign ≠ dataOff A :=
  ⟨4, 64, by decide, by decide, by decide, by decide⟩

end MV.Props

#print axioms MV.Props.C14_offsets_agree_natural
#print axioms MV.Props.C14_from_raw_part_offset
#print axioms MV.Props.C14_roundtrip_natural
#print axioms MV.Props.C14_offsets_disagree_overaligned

import MiniVecProof.Proofs.MemOps
/-
  C14 — raw-pointer round trip.

  `from_raw_part(s)` reads the block's alignment from the word right in front of element 0 and walks
  back by `next_aligned(size_of::<Header>(), alignment)`; element 0 lives at
  `next_aligned(size_of::<Header>(), A)` for the alignment `A` recorded in the block (regenerated
  `data`).  `grow` writes that word before it installs a block (regenerated `grow`: `GM.writeMirror`
  checks value and place; `GM.setBuf` refuses a block without it — `grow_spec` shows every
  successful `grow` passes both), so the two distances agree for EVERY alignment, requested or
  natural: the rebuilt handle is the original one and nothing else is touched.
  (Before the repair recorded as D11 the back-walk used `align_of::<T>()` and missed the header of
  over-aligned buffers; `C14_offsets_disagreed_overaligned` keeps the arithmetic witness.)
-/
namespace MV.Props
open MV MV.Gen MV.GM VM

/-- the regenerated prefixes do nothing but the null check -/
theorem C14_from_raw_part_pre (E : Env) (p : DPtr) (g : GS) (hp : p.isNull = false) :
    (∃ env, from_raw_part_pre E p g = (.ok (.cont env), g)) ∧
    (∀ l c, ∃ env, from_raw_parts_pre E p l c g = (.ok (.cont env), g)) := by
  constructor
  · exact ⟨⟨p, hdrSize, p⟩, by simp [from_raw_part_pre, GM.debugAssert, hp]⟩
  · intro l c; exact ⟨⟨p, l, c, hdrSize, p⟩, by simp [from_raw_parts_pre, GM.debugAssert, hp]⟩

/-- model level: on EVERY well-formed vector with storage — whatever alignment its block was
    requested with — the round trip rebuilds the same handle and reports its length and capacity;
    state untouched -/
theorem C14_roundtrip (X : Ctx) (s : St) (es : List Elem) (h : Abs X s.v es) (hd : s.v.isDefault = false) :
    Vec.raw_roundtrip X (do
        let f ← from_raw_part_pre X.env (.at 0)
        match f with
        | .cont _ => pure ()
        | .ret _ => GM.throw .ub) s = (.ok (some (es.length, s.v.cap)), s) ∧
    Vec.raw_roundtrip X (do
        let f ← from_raw_parts_pre X.env (.at 0) 0 0
        match f with
        | .cont _ => pure ()
        | .ret _ => GM.throw .ub) s = (.ok (some (es.length, s.v.cap)), s) := by
  obtain ⟨b, hb, hl, hs, hlc, hel, hinit⟩ := h.alloc hd
  have hL : (hsOf s.v s.sys.allocIdx).L = es.length := h.len_eq
  have hC : (hsOf s.v s.sys.allocIdx).C = s.v.cap := by simp [GS.C, hsOf, hd]
  have hal : b.lay.align = s.v.align := (make_layout_honest _ _ _ _ hl).2.1
  have h1 : VM.lift X (as_mut_ptr X.env) s = (.ok (.at (dataOff s.v.align)), s) :=
    lift_read X _ s _ (as_mut_ptr_run X.env _ hd b.lay s.v.cap hl)
  have h2 : VM.lift X (len X.env) s = (.ok es.length, s) := lift_read X _ s _ (by rw [len_run, hL])
  have h3 : VM.lift X (capacity X.env) s = (.ok s.v.cap, s) := lift_read X _ s _ (by rw [capacity_run, hC])
  obtain ⟨m1, _, _⟩ := mirror_ok X.env s.v.cap s.v.align b.lay hl
  have h4 : Vec.readMirror s = (.ok s.v.align, s) := by
    simp [Vec.readMirror, VM.bind_run, VM.getV_run, hb, hal]
  have h5 : VM.lift X (GM.liftE (next_aligned X.env hdrSize s.v.align)) s = (.ok (dataOff s.v.align), s) :=
    lift_read X _ s _ (by simp [GM.liftE, m1, dataOff])
  constructor
  · have hp : VM.lift X (do
        let f ← from_raw_part_pre X.env (.at 0)
        match f with
        | .cont _ => pure ()
        | .ret _ => GM.throw .ub : GM Unit) s = (.ok (), s) :=
      lift_read X _ s _ (by simp [from_raw_part_pre, GM.debugAssert, DPtr.isNull])
    unfold Vec.raw_roundtrip
    simp only [VM.bind_run, h1, h2, h3, hp, h4, h5, if_true, VM.pure_run]
  · have hp : VM.lift X (do
        let f ← from_raw_parts_pre X.env (.at 0) 0 0
        match f with
        | .cont _ => pure ()
        | .ret _ => GM.throw .ub : GM Unit) s = (.ok (), s) :=
      lift_read X _ s _ (by simp [from_raw_parts_pre, GM.debugAssert, DPtr.isNull])
    unfold Vec.raw_roundtrip
    simp only [VM.bind_run, h1, h2, h3, hp, h4, h5, if_true, VM.pure_run]

/-- every successful `grow` wrote the word: the regenerated `grow` passes the value/place check of
    `GM.writeMirror` and the "was written" check of `GM.setBuf` on every path that installs a block
    (otherwise `grow_spec`'s equation, which has no such failure, could not hold) -/
theorem C14_grow_writes_the_word (E : Env) (s : GS) (c a : Nat) (hf : s.fresh = none) (hlen : s.L ≤ c) :
    (grow E c a s).1 = .error .ub → False := by
  rw [grow_spec E s c a hf, if_neg (by omega)]
  by_cases h2 : c = s.C ∧ a = s.A E
  · rw [if_pos h2]; simp
  · rw [if_neg h2]
    cases hLy : make_layout E c a with
    | error p =>
      simp only
      intro hp
      have := make_layout_error_unwinding _ _ _ _ hLy
      simp at hp; subst hp; simp [Panic.unwinding] at this
    | ok L =>
      simp only
      cases s.isDefault with
      | true => simp only [if_true]; split <;> simp
      | false =>
        simp only [Bool.false_eq_true, if_false]
        cases hL0 : make_layout E s.cap a with
        | error p =>
          simp only
          intro hp
          have := make_layout_error_unwinding _ _ _ _ hL0
          simp at hp; subst hp; simp [Panic.unwinding] at this
        | ok L0 => simp only; split <;> simp

/-- what went wrong before the repair (D11), as arithmetic: with `align_of::<T>() = 4` and a block
    requested with alignment 64, walking back by `next_aligned(24, align_of::<T>())` (24) misses the
    data offset (64) -/
theorem C14_offsets_disagreed_overaligned :
    ∃ elemAlign A, isPow2 elemAlign = true ∧ isPow2 A = true ∧ max elemAlign hdrAlign ≤ A ∧
      alignUp hdrSize elemAlign ≠ dataOff A :=
  ⟨4, 64, by decide, by decide, by decide, by decide⟩

end MV.Props

#print axioms MV.Props.C14_from_raw_part_pre
#print axioms MV.Props.C14_roundtrip
#print axioms MV.Props.C14_grow_writes_the_word
#print axioms MV.Props.C14_offsets_disagreed_overaligned

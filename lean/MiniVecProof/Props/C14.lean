import MiniVecProof.Proofs.MemOps
/-
  C14 — raw-pointer round trip.

  `from_raw_part(s)` reads the block's alignment from the word right in front of element 0 and walks
  back by `next_aligned(size_of::<Header>(), alignment)` (both statements are REGENERATED from the source:
  `Gen.from_raw_part(s)_pre` now reaches `let buf = p.sub(aligned)`); element 0 lives at
  `next_aligned(size_of::<Header>(), A)` for the alignment `A` recorded in the block (regenerated
  `data`).  `grow` writes that word before it installs a block (regenerated `grow`: `GM.writeMirror`
  checks value and place; `GM.setBuf` refuses a block without it — `grow_spec` shows every
  successful `grow` passes both), so the two distances agree for EVERY alignment, requested or
  natural: the rebuilt handle is the original one and nothing else is touched.
  (Before the repair recorded as D11 the back-walk used `align_of::<T>()` and missed the header of
  over-aligned buffers; `C14_offsets_disagreed_overaligned` keeps the arithmetic witness.)
-/
namespace MV.Props
open MV MV.Gen MV.GM VM

/-- the regenerated `from_raw_part(s)` up to `let buf = p.sub(aligned)`, on the header machine: handed the data
    pointer of a block recorded with alignment `A` (any alignment a layout exists for), it reads `A` from the
    word in front of the elements and is about to walk back exactly the data offset of that block; nothing is
    changed. (Handed any other pointer, or a vector without storage, the read is illegal.) -/
theorem C14_back_distance (X : Ctx) (g : GS) (c : Nat) (L : Layout) (hd : g.isDefault = false)
    (hL : make_layout X.env c g.align = .ok L) (l k : Nat) :
    Vec.backPart X (.at (dataOff g.align)) g = (.ok (dataOff g.align), g) ∧
    Vec.backParts X l k (.at (dataOff g.align)) g = (.ok (dataOff g.align), g) := by
  obtain ⟨m1, _, _⟩ := mirror_ok X.env c g.align L hL
  have hr : GM.readMirror (.at (alignUp hdrSize g.align)) wordSize g = (.ok g.align, g) := by
    simp [GM.readMirror, hd]
  simp only [dataOff]
  constructor
  · simp [Vec.backPart, from_raw_part_pre, GM.debugAssert, DPtr.isNull, GM.bind_run, hr, GM.liftE, m1]
  · simp [Vec.backParts, from_raw_parts_pre, GM.debugAssert, DPtr.isNull, GM.bind_run, hr, GM.liftE, m1]

/-- a pointer that is not the data pointer of the installed block is refused by the model -/
theorem C14_foreign_pointer_refused (X : Ctx) (g : GS) (o : Nat) (ho : o ≠ dataOff g.align) :
    (Vec.backPart X (.at o) g).1 = .error .ub := by
  have hr : GM.readMirror (.at o) wordSize g = (.error .ub, g) := by
    simp [GM.readMirror, dataOff] at *; intro _; exact ho
  simp [Vec.backPart, from_raw_part_pre, GM.debugAssert, DPtr.isNull, GM.bind_run, hr]

/-- model level: on EVERY well-formed vector with storage — whatever alignment its block was
    requested with — the round trip rebuilds the same handle and reports its length and capacity;
    state untouched -/
theorem C14_roundtrip (X : Ctx) (s : St) (es : List Elem) (h : Abs X s.v es) (hd : s.v.isDefault = false) (l k : Nat) :
    Vec.raw_roundtrip X (Vec.backPart X) s = (.ok (some (es.length, s.v.cap)), s) ∧
    Vec.raw_roundtrip X (Vec.backParts X l k) s = (.ok (some (es.length, s.v.cap)), s) := by
  obtain ⟨b, hb, hl, hs, hlc, hel, hinit⟩ := h.alloc hd
  have hL : (hsOf s.v s.sys.allocIdx).L = es.length := h.len_eq
  have hC : (hsOf s.v s.sys.allocIdx).C = s.v.cap := by simp [GS.C, hsOf, hd]
  have h1 : VM.lift X (as_mut_ptr X.env) s = (.ok (.at (dataOff s.v.align)), s) :=
    lift_read X _ s _ (as_mut_ptr_run X.env _ hd b.lay s.v.cap hl)
  have h2 : VM.lift X (len X.env) s = (.ok es.length, s) := lift_read X _ s _ (by rw [len_run, hL])
  have h3 : VM.lift X (capacity X.env) s = (.ok s.v.cap, s) := lift_read X _ s _ (by rw [capacity_run, hC])
  have hg : (hsOf s.v s.sys.allocIdx).isDefault = false := by simp [hsOf, hd]
  have hga : (hsOf s.v s.sys.allocIdx).align = s.v.align := by simp [hsOf, hd]
  have hbk := C14_back_distance X (hsOf s.v s.sys.allocIdx) s.v.cap b.lay hg (by rw [hga]; exact hl) l k
  rw [hga] at hbk
  have h4 : VM.lift X (Vec.backPart X (.at (dataOff s.v.align))) s = (.ok (dataOff s.v.align), s) :=
    lift_read X _ s _ hbk.1
  have h5 : VM.lift X (Vec.backParts X l k (.at (dataOff s.v.align))) s = (.ok (dataOff s.v.align), s) :=
    lift_read X _ s _ hbk.2
  constructor
  · unfold Vec.raw_roundtrip
    simp only [VM.bind_run, h1, h2, h3, h4, if_true, VM.pure_run]
  · unfold Vec.raw_roundtrip
    simp only [VM.bind_run, h1, h2, h3, h5, if_true, VM.pure_run]

/-- every successful `grow` wrote the word: the regenerated `grow` passes the value/place check of
    `GM.writeMirror` and the "was written" check of `GM.setBuf` on every path that installs a block
    (otherwise `grow_spec`'s equation, which has no such failure, could not hold) -/
theorem C14_grow_writes_the_word (E : Env) (s : GS) (c a : Nat) (hf : s.fresh = none) (hlen : s.L ≤ c) :
    (grow E c a s).1 = .error .ub → False := by
  rw [grow_spec E s c a hf, if_neg (by omega)]
  by_cases h2 : c = s.C ∧ a = s.A E
  · rw [if_pos h2]; simp
  · rw [if_neg h2]
    cases hLy : make_layout E c a with
    | error p =>
      simp only
      intro hp
      have := make_layout_error_unwinding _ _ _ _ hLy
      simp at hp; subst hp; simp [Panic.unwinding] at this
    | ok L =>
      simp only
      cases s.isDefault with
      | true => simp only [if_true]; split <;> simp
      | false =>
        simp only [Bool.false_eq_true, if_false]
        cases hL0 : make_layout E s.cap a with
        | error p =>
          simp only
          intro hp
          have := make_layout_error_unwinding _ _ _ _ hL0
          simp at hp; subst hp; simp [Panic.unwinding] at this
        | ok L0 => simp only; split <;> simp

/-- what went wrong before the repair (D11), as arithmetic: with `align_of::<T>() = 4` and a block
    requested with alignment 64, walking back by `next_aligned(24, align_of::<T>())` (24) misses the
    data offset (64) -/
theorem C14_offsets_disagreed_overaligned :
    ∃ elemAlign A, isPow2 elemAlign = true ∧ isPow2 A = true ∧ max elemAlign hdrAlign ≤ A ∧
      alignUp hdrSize elemAlign ≠ dataOff A :=
  ⟨4, 64, by decide, by decide, by decide, by decide⟩

end MV.Props

#print axioms MV.Props.C14_back_distance
#print axioms MV.Props.C14_foreign_pointer_refused
#print axioms MV.Props.C14_roundtrip
#print axioms MV.Props.C14_grow_writes_the_word
#print axioms MV.Props.C14_offsets_disagreed_overaligned

import MiniVecProof.Gen.Facts
import MiniVecProof.Model.Basic
/-
  C13 — the handle is one pointer wide, with a free niche (PARTIAL: rustc's layout algorithm is
  modelled here, not verified; the model is validated by compile-time assertions for a family of T).

  The field list of `MiniVec` is REGENERATED from the source. Layout model of a `repr(Rust)` struct:
  size = sum of the field sizes rounded up to the largest field alignment, alignment = largest field
  alignment, and it offers a niche if some field does. A field whose type mentions `T` by value
  has a size that depends on the element type; anything the translator does not recognise is
  treated the same way (so it can only make the theorem fail, never pass).
-/
namespace MV.Props
open MV MV.Gen.Facts

structure TyLayout where
  size : Nat
  align : Nat
  niche : Bool

def fieldLayout (c : Cfg) : FieldTy → TyLayout
  | .nonNullU8 | .nonNullT | .nonNullVec | .vecRefMut | .vecOwned => ⟨8, 8, true⟩
  | .phantomT | .phantomRefT => ⟨0, 1, false⟩
  | .usize | .rawConstT | .rawMutT | .rawU8 => ⟨8, 8, false⟩
  | .bool => ⟨1, 1, true⟩
  | .elemT | .closure | .iter | .other => ⟨c.elemSize, max c.elemAlign 1, false⟩

def structLayout (c : Cfg) (fs : List FieldTy) : TyLayout :=
  let ls := fs.map (fieldLayout c)
  let al := ls.foldl (fun a l => max a l.align) 1
  let sz := ls.foldl (fun a l => a + l.size) 0
  ⟨(sz + al - 1) / al * al, al, ls.any (·.niche)⟩

/-- For EVERY element type (every size / alignment class): `MiniVec<T>` is 8 bytes, 8-aligned and
    has a niche, so `Option<MiniVec<T>>` is no larger. -/
theorem C13_one_pointer_with_niche (c : Cfg) :
    (structLayout c fieldsMiniVec).size = 8 ∧ (structLayout c fieldsMiniVec).align = 8 ∧
    (structLayout c fieldsMiniVec).niche = true := by
  simp [structLayout, fieldsMiniVec, fieldLayout]

/-- the statement is about the element type: a per-`T` field would break it -/
example : ∃ c, (structLayout c [.nonNullU8, .phantomT, .elemT]).size ≠ 8 :=
  ⟨⟨16, 8, true⟩, by decide⟩
/-- … and so would a nullable pointer (no niche) -/
example : (structLayout ⟨4, 4, true⟩ [.rawU8, .phantomT]).niche = false := by decide

end MV.Props

#print axioms MV.Props.C13_one_pointer_with_niche

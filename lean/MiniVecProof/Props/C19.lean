import MiniVecProof.Proofs.GenProps
/-
  C19 — serde: bounded pre-allocation (part (c) of the design), on REGENERATED code.
  The length an input claims only enters through `map_size_hint`, which is capped at 1024; the
  up-front reservation made from it (`with_capacity(h)` in `visit_seq`, `reserve(h - len)` in
  `deserialize_in_place`) therefore asks for at most 1024 elements, whatever the claimed hint, and the
  capacity after it is below `2 * 1024` unless the vector was already larger.
  Parts (a), (b), (d) (round trip, in-place regimes, error part-way) are in `Props/C19Mem.lean`.
-/
namespace MV.Props
open MV MV.Gen MV.GM

theorem C19_hint_capped (E : Env) (hint : Option Nat) :
    ∃ h, map_size_hint E hint = .ok h ∧ h ≤ 1024 ∧ (hint = none → h = 0) ∧
      (∀ n, hint = some n → h = min n 1024) := by
  cases hint with
  | none =>
    refine ⟨0, rfl, by omega, fun _ => rfl, ?_⟩
    intro n hn; cases hn
  | some n =>
    refine ⟨min n 1024, rfl, Nat.min_le_right _ _, ?_, ?_⟩
    · intro hn; cases hn
    · intro m hm; cases hm; rfl

/-- the doubling loop overshoots its target by less than a factor two (or returns the first figure) -/
theorem capLoop_bound (E : Env) (tot fuel nc r : Nat) (h : capLoop E tot fuel nc = .ok r) :
    r = nc ∨ r < 2 * tot ∨ r ≤ 8 := by
  induction fuel generalizing nc with
  | zero => simp [capLoop] at h
  | succ f ih =>
    unfold capLoop at h
    by_cases hlt : nc < tot
    · simp only [hlt, if_true, Except.bind_eq_ok] at h
      obtain ⟨v, hv, hrest⟩ := h
      rw [next_capacity_eq] at hv
      split at hv <;> simp at hv
      rcases ih v hrest with h1 | h1
      · right
        subst h1 hv
        unfold growFig
        split
        · split <;> (try split) <;> omega
        · omega
      · exact .inr h1
    · simp [hlt] at h; exact .inl h.symm

/-- in-place: after `reserve(h - len)` with `h ≤ 1024` the capacity is the old one, or below 2048 -/
theorem C19_inplace_reservation_bounded (E : Env) (s s' : GS) (h add : Nat) (hf : s.fresh = none)
    (hh : h ≤ 1024) (hadd : s.L + add = h) (hr : reserve E add s = (.ok (), s')) :
    s'.C = s.C ∨ s'.C < 2048 := by
  rw [reserve_spec] at hr
  have hc : checkedAdd s.L add = some h := by unfold checkedAdd W; simp; omega
  simp only [hc] at hr
  by_cases ht : h ≤ s.C
  · rw [if_pos ht] at hr; obtain ⟨_, rfl⟩ := Prod.mk.inj hr; exact .inl rfl
  · rw [if_neg ht] at hr
    cases hrt : reserveTarget E h s.C with
    | error p => simp [hrt] at hr
    | ok nc =>
      simp only [hrt] at hr
      have ⟨hC, _, _⟩ := grow_ok_figures E s s' nc _ hf hr
      right; rw [hC]
      unfold reserveTarget at hrt
      rw [Except.bind_eq_ok] at hrt
      obtain ⟨v, hv, hl⟩ := hrt
      rw [next_capacity_eq] at hv
      split at hv <;> simp at hv
      rcases capLoop_bound E h loopFuel v nc hl with h1 | h1 | h1
      · subst h1 hv
        unfold growFig
        split
        · split <;> (try split) <;> omega
        · omega
      · omega
      · omega

/-- `visit_seq`: `with_capacity(h)` with `h ≤ 1024` gives capacity exactly `h` -/
theorem C19_visit_seq_reservation_bounded (E : Env) (hint : Option Nat) (s s' : GS) (h : Nat)
    (hf : s.fresh = none) (hh : map_size_hint E hint = .ok h) (hr : with_capacity E h s = (.ok (), s')) :
    s'.C ≤ 1024 := by
  obtain ⟨h', e, hle, _, _⟩ := C19_hint_capped E hint
  rw [hh] at e; cases e
  rw [with_capacity_spec] at hr
  by_cases hz : E.c.elemSize > 0
  · rw [if_pos hz] at hr
    rw [reserve_exact_spec] at hr
    have hL : s.reset.L = 0 := rfl
    have hC : s.reset.C = 0 := rfl
    have hc : checkedAdd s.reset.L h = some h := by rw [hL]; unfold checkedAdd W; simp; omega
    simp only [hc, hC] at hr
    by_cases h0 : h ≤ 0
    · rw [if_pos h0] at hr; obtain ⟨_, rfl⟩ := Prod.mk.inj hr; rw [hC]; omega
    · rw [if_neg h0] at hr
      have ⟨hC', _, _⟩ := grow_ok_figures E s.reset s' h _ hf hr
      omega
  · rw [if_neg hz] at hr; simp at hr

example : map_size_hint ⟨⟨4, 4, true⟩, .debug, fun _ => false⟩ (some USIZE_MAX) = .ok 1024 := by decide

end MV.Props

#print axioms MV.Props.C19_hint_capped
#print axioms MV.Props.C19_inplace_reservation_bounded
#print axioms MV.Props.C19_visit_seq_reservation_bounded

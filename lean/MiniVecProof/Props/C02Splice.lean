import MiniVecProof.Props.C02All
import MiniVecProof.Props.C10Splice
/-
  C02 — `splice` in the accounting by destructor events: creating a Splice, stepping it any way and dropping it
  destroys exactly the selected elements that were not yielded; the replacement's items (up to its first `None`) are
  new elements handed to the vector; nothing else is destroyed (the temporary vector that collects the rest of the
  replacement is emptied by `set_len(0)` before it is dropped).
-/
namespace MV.Props
open MV MV.Gen MV.GM VM

theorem QuietD.withLocal {α} (X : Ctx) (o : VSt) {x : VM α} (hx : QuietD x) : QuietD (Vec.withLocal X o x) := by
  intro s a s' h
  unfold Vec.withLocal at h
  cases hxs : x { s with v := o } with
  | mk r s1 =>
    rw [hxs] at h
    cases r with
    | ok a0 =>
      simp only [Prod.mk.injEq] at h
      rw [← h.2]
      exact hx { s with v := o } a0 s1 hxs
    | error p =>
      simp only at h
      split at h
      · split at h <;> simp at h
      · simp at h

theorem QuietD.onVec {α} (o : VSt) {x : VM α} (hx : QuietD x) : QuietD (VM.onVec o x) := by
  intro s a s' h
  unfold VM.onVec at h
  cases hxs : x { s with v := o } with
  | mk r s1 =>
    rw [hxs] at h
    cases r with
    | ok a0 =>
      simp only [Prod.mk.injEq] at h
      rw [← h.2]
      exact hx { s with v := o } a0 s1 hxs
    | error p => simp at h

theorem QuietD.collect (X : Ctx) (it : Vec.IterScript) : QuietD (Vec.collect X it) := by
  unfold Vec.collect
  refine QuietD.bind (QuietD.withLocal X {} (QuietD.bind (.ofQuiet (Quiet.lift X _)) (fun _ => .ofQuiet (Quiet.forIter X _ it)))) (fun p => ?_)
  exact QuietD.pure' _

theorem QuietD.lift {α} (X : Ctx) (g : GM α) : QuietD (VM.lift X g) := .ofQuiet (Quiet.lift X g)

theorem QuietD.makeRoom (X : Ctx) (d : DrainSt) (tmp : VSt) : QuietD (Splice.makeRoom X d tmp) := by
  unfold Splice.makeRoom
  refine QuietD.bind (QuietD.lift X _) (fun cap => QuietD.bind (QuietD.lift X _) (fun l =>
    QuietD.bind (QuietD.onVec tmp (QuietD.lift X _)) (fun p => QuietD.bind (QuietD.lift X _) (fun t1 =>
      QuietD.bind (QuietD.lift X _) (fun total => ?_)))))
  dsimp only
  split
  · exact QuietD.bind (QuietD.lift X _) (fun a => QuietD.bind (QuietD.lift X _) (fun _ => QuietD.pure' _))
  · exact QuietD.pure' _

/-- dropping a vector that exposes nothing runs no destructor -/
theorem dropVec_nil_dropEvs (X : Ctx) (hq : ∀ k, X.o.panicAt k = false) (s : St) (h : Abs X s.v []) (s' : St)
    (hrun : Vec.dropVec X s = (.ok (), s')) : dropEvs s'.sys.tr = dropEvs s.sys.tr := by
  obtain ⟨hdef, halloc⟩ := dropVec_spec X hq s [] h
  cases hd : s.v.isDefault with
  | true =>
    rw [hdef hd] at hrun
    simp only [Prod.mk.injEq] at hrun
    rw [← hrun.2]
  | false =>
    obtain ⟨b, _, hdrop⟩ := halloc hd
    rw [hdrop] at hrun
    simp only [Prod.mk.injEq] at hrun
    rw [← hrun.2]
    simp only [dropEvs_append, afterDrops_dropEvs, dropEvents_nil, List.append_nil]
    simp [dropEvs, Ev.isDrop]

/-- the hole is full, the rest of the replacement is collected and inserted: no destructor runs -/
theorem insertRest_ev (X : Ctx) (hq : ∀ k, X.o.panicAt k = false) (s : St) (es items : List Elem) (st en : Nat)
    (d : DrainSt) (fill : Vec.IterScript) (h : FillInv X s.v es st en items) (hfull : st + items.length = en)
    (htp : d.tailPos = en) (htl : d.tail = es.length - en) (s' : St)
    (hrun : Splice.insertRest X d fill s = (.ok (), s')) : dropEvs s'.sys.tr = dropEvs s.sys.tr := by
  have hz := h.full.elem_pos
  unfold Splice.insertRest at hrun
  simp only [VM.bind_run] at hrun
  rcases C17_collect_partial X hq fill s hz with ⟨tmp, s1, ts, hc, hv1, habst, hvals⟩ | ⟨p, s1, hc, hbn, hv1⟩
  · have hev1 := QuietD.collect X fill s _ s1 hc
    rw [hc] at hrun
    simp only at hrun
    have hinv1 : FillInv X s1.v es st en items := h.of_v hv1
    rcases makeRoom_spec X s1 es items ts st en d tmp hinv1 hfull htl habst with ⟨s2, hr, hroom⟩ | ⟨p, s2, cur, hr, hbn, hab⟩
    · have hev2 := QuietD.makeRoom X d tmp s1 _ s2 hr
      obtain ⟨v', hp, habs', _⟩ := placeRest_spec X s2 es items ts st en d tmp hroom htp htl habst
      have hb : Splice.insertBody X d tmp s1 = (.ok (), { s2 with v := v' }) := by
        unfold Splice.insertBody
        simp only [VM.bind_run, hr, hp]
      unfold VM.onUnwind at hrun
      rw [hb] at hrun
      simp only at hrun
      rw [onVec_len X tmp ts habst { s2 with v := v' }] at hrun
      simp only at hrun
      by_cases htz : ts.length = 0
      · have hnil : ts = [] := List.eq_nil_of_length_eq_zero htz
        subst hnil
        have e1 : VM.onVec tmp (pure () : VM Unit) { s2 with v := v' } = (.ok ((), tmp), { s2 with v := v' }) :=
          onVec_read tmp _ _ _ rfl
        simp only [List.length_nil, ne_eq, not_true_eq_false, if_false, e1] at hrun
        obtain ⟨s3, hd3⟩ := dropVec_ok X hq { ({ s2 with v := v' } : St) with v := tmp } [] habst
        have hev3 := dropVec_nil_dropEvs X hq _ habst s3 hd3
        rw [onVec_ok tmp (Vec.dropVec X) { s2 with v := v' } _ _ hd3] at hrun
        simp only [VM.pure_run, Prod.mk.injEq] at hrun
        rw [← hrun.2]
        show dropEvs s3.sys.tr = _
        rw [hev3]
        show dropEvs s2.sys.tr = _
        rw [hev2, hev1]
      · have hdt : tmp.isDefault = false := by
          cases hdt : tmp.isDefault
          · rfl
          · have := (habst.sentinel hdt).2; subst this; simp at htz
        have e1 := lift_set_len X 0 { ({ s2 with v := v' } : St) with v := tmp } hdt
        simp only [ne_eq, htz, not_false_eq_true, if_true] at hrun
        rw [onVec_ok tmp _ { s2 with v := v' } _ _ e1] at hrun
        simp only at hrun
        have habs0 : Abs X ({ tmp with len := 0 } : VSt) [] := by simpa using habst.shorten 0 (by omega) hdt
        obtain ⟨s3, hd3⟩ := dropVec_ok X hq
          { ({ ({ ({ s2 with v := v' } : St) with v := tmp } : St) with v := { tmp with len := 0 } } : St) with v := { tmp with len := 0 } } [] habs0
        have hev3 := dropVec_nil_dropEvs X hq _ habs0 s3 hd3
        have hd3' : Vec.dropVec X { ({ ({ ({ ({ s2 with v := v' } : St) with v := tmp } : St) with v := ({ tmp with len := 0 } : VSt) } : St) with v := v' } : St) with v := ({ tmp with len := 0 } : VSt) } = (.ok (), s3) := hd3
        rw [onVec_ok _ (Vec.dropVec X) _ _ _ hd3'] at hrun
        simp only [VM.pure_run, Prod.mk.injEq] at hrun
        rw [← hrun.2]
        show dropEvs s3.sys.tr = _
        rw [hev3]
        show dropEvs s2.sys.tr = _
        rw [hev2, hev1]
    · -- the body stops: the whole call does not return
      exfalso
      have hb : Splice.insertBody X d tmp s1 = (.error p, s2) := by
        unfold Splice.insertBody
        simp only [VM.bind_run, hr]
      have hou : ∃ q sx, VM.onUnwind (Splice.insertBody X d tmp)
          (do let _ ← VM.onVec tmp (Vec.dropVec X); pure () : VM Unit) s1 = (.error q, sx) := by
        unfold VM.onUnwind
        rw [hb]
        simp only
        split
        · cases (do let _ ← VM.onVec tmp (Vec.dropVec X); pure () : VM Unit) s2 with
          | mk r3 s3 => cases r3 <;> exact ⟨_, _, rfl⟩
        · exact ⟨_, _, rfl⟩
      obtain ⟨q, sx, hou⟩ := hou
      rw [hou] at hrun
      simp at hrun
  · rw [hc] at hrun
    simp at hrun

/-- the guard's work on a vector with storage, once the drained elements are gone: no destructor runs -/
theorem refill_ev (X : Ctx) (hq : ∀ k, X.o.panicAt k = false) (s : St) (es : List Elem) (st en : Nat) (d : DrainSt)
    (fill : Vec.IterScript) (hd : s.v.isDefault = false) (hlen : s.v.len = st)
    (hfull : Abs X { s.v with len := es.length } es) (hse : st ≤ en) (hel : en ≤ es.length)
    (htp : d.tailPos = en) (htl : d.tail = es.length - en) (s' : St)
    (hrun : Splice.refill X d fill s = (.ok (), s')) : dropEvs s'.sys.tr = dropEvs s.sys.tr := by
  obtain ⟨b, hb, hl, hsl, hlc, _, _⟩ := hfull.alloc (by simpa using hd)
  simp only at hb hl hlc
  have hal : b.lay.align = s.v.align := (make_layout_honest _ _ _ _ hl).2.1
  have hcapb : s.v.cap ≤ b.slots.length := by rw [hsl]; exact physSlots_ge X.env _ _ _ hl hfull.elem_pos
  have hL : (hsOf s.v s.sys.allocIdx).L = st := by simp [GS.L, hsOf, hd, hlen]
  have h1 : VM.lift X (as_mut_ptr X.env) s = (.ok (.at (dataOff s.v.align)), s) :=
    lift_read X _ s _ (as_mut_ptr_run X.env _ (by simp [hsOf, hd]) b.lay s.v.cap (by simpa [hsOf] using hl))
  have h2 : VM.lift X (len X.env) s = (.ok st, s) := lift_read X _ s _ (by rw [len_run, hL])
  have h3 := inb_blk s b hb st (by omega)
  rw [hal] at h3
  have hinv0 : FillInv X s.v es st en [] :=
    { hd := hd, len := by simpa using hlen, full := by simpa using hfull, b1 := by simpa using hse, b2 := hel }
  obtain ⟨s1, new, hfh, hinv1, hv, hal1, hc1, hb1, htr1⟩ := fillHole_spec X hq es st en (en - st) fill [] s hinv0 (by simp; omega)
  simp only [List.length_nil, List.nil_append] at hfh hinv1
  obtain ⟨hle, hfalse, htrue⟩ := fillScan_takeSome (en - st) fill
  unfold Splice.refill at hrun
  simp only [VM.bind_run, h1, h2, h3, htp, hfh] at hrun
  have hnl : new.length = (fillScan (en - st) fill).1.length := by rw [← hv]; simp
  cases hbf : (fillScan (en - st) fill).2.1 with
  | false =>
    obtain ⟨e1, e2⟩ := hfalse hbf
    simp only [hbf, Bool.not_false, if_true] at hrun
    obtain ⟨v', hcg, _, _, _⟩ := closeGap_spec X s1 es new st en d hinv1 (by omega) htp htl
    rw [hcg] at hrun
    simp only [Prod.mk.injEq] at hrun
    rw [← hrun.2]
    show dropEvs s1.sys.tr = _
    rw [htr1]
  | true =>
    obtain ⟨e1, e2⟩ := htrue hbf
    simp only [hbf, Bool.not_true, Bool.false_eq_true, if_false] at hrun
    rw [insertRest_ev X hq s1 es new st en d _ hinv1 (by omega) htp htl s' hrun, htr1]

/-- **`splice` in the ledger**: create, any steps, drop -/
theorem acc_splice (X : Ctx) (hq : ∀ k, X.o.panicAt k = false) (b1 b2 : Bound) (fill : Vec.IterScript) (steps : List DStep)
    (s : St) (es : List Elem) (st en : Nat) (h : Abs X s.v es) (hr : resolve b1 b2 es.length = some (st, en))
    (o : HOut) (s' : St) (hrun : runSpliceOp X b1 b2 fill steps s = (.ok o, s')) :
    ∃ g, g.map (·.val) = takeSome fill ∧ Accounts X s s' es o g := by
  obtain ⟨_, _, hse, hel'⟩ := (C11_resolve_iff b1 b2 es.length st en).mp hr
  cases hd : s.v.isDefault with
  | false =>
    obtain ⟨b, hb, hl, hs, hlc, hel, hinit⟩ := h.alloc hd
    have hc := splice_create_alloc X s es b1 b2 st en fill h hd hr
    have hv : ({ ({ s.v with len := st } : VSt) with len := es.length } : VSt) = s.v := by
      cases hv : s.v; simp [hv] at *; exact hel
    let sp : SpliceSt := { d := { ptr := .at (dataOff s.v.align), pos := st, stop := en, tailPos := en, tail := es.length - en }, fill := fill }
    have hinv : DrainInv X ({ s with v := { s.v with len := st } } : St).v es st en sp.d :=
      { hd := hd, len := rfl, full := by simp only; rw [hv]; exact h, ptr := rfl, lo := Nat.le_refl _, mid := hse,
        hi := Nat.le_refl _, tp := rfl, tl := rfl, en_le := hel' }
    -- everything from here on is about an opaque state `s1` with the same system part as `s`
    have hcreate : ∃ sp' s1, Splice.create X b1 b2 fill s = (.ok sp', s1) ∧ sp'.fill = fill ∧ s1.sys = s.sys ∧
        s1.v.isDefault = false ∧ s1.v.len = st ∧ Abs X { s1.v with len := es.length } es ∧
        window sp'.d es = (es.take en).drop st ∧ DrainInv X s1.v es st en sp'.d :=
      ⟨sp, _, hc, rfl, rfl, hd, rfl, by simp only; rw [hv]; exact h, rfl, hinv⟩
    obtain ⟨sp', s1, hc', hfill, hsys, hd1, hlen1, hfull1, hw0, hinv1⟩ := hcreate
    obtain ⟨d', hsteps, hinv', hw⟩ := drain_protocol X steps s1 es st en sp'.d hinv1
    rw [hw0] at hsteps hw
    have hloop := splice_dropLoop_run X hq (d'.stop - d'.pos) (d'.stop - d'.pos + 1) { sp' with d := d' } s1 es st en hinv' rfl (by omega)
    have hinv2 : DrainInv X (afterDrops X s1 (window d' es)).v es st en { d' with pos := d'.stop } :=
      { hinv' with lo := by have := hinv'.lo; have := hinv'.mid; simp; omega, mid := by simp }
    have hdr : Drain.dropRest X (d'.stop - d'.stop + 1) { d' with pos := d'.stop } (afterDrops X s1 (window d' es)) =
        (.ok { d' with pos := d'.stop }, afterDrops X s1 (window d' es)) := by
      simp only [Nat.sub_self, Nat.zero_add]
      unfold Drain.dropRest
      simp only [VM.bind_run, (drain_next_none { d' with pos := d'.stop } (afterDrops X s1 (window d' es)) (by simp)).1, VM.pure_run]
    have hdf : VM.lift X GM.isDefault (afterDrops X s1 (window d' es)) = (.ok false, afterDrops X s1 (window d' es)) := by
      rw [lift_isDefault]; exact congrArg (fun b => (Except.ok b, afterDrops X s1 (window d' es))) hd1
    have hdrop : Splice.drop X { sp' with d := d' } s1 =
        Splice.refill X { d' with pos := d'.stop } sp'.fill (afterDrops X s1 (window d' es)) := by
      unfold Splice.drop
      simp only [VM.bind_run]
      rw [hloop]
      simp only
      unfold Splice.guardBody
      simp only [VM.bind_run, hdr, hdf, Bool.false_eq_true, if_false]
    unfold runSpliceOp at hrun
    simp only [hc', hsteps, hdrop] at hrun
    rcases refill_spec X hq (afterDrops X s1 (window d' es)) es st en { d' with pos := d'.stop } sp'.fill hd1 hlen1 hfull1 hse hel'
        hinv'.tp hinv'.tl with ⟨s3, new, hr3, habs3, hv3⟩ | ⟨p, s3, cur, hr3, _, _⟩
    · have hev := refill_ev X hq (afterDrops X s1 (window d' es)) es st en { d' with pos := d'.stop } sp'.fill hd1 hlen1 hfull1
        hse hel' hinv'.tp hinv'.tl s3 hr3
      rw [hr3] at hrun
      simp only [Prod.mk.injEq, Except.ok.injEq] at hrun
      obtain ⟨ho, hs⟩ := hrun
      subst hs; subst ho
      refine ⟨new, by rw [hv3, hfill], es.take st ++ new ++ es.drop en, window d' es, habs3, ?_, ?_⟩
      · rw [hev, afterDrops_dropEvs, hsys]
      · rw [hw]
        have hp := specSteps_partition steps ((es.take en).drop st)
        have hy := yielded_specSteps steps ((es.take en).drop st)
        have hsplit := range_split es st en hse
        rw [List.perm_iff_count] at hy ⊢
        intro a
        have h1 := congrArg (List.count a) hp
        have h2 := hy a
        have h3 := congrArg (List.count a) hsplit
        simp only [List.count_append, List.count_reverse] at *
        omega
    · rw [hr3] at hrun
      simp at hrun
  | true =>
    have hnil := (h.sentinel hd).2
    subst hnil
    obtain ⟨sp, hc, hsteps, hdrop⟩ := C10_splice_default X hq s b1 b2 st en fill h hd hr steps
    unfold runSpliceOp at hrun
    simp only [hc, hsteps] at hrun
    rcases hdrop with ⟨s2, new, hdr, habs, hv⟩ | ⟨p, s2, cur, hdr, _, _⟩
    · rw [hdr] at hrun
      simp only [Prod.mk.injEq, Except.ok.injEq] at hrun
      obtain ⟨ho, hs⟩ := hrun
      subst hs; subst ho
      -- on a never-allocated vector the guard only pushes the replacement
      have hq2 : dropEvs s2.sys.tr = dropEvs s.sys.tr := by
        have hL : (hsOf s.v s.sys.allocIdx).L = 0 := by have := h.len_eq (k := s.sys.allocIdx); simpa using this
        let d0 : DrainSt := { ptr := .null, pos := 0, stop := 0, tailPos := 0, tail := 0 }
        have hn := (drain_next_none d0 s (by simp [d0])).1
        have hdl : Splice.dropLoop X (d0.stop - d0.pos + 1) { d := d0, fill := fill } s = (.ok { d := d0, fill := fill }, s) := by
          show Splice.dropLoop X (0 + 1) { d := d0, fill := fill } s = _
          unfold Splice.dropLoop
          simp only [VM.bind_run, hn, VM.pure_run]
        have hdrr : Drain.dropRest X (d0.stop - d0.pos + 1) d0 s = (.ok d0, s) := by
          show Drain.dropRest X (0 + 1) d0 s = _
          unfold Drain.dropRest
          simp only [VM.bind_run, hn, VM.pure_run]
        have hdf : VM.lift X GM.isDefault s = (.ok true, s) := by rw [lift_isDefault, hd]
        have hspd : sp = { d := d0, fill := fill } := by
          have hptr := as_mut_ptr_run_default X.env (hsOf s.v s.sys.allocIdx) (by simp [hsOf, hd])
          have hrun0 : splice_pre X.env b1 b2 (hsOf s.v s.sys.allocIdx) =
              (.ok (.cont ⟨0, st, en, .null⟩), hsOf s.v s.sys.allocIdx) := by
            rw [C11_splice]
            unfold spliceSpec
            have hr0 : resolve b1 b2 0 = some (st, en) := hr
            simp only [len_run, GM.bind_run, hL, hr0, hptr, DPtr.isNull, Bool.not_true, GM.ite_run, GM.pure_run]
            rfl
          have h1 := lift_read X (splice_pre X.env b1 b2) s _ hrun0
          have hc2 : Splice.create X b1 b2 fill s = (.ok { d := d0, fill := fill }, s) := by
            unfold Splice.create
            simp only [VM.bind_run, h1, DPtr.isNull, VM.pure_run]
            rfl
          rw [hc2] at hc
          simp only [Prod.mk.injEq, Except.ok.injEq] at hc
          exact hc.1.symm
        subst hspd
        have hdrop2 : Splice.drop X { d := d0, fill := fill } s =
            (do let _ ← Vec.forIter X (Vec.push X) (fill.length + 1) fill; pure () : VM Unit) s := by
          unfold Splice.drop
          simp only [VM.bind_run]
          rw [hdl]
          simp only
          unfold Splice.guardBody
          simp only [VM.bind_run, hdrr, hdf, if_true]
        rw [hdrop2] at hdr
        have hqd : QuietD (do let _ ← Vec.forIter X (Vec.push X) (fill.length + 1) fill; pure () : VM Unit) :=
          QuietD.bind (.ofQuiet (Quiet.forIter X _ fill)) (fun _ => QuietD.pure' _)
        exact hqd s () s2 hdr
      refine ⟨new, hv, new, [], habs, by rw [hq2, dropEvents_nil, List.append_nil], ?_⟩
      have hy : yielded (specSteps steps []).1 = [] := by
        unfold yielded
        rw [List.filterMap_eq_nil_iff]
        intro y hy
        rw [specSteps_none_after steps y hy]
      rw [hy]
      simp
    · rw [hdr] at hrun
      simp at hrun

/-! ### Every operation of `HOp`, every history -/

/-- what the caller hands in or a callback / `Clone` creates, for every operation -/
def HOp.givenAll : HOp → List Elem → List Elem → Prop
  | .splice _ _ fill _, _, g => g.map (·.val) = takeSome fill
  | op, es, g => op.givenD es g

theorem HOp.ownAll (X : Ctx) (hq : ∀ k, X.o.panicAt k = false) (op : HOp) (s : St) (es : List Elem)
    (h : Abs X s.v es) (hr : op.inRange es) (o : HOut) (s' : St) (hrun : op.run X s = (.ok o, s')) :
    ∃ g, op.givenAll es g ∧ Accounts X s s' es o g := by
  by_cases hc : op.countedD = true
  · obtain ⟨g, hg, ha⟩ := HOp.ownD X hq op hc s es h hr o s' hrun
    refine ⟨g, ?_, ha⟩
    cases op <;> first | exact hg | simp [HOp.countedD] at hc
  · cases op <;> simp [HOp.countedD] at hc
    rename_i b1 b2 fill steps
    obtain ⟨st, en, hres⟩ := hr
    exact acc_splice X hq b1 b2 fill steps s es st en h hres o s' hrun

def histGivenAll : List HOp → List Elem → Prop
  | [], G => G = []
  | op :: rest, G => ∃ es g G', op.givenAll es g ∧ histGivenAll rest G' ∧ G = g ++ G'

theorem history_accounts_all (X : Ctx) (hq : ∀ k, X.o.panicAt k = false) (ops : List HOp)
    (s : St) (es : List Elem) (h : Abs X s.v es) (hr : histInRange ops es) (outs : List HOut) (s' : St)
    (hrun : runHist X ops s = (.ok outs, s')) :
    ∃ es' D G, Abs X s'.v es' ∧ histGivenAll ops G ∧ dropEvs s'.sys.tr = dropEvs s.sys.tr ++ dropEvents X D ∧
      (D ++ es' ++ outs.flatMap yielded).Perm (es ++ G) := by
  induction ops generalizing s es outs with
  | nil =>
    simp only [runHist, Prod.mk.injEq, Except.ok.injEq] at hrun
    obtain ⟨ho, hs⟩ := hrun
    subst hs; subst ho
    exact ⟨es, [], [], h, rfl, by simp [dropEvents], by simp⟩
  | cons op rest ih =>
    simp only [runHist] at hrun
    cases h1 : op.run X s with
    | mk r s1 =>
      rw [h1] at hrun
      cases r with
      | error p => simp at hrun
      | ok o =>
        simp only at hrun
        cases h2 : runHist X rest s1 with
        | mk r2 s2 =>
          rw [h2] at hrun
          cases r2 with
          | error p => simp at hrun
          | ok os =>
            simp only [Prod.mk.injEq, Except.ok.injEq] at hrun
            obtain ⟨ho, hs⟩ := hrun
            subst hs; subst ho
            rcases HOp.refines X hq op s es h hr.1 with ⟨s1', mid, o', hrun', habs1, hpost1⟩ | ⟨p, s1', es1, hrun', _, _⟩
            · rw [h1] at hrun'
              simp only [Prod.mk.injEq, Except.ok.injEq] at hrun'
              obtain ⟨ho', hs'⟩ := hrun'
              subst hs'; subst ho'
              obtain ⟨g1, hg1, mid', d1, habs1', hev1, hperm1⟩ := HOp.ownAll X hq op s es h hr.1 o s1 h1
              have hmid : mid' = mid := Props.Abs.unique habs1' habs1
              subst hmid
              obtain ⟨es', D2, G2, habs2, hg2, hev2, hperm2⟩ := ih s1 mid' habs1 (hr.2 mid' o hpost1) os h2
              refine ⟨es', d1 ++ D2, g1 ++ G2, habs2, ⟨es, g1, G2, hg1, hg2, rfl⟩, ?_, ?_⟩
              · rw [hev2, hev1, dropEvents_append, List.append_assoc]
              · rw [List.perm_iff_count] at hperm1 hperm2 ⊢
                intro a
                have := hperm1 a
                have := hperm2 a
                simp only [List.count_append, List.flatMap_cons] at *
                omega
            · rw [h1] at hrun'; simp at hrun'

/-- **C02 for EVERY history over `HOp`** (all 25 operation kinds, no callback panicking): run the history, drop the
    vector; one destructor event per element of `dropped`, and `dropped` together with everything yielded or returned
    is a rearrangement of the starting contents together with everything handed in or created by a callback or a
    `Clone`. With distinct identities: nothing is destroyed twice, nothing handed back is destroyed, nothing is leaked
    (`C02_no_double_drop`, `C02_no_leak`). -/
theorem C02_every_history_partial (X : Ctx) (hq : ∀ k, X.o.panicAt k = false) (ops : List HOp)
    (s : St) (es : List Elem) (h : Abs X s.v es) (hr : histInRange ops es)
    (outs : List HOut) (s' : St) (hrun : runHist X ops s = (.ok outs, s')) :
    ∃ s'' dropped G, Vec.dropVec X s' = (.ok (), s'') ∧ Abs X s''.v [] ∧ histGivenAll ops G ∧
      dropEvs s''.sys.tr = dropEvs s.sys.tr ++ dropEvents X dropped ∧
      (dropped ++ outs.flatMap yielded).Perm (es ++ G) := by
  obtain ⟨es', D, G, habs, hG, hev, hperm⟩ := history_accounts_all X hq ops s es h hr outs s' hrun
  obtain ⟨hdef, halloc⟩ := dropVec_spec X hq s' es' habs
  cases hd : s'.v.isDefault with
  | true =>
    have hnil := (habs.sentinel hd).2
    subst hnil
    exact ⟨s', D, G, hdef hd, habs, hG, hev, by simpa using hperm⟩
  | false =>
    obtain ⟨b, _, hdrop⟩ := halloc hd
    refine ⟨_, D ++ es', G, hdrop, Abs.sentinel_abs X h.elem_pos, hG, ?_, hperm⟩
    simp only [dropEvs_append, afterDrops_dropEvs, hev, dropEvents_append, List.append_assoc]
    simp [dropEvs, Ev.isDrop]

/-- non-vacuity: a history within range that uses a cloning operation, a splice and a drain_filter -/
example : histInRange [.base (.push ⟨1, 5⟩), .extend_from_slice [⟨7, 1⟩, ⟨8, 2⟩], .splice .unbounded .unbounded [some 3] [.front],
    .drain_filter (fun _ _ => true) 1] [] := by
  refine ⟨trivial, fun mid o hp => ⟨trivial, fun mid2 o2 hp2 => ⟨⟨0, mid2.length, ?_⟩, fun _ _ _ => ⟨trivial, fun _ _ _ => trivial⟩⟩⟩⟩
  simp [resolve, startOf, endOf]

end MV.Props

#print axioms MV.Props.insertRest_ev
#print axioms MV.Props.refill_ev
#print axioms MV.Props.acc_splice
#print axioms MV.Props.HOp.ownAll
#print axioms MV.Props.C02_every_history_partial

import MiniVecProof.Proofs.MemFull
import MiniVecProof.Props.C10
import MiniVecProof.Props.C17
/-
  C10 / C01 / C17 (Splice) — with an ARBITRARY scripted replacement iterator (it may report `None`
  and yield again later; its `size_hint` is never consulted): after `splice(range, replacement)` on a
  well-formed vector exposing `es`, every interleaving of front/back steps behaves like the list
  iterator over `es[st..en]` (this is `drain_protocol`: a Splice steps through its embedded Drain),
  and dropping it destroys exactly the selected elements not yet yielded and leaves the vector
  exposing  es[..st] ++ (the replacement's items before its first `None`) ++ es[en..]  — or stops in
  a sanctioned way (capacity overflow, allocation failure) with the vector well formed.
-/
namespace MV.Props
open MV MV.Gen MV.GM VM

/-- the hole-filling loop on the script alone: values written, "hole full", what is left of the script -/
def fillScan : Nat → Vec.IterScript → List Int × Bool × Vec.IterScript
  | 0, fill => ([], true, fill)
  | _ + 1, [] => ([], false, [])
  | _ + 1, none :: rest => ([], false, rest)
  | n + 1, some v :: rest => (v :: (fillScan n rest).1, (fillScan n rest).2.1, (fillScan n rest).2.2)

theorem fillScan_takeSome (n : Nat) (fill : Vec.IterScript) :
    (fillScan n fill).1.length ≤ n ∧
    ((fillScan n fill).2.1 = false → takeSome fill = (fillScan n fill).1 ∧ (fillScan n fill).1.length < n) ∧
    ((fillScan n fill).2.1 = true → takeSome fill = (fillScan n fill).1 ++ takeSome (fillScan n fill).2.2 ∧
      (fillScan n fill).1.length = n) := by
  induction n generalizing fill with
  | zero => simp [fillScan]
  | succ n ih =>
    cases fill with
    | nil => simp [fillScan, takeSome]
    | cons o rest =>
      cases o with
      | none => simp [fillScan, takeSome]
      | some v =>
        obtain ⟨h1, h2, h3⟩ := ih rest
        simp only [fillScan, takeSome, List.length_cons]
        refine ⟨by omega, fun hb => ?_, fun hb => ?_⟩
        · obtain ⟨e1, e2⟩ := h2 hb; exact ⟨by rw [e1], by omega⟩
        · obtain ⟨e1, e2⟩ := h3 hb; exact ⟨by rw [e1]; rfl, by omega⟩

/-- the state while the drained hole `[st, en)` is being refilled: `items` have been written so far -/
structure FillInv (X : Ctx) (v : VSt) (es : List Elem) (st en : Nat) (items : List Elem) : Prop where
  hd : v.isDefault = false
  len : v.len = st + items.length
  full : Abs X { v with len := es.length } (es.take st ++ items ++ es.drop (st + items.length))
  b1 : st + items.length ≤ en
  b2 : en ≤ es.length

theorem fillNext_some (X : Ctx) (hq : ∀ k, X.o.panicAt k = false) (v : Int) (rest : Vec.IterScript) (s : St) :
    Splice.fillNext X (some v :: rest) s =
      (.ok (some ⟨s.sys.nextId, v⟩, rest), { s with sys := { s.sys with cbIdx := s.sys.cbIdx + 1, nextId := s.sys.nextId + 1 } }) := by
  simp [Splice.fillNext, VM.bind_run, VM.callback, hq, VM.mkElem, VM.freshId]

theorem fillNext_none (X : Ctx) (hq : ∀ k, X.o.panicAt k = false) (s : St) :
    Splice.fillNext X [] s = (.ok (none, []), { s with sys := { s.sys with cbIdx := s.sys.cbIdx + 1 } }) ∧
    ∀ rest, Splice.fillNext X (none :: rest) s = (.ok (none, rest), { s with sys := { s.sys with cbIdx := s.sys.cbIdx + 1 } }) := by
  simp [Splice.fillNext, VM.bind_run, VM.callback, hq]

theorem set_middle (a b : List Elem) (x e : Elem) : (a ++ x :: b).set a.length e = a ++ e :: b := by
  induction a with
  | nil => rfl
  | cons y t ih => simp [ih]

/-- the hole-filling loop -/
theorem fillHole_spec (X : Ctx) (hq : ∀ k, X.o.panicAt k = false) (es : List Elem) (st en : Nat) :
    ∀ (n : Nat) (fill : Vec.IterScript) (items : List Elem) (s : St), FillInv X s.v es st en items →
    st + items.length + n = en →
    ∃ s' new, Splice.fillHole X (.at (dataOff s.v.align)) st n items.length fill s =
        (.ok ((fillScan n fill).2.1, (fillScan n fill).2.2), s') ∧
      FillInv X s'.v es st en (items ++ new) ∧ new.map (·.val) = (fillScan n fill).1 ∧
      s'.v.align = s.v.align ∧ s'.v.cap = s.v.cap ∧ s'.v.blk.map (·.bid) = s.v.blk.map (·.bid) ∧ s'.sys.tr = s.sys.tr := by
  intro n
  induction n with
  | zero =>
    intro fill items s h _
    exact ⟨s, [], by simp [Splice.fillHole, fillScan], by simpa using h, rfl, rfl, rfl, rfl, rfl⟩
  | succ n ih =>
    intro fill items s h hn
    unfold Splice.fillHole
    cases fill with
    | nil =>
      simp only [VM.bind_run, (fillNext_none X hq s).1, VM.pure_run, fillScan]
      exact ⟨_, [], rfl, by simpa using h, rfl, rfl, rfl, rfl, rfl⟩
    | cons o rest =>
      cases o with
      | none =>
        simp only [VM.bind_run, (fillNext_none X hq s).2, VM.pure_run, fillScan]
        exact ⟨_, [], rfl, by simpa using h, rfl, rfl, rfl, rfl, rfl⟩
      | some v =>
        simp only [VM.bind_run, fillNext_some X hq, fillScan]
        let s1 : St := { s with sys := { s.sys with cbIdx := s.sys.cbIdx + 1, nextId := s.sys.nextId + 1 } }
        have hb2 := h.b2
        have hidx : st + items.length < (es.take st ++ items ++ es.drop (st + items.length)).length := by
          simp; omega
        obtain ⟨v', hw, habs', hc, hd', hal, hl', hb⟩ := wr_full X s1 es.length _ h.full h.hd (st + items.length) hidx ⟨s.sys.nextId, v⟩
        -- the slot written is the first one behind what was filled in so far
        obtain ⟨x, tl, hx1, hx2⟩ : ∃ x tl, es.drop (st + items.length) = x :: tl ∧ es.drop (st + items.length + 1) = tl :=
          ⟨_, _, List.drop_eq_getElem_cons (l := es) (by omega), rfl⟩
        have hset : (es.take st ++ items ++ es.drop (st + items.length)).set (st + items.length) ⟨s.sys.nextId, v⟩ =
            es.take st ++ (items ++ [⟨s.sys.nextId, v⟩]) ++ es.drop (st + (items ++ [(⟨s.sys.nextId, v⟩ : Elem)]).length) := by
          have hl1 : st + (items ++ [(⟨s.sys.nextId, v⟩ : Elem)]).length = st + items.length + 1 := by simp; omega
          rw [hl1, hx1, hx2]
          have hlen : (es.take st ++ items).length = st + items.length := by simp; omega
          rw [← hlen, set_middle]
          simp
        rw [hset] at habs'
        have hwl : VM.wr (.at (dataOff s.v.align)) (st + items.length) ⟨s.sys.nextId, v⟩ s1 = (.ok (), { s1 with v := v' }) := hw
        rw [hwl]
        simp only
        have hW : v'.len + 1 < W := by
          have hcw := h.full.cap_lt_W (by simpa using h.hd)
          obtain ⟨_, _, _, _, hlc, _, _⟩ := h.full.alloc (by simpa using h.hd)
          simp only at hlc hcw
          have h1 := h.len
          have h2 := h.b1
          have h3 : v'.len = s.v.len := hl'
          omega
        rw [hdrLenAdd_run X { s1 with v := v' } 1 hd' hW]
        simp only
        have hinv' : FillInv X ({ ({ s1 with v := v' } : St) with v := { v' with len := v'.len + 1 } } : St).v es st en (items ++ [⟨s.sys.nextId, v⟩]) :=
          { hd := hd', len := by have h1 := h.len; have h3 : v'.len = s.v.len := hl'; simp; omega, full := habs', b1 := by simp; omega, b2 := hb2 }
        obtain ⟨s', new, hrun, hinv'', hv, hal2, hc2, hb2', htr⟩ := ih rest (items ++ [⟨s.sys.nextId, v⟩]) _ hinv' (by simp; omega)
        have hlen1 : (items ++ [(⟨s.sys.nextId, v⟩ : Elem)]).length = items.length + 1 := by simp
        rw [hlen1] at hrun
        have hal' : dataOff v'.align = dataOff s.v.align := by rw [hal]
        have hrun' : Splice.fillHole X (.at (dataOff s.v.align)) st n (items.length + 1) rest
            ({ ({ s1 with v := v' } : St) with v := { v' with len := v'.len + 1 } } : St) =
            (.ok ((fillScan n rest).2.1, (fillScan n rest).2.2), s') := by rw [← hal']; exact hrun
        refine ⟨s', ⟨s.sys.nextId, v⟩ :: new, hrun', by simpa using hinv'', by simp [hv], by rw [hal2]; exact hal, by rw [hc2]; exact hc,
          by rw [hb2']; exact hb, htr⟩

/-- positions of the list a `FillInv` describes -/
theorem fill_cur_get (es items : List Elem) (st : Nat) (hst : st + items.length ≤ es.length) (j : Nat) :
    (es.take st ++ items ++ es.drop (st + items.length))[j]? =
      if j < st + items.length then (es.take st ++ items)[j]? else es[j]? := by
  have hlen : (es.take st ++ items).length = st + items.length := by simp; omega
  by_cases hj : j < st + items.length
  · rw [if_pos hj, List.getElem?_append_left (by omega)]
  · rw [if_neg hj, List.getElem?_append_right (by omega), hlen, List.getElem?_drop]
    congr 1; omega

/-- the replacement ended inside the hole: the tail closes the gap -/
theorem closeGap_spec (X : Ctx) (s : St) (es items : List Elem) (st en : Nat) (d : DrainSt) (h : FillInv X s.v es st en items)
    (hlt : st + items.length < en) (htp : d.tailPos = en) (htl : d.tail = es.length - en) :
    ∃ v', Splice.closeGap X d s = (.ok (), { s with v := v' }) ∧ Abs X v' (es.take st ++ items ++ es.drop en) ∧
      v'.cap = s.v.cap ∧ v'.blk.map (·.bid) = s.v.blk.map (·.bid) := by
  have hd := h.hd
  have hb2 := h.b2
  obtain ⟨b, hb, hl, hsl, hlc, hel, hinit⟩ := h.full.alloc (by simpa using hd)
  simp only at hb hl hlc hel hinit
  have hal : b.lay.align = s.v.align := (make_layout_honest _ _ _ _ hl).2.1
  have hcapb : s.v.cap ≤ b.slots.length := by rw [hsl]; exact physSlots_ge X.env _ _ _ hl h.full.elem_pos
  have hL : (hsOf s.v s.sys.allocIdx).L = st + items.length := by simp [GS.L, hsOf, hd, h.len]
  have h1 : VM.lift X (len X.env) s = (.ok (st + items.length), s) := lift_read X _ s _ (by rw [len_run, hL])
  have h2 : VM.lift X (as_mut_ptr X.env) s = (.ok (.at (dataOff s.v.align)), s) :=
    lift_read X _ s _ (as_mut_ptr_run X.env _ (by simp [hsOf, hd]) b.lay s.v.cap (by simpa [hsOf] using hl))
  have h3 := inb_blk s b hb (st + items.length + d.tail) (by rw [htl]; omega)
  have h4 := cp_blk s b hb d.tailPos (st + items.length) d.tail (by rw [htp, htl]; omega) (by rw [htl]; omega)
  rw [hal] at h3 h4
  let s1 : St := { s with v := { s.v with blk := some { b with slots := copySlots b.slots d.tailPos (st + items.length) d.tail } } }
  have h5 := lift_set_len X (st + items.length + d.tail) s1 hd
  refine ⟨{ s.v with blk := some { b with slots := copySlots b.slots d.tailPos (st + items.length) d.tail }, len := st + items.length + d.tail },
    ?_, ?_, rfl, by simp [hb]⟩
  · unfold Splice.closeGap
    simp only [VM.bind_run, h1, show ¬ (st + items.length = d.tailPos) by omega, if_false, h2, h3, h4]
    rw [h5]
  · have hFlen : (es.take st ++ items ++ es.drop en).length = st + items.length + d.tail := by simp [htl]; omega
    refine ⟨h.full.elem_pos, fun hx => by simp [hd] at hx, fun _ => ⟨_, rfl, hl, ?_, by simp; rw [htl]; omega, hFlen, ?_⟩⟩
    · simp only; rw [copySlots_length _ _ _ _ (by rw [htp, htl]; omega) (by rw [htl]; omega)]; exact hsl
    · intro i hi
      simp only at hi ⊢
      rw [copySlots_get _ _ _ _ _ (by rw [htp, htl]; omega) (by rw [htl]; omega)]
      have hcur := fill_cur_get es items st (by omega)
      have hlen : (es.take st ++ items).length = st + items.length := by simp; omega
      have hi' : i < st + items.length + (es.length - en) := by rw [← htl]; exact hi
      by_cases hlo : i < st + items.length
      · rw [if_neg (by omega), hinit i (by omega), hcur i, if_pos hlo]
        congr 1; symm
        exact List.getElem?_append_left (by omega)
      · rw [if_pos (by rw [htl]; omega), hinit _ (by rw [htp]; omega), hcur _, if_neg (by rw [htp]; omega)]
        congr 1; symm
        rw [List.getElem?_append_right (by omega), hlen, List.getElem?_drop, htp]

/-- the state when the hole `[st, en)` is full, `tl` more items are waiting in `tmp`, and the block has room for them -/
structure RoomInv (X : Ctx) (v : VSt) (es items : List Elem) (st en tl : Nat) : Prop where
  hd : v.isDefault = false
  len : v.len = en
  full : Abs X { v with len := es.length } (es.take st ++ items ++ es.drop en)
  hole : st + items.length = en
  b2 : en ≤ es.length
  room : es.length + tl ≤ v.cap

theorem uadd_ok (m : Mode) (a b : Nat) (h : a + b < W) : uadd m a b = .ok (a + b) := by
  unfold uadd; simp [h]

theorem lift_liftE_ok {α} (X : Ctx) (s : St) (e : Except Panic α) (a : α) (h : e = .ok a) :
    VM.lift X (GM.liftE e) s = (.ok a, s) :=
  lift_read X _ s _ (by simp [GM.liftE, h])

/-- reading the length of another well-formed vector -/
theorem onVec_len (X : Ctx) (tmp : VSt) (ts : List Elem) (ht : Abs X tmp ts) (s : St) :
    VM.onVec tmp (VM.lift X (len X.env)) s = (.ok (ts.length, tmp), s) := by
  have hL : (hsOf tmp s.sys.allocIdx).L = ts.length := ht.len_eq
  exact onVec_read tmp _ s _ (lift_read X _ { s with v := tmp } _ (by rw [len_run]; exact congrArg (fun n => (Except.ok n, _)) hL))

/-- `makeRoom`: the vector gets capacity for everything, keeping every slot it holds -/
theorem makeRoom_spec (X : Ctx) (s : St) (es items ts : List Elem) (st en : Nat) (d : DrainSt) (tmp : VSt)
    (h : FillInv X s.v es st en items) (hfull : st + items.length = en) (htl : d.tail = es.length - en)
    (ht : Abs X tmp ts) :
    (∃ s', Splice.makeRoom X d tmp s = (.ok (en, ts.length), s') ∧ RoomInv X s'.v es items st en ts.length) ∨
    (∃ p s' cur, Splice.makeRoom X d tmp s = (.error p, s') ∧ Panic.benign p = true ∧ Abs X s'.v cur) := by
  have hd := h.hd
  have hb2 := h.b2
  have hfullabs : Abs X { s.v with len := es.length } (es.take st ++ items ++ es.drop en) := by
    have := h.full; rw [hfull] at this; exact this
  obtain ⟨b, hb, hl, hsl, hlc, hel, hinit⟩ := hfullabs.alloc (by simpa using hd)
  simp only at hb hl hlc hel hinit
  have hcw := hfullabs.cap_lt_W (by simpa using hd)
  have hci := hfullabs.cap_le_isize (by simpa using hd)
  simp only at hcw hci
  have htlen : ts.length ≤ ISIZE_MAX := by
    cases hdt : tmp.isDefault with
    | true => have := (ht.sentinel hdt).2; subst this; simp [ISIZE_MAX]
    | false =>
      obtain ⟨_, _, _, _, hlc', hel', _⟩ := ht.alloc hdt
      have := ht.cap_le_isize hdt
      omega
  have hC : (hsOf s.v s.sys.allocIdx).C = s.v.cap := by simp [GS.C, hsOf, hd]
  have hL : (hsOf s.v s.sys.allocIdx).L = en := by simp [GS.L, hsOf, hd, h.len, hfull]
  have h1 : VM.lift X (capacity X.env) s = (.ok s.v.cap, s) := lift_read X _ s _ (by rw [capacity_run, hC])
  have h2 : VM.lift X (len X.env) s = (.ok en, s) := lift_read X _ s _ (by rw [len_run, hL])
  have h3 := onVec_len X tmp ts ht s
  have hW1 : en + d.tail < W := by rw [htl]; simp only [ISIZE_MAX, W] at *; omega
  have hW2 : en + d.tail + ts.length < W := by rw [htl]; simp only [ISIZE_MAX, W] at *; omega
  have h4 := lift_liftE_ok X s _ _ (uadd_ok X.m en d.tail hW1)
  have h5 := lift_liftE_ok X s _ _ (uadd_ok X.m (en + d.tail) ts.length hW2)
  have htot : en + d.tail + ts.length = es.length + ts.length := by rw [htl]; omega
  have hsv : (es.take st ++ items ++ es.drop en).length = es.length := hel
  unfold Splice.makeRoom
  simp only [VM.bind_run, h1, h2, h3, h4, h5]
  by_cases hgt : en + d.tail + ts.length > s.v.cap
  · simp only [hgt, if_true, VM.bind_run]
    have hA : (hsOf s.v s.sys.allocIdx).A X.env = s.v.align := by simp [GS.A, hsOf, hd]
    have h6 : VM.lift X (alignment X.env) s = (.ok s.v.align, s) := lift_read X _ s _ (by rw [alignment_run, hA])
    simp only [h6]
    rcases grow_full X s es.length (en + d.tail + ts.length) _ hfullabs hd (by rw [h.len]; omega) (by omega) with
      ⟨_, hceq⟩ | ⟨p, s', hrun, hbn, hv⟩ | ⟨v', evs, hrun, habs', hd', hcap', hal', hlen'⟩
    · omega
    · rw [hrun]
      refine .inr ⟨p, s', es.take st ++ items, rfl, hbn, ?_⟩
      rw [hv]
      have := hfullabs.shorten en (by rw [hsv]; exact hb2) (by simpa using hd)
      have hv2 : ({ ({ s.v with len := es.length } : VSt) with len := en } : VSt) = s.v := by
        have hl := h.len
        cases hv : s.v; simp [hv] at *; omega
      rw [hv2] at this
      have htk : (es.take st ++ items ++ es.drop en).take en = es.take st ++ items := by
        have hlen' : (es.take st ++ items).length = en := by simp; omega
        exact List.take_left' hlen'
      rw [htk] at this; exact this
    · rw [hrun]
      simp only [VM.pure_run]
      exact .inl ⟨_, rfl, ⟨hd', by rw [hlen', h.len, hfull], habs', hfull, hb2, by rw [hcap']; omega⟩⟩
  · simp only [hgt, if_false, VM.pure_run]
    exact .inl ⟨s, rfl, ⟨hd, by rw [h.len, hfull], hfullabs, hfull, hb2, by omega⟩⟩

/-- `tailUp` on a block with room: pointwise effect -/
theorem tailUp_blk (X : Ctx) (s : St) (b : Blk) (hb : s.v.blk = some b) (hd : s.v.isDefault = false)
    (hl : make_layout X.env s.v.cap s.v.align = .ok b.lay) (d : DrainSt) (l tl : Nat)
    (h1 : d.tailPos + d.tail ≤ b.slots.length) (h2 : l + tl + d.tail ≤ b.slots.length) :
    ∃ b1, Splice.tailUp X d l tl s = (.ok (), { s with v := { s.v with blk := some b1 } }) ∧
      b1.lay = b.lay ∧ b1.bid = b.bid ∧ b1.slots.length = b.slots.length ∧
      ∀ i, b1.slots[i]? = if l + tl ≤ i ∧ i < l + tl + d.tail then b.slots[d.tailPos + (i - (l + tl))]? else b.slots[i]? := by
  have hal : b.lay.align = s.v.align := (make_layout_honest _ _ _ _ hl).2.1
  unfold Splice.tailUp
  by_cases ht : d.tail > 0
  · have e1 : VM.lift X (as_mut_ptr X.env) s = (.ok (.at (dataOff s.v.align)), s) :=
      lift_read X _ s _ (as_mut_ptr_run X.env _ (by simp [hsOf, hd]) b.lay s.v.cap (by simpa [hsOf] using hl))
    have e2 := inb_blk s b hb (l + tl + d.tail) h2
    have e3 := cp_blk s b hb d.tailPos (l + tl) d.tail h1 h2
    rw [hal] at e2 e3
    refine ⟨{ b with slots := copySlots b.slots d.tailPos (l + tl) d.tail }, ?_, rfl, rfl,
      copySlots_length _ _ _ _ h1 h2, fun i => copySlots_get _ _ _ _ _ h1 h2⟩
    simp only [ht, if_true, VM.bind_run, e1, e2, e3]
  · refine ⟨b, ?_, rfl, rfl, rfl, fun i => by rw [if_neg (by omega)]⟩
    simp only [ht, if_false, VM.pure_run]
    cases s with | mk sys v => cases v; simp at hb; simp [hb]

/-- `moveIn` on a block with room: pointwise effect -/
theorem moveIn_blk (X : Ctx) (s : St) (b : Blk) (hb : s.v.blk = some b) (hd : s.v.isDefault = false)
    (hl : make_layout X.env s.v.cap s.v.align = .ok b.lay) (tmp : VSt) (ts : List Elem) (ht : Abs X tmp ts) (l : Nat)
    (h2 : l + ts.length ≤ b.slots.length) :
    ∃ b1, Splice.moveIn X tmp l ts.length s = (.ok (), { s with v := { s.v with blk := some b1 } }) ∧
      b1.lay = b.lay ∧ b1.bid = b.bid ∧ b1.slots.length = b.slots.length ∧
      ∀ i, b1.slots[i]? = if l ≤ i ∧ i < l + ts.length then some (ts[i - l]?) else b.slots[i]? := by
  have hal : b.lay.align = s.v.align := (make_layout_honest _ _ _ _ hl).2.1
  unfold Splice.moveIn
  by_cases hz : ts.length = 0
  · have hnil : ts = [] := List.eq_nil_of_length_eq_zero hz
    subst hnil
    have e0 : VM.onVec tmp (pure [] : VM (List Elem)) s = (.ok ([], tmp), s) :=
      onVec_read tmp _ s _ (by simp)
    refine ⟨b, ?_, rfl, rfl, rfl, fun i => by simp; intro h1 h2; omega⟩
    simp only [List.length_nil, if_true, VM.bind_run, e0, ne_eq, not_true_eq_false, if_false, VM.pure_run]
    cases s with | mk sys v => cases v; simp at hb; simp [hb]
  · have hdt : tmp.isDefault = false := by
      cases hdt : tmp.isDefault
      · rfl
      · have := (ht.sentinel hdt).2; subst this; simp at hz
    obtain ⟨bt, hbt, hlt, _⟩ := ht.alloc hdt
    let st' : St := { s with v := tmp }
    have r1 : VM.lift X (as_ptr X.env) st' = (.ok (.at (dataOff tmp.align)), st') :=
      lift_read X _ st' _ (as_ptr_run X.env _ hdt bt.lay tmp.cap hlt)
    have r2 := rdRange_abs X st' ts ht hdt ts.length 0 (by omega)
    have r2' : (ts.drop 0).take ts.length = ts := by simp
    rw [r2'] at r2
    have e0 : VM.onVec tmp (do
        let p ← VM.lift X (as_ptr X.env)
        VM.rdRange p 0 ts.length : VM (List Elem)) s = (.ok (ts, tmp), s) := by
      apply onVec_read tmp _ s _
      simp only [VM.bind_run]
      show (match VM.lift X (as_ptr X.env) st' with | _ => _) = _
      rw [r1]
      exact r2
    have e1 : VM.lift X (as_mut_ptr X.env) s = (.ok (.at (dataOff s.v.align)), s) :=
      lift_read X _ s _ (as_mut_ptr_run X.env _ (by simp [hsOf, hd]) b.lay s.v.cap (by simpa [hsOf] using hl))
    have e2 := inb_blk s b hb (l + ts.length) h2
    rw [hal] at e2
    obtain ⟨b', hrun, hlay, hbid, hl', hget⟩ := forN_wr_go l ts ts.length 0 s b hb (by omega) (by omega)
    rw [hal] at hrun
    refine ⟨b', ?_, hlay, hbid, hl', fun i => by rw [hget i]; simp⟩
    simp only [hz, if_false, VM.bind_run, e0, ne_eq, not_false_eq_true, if_true, e1, e2, VM.forN]
    simpa using hrun

/-- `placeRest`: the tail moves up, `tmp`'s elements move in, the length is published -/
theorem placeRest_spec (X : Ctx) (s : St) (es items ts : List Elem) (st en : Nat) (d : DrainSt) (tmp : VSt)
    (h : RoomInv X s.v es items st en ts.length) (htp : d.tailPos = en) (htl : d.tail = es.length - en) (ht : Abs X tmp ts) :
    ∃ v', Splice.placeRest X d tmp en ts.length s = (.ok (), { s with v := v' }) ∧
      Abs X v' (es.take st ++ items ++ ts ++ es.drop en) ∧ v'.cap = s.v.cap ∧ v'.blk.map (·.bid) = s.v.blk.map (·.bid) := by
  have hd := h.hd
  have hb2 := h.b2
  have hroom := h.room
  have hhole := h.hole
  obtain ⟨b, hb, hl, hsl, hlc, hel, hinit⟩ := h.full.alloc (by simpa using hd)
  simp only at hb hl hlc hel hinit
  have hcapb : s.v.cap ≤ b.slots.length := by rw [hsl]; exact physSlots_ge X.env _ _ _ hl h.full.elem_pos
  obtain ⟨b1, hr1, hlay1, hbid1, hlen1, hget1⟩ := tailUp_blk X s b hb hd hl d en ts.length (by rw [htp, htl]; omega) (by rw [htl]; omega)
  let s1 : St := { s with v := { s.v with blk := some b1 } }
  obtain ⟨b2, hr2, hlay2, hbid2, hlen2, hget2⟩ := moveIn_blk X s1 b1 rfl hd (by rw [hlay1]; exact hl) tmp ts ht en (by rw [hlen1]; omega)
  let s2 : St := { s1 with v := { s1.v with blk := some b2 } }
  have h5 := lift_set_len X (en + d.tail + ts.length) s2 hd
  refine ⟨{ s.v with blk := some b2, len := en + d.tail + ts.length }, ?_, ?_, rfl, by simp [hb, hbid2, hbid1]⟩
  · unfold Splice.placeRest
    simp only [VM.bind_run, hr1]
    have : Splice.moveIn X tmp en ts.length s1 = (.ok (), s2) := hr2
    rw [this]
    simp only
    rw [h5]
  · have hFlen : (es.take st ++ items ++ ts ++ es.drop en).length = en + d.tail + ts.length := by simp [htl]; omega
    have hpre : (es.take st ++ items).length = en := by simp; omega
    refine ⟨h.full.elem_pos, fun hx => by simp [hd] at hx, fun _ => ⟨b2, rfl, by rw [hlay2, hlay1]; exact hl,
      by rw [hlen2, hlen1, hlay2, hlay1]; exact hsl, by simp; rw [htl]; omega, hFlen, ?_⟩⟩
    intro i hi
    simp only at hi
    have hi' : i < en + (es.length - en) + ts.length := by rw [← htl]; exact hi
    rw [hget2 i]
    by_cases hlo : i < en
    · -- the prefix and what was filled into the hole
      rw [if_neg (by omega), hget1 i, if_neg (by omega), hinit i (by omega)]
      have e1 : (es.take st ++ items ++ es.drop en)[i]? = (es.take st ++ items)[i]? :=
        List.getElem?_append_left (by rw [hpre]; exact hlo)
      have e2 : (es.take st ++ items ++ ts ++ es.drop en)[i]? = (es.take st ++ items)[i]? := by
        rw [List.getElem?_append_left (by rw [List.length_append, hpre]; omega), List.getElem?_append_left (by rw [hpre]; exact hlo)]
      rw [e1, e2]
    · by_cases hmid : i < en + ts.length
      · -- the elements that came out of `tmp`
        rw [if_pos ⟨by omega, hmid⟩]
        have e2 : (es.take st ++ items ++ ts ++ es.drop en)[i]? = ts[i - en]? := by
          rw [List.getElem?_append_left (by rw [List.length_append, hpre]; omega), List.getElem?_append_right (by rw [hpre]; omega), hpre]
        rw [e2]
      · -- the tail
        rw [if_neg (by omega), hget1 i, if_pos ⟨by omega, by rw [htl]; omega⟩, htp, hinit _ (by omega)]
        have e1 : (es.take st ++ items ++ es.drop en)[en + (i - (en + ts.length))]? = es[en + (i - (en + ts.length))]? := by
          rw [List.getElem?_append_right (by rw [hpre]; omega), hpre, List.getElem?_drop]
          try (congr 1; omega)
        have e2 : (es.take st ++ items ++ ts ++ es.drop en)[i]? = es[en + (i - (en + ts.length))]? := by
          rw [List.getElem?_append_right (by rw [List.length_append, hpre]; omega), List.length_append, hpre, List.getElem?_drop]
          try (congr 1; omega)
        rw [e1, e2]

theorem FillInv.of_v {X : Ctx} {v v' : VSt} {es items : List Elem} {st en : Nat} (h : FillInv X v es st en items) (hv : v' = v) :
    FillInv X v' es st en items := by subst hv; exact h

/-- the hole is full: the rest of the replacement is collected and inserted in front of the tail -/
theorem insertRest_spec (X : Ctx) (hq : ∀ k, X.o.panicAt k = false) (s : St) (es items : List Elem) (st en : Nat)
    (d : DrainSt) (fill : Vec.IterScript) (h : FillInv X s.v es st en items) (hfull : st + items.length = en)
    (htp : d.tailPos = en) (htl : d.tail = es.length - en) :
    (∃ s' new, Splice.insertRest X d fill s = (.ok (), s') ∧ Abs X s'.v (es.take st ++ items ++ new ++ es.drop en) ∧
        new.map (·.val) = takeSome fill) ∨
    (∃ p s' cur, Splice.insertRest X d fill s = (.error p, s') ∧ Panic.benign p = true ∧ Abs X s'.v cur) := by
  have hz := h.full.elem_pos
  have hcur : Abs X s.v (es.take st ++ items) := by
    have hfa : Abs X { s.v with len := es.length } (es.take st ++ items ++ es.drop en) := by
      have := h.full; rw [hfull] at this; exact this
    have hsh := hfa.shorten en (by simp; have := h.b2; omega) (by simpa using h.hd)
    have hv2 : ({ ({ s.v with len := es.length } : VSt) with len := en } : VSt) = s.v := by
      have hl := h.len
      cases hv : s.v; simp [hv] at *; omega
    rw [hv2] at hsh
    have hlen' : (es.take st ++ items).length = en := by simp; have := h.b2; omega
    rw [List.take_left' hlen'] at hsh; exact hsh
  unfold Splice.insertRest
  simp only [VM.bind_run]
  rcases C17_collect_partial X hq fill s hz with ⟨tmp, s1, ts, hc, hv1, habst, hvals⟩ | ⟨p, s1, hc, hbn, hv1⟩
  · rw [hc]
    simp only
    have hinv1 : FillInv X s1.v es st en items := h.of_v hv1
    -- the body under its unwind guard
    have hbody : (∃ s2, Splice.insertBody X d tmp s1 = (.ok (), s2) ∧ Abs X s2.v (es.take st ++ items ++ ts ++ es.drop en)) ∨
        (∃ p s2 cur, Splice.insertBody X d tmp s1 = (.error p, s2) ∧ Panic.benign p = true ∧ Abs X s2.v cur) := by
      unfold Splice.insertBody
      simp only [VM.bind_run]
      rcases makeRoom_spec X s1 es items ts st en d tmp hinv1 hfull htl habst with ⟨s2, hr, hroom⟩ | ⟨p, s2, cur, hr, hbn, hab⟩
      · rw [hr]
        simp only
        obtain ⟨v', hp, habs', _⟩ := placeRest_spec X s2 es items ts st en d tmp hroom htp htl habst
        exact .inl ⟨_, hp, habs'⟩
      · rw [hr]; exact .inr ⟨p, s2, cur, rfl, hbn, hab⟩
    rcases hbody with ⟨s2, hb, habs2⟩ | ⟨p, s2, cur, hb, hbn, hab⟩
    · unfold VM.onUnwind
      rw [hb]
      simp only
      -- `tmp`: its length is read, zeroed, and the (now empty) vector dropped
      rw [onVec_len X tmp ts habst s2]
      simp only
      by_cases htz : ts.length = 0
      · have hnil : ts = [] := List.eq_nil_of_length_eq_zero htz
        subst hnil
        have e1 : VM.onVec tmp (pure () : VM Unit) s2 = (.ok ((), tmp), s2) := onVec_read tmp _ s2 _ rfl
        simp only [List.length_nil, ne_eq, not_true_eq_false, if_false, e1]
        obtain ⟨s3, hd3⟩ := dropVec_ok X hq { s2 with v := tmp } [] habst
        rw [onVec_ok tmp (Vec.dropVec X) s2 _ _ hd3]
        exact .inl ⟨_, [], rfl, by simpa using habs2, by rw [← hvals]⟩
      · have hdt : tmp.isDefault = false := by
          cases hdt : tmp.isDefault
          · rfl
          · have := (habst.sentinel hdt).2; subst this; simp at htz
        have e1 := lift_set_len X 0 { s2 with v := tmp } hdt
        simp only [ne_eq, htz, not_false_eq_true, if_true]
        rw [onVec_ok tmp _ s2 _ _ e1]
        simp only
        have habs0 : Abs X ({ tmp with len := 0 } : VSt) [] := by simpa using habst.shorten 0 (by omega) hdt
        obtain ⟨s3, hd3⟩ := dropVec_ok X hq { ({ ({ s2 with v := tmp } : St) with v := { tmp with len := 0 } } : St) with v := { tmp with len := 0 } } [] habs0
        have hd3' : Vec.dropVec X { ({ ({ ({ s2 with v := tmp } : St) with v := ({ tmp with len := 0 } : VSt) } : St) with v := s2.v } : St) with v := ({ tmp with len := 0 } : VSt) } = (.ok (), s3) := hd3
        rw [onVec_ok _ (Vec.dropVec X) _ _ _ hd3']
        exact .inl ⟨_, ts, rfl, habs2, hvals⟩
    · unfold VM.onUnwind
      rw [hb]
      simp only
      by_cases hu : VM.unwinds p = true
      · simp only [hu, if_true, VM.bind_run]
        obtain ⟨s3, hd3⟩ := dropVec_ok X hq { s2 with v := tmp } ts habst
        rw [onVec_ok tmp (Vec.dropVec X) s2 _ _ hd3]
        simp only [VM.pure_run]
        exact .inr ⟨p, _, cur, rfl, hbn, hab⟩
      · simp only [hu, Bool.false_eq_true, if_false]
        exact .inr ⟨p, s2, cur, rfl, hbn, hab⟩
  · rw [hc]
    exact .inr ⟨p, s1, es.take st ++ items, rfl, hbn, by rw [hv1]; exact hcur⟩

/-- `DropGuard::drop` of a Splice on a vector with storage, once the drained elements are gone -/
theorem refill_spec (X : Ctx) (hq : ∀ k, X.o.panicAt k = false) (s : St) (es : List Elem) (st en : Nat) (d : DrainSt)
    (fill : Vec.IterScript) (hd : s.v.isDefault = false) (hlen : s.v.len = st)
    (hfull : Abs X { s.v with len := es.length } es) (hse : st ≤ en) (hel : en ≤ es.length)
    (htp : d.tailPos = en) (htl : d.tail = es.length - en) :
    (∃ s' new, Splice.refill X d fill s = (.ok (), s') ∧ Abs X s'.v (es.take st ++ new ++ es.drop en) ∧
        new.map (·.val) = takeSome fill) ∨
    (∃ p s' cur, Splice.refill X d fill s = (.error p, s') ∧ Panic.benign p = true ∧ Abs X s'.v cur) := by
  obtain ⟨b, hb, hl, hsl, hlc, _, _⟩ := hfull.alloc (by simpa using hd)
  simp only at hb hl hlc
  have hal : b.lay.align = s.v.align := (make_layout_honest _ _ _ _ hl).2.1
  have hcapb : s.v.cap ≤ b.slots.length := by rw [hsl]; exact physSlots_ge X.env _ _ _ hl hfull.elem_pos
  have hL : (hsOf s.v s.sys.allocIdx).L = st := by simp [GS.L, hsOf, hd, hlen]
  have h1 : VM.lift X (as_mut_ptr X.env) s = (.ok (.at (dataOff s.v.align)), s) :=
    lift_read X _ s _ (as_mut_ptr_run X.env _ (by simp [hsOf, hd]) b.lay s.v.cap (by simpa [hsOf] using hl))
  have h2 : VM.lift X (len X.env) s = (.ok st, s) := lift_read X _ s _ (by rw [len_run, hL])
  have h3 := inb_blk s b hb st (by omega)
  rw [hal] at h3
  have hinv0 : FillInv X s.v es st en [] :=
    { hd := hd, len := by simpa using hlen, full := by simpa using hfull, b1 := by simpa using hse, b2 := hel }
  obtain ⟨s1, new, hrun, hinv1, hv, hal1, hc1, hb1, htr1⟩ := fillHole_spec X hq es st en (en - st) fill [] s hinv0 (by simp; omega)
  simp only [List.length_nil, List.nil_append] at hrun hinv1
  obtain ⟨hle, hfalse, htrue⟩ := fillScan_takeSome (en - st) fill
  unfold Splice.refill
  simp only [VM.bind_run, h1, h2, h3, htp, hrun]
  cases hbf : (fillScan (en - st) fill).2.1 with
  | false =>
    obtain ⟨e1, e2⟩ := hfalse hbf
    simp only [Bool.not_false, if_true]
    have hnl : new.length = (fillScan (en - st) fill).1.length := by rw [← hv]; simp
    obtain ⟨v', hcg, habs, _, _⟩ := closeGap_spec X s1 es new st en d hinv1 (by omega) htp htl
    rw [hcg]
    exact .inl ⟨_, new, rfl, habs, by rw [hv, e1]⟩
  | true =>
    obtain ⟨e1, e2⟩ := htrue hbf
    simp only [Bool.not_true, Bool.false_eq_true, if_false]
    have hnl : new.length = (fillScan (en - st) fill).1.length := by rw [← hv]; simp
    rcases insertRest_spec X hq s1 es new st en d _ hinv1 (by omega) htp htl with
      ⟨s2, new2, hr, habs, hv2⟩ | ⟨p, s2, cur, hr, hbn, hab⟩
    · rw [hr]
      refine .inl ⟨s2, new ++ new2, rfl, by simpa [List.append_assoc] using habs, ?_⟩
      rw [List.map_append, hv, hv2, e1]
    · rw [hr]
      exact .inr ⟨p, s2, cur, rfl, hbn, hab⟩

/-- creation of a `Splice` on a vector with storage -/
theorem splice_create_alloc (X : Ctx) (s : St) (es : List Elem) (b1 b2 : Bound) (st en : Nat) (fill : Vec.IterScript)
    (h : Abs X s.v es) (hd : s.v.isDefault = false) (hr : resolve b1 b2 es.length = some (st, en)) :
    Splice.create X b1 b2 fill s =
      (.ok { d := { ptr := .at (dataOff s.v.align), pos := st, stop := en, tailPos := en, tail := es.length - en }, fill := fill },
       { s with v := { s.v with len := st } }) := by
  have hL : (hsOf s.v s.sys.allocIdx).L = es.length := h.len_eq
  obtain ⟨b, hb, hl, hs, hlc, hel, hinit⟩ := h.alloc hd
  obtain ⟨_, _, hse, hel'⟩ := (C11_resolve_iff b1 b2 es.length st en).mp hr
  have hptr := as_mut_ptr_run X.env (hsOf s.v s.sys.allocIdx) hd b.lay s.v.cap hl
  have hrun : splice_pre X.env b1 b2 (hsOf s.v s.sys.allocIdx) =
      (.ok (.cont ⟨es.length, st, en, .at (dataOff s.v.align)⟩),
       { (hsOf s.v s.sys.allocIdx) with len := st, acts := [.setLen st] }) := by
    rw [C11_splice]
    unfold spliceSpec
    have hsl := set_len_run X.env st (hsOf s.v s.sys.allocIdx) hd
    simp only [len_run, GM.bind_run, hL, hr, hptr, DPtr.isNull, Bool.not_false, if_true, GM.ite_run,
      hsl, GM.pure_run]
    rfl
  have h1 := lift_len_write X (splice_pre X.env b1 b2) s st _ hrun
  have hcapb : s.v.cap ≤ b.slots.length := by rw [hs]; exact physSlots_ge X.env _ _ _ hl h.elem_pos
  have hal : b.lay.align = s.v.align := (make_layout_honest _ _ _ _ hl).2.1
  unfold Splice.create
  simp only [VM.bind_run, h1, DPtr.isNull, Bool.false_eq_true, if_false, VM.ite_run]
  unfold VM.inb VM.blockAt
  have hen : en ≤ b.slots.length := by omega
  simp [hb, hal, hen]

/-- `Drop for Splice`, first loop (same shape as `Drain`'s) -/
theorem splice_dropLoop_run (X : Ctx) (hq : ∀ k, X.o.panicAt k = false) (n : Nat) :
    ∀ (fuel : Nat) (sp : SpliceSt) (s : St) (es : List Elem) (st en : Nat), DrainInv X s.v es st en sp.d →
      sp.d.stop - sp.d.pos = n → n < fuel →
      Splice.dropLoop X fuel sp s = (.ok { sp with d := { sp.d with pos := sp.d.stop } }, afterDrops X s (window sp.d es)) := by
  induction n with
  | zero =>
    intro fuel sp s es st en h hn hf
    have hge : sp.d.pos ≥ sp.d.stop := by omega
    have heq : sp.d.pos = sp.d.stop := by have := h.mid; omega
    cases fuel with
    | zero => omega
    | succ fuel =>
      unfold Splice.dropLoop
      simp only [VM.bind_run, (drain_next_none sp.d s hge).1, VM.pure_run, window_empty sp.d es hge, afterDrops_nil,
        drainSt_pos_eq sp.d heq]
  | succ n ih =>
    intro fuel sp s es st en h hn hf
    have hlt : sp.d.pos < sp.d.stop := by omega
    have hs : sp.d.stop ≤ es.length := by have := h.hi; have := h.en_le; omega
    cases fuel with
    | zero => omega
    | succ fuel =>
      have hinv' : DrainInv X (afterDrops X s [es[sp.d.pos]'(by omega)]).v es st en ({ sp with d := { sp.d with pos := sp.d.pos + 1 } } : SpliceSt).d :=
        { h with lo := by have := h.lo; simp; omega, mid := by simp; omega }
      have hrec := ih fuel { sp with d := { sp.d with pos := sp.d.pos + 1 } } (afterDrops X s [es[sp.d.pos]'(by omega)]) es st en hinv'
        (by simp; omega) (by omega)
      obtain ⟨hw1, hw2⟩ := window_front sp.d es hlt hs
      have hwc : window sp.d es = es[sp.d.pos]'(by omega) :: window { sp.d with pos := sp.d.pos + 1 } es := by
        rw [← hw2]
        cases hw : window sp.d es with
        | nil => rw [hw] at hw1; simp at hw1
        | cons a t => rw [hw] at hw1; simp at hw1; simp [hw1]
      unfold Splice.dropLoop
      simp only [VM.bind_run, drain_next_some h hlt, VM.onUnwind, dropElem_quiet X hq]
      rw [hrec, afterDrops_cons, ← hwc]

/-- (C10/C01/C17, Splice on a vector with storage) creation, any interleaving of steps, drop -/
theorem C10_splice_partial (X : Ctx) (hq : ∀ k, X.o.panicAt k = false) (s : St) (es : List Elem) (b1 b2 : Bound) (st en : Nat)
    (fill : Vec.IterScript) (h : Abs X s.v es) (hd : s.v.isDefault = false) (hr : resolve b1 b2 es.length = some (st, en))
    (steps : List DStep) :
    ∃ sp s1 d', Splice.create X b1 b2 fill s = (.ok sp, s1) ∧ s1.sys = s.sys ∧
      runDrain steps sp.d s1 = (.ok ((specSteps steps ((es.take en).drop st)).1, d'), s1) ∧
      ((∃ s2 new, Splice.drop X { sp with d := d' } s1 = (.ok (), s2) ∧ Abs X s2.v (es.take st ++ new ++ es.drop en) ∧
          new.map (·.val) = takeSome fill) ∨
       (∃ p s2 cur, Splice.drop X { sp with d := d' } s1 = (.error p, s2) ∧ Panic.benign p = true ∧ Abs X s2.v cur)) := by
  obtain ⟨_, _, hse, hel'⟩ := (C11_resolve_iff b1 b2 es.length st en).mp hr
  obtain ⟨b, hb, hl, hs, hlc, hel, hinit⟩ := h.alloc hd
  have hc := splice_create_alloc X s es b1 b2 st en fill h hd hr
  have hv : ({ ({ s.v with len := st } : VSt) with len := es.length } : VSt) = s.v := by
    cases hv : s.v; simp [hv] at *; exact hel
  let sp : SpliceSt := { d := { ptr := .at (dataOff s.v.align), pos := st, stop := en, tailPos := en, tail := es.length - en }, fill := fill }
  have hinv : DrainInv X ({ s with v := { s.v with len := st } } : St).v es st en sp.d :=
    { hd := hd, len := rfl, full := by simp only; rw [hv]; exact h, ptr := rfl, lo := Nat.le_refl _, mid := hse,
      hi := Nat.le_refl _, tp := rfl, tl := rfl, en_le := hel' }
  obtain ⟨d', hrun, hinv', hw⟩ := drain_protocol X steps _ es st en sp.d hinv
  have hw0 : window sp.d es = (es.take en).drop st := rfl
  rw [hw0] at hrun hw
  refine ⟨sp, _, d', hc, rfl, hrun, ?_⟩
  -- the drop: remaining drained elements are destroyed, then the guard refills
  have h1 := splice_dropLoop_run X hq (d'.stop - d'.pos) (d'.stop - d'.pos + 1) { sp with d := d' } _ es st en hinv' rfl (by omega)
  let s2 : St := afterDrops X { s with v := { s.v with len := st } } (window d' es)
  have hinv2 : DrainInv X s2.v es st en { d' with pos := d'.stop } :=
    { hinv' with lo := by have := hinv'.lo; have := hinv'.mid; simp; omega, mid := by simp }
  have h1' : Splice.dropLoop X (d'.stop - d'.pos + 1) { sp with d := d' } { s with v := { s.v with len := st } } =
      (.ok { d := { d' with pos := d'.stop }, fill := fill }, s2) := h1
  have hdr : Drain.dropRest X (d'.stop - d'.stop + 1) { d' with pos := d'.stop } s2 = (.ok { d' with pos := d'.stop }, s2) := by
    simp only [Nat.sub_self, Nat.zero_add]
    unfold Drain.dropRest
    simp only [VM.bind_run, (drain_next_none { d' with pos := d'.stop } s2 (by simp)).1, VM.pure_run]
  have hdf : VM.lift X GM.isDefault s2 = (.ok false, s2) := by rw [lift_isDefault]; exact congrArg (fun b => (Except.ok b, s2)) hd
  have hrf := refill_spec X hq s2 es st en { d' with pos := d'.stop } fill hd rfl
    (by show Abs X ({ ({ s.v with len := st } : VSt) with len := es.length } : VSt) es; rw [hv]; exact h) hse hel' hinv'.tp hinv'.tl
  have hdrop : Splice.drop X { sp with d := d' } { s with v := { s.v with len := st } } =
      Splice.refill X { d' with pos := d'.stop } fill s2 := by
    unfold Splice.drop
    simp only [VM.bind_run]
    rw [h1']
    simp only
    unfold Splice.guardBody
    simp only [VM.bind_run, hdr, hdf, Bool.false_eq_true, if_false]
  rw [hdrop]
  rcases hrf with ⟨s3, new, hr3, habs3, hv3⟩ | ⟨p, s3, cur, hr3, hbn, hab⟩
  · exact .inl ⟨s3, new, hr3, habs3, hv3⟩
  · exact .inr ⟨p, s3, cur, hr3, hbn, hab⟩

/-- (Splice on a never-allocated vector) nothing to drain; the replacement is pushed -/
theorem C10_splice_default (X : Ctx) (hq : ∀ k, X.o.panicAt k = false) (s : St) (b1 b2 : Bound) (st en : Nat)
    (fill : Vec.IterScript) (h : Abs X s.v []) (hd : s.v.isDefault = true) (hr : resolve b1 b2 0 = some (st, en))
    (steps : List DStep) :
    ∃ sp, Splice.create X b1 b2 fill s = (.ok sp, s) ∧
      runDrain steps sp.d s = (.ok ((specSteps steps []).1, sp.d), s) ∧
      ((∃ s2 new, Splice.drop X sp s = (.ok (), s2) ∧ Abs X s2.v new ∧ new.map (·.val) = takeSome fill) ∨
       (∃ p s2 cur, Splice.drop X sp s = (.error p, s2) ∧ Panic.benign p = true ∧ Abs X s2.v cur)) := by
  have hL : (hsOf s.v s.sys.allocIdx).L = 0 := by have := h.len_eq (k := s.sys.allocIdx); simpa using this
  have hptr := as_mut_ptr_run_default X.env (hsOf s.v s.sys.allocIdx) (by simp [hsOf, hd])
  have hrun : splice_pre X.env b1 b2 (hsOf s.v s.sys.allocIdx) =
      (.ok (.cont ⟨0, st, en, .null⟩), hsOf s.v s.sys.allocIdx) := by
    rw [C11_splice]
    unfold spliceSpec
    simp only [len_run, GM.bind_run, hL, hr, hptr, DPtr.isNull, Bool.not_true, GM.ite_run, GM.pure_run]
    rfl
  have h1 := lift_read X (splice_pre X.env b1 b2) s _ hrun
  let d0 : DrainSt := { ptr := .null, pos := 0, stop := 0, tailPos := 0, tail := 0 }
  have hc : Splice.create X b1 b2 fill s = (.ok { d := d0, fill := fill }, s) := by
    unfold Splice.create
    simp only [VM.bind_run, h1, DPtr.isNull, VM.pure_run]
    rfl
  have hex := drain_exhausted steps d0 s (by simp [d0])
  refine ⟨{ d := d0, fill := fill }, hc, hex.1, ?_⟩
  have hn := (drain_next_none d0 s (by simp [d0])).1
  have hdl : Splice.dropLoop X (d0.stop - d0.pos + 1) { d := d0, fill := fill } s = (.ok { d := d0, fill := fill }, s) := by
    show Splice.dropLoop X (0 + 1) { d := d0, fill := fill } s = _
    unfold Splice.dropLoop
    simp only [VM.bind_run, hn, VM.pure_run]
  have hdr : Drain.dropRest X (d0.stop - d0.pos + 1) d0 s = (.ok d0, s) := by
    show Drain.dropRest X (0 + 1) d0 s = _
    unfold Drain.dropRest
    simp only [VM.bind_run, hn, VM.pure_run]
  have hdf : VM.lift X GM.isDefault s = (.ok true, s) := by rw [lift_isDefault, hd]
  have hdrop : Splice.drop X { d := d0, fill := fill } s =
      (do let _ ← Vec.forIter X (Vec.push X) (fill.length + 1) fill; pure () : VM Unit) s := by
    unfold Splice.drop
    simp only [VM.bind_run]
    rw [hdl]
    simp only
    unfold Splice.guardBody
    simp only [VM.bind_run, hdr, hdf, if_true]
  rw [hdrop]
  simp only [VM.bind_run]
  rcases forIter_push_spec X hq fill (fill.length + 1) s [] (by omega) h with ⟨s', new, hrun', habs, hv⟩ | ⟨p, s', acc, hrun', hb, habs⟩
  · rw [hrun']
    exact .inl ⟨s', new, rfl, by simpa using habs, hv⟩
  · rw [hrun']
    exact .inr ⟨p, s', acc, rfl, hb, habs⟩

end MV.Props

#print axioms MV.Props.C10_splice_default
#print axioms MV.Props.refill_spec
#print axioms MV.Props.C10_splice_partial

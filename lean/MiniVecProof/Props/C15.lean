import MiniVecProof.Gen.Facts
import MiniVecProof.Model.World
/-
  C15 — comparison, ordering, hashing and Debug are exactly those of the element slice.

  (a) REGENERATED facts: every one of these trait impls has the recognised shape
      "dereference both operands to `[T]` and delegate to the slice operation".
  (b) With those shapes turned into definitions over what a vector exposes (`VSt.view`), the result
      of each operator on two vectors is the slice operator on their element sequences — hence
      independent of capacity, alignment, block identity and history, none of which `view` reads
      beyond the first `len` slots.
-/
namespace MV.Props
open MV MV.Gen.Facts

theorem C15_all_delegate_to_slice :
    deleg_partialEq = .sliceEq ∧ deleg_ord = .sliceCmp ∧ deleg_partialOrd = .slicePartialCmp ∧
    deleg_hash = .sliceHash ∧ deleg_debug = .sliceFmt ∧ deleg_borrow = .sliceRef ∧
    deleg_borrowMut = .sliceRef ∧ deleg_asRefSlice = .sliceRef ∧ deleg_asMutSlice = .sliceRef ∧
    deleg_index = .sliceIndex ∧ deleg_indexMut = .sliceIndexMut := by
  decide

/-- … and none of them overrides a provided method (`ne`, `lt`, `max`, `hash_slice`, …): the delegating definitions
    above are the ONLY definitions of these operators, also when vectors are compared or hashed as elements of a slice -/
theorem C15_no_second_definition : providedOverrides = 0 := by decide

/-- every operand combination the crate offers `==` for — vector with vector, slice, slice reference (both operand
    orders), mutable slice reference (both orders), `Vec`, array and array reference — gets its `PartialEq` from the one
    delegating macro whose body `deleg_partialEq` classifies, and no other macro in that file generates comparison impls -/
theorem C15_every_eq_impl_from_the_delegating_macro :
    eqMacroUses = ["[]&[T],MiniVec<U>", "[]&mut[T],MiniVec<U>", "[]MiniVec<T>,&[U]", "[]MiniVec<T>,&mut[U]",
      "[]MiniVec<T>,MiniVec<U>", "[]MiniVec<T>,[U]", "[]MiniVec<T>,alloc::vec::Vec<U>",
      "[constN:usize]MiniVec<T>,&[U;N]", "[constN:usize]MiniVec<T>,[U;N]"] ∧ otherEqMacros = 0 := by
  decide

/-- an operator implemented in a delegating shape, as a function of the two handles -/
def delegated {β} (shape : Deleg) (sliceOp : List Slot → List Slot → β) (dflt : VSt → VSt → β)
    (a b : VSt) : β :=
  match shape with
  | .sliceEq | .sliceCmp | .slicePartialCmp | .sliceHash | .sliceFmt | .sliceRef => sliceOp a.view b.view
  | _ => dflt a b

/-- Whatever the slice operator is (any `PartialEq`, partial order with incomparable values, hasher,
    formatter), the vector operator equals it on the exposed sequences, … -/
theorem C15_operator_is_slice_operator {β} (sliceOp : List Slot → List Slot → β) (dflt : VSt → VSt → β)
    (a b : VSt) :
    delegated deleg_partialEq sliceOp dflt a b = sliceOp a.view b.view ∧
    delegated deleg_ord sliceOp dflt a b = sliceOp a.view b.view ∧
    delegated deleg_partialOrd sliceOp dflt a b = sliceOp a.view b.view ∧
    delegated deleg_hash sliceOp dflt a b = sliceOp a.view b.view ∧
    delegated deleg_debug sliceOp dflt a b = sliceOp a.view b.view :=
  ⟨rfl, rfl, rfl, rfl, rfl⟩

/-- … so two pairs of vectors exposing the same sequences get the same answer, whatever their
    capacities, alignments, blocks, spare slots or histories. -/
theorem C15_independent_of_storage {β} (sliceOp : List Slot → List Slot → β) (dflt : VSt → VSt → β)
    (a b a' b' : VSt) (ha : a.view = a'.view) (hb : b.view = b'.view) :
    delegated deleg_partialEq sliceOp dflt a b = delegated deleg_partialEq sliceOp dflt a' b' ∧
    delegated deleg_ord sliceOp dflt a b = delegated deleg_ord sliceOp dflt a' b' ∧
    delegated deleg_partialOrd sliceOp dflt a b = delegated deleg_partialOrd sliceOp dflt a' b' ∧
    delegated deleg_hash sliceOp dflt a b = delegated deleg_hash sliceOp dflt a' b' := by
  simp [delegated, deleg_partialEq, deleg_ord, deleg_partialOrd, deleg_hash, ha, hb]

/-- non-vacuity: two different storages exposing the same sequence -/
example :
    let a : VSt := { isDefault := false, len := 1, cap := 4, align := 8,
                     blk := some ⟨0, ⟨40, 8⟩, [some ⟨1, 7⟩, none, some ⟨9, 9⟩, none]⟩ }
    let b : VSt := { isDefault := false, len := 1, cap := 1, align := 64,
                     blk := some ⟨5, ⟨128, 64⟩, [some ⟨1, 7⟩]⟩ }
    a.view = b.view := by decide

end MV.Props

#print axioms MV.Props.C15_all_delegate_to_slice
#print axioms MV.Props.C15_no_second_definition
#print axioms MV.Props.C15_every_eq_impl_from_the_delegating_macro
#print axioms MV.Props.C15_operator_is_slice_operator
#print axioms MV.Props.C15_independent_of_storage

import MiniVecProof.Proofs.MemDrainFilter
import MiniVecProof.Proofs.MemLoop
/-
  C10 / C17 / C01 (DrainFilter) — with an ARBITRARY predicate (any function of the call number and
  the element; it may contradict itself) that does not panic: after `drain_filter(pred)` on a
  well-formed vector exposing `es`, ANY number of `next()` calls yields, in order, the elements the
  predicate accepts (the filter semantics `keptFrom pred 0 es`, each at most once, `None` once the
  scan is complete and for ever after); no step adds a trace event; dropping the iterator at that
  point scans the rest, destroys exactly the accepted elements not yet yielded (once each, in order)
  and leaves the vector exposing exactly the rejected elements `rejFrom pred 0 es` in their original
  order — whatever the number of steps taken — in the same block with the same capacity.
-/
namespace MV.Props
open MV MV.Gen MV.GM VM

/-- the model: `n` calls of `next()`; `none` = the iterator answered `None` -/
def runDF (X : Ctx) : Nat → DFSt → St → Except Panic (List (Option Elem) × DFSt) × St
  | 0, f, s => (.ok ([], f), s)
  | n + 1, f, s =>
    (match DrainFilter.next X (f.oldLen - f.pos + 1) f s with
     | (.ok (.item e, f'), s') =>
       (match runDF X n f' s' with
        | (.ok (ys, f''), s'') => (.ok (some e :: ys, f''), s'')
        | (.error p, s'') => (.error p, s''))
     | (.ok (.done, f'), s') =>
       (match runDF X n f' s' with
        | (.ok (ys, f''), s'') => (.ok (none :: ys, f''), s'')
        | (.error p, s'') => (.error p, s''))
     | (.ok (.predPanicked, _), s') => (.error .explicit, s')
     | (.error p, s') => (.error p, s'))

/-- the specification: `n` steps of the filter iterator over a list -/
def dfRun (f : Vec.Pred1) : Nat → Nat → List Elem → List (Option Elem) × Nat × List Elem
  | 0, k, rest => ([], k, rest)
  | n + 1, k, rest =>
    (match (dfNext f k rest).2.1 with
     | some (e, rest') => ((some e :: (dfRun f n (dfNext f k rest).2.2 rest').1), (dfRun f n (dfNext f k rest).2.2 rest').2)
     | none => ((none :: (dfRun f n (dfNext f k rest).2.2 []).1), (dfRun f n (dfNext f k rest).2.2 []).2))

/-- yielded so far ++ still to be found = everything the predicate accepts; nothing rejected is lost -/
theorem dfRun_accounts (f : Vec.Pred1) (n k : Nat) (rest : List Elem) :
    (dfRun f n k rest).1.filterMap id ++ keptFrom f (dfRun f n k rest).2.1 (dfRun f n k rest).2.2 = keptFrom f k rest := by
  induction n generalizing k rest with
  | zero => simp [dfRun]
  | succ n ih =>
    obtain ⟨hk, _⟩ := dfNext_kept f k rest
    simp only [dfRun]
    cases hm : (dfNext f k rest).2.1 with
    | none =>
      rw [hm] at hk
      simp only [List.filterMap_cons, id]
      have := ih (dfNext f k rest).2.2 []
      simp only [keptFrom] at this
      rw [hk]
      simpa using this
    | some pr =>
      obtain ⟨e, r⟩ := pr
      rw [hm] at hk
      simp only [List.filterMap_cons, id, List.cons_append]
      rw [hk, ih]

theorem df_steps (X : Ctx) (hq : ∀ k, X.o.panicAt k = false) (n : Nat) :
    ∀ (rest kept junk : List Elem) (f : DFSt) (s : St), DFInv X s.v f kept junk rest →
    ∃ s' f' kept' junk', runDF X n f s = (.ok ((dfRun f.pred n f.calls rest).1, f'), s') ∧
      DFInv X s'.v f' kept' junk' (dfRun f.pred n f.calls rest).2.2 ∧ f'.pred = f.pred ∧
      f'.calls = (dfRun f.pred n f.calls rest).2.1 ∧
      kept' ++ rejFrom f.pred f'.calls (dfRun f.pred n f.calls rest).2.2 = kept ++ rejFrom f.pred f.calls rest ∧
      s'.sys.tr = s.sys.tr ∧ s'.v.cap = s.v.cap ∧ s'.v.blk.map (·.bid) = s.v.blk.map (·.bid) := by
  induction n with
  | zero =>
    intro rest kept junk f s h
    exact ⟨s, f, kept, junk, rfl, h, rfl, rfl, rfl, rfl, rfl, rfl⟩
  | succ n ih =>
    intro rest kept junk f s h
    have hfuel : rest.length < f.oldLen - f.pos + 1 := by have := h.ol; have := h.ps; omega
    obtain ⟨s1, junk1, f1, hrun, hinv1, hpr, hcl, hol1, htr, hc, hb⟩ := df_next_spec X hq rest kept junk f s _ h hfuel
    obtain ⟨_, hr⟩ := dfNext_kept f.pred f.calls rest
    cases hm : (dfNext f.pred f.calls rest).2.1 with
    | none =>
      rw [hm] at hinv1 hrun hr
      simp only [stepOf, restOf] at hinv1 hrun
      obtain ⟨s2, f2, kept2, junk2, hrun2, hinv2, hpr2, hcl2, hrej2, htr2, hc2, hb2⟩ := ih [] _ junk1 f1 s1 hinv1
      rw [hpr, hcl] at hrun2 hinv2 hcl2 hrej2
      refine ⟨s2, f2, kept2, junk2, ?_, ?_, by rw [hpr2, hpr], ?_, ?_, by rw [htr2, htr], by rw [hc2, hc], by rw [hb2, hb]⟩
      · simp only [runDF, hrun, hrun2, dfRun, hm]
      · simpa only [dfRun, hm] using hinv2
      · simpa only [dfRun, hm] using hcl2
      · simp only [dfRun, hm]
        rw [hrej2, hr]; simp [rejFrom]
    | some pr =>
      obtain ⟨e, r⟩ := pr
      rw [hm] at hinv1 hrun hr
      simp only [stepOf, restOf] at hinv1 hrun
      obtain ⟨s2, f2, kept2, junk2, hrun2, hinv2, hpr2, hcl2, hrej2, htr2, hc2, hb2⟩ := ih r _ junk1 f1 s1 hinv1
      rw [hpr, hcl] at hrun2 hinv2 hcl2 hrej2
      refine ⟨s2, f2, kept2, junk2, ?_, ?_, by rw [hpr2, hpr], ?_, ?_, by rw [htr2, htr], by rw [hc2, hc], by rw [hb2, hb]⟩
      · simp only [runDF, hrun, hrun2, dfRun, hm]
      · simpa only [dfRun, hm] using hinv2
      · simpa only [dfRun, hm] using hcl2
      · simp only [dfRun, hm]
        rw [hrej2, hr, List.append_assoc]

/-- `drain_filter(pred)` on a vector with storage -/
theorem df_create_alloc (X : Ctx) (pred : Vec.Pred1) (s : St) (es : List Elem) (h : Abs X s.v es)
    (hd : s.v.isDefault = false) :
    ∃ v0, DrainFilter.create X pred s = (.ok { oldLen := es.length, newLen := 0, pos := 0, panicked := false, pred := pred, calls := 0 },
        { s with v := v0 }) ∧
      DFInv X v0 { oldLen := es.length, newLen := 0, pos := 0, panicked := false, pred := pred, calls := 0 } [] [] es ∧
      v0.cap = s.v.cap ∧ v0.blk = s.v.blk := by
  have hL : (hsOf s.v s.sys.allocIdx).L = es.length := h.len_eq
  have h1 : VM.lift X (len X.env) s = (.ok es.length, s) := lift_read X _ s _ (by rw [len_run, hL])
  obtain ⟨b, hb, hl, hs, hlc, hel, hinit⟩ := h.alloc hd
  have hv : ({ s.v with len := es.length } : VSt) = s.v := by
    cases hv : s.v; simp [hv] at *; exact hel
  unfold DrainFilter.create
  simp only [VM.bind_run, h1]
  by_cases hz : es.length > 0
  · simp only [hz, if_true, VM.bind_run, lift_set_len X 0 s hd, VM.pure_run]
    refine ⟨{ s.v with len := 0 }, rfl, ?_, rfl, rfl⟩
    exact { hd := hd, len0 := rfl, full := by simpa [hv] using h, nl := rfl, ps := rfl, ol := by simp, np := rfl }
  · simp only [hz, if_false, VM.pure_run]
    have hl0 : s.v.len = 0 := by omega
    refine ⟨s.v, rfl, ?_, rfl, rfl⟩
    exact { hd := hd, len0 := hl0, full := by simpa [hv] using h, nl := rfl, ps := rfl, ol := by simp, np := rfl }

/-- (C10/C17/C01, DrainFilter on a vector with storage) creation, any number of `next()` calls, drop -/
theorem C10_drain_filter_partial (X : Ctx) (hq : ∀ k, X.o.panicAt k = false) (pred : Vec.Pred1) (s : St) (es : List Elem)
    (h : Abs X s.v es) (hd : s.v.isDefault = false) (n : Nat) :
    ∃ f0 s0 f1 s1 s2, DrainFilter.create X pred s = (.ok f0, s0) ∧ s0.sys = s.sys ∧
      runDF X n f0 s0 = (.ok ((dfRun pred n 0 es).1, f1), s1) ∧ s1.sys.tr = s.sys.tr ∧
      DrainFilter.drop X f1 s1 = (.ok (), s2) ∧
      Abs X s2.v (rejFrom pred 0 es) ∧
      ownEvents s2.sys.tr = ownEvents s.sys.tr ++ dropEvents X (keptFrom pred (dfRun pred n 0 es).2.1 (dfRun pred n 0 es).2.2) ∧
      (dfRun pred n 0 es).1.filterMap id ++ keptFrom pred (dfRun pred n 0 es).2.1 (dfRun pred n 0 es).2.2 = keptFrom pred 0 es ∧
      s2.v.cap = s.v.cap ∧ s2.v.blk.map (·.bid) = s.v.blk.map (·.bid) := by
  obtain ⟨v0, hc, hinv0, hcap0, hblk0⟩ := df_create_alloc X pred s es h hd
  obtain ⟨s1, f1, kept1, junk1, hrun, hinv1, hpr, hcl, hrej, htr, hc1, hb1⟩ :=
    df_steps X hq n es [] [] _ { s with v := v0 } hinv0
  simp only at hrun hinv1 hpr hcl hrej htr hc1 hb1
  have hfuel : (dfRun pred n 0 es).2.2.length < f1.oldLen - f1.pos + 1 := by have := hinv1.ol; have := hinv1.ps; omega
  obtain ⟨s2, hdrop, habs2, hown2, hc2, hb2⟩ :=
    df_dropLoop_spec X hq _ _ kept1 junk1 f1 s1 _ rfl hinv1 hfuel
  rw [hpr, hcl] at habs2 hown2
  rw [hcl] at hrej
  refine ⟨_, _, f1, s1, s2, hc, rfl, hrun, htr, ?_, ?_, ?_, dfRun_accounts pred n 0 es, by rw [hc2, hc1]; exact hcap0,
    by rw [hb2, hb1]; show v0.blk.map _ = _; rw [hblk0]⟩
  · unfold DrainFilter.drop
    rw [hinv1.np]
    simpa using hdrop
  · rw [hrej] at habs2; simpa using habs2
  · rw [hown2, htr]

/-- the never-allocated vector: nothing to scan, nothing touched -/
theorem C10_drain_filter_default (X : Ctx) (pred : Vec.Pred1) (s : St) (h : Abs X s.v []) (hd : s.v.isDefault = true) (n : Nat) :
    ∃ f0, DrainFilter.create X pred s = (.ok f0, s) ∧ (∃ ys, runDF X n f0 s = (.ok (ys, f0), s) ∧ ∀ y ∈ ys, y = none) ∧
      DrainFilter.drop X f0 s = (.ok (), s) := by
  have hL : (hsOf s.v s.sys.allocIdx).L = 0 := by have := h.len_eq (k := s.sys.allocIdx); simpa using this
  have h1 : VM.lift X (len X.env) s = (.ok 0, s) := lift_read X _ s _ (by rw [len_run, hL])
  let f0 : DFSt := { oldLen := 0, newLen := 0, pos := 0, panicked := false, pred := pred, calls := 0 }
  have hn : ∀ fuel, DrainFilter.next X (fuel + 1) f0 s = (.ok (.done, f0), s) := by
    intro fuel; unfold DrainFilter.next; simp [f0]
  refine ⟨f0, ?_, ?_, ?_⟩
  · unfold DrainFilter.create
    simp only [VM.bind_run, h1, Nat.lt_irrefl, if_false, VM.pure_run, gt_iff_lt]
    rfl
  · induction n with
    | zero => exact ⟨[], rfl, by simp⟩
    | succ n ih =>
      obtain ⟨ys, hr, hall⟩ := ih
      refine ⟨none :: ys, ?_, by simpa using hall⟩
      have := hn 0
      simp only [runDF]
      show (match DrainFilter.next X (0 - 0 + 1) f0 s with | _ => _) = _
      rw [show (0 - 0 + 1) = 0 + 1 by rfl, this]
      simp only [hr]
  · unfold DrainFilter.drop
    simp only [f0, Bool.false_eq_true, if_false]
    unfold DrainFilter.dropLoop
    have := hn 0
    simp only [f0] at this
    simp only [VM.bind_run, Nat.sub_self, Nat.zero_add, this]
    unfold DrainFilter.guardBody
    simp

end MV.Props

#print axioms MV.Props.C10_drain_filter_partial
#print axioms MV.Props.C10_drain_filter_default
#print axioms MV.Props.dfRun_accounts

import MiniVecProof.Proofs.MemRetain
import MiniVecProof.Props.C12
/-
  C17 — ill-behaved but safe callbacks cannot cause memory unsafety (PARTIAL: proved for `retain`
  with an arbitrary predicate and for `clone` with an arbitrary `Clone`; the other callback-taking
  operations are decided by the hostile-script sweep of the correspondence).

  `retain`'s predicate is ANY function of (how many times it has been called, the element): it may
  be stateful, contradict itself, accept everything, reject everything.  Statement: for every such
  predicate (that does not panic), every element class, both profiles and every well-formed vector
  exposing `es`: `retain` returns, touches no block but its own (no allocator traffic, same block,
  same capacity), leaves the vector well formed exposing a SUBLIST of `es` — so only live elements,
  each at most once — and destroys exactly the others, once each.
-/
namespace MV.Props
open MV MV.Gen MV.GM VM

/-- a consistent predicate gives `Vec::retain` = `filter` -/
theorem keptFrom_filter (p : Elem → Bool) (k : Nat) (es : List Elem) : keptFrom (fun _ e => p e) k es = es.filter p := by
  induction es generalizing k with
  | nil => rfl
  | cons e es ih => simp only [keptFrom, List.filter_cons, ih]

/-- (C17, retain) -/
theorem C17_retain_partial (X : Ctx) (hq : ∀ k, X.o.panicAt k = false) (f : Vec.Pred1) (s : St) (es : List Elem)
    (h : Abs X s.v es) :
    ∃ s' kept rej, Vec.retain X f s = (.ok (), s') ∧ Abs X s'.v kept ∧
      kept.Sublist es ∧ (kept ++ rej).Perm es ∧
      ownEvents s'.sys.tr = ownEvents s.sys.tr ++ dropEvents X rej ∧
      s'.v.cap = s.v.cap ∧ s'.v.blk.map (·.bid) = s.v.blk.map (·.bid) := by
  obtain ⟨s', rej, hrun, habs, hperm, hown, hc, hb⟩ := retain_spec X hq f s es h
  refine ⟨s', keptFrom f 0 es, rej, hrun, habs, keptFrom_sublist f 0 es, ?_, hown, hc, hb⟩
  exact (List.Perm.append_left _ hperm).trans (kept_rej_perm f 0 es)

/-- with distinct identities the survivors are distinct, and none of them was destroyed -/
theorem C17_live_distinct (es kept rej : List Elem) (hs : kept.Sublist es) (hp : (kept ++ rej).Perm es)
    (hnd : (es.map (·.id)).Nodup) :
    (kept.map (·.id)).Nodup ∧ ∀ e ∈ kept, ∀ r ∈ rej, e.id ≠ r.id := by
  have h1 : ((kept ++ rej).map (·.id)).Nodup := (hp.map _).nodup_iff.mpr hnd
  rw [List.map_append, List.nodup_append] at h1
  exact ⟨h1.1, fun e he r hr => h1.2.2 e.id (List.mem_map_of_mem he) r.id (List.mem_map_of_mem hr)⟩

/-- (C17/C01, `Extend`) with ANY scripted source iterator — one that reports `None` and then yields
    again, with any `size_hint` (the code never asks) — `extend` appends exactly the items before
    the first `None`, or stops in a sanctioned way with the vector well formed -/
theorem C17_extend_partial (X : Ctx) (hq : ∀ k, X.o.panicAt k = false) (it : Vec.IterScript) (s : St) (es : List Elem)
    (h : Abs X s.v es) :
    (∃ s' new, Vec.extend X it s = (.ok (), s') ∧ Abs X s'.v (es ++ new) ∧ new.map (·.val) = takeSome it) ∨
    (∃ p s' acc, Vec.extend X it s = (.error p, s') ∧ Panic.benign p = true ∧ Abs X s'.v acc) := by
  unfold Vec.extend
  simp only [VM.bind_run]
  rcases forIter_push_spec X hq it (it.length + 1) s es (by omega) h with
    ⟨s', new, hrun, habs, hv⟩ | ⟨p, s', acc, hrun, hb, habs⟩
  · rw [hrun]; exact .inl ⟨s', new, rfl, habs, hv⟩
  · rw [hrun]; exact .inr ⟨p, s', acc, rfl, hb, habs⟩

/-- (C17/C01, `FromIterator`) same for `collect`: the new vector holds exactly the items before the
    first `None`; on a sanctioned stop the partly built vector is destroyed and the focus restored -/
theorem C17_collect_partial (X : Ctx) (hq : ∀ k, X.o.panicAt k = false) (it : Vec.IterScript) (s : St)
    (hz : 0 < X.c.elemSize) :
    (∃ o s' new, Vec.collect X it s = (.ok (o, afterNone it), s') ∧ s'.v = s.v ∧ Abs X o new ∧
        new.map (·.val) = takeSome it) ∨
    (∃ p s', Vec.collect X it s = (.error p, s') ∧ Panic.benign p = true ∧ s'.v = s.v) := by
  unfold Vec.collect
  simp only [VM.bind_run]
  have hx : (∃ a s', (do
        VM.lift X (new X.env)
        Vec.forIter X (Vec.push X) (it.length + 1) it : VM Vec.IterScript) { s with v := {} } = (.ok a, s') ∧
        (a = afterNone it ∧ ∃ new, Abs X s'.v new ∧ new.map (·.val) = takeSome it)) ∨
      (∃ p s' acc, (do
        VM.lift X (new X.env)
        Vec.forIter X (Vec.push X) (it.length + 1) it : VM Vec.IterScript) { s with v := {} } = (.error p, s') ∧
        Panic.benign p = true ∧ Abs X s'.v acc) := by
    have h1 := lift_new_empty X hz s
    simp only [VM.bind_run, h1]
    rcases forIter_push_spec X hq it (it.length + 1) { s with v := {} } [] (by omega) (Abs.sentinel_abs X hz) with
      ⟨s', new, hrun, habs, hv⟩ | ⟨p, s', acc, hrun, hb, habs⟩
    · exact .inl ⟨_, s', hrun, rfl, new, by simpa using habs, hv⟩
    · exact .inr ⟨p, s', acc, hrun, hb, habs⟩
  rcases withLocal_spec X hq _ s (fun a s' => a = afterNone it ∧ ∃ new, Abs X s'.v new ∧ new.map (·.val) = takeSome it) hx with
    ⟨a, s', hrun, ha, new, habs, hv⟩ | ⟨p, s', hrun, hb, hv⟩
  · rw [hrun]
    subst ha
    exact .inl ⟨s'.v, _, new, rfl, rfl, habs, hv⟩
  · rw [hrun]
    exact .inr ⟨p, s', rfl, hb, hv⟩

/-- (C17, `dedup` with ANY scripted equality — `X.o.eqScript` is arbitrary: inconsistent, not
    reflexive, not symmetric —, `dedup_by` with ANY two-argument predicate of the call number, and
    `dedup_by_key` with ANY key function of the call number): a sublist of live elements survives,
    the others are destroyed exactly once, no allocator traffic -/
theorem C17_dedup_partial (X : Ctx) (hq : ∀ k, X.o.panicAt k = false) (s : St) (es : List Elem) (h : Abs X s.v es) :
    (∃ s' kept rej, Vec.dedup X s = (.ok (), s') ∧ Abs X s'.v kept ∧ kept.Sublist es ∧ (kept ++ rej).Perm es ∧
      ownEvents s'.sys.tr = ownEvents s.sys.tr ++ dropEvents X rej ∧ s'.v.cap = s.v.cap ∧
      s'.v.blk.map (·.bid) = s.v.blk.map (·.bid)) ∧
    (∀ f : Vec.Pred2, ∃ s' kept rej, Vec.dedup_by_pred X f s = (.ok (), s') ∧ Abs X s'.v kept ∧ kept.Sublist es ∧
      (kept ++ rej).Perm es ∧ ownEvents s'.sys.tr = ownEvents s.sys.tr ++ dropEvents X rej ∧ s'.v.cap = s.v.cap ∧
      s'.v.blk.map (·.bid) = s.v.blk.map (·.bid)) ∧
    (∀ key : Nat → Elem → Int, ∃ s' kept rej, Vec.dedup_by_key X key s = (.ok (), s') ∧ Abs X s'.v kept ∧
      kept.Sublist es ∧ (kept ++ rej).Perm es ∧ ownEvents s'.sys.tr = ownEvents s.sys.tr ++ dropEvents X rej ∧
      s'.v.cap = s.v.cap ∧ s'.v.blk.map (·.bid) = s.v.blk.map (·.bid)) :=
  ⟨dedup_by_spec X hq _ (eqElem_sameSpec X hq) s es h,
   fun f => dedup_by_spec X hq _ (pred2_sameSpec X hq f) s es h,
   fun key => dedup_by_spec X hq _ (key_sameSpec X hq key) s es h⟩

/-- the loop stops at the FIRST `None`: whatever the iterator would have yielded later is not taken -/
example : takeSome [some 1, none, some 2] = [1] ∧ afterNone [some 1, none, some 2] = [some 2] := by decide

/-- non-vacuity / what an inconsistent predicate looks like: accept on even call numbers only -/
example : keptFrom (fun k _ => k % 2 == 0) 0 [⟨1, 5⟩, ⟨2, 5⟩, ⟨3, 5⟩] = [⟨1, 5⟩, ⟨3, 5⟩] := by decide

end MV.Props

#print axioms MV.Props.C17_retain_partial
#print axioms MV.Props.C17_live_distinct
#print axioms MV.Props.C17_dedup_partial
#print axioms MV.Props.C17_extend_partial
#print axioms MV.Props.C17_collect_partial
#print axioms MV.Props.keptFrom_filter

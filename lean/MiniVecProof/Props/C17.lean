import MiniVecProof.Proofs.MemRetain
import MiniVecProof.Props.C12
/-
  C17 — ill-behaved but safe callbacks cannot cause memory unsafety (PARTIAL: proved for `retain`
  with an arbitrary predicate and for `clone` with an arbitrary `Clone`; the other callback-taking
  operations are decided by the hostile-script sweep of the correspondence).

  `retain`'s predicate is ANY function of (how many times it has been called, the element): it may
  be stateful, contradict itself, accept everything, reject everything.  Statement: for every such
  predicate (that does not panic), every element class, both profiles and every well-formed vector
  exposing `es`: `retain` returns, touches no block but its own (no allocator traffic, same block,
  same capacity), leaves the vector well formed exposing a SUBLIST of `es` — so only live elements,
  each at most once — and destroys exactly the others, once each.
-/
namespace MV.Props
open MV MV.Gen MV.GM VM

/-- a consistent predicate gives `Vec::retain` = `filter` -/
theorem keptFrom_filter (p : Elem → Bool) (k : Nat) (es : List Elem) : keptFrom (fun _ e => p e) k es = es.filter p := by
  induction es generalizing k with
  | nil => rfl
  | cons e es ih => simp only [keptFrom, List.filter_cons, ih]

/-- (C17, retain) -/
theorem C17_retain_partial (X : Ctx) (hq : ∀ k, X.o.panicAt k = false) (f : Vec.Pred1) (s : St) (es : List Elem)
    (h : Abs X s.v es) :
    ∃ s' kept rej, Vec.retain X f s = (.ok (), s') ∧ Abs X s'.v kept ∧
      kept.Sublist es ∧ (kept ++ rej).Perm es ∧
      ownEvents s'.sys.tr = ownEvents s.sys.tr ++ dropEvents X rej ∧
      s'.v.cap = s.v.cap ∧ s'.v.blk.map (·.bid) = s.v.blk.map (·.bid) := by
  obtain ⟨s', rej, hrun, habs, hperm, hown, hc, hb⟩ := retain_spec X hq f s es h
  refine ⟨s', keptFrom f 0 es, rej, hrun, habs, keptFrom_sublist f 0 es, ?_, hown, hc, hb⟩
  exact (List.Perm.append_left _ hperm).trans (kept_rej_perm f 0 es)

/-- with distinct identities the survivors are distinct, and none of them was destroyed -/
theorem C17_live_distinct (es kept rej : List Elem) (hs : kept.Sublist es) (hp : (kept ++ rej).Perm es)
    (hnd : (es.map (·.id)).Nodup) :
    (kept.map (·.id)).Nodup ∧ ∀ e ∈ kept, ∀ r ∈ rej, e.id ≠ r.id := by
  have h1 : ((kept ++ rej).map (·.id)).Nodup := (hp.map _).nodup_iff.mpr hnd
  rw [List.map_append, List.nodup_append] at h1
  exact ⟨h1.1, fun e he r hr => h1.2.2 e.id (List.mem_map_of_mem he) r.id (List.mem_map_of_mem hr)⟩

/-- non-vacuity / what an inconsistent predicate looks like: accept on even call numbers only -/
example : keptFrom (fun k _ => k % 2 == 0) 0 [⟨1, 5⟩, ⟨2, 5⟩, ⟨3, 5⟩] = [⟨1, 5⟩, ⟨3, 5⟩] := by decide

end MV.Props

#print axioms MV.Props.C17_retain_partial
#print axioms MV.Props.C17_live_distinct
#print axioms MV.Props.keptFrom_filter

import MiniVecProof.Proofs.MemMove
import MiniVecProof.Proofs.MemRetain
/-
  C01 — operation sequences behave exactly like std `Vec` (PARTIAL: proved for the operations in
  `POp`; the remaining operations of the property are tied to the code and to `Vec` by the
  three-way correspondence only — see `partial_missing` in the evidence).

  Statement: for every element class, both profiles, every allocator-failure oracle, every
  well-formed starting handle exposing `es` and EVERY finite sequence of proved operations: either
  the run stops at some operation in a benign way (capacity-overflow panic or allocation-failure
  abort — the sanctioned ways for a size request to fail, with the vector as the spec had it
  before that operation), or it runs to the end, every returned value is the one the list
  specification (`Vec` semantics) returns, and the handle exposes exactly the specified sequence.
  Never an illegal access, a failed internal assertion or a hang.
-/
namespace MV.Props
open MV MV.Gen MV.GM VM

/-- the operations whose refinement lemma is proved -/
inductive POp
  | push (e : Elem)
  | pop
  | truncate (n : Nat)
  | clear
  | reserve (n : Nat)
  | reserve_exact (n : Nat)
  | shrink_to (n : Nat)
  | shrink_to_fit
  | insert (i : Nat) (e : Elem)
  | remove (i : Nat)
  | swap_remove (i : Nat)
  | retain (f : Vec.Pred1)      -- ANY predicate of (call number, element)

/-- `Vec` semantics on plain lists: new contents and the returned value -/
def POp.spec : POp → List Elem → List Elem × Option Elem
  | .push e, es => (es ++ [e], none)
  | .pop, es => (es.dropLast, es.getLast?)
  | .truncate n, es => (es.take n, none)
  | .clear, _ => ([], none)
  | .reserve _, es | .reserve_exact _, es | .shrink_to _, es | .shrink_to_fit, es => (es, none)
  | .insert i e, es => (es.take i ++ [e] ++ es.drop i, none)
  | .remove i, es => (es.eraseIdx i, es[i]?)
  | .swap_remove i, es => ((match es.getLast? with | some l => (es.set i l).take (es.length - 1) | none => es), es[i]?)
  | .retain f, es => (keptFrom f 0 es, none)

/-- the model (hand-written pointer code on top of the regenerated decision programs) -/
def POp.run (X : Ctx) : POp → VM (Option Elem)
  | .push e => do Vec.push X e; pure none
  | .pop => Vec.pop X
  | .truncate n => do Vec.truncate X n; pure none
  | .clear => do Vec.clear X; pure none
  | .reserve n => do Vec.reserve X n; pure none
  | .reserve_exact n => do Vec.reserve_exact X n; pure none
  | .shrink_to n => do Vec.shrink_to X n; pure none
  | .shrink_to_fit => do Vec.shrink_to_fit X; pure none
  | .insert i e => do Vec.insert X i e; pure none
  | .remove i => do let x ← Vec.remove X i; pure (some x)
  | .swap_remove i => do let x ← Vec.swap_remove X i; pure (some x)
  | .retain f => do Vec.retain X f; pure none

/-- one operation refines its specification, or stops benignly leaving the handle as it was -/
theorem capMem_refines (X : Ctx) (s : St) (es : List Elem) (x : VM Unit) (habs0 : Abs X s.v es)
    (h : CapMem X s es (x s)) :
    (∃ s', (do x; pure (none : Option Elem) : VM (Option Elem)) s = (.ok none, s') ∧ Abs X s'.v es) ∨
    (∃ p s', (do x; pure (none : Option Elem) : VM (Option Elem)) s = (.error p, s') ∧ Panic.benign p = true ∧ s'.v = s.v) := by
  simp only [VM.bind_run]
  generalize x s = out at h
  cases h with
  | same => exact .inl ⟨s, rfl, habs0⟩
  | stopped p s' hv hp _ => exact .inr ⟨p, s', rfl, hp, hv⟩
  | grown s' habs _ _ _ _ => exact .inl ⟨s', rfl, habs⟩

/-- the documented argument limits (outside them both `Vec` and `MiniVec` panic: C11) -/
def POp.inRange : POp → List Elem → Prop
  | .insert i _, es => i ≤ es.length
  | .remove i, es | .swap_remove i, es => i < es.length
  | _, _ => True

/-- (`hq`: no user destructor panics — destructor panics are the subject of C04) -/
theorem POp.refines (X : Ctx) (hq : ∀ k, X.o.panicAt k = false) (op : POp) (s : St) (es : List Elem) (h : Abs X s.v es)
    (hr : op.inRange es) :
    (∃ s', op.run X s = (.ok (op.spec es).2, s') ∧ Abs X s'.v (op.spec es).1) ∨
    (∃ p s', op.run X s = (.error p, s') ∧ Panic.benign p = true ∧ s'.v = s.v) := by
  cases op with
  | push e =>
    have := push_spec X s es e h
    simp only [POp.run, VM.bind_run]
    generalize Vec.push X e s = out at this
    cases this with
    | pushed s' habs _ => exact .inl ⟨s', rfl, habs⟩
    | stopped p s' hv hp => exact .inr ⟨p, s', rfl, hp, hv⟩
  | pop =>
    have ⟨h1, h2⟩ := pop_spec X s es h
    simp only [POp.run, POp.spec]
    rcases List.eq_nil_or_concat es with hnil | ⟨es', e, he⟩
    · subst hnil
      exact .inl ⟨s, h1 rfl, h⟩
    · have he' : es = es' ++ [e] := by simpa using he
      obtain ⟨v', hr, habs, _, _⟩ := h2 es' e he'
      refine .inl ⟨{ s with v := v' }, ?_, ?_⟩
      · rw [hr, he']; simp
      · rw [he']; simpa using habs
  | truncate n =>
    obtain ⟨v', hr, habs, _⟩ := truncate_spec X hq s es n h
    exact .inl ⟨_, by simp only [POp.run, VM.bind_run, hr]; rfl, habs⟩
  | clear =>
    obtain ⟨v', hr, habs, _⟩ := clear_spec X hq s es h
    exact .inl ⟨_, by simp only [POp.run, VM.bind_run, hr]; rfl, habs⟩
  | reserve n => exact capMem_refines X s es _ h (reserve_mem X s es n h)
  | reserve_exact n => exact capMem_refines X s es _ h (reserve_exact_mem X s es n h)
  | shrink_to n => exact capMem_refines X s es _ h (shrink_to_mem X s es n h)
  | shrink_to_fit => exact capMem_refines X s es _ h (shrink_to_fit_mem X s es h)
  | insert i e =>
    have := (insert_spec X s es i e h).1
    simp only [POp.run, VM.bind_run, POp.spec]
    generalize Vec.insert X i e s = out at this
    cases this with
    | inserted s' _ habs => exact .inl ⟨s', rfl, habs⟩
    | stopped p s' hv hp => exact .inr ⟨p, s', rfl, hp, hv⟩
  | remove i =>
    have hi : i < es.length := hr
    obtain ⟨v', hrun, habs, _⟩ := remove_spec X s es i h hi
    refine .inl ⟨{ s with v := v' }, ?_, habs⟩
    simp only [POp.run, VM.bind_run, hrun, POp.spec, VM.pure_run]
    simp [List.getElem?_eq_getElem hi]
  | swap_remove i =>
    have hi : i < es.length := hr
    obtain ⟨v', hrun, habs, _⟩ := swap_remove_spec X s es i h hi
    have hl : es.getLast? = some (es[es.length - 1]'(by omega)) := by
      rw [List.getLast?_eq_getElem?]; simp [List.getElem?_eq_getElem (show es.length - 1 < es.length by omega)]
    refine .inl ⟨{ s with v := v' }, ?_, ?_⟩
    · simp only [POp.run, VM.bind_run, hrun, POp.spec, VM.pure_run]
      simp [List.getElem?_eq_getElem hi]
    · simp only [POp.spec, hl]; exact habs
  | retain f =>
    obtain ⟨s', rej, hrun, habs, _⟩ := retain_spec X hq f s es h
    exact .inl ⟨s', by simp only [POp.run, VM.bind_run, hrun]; rfl, habs⟩

/-- run a sequence; stop at the first operation that does not return -/
def runOps (X : Ctx) : List POp → St → List (Option Elem) → (Except Panic (List (Option Elem))) × St
  | [], s, outs => (.ok outs, s)
  | op :: rest, s, outs =>
    match op.run X s with
    | (.ok o, s') => runOps X rest s' (outs ++ [o])
    | (.error p, s') => (.error p, s')

def specOuts : List POp → List Elem → List (Option Elem) → List (Option Elem) × List Elem
  | [], es, outs => (outs, es)
  | op :: rest, es, outs => specOuts rest (op.spec es).1 (outs ++ [(op.spec es).2])

/-- every operation of the sequence is within the documented limits for the contents the
    specification has at that point -/
def allInRange : List POp → List Elem → Prop
  | [], _ => True
  | op :: rest, es => op.inRange es ∧ allInRange rest (op.spec es).1

theorem C01_refines_vec_partial (X : Ctx) (hq : ∀ k, X.o.panicAt k = false) (ops : List POp) (s : St) (es : List Elem) (outs : List (Option Elem))
    (h : Abs X s.v es) (hr : allInRange ops es) :
    (∃ s', runOps X ops s outs = (.ok (specOuts ops es outs).1, s') ∧ Abs X s'.v (specOuts ops es outs).2) ∨
    (∃ p s', runOps X ops s outs = (.error p, s') ∧ Panic.benign p = true ∧ ∃ es', Abs X s'.v es') := by
  induction ops generalizing s es outs with
  | nil => exact .inl ⟨s, rfl, h⟩
  | cons op rest ih =>
    rcases POp.refines X hq op s es h hr.1 with ⟨s', hrun, habs⟩ | ⟨p, s', hrun, hp, hv⟩
    · simp only [runOps, hrun, specOuts]
      exact ih s' _ _ habs hr.2
    · simp only [runOps, hrun]
      exact .inr ⟨p, s', rfl, hp, es, by rw [hv]; exact h⟩

/-- non-vacuity: the never-allocated vector is well formed, so the theorem applies to every history
    that starts from `new()` -/
example (X : Ctx) (hz : 0 < X.c.elemSize) (sys : Sys) : Abs X ({ sys := sys, v := {} } : St).v [] :=
  Abs.sentinel_abs X hz

end MV.Props

#print axioms MV.Props.POp.refines
#print axioms MV.Props.C01_refines_vec_partial

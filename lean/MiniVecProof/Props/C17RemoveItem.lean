import MiniVecProof.Proofs.MemLoop
import MiniVecProof.Proofs.MemMove
/-
  C17 / C01 — `remove_item` with an ARBITRARY equality (`X.o.eqScript` answers each `PartialEq::eq`
  call however it likes): the first element the relation calls equal to the probe is removed and
  returned, the others keep their order; if it never says so, `None` and the vector is untouched.
  Whatever the relation answers, the vector stays well formed and holds only its own live elements.
-/
namespace MV.Props
open MV MV.Gen MV.GM VM

theorem eqElem_run (X : Ctx) (hq : ∀ k, X.o.panicAt k = false) (a b : Elem) (s : St) :
    ∃ r s', Vec.eqElem X a b s = (.ok r, s') ∧ s'.v = s.v ∧ s'.sys.tr = s.sys.tr := by
  simp only [Vec.eqElem, VM.callback, hq, Bool.false_eq_true, if_false]
  exact ⟨_, _, rfl, rfl, rfl⟩

theorem remove_item_go (X : Ctx) (hq : ∀ k, X.o.panicAt k = false) (probe : Elem) (es : List Elem) :
    ∀ (fuel i : Nat) (s : St), Abs X s.v es → i + fuel = es.length →
    (∃ j s', j < es.length ∧ Vec.remove_item.go X probe fuel i s = (.ok (es[j]?), s') ∧ Abs X s'.v (es.eraseIdx j) ∧
        s'.sys.tr = s.sys.tr) ∨
    (∃ s', Vec.remove_item.go X probe fuel i s = (.ok none, s') ∧ s'.v = s.v ∧ s'.sys.tr = s.sys.tr) := by
  intro fuel
  induction fuel with
  | zero =>
    intro i s h hi
    exact .inr ⟨s, by simp [Vec.remove_item.go], rfl, rfl⟩
  | succ fuel ih =>
    intro i s h hi
    have hlt : i < es.length := by omega
    have h1 := readOf_spec X s.v es h i hlt s
    obtain ⟨r, s1, he, hv1, htr1⟩ := eqElem_run X hq es[i] probe s
    unfold Vec.remove_item.go
    simp only [VM.bind_run, VM.getV_run, h1, he]
    cases r with
    | true =>
      simp only [if_true]
      obtain ⟨v', hrun, habs, _, _⟩ := remove_spec X s1 es i (by rw [hv1]; exact h) hlt
      simp only [VM.bind_run, hrun, VM.pure_run]
      refine .inl ⟨i, { s1 with v := v' }, hlt, by simp [List.getElem?_eq_getElem hlt], habs, htr1⟩
    | false =>
      simp only [Bool.false_eq_true, if_false]
      rcases ih (i + 1) s1 (by rw [hv1]; exact h) (by omega) with ⟨j, s', hj, hrun, habs, htr⟩ | ⟨s', hrun, hv, htr⟩
      · exact .inl ⟨j, s', hj, hrun, habs, by rw [htr, htr1]⟩
      · exact .inr ⟨s', hrun, by rw [hv, hv1], by rw [htr, htr1]⟩

/-- (C17/C01) `remove_item` under an arbitrary equality script -/
theorem C17_remove_item_partial (X : Ctx) (hq : ∀ k, X.o.panicAt k = false) (probe : Elem) (s : St) (es : List Elem)
    (h : Abs X s.v es) :
    (∃ j s', j < es.length ∧ Vec.remove_item X probe s = (.ok (es[j]?), s') ∧ Abs X s'.v (es.eraseIdx j) ∧
        s'.sys.tr = s.sys.tr) ∨
    (∃ s', Vec.remove_item X probe s = (.ok none, s') ∧ s'.v = s.v ∧ s'.sys.tr = s.sys.tr) := by
  have hL : (hsOf s.v s.sys.allocIdx).L = es.length := h.len_eq
  have h1 : VM.lift X (remove_item_pre X.env) s = (.ok (.cont ⟨es.length⟩), s) :=
    lift_read X _ s _ (by unfold remove_item_pre; simp only [len_run, GM.bind_run, hL, GM.pure_run])
  unfold Vec.remove_item
  simp only [VM.bind_run, h1]
  exact remove_item_go X hq probe es es.length 0 s h (by omega)

end MV.Props

#print axioms MV.Props.C17_remove_item_partial

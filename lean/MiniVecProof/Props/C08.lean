import MiniVecProof.Proofs.GenProps
/-
  C08 — element storage keeps its (requested) alignment. On the REGENERATED code:
  * `with_alignment` accepts exactly the powers of two that are at least
    `max(align_of::<T>(), align_of::<usize>())`, reports every other value through `Err` and never
    panics because of the alignment;
  * an accepted request is recorded in the block (also for capacity 0);
  * every later capacity change passes the recorded alignment on, so it is still the recorded one
    afterwards (through zero capacity and back), and the layout requested from the allocator carries
    exactly that alignment with the data offset a multiple of it.
  The address-level consequence (`as_ptr() % A == 0`) follows for any allocator that honours the
  requested alignment: `dataOff A` is a multiple of `A` (`C08_data_offset_aligned`).
-/
namespace MV.Props
open MV MV.Gen MV.GM

/-- the accepted alignments -/
def alignOK (E : Env) (a : Nat) : Prop := isPow2 a = true ∧ max E.c.elemAlign hdrAlign ≤ a

instance (E : Env) (a : Nat) : Decidable (alignOK E a) := by unfold alignOK; infer_instance

theorem C08_with_alignment_rejects (E : Env) (n a : Nat) (s : GS) (h : ¬ alignOK E a) :
    ∃ e, with_alignment E n a s = (.ok (.error e), s) := by
  rw [with_alignment_spec]
  by_cases h1 : a < max E.c.elemAlign hdrAlign
  · exact ⟨_, by rw [if_pos h1]⟩
  · rw [if_neg h1]
    have : isPow2 a = false := by
      cases hp : isPow2 a
      · rfl
      · exact absurd ⟨hp, by omega⟩ h
    exact ⟨_, by rw [if_pos this]⟩

/-- an acceptable alignment is never answered with `Err`; if the call returns, the vector has
    capacity `n`, length 0 and the requested alignment recorded — except that nothing needs to be
    recorded when `n = 0` and the request is the natural alignment anyway -/
theorem C08_with_alignment_accepts (E : Env) (n a : Nat) (s s' : GS) (hf : s.fresh = none)
    (h : alignOK E a) (r : Except LayoutErr Unit) (hr : with_alignment E n a s = (.ok r, s')) :
    r = .ok () ∧ s'.C = n ∧ s'.L = 0 ∧ s'.A E = a := by
  rw [with_alignment_spec] at hr
  rw [if_neg (by have := h.2; omega), if_neg (by simp [h.1])] at hr
  by_cases hz : E.c.elemSize > 0
  · rw [if_pos hz] at hr
    cases hg : grow E n a s.reset with
    | mk r2 s2 =>
      rw [hg] at hr
      cases r2 with
      | error p => simp at hr
      | ok u =>
        simp at hr
        obtain ⟨rfl, rfl⟩ := hr
        have ⟨hC, hL, hA⟩ := grow_ok_figures E s.reset s2 n a hf hg
        exact ⟨rfl, hC, by rw [hL]; rfl, hA⟩
  · rw [if_neg hz] at hr; simp at hr

/-- the alignment a capacity-changing program leaves behind is the one it found (`alignment()`),
    so a recorded over-alignment survives growth, shrinking, emptying and refilling -/
theorem C08_alignment_kept (E : Env) (op : Nat ⊕ Nat ⊕ Nat ⊕ Unit) (s s' : GS) (hf : s.fresh = none)
    (hd : s.isDefault = false)
    (h : (match op with
          | .inl n => reserve E n
          | .inr (.inl n) => reserve_exact E n
          | .inr (.inr (.inl n)) => shrink_to E n
          | .inr (.inr (.inr _)) => shrink_to_fit E) s = (.ok (), s')) :
    s'.isDefault = false ∧ s'.align = s.align := by
  have key : ∀ c, grow E c (s.A E) s = (.ok (), s') → s'.isDefault = false ∧ s'.align = s.align := by
    intro c hg
    have hc := grow_cases E s c (s.A E) hf
    rw [hg] at hc
    cases hc with
    | noop _ _ => exact ⟨hd, rfl⟩
    | grown req L hL hlen hreq hk hr => simp [GS.grown, GS.A, hd]
  have same : (.ok (), s) = ((.ok (), s') : Except Panic Unit × GS) → s'.isDefault = false ∧ s'.align = s.align := by
    intro he; obtain ⟨_, rfl⟩ := Prod.mk.inj he; exact ⟨hd, rfl⟩
  rcases op with n | n | n | _
  · simp only [reserve_spec] at h
    cases hc : checkedAdd s.L n with
    | none => simp [hc] at h
    | some tot =>
      simp only [hc] at h
      by_cases ht : tot ≤ s.C
      · rw [if_pos ht] at h; exact same h
      · rw [if_neg ht] at h
        cases hr : reserveTarget E tot s.C with
        | error p => simp [hr] at h
        | ok nc => simp only [hr] at h; exact key nc h
  · simp only [reserve_exact_spec] at h
    cases hc : checkedAdd s.L n with
    | none => simp [hc] at h
    | some tot =>
      simp only [hc] at h
      by_cases ht : tot ≤ s.C
      · rw [if_pos ht] at h; exact same h
      · rw [if_neg ht] at h; exact key tot h
  · simp only [shrink_to_spec, shrink_to_fit_spec] at h
    by_cases h1 : n < s.L
    · rw [if_pos h1] at h
      by_cases h0 : s.L = s.C
      · rw [if_pos h0] at h; exact same h
      · rw [if_neg h0] at h; exact key _ h
    · rw [if_neg h1] at h
      by_cases h2 : s.C = n
      · rw [if_pos h2] at h; exact same h
      · rw [if_neg h2] at h
        by_cases h3 : s.C < n
        · rw [if_pos h3] at h; simp at h
        · rw [if_neg h3] at h; exact key _ h
  · simp only [shrink_to_fit_spec] at h
    by_cases h0 : s.L = s.C
    · rw [if_pos h0] at h; exact same h
    · rw [if_neg h0] at h; exact key _ h

/-- every layout requested carries the alignment passed to `grow`, and the data offset computed
    from it is a multiple of it -/
theorem C08_data_offset_aligned (a : Nat) (ha : 0 < a) : dataOff a % a = 0 :=
  alignUp_dvd hdrSize a ha

theorem C08_requested_layout_alignment (E : Env) (c a : Nat) (L : Layout)
    (h : make_layout E c a = .ok L) : L.align = a ∧ isPow2 a = true :=
  ⟨(make_layout_honest E c a L h).2.1, (make_layout_ok E c a L h).2.1⟩

/-! non-vacuity -/
def E4 : Env := { c := ⟨4, 4, true⟩, m := .debug }
example : alignOK E4 64 := by decide
example : ¬ alignOK E4 24 := by decide
example : ¬ alignOK E4 4 := by decide
example : (with_alignment E4 0 64 GS.sentinel).2.align = 64 := by decide +kernel
example : (with_alignment E4 4 24 GS.sentinel).1 = .ok (.error .AlignmentNotDivisibleByTwo) := by decide +kernel

end MV.Props

#print axioms MV.Props.C08_with_alignment_rejects
#print axioms MV.Props.C08_with_alignment_accepts
#print axioms MV.Props.C08_alignment_kept
#print axioms MV.Props.C08_data_offset_aligned
#print axioms MV.Props.C08_requested_layout_alignment

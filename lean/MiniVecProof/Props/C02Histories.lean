import MiniVecProof.Props.C02
import MiniVecProof.Props.C01Histories
import MiniVecProof.Props.C10IntoIter
/-
  C02 over histories with iterators (PARTIAL: the operations of `HOp` that neither clone nor splice).

  For EVERY finite history over the twelve base operations, `extend` (any source iterator), `dedup` / `dedup_by` /
  `dedup_by_key` (any relation), `drain(range)` with any interleaving of front / back steps before it is dropped and
  `drain_filter(pred)` (any predicate) with any number of steps before it is dropped — no callback panicking, the
  history running to its end, the vector dropped afterwards: the destructor events added to the trace are one `drop`
  per element of a list `dropped`, and  dropped ++ (everything yielded or returned)  is a rearrangement of
  (starting contents) ++ (everything handed in).  With distinct identities: nothing is destroyed twice, nothing that
  was handed back is destroyed, nothing is leaked (`C02_no_double_drop`, `C02_no_leak`).
  Not in this theorem: the cloning operations (`extend_from_slice`, `resize`, `extend_from_within`: their `clone`
  events are accounted for by the correspondence's ledger), `resize_with`, `remove_item` and `splice`.
-/
namespace MV.Props
open MV MV.Gen MV.GM VM

/-- the operations whose destructor runs are accounted for here -/
def HOp.counted : HOp → Bool
  | .base _ | .extend _ | .dedup | .dedup_by _ | .dedup_by_key _ | .drain _ _ _ | .drain_filter _ _ => true
  | _ => false

/-- the elements an operation hands back to the caller -/
def yielded (o : HOut) : List Elem := o.filterMap (·.1)

/-- what the caller hands in: the pushed / inserted element, the elements the source iterator produces -/
def HOp.givenOK : HOp → List Elem → Prop
  | .base op, g => g = op.given
  | .extend it, g => g.map (·.val) = takeSome it
  | _, g => g = []

theorem Quiet.callback (X : Ctx) : Quiet (VM.callback X) := by
  intro s a s' h
  unfold VM.callback at h
  simp only at h
  split at h
  · simp at h
  · simp only [Prod.mk.injEq] at h
    rw [← h.2]

theorem Quiet.mkElem (v : Int) : Quiet (VM.mkElem v) := by
  intro s a s' h
  have : VM.mkElem v s = (.ok ⟨s.sys.nextId, v⟩, { s with sys := { s.sys with nextId := s.sys.nextId + 1 } }) := rfl
  rw [this] at h
  simp only [Prod.mk.injEq] at h
  rw [← h.2]

theorem Quiet.forIter (X : Ctx) (fuel : Nat) (it : Vec.IterScript) : Quiet (Vec.forIter X (Vec.push X) fuel it) := by
  induction fuel generalizing it with
  | zero => unfold Vec.forIter; exact Quiet.pure _
  | succ n ih =>
    unfold Vec.forIter
    refine Quiet.bind (Quiet.callback X) (fun _ => ?_)
    cases it with
    | nil => exact Quiet.pure _
    | cons o rest =>
      cases o with
      | none => exact Quiet.pure _
      | some v =>
        exact Quiet.bind (Quiet.mkElem v) (fun e => Quiet.bind (Quiet.push X e) (fun _ => ih rest))

theorem Quiet.extend (X : Ctx) (it : Vec.IterScript) : Quiet (Vec.extend X it) := by
  unfold Vec.extend
  exact Quiet.bind (Quiet.forIter X _ it) (fun _ => Quiet.pure _)

/-- everything the list iterator yielded, front yields and back yields together -/
theorem yielded_specSteps (steps : List DStep) (w : List Elem) :
    (yielded (specSteps steps w).1).Perm
      (frontsOf steps (specSteps steps w).1 ++ backsOf steps (specSteps steps w).1) := by
  induction steps generalizing w with
  | nil => simp [specSteps, frontsOf, backsOf, yielded]
  | cons stp rest ih =>
    cases stp with
    | front =>
      cases hh : w.head? with
      | none => simpa [specSteps, frontsOf, backsOf, yielded, hh] using ih w.tail
      | some e =>
        simp only [specSteps, frontsOf, backsOf, yielded, hh, List.filterMap_cons, List.cons_append]
        exact (ih w.tail).cons e
    | back =>
      cases hh : w.getLast? with
      | none => simpa [specSteps, frontsOf, backsOf, yielded, hh] using ih w.dropLast
      | some e =>
        simp only [specSteps, frontsOf, backsOf, yielded, hh, List.filterMap_cons]
        exact ((ih w.dropLast).cons e).trans List.perm_middle.symm

theorem range_split (es : List Elem) (st en : Nat) (h1 : st ≤ en) :
    es = es.take st ++ (es.take en).drop st ++ es.drop en := by
  have : es.take st = (es.take en).take st := by rw [List.take_take, Nat.min_eq_left h1]
  rw [this, List.take_append_drop, List.take_append_drop]

/-- **one counted operation conserves elements and destroys exactly what it must** -/
theorem HOp.own (X : Ctx) (hq : ∀ k, X.o.panicAt k = false) (op : HOp) (hc : op.counted = true) (s : St) (es : List Elem)
    (h : Abs X s.v es) (hr : op.inRange es) (o : HOut) (s' : St) (hrun : op.run X s = (.ok o, s')) :
    ∃ es' d g, Abs X s'.v es' ∧ op.post es es' o ∧ op.givenOK g ∧
      ownEvents s'.sys.tr = ownEvents s.sys.tr ++ dropEvents X d ∧ (d ++ es' ++ yielded o).Perm (es ++ g) := by
  have hnil : dropEvents X [] = [] := by simp [dropEvents]
  cases op with
  | base op =>
    rcases POp.refines X hq op s es h hr with ⟨s1, hrun1, habs⟩ | ⟨p, s1, hrun1, _, _⟩
    · simp only [HOp.run, VM.bind_run, hrun1, VM.pure_run, Prod.mk.injEq, Except.ok.injEq] at hrun
      obtain ⟨ho, hs⟩ := hrun
      subst hs; subst ho
      obtain ⟨d, hdp, hown⟩ := POp.own X hq op s es h hr _ s1 hrun1
      refine ⟨_, d, op.given, habs, ⟨rfl, rfl⟩, rfl, hown, ?_⟩
      have hcons := POp.conserves op es hr
      have hy : yielded [((op.spec es).2, 0)] = (op.spec es).2.toList := by
        cases (op.spec es).2 <;> simp [yielded]
      rw [hy]
      rw [List.perm_iff_count] at hcons hdp ⊢
      intro a
      have := hcons a
      have := hdp a
      simp only [List.count_append] at *
      omega
    · simp [HOp.run, VM.bind_run, hrun1] at hrun
  | extend it =>
    rcases C17_extend_partial X hq it s es h with ⟨s1, new, hrun1, habs, hv⟩ | ⟨p, s1, acc, hrun1, _, _⟩
    · have hq' := Quiet.extend X it s () s1 hrun1
      simp only [HOp.run, VM.bind_run, hrun1, VM.pure_run, Prod.mk.injEq, Except.ok.injEq] at hrun
      obtain ⟨ho, hs⟩ := hrun
      subst hs; subst ho
      refine ⟨es ++ new, [], new, habs, ⟨new, rfl, hv, rfl⟩, hv, by rw [hnil, List.append_nil]; exact hq', ?_⟩
      simp [yielded]
    · simp [HOp.run, VM.bind_run, hrun1] at hrun
  | dedup =>
    obtain ⟨s1, kept, rej, hrun1, habs, hsub, hperm, hown, _⟩ := (C17_dedup_partial X hq s es h).1
    simp only [HOp.run, VM.bind_run, hrun1, VM.pure_run, Prod.mk.injEq, Except.ok.injEq] at hrun
    obtain ⟨ho, hs⟩ := hrun
    subst hs; subst ho
    refine ⟨kept, rej, [], habs, ⟨hsub, rfl⟩, rfl, hown, ?_⟩
    simpa [yielded] using (List.perm_append_comm.trans hperm)
  | dedup_by f =>
    obtain ⟨s1, kept, rej, hrun1, habs, hsub, hperm, hown, _⟩ := (C17_dedup_partial X hq s es h).2.1 f
    simp only [HOp.run, VM.bind_run, hrun1, VM.pure_run, Prod.mk.injEq, Except.ok.injEq] at hrun
    obtain ⟨ho, hs⟩ := hrun
    subst hs; subst ho
    refine ⟨kept, rej, [], habs, ⟨hsub, rfl⟩, rfl, hown, ?_⟩
    simpa [yielded] using (List.perm_append_comm.trans hperm)
  | dedup_by_key key =>
    obtain ⟨s1, kept, rej, hrun1, habs, hsub, hperm, hown, _⟩ := (C17_dedup_partial X hq s es h).2.2 key
    simp only [HOp.run, VM.bind_run, hrun1, VM.pure_run, Prod.mk.injEq, Except.ok.injEq] at hrun
    obtain ⟨ho, hs⟩ := hrun
    subst hs; subst ho
    refine ⟨kept, rej, [], habs, ⟨hsub, rfl⟩, rfl, hown, ?_⟩
    simpa [yielded] using (List.perm_append_comm.trans hperm)
  | drain b1 b2 steps =>
    obtain ⟨st, en, hres⟩ := hr
    obtain ⟨_, _, hse, _⟩ := (C11_resolve_iff b1 b2 es.length st en).mp hres
    obtain ⟨d, s1, d', v', hcr, hsys, hsteps, hdrop, habs, _⟩ := C10_drain_partial X hq s es b1 b2 st en h hres steps
    simp only [HOp.run, runDrainOp, hcr, hsteps, hdrop, Prod.mk.injEq, Except.ok.injEq] at hrun
    obtain ⟨ho, hs⟩ := hrun
    subst hs; subst ho
    refine ⟨_, (specSteps steps ((es.take en).drop st)).2, [], habs, ⟨st, en, hres, rfl, rfl⟩, rfl, ?_, ?_⟩
    · show ownEvents (afterDrops X s1 _).sys.tr = _
      rw [afterDrops_own, hsys]
    · have hp := specSteps_partition steps ((es.take en).drop st)
      have hy := yielded_specSteps steps ((es.take en).drop st)
      have hsplit := range_split es st en hse
      rw [List.perm_iff_count] at hy ⊢
      intro a
      have h1 := congrArg (List.count a) hp
      have h2 := hy a
      have h3 := congrArg (List.count a) hsplit
      simp only [List.count_append, List.count_reverse, List.append_nil] at *
      omega
  | drain_filter pred n =>
    cases hd : s.v.isDefault with
    | false =>
      obtain ⟨f0, s0, f1, s1, s2, hcr, _, hsteps, _, hdrop, habs, hown, hacc, _⟩ :=
        C10_drain_filter_partial X hq pred s es h hd n
      simp only [HOp.run, runDrainFilterOp, hcr, hsteps, hdrop, Prod.mk.injEq, Except.ok.injEq] at hrun
      obtain ⟨ho, hs⟩ := hrun
      subst hs; subst ho
      refine ⟨_, _, [], habs, ⟨rfl, .inl (by simp [List.map_map, Function.comp_def])⟩, rfl, hown, ?_⟩
      have hy : yielded ((dfRun pred n 0 es).1.map (fun y => (y, 0))) = (dfRun pred n 0 es).1.filterMap id := by
        simp only [yielded, List.filterMap_map, Function.comp_def]
        rfl
      rw [hy]
      have hkr := kept_rej_perm pred 0 es
      rw [List.perm_iff_count] at hkr ⊢
      intro a
      have h1 := congrArg (List.count a) hacc
      have h2 := hkr a
      simp only [List.count_append, List.append_nil] at *
      omega
    | true =>
      have hes : es = [] := (h.sentinel hd).2
      subst hes
      obtain ⟨f0, hcr, ⟨ys, hsteps, hall⟩, hdrop⟩ := C10_drain_filter_default X pred s h hd n
      simp only [HOp.run, runDrainFilterOp, hcr, hsteps, hdrop, Prod.mk.injEq, Except.ok.injEq] at hrun
      obtain ⟨ho, hs⟩ := hrun
      subst hs; subst ho
      have hy : yielded (ys.map (fun y => (y, 0))) = [] := by
        simp only [yielded, List.filterMap_map, List.filterMap_eq_nil_iff, Function.comp_def]
        intro y hy
        rw [hall y hy]
      refine ⟨[], [], [], h, ⟨by simp [rejFrom], .inr ⟨rfl, ?_⟩⟩, rfl, by rw [hnil, List.append_nil], by rw [hy]; simp⟩
      intro y hy'
      simp only [List.mem_map] at hy'
      obtain ⟨y0, hy0, rfl⟩ := hy'
      exact hall y0 hy0
  | extend_from_slice _ => simp [HOp.counted] at hc
  | resize _ _ => simp [HOp.counted] at hc
  | resize_with _ _ => simp [HOp.counted] at hc
  | remove_item _ => simp [HOp.counted] at hc
  | extend_from_within _ _ => simp [HOp.counted] at hc
  | splice _ _ _ _ => simp [HOp.counted] at hc

/-- what the caller hands in over a whole history -/
def histGiven : List HOp → List Elem → Prop
  | [], G => G = []
  | op :: rest, G => ∃ g G', op.givenOK g ∧ histGiven rest G' ∧ G = g ++ G'

/-- a completed history of counted operations: the destructor events it adds are exactly one per destroyed element,
    and destroyed ++ still inside ++ handed back is a rearrangement of what was there ++ what was handed in -/
theorem history_own_counted (X : Ctx) (hq : ∀ k, X.o.panicAt k = false) (ops : List HOp) (hc : ∀ op ∈ ops, op.counted = true)
    (s : St) (es : List Elem) (h : Abs X s.v es) (hr : histInRange ops es) (outs : List HOut) (s' : St)
    (hrun : runHist X ops s = (.ok outs, s')) :
    ∃ es' D G, Abs X s'.v es' ∧ histPost ops es es' outs ∧ histGiven ops G ∧
      ownEvents s'.sys.tr = ownEvents s.sys.tr ++ dropEvents X D ∧
      (D ++ es' ++ outs.flatMap yielded).Perm (es ++ G) := by
  induction ops generalizing s es outs with
  | nil =>
    simp only [runHist, Prod.mk.injEq, Except.ok.injEq] at hrun
    obtain ⟨ho, hs⟩ := hrun
    subst hs; subst ho
    exact ⟨es, [], [], h, ⟨rfl, rfl⟩, rfl, by simp [dropEvents], by simp⟩
  | cons op rest ih =>
    simp only [runHist] at hrun
    cases h1 : op.run X s with
    | mk r s1 =>
      rw [h1] at hrun
      cases r with
      | error p => simp at hrun
      | ok o =>
        simp only at hrun
        cases h2 : runHist X rest s1 with
        | mk r2 s2 =>
          rw [h2] at hrun
          cases r2 with
          | error p => simp at hrun
          | ok os =>
            simp only [Prod.mk.injEq, Except.ok.injEq] at hrun
            obtain ⟨ho, hs⟩ := hrun
            subst hs; subst ho
            obtain ⟨mid, d1, g1, habs1, hpost1, hg1, hown1, hperm1⟩ :=
              HOp.own X hq op (hc op (by simp)) s es h hr.1 o s1 h1
            obtain ⟨es', D2, G2, habs2, hpost2, hg2, hown2, hperm2⟩ :=
              ih (fun op' hm => hc op' (by simp [hm])) s1 mid habs1 (hr.2 mid o hpost1) os h2
            refine ⟨es', d1 ++ D2, g1 ++ G2, habs2, ⟨mid, o, os, hpost1, hpost2, rfl⟩, ⟨g1, G2, hg1, hg2, rfl⟩, ?_, ?_⟩
            · rw [hown2, hown1, dropEvents_append, List.append_assoc]
            · rw [List.perm_iff_count] at hperm1 hperm2 ⊢
              intro a
              have := hperm1 a
              have := hperm2 a
              simp only [List.count_append, List.flatMap_cons] at *
              omega

/-- **C02 for histories with iterators**: run the history, drop the vector; one destructor event per element of
    `dropped`, and `dropped` together with everything yielded or returned is a rearrangement of the starting contents
    together with everything handed in. The handle ends as the empty sentinel. -/
theorem C02_histories_partial (X : Ctx) (hq : ∀ k, X.o.panicAt k = false) (ops : List HOp)
    (hc : ∀ op ∈ ops, op.counted = true) (s : St) (es : List Elem) (h : Abs X s.v es) (hr : histInRange ops es)
    (outs : List HOut) (s' : St) (hrun : runHist X ops s = (.ok outs, s')) :
    ∃ s'' dropped G, Vec.dropVec X s' = (.ok (), s'') ∧ Abs X s''.v [] ∧ histGiven ops G ∧
      ownEvents s''.sys.tr = ownEvents s.sys.tr ++ dropEvents X dropped ∧
      (dropped ++ outs.flatMap yielded).Perm (es ++ G) := by
  obtain ⟨es', D, G, habs, _, hG, hown, hperm⟩ := history_own_counted X hq ops hc s es h hr outs s' hrun
  obtain ⟨hdef, halloc⟩ := dropVec_spec X hq s' es' habs
  cases hd : s'.v.isDefault with
  | true =>
    have hnil := (habs.sentinel hd).2
    subst hnil
    exact ⟨s', D, G, hdef hd, habs, hG, hown, by simpa using hperm⟩
  | false =>
    obtain ⟨b, _, hdrop⟩ := halloc hd
    refine ⟨_, D ++ es', G, hdrop, Abs.sentinel_abs X h.elem_pos, hG, ?_, hperm⟩
    simp only [ownEvents_append, afterDrops_own, hown, dropEvents_append, List.append_assoc]
    simp [ownEvents, Ev.isOwn]

/-- **… and when the vector is consumed by `into_iter()` instead**: any interleaving of front / back steps of the
    owning iterator, then its drop. The elements it yields are handed back; everything it still holds is destroyed
    exactly once; the block is released (the handle is gone: `isDefault`, no block). -/
theorem C02_histories_into_iter_partial (X : Ctx) (hq : ∀ k, X.o.panicAt k = false) (ops : List HOp)
    (hc : ∀ op ∈ ops, op.counted = true) (s : St) (es : List Elem) (h : Abs X s.v es) (hr : histInRange ops es)
    (outs : List HOut) (s' : St) (hrun : runHist X ops s = (.ok outs, s')) (steps : List DStep) :
    ∃ it it' s1 s2 ys dropped G, IntoIter.create X s' = (.ok it, s') ∧ runInto X steps it s' = (.ok (ys, it'), s1) ∧
      IntoIter.drop X it' s1 = (.ok (), s2) ∧ s2.v.isDefault = true ∧ s2.v.blk = none ∧ histGiven ops G ∧
      ownEvents s2.sys.tr = ownEvents s.sys.tr ++ dropEvents X dropped ∧
      (dropped ++ (outs.flatMap yielded ++ yielded ys)).Perm (es ++ G) := by
  obtain ⟨es', D, G, habs, _, hG, hown, hperm⟩ := history_own_counted X hq ops hc s es h hr outs s' hrun
  obtain ⟨it, it', s1, hcr, hsteps, _, _, s2, hdrop, hdef, hblk, hown2⟩ := C10_into_iter_partial X hq s' es' habs steps
  refine ⟨it, it', s1, s2, _, D ++ (specSteps steps es').2, G, hcr, hsteps, hdrop, hdef, hblk, hG, ?_, ?_⟩
  · rw [hown2, hown, dropEvents_append, List.append_assoc]
  · have hp := specSteps_partition steps es'
    have hy := yielded_specSteps steps es'
    rw [List.perm_iff_count] at hperm hy ⊢
    intro a
    have h1 := congrArg (List.count a) hp
    have h2 := hy a
    have h3 := hperm a
    simp only [List.count_append, List.count_reverse] at *
    omega

/-- non-vacuity: a concrete counted history from `new()` within range, with every kind of operation -/
example : (∀ op ∈ [HOp.base (.push ⟨1, 5⟩), .extend [some 7, none, some 9], .dedup, .drain .unbounded .unbounded [.front],
      .drain_filter (fun _ _ => true) 1], op.counted = true) ∧
    histInRange [.base (.push ⟨1, 5⟩), .extend [some 7, none, some 9], .dedup, .drain .unbounded .unbounded [.front],
      .drain_filter (fun _ _ => true) 1] [] := by
  refine ⟨by simp [HOp.counted], trivial, fun mid o hp => ⟨trivial, fun mid2 o2 hp2 => ⟨trivial, fun mid3 o3 hp3 =>
    ⟨⟨0, mid3.length, ?_⟩, fun _ _ _ => ⟨trivial, fun _ _ _ => trivial⟩⟩⟩⟩⟩
  simp [resolve, startOf, endOf]

end MV.Props

#print axioms MV.Props.HOp.own
#print axioms MV.Props.history_own_counted
#print axioms MV.Props.C02_histories_partial
#print axioms MV.Props.C02_histories_into_iter_partial

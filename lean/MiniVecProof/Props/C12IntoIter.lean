import MiniVecProof.Props.C10IntoIter
import MiniVecProof.Props.C01Loops
import MiniVecProof.Proofs.MemCtor
/-
  C12 (IntoIter) / C01 (`From<&[T]>`) — cloning an `IntoIter` at any point of its consumption gives a
  fresh vector holding value-equal clones of exactly the elements not yet yielded, in order, with its
  own cursor at the start; the original iterator and its vector are untouched.
-/
namespace MV.Props
open MV MV.Gen MV.GM VM

/-- (C01) `MiniVec::from(&[T])` -/
theorem C01_from_slice_partial (X : Ctx) (hq : ∀ k, X.o.panicAt k = false) (hz : 0 < X.c.elemSize)
    (elems : List Elem) (s : St) :
    (∃ o s' new, Vec.from_slice X elems s = (.ok o, s') ∧ s'.v = s.v ∧ Abs X o new ∧
        new.map (·.val) = elems.map (·.val)) ∨
    (∃ p s', Vec.from_slice X elems s = (.error p, s') ∧ Panic.benign p = true ∧ s'.v = s.v) := by
  have hround : RoundSpec X elems.length (fun i e => (elems[i]?).map (·.val) = some e.val) (fun i => do
      let e ← VM.cloneElem X (elems.getD i default)
      Vec.push X e) := by
    intro i s1 acc hi habs
    obtain ⟨s2, hc, hv⟩ := cloneElem_quiet X hq (elems.getD i default) s1
    have hp := push_spec X s2 acc ⟨s1.sys.nextId, (elems.getD i default).val⟩ (by rw [hv]; exact habs)
    simp only [VM.bind_run, hc]
    generalize Vec.push X ⟨s1.sys.nextId, (elems.getD i default).val⟩ s2 = out at hp
    cases hp with
    | pushed s' habs' _ =>
      refine .inl ⟨_, s', rfl, habs', ?_⟩
      simp [List.getD_eq_getElem?_getD, List.getElem?_eq_getElem hi]
    | stopped p s' hv' hb => exact .inr ⟨p, s', rfl, hb, by rw [hv', hv]⟩
  have hx : (∃ a s', (do
        VM.lift X (with_capacity X.env elems.length)
        VM.forN elems.length (fun i => do
          let e ← VM.cloneElem X (elems.getD i default)
          Vec.push X e) : VM Unit) { s with v := {} } = (.ok a, s') ∧
        ∃ new, Abs X s'.v new ∧ new.map (·.val) = elems.map (·.val)) ∨
      (∃ p s' acc, (do
        VM.lift X (with_capacity X.env elems.length)
        VM.forN elems.length (fun i => do
          let e ← VM.cloneElem X (elems.getD i default)
          Vec.push X e) : VM Unit) { s with v := {} } = (.error p, s') ∧ Panic.benign p = true ∧ Abs X s'.v acc) := by
    have hwc := with_capacity_mem X hz { s with v := {} } rfl elems.length
    have habs0 : Abs X ({ s with v := {} } : St).v [] := Abs.sentinel_abs X hz
    simp only [VM.bind_run]
    generalize VM.lift X (with_capacity X.env elems.length) { s with v := {} } = out at hwc
    have loop : ∀ s1 : St, Abs X s1.v [] →
        (∃ a s', VM.forN elems.length (fun i => do
          let e ← VM.cloneElem X (elems.getD i default)
          Vec.push X e) s1 = (.ok a, s') ∧ ∃ new, Abs X s'.v new ∧ new.map (·.val) = elems.map (·.val)) ∨
        (∃ p s' acc, VM.forN elems.length (fun i => do
          let e ← VM.cloneElem X (elems.getD i default)
          Vec.push X e) s1 = (.error p, s') ∧ Panic.benign p = true ∧ Abs X s'.v acc) := by
      intro s1 h1
      rcases forN_spec X elems.length _ _ hround s1 [] h1 with ⟨l, s2, hrun, habs2, hl, hP⟩ | ⟨p, s2, acc, hrun, hb, habs2⟩
      · refine .inl ⟨(), s2, hrun, l, by simpa using habs2, ?_⟩
        apply List.ext_getElem?
        intro j
        simp only [List.getElem?_map]
        by_cases hj : j < l.length
        · have := hP j hj
          rw [List.getElem?_eq_getElem hj]
          simp only [Option.map_some]
          rw [← this]
        · rw [List.getElem?_eq_none (by omega), List.getElem?_eq_none (by omega)]
      · exact .inr ⟨p, s2, acc, hrun, hb, habs2⟩
    cases hwc with
    | same => exact loop _ habs0
    | stopped p s' hv hp _ => exact .inr ⟨p, s', [], rfl, hp, by rw [hv]; exact habs0⟩
    | grown s' habs _ _ _ _ => exact loop s' habs
  unfold Vec.from_slice
  simp only [VM.bind_run]
  rcases withLocal_spec X hq _ s (fun _ s' => ∃ new, Abs X s'.v new ∧ new.map (·.val) = elems.map (·.val)) hx with
    ⟨a, s', hrun, new, habs, hvals⟩ | ⟨p, s', hrun, hb, hv⟩
  · rw [hrun]
    exact .inl ⟨s'.v, _, new, rfl, rfl, habs, hvals⟩
  · rw [hrun]
    exact .inr ⟨p, s', rfl, hb, hv⟩

/-- (C12) `Clone for IntoIter` after any number of front/back steps (`IntoInv` is what those steps preserve) -/
theorem C12_into_iter_clone_partial (X : Ctx) (hq : ∀ k, X.o.panicAt k = false) (s : St) (es : List Elem)
    (it : IntoIterSt) (h : IntoInv X s.v es it) :
    (∃ o it' s' new, IntoIter.clone X it s = (.ok (o, it'), s') ∧ s'.v = s.v ∧ Abs X o new ∧
        new.map (·.val) = (iwindow it s.v.len es).map (·.val) ∧ it'.pos = 0 ∧
        (o.isDefault = false → IntoInv X o new it' ∧ o.len = new.length)) ∨
    (∃ p s', IntoIter.clone X it s = (.error p, s') ∧ Panic.benign p = true ∧ s'.v = s.v) := by
  have hz := h.full.elem_pos
  unfold IntoIter.clone
  simp only [VM.bind_run, into_as_slice h]
  rcases C01_from_slice_partial X hq hz (iwindow it s.v.len es) s with ⟨o, s1, new, hrun, hv, habs, hvals⟩ | ⟨p, s1, hrun, hb, hv⟩
  · rw [hrun]
    simp only
    cases hd : o.isDefault with
    | true =>
      have e1 : VM.lift X GM.isDefault { s1 with v := o } = (.ok true, { s1 with v := o }) := by
        rw [lift_isDefault]; simp [hd]
      have hc : IntoIter.create X { s1 with v := o } = (.ok { ptr := .null, pos := 0 }, { s1 with v := o }) := by
        unfold IntoIter.create; simp only [VM.bind_run, e1, if_true, VM.pure_run]
      rw [onVec_ok o (IntoIter.create X) s1 _ _ hc]
      refine .inl ⟨o, _, _, new, rfl, hv, habs, hvals, rfl, fun hx => by simp [hd] at hx⟩
    | false =>
      obtain ⟨it', hc, hp, hinv, hlen⟩ := into_create_alloc X { s1 with v := o } new habs hd
      rw [onVec_ok o (IntoIter.create X) s1 _ _ hc]
      exact .inl ⟨o, it', _, new, rfl, hv, habs, hvals, hp, fun _ => ⟨hinv, hlen⟩⟩
  · rw [hrun]
    exact .inr ⟨p, s1, rfl, hb, hv⟩

end MV.Props

#print axioms MV.Props.C01_from_slice_partial
#print axioms MV.Props.C12_into_iter_clone_partial

import MiniVecProof.Proofs.GenProps
/-
  C07 — capacity is honest, obeys the reservation contract, and storage is stable.
  Part (ii) of the design (the reservation contract) is proved here on the REGENERATED decision
  programs, for every state and argument. Parts (i), (iii), (iv) (block really has room, storage
  stability of the element operations, O(log n) growth) are proved in `Props/C07Mem.lean` on the
  memory model for the operations listed there.
-/
namespace MV.Props
open MV MV.Gen MV.GM

/-- `reserve(n)`: on return `capacity() ≥ len() + n`, the length is unchanged -/
theorem C07_reserve (E : Env) (n : Nat) (s s' : GS) (hf : s.fresh = none)
    (h : reserve E n s = (.ok (), s')) : s'.C ≥ s'.L + n ∧ s'.L = s.L ∧ s'.C ≥ s.C := by
  rw [reserve_spec] at h
  cases hc : checkedAdd s.L n with
  | none => simp [hc] at h
  | some tot =>
    have htot : tot = s.L + n := by unfold checkedAdd at hc; split at hc <;> simp at hc; omega
    simp only [hc] at h
    by_cases ht : tot ≤ s.C
    · simp only [ht, if_true] at h
      obtain ⟨_, rfl⟩ := Prod.mk.inj h
      exact ⟨by omega, rfl, Nat.le_refl _⟩
    · simp only [ht, if_false] at h
      cases hr : reserveTarget E tot s.C with
      | error p => simp [hr] at h
      | ok nc =>
        simp only [hr] at h
        have ⟨h1, h2⟩ := reserveTarget_ok E tot s.C nc hr
        have ⟨hC, hL, _⟩ := grow_ok_figures E s s' nc _ hf h
        omega

/-- `reserve_exact(n)`: exactly `len + n` when it has to grow, otherwise untouched -/
theorem C07_reserve_exact (E : Env) (n : Nat) (s s' : GS) (hf : s.fresh = none)
    (h : reserve_exact E n s = (.ok (), s')) :
    s'.L = s.L ∧ (if s.L + n ≤ s.C then s' = s else s'.C = s.L + n) := by
  rw [reserve_exact_spec] at h
  cases hc : checkedAdd s.L n with
  | none => simp [hc] at h
  | some tot =>
    have htot : tot = s.L + n := by unfold checkedAdd at hc; split at hc <;> simp at hc; omega
    simp only [hc] at h
    subst htot
    by_cases ht : s.L + n ≤ s.C
    · simp only [ht, if_true] at h ⊢
      obtain ⟨_, rfl⟩ := Prod.mk.inj h
      exact ⟨rfl, rfl⟩
    · simp only [ht, if_false] at h ⊢
      have ⟨hC, hL, _⟩ := grow_ok_figures E s s' _ _ hf h
      exact ⟨hL, hC⟩

/-- `with_capacity(n)`: capacity exactly `n` (nothing allocated for `n = 0`), length 0 -/
theorem C07_with_capacity (E : Env) (n : Nat) (s s' : GS) (hf : s.fresh = none)
    (h : with_capacity E n s = (.ok (), s')) : s'.C = n ∧ s'.L = 0 := by
  rw [with_capacity_spec] at h
  by_cases hz : E.c.elemSize > 0
  · simp only [hz, if_true] at h
    have hf0 : s.reset.fresh = none := hf
    have hL0 : s.reset.L = 0 := rfl
    have hC0 : s.reset.C = 0 := rfl
    have := C07_reserve_exact E n s.reset s' hf0 h
    rw [hL0, hC0] at this
    by_cases hn : 0 + n ≤ 0
    · simp only [hn, if_true] at this
      obtain ⟨_, rfl⟩ := this
      exact ⟨by rw [hC0]; omega, hL0⟩
    · simp only [hn, if_false] at this
      exact ⟨by omega, by omega⟩
  · simp [hz] at h

/-- `shrink_to_fit`: capacity equals the length afterwards -/
theorem C07_shrink_to_fit (E : Env) (s s' : GS) (hf : s.fresh = none)
    (h : shrink_to_fit E s = (.ok (), s')) : s'.C = s'.L ∧ s'.L = s.L := by
  rw [shrink_to_fit_spec] at h
  by_cases hc : s.L = s.C
  · simp only [hc, if_true] at h
    obtain ⟨_, rfl⟩ := Prod.mk.inj h
    exact ⟨hc.symm, rfl⟩
  · simp only [hc, if_false] at h
    have ⟨hC, hL, _⟩ := grow_ok_figures E s s' _ _ hf h
    exact ⟨by omega, hL⟩

/-- `shrink_to(m)`: never raises the capacity, never takes it below `max(len, m)` -/
theorem C07_shrink_to (E : Env) (m : Nat) (s s' : GS) (hf : s.fresh = none) (hlc : s.L ≤ s.C)
    (h : shrink_to E m s = (.ok (), s')) : s'.C ≤ s.C ∧ max s'.L m ≤ s'.C ∨ (m < s.L ∧ s'.C = s.L) := by
  rw [shrink_to_spec] at h
  by_cases h1 : m < s.L
  · simp only [h1, if_true] at h
    have := C07_shrink_to_fit E s s' hf h
    exact .inr ⟨h1, by omega⟩
  · simp only [h1, if_false] at h
    by_cases h2 : s.C = m
    · simp only [h2, if_true] at h
      obtain ⟨_, rfl⟩ := Prod.mk.inj h
      exact .inl ⟨Nat.le_refl _, by omega⟩
    · simp only [h2, if_false] at h
      by_cases h3 : s.C < m
      · simp [h3] at h
      · simp only [h3, if_false] at h
        have ⟨hC, hL, _⟩ := grow_ok_figures E s s' _ _ hf h
        exact .inl ⟨by omega, by omega⟩

/-- growth policy: the first allocation is 8 / 4 / 1 elements by element size, then doubling -/
theorem C07_growth_policy (E : Env) (cap r : Nat) (h : next_capacity E cap = .ok r) :
    r = (if cap = 0 then (if E.c.elemSize = 1 then 8 else if 2 ≤ E.c.elemSize ∧ E.c.elemSize ≤ 1024 then 4 else 1)
         else 2 * cap) := by
  rw [next_capacity_eq] at h
  split at h <;> simp at h
  exact h.symm

/-- `k` successive growths -/
def growN (c : Cfg) : Nat → Nat → Nat
  | 0, x => x
  | k + 1, x => growN c k (growFig c x)

/-- after `k` growths from capacity `c ≥ 1` the capacity is `c * 2^k`: pushing `n` elements
    therefore needs only `O(log n)` resizes -/
theorem C07_doubling (cfg : Cfg) (c k : Nat) (hc : 0 < c) : growN cfg k c = c * 2 ^ k := by
  induction k generalizing c with
  | zero => simp [growN]
  | succ k ih =>
    have hg : growFig cfg c = 2 * c := by unfold growFig; simp [Nat.ne_of_gt hc]
    rw [growN, hg, ih (2 * c) (by omega), Nat.pow_succ]
    rw [Nat.mul_comm 2 c, Nat.mul_assoc, Nat.mul_comm 2 (2 ^ k)]

example : (reserve { c := ⟨4, 4, true⟩, m := .debug } 5 GS.sentinel).2.cap = 8 := by decide +kernel

end MV.Props

#print axioms MV.Props.C07_reserve
#print axioms MV.Props.C07_reserve_exact
#print axioms MV.Props.C07_with_capacity
#print axioms MV.Props.C07_shrink_to_fit
#print axioms MV.Props.C07_shrink_to
#print axioms MV.Props.C07_growth_policy
#print axioms MV.Props.C07_doubling

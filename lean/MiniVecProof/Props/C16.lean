import MiniVecProof.Gen.Facts
/-
  C16 — borrowing, lifetime and thread-safety rules are enforced at compile time (PARTIAL).

  rustc's borrow checker and trait solver cannot be brought into Lean. What is proved here is about
  (1) the facts REGENERATED from the public signatures, field lists and `unsafe impl`s, and
  (2) a small loan-based stand-in judgement `check` over a mini-language of client programs whose
  only inputs are those facts. The stand-in is validated against rustc on every run: programs of
  the mini-language are rendered to Rust and compiled against the current crate, and verdicts must
  agree (`vlib/c16.py`).
-/
namespace MV.Props.C16
open MV.Gen.Facts

/-! ### (1) facts -/

/-- the draining iterators and every view into the storage are tied to `&mut self` / `&self` by
    elision; nothing public hands out a `'static` or otherwise detached borrow of the storage -/
theorem C16_results_borrow_from_self :
    borrow .drain = .mut_ ∧ borrow .splice = .mut_ ∧ borrow .drain_filter = .mut_ ∧
    borrow .as_mut_slice = .mut_ ∧ borrow .spare_capacity_mut = .mut_ ∧ borrow .split_at_spare_mut = .mut_ ∧
    borrow .as_slice = .shared ∧
    (∀ a ∈ allApis, borrow a ≠ .static_) ∧
    (∀ a ∈ allApis, borrow a = .named → a = .leak) := by
  decide

/-- the receiver kind matches: a `mut_` result needs `&mut self`, a `shared` one `&self` -/
theorem C16_receivers_consistent :
    ∀ a ∈ allApis, (borrow a = .mut_ → recv a = .refMut) ∧ (borrow a = .shared → recv a = .ref_) := by
  decide

/-- `leak<'a>` can only be instantiated with lifetimes the elements outlive (`T: 'a`) -/
theorem C16_leak_bounded : borrow .leak = .named ∧ elemOutlives .leak = true := by decide

/-- `MiniVec<T>` owns `T` as far as variance, drop-check and auto traits are concerned
    (`PhantomData<T>`), and `Drain`/`Splice` carry their borrow as `PhantomData<&'a T>` -/
theorem C16_markers :
    FieldTy.phantomT ∈ fieldsMiniVec ∧ FieldTy.phantomRefT ∈ fieldsDrain ∧ FieldTy.phantomRefT ∈ fieldsSplice ∧
    FieldTy.vecRefMut ∈ fieldsDrainFilter ∧ FieldTy.vecOwned ∈ fieldsIntoIter := by
  decide

/-- the hand-written auto-trait impls are bounded on the element type exactly as for `Vec` -/
theorem C16_send_sync_bounds :
    unsafeImplSendMiniVec = .send ∧ unsafeImplSyncMiniVec = .sync ∧
    unsafeImplSendIntoIter = .send ∧ unsafeImplSyncIntoIter = .sync ∧
    unsafeImplSendDrain = .send ∧ unsafeImplSyncDrain = .sync ∧
    unsafeImplSendSplice ≠ .unbounded ∧ unsafeImplSyncSplice ≠ .unbounded ∧
    unsafeImplSendDrainFilter ≠ .unbounded ∧ unsafeImplSyncDrainFilter ≠ .unbounded := by
  decide

/-! ### (2) the stand-in judgement -/

inductive ElemKind | plain | rc | cell
  deriving DecidableEq, Repr

inductive Holder | vec | intoIter | drain
  deriving DecidableEq, Repr

inductive Stmt
  | take (api : Api)          -- `let x = v.api(..);`  (at most one outstanding value `x`)
  | useVec (api : Api)        -- `v.api(..);`
  | useX                      -- `use(x);`
  | endVec                    -- `drop(v);`
  | send (h : Holder)         -- move a `MiniVec` / `IntoIter` / `Drain` into another thread
  | share (h : Holder)        -- use `&holder` from another thread
  deriving DecidableEq, Repr

abbrev Prog := List Stmt

/-- is the value taken at some point still used later? (non-lexical lifetimes) -/
def usedLater : Prog → Bool
  | [] => false
  | .useX :: _ => true
  | .take _ :: _ => false
  | _ :: rest => usedLater rest

def autoOk (b : AutoBound) (needSend : Bool) (k : ElemKind) : Bool :=
  match b with
  | .send => needSend && k != .rc || (!needSend) && false
  | .sync => (!needSend) && k == .plain
  | _ => false

def sendBound : Holder → AutoBound
  | .vec => unsafeImplSendMiniVec | .intoIter => unsafeImplSendIntoIter | .drain => unsafeImplSendDrain
def syncBound : Holder → AutoBound
  | .vec => unsafeImplSyncMiniVec | .intoIter => unsafeImplSyncIntoIter | .drain => unsafeImplSyncDrain

/-- `loan`: the borrow kind of the outstanding value, if it is still live -/
def check (k : ElemKind) : Option Borrow → Prog → Bool
  | _, [] => true
  | loan, .take api :: rest =>
    let conflict := match loan with
      | some .mut_ => usedLater rest
      | some .shared => usedLater rest && (recv api == .refMut || recv api == .owned)
      | _ => false
    !conflict && check k (match borrow api with | .mut_ => some .mut_ | .shared => some .shared | _ => none) rest
  | loan, .useVec api :: rest =>
    let live := usedLater rest
    let conflict := match loan with
      | some .mut_ => live
      | some .shared => live && (recv api == .refMut || recv api == .owned)
      | _ => false
    !conflict && check k loan rest
  | loan, .useX :: rest => check k loan rest
  | loan, .endVec :: rest =>
    let conflict := match loan with
      | some .mut_ | some .shared => usedLater rest
      | _ => false
    !conflict && check k loan rest
  | loan, .send h :: rest => (sendBound h == .send && k != .rc) && check k loan rest
  | loan, .share h :: rest => (syncBound h == .sync && k == .plain) && check k loan rest

/-- (a) using or ending the vector while a value derived from a MUTABLE borrow of it is still live
    is rejected — for every API whose result borrows mutably, every prefix and every suffix -/
theorem C16_mut_borrow_excludes_use (k : ElemKind) (api api' : Api) (mid rest : Prog)
    (hb : borrow api = .mut_) (hmid : mid = []) :
    check k none (.take api :: mid ++ .useVec api' :: .useX :: rest) = false ∧
    check k none (.take api :: mid ++ .endVec :: .useX :: rest) = false := by
  subst hmid
  simp [check, hb, usedLater]

/-- (a') … and while a SHARED borrow is live, every mutating or consuming use is rejected -/
theorem C16_shared_borrow_excludes_mutation (k : ElemKind) (api api' : Api) (rest : Prog)
    (hb : borrow api = .shared) (hm : recv api' = .refMut ∨ recv api' = .owned) :
    check k none (.take api :: .useVec api' :: .useX :: rest) = false ∧
    check k none (.take api :: .endVec :: .useX :: rest) = false := by
  rcases hm with hm | hm <;> simp [check, hb, hm, usedLater]

/-- (d) the twin without the later use of the borrowed value is accepted -/
theorem C16_twin_accepted (k : ElemKind) (api api' : Api) :
    check k none [.take api, .useX, .useVec api'] = true ∧ check k none [.take api, .useX, .endVec] = true := by
  simp [check, usedLater]
  cases borrow api <;> simp

/-- (c) moving a `MiniVec`/`IntoIter`/`Drain` to another thread is rejected iff the elements are
    not `Send`; sharing iff they are not `Sync` -/
theorem C16_thread_safety (h : Holder) :
    check .rc none [.send h] = false ∧ check .plain none [.send h] = true ∧ check .cell none [.send h] = true ∧
    check .cell none [.share h] = false ∧ check .rc none [.share h] = false ∧ check .plain none [.share h] = true := by
  cases h <;> decide

/-! the mini-language is not degenerate: some programs are accepted, some rejected -/
example : check .plain none [.take .drain, .useVec .len, .useX] = false := by decide
example : check .plain none [.take .drain, .useX, .useVec .len] = true := by decide
example : check .plain none [.take .as_slice, .useVec .len, .useX] = true := by decide
example : check .plain none [.take .as_slice, .useVec .push, .useX] = false := by decide

end MV.Props.C16

#print axioms MV.Props.C16.C16_results_borrow_from_self
#print axioms MV.Props.C16.C16_receivers_consistent
#print axioms MV.Props.C16.C16_leak_bounded
#print axioms MV.Props.C16.C16_markers
#print axioms MV.Props.C16.C16_send_sync_bounds
#print axioms MV.Props.C16.C16_mut_borrow_excludes_use
#print axioms MV.Props.C16.C16_shared_borrow_excludes_mutation
#print axioms MV.Props.C16.C16_twin_accepted
#print axioms MV.Props.C16.C16_thread_safety

import MiniVecProof.Gen.Facts
/-
  C16 — borrowing, lifetime and thread-safety rules are enforced at compile time (PARTIAL).

  rustc's borrow checker and trait solver cannot be brought into Lean. What is proved here is about
  (1) the facts REGENERATED from the public signatures, field lists and `unsafe impl`s, and
  (2) a small loan-based stand-in judgement `check` over a mini-language of client programs whose
  only inputs are those facts. The stand-in is validated against rustc on every run: programs of
  the mini-language are rendered to Rust and compiled against the current crate, and verdicts must
  agree (`vlib/c16.py`).
-/
namespace MV.Props.C16
open MV.Gen.Facts

/-! ### (1) facts -/

/-- the draining iterators and every view into the storage are tied to `&mut self` / `&self` by
    elision; nothing public hands out a `'static` or otherwise detached borrow of the storage -/
theorem C16_results_borrow_from_self :
    borrow .drain = .mut_ ∧ borrow .splice = .mut_ ∧ borrow .drain_filter = .mut_ ∧
    borrow .as_mut_slice = .mut_ ∧ borrow .spare_capacity_mut = .mut_ ∧ borrow .split_at_spare_mut = .mut_ ∧
    borrow .as_slice = .shared ∧
    (∀ a ∈ allApis, borrow a ≠ .static_) ∧
    (∀ a ∈ allApis, borrow a = .named → a = .leak) := by
  decide

/-- the receiver kind matches: a `mut_` result needs `&mut self`, a `shared` one `&self` -/
theorem C16_receivers_consistent :
    ∀ a ∈ allApis, (borrow a = .mut_ → recv a = .refMut) ∧ (borrow a = .shared → recv a = .ref_) := by
  decide

/-- `leak<'a>` can only be instantiated with lifetimes the elements outlive (`T: 'a`) -/
theorem C16_leak_bounded : borrow .leak = .named ∧ elemOutlives .leak = true := by decide

/-- `MiniVec<T>` owns `T` as far as variance, drop-check and auto traits are concerned
    (`PhantomData<T>`), and `Drain`/`Splice` carry their borrow as `PhantomData<&'a T>` -/
theorem C16_markers :
    FieldTy.phantomT ∈ fieldsMiniVec ∧ FieldTy.phantomRefT ∈ fieldsDrain ∧ FieldTy.phantomRefT ∈ fieldsSplice ∧
    FieldTy.vecRefMut ∈ fieldsDrainFilter ∧ FieldTy.vecOwned ∈ fieldsIntoIter := by
  decide

/-- the hand-written auto-trait impls are bounded on the element type exactly as for `Vec` -/
theorem C16_send_sync_bounds :
    unsafeImplSendMiniVec = .send ∧ unsafeImplSyncMiniVec = .sync ∧
    unsafeImplSendIntoIter = .send ∧ unsafeImplSyncIntoIter = .sync ∧
    unsafeImplSendDrain = .send ∧ unsafeImplSyncDrain = .sync ∧
    unsafeImplSendSplice = .absent ∧ unsafeImplSyncSplice = .absent ∧
    unsafeImplSendDrainFilter = .absent ∧ unsafeImplSyncDrainFilter = .absent := by
  decide

/-- the four iterator types offer no public inherent method besides `IntoIter::as_slice` / `as_mut_slice` (whose results
    borrow from `&self` / `&mut self` by elision): in particular no method that hands out a borrow carrying the iterator's own
    lifetime parameter, and no public constructor whose lifetime is tied to nothing -/
theorem C16_iterator_api_fixed : iteratorPubFns = ["IntoIter::as_mut_slice", "IntoIter::as_slice"] := by decide

/-- no public method other than `leak` declares a lifetime parameter of its own: a reference a method passes to a
    callback (`retain`, `dedup_by`, `dedup_by_key`, `drain_filter`) therefore has a fresh, higher-ranked lifetime the
    callback cannot let escape, and every returned borrow is tied to `self` by elision -/
theorem C16_only_leak_names_a_lifetime : ∀ a ∈ allApis, declaresLifetime a = true → a = .leak := by
  decide

/-- the crate root exports no module and re-exports nothing but the four iterator types: the iterator constructors,
    whose lifetime parameter is tied to nothing (`make_drain_iterator<'a, T>`), cannot be named by a client -/
theorem C16_internals_unreachable : exportedModules = 0 := by decide

/-! ### (2) the stand-in judgement -/

inductive ElemKind | plain | rc | cell
  deriving DecidableEq, Repr

inductive Holder | vec | intoIter | drain
  deriving DecidableEq, Repr

inductive Stmt
  | take (api : Api)          -- `let x = v.api(..);`  (at most one outstanding value `x`)
  | useVec (api : Api)        -- `v.api(..);`
  | useX                      -- `use(x);`
  | endVec                    -- `drop(v);`
  | send (h : Holder)         -- move a `MiniVec` / `IntoIter` / `Drain` into another thread
  | share (h : Holder)        -- use `&holder` from another thread
  deriving DecidableEq, Repr

abbrev Prog := List Stmt

/-- is the outstanding value `x` still used later? (non-lexical lifetimes: a borrow without drop
    glue ends at its last use) -/
def usedLater : Prog → Bool
  | [] => false
  | .useX :: _ => true
  | .take _ :: _ => false
  | _ :: rest => usedLater rest

def sendBound : Holder → AutoBound
  | .vec => unsafeImplSendMiniVec | .intoIter => unsafeImplSendIntoIter | .drain => unsafeImplSendDrain
def syncBound : Holder → AutoBound
  | .vec => unsafeImplSyncMiniVec | .intoIter => unsafeImplSyncIntoIter | .drain => unsafeImplSyncDrain

/-- checker state: the outstanding named value (`x`): what it borrows and whether its type has drop
    glue (then the borrow lasts until the value is consumed or the scope ends); the borrows of
    shadowed values with drop glue (alive to the end of the scope); whether `v` was moved out -/
structure CkSt where
  cur : Option (Borrow × Bool) := none
  pend : List Borrow := []
  moved : Bool := false

def loanConflicts (b : Borrow) (r : Recv) : Bool :=
  match b with
  | .mut_ => true
  | .shared => r == .refMut || r == .owned
  | _ => false

/-- does a use of `v` with receiver kind `r` conflict with a live loan? -/
def conflicts (st : CkSt) (rest : Prog) (r : Recv) : Bool :=
  st.pend.any (fun b => loanConflicts b r) ||
  (match st.cur with
   | some (b, glue) => (glue || usedLater rest) && loanConflicts b r
   | none => false)

def check (k : ElemKind) : CkSt → Prog → Bool
  | _, [] => true
  | st, .take api :: rest =>
    -- the new binding shadows `x`: the old value is not used again, only its drop glue keeps it alive
    if st.moved || conflicts st [] (recv api) then false
    else
      let pend := match st.cur with
        | some (b, true) => b :: st.pend
        | _ => st.pend
      check k { st with cur := some (borrow api, resultHasDrop api), pend := pend } rest
  | st, .useVec api :: rest =>
    if st.moved || conflicts st rest (recv api) then false else check k st rest
  | st, .useX :: rest =>
    (match st.cur with
     | none => false
     | some _ => check k { st with cur := none } rest)
  | st, .endVec :: rest =>
    if st.moved || conflicts st rest .owned then false else check k { st with moved := true } rest
  | st, .send h :: rest => (sendBound h == .send && k != .rc) && check k st rest
  | st, .share h :: rest => (syncBound h == .sync && k == .plain) && check k st rest

/-- (a) using or ending the vector while a value derived from a MUTABLE borrow of it is still live
    is rejected — for every API whose result borrows mutably and every continuation -/
theorem C16_mut_borrow_excludes_use (k : ElemKind) (api api' : Api) (rest : Prog)
    (hb : borrow api = .mut_) :
    check k {} (.take api :: .useVec api' :: .useX :: rest) = false ∧
    check k {} (.take api :: .endVec :: .useX :: rest) = false := by
  constructor <;> simp [check, conflicts, loanConflicts, hb, usedLater]

/-- a value with drop glue (Drain, Splice, DrainFilter) keeps the vector borrowed until it is consumed,
    even if it is never used again -/
theorem C16_drop_glue_extends_borrow (k : ElemKind) (api api' : Api) (rest : Prog)
    (hb : borrow api = .mut_) (hd : resultHasDrop api = true) :
    check k {} (.take api :: .useVec api' :: rest) = false := by
  simp [check, conflicts, loanConflicts, hb, hd]

theorem C16_draining_iterators_have_drop_glue :
    resultHasDrop .drain = true ∧ resultHasDrop .splice = true ∧ resultHasDrop .drain_filter = true := by
  decide

/-- (a') while a SHARED borrow is live, every mutating or consuming use is rejected -/
theorem C16_shared_borrow_excludes_mutation (k : ElemKind) (api api' : Api) (rest : Prog)
    (hb : borrow api = .shared) (hm : recv api' = .refMut ∨ recv api' = .owned) :
    check k {} (.take api :: .useVec api' :: .useX :: rest) = false ∧
    check k {} (.take api :: .endVec :: .useX :: rest) = false := by
  rcases hm with hm | hm <;> simp [check, conflicts, loanConflicts, hb, hm, usedLater]

/-- (d) the twin in which the borrowed value is consumed first is accepted -/
theorem C16_twin_accepted (k : ElemKind) (api api' : Api) :
    check k {} [.take api, .useX, .useVec api'] = true ∧ check k {} [.take api, .useX, .endVec] = true := by
  simp [check, conflicts, usedLater]

/-- (c) moving a `MiniVec`/`IntoIter`/`Drain` to another thread is rejected iff the elements are
    not `Send`; sharing iff they are not `Sync` -/
theorem C16_thread_safety (h : Holder) :
    check .rc {} [.send h] = false ∧ check .plain {} [.send h] = true ∧ check .cell {} [.send h] = true ∧
    check .cell {} [.share h] = false ∧ check .rc {} [.share h] = false ∧ check .plain {} [.share h] = true := by
  cases h <;> decide

/-! the mini-language is not degenerate: some programs are accepted, some rejected -/
example : check .plain {} [.take .drain, .useVec .len, .useX] = false := by decide
example : check .plain {} [.take .drain, .useX, .useVec .len] = true := by decide
example : check .plain {} [.take .drain, .useVec .len] = false := by decide
example : check .plain {} [.take .as_slice, .useVec .len, .useX] = true := by decide
example : check .plain {} [.take .as_slice, .useVec .push, .useX] = false := by decide
example : check .plain {} [.take .as_mut_slice, .useVec .push] = true := by decide

end MV.Props.C16

#print axioms MV.Props.C16.C16_results_borrow_from_self
#print axioms MV.Props.C16.C16_receivers_consistent
#print axioms MV.Props.C16.C16_leak_bounded
#print axioms MV.Props.C16.C16_markers
#print axioms MV.Props.C16.C16_send_sync_bounds
#print axioms MV.Props.C16.C16_only_leak_names_a_lifetime
#print axioms MV.Props.C16.C16_internals_unreachable
#print axioms MV.Props.C16.C16_mut_borrow_excludes_use
#print axioms MV.Props.C16.C16_drop_glue_extends_borrow
#print axioms MV.Props.C16.C16_draining_iterators_have_drop_glue
#print axioms MV.Props.C16.C16_shared_borrow_excludes_mutation
#print axioms MV.Props.C16.C16_twin_accepted
#print axioms MV.Props.C16.C16_thread_safety
#print axioms MV.Props.C16.C16_iterator_api_fixed

import MiniVecProof.Props.C02Histories
import MiniVecProof.Props.C04Loops
import MiniVecProof.Props.C01ExtendWithin
import MiniVecProof.Props.C17RemoveItem
/-
  C02 over EVERY history of `HOp` (all 25 operation kinds), no callback panicking.

  `C02_histories_partial` accounts for the operations that neither clone nor splice, in terms of the ownership events
  (`drop` and `clone`). Here the accounting is by destructor events alone (`dropEvs`), which lets the cloning
  operations in: `extend_from_slice`, `resize`, `extend_from_within` (their clones are new elements handed to the
  vector: "given"), `resize_with`, `remove_item`, and `splice` (its replacement's items are given, the unyielded part
  of the range is destroyed by the drop).

  For every completed history followed by dropping the vector: the destructor events added are one per element of
  `dropped`, and  dropped ++ (everything yielded or returned)  is a rearrangement of  (starting contents) ++
  (everything handed in or created by a callback / a clone).
-/
namespace MV.Props
open MV MV.Gen MV.GM VM

def Ev.isDrop : Ev → Bool
  | .drop _ => true
  | _ => false

/-- the destructor events of a trace, in order -/
def dropEvs (tr : List Ev) : List Ev := tr.filter Ev.isDrop

theorem dropEvs_append (a b : List Ev) : dropEvs (a ++ b) = dropEvs a ++ dropEvs b := by simp [dropEvs]

theorem dropEvs_ownEvents (tr : List Ev) : dropEvs (ownEvents tr) = dropEvs tr := by
  unfold dropEvs ownEvents
  rw [List.filter_filter]
  congr 1
  funext e
  cases e <;> simp [Ev.isDrop, Ev.isOwn]

theorem dropEvs_dropEvents (X : Ctx) (es : List Elem) : dropEvs (dropEvents X es) = dropEvents X es := by
  unfold dropEvents dropEvs
  split
  · simp [List.filter_eq_self, Ev.isDrop]
  · rfl

/-- an ownership-event equation gives the destructor-event equation -/
theorem dropEvs_of_own (X : Ctx) (tr tr' : List Ev) (d : List Elem) (h : ownEvents tr' = ownEvents tr ++ dropEvents X d) :
    dropEvs tr' = dropEvs tr ++ dropEvents X d := by
  have := congrArg dropEvs h
  rwa [dropEvs_ownEvents, dropEvs_append, dropEvs_ownEvents, dropEvs_dropEvents] at this

/-- a computation that runs no destructor when it returns -/
def QuietD {α} (x : VM α) : Prop :=
  ∀ s a s', x s = (.ok a, s') → dropEvs s'.sys.tr = dropEvs s.sys.tr

theorem QuietD.ofQuiet {α} {x : VM α} (h : Quiet x) : QuietD x := by
  intro s a s' hr
  have := congrArg dropEvs (h s a s' hr)
  rwa [dropEvs_ownEvents, dropEvs_ownEvents] at this

theorem QuietD.pure' {α} (a : α) : QuietD (pure a : VM α) := .ofQuiet (Quiet.pure a)

theorem QuietD.bind {α β} {x : VM α} {f : α → VM β} (hx : QuietD x) (hf : ∀ a, QuietD (f a)) : QuietD (x >>= f) := by
  intro s b s' h
  simp only [VM.bind_run] at h
  cases hxs : x s with
  | mk r s1 =>
    rw [hxs] at h
    cases r with
    | error p => simp at h
    | ok a =>
      simp only at h
      rw [hf a s1 b s' h, hx s a s1 hxs]

theorem QuietD.freshId : QuietD VM.freshId := by
  intro s a s' h
  unfold VM.freshId at h
  simp only [Prod.mk.injEq] at h
  rw [← h.2]

/-- recording an event that is not a destructor run -/
theorem QuietD.emit (e : Ev) (he : Ev.isDrop e = false) : QuietD (VM.emit e) := by
  intro s a s' h
  unfold VM.emit at h
  simp only [Prod.mk.injEq] at h
  rw [← h.2]
  simp [dropEvs, he]

theorem QuietD.cloneElem (X : Ctx) (e : Elem) : QuietD (VM.cloneElem X e) := by
  unfold VM.cloneElem
  exact QuietD.bind (.ofQuiet (Quiet.callback X)) (fun _ => QuietD.bind QuietD.freshId (fun i =>
    QuietD.bind (QuietD.emit _ rfl) (fun _ => QuietD.pure' _)))

theorem QuietD.forN_go {f : Nat → VM Unit} (hf : ∀ i, QuietD (f i)) : ∀ (k i : Nat), QuietD (VM.forN.go f k i) := by
  intro k
  induction k with
  | zero => intro i; unfold VM.forN.go; exact QuietD.pure' ()
  | succ k ih => intro i; unfold VM.forN.go; exact QuietD.bind (hf i) (fun _ => ih (i + 1))

theorem QuietD.forN {f : Nat → VM Unit} (hf : ∀ i, QuietD (f i)) (n : Nat) : QuietD (VM.forN n f) := by
  unfold VM.forN; exact QuietD.forN_go hf n 0

theorem QuietD.extend_from_slice (X : Ctx) (elems : List Elem) : QuietD (Vec.extend_from_slice X elems) := by
  unfold Vec.extend_from_slice
  exact QuietD.bind (.ofQuiet (Quiet.reserve X _)) (fun _ => QuietD.forN (fun i =>
    QuietD.bind (QuietD.cloneElem X _) (fun e => .ofQuiet (Quiet.push X e))) _)

/-- the cloning loop of `extend_from_within` runs no destructor when it completes, given the room the reservation made
    (every clone goes into a free slot) -/
theorem QuietD.efwGo (X : Ctx) (len cap : Nat) (p : DPtr) :
    ∀ (fuel i count : Nat), len + count + fuel ≤ cap → QuietD (Vec.efwGo X len cap p fuel i count) := by
  intro fuel
  induction fuel with
  | zero => intro i count _ s a s' h; simp [Vec.efwGo] at h; rw [← h.2]
  | succ fuel ih =>
    intro i count hroom s a s' h
    have hlt : len + count < cap := by omega
    unfold Vec.efwGo at h
    have hq : QuietD (do
        let e ← VM.rd p i
        let e' ← VM.cloneElem X e
        if len + count < cap then VM.wr p (len + count) e' else VM.dropElem X e'
        pure () : VM Unit) := by
      refine QuietD.bind (.ofQuiet (Quiet.rd p i)) (fun e => QuietD.bind (QuietD.cloneElem X e) (fun e' => ?_))
      rw [if_pos hlt]
      exact QuietD.bind (.ofQuiet (Quiet.wr _ _ _)) (fun _ => QuietD.pure' ())
    cases hb : (do
        let e ← VM.rd p i
        let e' ← VM.cloneElem X e
        if len + count < cap then VM.wr p (len + count) e' else VM.dropElem X e'
        pure () : VM Unit) s with
    | mk r s1 =>
      rw [hb] at h
      cases r with
      | error q =>
        simp only at h
        split at h
        · split at h <;> simp at h
        · simp at h
      | ok u =>
        simp only [hlt, if_true] at h
        rw [ih (i + 1) (count + 1) (by omega) s1 a s' h, hq s u s1 hb]

/-! ### Per-operation accounting by destructor events -/

/-- what one completed operation does to the ledger: `d` destroyed (one destructor event each, nothing else), `g`
    handed in or created, and destroyed ++ still inside ++ handed back is a rearrangement of what was there ++ `g` -/
def Accounts (X : Ctx) (s s' : St) (es : List Elem) (o : HOut) (g : List Elem) : Prop :=
  ∃ es' d, Abs X s'.v es' ∧ dropEvs s'.sys.tr = dropEvs s.sys.tr ++ dropEvents X d ∧
    (d ++ es' ++ yielded o).Perm (es ++ g)

theorem dropEvents_nil (X : Ctx) : dropEvents X [] = [] := by simp [dropEvents]

theorem lift_dropEvs {α} (X : Ctx) (g : GM α) (s : St) : dropEvs (VM.lift X g s).2.sys.tr = dropEvs s.sys.tr := by
  have := congrArg dropEvs (lift_own X g s)
  rwa [dropEvs_ownEvents, dropEvs_ownEvents] at this

theorem acc_remove_item (X : Ctx) (hq : ∀ k, X.o.panicAt k = false) (probe : Elem) (s : St) (es : List Elem)
    (h : Abs X s.v es) (o : Option Elem) (s' : St) (hrun : Vec.remove_item X probe s = (.ok o, s')) :
    Accounts X s s' es [(o, 0)] [] := by
  rcases C17_remove_item_partial X hq probe s es h with ⟨j, s1, hj, hr, habs, htr⟩ | ⟨s1, hr, hv, htr⟩
  · rw [hr] at hrun
    simp only [Prod.mk.injEq, Except.ok.injEq] at hrun
    obtain ⟨ho, hs⟩ := hrun
    subst hs; subst ho
    refine ⟨es.eraseIdx j, [], habs, by rw [htr, dropEvents_nil, List.append_nil], ?_⟩
    simp only [yielded, List.getElem?_eq_getElem hj, List.filterMap_cons, List.filterMap_nil, List.nil_append, List.append_nil]
    have h1 : es = es.take j ++ es[j] :: es.drop (j + 1) := by
      conv => lhs; rw [← List.take_append_drop j es]
      rw [List.drop_eq_getElem_cons hj]
    rw [List.eraseIdx_eq_take_drop_succ]
    conv => rhs; rw [h1]
    rw [List.append_assoc]
    exact List.Perm.append_left _ (List.perm_append_singleton _ _)
  · rw [hr] at hrun
    simp only [Prod.mk.injEq, Except.ok.injEq] at hrun
    obtain ⟨ho, hs⟩ := hrun
    subst hs; subst ho
    exact ⟨es, [], by rw [hv]; exact h, by rw [htr, dropEvents_nil, List.append_nil], by simp [yielded]⟩

theorem acc_extend_from_slice (X : Ctx) (elems : List Elem) (s : St) (es : List Elem) (h : Abs X s.v es) (s' : St)
    (hrun : Vec.extend_from_slice X elems s = (.ok (), s')) :
    ∃ g, g.map (·.val) = elems.map (·.val) ∧ Accounts X s s' es [] g := by
  obtain ⟨r, s1, new, hr, habs, hv, hlen⟩ := C04_extend_from_slice_any X elems s es h
  rw [hrun] at hr
  simp only [Prod.mk.injEq] at hr
  obtain ⟨hr1, hs⟩ := hr
  subst hs; subst hr1
  simp only at hlen
  have hq := QuietD.extend_from_slice X elems s () s' hrun
  refine ⟨new, ?_, es ++ new, [], habs, by rw [hq, dropEvents_nil, List.append_nil], by simp [yielded]⟩
  rw [hv, hlen, List.take_length]

theorem acc_resize_with (X : Ctx) (hq : ∀ k, X.o.panicAt k = false) (n : Nat) (gf : Nat → Int) (s : St) (es : List Elem)
    (h : Abs X s.v es) (s' : St) (hrun : Vec.resize_with X n gf s = (.ok (), s')) :
    ∃ g, g.map (·.val) = (List.range g.length).map gf ∧ Accounts X s s' es [] g := by
  have hL : (hsOf s.v s.sys.allocIdx).L = es.length := h.len_eq
  have h1 : VM.lift X (resize_with_pre X.env n) s = (.ok (.cont ⟨n, es.length⟩), s) :=
    lift_read X _ s _ (by unfold resize_with_pre; simp only [len_run, GM.bind_run, hL, GM.pure_run])
  by_cases hgt : es.length < n
  · obtain ⟨r, s1, new, hr, habs, hv, _, _⟩ := C04_resize_with_any X n gf s es h hgt
    rw [hrun] at hr
    simp only [Prod.mk.injEq] at hr
    obtain ⟨hr1, hs⟩ := hr
    subst hs; subst hr1
    have hqd : QuietD (do
        Vec.reserve X (n - es.length)
        VM.forN (n - es.length) (fun k => do
          VM.callback X
          let e ← VM.mkElem (gf k)
          Vec.push X e) : VM Unit) :=
      QuietD.bind (.ofQuiet (Quiet.reserve X _)) (fun _ => QuietD.forN (fun k =>
        QuietD.bind (.ofQuiet (Quiet.callback X)) (fun _ => QuietD.bind (.ofQuiet (Quiet.mkElem _)) (fun e =>
          .ofQuiet (Quiet.push X e)))) _)
    have hrun' : (do
        Vec.reserve X (n - es.length)
        VM.forN (n - es.length) (fun k => do
          VM.callback X
          let e ← VM.mkElem (gf k)
          Vec.push X e) : VM Unit) s = (.ok (), s') := by
      have := hrun
      unfold Vec.resize_with at this
      simp only [VM.bind_run, h1] at this
      rw [if_neg (by omega), if_pos (by omega)] at this
      exact this
    refine ⟨new, hv, es ++ new, [], habs, by rw [hqd s () s' hrun', dropEvents_nil, List.append_nil], by simp [yielded]⟩
  · unfold Vec.resize_with at hrun
    simp only [VM.bind_run, h1] at hrun
    by_cases heq : n = es.length
    · rw [if_pos heq] at hrun
      simp only [VM.pure_run, Prod.mk.injEq] at hrun
      rw [← hrun.2]
      exact ⟨[], rfl, es, [], h, by rw [dropEvents_nil, List.append_nil], by simp [yielded]⟩
    · rw [if_neg heq, if_neg (by omega)] at hrun
      obtain ⟨v', ht, habs, _, _, _⟩ := truncate_spec X hq s es n h
      rw [ht] at hrun
      simp only [Prod.mk.injEq] at hrun
      rw [← hrun.2]
      refine ⟨[], rfl, es.take n, es.drop n, habs, ?_, ?_⟩
      · apply dropEvs_of_own
        rw [afterDrops_own_tr]
      · simp only [yielded, List.filterMap_nil, List.append_nil]
        exact List.perm_append_comm.trans (by rw [List.take_append_drop])

theorem afterDrops_dropEvs (X : Ctx) (s : St) (es : List Elem) :
    dropEvs (afterDrops X s es).sys.tr = dropEvs s.sys.tr ++ dropEvents X es :=
  dropEvs_of_own X _ _ _ (afterDrops_own' X s es)

theorem acc_resize (X : Ctx) (hq : ∀ k, X.o.panicAt k = false) (n : Nat) (value : Elem) (s : St) (es : List Elem)
    (h : Abs X s.v es) (s' : St) (hrun : Vec.resize X n value s = (.ok (), s')) :
    ∃ new, (∀ e ∈ new, e.val = value.val) ∧ Accounts X s s' es [] (value :: new) := by
  have hL : (hsOf s.v s.sys.allocIdx).L = es.length := h.len_eq
  have h1 : VM.lift X (resize_pre X.env n) s = (.ok (.cont ⟨n, es.length⟩), s) :=
    lift_read X _ s _ (by unfold resize_pre; simp only [len_run, GM.bind_run, hL, GM.pure_run])
  -- the body, then `value` is destroyed
  have key : ∀ (s1 : St) (cur new : List Elem) (d : List Elem), Vec.resizeBody X n value s = (.ok (), s1) → Abs X s1.v cur →
      dropEvs s1.sys.tr = dropEvs s.sys.tr ++ dropEvents X d → (d ++ cur).Perm (es ++ new) →
      Accounts X s s' es [] (value :: new) := by
    intro s1 cur new d hb habs hev hperm
    unfold Vec.resize VM.guarded at hrun
    rw [hb] at hrun
    simp only [dropElem_quiet' X hq value s1, Prod.mk.injEq] at hrun
    rw [← hrun.2]
    refine ⟨cur, d ++ [value], habs, ?_, ?_⟩
    · rw [afterDrops_dropEvs, hev, dropEvents_append, List.append_assoc]
    · simp only [yielded, List.filterMap_nil, List.append_nil]
      rw [List.perm_iff_count] at hperm ⊢
      intro a
      have := hperm a
      simp only [List.count_append, List.count_cons, List.count_nil] at *
      omega
  by_cases hgt : es.length < n
  · obtain ⟨r, s1, new, hr, habs, hvals, _, hrr⟩ :=
      reserve_then_any X (n - es.length) _ _ (round_clone_push X (n - es.length) (fun _ => value)) s es h
    have hbody : Vec.resizeBody X n value s = (r, s1) := by
      unfold Vec.resizeBody
      simp only [VM.bind_run, h1]
      rw [if_neg (by omega), if_pos (by omega)]
      exact hr
    have hall : ∀ e ∈ new, e.val = value.val := by
      intro e he
      obtain ⟨j, hj, rfl⟩ := List.getElem_of_mem he
      exact hvals j hj
    cases r with
    | error p =>
      exfalso
      unfold Vec.resize VM.guarded at hrun
      rw [hbody] at hrun
      simp only at hrun
      split at hrun
      · simp only [dropElem_quiet' X hq value s1] at hrun; simp at hrun
      · simp at hrun
    | ok u =>
      have hqd : QuietD (do
          Vec.reserve X (n - es.length)
          VM.forN (n - es.length) (fun _ => do
            let e ← VM.cloneElem X value
            Vec.push X e) : VM Unit) :=
        QuietD.bind (.ofQuiet (Quiet.reserve X _)) (fun _ => QuietD.forN (fun _ =>
          QuietD.bind (QuietD.cloneElem X _) (fun e => .ofQuiet (Quiet.push X e))) _)
      exact ⟨new, hall, key s1 (es ++ new) new [] hbody habs (by rw [hqd s () s1 hr, dropEvents_nil, List.append_nil]) (by simp)⟩
  · have hbody : ∃ s1 cur d, Vec.resizeBody X n value s = (.ok (), s1) ∧ Abs X s1.v cur ∧
        dropEvs s1.sys.tr = dropEvs s.sys.tr ++ dropEvents X d ∧ (d ++ cur).Perm (es ++ []) := by
      unfold Vec.resizeBody
      simp only [VM.bind_run, h1]
      by_cases heq : n = es.length
      · rw [if_pos heq]
        exact ⟨s, es, [], rfl, h, by rw [dropEvents_nil, List.append_nil], by simp⟩
      · rw [if_neg heq, if_neg (by omega)]
        obtain ⟨v', ht, habs, _, _, _⟩ := truncate_spec X hq s es n h
        refine ⟨_, es.take n, es.drop n, ht, habs, ?_, ?_⟩
        · apply dropEvs_of_own
          rw [afterDrops_own_tr]
        · simp only [List.append_nil]
          exact List.perm_append_comm.trans (by rw [List.take_append_drop])
    obtain ⟨s1, cur, d, hb, habs, hev, hperm⟩ := hbody
    exact ⟨[], by simp, key s1 cur [] d hb habs hev hperm⟩

theorem dropEvents_append' (X : Ctx) (a b : List Elem) : dropEvents X (a ++ b) = dropEvents X a ++ dropEvents X b :=
  dropEvents_append X a b

theorem acc_extend_from_within (X : Ctx) (hq : ∀ k, X.o.panicAt k = false) (s : St) (es : List Elem) (b1 b2 : Bound)
    (st en : Nat) (h : Abs X s.v es) (hr : resolve b1 b2 es.length = some (st, en)) (s' : St)
    (hrun : Vec.extend_from_within X b1 b2 s = (.ok (), s')) :
    ∃ g, g.map (·.val) = ((es.take en).drop st).map (·.val) ∧ Accounts X s s' es [] g := by
  obtain ⟨_, _, hse, hel⟩ := (C11_resolve_iff b1 b2 es.length st en).mp hr
  have hL : (hsOf s.v s.sys.allocIdx).L = es.length := h.len_eq
  unfold Vec.extend_from_within at hrun
  simp only [VM.bind_run] at hrun
  by_cases hz : es.length = 0
  · have hnil : es = [] := List.eq_nil_of_length_eq_zero hz
    subst hnil
    have h1 : VM.lift X (extend_from_within_pre X.env b1 b2) s = (.ok (.ret 0), s) :=
      lift_read X _ s _ (by
        have hr0 : resolve b1 b2 0 = some (st, en) := hr
        rw [C11_extend_from_within]; unfold efwSpec
        simp only [len_run, GM.bind_run, hL, List.length_nil, hr0, beq_self_eq_true, if_true, GM.pure_run])
    rw [h1] at hrun
    simp only [VM.pure_run, Prod.mk.injEq] at hrun
    rw [← hrun.2]
    exact ⟨[], by simp, [], [], h, by rw [dropEvents_nil, List.append_nil], by simp [yielded]⟩
  · have hr' : resolve b1 b2 (hsOf s.v s.sys.allocIdx).L = some (st, en) := by rw [hL]; exact hr
    have hne : (hsOf s.v s.sys.allocIdx).L ≠ 0 := by rw [hL]; exact hz
    have hco := efw_pre_capOutcome X.env (hsOf s.v s.sys.allocIdx) b1 b2 st en rfl hr' hne
    rw [hL] at hco
    have hmem := lift_cap X (extend_from_within_pre X.env b1 b2) _ s es h hco
    have hev1 := lift_dropEvs X (extend_from_within_pre X.env b1 b2) s
    cases hres : VM.lift X (extend_from_within_pre X.env b1 b2) s with
    | mk r s1 =>
      rw [hres] at hmem hrun hev1
      simp only at hev1
      cases r with
      | error p => simp at hrun
      | ok f =>
        have habs1 : Abs X s1.v es := by
          cases hmem with
          | same => exact h
          | grown _ habs _ _ _ _ => exact habs
        have hf : f = .cont ⟨es.length, st, en⟩ := by
          cases hmem with
          | same => rfl
          | grown _ _ _ _ _ _ => rfl
        subst hf
        have hg : (extend_from_within_pre X.env b1 b2 (hsOf s.v s.sys.allocIdx)).1 = .ok (.cont ⟨es.length, st, en⟩) := by
          apply lift_fst X _ s; rw [hres]
        have hpair : extend_from_within_pre X.env b1 b2 (hsOf s.v s.sys.allocIdx) =
            (.ok (.cont ⟨es.length, st, en⟩), (extend_from_within_pre X.env b1 b2 (hsOf s.v s.sys.allocIdx)).2) := by rw [← hg]
        obtain ⟨_, hroomC⟩ := efw_pre_room X.env _ _ b1 b2 st en _ rfl hr' hne hpair
        obtain ⟨hcap, _, hdf⟩ := lift_v_hdr X (extend_from_within_pre X.env b1 b2) s
        rw [hres] at hcap hdf
        simp only at hcap hdf
        have hd1 : s1.v.isDefault = false := by
          cases hd : s1.v.isDefault
          · rfl
          · have := (habs1.sentinel hd).2; subst this; simp at hz
        rw [hL] at hroomC
        have hroom : es.length + (en - st) ≤ s1.v.cap := by
          rw [hd1] at hdf
          simp [GS.C, ← hdf] at hroomC
          rw [hcap]; exact hroomC
        simp only at hrun
        obtain ⟨b, hb, hl, _⟩ := habs1.alloc hd1
        have hC1 : (hsOf s1.v s1.sys.allocIdx).C = s1.v.cap := by simp [GS.C, hsOf, hd1]
        have h2 : VM.lift X (capacity X.env) s1 = (.ok s1.v.cap, s1) := lift_read X _ s1 _ (by rw [capacity_run, hC1])
        have h3 : VM.lift X (as_mut_ptr X.env) s1 = (.ok (.at (dataOff s1.v.align)), s1) :=
          lift_read X _ s1 _ (as_mut_ptr_run X.env _ hd1 b.lay s1.v.cap hl)
        simp only [VM.bind_run, h2, h3] at hrun
        have hl1 : s1.v.len = es.length := by
          obtain ⟨_, _, _, _, _, hel1, _⟩ := habs1.alloc hd1; exact hel1.symm
        have hfull0 : Abs X { s1.v with len := es.length + ([] : List Elem).length } (es ++ []) := by
          have hv : ({ s1.v with len := es.length } : VSt) = s1.v := by cases hv : s1.v; simp [hv] at *; exact hl1.symm
          simpa [hv] using habs1
        obtain ⟨s2, new, hgo, habs2, hvals, hd2, hl2⟩ :=
          efw_go X hq es s1.v.cap (en - st) st [] s1 hfull0 hd1 rfl (by omega) (by simpa using hroom)
        simp only [List.length_nil, Nat.zero_add, Nat.add_zero, List.append_nil] at hgo habs2
        have hev2 := QuietD.efwGo X es.length s1.v.cap (.at (dataOff s1.v.align)) (en - st) st 0 (by omega) s1 _ s2 hgo
        rw [hgo] at hrun
        simp only at hrun
        rw [lift_set_len X (es.length + (en - st)) s2 hd2] at hrun
        simp only [Prod.mk.injEq] at hrun
        rw [← hrun.2]
        refine ⟨new, ?_, es ++ new, [], habs2, ?_, by simp [yielded]⟩
        · rw [hvals]
          congr 1
          rw [List.drop_take]
        · show dropEvs s2.sys.tr = _
          rw [hev2, hev1, dropEvents_nil, List.append_nil]

/-- a well-formed handle exposes one sequence -/
theorem Abs.unique {X : Ctx} {v : VSt} {a b : List Elem} (ha : Abs X v a) (hb : Abs X v b) : a = b := by
  cases hd : v.isDefault with
  | true => rw [(ha.sentinel hd).2, (hb.sentinel hd).2]
  | false =>
    obtain ⟨ba, hba, _, _, _, hla, hia⟩ := ha.alloc hd
    obtain ⟨bb, hbb, _, _, _, hlb, hib⟩ := hb.alloc hd
    have hbe : ba = bb := by rw [hba] at hbb; exact Option.some.inj hbb
    subst hbe
    apply List.ext_getElem?
    intro i
    by_cases hi : i < v.len
    · have h1 := hia i hi
      have h2 := hib i hi
      rw [h1] at h2
      exact Option.some.inj h2
    · rw [List.getElem?_eq_none (by omega), List.getElem?_eq_none (by omega)]

/-! ### Every operation but `splice`, every history -/

/-- the operations accounted for here: all of `HOp` except `splice` -/
def HOp.countedD : HOp → Bool
  | .splice _ _ _ _ => false
  | _ => true

/-- what the caller hands in or a callback / `Clone` creates -/
def HOp.givenD : HOp → List Elem → List Elem → Prop
  | .base op, _, g => g = op.given
  | .extend it, _, g => g.map (·.val) = takeSome it
  | .extend_from_slice elems, _, g => g.map (·.val) = elems.map (·.val)
  | .resize _ value, _, g => ∃ new, g = value :: new ∧ ∀ e ∈ new, e.val = value.val
  | .resize_with _ gf, _, g => g.map (·.val) = (List.range g.length).map gf
  | .extend_from_within b1 b2, es, g =>
      ∃ st en, resolve b1 b2 es.length = some (st, en) ∧ g.map (·.val) = ((es.take en).drop st).map (·.val)
  | _, _, g => g = []

theorem accounts_of_own (X : Ctx) (s s' : St) (es es' d g : List Elem) (o : HOut) (habs : Abs X s'.v es')
    (hown : ownEvents s'.sys.tr = ownEvents s.sys.tr ++ dropEvents X d) (hperm : (d ++ es' ++ yielded o).Perm (es ++ g)) :
    Accounts X s s' es o g :=
  ⟨es', d, habs, dropEvs_of_own X _ _ _ hown, hperm⟩

/-- **one operation (any but `splice`) conserves elements and destroys exactly what it must** -/
theorem HOp.ownD (X : Ctx) (hq : ∀ k, X.o.panicAt k = false) (op : HOp) (hc : op.countedD = true) (s : St) (es : List Elem)
    (h : Abs X s.v es) (hr : op.inRange es) (o : HOut) (s' : St) (hrun : op.run X s = (.ok o, s')) :
    ∃ g, op.givenD es g ∧ Accounts X s s' es o g := by
  have fromOwn : op.counted = true → ∃ g, op.givenOK g ∧ Accounts X s s' es o g := by
    intro hcc
    obtain ⟨es', d, g, habs, _, hg, hown, hperm⟩ := HOp.own X hq op hcc s es h hr o s' hrun
    exact ⟨g, hg, accounts_of_own X s s' es es' d g o habs hown hperm⟩
  cases op with
  | base op => obtain ⟨g, hg, ha⟩ := fromOwn rfl; exact ⟨g, hg, ha⟩
  | extend it => obtain ⟨g, hg, ha⟩ := fromOwn rfl; exact ⟨g, hg, ha⟩
  | dedup => obtain ⟨g, hg, ha⟩ := fromOwn rfl; exact ⟨g, hg, ha⟩
  | dedup_by f => obtain ⟨g, hg, ha⟩ := fromOwn rfl; exact ⟨g, hg, ha⟩
  | dedup_by_key key => obtain ⟨g, hg, ha⟩ := fromOwn rfl; exact ⟨g, hg, ha⟩
  | drain b1 b2 steps => obtain ⟨g, hg, ha⟩ := fromOwn rfl; exact ⟨g, hg, ha⟩
  | drain_filter pred n => obtain ⟨g, hg, ha⟩ := fromOwn rfl; exact ⟨g, hg, ha⟩
  | extend_from_slice elems =>
    simp only [HOp.run, VM.bind_run] at hrun
    cases hx : Vec.extend_from_slice X elems s with
    | mk r s1 =>
      rw [hx] at hrun
      cases r with
      | error p => simp at hrun
      | ok u =>
        simp only [VM.pure_run, Prod.mk.injEq, Except.ok.injEq] at hrun
        obtain ⟨ho, hs⟩ := hrun
        subst hs; subst ho
        exact acc_extend_from_slice X elems s es h s1 hx
  | resize n value =>
    simp only [HOp.run, VM.bind_run] at hrun
    cases hx : Vec.resize X n value s with
    | mk r s1 =>
      rw [hx] at hrun
      cases r with
      | error p => simp at hrun
      | ok u =>
        simp only [VM.pure_run, Prod.mk.injEq, Except.ok.injEq] at hrun
        obtain ⟨ho, hs⟩ := hrun
        subst hs; subst ho
        obtain ⟨new, hall, ha⟩ := acc_resize X hq n value s es h s1 hx
        exact ⟨value :: new, ⟨new, rfl, hall⟩, ha⟩
  | resize_with n gf =>
    simp only [HOp.run, VM.bind_run] at hrun
    cases hx : Vec.resize_with X n gf s with
    | mk r s1 =>
      rw [hx] at hrun
      cases r with
      | error p => simp at hrun
      | ok u =>
        simp only [VM.pure_run, Prod.mk.injEq, Except.ok.injEq] at hrun
        obtain ⟨ho, hs⟩ := hrun
        subst hs; subst ho
        exact acc_resize_with X hq n gf s es h s1 hx
  | remove_item probe =>
    simp only [HOp.run, VM.bind_run] at hrun
    cases hx : Vec.remove_item X probe s with
    | mk r s1 =>
      rw [hx] at hrun
      cases r with
      | error p => simp at hrun
      | ok oe =>
        simp only [VM.pure_run, Prod.mk.injEq, Except.ok.injEq] at hrun
        obtain ⟨ho, hs⟩ := hrun
        subst hs; subst ho
        exact ⟨[], rfl, acc_remove_item X hq probe s es h oe s1 hx⟩
  | extend_from_within b1 b2 =>
    obtain ⟨st, en, hres⟩ := hr
    simp only [HOp.run, VM.bind_run] at hrun
    cases hx : Vec.extend_from_within X b1 b2 s with
    | mk r s1 =>
      rw [hx] at hrun
      cases r with
      | error p => simp at hrun
      | ok u =>
        simp only [VM.pure_run, Prod.mk.injEq, Except.ok.injEq] at hrun
        obtain ⟨ho, hs⟩ := hrun
        subst hs; subst ho
        obtain ⟨g, hg, ha⟩ := acc_extend_from_within X hq s es b1 b2 st en h hres s1 hx
        exact ⟨g, ⟨st, en, hres, hg⟩, ha⟩
  | splice _ _ _ _ => simp [HOp.countedD] at hc

/-- what is handed in or created over a whole history (the contents each operation starts from are existential:
    they are whatever the earlier operations left) -/
def histGivenD : List HOp → List Elem → Prop
  | [], G => G = []
  | op :: rest, G => ∃ es g G', op.givenD es g ∧ histGivenD rest G' ∧ G = g ++ G'

theorem history_accounts (X : Ctx) (hq : ∀ k, X.o.panicAt k = false) (ops : List HOp) (hc : ∀ op ∈ ops, op.countedD = true)
    (s : St) (es : List Elem) (h : Abs X s.v es) (hr : histInRange ops es) (outs : List HOut) (s' : St)
    (hrun : runHist X ops s = (.ok outs, s')) :
    ∃ es' D G, Abs X s'.v es' ∧ histGivenD ops G ∧ dropEvs s'.sys.tr = dropEvs s.sys.tr ++ dropEvents X D ∧
      (D ++ es' ++ outs.flatMap yielded).Perm (es ++ G) := by
  induction ops generalizing s es outs with
  | nil =>
    simp only [runHist, Prod.mk.injEq, Except.ok.injEq] at hrun
    obtain ⟨ho, hs⟩ := hrun
    subst hs; subst ho
    exact ⟨es, [], [], h, rfl, by simp [dropEvents], by simp⟩
  | cons op rest ih =>
    simp only [runHist] at hrun
    cases h1 : op.run X s with
    | mk r s1 =>
      rw [h1] at hrun
      cases r with
      | error p => simp at hrun
      | ok o =>
        simp only at hrun
        cases h2 : runHist X rest s1 with
        | mk r2 s2 =>
          rw [h2] at hrun
          cases r2 with
          | error p => simp at hrun
          | ok os =>
            simp only [Prod.mk.injEq, Except.ok.injEq] at hrun
            obtain ⟨ho, hs⟩ := hrun
            subst hs; subst ho
            -- the contents after this operation: from the refinement theorem (needed for the limits of the rest)
            rcases HOp.refines X hq op s es h hr.1 with ⟨s1', mid, o', hrun', habs1, hpost1⟩ | ⟨p, s1', es1, hrun', _, _⟩
            · rw [h1] at hrun'
              simp only [Prod.mk.injEq, Except.ok.injEq] at hrun'
              obtain ⟨ho', hs'⟩ := hrun'
              subst hs'; subst ho'
              obtain ⟨g1, hg1, mid', d1, habs1', hev1, hperm1⟩ := HOp.ownD X hq op (hc op (by simp)) s es h hr.1 o s1 h1
              have hmid : mid' = mid := Props.Abs.unique habs1' habs1
              subst hmid
              obtain ⟨es', D2, G2, habs2, hg2, hev2, hperm2⟩ :=
                ih (fun op' hm => hc op' (by simp [hm])) s1 mid' habs1 (hr.2 mid' o hpost1) os h2
              refine ⟨es', d1 ++ D2, g1 ++ G2, habs2, ⟨es, g1, G2, hg1, hg2, rfl⟩, ?_, ?_⟩
              · rw [hev2, hev1, dropEvents_append, List.append_assoc]
              · rw [List.perm_iff_count] at hperm1 hperm2 ⊢
                intro a
                have := hperm1 a
                have := hperm2 a
                simp only [List.count_append, List.flatMap_cons] at *
                omega
            · rw [h1] at hrun'; simp at hrun'

/-- **C02 for every history over `HOp` without `splice`** (24 operation kinds): run the history, drop the vector; one
    destructor event per element of `dropped`, and `dropped` together with everything yielded or returned is a
    rearrangement of the starting contents together with everything handed in or created -/
theorem C02_all_histories_partial (X : Ctx) (hq : ∀ k, X.o.panicAt k = false) (ops : List HOp)
    (hc : ∀ op ∈ ops, op.countedD = true) (s : St) (es : List Elem) (h : Abs X s.v es) (hr : histInRange ops es)
    (outs : List HOut) (s' : St) (hrun : runHist X ops s = (.ok outs, s')) :
    ∃ s'' dropped G, Vec.dropVec X s' = (.ok (), s'') ∧ Abs X s''.v [] ∧ histGivenD ops G ∧
      dropEvs s''.sys.tr = dropEvs s.sys.tr ++ dropEvents X dropped ∧
      (dropped ++ outs.flatMap yielded).Perm (es ++ G) := by
  obtain ⟨es', D, G, habs, hG, hev, hperm⟩ := history_accounts X hq ops hc s es h hr outs s' hrun
  obtain ⟨hdef, halloc⟩ := dropVec_spec X hq s' es' habs
  cases hd : s'.v.isDefault with
  | true =>
    have hnil := (habs.sentinel hd).2
    subst hnil
    exact ⟨s', D, G, hdef hd, habs, hG, hev, by simpa using hperm⟩
  | false =>
    obtain ⟨b, _, hdrop⟩ := halloc hd
    refine ⟨_, D ++ es', G, hdrop, Abs.sentinel_abs X h.elem_pos, hG, ?_, hperm⟩
    simp only [dropEvs_append, afterDrops_dropEvs, hev, dropEvents_append, List.append_assoc]
    simp [dropEvs, Ev.isDrop]

end MV.Props

#print axioms MV.Props.HOp.ownD
#print axioms MV.Props.C02_all_histories_partial

import MiniVecProof.Props.C17
import MiniVecProof.Props.C17RemoveItem
/-
  C17 / C01 — `dedup_by` / `dedup_by_key` by VALUES: when the comparison is a function of (call number, the two
  elements) — which the scripted predicates and key functions of the protocol are; only `dedup`'s `PartialEq` can be
  scripted otherwise — the survivors are exactly those of `Vec::dedup_by`: an element is dropped iff the comparison
  says it equals the LAST KEPT one (not its predecessor), each comparison is made once, in order.
-/
namespace MV.Props
open MV MV.Gen MV.GM VM

/-- `Vec::dedup_by` on a list, `last` being the last element kept so far and `k` the number of comparisons made -/
def dedupFrom (g : Nat → Elem → Elem → Bool) : Nat → Elem → List Elem → List Elem
  | _, _, [] => []
  | k, last, e :: rest => if g k e last then dedupFrom g (k + 1) last rest else e :: dedupFrom g (k + 1) e rest

def dedupAll (g : Nat → Elem → Elem → Bool) : List Elem → List Elem
  | [] => []
  | x :: xs => x :: dedupFrom g 0 x xs

/-- a comparison callback that is a pure function of its arguments (it may run callbacks that touch nothing) -/
def SameFn (same : Nat → Elem → Elem → VM Bool) (g : Nat → Elem → Elem → Bool) : Prop :=
  ∀ k a b (s : St), ∃ s', same k a b s = (.ok (g k a b), s') ∧ s'.v = s.v ∧ s'.sys.tr = s.sys.tr

theorem getElem_last_kept (kept rej rest : List Elem) (hk : kept ≠ []) (h : kept.length - 1 < (kept ++ rej ++ rest).length) :
    (kept ++ rej ++ rest)[kept.length - 1] = kept.getLast hk := by
  have hkl : 0 < kept.length := List.length_pos_iff.mpr hk
  have h1 : (kept ++ rej ++ rest)[kept.length - 1] = (kept ++ (rej ++ rest))[kept.length - 1]'(by simp; omega) := by
    simp only [List.append_assoc]
  rw [h1, List.getElem_append_left (by omega), List.getLast_eq_getElem]

/-- the scan of `dedup_by` with a comparison that is a function: the survivors are `dedupFrom` -/
theorem dedup_go_exact (X : Ctx) (same : Nat → Elem → Elem → VM Bool) (g : Nat → Elem → Elem → Bool) (hs : SameFn same g) :
    ∀ (rest kept rej : List Elem) (k : Nat) (s : St), Abs X s.v (kept ++ rej ++ rest) → s.v.isDefault = false →
    (hk : kept ≠ []) →
    ∃ s' rej', Vec.dedup_by.go same (.at (dataOff s.v.align)) rest.length (kept.length + rej.length) kept.length k s =
        (.ok (kept ++ dedupFrom g k (kept.getLast hk) rest).length, s') ∧
      Abs X s'.v ((kept ++ dedupFrom g k (kept.getLast hk) rest) ++ rej') ∧
      s'.v.cap = s.v.cap ∧ s'.v.isDefault = false ∧ s'.v.align = s.v.align := by
  intro rest
  induction rest with
  | nil =>
    intro kept rej k s h hd hk
    refine ⟨s, rej, ?_, by simpa [dedupFrom] using h, rfl, hd, rfl⟩
    simp [Vec.dedup_by.go, dedupFrom]
  | cons e rest ih =>
    intro kept rej k s h hd hk
    have hlen : kept.length + rej.length < (kept ++ rej ++ e :: rest).length := by simp
    have hkl : 0 < kept.length := List.length_pos_iff.mpr hk
    have h1 := rd_abs X s _ h hd (kept.length + rej.length) hlen
    have he : (kept ++ rej ++ e :: rest)[kept.length + rej.length] = e := by
      rw [List.getElem_append_right (by simp)]; simp
    rw [he] at h1
    have hlen2 : kept.length - 1 < (kept ++ rej ++ e :: rest).length := by simp; omega
    have h1b := rd_abs X s _ h hd (kept.length - 1) hlen2
    rw [getElem_last_kept kept rej (e :: rest) hk hlen2] at h1b
    obtain ⟨s1, hsame, hv1, htr1⟩ := hs k e (kept.getLast hk) s
    have habs_s1 : Abs X s1.v (kept ++ rej ++ e :: rest) := by rw [hv1]; exact h
    have hd1 : s1.v.isDefault = false := by rw [hv1]; exact hd
    have hal1 : s1.v.align = s.v.align := by rw [hv1]
    unfold Vec.dedup_by.go
    simp only [List.length_cons, VM.bind_run, h1, h1b, hsame]
    cases hr : g k e (kept.getLast hk) with
    | false =>
      simp only [Bool.not_false, if_true]
      have hdf : dedupFrom g k (kept.getLast hk) (e :: rest) = e :: dedupFrom g (k + 1) e rest := by
        simp [dedupFrom, hr]
      have hlast : (kept ++ [e]).getLast (by simp) = e := by simp
      cases rej with
      | nil =>
        have habs1 : Abs X s1.v ((kept ++ [e]) ++ [] ++ rest) := by simpa using habs_s1
        obtain ⟨s', rej', hrun, habs', hc, hd', hal⟩ := ih (kept ++ [e]) [] (k + 1) s1 habs1 hd1 (by simp)
        rw [hlast] at hrun habs'
        refine ⟨s', rej', ?_, by rw [hdf]; simpa using habs', by rw [hc, hv1], hd', by rw [hal, hv1]⟩
        simp only [List.length_nil, Nat.add_zero, ne_eq, not_true_eq_false, if_false]
        rw [hal1] at hrun
        rw [hdf]
        simp only [List.length_append, List.length_singleton, List.length_nil, Nat.add_zero, List.length_cons] at hrun ⊢
        simpa [Nat.add_assoc, Nat.add_comm 1] using hrun
      | cons r0 rt =>
        have hne : kept.length + (r0 :: rt).length ≠ kept.length := by simp
        have hw : kept.length < (kept ++ (r0 :: rt) ++ e :: rest).length := by simp
        obtain ⟨v', hsw, habs', hc, hd', hal, hb⟩ :=
          sw_abs X s1 (kept ++ (r0 :: rt) ++ e :: rest) habs_s1 hd1 (kept.length + (r0 :: rt).length) kept.length hlen hw
        have hw0 : (kept ++ (r0 :: rt) ++ e :: rest)[kept.length] = r0 := by
          rw [List.getElem_append_left (by simp), List.getElem_append_right (by simp)]; simp
        simp only [List.length_cons] at he habs'
        simp only [hw0, he] at habs'
        rw [retain_swap_list] at habs'
        have habs1 : Abs X ({ s1 with v := v' } : St).v ((kept ++ [e]) ++ (rt ++ [r0]) ++ rest) := habs'
        obtain ⟨s', rej', hrun, habs2, hc2, hd2, hal2⟩ :=
          ih (kept ++ [e]) (rt ++ [r0]) (k + 1) { s1 with v := v' } habs1 hd' (by simp)
        rw [hlast] at hrun habs2
        refine ⟨s', rej', ?_, by rw [hdf]; simpa using habs2,
          by rw [hc2]; show v'.cap = _; rw [hc, hv1], hd2, by rw [hal2]; show v'.align = _; rw [hal, hv1]⟩
        simp only [hne, ne_eq, not_false_eq_true, if_true, VM.bind_run]
        have hsw' : VM.sw (.at (dataOff s.v.align)) (kept.length + (r0 :: rt).length) kept.length s1 =
            (.ok (), { s1 with v := v' }) := by rw [← hal1]; exact hsw
        rw [hsw']
        simp only
        have : ({ s1 with v := v' } : St).v.align = s.v.align := by show v'.align = _; rw [hal, hv1]
        rw [this] at hrun
        rw [hdf]
        simp only [List.length_append, List.length_singleton, List.length_cons] at hrun ⊢
        rw [show kept.length + (rt.length + 1) + 1 = kept.length + 1 + (rt.length + 1) by omega]
        simpa [Nat.add_assoc, Nat.add_comm 1] using hrun
    | true =>
      simp only [Bool.not_true, Bool.false_eq_true, if_false]
      have hdf : dedupFrom g k (kept.getLast hk) (e :: rest) = dedupFrom g (k + 1) (kept.getLast hk) rest := by
        simp [dedupFrom, hr]
      have habs1 : Abs X s1.v (kept ++ (rej ++ [e]) ++ rest) := by simpa using habs_s1
      obtain ⟨s', rej', hrun, habs', hc, hd', hal⟩ := ih kept (rej ++ [e]) (k + 1) s1 habs1 hd1 hk
      refine ⟨s', rej', ?_, by rw [hdf]; exact habs', by rw [hc, hv1], hd', by rw [hal, hv1]⟩
      have hl : (rej ++ [e]).length = rej.length + 1 := by simp
      rw [hl, hal1] at hrun
      rw [hdf, Nat.add_assoc]; exact hrun

/-- **`dedup_by` with a comparison that is a function**: the vector ends up holding exactly `Vec::dedup_by`'s survivors -/
theorem dedup_by_exact (X : Ctx) (hq : ∀ k, X.o.panicAt k = false) (same : Nat → Elem → Elem → VM Bool)
    (g : Nat → Elem → Elem → Bool) (hs : SameFn same g) (s : St) (es : List Elem) (h : Abs X s.v es) :
    ∃ s', Vec.dedup_by X same s = (.ok (), s') ∧ Abs X s'.v (dedupAll g es) := by
  have hL : (hsOf s.v s.sys.allocIdx).L = es.length := h.len_eq
  by_cases hlt : es.length < 2
  · have h1 : VM.lift X (dedup_by_pre X.env) s = (.ok (.ret 0), s) :=
      lift_read X _ s _ (by
        unfold dedup_by_pre
        simp only [len_run, GM.bind_run, hL, hlt, decide_true, if_true, GM.pure_run])
    refine ⟨s, ?_, ?_⟩
    · unfold Vec.dedup_by
      simp only [VM.bind_run, h1, VM.pure_run]
    · cases es with
      | nil => simpa [dedupAll] using h
      | cons x xs =>
        cases xs with
        | nil => simpa [dedupAll, dedupFrom] using h
        | cons y ys => simp at hlt; omega
  · have hd : s.v.isDefault = false := by
      cases hd : s.v.isDefault
      · rfl
      · have := (h.sentinel hd).2; subst this; simp at hlt
    obtain ⟨b, hb, hl, hsl, hlc, hel, hinit⟩ := h.alloc hd
    have hal : b.lay.align = s.v.align := (make_layout_honest _ _ _ _ hl).2.1
    have hcapb : s.v.cap ≤ b.slots.length := by rw [hsl]; exact physSlots_ge X.env _ _ _ hl h.elem_pos
    have hptr := as_mut_ptr_run X.env (hsOf s.v s.sys.allocIdx) hd b.lay s.v.cap hl
    have h1 : VM.lift X (dedup_by_pre X.env) s =
        (.ok (.cont ⟨es.length, .at (dataOff s.v.align)⟩), s) :=
      lift_read X _ s _ (by
        unfold dedup_by_pre
        simp only [len_run, GM.bind_run, hL, hlt, decide_false, Bool.false_eq_true, if_false, hptr, GM.pure_run]
        rfl)
    have h2 := inb_blk s b hb es.length (by omega)
    rw [hal] at h2
    cases es with
    | nil => simp at hlt
    | cons e0 rest =>
      obtain ⟨s1, rej, hrun, habs1, _, _, _⟩ := dedup_go_exact X same g hs rest [e0] [] 0 s (by simpa using h) hd (by simp)
      simp only [List.length_singleton, List.length_nil, Nat.add_zero, List.getLast_singleton] at hrun habs1
      obtain ⟨v', ht, habs2, _⟩ := truncate_spec X hq s1 _ ([e0] ++ dedupFrom g 0 e0 rest).length habs1
      refine ⟨{ afterDrops X s1 ((([e0] ++ dedupFrom g 0 e0 rest) ++ rej).drop ([e0] ++ dedupFrom g 0 e0 rest).length) with v := v' },
        ?_, by simpa [dedupAll] using habs2⟩
      unfold Vec.dedup_by
      simp only [List.length_cons] at h2
      simp only [VM.bind_run, h1, List.length_cons, Nat.add_sub_cancel, h2, hrun, ht]

/-- (C17 / C01) `dedup_by(pred)` and `dedup_by_key(key)` as the protocol scripts them -/
theorem C17_dedup_by_exact (X : Ctx) (hq : ∀ k, X.o.panicAt k = false) (s : St) (es : List Elem) (h : Abs X s.v es) :
    (∀ f : Vec.Pred2, ∃ s', Vec.dedup_by_pred X f s = (.ok (), s') ∧ Abs X s'.v (dedupAll f es)) ∧
    (∀ key : Nat → Elem → Int, ∃ s', Vec.dedup_by_key X key s = (.ok (), s') ∧
      Abs X s'.v (dedupAll (fun k a b => key (2 * k) a == key (2 * k + 1) b) es)) := by
  refine ⟨fun f => ?_, fun key => ?_⟩
  · refine dedup_by_exact X hq _ f (fun k a b s => ?_) s es h
    simp only [VM.bind_run, VM.callback, hq, Bool.false_eq_true, if_false, VM.pure_run]
    exact ⟨_, rfl, rfl, rfl⟩
  · refine dedup_by_exact X hq _ (fun k a b => key (2 * k) a == key (2 * k + 1) b) (fun k a b s => ?_) s es h
    simp only [VM.bind_run, VM.callback, hq, Bool.false_eq_true, if_false, VM.pure_run]
    exact ⟨_, rfl, rfl, rfl⟩

/-- `dedup` with the element type's own (unscripted) `PartialEq`: consecutive runs of equal values collapse to their first
    element -/
theorem C17_dedup_lawful (X : Ctx) (hq : ∀ k, X.o.panicAt k = false) (heq : ∀ k, X.o.eqScript k = none)
    (s : St) (es : List Elem) (h : Abs X s.v es) :
    ∃ s', Vec.dedup X s = (.ok (), s') ∧ Abs X s'.v (dedupAll (fun _ a b => a.val == b.val) es) := by
  refine dedup_by_exact X hq _ (fun _ a b => a.val == b.val) (fun k a b s => ?_) s es h
  simp only [Vec.eqElem, VM.callback, hq, Bool.false_eq_true, if_false, heq, Option.getD_none]
  exact ⟨_, rfl, rfl, rfl⟩

/-- remove the first element satisfying `p`: what `remove_item` does with a lawful `PartialEq` -/
def removeFirst (p : Elem → Bool) : List Elem → Option Elem × List Elem
  | [] => (none, [])
  | e :: es => if p e then (some e, es) else ((removeFirst p es).1, e :: (removeFirst p es).2)

theorem eqElem_lawful (X : Ctx) (hq : ∀ k, X.o.panicAt k = false) (heq : ∀ k, X.o.eqScript k = none) (a b : Elem) (s : St) :
    ∃ s', Vec.eqElem X a b s = (.ok (a.val == b.val), s') ∧ s'.v = s.v ∧ s'.sys.tr = s.sys.tr := by
  simp only [Vec.eqElem, VM.callback, hq, Bool.false_eq_true, if_false, heq, Option.getD_none]
  exact ⟨_, rfl, rfl, rfl⟩

theorem remove_item_go_lawful (X : Ctx) (hq : ∀ k, X.o.panicAt k = false) (heq : ∀ k, X.o.eqScript k = none)
    (probe : Elem) (es : List Elem) :
    ∀ (fuel i : Nat) (s : St), Abs X s.v es → i + fuel = es.length →
    ∃ s', Vec.remove_item.go X probe fuel i s = (.ok (removeFirst (fun e => e.val == probe.val) (es.drop i)).1, s') ∧
      Abs X s'.v (es.take i ++ (removeFirst (fun e => e.val == probe.val) (es.drop i)).2) := by
  intro fuel
  induction fuel with
  | zero =>
    intro i s h hi
    have : es.drop i = [] := List.drop_eq_nil_of_le (by omega)
    refine ⟨s, by simp [Vec.remove_item.go, this, removeFirst], ?_⟩
    rw [this, List.take_of_length_le (by omega)]
    simpa [removeFirst] using h
  | succ fuel ih =>
    intro i s h hi
    have hlt : i < es.length := by omega
    have h1 := readOf_spec X s.v es h i hlt s
    obtain ⟨s1, he, hv1, _⟩ := eqElem_lawful X hq heq es[i] probe s
    have hdrop : es.drop i = es[i] :: es.drop (i + 1) := (List.drop_eq_getElem_cons hlt)
    unfold Vec.remove_item.go
    simp only [VM.bind_run, VM.getV_run, h1, he]
    cases hr : (es[i].val == probe.val) with
    | true =>
      simp only [if_true]
      obtain ⟨v', hrun, habs, _, _⟩ := remove_spec X s1 es i (by rw [hv1]; exact h) hlt
      simp only [VM.bind_run, hrun, VM.pure_run]
      refine ⟨{ s1 with v := v' }, by rw [hdrop]; simp only [removeFirst, hr, if_true], ?_⟩
      rw [hdrop]
      simp only [removeFirst, hr, if_true]
      rw [List.eraseIdx_eq_take_drop_succ] at habs
      exact habs
    | false =>
      simp only [Bool.false_eq_true, if_false]
      obtain ⟨s', hrun, habs⟩ := ih (i + 1) s1 (by rw [hv1]; exact h) (by omega)
      refine ⟨s', by rw [hrun, hdrop]; simp only [removeFirst, hr, Bool.false_eq_true, if_false], ?_⟩
      rw [hdrop]
      simp only [removeFirst, hr, Bool.false_eq_true, if_false]
      rw [List.take_succ_eq_append_getElem hlt, List.append_assoc] at habs
      simpa using habs

/-- **`remove_item` with the element type's own `PartialEq`**: the first element equal to the probe is removed and returned -/
theorem C17_remove_item_lawful (X : Ctx) (hq : ∀ k, X.o.panicAt k = false) (heq : ∀ k, X.o.eqScript k = none)
    (probe : Elem) (s : St) (es : List Elem) (h : Abs X s.v es) :
    ∃ s', Vec.remove_item X probe s = (.ok (removeFirst (fun e => e.val == probe.val) es).1, s') ∧
      Abs X s'.v (removeFirst (fun e => e.val == probe.val) es).2 := by
  have hL : (hsOf s.v s.sys.allocIdx).L = es.length := h.len_eq
  have h1 : VM.lift X (remove_item_pre X.env) s = (.ok (.cont ⟨es.length⟩), s) :=
    lift_read X _ s _ (by unfold remove_item_pre; simp only [len_run, GM.bind_run, hL, GM.pure_run])
  unfold Vec.remove_item
  simp only [VM.bind_run, h1]
  have := remove_item_go_lawful X hq heq probe es es.length 0 s h (by omega)
  simpa using this

/-- the specification is what `Vec::dedup_by` computes: a test on three literal elements (not the theorem) -/
example : (dedupAll (fun _ a b => a.val / 10 == b.val / 10) [⟨1, 10⟩, ⟨2, 11⟩, ⟨3, 20⟩, ⟨4, 12⟩, ⟨5, 13⟩]).map (·.id) = [1, 3, 4] := by
  decide

end MV.Props

#print axioms MV.Props.dedup_go_exact
#print axioms MV.Props.dedup_by_exact
#print axioms MV.Props.C17_dedup_by_exact
#print axioms MV.Props.C17_dedup_lawful
#print axioms MV.Props.C17_remove_item_lawful

import MiniVecProof.Model.Vec
/-
  Hand-written model of `src/serde.rs`: `Serialize` (one sequence of the exposed elements),
  `visit_seq` (with_capacity(capped hint), push each element) and `deserialize_in_place`
  (reserve(capped hint - len), overwrite existing slots, truncate at early end, push the rest),
  over a scripted `SeqAccess`. `map_size_hint` is the REGENERATED `Gen.map_size_hint`.
-/
namespace MV
open VM

inductive SeqItem
  | val (v : Int)
  | err
  | none        -- `Ok(None)` here; the access goes on with the following items if it is polled again
  deriving Repr, Inhabited

namespace Serde

/-- one `next_element*` call of the scripted `SeqAccess` -/
def nextElement (X : Ctx) (sc : List SeqItem) : VM (Except Unit (Option Elem) × List SeqItem) := do
  callback X
  match sc with
  | [] => pure (.ok none, [])
  | .err :: rest => pure (.error (), rest)
  | .none :: rest => pure (.ok none, rest)
  | .val v :: rest => do
    let e ← mkElem v
    pure (.ok (some e), rest)

/-- `while let Some(value) = seq.next_element()? { values.push(value) }`; `false` = stopped by `Err` -/
def pushRest (X : Ctx) : Nat → List SeqItem → VM Bool
  | 0, _ => pure true
  | fuel + 1, sc => do
    let (r, sc') ← nextElement X sc
    match r with
    | .error _ => pure false
    | .ok none => pure true
    | .ok (some e) => do
      Vec.push X e
      pushRest X fuel sc'

/-- `MiniVec::deserialize` through `visit_seq`: `none` = `Err` (the partly built vector is dropped) -/
def deserialize (X : Ctx) (hint : Option Nat) (sc : List SeqItem) : VM (Option VSt) := do
  let h ← lift X (GM.liftE (Gen.map_size_hint X.env hint))
  let (ok, o) ← Vec.withLocal X {} (do
    lift X (Gen.with_capacity X.env h)
    pushRest X (sc.length + 1) sc)
  if ok then pure (some o) else do
    let _ ← onVec o (Vec.dropVec X)
    pure none

/-- the overwrite loop of `deserialize_in_place`: `Ok(true)` = all old slots overwritten,
    `Ok(false)` = input ended early (vector truncated), `Err` = element error -/
def overwrite (X : Ctx) : Nat → Nat → Nat → List SeqItem → VM (Except Unit Bool × List SeqItem)
  | 0, _, _, sc => pure (.ok true, sc)
  | fuel + 1, i, n, sc =>
    if i < n then do
      let (r, sc') ← nextElement X sc
      match r with
      | .error _ => pure (.error (), sc')
      | .ok none => do
        Vec.truncate X i
        pure (.ok false, sc')
      | .ok (some e) => do
        -- `*place = T::deserialize(d)?`: the old value is destroyed, then the new one is stored
        let p ← lift X (Gen.as_mut_ptr X.env)
        let old ← rd p i
        -- the new value is stored on the unwind path too (drop-and-replace)
        guarded (dropElem X old) (wr p i e)
        overwrite X fuel (i + 1) n sc'
    else pure (.ok true, sc)

/-- `values.reserve(hint.saturating_sub(len))` as the code writes it: nothing when the capped hint is not larger -/
def reserveHint (X : Ctx) (h len : Nat) : VM Unit :=
  match checkedSub h len with
  | some add => Vec.reserve X add
  | none => pure ()

/-- the two loops of `deserialize_in_place` after the reservation -/
def inPlaceBody (X : Ctx) (sc : List SeqItem) : VM Bool := do
  let n ← lift X (Gen.len X.env)
  let (r, sc') ← overwrite X (n + 1) 0 n sc
  match r with
  | .error _ => pure false
  | .ok false => pure true
  | .ok true => pushRest X (sc'.length + 1) sc'

def deserialize_in_place (X : Ctx) (hint : Option Nat) (sc : List SeqItem) : VM Bool := do
  let h ← lift X (GM.liftE (Gen.map_size_hint X.env hint))
  let len ← lift X (Gen.len X.env)
  reserveHint X h len
  inPlaceBody X sc

end Serde
end MV
